import Yaep.Model.MakeParse
/-!
# Facts about the model of `make_parse`: fuel independence, well-formed export
-/
namespace Yaep.MP
open Yaep

/-! ## fuel -/

theorem run_fuel_mono (c : Ctx) : ∀ (f : Nat) (s s' : St), run c f s = some s' →
    ∀ k, run c (f + k) s = some s'
  | 0, s, s', h, k => by
    unfold run at h
    by_cases he : s.stack.isEmpty = true
    · simp [he] at h
      subst h
      cases k with
      | zero => simp [run, he]
      | succ k => simp [run, he]
    · simp [he] at h
  | f + 1, s, s', h, k => by
    have hk : f + 1 + k = (f + k) + 1 := by omega
    rw [hk]
    unfold run at h ⊢
    by_cases he : s.stack.isEmpty = true
    · simpa [he] using h
    · simp [he] at h ⊢
      exact run_fuel_mono c f _ _ h k

theorem run_stack_empty (c : Ctx) : ∀ (f : Nat) (s s' : St), run c f s = some s' → s'.stack = []
  | 0, s, s', h => by
    unfold run at h
    by_cases he : s.stack.isEmpty = true
    · simp [he] at h; subst h; simpa using he
    · simp [he] at h
  | f + 1, s, s', h => by
    unfold run at h
    by_cases he : s.stack.isEmpty = true
    · simp [he] at h; subst h; simpa using he
    · simp [he] at h; exact run_stack_empty c f _ _ h

/-- once the fuel suffices, more fuel does not change the result of `make_parse` -/
theorem makeParse_fuel_mono (g : Grammar) (sets : Array (Array Item)) (plToks : Array Int) (one : Bool)
    (f k : Nat) (h : makeParse g sets plToks one f ≠ .outOfFuel) :
    makeParse g sets plToks one (f + k) = makeParse g sets plToks one f := by
  simp only [makeParse] at h ⊢
  cases hi : init (mkCtx g sets plToks one) with
  | none => rfl
  | some s0 =>
    cases hr : run (mkCtx g sets plToks one) f s0 with
    | none => simp [hi, hr] at h
    | some s => simp only [run_fuel_mono _ f s0 s hr k, hr]

/-! ## the exported table is a topological order -/

/-- children of every entry have smaller numbers -/
def WFout (out : Array NodeRec) : Prop :=
  ∀ i, i < out.size → ∀ k, k ∈ (out.getD i .bad).children → k < i

/-- every number handed out refers to an entry -/
def IdsBound (ex : ExSt) : Prop :=
  ∀ n id, ex.ids.getD n none = some id → id < ex.out.size

def Inv (ex : ExSt) : Prop := ex.cycle = true ∨ (WFout ex.out ∧ IdsBound ex)

/-- what one call of the exporter guarantees -/
structure Step (ex : ExSt) (r : ExSt × Nat) : Prop where
  cyc : ex.cycle = true → r.1.cycle = true
  size : ex.out.size ≤ r.1.out.size
  inv : Inv ex → Inv r.1
  id : Inv ex → r.1.cycle = false → r.2 < r.1.out.size

structure Steps (ex : ExSt) (acc : List Nat) (r : ExSt × List Nat) : Prop where
  cyc : ex.cycle = true → r.1.cycle = true
  size : ex.out.size ≤ r.1.out.size
  inv : Inv ex → Inv r.1
  ids : Inv ex → (ex.cycle = false → ∀ a, a ∈ acc → a < ex.out.size) →
        r.1.cycle = false → ∀ a, a ∈ r.2 → a < r.1.out.size

theorem exportKids_steps (f : ExSt → Nat → ExSt × Nat) (hf : ∀ ex k, Step ex (f ex k)) :
    ∀ (ks : List Nat) (ex : ExSt) (acc : List Nat), Steps ex acc (exportKids f ks ex acc)
  | [], ex, acc => by
    refine ⟨fun h => h, Nat.le_refl _, fun h => h, ?_⟩
    intro _ hacc hc a ha
    exact hacc hc a ha
  | k :: ks, ex, acc => by
    have h1 := hf ex k
    have h2 := exportKids_steps f hf ks (f ex k).1 (acc ++ [(f ex k).2])
    show Steps ex acc (exportKids f ks (f ex k).1 (acc ++ [(f ex k).2]))
    refine ⟨fun h => h2.cyc (h1.cyc h), Nat.le_trans h1.size h2.size, fun h => h2.inv (h1.inv h), ?_⟩
    intro hinv hacc hc a ha
    refine h2.ids (h1.inv hinv) ?_ hc a ha
    intro hc1 b hb
    have hc0 : ex.cycle = false := by
      cases hx : ex.cycle with
      | false => rfl
      | true => rw [h1.cyc hx] at hc1; cases hc1
    rcases List.mem_append.1 hb with hb | hb
    · exact Nat.lt_of_lt_of_le (hacc hc0 b hb) h1.size
    · have : b = (f ex k).2 := by simpa using hb
      rw [this]; exact h1.id hinv hc1

theorem cellRec_children (h : Array MNode) (n : Nat) (ids : List Nat) :
    ∀ k, k ∈ (cellRec h n ids).children → k ∈ ids := by
  intro k hk
  unfold cellRec at hk
  split at hk <;> simp [NodeRec.children] at hk <;> exact hk

theorem getD_push_lt {α : Type} (a : Array α) (x d : α) (i : Nat) (h : i < a.size) :
    (a.push x).getD i d = a.getD i d := by
  simp [Array.getD_eq_getD_getElem?, Array.getElem?_push, Nat.ne_of_lt h]

theorem getD_push_eq {α : Type} (a : Array α) (x d : α) : (a.push x).getD a.size d = x := by
  simp [Array.getD_eq_getD_getElem?]

theorem getD_set! {α : Type} (a : Array α) (i j : Nat) (x d : α) :
    (a.set! i x).getD j d = if i = j ∧ i < a.size then x else a.getD j d := by
  simp only [Array.set!_eq_setIfInBounds, Array.getD_eq_getD_getElem?, Array.getElem?_setIfInBounds]
  by_cases hij : i = j
  · subst hij
    by_cases hi : i < a.size <;> simp [hi]
  · simp [hij]

theorem exportNode_step (h : Array MNode) : ∀ (fuel : Nat) (ex : ExSt) (n : Nat),
    Step ex (exportNode h fuel ex n)
  | 0, ex, n => by
    unfold exportNode
    exact ⟨fun _ => rfl, Nat.le_refl _, fun _ => Or.inl rfl, fun _ hc => by simp at hc⟩
  | fuel + 1, ex, n => by
    unfold exportNode
    split
    · rename_i id hid
      refine ⟨fun h => h, Nat.le_refl _, fun h => h, ?_⟩
      intro hinv hc
      rcases hinv with hcy | ⟨_, hb⟩
      · simp [hcy] at hc
      · exact hb n id hid
    · split
      · exact ⟨fun _ => rfl, Nat.le_refl _, fun _ => Or.inl rfl, fun _ hc => by simp at hc⟩
      · -- the cell is exported now
        have hk := exportKids_steps (exportNode h fuel) (exportNode_step h fuel) (cellKids h n)
          { ex with visiting := ex.visiting.set! n true } []
        generalize exportKids (exportNode h fuel) (cellKids h n)
          { ex with visiting := ex.visiting.set! n true } [] = p at hk
        have hinv0 : Inv ex → Inv { ex with visiting := ex.visiting.set! n true } := fun hi => hi
        refine ⟨fun hc => hk.cyc hc, Nat.le_trans hk.size (by simp), ?_, ?_⟩
        · intro hinv
          have hi1 := hk.inv (hinv0 hinv)
          cases hc : p.1.cycle with
          | true => exact Or.inl hc
          | false =>
            right
            rcases hi1 with hcy | ⟨hwf, hb⟩
            · rw [hc] at hcy; cases hcy
            · have hids := hk.ids (hinv0 hinv) (fun _ a ha => by cases ha) hc
              constructor
              · intro i hi k hkm
                simp only [Array.size_push] at hi
                by_cases hlt : i < p.1.out.size
                · rw [getD_push_lt _ _ _ _ hlt] at hkm
                  exact hwf i hlt k hkm
                · have : i = p.1.out.size := by omega
                  subst this
                  rw [getD_push_eq] at hkm
                  exact hids k (cellRec_children h n p.2 k hkm)
              · intro m id hm
                simp only [Array.size_push]
                rw [getD_set!] at hm
                split at hm
                · cases hm; omega
                · exact Nat.lt_succ_of_lt (hb m id hm)
        · intro _ _
          simp

theorem wfout_iff (out : Array NodeRec) : tableWF out = true ↔ WFout out := by
  unfold tableWF WFout
  simp [List.all_eq_true]

/-- the table the model hands to the judge is a topological order (children before parents)
and contains the root: exactly the premises of `denoteTab_spec` -/
theorem exportTable_wf {h : Array MNode} {root : Nat} {tab : Array NodeRec} {r : Nat}
    (hx : exportTable h root = some (tab, r)) : tableWF tab = true ∧ r < tab.size := by
  unfold exportTable at hx
  have hs := exportNode_step h (h.size + 1)
    { ids := Array.replicate h.size none, visiting := Array.replicate h.size false } root
  generalize exportNode h (h.size + 1)
    { ids := Array.replicate h.size none, visiting := Array.replicate h.size false } root = p at hs hx
  have hinv : Inv { ids := Array.replicate h.size none, visiting := Array.replicate h.size false } := by
    right
    constructor
    · intro i hi; simp at hi
    · intro n id hn
      simp [Array.getD_eq_getD_getElem?, Array.getElem?_replicate] at hn
      split at hn <;> simp at hn
  obtain ⟨ex, rr⟩ := p
  simp only at hx
  split at hx
  · cases hx
  · rename_i hc
    simp at hx
    obtain ⟨h1, h2⟩ := hx
    subst h1; subst h2
    have hc' : ex.cycle = false := by simpa using hc
    constructor
    · rcases hs.inv hinv with hcy | ⟨hwf, _⟩
      · simp [hc'] at hcy
      · exact (wfout_iff _).2 hwf
    · exact hs.id hinv hc'

theorem makeParse_tableWF {g : Grammar} {sets : Array (Array Item)} {plToks : Array Int} {one : Bool}
    {fuel : Nat} {res : Result} (hm : makeParse g sets plToks one fuel = .ok res) :
    tableWF res.tab = true ∧ res.root < res.tab.size := by
  simp only [makeParse] at hm
  split at hm
  · cases hm
  · split at hm
    · cases hm
    · split at hm
      · cases hm
      · split at hm
        · cases hm
        · split at hm
          · cases hm
          · rename_i hx
            injection hm with hm
            subst hm
            exact exportTable_wf hx

end Yaep.MP
