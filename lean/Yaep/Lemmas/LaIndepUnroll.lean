import Yaep.Lemmas.LaIndepSem
/-!
# Lookahead independence, part 9: every set of the final parse list is `build_new_set` of its prefix

`parseLoopC_unroll`: element `j ≥ 1` of the list `build_pl` returns is
`build_new_set (prefix of length j, token j - 1, lookahead token j)`, the prefix satisfies the parse-list
invariant.  `buildNewSet_lists`: such a set is made by `expand_new_start_set` from the start pairs
`newStarts`.
-/
namespace Yaep.LI
open Yaep Yaep.BS

section
variable {g : Grammar} {an : Analysis}

theorem buildNewSet_lists {ok : Nat → Nat → Bool} {tab : Tab} {pl : List CSet} {a : Nat}
    (htab : TabInv g an tab) :
    ∃ I, ExpandLists g an ((newStarts g an ok pl a).1.map (·.1))
        (buildNewSet g an ok tab pl (pl.getLastD default) (Sym.t a)).2.core I ∧
      (buildNewSet g an ok tab pl (pl.getLastD default) (Sym.t a)).2.dists =
        (newStarts g an ok pl a).1.map (·.2) := by
  have hspec := insert_expand_spec htab (newStarts g an ok pl a).1
  have hunf : buildNewSet g an ok tab pl (pl.getLastD default) (Sym.t a) =
      let st := newStarts g an ok pl a
      let r := setInsert tab st.1
      let tab' : Tab := { r.1 with bad := r.1.bad || st.2 }
      if r.2.2 then
        (tab'.storeCore (expandNewStartSet g an r.2.1.core),
          { r.2.1 with core := expandNewStartSet g an r.2.1.core })
      else (tab', r.2.1) := rfl
  rw [hunf]
  dsimp only at hspec ⊢
  by_cases hnew : (setInsert tab (newStarts g an ok pl a).1).2.2 = true
  · rw [if_pos hnew] at hspec ⊢
    obtain ⟨_, hd, num, hc⟩ := hspec
    obtain ⟨I, hI⟩ := expandNewStartSet_lists g an num ((newStarts g an ok pl a).1.map (·.1))
    exact ⟨I, by rw [← hc] at hI; exact hI, hd⟩
  · rw [if_neg hnew] at hspec ⊢
    obtain ⟨_, hd, num, hc⟩ := hspec
    obtain ⟨I, hI⟩ := expandNewStartSet_lists g an num ((newStarts g an ok pl a).1.map (·.1))
    exact ⟨I, by rw [← hc] at hI; exact hI, hd⟩

/-- every element after the given ones is `build_new_set` of the elements before it -/
theorem parseLoopC_unroll (la : Nat) (hnl : an.nl = g.nullable) (w' : List Nat) :
    ∀ (toks : List Nat) (tab : Tab) (pl : List CSet) (plA : List (List Item)) (k : Nat),
      TabInv g an tab → PLOK g plA pl → pl ≠ [] → (∀ cs ∈ pl, Expanded g an cs) →
      w'.drop k = toks → pl.length = k + 1 →
      (∃ e, (parseLoopC g an la toks tab pl k).2.2 = pl ++ e) ∧
      ∀ j, pl.length ≤ j → j < (parseLoopC g an la toks tab pl k).2.2.length →
        ∃ (tab' : Tab) (plA' : List (List Item)) (a : Nat), TabInv g an tab' ∧
          PLOK g plA' ((parseLoopC g an la toks tab pl k).2.2.take j) ∧ w'[j - 1]? = some a ∧
          (parseLoopC g an la toks tab pl k).2.2.getD j default =
            (buildNewSet g an (okItem g an la w'[j]?) tab'
              ((parseLoopC g an la toks tab pl k).2.2.take j)
              (((parseLoopC g an la toks tab pl k).2.2.take j).getLastD default) (Sym.t a)).2 := by
  intro toks
  induction toks with
  | nil =>
    intro tab pl plA k _ _ _ _ _ _
    rw [parseLoopC_nil]
    exact ⟨⟨[], by simp⟩, fun j h1 h2 => absurd h2 (by simp only; omega)⟩
  | cons a rest ih =>
    intro tab pl plA k ht h hne he hdrop hlen
    rw [parseLoopC_cons]
    by_cases hT : (pl.getLastD default).core.find (Sym.t a) = true
    · rw [if_pos hT]
      obtain ⟨hw, hrest⟩ := drop_succ_of_drop_cons hdrop
      have hhead : rest.head? = w'[k + 1]? := by rw [← hrest, List.head?_drop]
      obtain ⟨h1, h2, h3, h4⟩ := buildNewSet_main (ok := okItem g an la rest.head?) (a := a) hnl ht h hne
      generalize hr : buildNewSet g an (okItem g an la rest.head?) tab pl (pl.getLastD default)
        (Sym.t a) = r at h1 h2 h3 h4
      obtain ⟨⟨e, hfin⟩, hrec⟩ := ih r.1 (pl ++ [r.2]) _ (k + 1) h1 (PLOK_snoc h h2 h4) (by simp)
        (by
          intro cs hcs
          rcases List.mem_append.mp hcs with hcs | hcs
          · exact he cs hcs
          · rw [List.mem_singleton.mp hcs]; exact h3)
        hrest (by simp [hlen])
      refine ⟨⟨r.2 :: e, by rw [hfin]; simp⟩, ?_⟩
      intro j hj1 hj2
      rcases Nat.eq_or_lt_of_le hj1 with heq | hlt
      · -- the set just built
        subst heq
        refine ⟨tab, plA, a, ht, ?_, ?_, ?_⟩
        · rw [hfin, List.append_assoc, List.take_left']; exact h; rfl
        · rw [hlen]; simpa using hw
        · rw [hfin, List.append_assoc, List.take_left' rfl, List.getD_eq_getElem?_getD,
            List.getElem?_append_right (Nat.le_refl _), Nat.sub_self]
          simp only [List.singleton_append, List.getElem?_cons_zero, Option.getD_some]
          rw [← hr, hhead, hlen]
      · exact hrec j (by simp; omega) hj2
    · rw [if_neg hT]
      exact ⟨⟨[], by simp⟩, fun j h1 h2 => absurd h2 (by simp only; omega)⟩

end

/-- the first set of the parse list -/
theorem buildPLC_head (g : Grammar) (la : Nat) (w : List Nat) :
    (buildPLC g la w).2.2.getD 0 default = (buildStartSet g g.analysis).2 := by
  rw [buildPLC_eq]
  obtain ⟨h1, h2, h3, _⟩ := buildStartSet_main g g.analysis rfl
  obtain ⟨⟨e, he⟩, _⟩ := parseLoopC_unroll (g := g) (an := g.analysis) la rfl (w ++ [g.eofT])
    (w ++ [g.eofT]) (buildStartSet g g.analysis).1 [(buildStartSet g g.analysis).2] [set0 g] 0 h1
    (by
      refine ⟨rfl, ?_, ?_⟩
      · intro k hk
        have : k = 0 := by simpa using hk
        subst this; simpa using h2
      · intro k hk it
        have : k = 0 := by simpa using hk
        subst this
        simpa using (buildStartSet_main g g.analysis rfl).2.2.2 it)
    (by simp) (by intro cs hcs; rw [List.mem_singleton.mp hcs]; exact h3) rfl rfl
  rw [he]
  rfl

/-- the other sets -/
theorem buildPLC_unroll (g : Grammar) (la : Nat) (w : List Nat) (j : Nat) (hj1 : 1 ≤ j)
    (hj2 : j < (buildPLC g la w).2.2.length) :
    ∃ (tab' : Tab) (plA' : List (List Item)) (a : Nat), TabInv g g.analysis tab' ∧
      PLOK g plA' ((buildPLC g la w).2.2.take j) ∧ (w ++ [g.eofT])[j - 1]? = some a ∧
      (buildPLC g la w).2.2.getD j default =
        (buildNewSet g g.analysis (okItem g g.analysis la (w ++ [g.eofT])[j]?) tab'
          ((buildPLC g la w).2.2.take j)
          (((buildPLC g la w).2.2.take j).getLastD default) (Sym.t a)).2 := by
  rw [buildPLC_eq] at hj2 ⊢
  obtain ⟨h1, h2, h3, h4⟩ := buildStartSet_main g g.analysis rfl
  obtain ⟨_, hrec⟩ := parseLoopC_unroll (g := g) (an := g.analysis) la rfl (w ++ [g.eofT])
    (w ++ [g.eofT]) (buildStartSet g g.analysis).1 [(buildStartSet g g.analysis).2] [set0 g] 0 h1
    (by
      refine ⟨rfl, ?_, ?_⟩
      · intro k hk
        have : k = 0 := by simpa using hk
        subst this; simpa using h2
      · intro k hk it
        have : k = 0 := by simpa using hk
        subst this; simpa using h4 it)
    (by simp) (by intro cs hcs; rw [List.mem_singleton.mp hcs]; exact h3) rfl rfl
  exact hrec j (by simpa using hj1) hj2

end Yaep.LI
