import Yaep.Lemmas.LaIndepMain
import Yaep.Lemmas.LaIndepMP
/-!
# Lookahead independence, part 12: `SetsRel` for the parse lists `make_parse` reads
-/
namespace Yaep.LI
open Yaep Yaep.BS

theorem plSets_getD_toList (g : Grammar) (la : Nat) (w : List Nat) (j : Nat)
    (hj : j < (plC g la w).length) :
    ((plSets g la w).getD j #[]).toList = ((plC g la w).getD j default).items j := by
  rw [MP.plSets_getD g la w j hj]

theorem plSets_getD_ge (g : Grammar) (la : Nat) (w : List Nat) (j : Nat)
    (hj : (plC g la w).length ≤ j) : (plSets g la w).getD j #[] = #[] := by
  rw [Array.getD_eq_getD_getElem?, Array.getElem?_eq_none (by rw [MP.plSets_size]; exact hj)]
  rfl

/-- the last set is the same list of items at both levels -/
theorem last_items_eq {g : Grammar} (hsr : g.symsInRange = true) {w : List Nat}
    (f0 : LvlFacts g w 0) (f1 : LvlFacts g w 1) :
    ((plC g 0 w).getD (w ++ [g.eofT]).length default).items (w ++ [g.eofT]).length =
      ((plC g 1 w).getD (w ++ [g.eofT]).length default).items (w ++ [g.eofT]).length := by
  have hpos : 1 ≤ (w ++ [g.eofT]).length := by simp
  obtain ⟨ns0, ns1, I0, I1, h⟩ := setPair hsr f0 f1 hpos (Nat.le_refl _)
    (fun m hm => prel_all hsr f0 f1 m (by omega))
  have hnone : (w ++ [g.eofT])[(w ++ [g.eofT]).length]? = none := List.getElem?_eq_none (Nat.le_refl _)
  have hrel : ns1 = ns0 := by
    rw [h.rel]
    apply List.filter_eq_self.mpr
    intro p _
    exact ok1_none hnone _ _
  have e1 := h.e1
  have d1 := h.d1
  rw [hrel] at e1 d1
  have hshape0 : Shape ((plC g 0 w).getD (w ++ [g.eofT]).length default).core :=
    (f0.plok.ok _ (by have := f0.len; omega)).shape
  have hshape1 : Shape ((plC g 1 w).getD (w ++ [g.eofT]).length default).core :=
    (f1.plok.ok _ (by have := f1.len; omega)).shape
  rw [items_eq_tg hshape0, items_eq_tg hshape1, tg_eq_of_same h.e0 h.d0 e1 d1]

theorem mask_all {g : Grammar} (hsr : g.symsInRange = true) {w : List Nat}
    (f0 : LvlFacts g w 0) (f1 : LvlFacts g w 1) (j B : Nat) (hj : j ≤ (w ++ [g.eofT]).length) :
    MaskStmt g w j B := by
  rcases Nat.eq_zero_or_pos j with h0 | hpos
  · subst h0
    unfold MaskStmt
    rw [head_eq]
    refine ⟨((((plC g 0 w).getD 0 default).items 0).filter (isRed g B)).map fun it => (it, true),
      ?_, ?_, ?_⟩
    · rw [List.map_map]; exact List.map_id _
    · rw [List.filter_eq_self.mpr, List.map_map]
      · exact List.map_id _
      · intro x hx
        obtain ⟨it, _, rfl⟩ := List.mem_map.mp hx
        rfl
    · intro x hx _ _
      obtain ⟨it, _, rfl⟩ := List.mem_map.mp hx
      rfl
  · obtain ⟨ns0, ns1, I0, I1, h⟩ := setPair hsr f0 f1 hpos hj
      (fun m hm => prel_all hsr f0 f1 m (by omega))
    exact mask_of_setPair f0 f1 hpos hj h B

/-- **the parse lists of levels 0 and 1 of an input accepted at both levels are related by `SetsRel`** -/
theorem setsRel_plSets {g : Grammar} (hsr : g.symsInRange = true) {w : List Nat}
    (hacc0 : (buildPLC g 0 w).1 = none) (hacc1 : (buildPLC g 1 w).1 = none) :
    SetsRel g (w ++ [g.eofT]) (plSets g 0 w) (plSets g 1 w) := by
  have f0 := lvlFacts hacc0
  have f1 := lvlFacts hacc1
  have hl0 := f0.len
  have hl1 := f1.len
  refine ⟨by rw [MP.plSets_size]; exact hl0, by rw [MP.plSets_size]; exact hl1, ?_, ?_, ?_, ?_, ?_, ?_⟩
  · intro j it hit
    by_cases hj : j < (plC g 0 w).length
    · rw [plSets_getD_toList g 0 w j hj] at hit
      exact (f0.items j (by omega) it).mp hit
    · rw [plSets_getD_ge g 0 w j (by omega)] at hit
      cases hit
  · intro j it hF
    have hj := hF.le_length
    rw [plSets_getD_toList g 0 w j (by omega)]
    exact (f0.items j hj it).mpr hF
  · intro j it hit
    by_cases hj : j < (plC g 1 w).length
    · rw [plSets_getD_toList g 1 w j hj] at hit
      exact (f1.items j (by omega) it).mp hit
    · rw [plSets_getD_ge g 1 w j (by omega)] at hit
      cases hit
  · intro j it hF
    have hj := hF.le_length
    rw [plSets_getD_toList g 1 w j (by omega)]
    exact (f1.items j hj it).mpr hF
  · have e0 := plSets_getD_toList g 0 w (w ++ [g.eofT]).length (by omega)
    have e1 := plSets_getD_toList g 1 w (w ++ [g.eofT]).length (by omega)
    have := last_items_eq hsr f0 f1
    rw [← e0, ← e1] at this
    have harr : (plSets g 0 w).getD (w ++ [g.eofT]).length #[] =
        (plSets g 1 w).getD (w ++ [g.eofT]).length #[] := Array.ext' this
    rw [harr]
  · intro j B hj
    have := mask_all hsr f0 f1 j B hj
    unfold MaskStmt at this
    rw [← plSets_getD_toList g 0 w j (by omega), ← plSets_getD_toList g 1 w j (by omega)] at this
    exact this

end Yaep.LI
