import Yaep.Lemmas.LaIndepRel
import Yaep.Lemmas.Earley2C
/-!
# Lookahead independence at any level: the interface between the parse lists and the simulation of `make_parse`

`Lvl g w'`: what the simulation of `make_parse` (`LaIndep2MP.lean`) needs to know about a "filtered" family of
Earley sets for the token string `w'`: `F j it` (the item is in set `j`), `G j it` (it is in set `j` and passes the
test of the level at `j`).  `SetsRelA`: `LI.SetsRel` with the pair (`F1`, `ok1`) replaced by a `Lvl`.

`F2` / `G2`: the instance for a level-2 parse list `plA` (items with contexts); `OrigInv`: with every item the
list contains its predicted item, with the same context, in the set of its origin.
-/
namespace Yaep.LI2
open Yaep Yaep.LI

/-- an abstract lookahead level for the token string `w'` (end marker included) -/
structure Lvl (g : Grammar) (w' : List Nat) where
  /-- the item is in set `j` -/
  F : Nat → Item → Prop
  /-- the item is in set `j` and passes the test of the level at position `j` -/
  G : Nat → Item → Prop
  G_F : ∀ {j : Nat} {it : Item}, G j it → F j it
  F_F0 : ∀ {j : Nat} {it : Item}, F j it → F0 g w' j it
  /-- `X = (rule, pos + 1, orig)` is in set `j` and passes the test, `B` is before its dot: a completed item for `B`
  of the unfiltered set `j` whose origin set (unfiltered) has `(rule, pos, orig)` is in set `j` and passes the
  test, and `(rule, pos, orig)` is in the set at that origin and passes the test there -/
  cand : ∀ {rule pos orig j B : Nat} {rl : Rule} {it : Item}, g.rules[rule]? = some rl →
    rl.rhs[pos]? = some (.n B) → G j ⟨rule, pos + 1, orig⟩ → F0 g w' j it → isRed g B it = true →
    F0 g w' it.origin ⟨rule, pos, orig⟩ → G it.origin ⟨rule, pos, orig⟩ ∧ G j it
  /-- a terminal before the dot -/
  term : ∀ {rule pos orig j a : Nat} {rl : Rule}, g.rules[rule]? = some rl →
    rl.rhs[pos]? = some (.t a) → G j ⟨rule, pos + 1, orig⟩ → G (j - 1) ⟨rule, pos, orig⟩
  /-- there is no test after the last token -/
  last : ∀ {it : Item}, F w'.length it → G w'.length it

/-- what the simulation needs to know about the two parse lists (`sets0`: unfiltered, `sets1`: of the level `L`) -/
structure SetsRelA (g : Grammar) (w' : List Nat) (L : Lvl g w') (sets0 sets1 : Array (Array Item)) : Prop where
  size0 : sets0.size = w'.length + 1
  size1 : sets1.size = w'.length + 1
  sound0 : ∀ j it, it ∈ (sets0.getD j #[]).toList → F0 g w' j it
  complete0 : ∀ j it, F0 g w' j it → it ∈ (sets0.getD j #[]).toList
  sound1 : ∀ j it, it ∈ (sets1.getD j #[]).toList → L.F j it
  complete1 : ∀ j it, L.F j it → it ∈ (sets1.getD j #[]).toList
  first : (sets0.getD w'.length #[])[0]? = (sets1.getD w'.length #[])[0]?
  /-- the completed items for `B` of set `j` of `sets1` are those of `sets0` with some occurrences removed, in the
  same order; an occurrence that is in the set of the level and passes its test is kept -/
  mask : ∀ j B, j ≤ w'.length → ∃ l : List (Item × Bool),
      l.map Prod.fst = (sets0.getD j #[]).toList.filter (isRed g B) ∧
      (l.filter Prod.snd).map Prod.fst = (sets1.getD j #[]).toList.filter (isRed g B) ∧
      ∀ p ∈ l, L.G j p.1 → p.2 = true

/-! ## level 2 -/

/-- the item, with some context, is in set `j` of the level-2 list -/
def F2 (plA : List (List Item2)) (j : Nat) (it : Item) : Prop :=
  ∃ c, (⟨it.rule, it.dot, it.origin, c⟩ : Item2) ∈ plA.getD j []

/-- … and passes the level-2 test at `j` with that context -/
def G2 (g : Grammar) (w' : List Nat) (plA : List (List Item2)) (j : Nat) (it : Item) : Prop :=
  ∃ c, (⟨it.rule, it.dot, it.origin, c⟩ : Item2) ∈ plA.getD j [] ∧
    ok2 g g.analysis w'[j]? it.rule it.dot c = true

/-- with every item the list contains its predicted item, with the same context, in the set of its origin -/
def OrigInv (plA : List (List Item2)) : Prop :=
  ∀ j it, it ∈ plA.getD j [] → (⟨it.rule, 0, it.origin, it.ctx⟩ : Item2) ∈ plA.getD it.origin []

end Yaep.LI2
