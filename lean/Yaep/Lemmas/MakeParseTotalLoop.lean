import Yaep.Lemmas.MakeParseTotalInv
/-!
# Totality of the model of `make_parse` in all-parses mode, part 3: the loop over the candidates

`tl_cand`: one candidate keeps the invariant `TLc` between two candidates (at most two new states,
both of an exponent below that of the top state before the step); `candidate_termNodes_all`.
-/
namespace Yaep.MP
open Yaep

/-! ## `term_node_array` is not touched by the candidates -/

theorem candPre_termNodes (L : Loc) (sit : Item) (n : Nat) (s : St) :
    (candPre L sit n s).termNodes = s.termNodes := by
  unfold candPre
  simp only
  split <;> split <;> rfl

theorem candHead_termNodes (L : Loc) (sit : Item) (n : Nat) (os : List Nat) (s : St) (pp : Nat × Nat)
    (disp : Nat) : (candHead L sit n os s pp disp).1.termNodes = s.termNodes := by
  by_cases hn : n = 0
  · subst hn; rw [candHead_zero]
  · cases hf : (headOs L n os).find? (fun sid => (s.state sid).plInd == sit.origin) with
    | some x => rw [candHead_found hn hf]
    | none =>
      cases ha : (s.state L.origSid).anode with
      | some a => exact (candHead_copy_owner hn hf ha).2.2.2.2.1
      | none => exact (candHead_copy_pass hn hf ha).2.2.2.2.1

theorem candTail_termNodes {c : Ctx} (hall : c.oneParse = false) (L : Loc) (sit : Item) (pp : Nat × Nat)
    (disp : Nat) (s : St) (os : List Nat) (cur : Nat) (anode : Option Nat) :
    (candTail c L sit pp disp (s, os, cur, anode)).1.termNodes = s.termNodes := by
  cases hn : (c.rule sit.rule).anode with
  | some name =>
    cases hf : tableFind s.table sit.rule sit.origin L.plInd with
    | none => exact (candTail_new hall hn hf).2.2.2.2.1
    | some node => exact (candTail_reuse hall hn hf).2.2.2.2.1
  | none =>
    by_cases hdot : sit.dot = 0
    · exact (candTail_nil hn hdot).2.2.2.2.1
    · exact (candTail_pass hn hdot).2.2.2.2.1

theorem candidate_termNodes_all {c : Ctx} (hall : c.oneParse = false) (L : Loc) (sit : Item) (n : Nat)
    (os : List Nat) (s : St) : (candidate c L sit n os s).1.termNodes = s.termNodes := by
  rw [candidate_eq]
  cases L.parentAnode with
  | none => exact candPre_termNodes L sit n s
  | some pa =>
    cases L.disp with
    | none => exact candPre_termNodes L sit n s
    | some d =>
      simp only
      generalize hr : candHead L sit n os (candPre L sit n s) (pa, L.parentDisp) d = r
      obtain ⟨s1, os1, cur1, an1⟩ := r
      rw [candTail_termNodes hall]
      have := candHead_termNodes L sit n os (candPre L sit n s) (pa, L.parentDisp) d
      rw [hr] at this
      rw [this, candPre_termNodes]

/-! ## one candidate -/

section
variable {g : Grammar} {ok : Nat → Nat → Nat → Bool} {toks : List Nat} {s : St} {X : Nat}
  {rest : List Nat} {fin : Nat → Nat} {L : Loc} {E : Nat}

/-- the states a move pushed all satisfy the invariant with an exponent below `E` -/
theorem TLc.pushed {m : Nat} {sts sts' : Array PState} {stack stack' : List Nat} {f : Nat → Nat}
    (h : TLc g ok toks s X rest fin L E m sts stack f) (hX : X < s.states.size) {ps : List PState}
    (hp : Pushed sts stack sts' stack' ps)
    (hps : ∀ p ∈ ps, ∃ v, TStOK g ok toks p v ∧ expOf g p v < E) :
    ∃ f', TLc g ok toks s X rest fin L E (m + ps.length) sts' stack' f' := by
  match ps, hp, hps with
  | [], hp, _ =>
    obtain ⟨e1, e2⟩ := hp
    rw [e1, e2]; exact ⟨f, h⟩
  | [p], hp, hps =>
    obtain ⟨e1, e2⟩ := hp
    obtain ⟨v, hv, he⟩ := hps p (by simp)
    rw [e1, e2]; exact ⟨_, h.push hX hv he⟩
  | [p, q], hp, hps =>
    obtain ⟨e1, e2⟩ := hp
    obtain ⟨v, hv, he⟩ := hps p (by simp)
    obtain ⟨v', hv', he'⟩ := hps q (by simp)
    rw [e1, e2]
    have h1 := h.push hX hv he
    have h2 := h1.push hX hv' he'
    rw [Array.size_push] at h2
    exact ⟨_, h2⟩
  | _ :: _ :: _ :: _, hp, _ => exact absurd hp (by simp [Pushed])

/-- the states right after `candPre` for the first candidate (origin `k`): only the top state has
changed (its dot and its list index) -/
theorem TLc.first (hinv : TInv g ok toks s fin) (hst : s.stack = X :: rest)
    {sts1 : Array PState} (hsz : sts1.size = s.states.size)
    (hother : ∀ y, y ≠ X → sts1.getD y default = s.states.getD y default)
    (htop : (sts1.getD X default).rule = L.rule ∧ (sts1.getD X default).pos = L.pos ∧
      (sts1.getD X default).orig = L.orig ∧ (sts1.getD X default).anode = (s.state X).anode ∧
      (sts1.getD X default).parent = (s.state X).parent ∧
      (sts1.getD X default).parentDisp = (s.state X).parentDisp)
    (hok : TStOK g ok toks (sts1.getD X default) (fin X) ∧ expOf g (sts1.getD X default) (fin X) < E) :
    TLc g ok toks s X rest fin L E 0 sts1 s.stack fin := by
  refine ⟨⟨[], by rw [hst]; rfl, Nat.le_refl _, fun y hy => by cases hy⟩, hinv.sorted, ?_, by omega,
    fun x _ hne => hother x hne, fun _ _ => rfl, htop, hok⟩
  intro y hy
  rw [hsz]; exact (hinv.sts y hy).1

/-- **one candidate** `(sr, k)` that passed the check loop, all parses -/
theorem tl_cand {c : Ctx} (hall : c.oneParse = false) (hcyc : ¬ Cyclic g) (hsr : g.symsInRange = true)
    (hinv : TInv g ok toks s fin) (hst : s.stack = X :: rest) (hL : L = ntLoc c s X L.A)
    {rlX : Rule} {A : Nat} (hr : g.rules[L.rule]? = some rlX) (hsym : rlX.rhs[L.pos]? = some (.n A))
    (hsuf : L.plInd = fin X → ∀ j s, L.pos < j → rlX.rhs[j]? = some s → Der g [s] [])
    (hE0 : E = rhoI g rlX.lhs L.orig (fin X) * (g.maxRhs + 1) + L.pos + 1)
    {sr k : Nat} {rl' : Rule} (hr' : g.rules[sr]? = some rl') (hlhs : rl'.lhs = A)
    (hE : EarleyF g ok toks L.plInd ⟨sr, rl'.rhs.length, k⟩)
    (hE2 : EarleyF g ok toks k ⟨L.rule, L.pos, L.orig⟩)
    {n : Nat} {os : List Nat} {s' : St}
    (hM : (n = 0 ∧ s' = ntS0 s X) ∨
      (n ≠ 0 ∧ ∃ f, TLc g ok toks s X rest fin L E (2 * n) s'.states s'.stack f)) :
    ∃ f, TLc g ok toks s X rest fin L E (2 * (n + 1))
      (candidate c L ⟨sr, rl'.rhs.length, k⟩ n os s').1.states
      (candidate c L ⟨sr, rl'.rhs.length, k⟩ n os s').1.stack f := by
  have hXmem : X ∈ s.stack := by rw [hst]; simp
  obtain ⟨hXlt, hXok⟩ := hinv.sts X hXmem
  have hLo : L.origSid = X := by rw [hL]; rfl
  have hLr : L.rule = (s.state X).rule := by rw [hL]; rfl
  have hLp : L.pos = (s.state X).pos - 1 := by rw [hL]; rfl
  have hLg : L.orig = (s.state X).orig := by rw [hL]; rfl
  have hLi : L.plInd = (s.state X).plInd := by rw [hL]; rfl
  have hple : L.plInd ≤ fin X := by rw [hLi]; exact hXok.plLe
  have hfin := hXok.finLe
  -- the state after `candPre`
  have h1 : ∃ f, TLc g ok toks s X rest fin L E (2 * n) (candPre L ⟨sr, rl'.rhs.length, k⟩ n s').states
      (candPre L ⟨sr, rl'.rhs.length, k⟩ n s').stack f := by
    rcases hM with ⟨h0, rfl⟩ | ⟨hn, f, hf⟩
    · subst h0
      rw [candPre_zero]
      obtain ⟨_, e2, _, e4, e5, e6⟩ := advance_states (s := s) (k := k) hXlt L hLo
      simp only at e2 e4 e5 e6
      have hfld : ((ntS0 s X).setState L.origSid { (ntS0 s X).state L.origSid with plInd := k }).states.getD X default =
          { s.state X with pos := (s.state X).pos - 1, plInd := k } := e5
      obtain ⟨t1, t2⟩ := TStOK.sibling (p := { s.state X with pos := (s.state X).pos - 1, plInd := k })
        hr hsym hr' hlhs hE hE2 hple hfin hsuf hLr.symm hLp.symm hLg.symm rfl
      have := TLc.first (L := L) (E := E) hinv hst e4 e6
        (by rw [hfld]; exact ⟨hLr.symm, hLp.symm, hLg.symm, rfl, rfl, rfl⟩)
        (by rw [hfld]; exact ⟨t1, by rw [t2, hE0]; omega⟩)
      rw [← e2] at this
      exact ⟨fin, this⟩
    · obtain ⟨_, p2, p3, _, _⟩ := candPre_untr_pos (L := L) (sit := ⟨sr, rl'.rhs.length, k⟩) (s := s') hn
      rw [p2, p3]; exact ⟨f, hf⟩
  obtain ⟨f1, hf1⟩ := h1
  obtain ⟨ps, hpushed, hcls⟩ := candidate_shape hall L ⟨sr, rl'.rhs.length, k⟩ n os s'
  have hXtop := hf1.top
  -- the two kinds of new states
  have hchild : ∀ q, IsChild L ⟨sr, rl'.rhs.length, k⟩ q → ∃ v, TStOK g ok toks q v ∧ expOf g q v < E := by
    intro q ⟨q1, q2, q3, q4⟩
    obtain ⟨t1, t2⟩ := TStOK.child hcyc hsr hr hsym hr' hlhs hE hE2 hple hfin hsuf q1 q2 q3 q4
    exact ⟨L.plInd, t1, by rw [hE0]; omega⟩
  have hcopy : ∀ p, IsCopy L ⟨sr, rl'.rhs.length, k⟩ (candPre L ⟨sr, rl'.rhs.length, k⟩ n s') p →
      ∃ v, TStOK g ok toks p v ∧ expOf g p v < E := by
    intro p ⟨p1, p2, p3, p4, _, _⟩
    rw [hLo] at p1 p2 p3
    have e1 : p.rule = L.rule := by rw [p1]; exact hXtop.1
    have e2 : p.pos = L.pos := by rw [p2]; exact hXtop.2.1
    have e3 : p.orig = L.orig := by rw [p3]; exact hXtop.2.2.1
    obtain ⟨t1, t2⟩ := TStOK.sibling hr hsym hr' hlhs hE hE2 hple hfin hsuf e1 e2 e3 p4
    exact ⟨fin X, t1, by rw [t2, hE0]; omega⟩
  have hall' : ∀ p ∈ ps, ∃ v, TStOK g ok toks p v ∧ expOf g p v < E := by
    intro p hp
    rcases hcls with rfl | ⟨q, hq, rfl⟩ | ⟨_, p', hp', rfl | ⟨q, hq, rfl⟩⟩
    · cases hp
    · rw [List.mem_singleton.mp hp]; exact hchild q hq
    · rw [List.mem_singleton.mp hp]; exact hcopy p' hp'
    · rcases List.mem_cons.mp hp with rfl | hp
      · exact hcopy _ hp'
      · rw [List.mem_singleton.mp hp]; exact hchild q hq
  have hlen : ps.length ≤ 2 := by
    rcases hcls with rfl | ⟨q, hq, rfl⟩ | ⟨_, p', hp', rfl | ⟨q, hq, rfl⟩⟩ <;> simp
  obtain ⟨f', hf'⟩ := hf1.pushed hXlt hpushed hall'
  exact ⟨f', hf'.mono (by omega)⟩

end

end Yaep.MP
