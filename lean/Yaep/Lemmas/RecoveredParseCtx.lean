import Yaep.Lemmas.RecoveredParseEarley
import Yaep.Lemmas.RecoveredParseOutcome
import Yaep.Lemmas.MakeParseSoundTotal
import Yaep.Lemmas.MakeParseTotalBase
import Yaep.Lemmas.MakeParseTotalMain
/-!
# The final parse list of a recovering parse as input of `make_parse`

`RP.sets`, `RP.tokNums`: the arrays `make_parse` reads (`pl[j]` as situations — in the order of
the model's item lists; the theorems do not depend on the order — and `pl_toks[j]`).
`RP.idToks`: the token numbers `j - 1` the `_ctx` theorems of the `make_parse` model are stated
for; `RP.fix`: the renaming from list positions to token numbers (what the judge calls
`fixAttr`).  `ctxOKc`, `ctxAllc`: the hypotheses of the `_ctx` theorems; `tokRel`: the
hypotheses of the renaming theorem `makeParse_reTok`.
-/
namespace Yaep.RP
open Yaep Yaep.MP

/-- `pl_toks[j]` of a list element: its token number, `-1` for set 0 and for `error` shifts -/
def tokInt (s : PSet) : Int :=
  match s.tok with
  | some k => (k : Int)
  | none => -1

def sets (pl : List PSet) : Array (Array Item) := (pl.map fun s => s.items.toArray).toArray

def tokNums (pl : List PSet) : Array Int := (pl.map tokInt).toArray

/-- the token numbers of a parse list without recovery: list element `j` is token `j - 1` -/
def idToks (n : Nat) : Array Int := ((List.range n).map fun (j : Nat) => (j : Int) - 1).toArray

/-- from the position in the repaired input to the token number in the original input (`-1`
for an `error`): the attribute `translate` gives a TERM node is the position of its leaf in the
token list it is given, the C code stores `pl_toks` of the list element -/
def fix (pl : List PSet) : Int → Int := fun a =>
  if a ≥ 0 then ((pl.drop 1).map tokInt).getD a.toNat (-7) else a

theorem sets_size (pl : List PSet) : (sets pl).size = pl.length := by unfold sets; simp

theorem sets_getD (pl : List PSet) (j : Nat) :
    (sets pl).getD j #[] = ((psItems pl).getD j []).toArray := by
  unfold sets psItems
  rw [Array.getD_eq_getD_getElem?, List.getD_eq_getElem?_getD, List.getElem?_toArray,
    List.getElem?_map, List.getElem?_map]
  cases pl[j]? <;> rfl

theorem sets_mem {pl : List PSet} {j i : Nat} (hi : i < ((sets pl).getD j #[]).size) :
    ((sets pl).getD j #[]).getD i default ∈ (psItems pl).getD j [] := by
  rw [sets_getD] at hi ⊢
  rw [List.size_toArray] at hi
  rw [Array.getD_eq_getD_getElem?, List.getElem?_toArray, List.getElem?_eq_getElem hi]
  exact List.getElem_mem hi

theorem sets_complete {pl : List PSet} {j : Nat} {it : Item} (h : it ∈ (psItems pl).getD j []) :
    ∃ i, i < ((sets pl).getD j #[]).size ∧ ((sets pl).getD j #[]).getD i default = it := by
  obtain ⟨i, hi, he⟩ := List.getElem_of_mem h
  refine ⟨i, ?_, ?_⟩
  · rw [sets_getD, List.size_toArray]; exact hi
  · rw [sets_getD, Array.getD_eq_getD_getElem?, List.getElem?_toArray, List.getElem?_eq_getElem hi, he]
    rfl

theorem idToks_getD_lt {n j : Nat} (h : j < n) : (idToks n).getD j (-1) = (j : Int) - 1 := by
  unfold idToks
  rw [Array.getD_eq_getD_getElem?, List.getElem?_toArray, List.getElem?_map,
    List.getElem?_range h]
  rfl

theorem idToks_getD_ge {n j : Nat} (h : n ≤ j) : (idToks n).getD j (-1) = -1 := by
  unfold idToks
  rw [Array.getD_eq_getD_getElem?, List.getElem?_toArray, List.getElem?_eq_none (by simpa using h)]
  rfl

theorem tokNums_getD (pl : List PSet) (j : Nat) :
    (tokNums pl).getD j (-1) = match pl[j]? with
      | some s => tokInt s
      | none => -1 := by
  unfold tokNums
  rw [Array.getD_eq_getD_getElem?, List.getElem?_toArray, List.getElem?_map]
  cases pl[j]? <;> rfl

theorem tokInt_nonneg {s : PSet} (h : 0 ≤ tokInt s) : ∃ k, s.tok = some k ∧ tokInt s = (k : Int) := by
  unfold tokInt at h ⊢
  cases hk : s.tok with
  | none => rw [hk] at h; simp at h
  | some k => exact ⟨k, rfl, rfl⟩

theorem tokNums_nonneg {pl : List PSet} {j : Nat} (h : 0 ≤ (tokNums pl).getD j (-1)) :
    ∃ s k, pl[j]? = some s ∧ s.tok = some k ∧ (tokNums pl).getD j (-1) = (k : Int) := by
  rw [tokNums_getD] at h ⊢
  cases hs : pl[j]? with
  | none => rw [hs] at h; simp at h
  | some s =>
    rw [hs] at h
    simp only at h
    obtain ⟨k, h1, h2⟩ := tokInt_nonneg h
    exact ⟨s, k, rfl, h1, h2⟩

/-! ## the contexts of the `_ctx` theorems -/

/-- `S` holds the sets of the list `pl`, the situations of every set in any order and with any
multiplicity (the C set cores order them differently from the model's item lists) -/
structure SameSets (pl : List PSet) (S : Array (Array Item)) : Prop where
  size : S.size = pl.length
  mem : ∀ j it, it ∈ (S.getD j #[]).toList ↔ it ∈ (psItems pl).getD j []

theorem sameSets_sets (pl : List PSet) : SameSets pl (sets pl) := by
  refine ⟨sets_size pl, ?_⟩
  intro j it
  rw [sets_getD]

theorem SameSets.getD_mem {pl : List PSet} {S : Array (Array Item)} (h : SameSets pl S) {j i : Nat}
    (hi : i < (S.getD j #[]).size) : (S.getD j #[]).getD i default ∈ (psItems pl).getD j [] := by
  rw [← h.mem]
  generalize S.getD j #[] = A at hi ⊢
  rw [Array.getD_eq_getD_getElem?, Array.getElem?_eq_getElem hi]
  simp

theorem SameSets.complete {pl : List PSet} {S : Array (Array Item)} (h : SameSets pl S) {j : Nat}
    {it : Item} (hm : it ∈ (psItems pl).getD j []) :
    ∃ i, i < (S.getD j #[]).size ∧ (S.getD j #[]).getD i default = it := by
  rw [← h.mem] at hm
  obtain ⟨i, hi, he⟩ := List.getElem_of_mem hm
  generalize S.getD j #[] = A at hi he ⊢
  have hi' : i < A.size := by simpa using hi
  refine ⟨i, hi', ?_⟩
  rw [Array.getD_eq_getD_getElem?, Array.getElem?_eq_getElem hi']
  simpa using he

/-- a decidable sufficient condition for `SameSets` -/
def sameSetsB (pl : List PSet) (S : Array (Array Item)) : Bool :=
  S.size == pl.length &&
  (List.range pl.length).all fun j =>
    ((S.getD j #[]).toList.all fun it => ((psItems pl).getD j []).contains it) &&
    (((psItems pl).getD j []).all fun it => (S.getD j #[]).toList.contains it)

theorem sameSets_of_check {pl : List PSet} {S : Array (Array Item)} (h : sameSetsB pl S = true) :
    SameSets pl S := by
  unfold sameSetsB at h
  simp only [Bool.and_eq_true, beq_iff_eq, List.all_eq_true, List.mem_range, List.contains_iff_mem] at h
  obtain ⟨hsz, hall⟩ := h
  refine ⟨hsz, ?_⟩
  intro j it
  by_cases hj : j < pl.length
  · exact ⟨fun hm => (hall j hj).1 it hm, fun hm => (hall j hj).2 it hm⟩
  · have h1 : S.getD j #[] = #[] := by
      rw [Array.getD_eq_getD_getElem?, Array.getElem?_eq_none (by omega)]; rfl
    have h2 : (psItems pl).getD j [] = [] := by
      rw [List.getD_eq_getElem?_getD, List.getElem?_eq_none (by rw [psItems_length]; omega)]; rfl
    rw [h1, h2]

section
variable {g : Grammar} {ok : Nat → Nat → Nat → Bool} {toks : List Nat} {pl : List PSet}
  {S : Array (Array Item)}

theorem ctxOKc (hS : SameSets pl S) (hinv : PLInv g ok toks (psItems pl))
    (hlen : pl.length = toks.length + 1) :
    CtxOKc g ok toks (mkCtx g S (idToks pl.length) true) := by
  have hpl : (psItems pl).length = pl.length := psItems_length pl
  refine ⟨⟨rfl, rfl, rfl, rfl, rfl, ?_, ?_, ?_⟩, ?_⟩
  · show S.size = _
    rw [hS.size, hlen]
  · intro j i hi
    have hi' : i < (S.getD j #[]).size := hi
    have hmem := hS.getD_mem hi'
    by_cases hj : j < pl.length
    · exact (hinv j (by rw [hpl]; exact hj) _).mp hmem
    · rw [List.getD_eq_getElem?_getD, List.getElem?_eq_none (by rw [hpl]; omega)] at hmem
      cases hmem
  · intro j h1 h2
    show (idToks pl.length).getD j (-1) = _
    exact idToks_getD_lt (by omega)
  · intro j it hE
    have hj : j < pl.length := by
      have := hE.le_length; omega
    exact hS.complete ((hinv j (by rw [hpl]; exact hj) it).mpr hE)

theorem ctxAllc (hS : SameSets pl S) (hinv : PLInv g ok toks (psItems pl))
    (hlen : pl.length = toks.length + 1) :
    CtxAllc g ok toks (mkCtx g S (idToks pl.length) false) := by
  have h := ctxOKc hS hinv hlen
  exact ⟨⟨rfl, rfl, rfl, rfl, rfl, h.size, h.sound, h.ptoks⟩, h.complete⟩

end

/-! ## the renaming from list positions to token numbers -/

theorem arr_getD_le_foldl (A : Array Int) {j : Nat} (h : j < A.size) :
    A.getD j (-1) ≤ A.foldl max 0 := by
  rw [← Array.foldl_toList]
  apply (Yaep.MP.foldl_max_ge A.toList 0).2
  rw [Array.getD_eq_getD_getElem?, Array.getElem?_eq_getElem h]
  simp

theorem toks_sorted_get : ∀ {l : List PSet}, (Yaep.toks l).Pairwise (· < ·) →
    ∀ {i1 i2 : Nat} {a b : PSet} {k1 k2 : Nat}, i1 < i2 → l[i1]? = some a → l[i2]? = some b →
      a.tok = some k1 → b.tok = some k2 → k1 < k2
  | [], _, i1, i2, a, b, k1, k2, _, h1, _, _, _ => by simp at h1
  | x :: l, hp, i1, i2, a, b, k1, k2, hlt, h1, h2, ha, hb => by
    cases i2 with
    | zero => exact absurd hlt (Nat.not_lt_zero _)
    | succ i2 =>
      rw [List.getElem?_cons_succ] at h2
      cases i1 with
      | zero =>
        rw [List.getElem?_cons_zero] at h1
        injection h1 with h1; subst h1
        rw [Yaep.toks_cons_some l ha, List.pairwise_cons] at hp
        apply hp.1
        unfold Yaep.toks
        rw [List.mem_filterMap]
        exact ⟨b, List.mem_of_getElem? h2, hb⟩
      | succ i1 =>
        rw [List.getElem?_cons_succ] at h1
        have hp' : (Yaep.toks l).Pairwise (· < ·) := by
          cases hx : x.tok with
          | none => rw [Yaep.toks_cons_none l hx] at hp; exact hp
          | some k => rw [Yaep.toks_cons_some l hx, List.pairwise_cons] at hp; exact hp.2
        exact toks_sorted_get hp' (Nat.lt_of_succ_lt_succ hlt) h1 h2 ha hb

theorem tokRel {s0 : PSet} {rest : List PSet} (hs : (Yaep.toks rest).Pairwise (· < ·)) :
    TokRel (fix (s0 :: rest)) (idToks (s0 :: rest).length) (tokNums (s0 :: rest))
      (((idToks (s0 :: rest).length).foldl max 0).toNat + 1)
      (((tokNums (s0 :: rest)).foldl max 0).toNat + 1) := by
  have hlt : ∀ {j : Nat}, 0 ≤ (tokNums (s0 :: rest)).getD j (-1) → j < (s0 :: rest).length := by
    intro j h
    obtain ⟨s, k, h1, _, _⟩ := tokNums_nonneg h
    exact (List.getElem?_eq_some_iff.mp h1).1
  have hsz1 : (idToks (s0 :: rest).length).size = (s0 :: rest).length := by unfold idToks; simp
  have hsz2 : (tokNums (s0 :: rest)).size = (s0 :: rest).length := by unfold tokNums; simp
  refine ⟨?_, ?_, ?_, ?_⟩
  · intro j hj hp
    have hjl := hlt hp
    rw [idToks_getD_lt hjl]
    unfold fix
    have h0 : (j : Int) - 1 ≥ 0 := by omega
    rw [if_pos h0]
    have hn : ((j : Int) - 1).toNat = j - 1 := by omega
    rw [hn, tokNums_getD, List.getD_eq_getElem?_getD, List.getElem?_map, List.getElem?_drop]
    have : 1 + (j - 1) = j := by omega
    rw [this]
    cases hs' : (s0 :: rest)[j]? with
    | none => exact absurd hs' (by rw [List.getElem?_eq_none_iff]; omega)
    | some s => rfl
  · intro j hj hp
    rw [idToks_getD_lt (hlt hp)]; omega
  · intro j1 j2 hj1 hj2 hp1 hp2
    rw [idToks_getD_lt (hlt hp1), idToks_getD_lt (hlt hp2)]
    obtain ⟨a, k1, ha, hak, he1⟩ := tokNums_nonneg hp1
    obtain ⟨b, k2, hb, hbk, he2⟩ := tokNums_nonneg hp2
    rw [he1, he2]
    have ha' : rest[j1 - 1]? = some a := by
      obtain ⟨i, rfl⟩ : ∃ i, j1 = i + 1 := ⟨j1 - 1, by omega⟩
      simpa using ha
    have hb' : rest[j2 - 1]? = some b := by
      obtain ⟨i, rfl⟩ : ∃ i, j2 = i + 1 := ⟨j2 - 1, by omega⟩
      simpa using hb
    constructor
    · intro hk
      have hk' : k1 = k2 := by omega
      rcases Nat.lt_trichotomy (j1 - 1) (j2 - 1) with h | h | h
      · have := toks_sorted_get hs h ha' hb' hak hbk; omega
      · omega
      · have := toks_sorted_get hs h hb' ha' hbk hak; omega
    · intro hj
      have hj' : j1 - 1 = j2 - 1 := by omega
      rw [hj'] at ha'
      rw [ha'] at hb'
      injection hb' with hb'
      subst hb'
      rw [hak] at hbk
      injection hbk with hbk
  · intro j hj hp
    have hjl := hlt hp
    have h1 := arr_getD_le_foldl (idToks (s0 :: rest).length) (j := j) (by rw [hsz1]; exact hjl)
    have h2 := arr_getD_le_foldl (tokNums (s0 :: rest)) (j := j) (by rw [hsz2]; exact hjl)
    constructor <;> omega

/-- a list element shifted on a terminal other than `error` has a token number -/
def TermsOK (g : Grammar) (pl : List PSet) : Prop :=
  ∀ j s, pl[j + 1]? = some s → s.term.getD 0 ≠ g.errT → 0 ≤ tokInt s

theorem termsOK_of_ok {g : Grammar} {full : List Nat} {pl : List PSet}
    (h : ∀ s ∈ pl.drop 1, s.Ok g full) : TermsOK g pl := by
  intro j s hs hne
  have hmem : s ∈ pl.drop 1 := by
    apply List.mem_of_getElem? (i := j)
    rw [List.getElem?_drop, Nat.add_comm]; exact hs
  rcases h s hmem with ⟨_, h2⟩ | ⟨k, t, h1, _, _⟩
  · rw [h2] at hne; exact absurd rfl hne
  · unfold tokInt; rw [h1]; simp

/-- the machine is never about to translate a terminal other than `error` at a list element
without token number, if its top state is an item of the Earley set at its list index -/
theorem termHyp_of_item {g : Grammar} {ok : Nat → Nat → Nat → Bool} {pl : List PSet} {c : Ctx}
    (hrule : ∀ r rl, g.rules[r]? = some rl → c.rule r = rl) (herr : c.errT = g.errT)
    (hterms : TermsOK g pl) {s : St}
    (hitem : ∀ sid rest, s.stack = sid :: rest → (s.state sid).pos ≠ 0 →
      ∃ rl, g.rules[(s.state sid).rule]? = some rl ∧ (s.state sid).pos ≤ rl.rhs.length ∧
        EarleyF g ok (word pl) (s.state sid).plInd
          ⟨(s.state sid).rule, (s.state sid).pos, (s.state sid).orig⟩) :
    TermHyp c (tokNums pl) s := by
  intro sid rest a pa d hs hp0 hsym _ _ hae
  have hpos : (s.state sid).pos ≠ 0 := by simpa using hp0
  obtain ⟨rl, hr, hle, hE⟩ := hitem sid rest hs hpos
  rw [hrule _ _ hr] at hsym
  have hlt : (s.state sid).pos - 1 < rl.rhs.length := by omega
  have hsym' : rl.rhs[(s.state sid).pos - 1]? = some (.t a) := by
    rw [List.getD_eq_getElem?_getD, List.getElem?_eq_getElem hlt] at hsym
    rw [List.getElem?_eq_getElem hlt]
    simpa using hsym
  have hpp : (s.state sid).pos - 1 + 1 = (s.state sid).pos := by omega
  rw [← hpp] at hE
  obtain ⟨j0, hj0, hw, _⟩ := hE.term_inv hr hsym'
  rw [word_getElem?] at hw
  cases hs' : pl[j0 + 1]? with
  | none => rw [hs'] at hw; cases hw
  | some s' =>
    rw [hs'] at hw
    simp only [Option.map_some, Option.some.injEq] at hw
    have hne : s'.term.getD 0 ≠ g.errT := by
      rw [hw, ← herr]; simpa using hae
    have := hterms j0 s' hs' hne
    rw [hj0, tokNums_getD]
    have : j0 + 1 - 1 + 1 = j0 + 1 := by omega
    rw [this, hs']
    assumption

end Yaep.RP
