import Yaep.Lemmas.HeapWfMoves
/-!
# The heaps of the model of `make_parse` are well formed, part 5: popping a state, a terminal
before the dot

The invariant `HInv` is carried next to the soundness invariant `AGood` of all-parses mode, which
supplies the structural facts (the stack is sorted, parents are below their children, the slots
of unprocessed positions are NULL, the entries of `term_node_array` are TERM cells).
-/
namespace Yaep.MP
open Yaep

/-- the invariant as a predicate on machine states -/
def HSt (g : Grammar) (n : Nat) (s : St) (Γ : Gh) : Prop :=
  HInv g n s.heap s.states s.stack s.table Γ

theorem HSt.of_eq {g : Grammar} {n : Nat} {s : St} {Γ : Gh} {h : Array MNode} {sts : Array PState}
    {stack : List Nat} {table : Array (List (Nat × Nat × Nat))} (hi : HInv g n h sts stack table Γ)
    (e1 : s.heap = h) (e2 : s.states = sts) (e3 : s.stack = stack) (e4 : s.table = table) :
    HSt g n s Γ := by
  unfold HSt; rw [e1, e2, e3, e4]; exact hi

theorem HW.rho_leaf {h : Array MNode} {Γ : Gh} (hw : HW h Γ) {i : Nat} (hi : i < h.size)
    (hl : ∀ nm c ks, h.getD i .nil ≠ .anode nm c ks) (hna : isAlt h i = false) : Γ.rho i = 0 := by
  have := hw i hi
  unfold isAlt at hna
  cases hc : h.getD i .nil with
  | nil => rw [hc] at this; exact this.1
  | err => rw [hc] at this; exact this.1
  | term _ _ => rw [hc] at this; exact this.1
  | anode nm c ks => exact absurd hc (hl nm c ks)
  | alt _ _ => rw [hc] at hna; cases hna

/-! ## what the soundness invariant supplies -/

section
variable {g : Grammar} {ok : Nat → Nat → Nat → Bool} {toks : List Nat} {s : St} {G : Ghost}
  {hole : Option (Nat × Nat)}

/-- no state on the stack has the top state as its parent -/
theorem AGood.np (hgood : AGood g ok toks s G hole) {X : Nat} {rest : List Nat}
    (hst : s.stack = X :: rest) : ∀ y ∈ s.stack, (s.states.getD y default).parent ≠ X := by
  intro y hy
  obtain ⟨rl, hy'⟩ := hgood.states y hy
  have hp := hy'.parLt
  rw [hst] at hy
  rcases List.mem_cons.mp hy with rfl | hy2
  · omega
  · have := hgood.top_max hst y hy2; omega

theorem AGood.stack_lt (hgood : AGood g ok toks s G hole) : ∀ x ∈ s.stack, x < s.states.size := by
  intro x hx
  obtain ⟨rl, hx'⟩ := hgood.states x hx
  exact hx'.lt

/-- the cell of a state with abstract node; its filled slots belong to processed positions -/
theorem AGood.stateCell (hgood : AGood g ok toks s G hole) {sid a : Nat} (hm : sid ∈ s.stack)
    (han : (s.states.getD sid default).anode = some a) :
    ∃ rl nm ks, g.rules[(s.states.getD sid default).rule]? = some rl ∧
      s.heap.getD a .nil = .anode nm rl.cost ks ∧
      ∀ d m, ks.getD d none = some m → ∃ q, (s.states.getD sid default).pos ≤ q ∧
        rl.order.getD q none = some d := by
  obtain ⟨rl, hs⟩ := hgood.states sid hm
  have hc := hs.cell
  rw [han] at hc
  obtain ⟨_, _, _, nm, ks, _, c5, _, c7⟩ := hc
  refine ⟨rl, nm, ks, hs.hr, c5, ?_⟩
  intro d m hdm
  obtain ⟨q, X, q1, q2, _⟩ := c7 d m hdm
  exact ⟨q, q1, q2⟩

/-- the slot of the position the dot moves over next is still NULL -/
theorem AGood.slot_none (hwf : g.translWF = true) (hgood : AGood g ok toks s G hole) {sid a d : Nat}
    {rl : Rule} (hm : sid ∈ s.stack) (han : (s.states.getD sid default).anode = some a)
    (hr : g.rules[(s.states.getD sid default).rule]? = some rl)
    (hpos : (s.states.getD sid default).pos ≠ 0)
    (hd : rl.order.getD ((s.states.getD sid default).pos - 1) none = some d) :
    getKid s.heap a d = none := by
  obtain ⟨rl', nm, ks, h1, h2, h3⟩ := hgood.stateCell hm han
  rw [hr] at h1; injection h1 with h1; subst h1
  rw [getKid_of_cell h2]
  cases hk : ks.getD d none with
  | none => rfl
  | some m =>
    obtain ⟨q, q1, q2⟩ := h3 d m hk
    have := (Grammar.translWF_rule hwf hr).inj _ _ _ (order_getD_eq_some.mp q2) (order_getD_eq_some.mp hd)
    omega

end

/-- what the steps need to know about the top state `X` beyond `HInv` (supplied by the soundness
invariant of either mode): the states of the stack exist, no state has `X` as its parent, the slot
of the position the dot moves over next is NULL -/
structure TopFacts (g : Grammar) (s : St) (X : Nat) : Prop where
  stack_lt : ∀ x ∈ s.stack, x < s.states.size
  np : ∀ y ∈ s.stack, (s.states.getD y default).parent ≠ X
  slot_none : ∀ a rl d, (s.states.getD X default).anode = some a →
    g.rules[(s.states.getD X default).rule]? = some rl → (s.states.getD X default).pos ≠ 0 →
    rl.order.getD ((s.states.getD X default).pos - 1) none = some d → getKid s.heap a d = none

theorem AGood.topFacts {g : Grammar} {ok : Nat → Nat → Nat → Bool} {toks : List Nat} {s : St}
    {G : Ghost} {hole : Option (Nat × Nat)} (hwf : g.translWF = true)
    (hgood : AGood g ok toks s G hole) {X : Nat} {rest : List Nat} (hst : s.stack = X :: rest) :
    TopFacts g s X :=
  ⟨hgood.stack_lt, hgood.np hst, fun _ _ _ ha hr hpos hd =>
    hgood.slot_none hwf (by rw [hst]; simp) ha hr hpos hd⟩

theorem ExclSlot.of_none {h : Array MNode} {a d : Nat} (hk : getKid h a d = none) : ExclSlot h a d := by
  intro k hk'; rw [hk] at hk'; cases hk'

/-! ## the place of a state is open -/

section
variable {g : Grammar} {n : Nat} {h : Array MNode} {sts : Array PState} {stack : List Nat}
  {table : Array (List (Nat × Nat × Nat))} {Γ : Gh}

/-- the slot a state delivers its own translation to is open -/
theorem HInv.tgt_open (hi : HInv g n h sts stack table Γ) {sid pa : Nat} (hm : sid ∈ stack)
    (hpa : (sts.getD (sts.getD sid default).parent default).anode = some pa) :
    Open g sts stack pa (sts.getD sid default).parentDisp := by
  rcases (hi.sts sid hm).tgt with ⟨h1, h2⟩ | ⟨h1, rlP, h2, h3⟩
  · rw [h1, hi.rootSt] at hpa
    injection hpa with hpa
    exact Or.inl ⟨hpa.symm, h2⟩
  · exact Or.inr ⟨_, h1, hpa, rlP, h2, h3⟩

/-- the place of a state for its current position -/
theorem HInv.place_open (hi : HInv g n h sts stack table Γ) {sid pa d : Nat} {rl : Rule}
    (hm : sid ∈ stack) (hpa : (sts.getD (sts.getD sid default).parent default).anode = some pa)
    (hr : g.rules[(sts.getD sid default).rule]? = some rl)
    (hd : rl.order.getD (sts.getD sid default).pos none = some d) :
    Open g sts stack (placeOf (sts.getD sid default) pa d).1 (placeOf (sts.getD sid default) pa d).2 := by
  unfold placeOf
  cases han : (sts.getD sid default).anode with
  | some a => exact Or.inr ⟨sid, hm, han, rl, hr, hd⟩
  | none => exact hi.tgt_open hm hpa

theorem placeOf_fst {sts : Array PState} {t : PState} {pa d : Nat}
    (hpa : (sts.getD t.parent default).anode = some pa) : (placeOf t pa d).1 = tcell sts t := by
  unfold placeOf tcell pcell
  cases t.anode with
  | some a => rfl
  | none => simp only; rw [hpa]; rfl

/-- a leaf may be placed into the place of a state -/
theorem HInv.place_leaf (hi : HInv g n h sts stack table Γ) {a d node : Nat} (hnode : node < h.size)
    (hl : ∀ nm c ks, h.getD node .nil ≠ .anode nm c ks) (hna : isAlt h node = false)
    (hopen : Open g sts stack a d) :
    ∃ Γ', HInv g n (placeTranslation h (a, d) node) sts stack table Γ' ∧ GhExt Γ Γ' h.size sts.size := by
  obtain ⟨Γ', h1, h2, _⟩ := hi.place (a := a) (d := d) hnode hna (fun nm c ks hc => by
    refine ⟨?_, hopen⟩
    rw [hi.hw.rho_leaf hnode hl hna]
    exact hi.hw.rho_anode_pos hc)
  exact ⟨Γ', h1, h2⟩

end

/-! ## the top state is popped -/

/-- the pop step, from what either soundness invariant supplies -/
theorem hpop_core {g : Grammar} {n : Nat} {c : Ctx} {s : St} {Γ : Gh} (hi : HSt g n s Γ) {X : Nat}
    {rest : List Nat} (hst : s.stack = X :: rest) (hpos : (s.state X).pos = 0)
    (hnp : ∀ y ∈ rest, (s.states.getD y default).parent ≠ X)
    (hpaE : ∃ pa, (s.state (s.state X).parent).anode = some pa)
    (hcellX : ∀ a, (s.state X).anode = some a → ∃ nm cc ks, s.heap.getD a .nil = .anode nm cc ks) :
    ∃ Γ', HSt g n (step c s) Γ' := by
  have hXmem : X ∈ s.stack := by rw [hst]; simp
  have hr0 : (0 : Nat) < s.heap.size := by have : 2 < s.heap.size := hi.rootLt; omega
  cases han : (s.state X).anode with
  | some a =>
    have hstep := step_pop_some (c := c) hst hpos han
    obtain ⟨p1, p2, p3, _⟩ := popFold_proj a (List.range (c.rule (s.state X).rule).transLen)
      { s with stack := rest }
    simp only at p1 p2 p3
    rw [← hstep] at p1 p2 p3
    have p4 : (step c s).table = s.table := by rw [hstep]; exact (popFold_table a _ _).1
    obtain ⟨nm, cc, ks, hcell⟩ := hcellX a han
    have h1 := (HInv.fillPass hi hcell (c.rule (s.state X).rule).transLen).pop hst hnp
    exact ⟨Γ, HSt.of_eq h1 p1 p2 p3 p4⟩
  | none =>
    obtain ⟨pa, hpa'⟩ := hpaE
    have hpa : (s.states.getD (s.states.getD X default).parent default).anode = some pa := hpa'
    have hstep := step_pop_none (c := c) hst hpos han hpa'
    by_cases htl : ((c.rule (s.state X).rule).transLen == 0) = true
    · rw [if_pos htl] at hstep
      have hopen := HInv.tgt_open hi hXmem hpa
      have hn0 : isAlt s.heap nilId = false := by unfold isAlt; rw [hi.nil0]
      obtain ⟨Γ', h1, _⟩ := HInv.place_leaf hi (node := nilId) hr0
        (fun nm c ks e => by rw [hi.nil0] at e; cases e) hn0 hopen
      have h2 := h1.pop hst hnp
      exact ⟨Γ', HSt.of_eq h2 (by rw [hstep]; rfl) (by rw [hstep]; rfl) (by rw [hstep]; rfl)
        (by rw [hstep]; rfl)⟩
    · rw [if_neg htl] at hstep
      have h2 := HInv.pop hi hst hnp
      exact ⟨Γ, HSt.of_eq h2 (by rw [hstep]) (by rw [hstep]) (by rw [hstep]) (by rw [hstep])⟩

theorem hstep_pop {g : Grammar} {ok : Nat → Nat → Nat → Bool} {toks : List Nat} {c : Ctx}
    {s : St} {G : Ghost} {Γ : Gh}
    (hgood : AGood g ok toks s G none) (hi : HSt g toks.length s Γ) {X : Nat} {rest : List Nat}
    (hst : s.stack = X :: rest) (hpos : (s.state X).pos = 0) :
    ∃ Γ', HSt g toks.length (step c s) Γ' := by
  have hXmem : X ∈ s.stack := by rw [hst]; simp
  obtain ⟨rl, hX⟩ := hgood.states X hXmem
  refine hpop_core hi hst hpos ?_ hX.pa ?_
  · intro y hy
    exact hgood.np hst y (by rw [hst]; exact List.mem_cons_of_mem _ hy)
  · intro a han
    obtain ⟨rl', nm, ks, _, hcell, _⟩ := hgood.stateCell hXmem han
    exact ⟨nm, _, ks, hcell⟩

/-! ## a terminal before the dot -/

/-- the top state after its dot has moved over a terminal -/
def termSt (t : PState) : PState :=
  { t with pos := t.pos - 1, plInd := if t.pos - 1 != 0 then t.plInd - 1 else t.plInd }

/-- the terminal step, from what either soundness invariant supplies: the dot moves; a leaf (the
ERROR node, a known TERM node, or a new TERM node) is placed if the terminal is translated -/
theorem hterm_core {g : Grammar} {n : Nat} {s r : St} {Γ : Gh} (hi : HSt g n s Γ) {X : Nat}
    {rest : List Nat} (hst : s.stack = X :: rest) (tf : TopFacts g s X) {rl0 : Rule} {pa : Nat}
    (hr : g.rules[(s.state X).rule]? = some rl0) (hpos : (s.state X).pos ≠ 0)
    (hpa : (s.state (s.state X).parent).anode = some pa) (hpl : 1 ≤ (s.state X).plInd)
    (p1 : r.states = s.states.set! X (termSt (s.state X))) (p2 : r.stack = s.stack)
    (p3 : r.table = s.table)
    (hnone : rl0.order.getD ((s.state X).pos - 1) none = none → r.heap = s.heap)
    (hsome : ∀ d, rl0.order.getD ((s.state X).pos - 1) none = some d →
      (∃ node, node < s.heap.size ∧ (∀ nm c ks, s.heap.getD node .nil ≠ .anode nm c ks) ∧
        isAlt s.heap node = false ∧
        r.heap = placeTranslation s.heap (placeOf (s.state X) pa d) node) ∨
      (∃ cd atr, r.heap = placeTranslation (s.heap.push (.term cd atr)) (placeOf (s.state X) pa d)
        s.heap.size)) :
    ∃ Γ', HSt g n r Γ' := by
  have hXmem : X ∈ s.stack := by rw [hst]; simp
  have est : s.states.getD X default = s.state X := rfl
  have hsX := hi.sts X hXmem
  have hXlt := tf.stack_lt X hXmem
  generalize hst' : termSt (s.state X) = st' at p1
  have q1 : st'.parent = (s.state X).parent := by rw [← hst']; rfl
  have q2 : st'.parentDisp = (s.state X).parentDisp := by rw [← hst']; rfl
  have q3 : st'.anode = (s.state X).anode := by rw [← hst']; rfl
  have q4 : st'.rule = (s.state X).rule := by rw [← hst']; rfl
  have q5 : st'.orig = (s.state X).orig := by rw [← hst']; rfl
  have q6 : st'.pos = (s.state X).pos - 1 := by rw [← hst']; rfl
  have q7 : st'.plInd ≤ (s.state X).plInd := by
    rw [← hst']; unfold termSt; simp only; split <;> omega
  have q8 : st'.pos ≠ 0 → st'.plInd < (s.state X).plInd := by
    intro hp
    rw [q6] at hp
    have hp' : ((s.state X).pos - 1 != 0) = true := by simpa using hp
    rw [← hst']; unfold termSt; simp only [hp', if_true]; omega
  have hi1 : HInv g n s.heap (s.states.set! X st') s.stack s.table Γ := by
    apply HInv.setTop hi hXmem st' (by simp) (by rw [getD_set!]; simp [hXlt])
      (fun y hy => by rw [getD_set!]; simp [Ne.symm hy]) tf.np q1 q2 q3 q4 q5
    · have := hsX.plLe; rw [est] at this; omega
    · intro hp he
      have := q8 hp
      have := hsX.plLe; rw [est] at this; omega
    · intro a' rl' d' ha' hr' hd'
      rw [q4] at hr'
      rw [hr] at hr'; injection hr' with hr'; subst hr'
      rw [q6] at hd'
      rw [q3] at ha'
      exact ExclSlot.of_none (tf.slot_none a' _ d' ha' hr hpos hd')
  have hsame : (s.states.set! X st').getD X default = st' := by rw [getD_set!]; simp [hXlt]
  have hparne : (s.state X).parent ≠ X := by have := hsX.parLt; rw [est] at this; omega
  have hparst : (s.states.set! X st').getD (s.state X).parent default =
      s.states.getD (s.state X).parent default := by
    rw [getD_set!]; simp [Ne.symm hparne]
  cases hd : rl0.order.getD ((s.state X).pos - 1) none with
  | none => exact ⟨Γ, HSt.of_eq hi1 (hnone hd) p1 p2 p3⟩
  | some d =>
    -- the place is open
    have hopen : Open g (s.states.set! X st') s.stack (placeOf (s.state X) pa d).1
        (placeOf (s.state X) pa d).2 := by
      have := HInv.place_open hi1 (sid := X) (pa := pa) (d := d) (rl := rl0) hXmem
        (by rw [hsame, q1, hparst]; exact hpa) (by rw [hsame, q4]; exact hr)
        (by rw [hsame, q6]; exact hd)
      rw [hsame] at this
      have e : placeOf st' pa d = placeOf (s.state X) pa d := by
        unfold placeOf; rw [q3, q2]
      rw [e] at this; exact this
    rcases hsome d hd with ⟨node, t1, t2, t3, t4⟩ | ⟨cd, atr, t4⟩
    · obtain ⟨Γ', h1, _⟩ := HInv.place_leaf hi1 (node := node) t1 t2 t3 hopen
      exact ⟨Γ', HSt.of_eq h1 t4 p1 p2 p3⟩
    · have hxk : ∀ d k, getKid (s.heap.push (.term cd atr)) s.heap.size d = some k → False := by
        intro d k hk
        unfold getKid at hk
        rw [getD_push_eq] at hk
        cases hk
      have hi2 := HInv.pushCell hi1 (.term cd atr) 0 (push_term_hw hi1.hw _ _)
        (fun d k hk => (hxk d k hk).elim)
      have hcellx : (s.heap.push (.term cd atr)).getD s.heap.size .nil = .term cd atr :=
        getD_push_eq _ _ _
      have hna : isAlt (s.heap.push (.term cd atr)) s.heap.size = false := by
        unfold isAlt; rw [hcellx]
      obtain ⟨Γ', h1, _⟩ := HInv.place_leaf hi2 (node := s.heap.size) (by simp)
        (fun nm c ks e => by rw [hcellx] at e; cases e) hna hopen
      exact ⟨Γ', HSt.of_eq h1 t4 p1 p2 p3⟩

theorem hstep_term {g : Grammar} {ok : Nat → Nat → Nat → Bool} {toks : List Nat} {c : Ctx}
    (hc : CtxAll g ok toks c) (hwf : g.translWF = true) {s : St} {G : Ghost} {Γ : Gh}
    (hgood : AGood g ok toks s G none) (hi : HSt g toks.length s Γ) {X : Nat} {rest : List Nat}
    (hst : s.stack = X :: rest) {rlX : Rule} {a : Nat} (hr : g.rules[(s.state X).rule]? = some rlX)
    (hpos : (s.state X).pos ≠ 0) (hsym : rlX.rhs[(s.state X).pos - 1]? = some (.t a)) :
    ∃ Γ', HSt g toks.length (step c s) Γ' := by
  have hXmem : X ∈ s.stack := by rw [hst]; simp
  obtain ⟨rl0, hX0⟩ := hgood.states X hXmem
  have est : s.states.getD X default = s.state X := rfl
  have hrl : rl0 = rlX := by
    have := hX0.hr; rw [est, hr] at this; injection this with this; exact this.symm
  subst hrl
  obtain ⟨pa, hpa⟩ := hX0.pa
  have hpa' : (s.state (s.state X).parent).anode = some pa := hpa
  have hrule := hc.rule_eq hr
  have hstep := step_term (c := c) (a := a) hst hpos (by rw [hrule]; exact getD_of_getElem? hsym)
  rw [hpa', hrule] at hstep
  obtain ⟨p1, p2, p3, p4⟩ := stepTerm_all (c := c) (sid := X) (st := s.state X)
    (pos := (s.state X).pos - 1) (disp := rl0.order.getD ((s.state X).pos - 1) none) (a := a)
    (pa := pa) (s := s) hc.all
  rw [← hstep] at p1 p2 p3 p4
  have hpp : (s.state X).pos - 1 + 1 = (s.state X).pos := by omega
  obtain ⟨hitem, _⟩ := hX0.item (by rw [est]; exact hpos)
  rw [est] at hitem
  have hear := hitem
  rw [← hpp] at hear
  obtain ⟨j0, hj0, _, _⟩ := hear.term_inv hr hsym
  have hr1 : (1 : Nat) < s.heap.size := by have : 2 < s.heap.size := hi.rootLt; omega
  refine hterm_core hi hst (hgood.topFacts hwf hst) hr hpos hpa' (by omega) p1 p2 p3 ?_ ?_
  · intro hd
    rw [hd] at p4
    simp only [Prod.mk.injEq] at p4
    exact p4.1
  · intro d hd
    rw [hd] at p4
    by_cases he : (a == c.errT) = true
    · simp only [he, if_true, Prod.mk.injEq] at p4
      have hn1 : isAlt s.heap errId = false := by unfold isAlt; rw [hi.err1]
      exact Or.inl ⟨errId, hr1, (fun nm c ks e => by rw [hi.err1] at e; cases e), hn1, p4.1⟩
    · have he' : (a == c.errT) = false := by simpa using he
      simp only [he', Bool.false_eq_true, if_false] at p4
      cases hkn : s.termNodes.getD (c.plToks.getD ((s.state X).plInd - 1 + 1) (-1)).toNat none with
      | some node =>
        rw [hkn] at p4
        simp only [Prod.mk.injEq] at p4
        obtain ⟨t1, a', _, t3⟩ := hgood.terms _ node hkn
        have hna : isAlt s.heap node = false := by unfold isAlt; rw [t3]
        exact Or.inl ⟨node, t1, (fun nm c ks e => by rw [t3] at e; cases e), hna, p4.1⟩
      | none =>
        rw [hkn] at p4
        simp only [Prod.mk.injEq] at p4
        exact Or.inr ⟨_, _, p4.1⟩

end Yaep.MP
