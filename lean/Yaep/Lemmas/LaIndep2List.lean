import Yaep.Lemmas.LaIndepSetRel
/-!
# Lookahead independence at level 2, list part 1: generic lemmas

* `addNew_map`, `iterI_restrict_map`: the restriction of an iteration (`LI.iterI_restrict`) composed with an
  injective map into another type (the start situations of level 2 carry a context, which is a function of
  the situation without context and its distance);
* `tg_filter_eqP`, `mask_of_relP`: `LI.tg_filter_eq`, `LI.mask_of_rel` for a test on the *pairs*
  (situation, distance) instead of a test on the situations.
-/
namespace Yaep.LI2
open Yaep Yaep.BS Yaep.LI

section
variable {α β : Type} [DecidableEq α] [DecidableEq β]

theorem addNew_map (f : α → β) (hf : ∀ a b, f a = f b → a = b) (s xs : List α) :
    (addNew s xs).map f = addNew (s.map f) (xs.map f) := by
  induction xs generalizing s with
  | nil => rfl
  | cons x xs ih =>
    rw [addNew_cons, List.map_cons, addNew_cons]
    have hmem : f x ∈ s.map f ↔ x ∈ s := by
      constructor
      · intro h
        obtain ⟨y, hy, he⟩ := List.mem_map.mp h
        rw [← hf _ _ he]; exact hy
      · exact fun h => List.mem_map.mpr ⟨x, h, rfl⟩
    by_cases hx : x ∈ s
    · rw [if_pos hx, if_pos (hmem.mpr hx)]; exact ih s
    · rw [if_neg hx, if_neg (fun h => hx (hmem.mp h)), ih]
      simp

/-- **restriction of an iteration to a closed property, mapped into another type** -/
theorem iterI_restrict_map (K : α → Bool) (f : α → β) (hf : ∀ a b, f a = f b → a = b)
    (new0 : List α → Nat → List α) (new2 : List β → Nat → List β) (pre A : List α)
    (hc : ∀ n x, (pre ++ iterI new0 pre A n)[n]? = some x →
      (K x = true → ((new0 (pre ++ iterI new0 pre A n) n).filter K).map f =
        new2 (((pre ++ iterI new0 pre A n).filter K).map f)
          (((pre ++ iterI new0 pre A n).take n).countP K)) ∧
      (K x = false → (new0 (pre ++ iterI new0 pre A n) n).filter K = [])) :
    ∀ n, n ≤ (pre ++ iterI new0 pre A n).length →
      ((iterI new0 pre A n).filter K).map f =
        iterI new2 ((pre.filter K).map f) ((A.filter K).map f)
          (((pre ++ iterI new0 pre A n).take n).countP K) := by
  intro n
  induction n with
  | zero => intro _; simp [iterI]
  | succ n ih =>
    intro hle
    have hlt : n < (pre ++ iterI new0 pre A n).length := by
      refine Decidable.byContradiction fun hnot => ?_
      rw [iterI_succ, if_neg hnot] at hle
      omega
    have ih' := ih (Nat.le_of_lt hlt)
    obtain ⟨x, hx⟩ : ∃ x, (pre ++ iterI new0 pre A n)[n]? = some x :=
      ⟨_, List.getElem?_eq_getElem hlt⟩
    obtain ⟨hc1, hc2⟩ := hc n x hx
    obtain ⟨e, he⟩ := iterI_succ_prefix new0 pre A n
    have htake : (pre ++ iterI new0 pre A (n + 1)).take (n + 1) =
        (pre ++ iterI new0 pre A n).take (n + 1) := by
      rw [he, ← List.append_assoc, List.take_append_of_le_length (by omega)]
    rw [htake, countP_take_succ K hx]
    generalize hcnt : ((pre ++ iterI new0 pre A n).take n).countP K = c at ih' hc1 ⊢
    rw [iterI_succ, if_pos hlt, addNew_filter, addNew_map f hf, ih']
    by_cases hK : K x = true
    · rw [if_pos hK, hc1 hK, iterI_succ]
      have hfil : ((pre ++ iterI new0 pre A n).filter K).map f =
          (pre.filter K).map f ++ iterI new2 ((pre.filter K).map f) ((A.filter K).map f) c := by
        rw [List.filter_append, List.map_append, ih']
      have hclt : c < ((pre.filter K).map f ++
          iterI new2 ((pre.filter K).map f) ((A.filter K).map f) c).length := by
        rw [← hfil, List.length_map, ← hcnt]; exact countP_take_lt K hx hK
      rw [if_pos hclt, hfil]
    · have hK' : K x = false := by simpa using hK
      rw [if_neg hK, hc2 hK', Nat.add_zero]
      rfl

/-- at the end of the unrestricted iteration the restricted, mapped one is at its end too -/
theorem iterI_restrict_map_terminal (K : α → Bool) (f : α → β) (hf : ∀ a b, f a = f b → a = b)
    (new0 : List α → Nat → List α) (new2 : List β → Nat → List β) (pre A : List α)
    (hc : ∀ n x, (pre ++ iterI new0 pre A n)[n]? = some x →
      (K x = true → ((new0 (pre ++ iterI new0 pre A n) n).filter K).map f =
        new2 (((pre ++ iterI new0 pre A n).filter K).map f)
          (((pre ++ iterI new0 pre A n).take n).countP K)) ∧
      (K x = false → (new0 (pre ++ iterI new0 pre A n) n).filter K = []))
    {n : Nat} (hn : n = (pre ++ iterI new0 pre A n).length) :
    ∃ c, ((iterI new0 pre A n).filter K).map f =
        iterI new2 ((pre.filter K).map f) ((A.filter K).map f) c ∧
      ((pre.filter K).map f ++ iterI new2 ((pre.filter K).map f) ((A.filter K).map f) c).length ≤ c := by
  have h := iterI_restrict_map K f hf new0 new2 pre A hc n (Nat.le_of_eq hn)
  refine ⟨_, h, ?_⟩
  rw [← h, ← List.map_append, ← List.filter_append, List.length_map]
  have : (pre ++ iterI new0 pre A n).take n = pre ++ iterI new0 pre A n := by
    rw [List.take_of_length_le (Nat.le_of_eq hn.symm)]
  rw [this, List.countP_eq_length_filter]
  exact Nat.le_refl _

end

/-! ## two sets whose start pairs are related by a test on the pairs -/

section
variable {g : Grammar} {an : Analysis} {ns0 ns1 : List (Sit × Nat)} {cs0 cs1 : CSet}
  {I0 I1 : List Sit}

theorem startDerived_filter_eqP {K : Sit × Nat → Bool} {Ps : Sit → Bool}
    (hrel : ns1 = ns0.filter K)
    (hPK : ∀ p : Sit × Nat, Ps p.1 = true → K p = true)
    (hchP : ∀ s q, q ∈ chainOf g an.nl s → Ps q = true → Ps s = true) :
    (ns1 ++ derivedT g an.nl ns1).filter (fun p => Ps p.1) =
      (ns0 ++ derivedT g an.nl ns0).filter (fun p => Ps p.1) := by
  rw [List.filter_append, List.filter_append]
  congr 1
  · rw [hrel, List.filter_filter]
    apply List.filter_congr
    intro p _
    cases hP : Ps p.1 with
    | false => simp
    | true => simp [hPK _ hP]
  · unfold derivedT
    rw [filter_flatMap, filter_flatMap, hrel]
    apply filter_flatMap_of_nil
    intro p _ hK
    apply List.filter_eq_nil_iff.mpr
    intro q hq hPq
    obtain ⟨s', hs', rfl⟩ := List.mem_map.mp hq
    have := hPK p (hchP p.1 s' hs' hPq)
    rw [this] at hK
    cases hK

/-- **the `P`-pairs of the two sets are the same** -/
theorem tg_filter_eqP {K : Sit × Nat → Bool} {Ps : Sit → Bool}
    (h0 : ExpandLists g an (ns0.map (·.1)) cs0.core I0) (hd0 : cs0.dists = ns0.map (·.2))
    (h1 : ExpandLists g an (ns1.map (·.1)) cs1.core I1) (hd1 : cs1.dists = ns1.map (·.2))
    (hrel : ns1 = ns0.filter K)
    (hPK : ∀ p : Sit × Nat, Ps p.1 = true → K p = true)
    (hchP : ∀ s q, q ∈ chainOf g an.nl s → Ps q = true → Ps s = true)
    (hcl : KClosed g an Ps) :
    (tg cs1).filter (fun p => Ps p.1) = (tg cs0).filter (fun p => Ps p.1) := by
  rw [tg_eq h0 hd0, tg_eq h1 hd1, List.filter_append, List.filter_append (l₁ := ns0 ++ _)]
  have hsd := startDerived_filter_eqP (g := g) (an := an) hrel hPK hchP
  congr 1
  obtain ⟨n0, e0, t0⟩ := h0.iter
  obtain ⟨n1, e1, t1⟩ := h1.iter
  rw [pre_eq] at e0 e1 t0 t1
  have hl0 : (ns0.map (·.1)).length + (derivedPairs g an.nl (ns0.map (·.1))).length =
      ((ns0 ++ derivedT g an.nl ns0).map (·.1)).length := by
    rw [← pre_eq, List.length_append, List.length_map, List.length_map]
  have hl1 : (ns1.map (·.1)).length + (derivedPairs g an.nl (ns1.map (·.1))).length =
      ((ns1 ++ derivedT g an.nl ns1).map (·.1)).length := by
    rw [← pre_eq, List.length_append, List.length_map, List.length_map]
  rw [hl0] at e0
  rw [hl1] at e1
  have hpre : ((ns1 ++ derivedT g an.nl ns1).map (·.1)).filter Ps =
      ((ns0 ++ derivedT g an.nl ns0).map (·.1)).filter Ps := by
    rw [List.filter_map, List.filter_map]
    exact congrArg _ hsd
  have hI : I0.filter Ps = I1.filter Ps := by
    conv => lhs; rw [e0]
    conv => rhs; rw [e1]
    apply bfs_restrict hcl hpre
    · rw [← e0]; exact t0
    · rw [← e1]; exact t1
  rw [List.filter_map, List.filter_map]
  exact congrArg _ hI.symm

/-- **the mask list of the completed items for `B`** (test on the pairs) -/
theorem mask_of_relP {K : Sit × Nat → Bool} (j B : Nat) (C : Item → Prop)
    (h0 : ExpandLists g an (ns0.map (·.1)) cs0.core I0) (hd0 : cs0.dists = ns0.map (·.2))
    (h1 : ExpandLists g an (ns1.map (·.1)) cs1.core I1) (hd1 : cs1.dists = ns1.map (·.2))
    (hrel : ns1 = ns0.filter K)
    (hsubI : ∀ s ∈ I1, s ∈ I0)
    (keepS : ∀ p ∈ ns0, C (toItem j p) → K p = true)
    (keepD : ∀ p ∈ ns0, ∀ s' ∈ chainOf g an.nl p.1, redS g B s' = true → C (toItem j (s', p.2)) →
      K p = true)
    (keepI : ∀ s ∈ I0, redS g B s = true → C (toItem j (s, 0)) → s ∈ I1) :
    ∃ l : List (Item × Bool),
      l.map Prod.fst = ((tg cs0).map (toItem j)).filter (isRed g B) ∧
      (l.filter Prod.snd).map Prod.fst = ((tg cs1).map (toItem j)).filter (isRed g B) ∧
      ∀ x ∈ l, C x.1 → x.2 = true := by
  let rp : Sit × Nat → Bool := fun p => redS g B p.1
  let lS : List (Item × Bool) := (ns0.filter rp).map fun p => (toItem j p, K p)
  let G : Sit × Nat → List (Item × Bool) := fun p =>
    (((chainOf g an.nl p.1).map fun s => (s, p.2)).filter rp).map fun q => (toItem j q, K p)
  let lD : List (Item × Bool) := ns0.flatMap G
  let lI : List (Item × Bool) :=
    ((I0.map fun s => (s, 0)).filter rp).map fun q => (toItem j q, decide (q.1 ∈ I1))
  have hfm : ∀ (l : List (Sit × Nat)), (l.map (toItem j)).filter (isRed g B) = (l.filter rp).map (toItem j) := by
    intro l
    rw [List.filter_map]
    rfl
  refine ⟨lS ++ lD ++ lI, ?_, ?_, ?_⟩
  · -- first projection
    rw [tg_eq h0 hd0, hfm, List.filter_append, List.filter_append, List.map_append, List.map_append,
      List.map_append, List.map_append]
    congr 1
    · congr 1
      · show ((ns0.filter rp).map _).map Prod.fst = _
        rw [List.map_map]; rfl
      · show (ns0.flatMap G).map Prod.fst = _
        unfold derivedT
        rw [List.map_flatMap, filter_flatMap, List.map_flatMap]
        apply flatMap_congr_mem
        intro p _
        show (((_ : List (Sit × Nat)).filter rp).map _).map Prod.fst = _
        rw [List.map_map]; rfl
    · show (((I0.map fun s => (s, 0)).filter rp).map _).map Prod.fst = _
      rw [List.map_map]; rfl
  · -- the kept occurrences
    rw [tg_eq h1 hd1, hfm, List.filter_append, List.filter_append, List.filter_append,
      List.filter_append, List.map_append, List.map_append, List.map_append, List.map_append]
    congr 1
    · congr 1
      · show (((ns0.filter rp).map _).filter Prod.snd).map Prod.fst = _
        rw [List.filter_map, List.map_map, hrel, List.filter_filter, List.filter_filter]
        have : (fun a : Sit × Nat => (Prod.snd ∘ fun p : Sit × Nat => (toItem j p, K p)) a && rp a) =
            (fun a => rp a && K a) := by
          funext a; exact Bool.and_comm _ _
        rw [this]; rfl
      · show ((ns0.flatMap G).filter Prod.snd).map Prod.fst = _
        unfold derivedT
        rw [filter_flatMap, filter_flatMap, List.map_flatMap, List.map_flatMap, hrel]
        apply flatMap_filter_eq
        intro p _
        constructor
        · intro hK
          have e : (G p).filter Prod.snd = G p := by
            apply List.filter_eq_self.mpr
            intro x hx
            obtain ⟨q, _, rfl⟩ := List.mem_map.mp hx
            exact hK
          rw [e]
          show ((((_ : List (Sit × Nat)).filter rp).map _).map Prod.fst) = _
          rw [List.map_map]; rfl
        · intro hK
          have e : (G p).filter Prod.snd = [] := by
            apply List.filter_eq_nil_iff.mpr
            intro x hx
            obtain ⟨q, _, rfl⟩ := List.mem_map.mp hx
            simp only [hK]
            exact Bool.false_ne_true
          rw [e]; rfl
    · -- initial situations: sortedness
      show ((((I0.map fun s => (s, 0)).filter rp).map _).filter Prod.snd).map Prod.fst = _
      rw [List.filter_map, List.map_map, List.filter_filter, List.filter_map, List.filter_map,
        List.map_map, List.map_map]
      have hkey : I1.filter (redS g B) =
          I0.filter (fun s => decide (s ∈ I1) && redS g B s) := by
        obtain ⟨n0, e0, _⟩ := h0.iter
        obtain ⟨n1, e1, _⟩ := h1.iter
        rw [pre_eq] at e0 e1
        have hl0 : (ns0.map (·.1)).length + (derivedPairs g an.nl (ns0.map (·.1))).length =
            ((ns0 ++ derivedT g an.nl ns0).map (·.1)).length := by
          rw [← pre_eq, List.length_append, List.length_map, List.length_map]
        have hl1 : (ns1.map (·.1)).length + (derivedPairs g an.nl (ns1.map (·.1))).length =
            ((ns1 ++ derivedT g an.nl ns1).map (·.1)).length := by
          rw [← pre_eq, List.length_append, List.length_map, List.length_map]
        rw [hl0] at e0
        rw [hl1] at e1
        have hs0 : (I0.filter fun s => lhsOf g s == B).Pairwise Before := by
          rw [e0]; exact bfs_sorted g an _ n0 B
        have hs1 : (I1.filter fun s => lhsOf g s == B).Pairwise Before := by
          rw [e1]; exact bfs_sorted g an _ n1 B
        have hsub : (I1.filter fun s => lhsOf g s == B) ⊆ (I0.filter fun s => lhsOf g s == B) := by
          intro s hs
          obtain ⟨hs1', hs2⟩ := List.mem_filter.mp hs
          exact List.mem_filter.mpr ⟨hsubI s hs1', hs2⟩
        have hfl := eq_filter_of_pairwise (fun a b => Before.asymm) hs1 hs0 hsub
        have e : ∀ (I : List Sit), I.filter (redS g B) =
            (I.filter fun s => lhsOf g s == B).filter
              (fun s => s.2 == (g.rules.getD s.1 default).rhs.length) := by
          intro I
          rw [List.filter_filter]
          apply List.filter_congr
          intro s _
          rw [redS_eq, Bool.and_comm]
        rw [e I1, hfl, List.filter_filter, List.filter_filter]
        apply List.filter_congr
        intro s _
        rw [redS_eq]
        by_cases hl : (lhsOf g s == B) = true
        · have hm : s ∈ I1.filter (fun s => lhsOf g s == B) ↔ s ∈ I1 := by
            rw [List.mem_filter]
            exact ⟨fun h => h.1, fun h => ⟨h, hl⟩⟩
          simp only [hm, hl, Bool.and_true, Bool.true_and]
          exact Bool.and_comm _ _
        · simp [hl]
      rw [show List.filter (rp ∘ fun s => (s, 0)) I1 = List.filter (redS g B) I1 from rfl, hkey]
      rfl
  · -- what is kept
    intro x hx hC
    rcases List.mem_append.mp hx with hx | hx
    · rcases List.mem_append.mp hx with hx | hx
      · obtain ⟨p, hp, rfl⟩ := List.mem_map.mp hx
        exact keepS p (List.mem_filter.mp hp).1 hC
      · obtain ⟨p, hp, hx⟩ := List.mem_flatMap.mp hx
        obtain ⟨q, hq, rfl⟩ := List.mem_map.mp hx
        obtain ⟨hq1, hq2⟩ := List.mem_filter.mp hq
        obtain ⟨s', hs', rfl⟩ := List.mem_map.mp hq1
        exact keepD p hp s' hs' hq2 hC
    · obtain ⟨q, hq, rfl⟩ := List.mem_map.mp hx
      obtain ⟨hq1, hq2⟩ := List.mem_filter.mp hq
      obtain ⟨s, hs, rfl⟩ := List.mem_map.mp hq1
      simp only [decide_eq_true_eq]
      exact keepI s hs hq2 hC

end

end Yaep.LI2
