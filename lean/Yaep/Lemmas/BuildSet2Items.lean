import Yaep.Lemmas.BuildSet2New
import Yaep.Lemmas.BuildSet
/-!
# Helper lemmas for `Yaep/Model/BuildSet2.lean`, part 4: a stored set with an expanded core
against `expand2`

A set whose core is `expand_new_start_set (start situations)` has, as a set of `Item2`s, the
items of `expand2 g an start j` of `Yaep/Model/Earley2.lean`, provided the start situations
(with their distances) are the items `start` (`items_iff_expand2`).  The contexts of the initial
situations agree because both sides compute the least solution of the same inequalities —
`ctxFix` by simultaneous rounds, the C code by in-place passes.
-/
namespace Yaep.BS2
open Yaep

/-! ## items of a stored set -/

theorem originOf_eq (s : CSet2) (j i : Nat) :
    s.originOf j i = j - BS.dtag s.dists (s.core.proj.tagOf i) := by
  unfold CSet2.originOf BS.Core.tagOf
  show (if i < s.core.nStart then _ else if i < s.core.nAllDists then _ else _) =
    j - BS.dtag s.dists (if i < s.core.nStart then _ else if i < s.core.nAllDists then _ else _)
  split
  · rfl
  · split <;> rfl

theorem distOf_eq {s : CSet2} (hs : BS.Shape s.core.proj) (i : Nat) :
    s.distOf i = BS.dtag s.dists (s.core.proj.tagOf i) := by
  unfold CSet2.distOf BS.Core.tagOf
  have hle : s.core.nStart ≤ s.core.nAllDists := hs.le
  show _ = BS.dtag s.dists (if i < s.core.nStart then _ else if i < s.core.nAllDists then _ else _)
  by_cases h1 : s.core.nAllDists ≤ i
  · rw [if_pos h1, if_neg (by omega), if_neg (by omega)]; rfl
  · rw [if_neg h1]
    by_cases h2 : i < s.core.nStart
    · rw [if_pos h2, if_pos h2]; rfl
    · rw [if_neg h2, if_neg h2, if_pos (by omega)]; rfl

theorem mem_items {s : CSet2} {j : Nat} {it : Item2} :
    it ∈ s.items j ↔ ∃ i sit, s.core.sits[i]? = some sit ∧
      it = ⟨sit.rule, sit.dot, j - BS.dtag s.dists (s.core.proj.tagOf i), sit.ctx⟩ := by
  unfold CSet2.items
  simp only [List.mem_map, List.mem_range]
  constructor
  · rintro ⟨i, hi, rfl⟩
    refine ⟨i, s.core.sits.getD i default, ?_, by rw [originOf_eq]⟩
    rw [List.getD_eq_getElem?_getD, List.getElem?_eq_getElem hi]; rfl
  · rintro ⟨i, sit, hs, rfl⟩
    obtain ⟨hi, he⟩ := List.getElem?_eq_some_iff.mp hs
    refine ⟨i, hi, ?_⟩
    rw [originOf_eq, List.getD_eq_getElem?_getD, hs]; rfl

/-- the item of a pair (start situation, distance) of the set at position `j` -/
def itemOf (j : Nat) (p : Sit2 × Nat) : Item2 := ⟨p.1.rule, p.1.dot, j - p.2, p.1.ctx⟩

/-! ## runs of nullable symbols, left-hand sides: the two vocabularies -/

theorem nullRun_iff {g : Grammar} {r d : Nat} {rl : Rule} (hr : g.rules[r]? = some rl) (t : Nat) :
    t ≤ BS.nullRun g.nullable (rl.rhs.drop d) ↔ NullRun g r d t := by
  constructor
  · intro h t' ht'
    obtain ⟨s, hs, hn⟩ := BS.nullRun_get (k := t') (by omega : t' < BS.nullRun g.nullable (rl.rhs.drop d))
    rw [List.getElem?_drop] at hs
    cases s with
    | t a => simp [symNullable] at hn
    | n B =>
      refine ⟨B, nextSym_eq_some.mpr ⟨rl, hr, hs⟩, ?_⟩
      simpa [symNullable] using hn
  · intro h
    induction t with
    | zero => exact Nat.zero_le _
    | succ t ih =>
      have h' : NullRun g r d t := fun t' ht' => h t' (by omega)
      obtain ⟨B, hns, hB⟩ := h t (by omega)
      obtain ⟨rl', hr', hs⟩ := nextSym_eq_some.mp hns
      rw [hr] at hr'; cases hr'
      exact BS.nullRun_extend (ih h') (by rw [List.getElem?_drop]; exact hs)
        (by simpa [symNullable] using hB)

theorem lhsOf_eq (g : Grammar) (s : Sit2) : lhsOf g s = Yaep.lhsOf g s.rule := by
  unfold lhsOf Yaep.lhsOf
  rw [List.getD_eq_getElem?_getD]
  cases g.rules[s.rule]? <;> rfl

theorem emptyTailP_iff {g : Grammar} {r d : Nat} {rl : Rule} (hr : g.rules[r]? = some rl) :
    BS.emptyTailP g g.analysis (r, d) = true ↔
      (firstOfStr g.analysis.nl g.analysis.fs (rl.rhs.drop d)).2 = true := by
  unfold BS.emptyTailP
  simp only [hr]
  show (rl.rhs.drop d).all (symNullable g.nullable) = true ↔
    (firstOfStr g.nullable g.analysis.fs (rl.rhs.drop d)).2 = true
  rw [firstOfStr_snd_iff]
  constructor
  · intro h
    apply Der.nil_of_forall
    intro s hs
    exact symNullable_iff.mp (List.all_eq_true.mp h s hs)
  · intro h
    rw [← firstOfStr_snd_iff g.analysis.fs] at h
    -- back through the definition: nullable string = all symbols nullable
    have : ∀ β : List Sym, Der g β [] → β.all (symNullable g.nullable) = true := by
      intro β hβ
      rw [List.all_eq_true]
      intro s hs
      apply symNullable_iff.mpr
      obtain ⟨l1, l2, rfl⟩ := List.append_of_mem hs
      obtain ⟨u1, v1, _, h2, huv⟩ := hβ.append_inv
      have hv1 : v1 = [] := (List.append_eq_nil_iff.mp huv.symm).2
      subst hv1
      have h3 : Der g ([s] ++ l2) [] := h2
      obtain ⟨u2, v2, h4, _, huv2⟩ := h3.append_inv
      have hu2 : u2 = [] := (List.append_eq_nil_iff.mp huv2.symm).1
      subst hu2
      exact h4
    exact this _ ((firstOfStr_snd_iff g.analysis.fs).mp h)

/-! ## the abstract side: the contexts `ctxFix` computes are below every solution -/

theorem ctxFix_least {g : Grammar} {an : Analysis} {items : List Item2} {pairs : List (Nat × Nat)}
    {Y : Nat → List Nat}
    (h1 : ∀ p ∈ items, ∀ A, g.nextSym p.rule p.dot = some (.n A) →
      ∀ a ∈ la2 g an p.rule (p.dot + 1) p.ctx, a ∈ Y A)
    (h2 : ∀ q ∈ pairs, ∀ A, g.nextSym q.1 q.2 = some (.n A) →
      ∀ a ∈ la2 g an q.1 (q.2 + 1) (Y (Yaep.lhsOf g q.1)), a ∈ Y A) :
    ∀ (fuel : Nat) (R : List CEntry), R.map (·.1) = pairs →
      (∀ e ∈ R, ∀ a ∈ e.2, a ∈ Y (Yaep.lhsOf g e.1.1)) →
      ∀ e ∈ ctxFix g an items fuel R, ∀ a ∈ e.2, a ∈ Y (Yaep.lhsOf g e.1.1) := by
  intro fuel
  induction fuel with
  | zero => intro R _ hR; exact hR
  | succ fuel ih =>
    intro R hk hR
    unfold ctxFix
    simp only
    split
    · exact hR
    · apply ih
      · rw [ctxRound_keys]; exact hk
      · rw [ctxRound_eq]
        intro e he a ha
        obtain ⟨e0, he0, rfl⟩ := List.mem_map.mp he
        simp only at ha ⊢
        rcases mem_ctxOf.mp ha with ⟨p, hp, hn, hap⟩ | ⟨e1, he1, hn, hae⟩
        · exact h1 p hp _ hn a hap
        · have hq : e1.1 ∈ pairs := by rw [← hk]; exact List.mem_map_of_mem he1
          exact h2 e1.1 hq _ hn a (la2_mono (hR e1 he1) a hae)

theorem inits2_least {g : Grammar} {start : List Item2} {Y : Nat → List Nat}
    (h1 : ∀ p ∈ items2 g start, ∀ A, g.nextSym p.rule p.dot = some (.n A) →
      ∀ a ∈ la2 g g.analysis p.rule (p.dot + 1) p.ctx, a ∈ Y A)
    (h2 : ∀ q ∈ pairs2 g start, ∀ A, g.nextSym q.1 q.2 = some (.n A) →
      ∀ a ∈ la2 g g.analysis q.1 (q.2 + 1) (Y (Yaep.lhsOf g q.1)), a ∈ Y A) :
    ∀ e ∈ inits2 g start, ∀ a ∈ e.2, a ∈ Y (Yaep.lhsOf g e.1.1) := by
  unfold inits2
  apply ctxFix_least h1 h2
  · simp [Function.comp_def]
  · intro e he a ha
    obtain ⟨p, _, rfl⟩ := List.mem_map.mp he
    cases ha

/-- a property of the start list that `more2` preserves holds of everything `startLoop` builds -/
theorem startLoop_ind {g : Grammar} {an : Analysis} {nxt : Option Nat} {pl : List (List Item2)}
    (P : Item2 → Prop) (hmore : ∀ s, P s → ∀ x ∈ more2 g an nxt pl s, P x) :
    ∀ (fuel : Nat) (start : List Item2) (k : Nat), (∀ s ∈ start, P s) →
      ∀ s ∈ startLoop g an nxt pl fuel start k, P s := by
  intro fuel
  induction fuel with
  | zero => intro start k h; exact h
  | succ fuel ih =>
    intro start k h
    rw [startLoop_succ]
    cases hk : start[k]? with
    | none => exact h
    | some it =>
      apply ih
      intro s hs
      rcases mem_addNew hs with hs | hs
      · exact h s hs
      · exact hmore it (h it (List.mem_of_getElem? hk)) s hs

/-! ## the situations below `n_all_dists` against `items2` -/

section Low
variable {g : Grammar} {num : Nat} {ns : NewStart2} {c : Core2} {dists : List Nat}

theorem ns_get {ns : NewStart2} {p : Nat} {s : BS.Sit}
    (h : ((ns.map (·.1)).map Sit2.proj)[p]? = some s) :
    ∃ q, ns[p]? = some q ∧ q.1.proj = s ∧ (ns.map (·.1)).getD p default = q.1 ∧
      (ns.map (·.2)).getD p 0 = q.2 := by
  rw [List.getElem?_map, List.getElem?_map] at h
  cases hn : ns[p]? with
  | none => rw [hn] at h; cases h
  | some q =>
    rw [hn] at h
    simp only [Option.map_some, Option.some.injEq] at h
    refine ⟨q, rfl, h, ?_, ?_⟩
    · rw [List.getD_eq_getElem?_getD, List.getElem?_map, hn]; rfl
    · rw [List.getD_eq_getElem?_getD, List.getElem?_map, hn]; rfl

/-- every situation below `n_all_dists` is a start situation with the dot moved over nullable
nonterminals; it has the context and the distance of that start situation -/
theorem low_item (hcore : ExpandSpec2 g num (ns.map (·.1)) c) (hd : dists = ns.map (·.2))
    {i : Nat} (hi : i < c.nAllDists) :
    ∃ q ∈ ns, ∃ t, NullRun g q.1.rule q.1.dot t ∧
      c.sitAt i = ⟨q.1.rule, q.1.dot + t, q.1.ctx⟩ ∧
      BS.dtag dists (c.proj.tagOf i) = q.2 := by
  have hsp := hcore.spec
  have hsh := hsp.shape
  have hns := hcore.nStart
  have hle' : c.nAllDists ≤ c.sits.length := by
    have := hsp.le'
    simpa [Core2.proj] using this
  rcases Nat.lt_or_ge i c.nStart with hS | hS
  · -- a start situation
    have hlt : i < ns.length := by rw [hns, List.length_map] at hS; exact hS
    have hst := hcore.start i (by rw [List.length_map]; exact hlt)
    have hq : ns[i]? = some ns[i] := List.getElem?_eq_getElem hlt
    refine ⟨ns[i], List.getElem_mem hlt, 0, fun t' ht' => absurd ht' (Nat.not_lt_zero _), ?_, ?_⟩
    · rw [hst, List.getD_eq_getElem?_getD, List.getElem?_map, hq]; rfl
    · have : c.proj.tagOf i = some i := BS.tagOf_lt_nStart hS
      rw [this, hd]
      show (ns.map (·.2)).getD i 0 = _
      rw [List.getD_eq_getElem?_getD, List.getElem?_map, hq]; rfl
  · -- a derived situation
    obtain ⟨p, hp⟩ := BS.parents_get hsh hS hi
    have hp' : c.parents[i - c.nStart]? = some p := hp
    have hget : c.proj.sits[i]? = some (c.sitAt i).proj := by
      show (c.sits.map Sit2.proj)[i]? = _
      rw [List.getElem?_map, sitAt_get (by omega)]; rfl
    have hmem : ((c.sitAt i).proj, p) ∈ c.proj.derived :=
      BS.mem_derived_iff.mpr ⟨i, hS, hi, hget, hp⟩
    obtain ⟨r, d, rl, k, hss, hr, hk, hx⟩ := (hsp.derived _).mp hmem
    simp only at hss hx
    obtain ⟨q, hq, hqp, hq1, hq2⟩ := ns_get hss
    have hctx := hcore.dctx i p hS hi hp'
    rw [hq1] at hctx
    have hqr : q.1.rule = r ∧ q.1.dot = d := by
      unfold Sit2.proj at hqp
      simp only [Prod.mk.injEq] at hqp
      exact hqp
    refine ⟨q, List.mem_of_getElem? hq, k + 1, ?_, ?_, ?_⟩
    · rw [hqr.1, hqr.2]
      exact (nullRun_iff hr (k + 1)).mp (by show k + 1 ≤ BS.nullRun g.nullable _; exact hk)
    · apply sit2_ext
      · rw [hx]; unfold Sit2.proj; simp only [hqr.1, hqr.2]
        rw [Nat.add_assoc]
      · exact hctx
    · rw [BS.tagOf_mid hS hi hp, hd]
      exact hq2

/-- conversely -/
theorem low_index (hcore : ExpandSpec2 g num (ns.map (·.1)) c) (hd : dists = ns.map (·.2))
    {q : Sit2 × Nat} (hq : q ∈ ns) {t : Nat} (hrun : NullRun g q.1.rule q.1.dot t) :
    ∃ i, i < c.nAllDists ∧ c.sitAt i = ⟨q.1.rule, q.1.dot + t, q.1.ctx⟩ ∧
      BS.dtag dists (c.proj.tagOf i) = q.2 := by
  have hsp := hcore.spec
  have hsh := hsp.shape
  have hns := hcore.nStart
  have hle : c.nStart ≤ c.nAllDists := hsh.le
  have hle' : c.nAllDists ≤ c.sits.length := by
    have := hsp.le'
    simpa [Core2.proj] using this
  obtain ⟨i0, hi0⟩ := List.mem_iff_getElem?.mp hq
  have hlt : i0 < ns.length := (List.getElem?_eq_some_iff.mp hi0).1
  have hS0 : i0 < c.nStart := by rw [hns, List.length_map]; exact hlt
  have hst := hcore.start i0 (by rw [List.length_map]; exact hlt)
  have hgq : (ns.map (·.1)).getD i0 default = q.1 := by
    rw [List.getD_eq_getElem?_getD, List.getElem?_map, hi0]; rfl
  have hgd : (ns.map (·.2)).getD i0 0 = q.2 := by
    rw [List.getD_eq_getElem?_getD, List.getElem?_map, hi0]; rfl
  by_cases ht : t = 0
  · subst ht
    refine ⟨i0, by omega, ?_, ?_⟩
    · rw [hst, hgq]; exact sit2_ext rfl rfl
    · rw [BS.tagOf_lt_nStart hS0, hd]; exact hgd
  · obtain ⟨B, hnsym, _⟩ := hrun 0 (by omega)
    obtain ⟨rl, hr, _⟩ := nextSym_eq_some.mp hnsym
    have hk : t - 1 < BS.nullRun g.analysis.nl (rl.rhs.drop q.1.dot) := by
      have := (nullRun_iff hr t).mpr hrun
      show t - 1 < BS.nullRun g.nullable _
      omega
    have hss : ((ns.map (·.1)).map Sit2.proj)[i0]? = some (q.1.rule, q.1.dot) := by
      rw [List.getElem?_map, List.getElem?_map, hi0]; rfl
    have hdf : BS.DerivedFrom g g.analysis.nl ((ns.map (·.1)).map Sit2.proj)
        ((q.1.rule, q.1.dot + t), i0) :=
      ⟨q.1.rule, q.1.dot, rl, t - 1, hss, hr, hk, by
        simp only [Prod.mk.injEq, true_and]; omega⟩
    obtain ⟨i, h1, h2, h3, h4⟩ := BS.mem_derived_iff.mp ((hsp.derived _).mpr hdf)
    have h4' : c.parents[i - c.nStart]? = some i0 := h4
    have h1' : c.nStart ≤ i := h1
    have h2' : i < c.nAllDists := h2
    have hctx := hcore.dctx i i0 h1 h2 h4'
    rw [hgq] at hctx
    have h3' : (c.sitAt i).proj = (q.1.rule, q.1.dot + t) := by
      have : (c.sits.map Sit2.proj)[i]? = some (q.1.rule, q.1.dot + t) := h3
      rw [List.getElem?_map, sitAt_get (by omega)] at this
      simpa using this
    refine ⟨i, h2, sit2_ext h3' hctx, ?_⟩
    rw [BS.tagOf_mid h1 h2 h4, hd]; exact hgd

end Low

/-! ## `items2`, `pairs2`, `inits2` against the three parts of the core -/

section Parts
variable {g : Grammar} {num : Nat} {ns : NewStart2} {cs : CSet2} {j : Nat} {start : List Item2}

theorem nullRun_le_maxRhs {g : Grammar} {r d t : Nat} (h : NullRun g r d t) : t ≤ g.maxRhs + 1 := by
  rcases Nat.eq_zero_or_pos t with h0 | hpos
  · omega
  · obtain ⟨B, hns, _⟩ := h (t - 1) (by omega)
    obtain ⟨rl, hr, hs⟩ := nextSym_eq_some.mp hns
    have h1 := (List.getElem?_eq_some_iff.mp hs).1
    have h2 := le_maxRhs (List.mem_of_getElem? hr)
    omega

/-- the items of `items2` are the situations below `n_all_dists` -/
theorem items2_iff_low (hcore : ExpandSpec2 g num (ns.map (·.1)) cs.core)
    (hd : cs.dists = ns.map (·.2))
    (hstart : ∀ x, x ∈ start ↔ ∃ p ∈ ns, x = itemOf j p) (x : Item2) :
    x ∈ items2 g start ↔ ∃ i, i < cs.core.nAllDists ∧
      x = ⟨(cs.core.sitAt i).rule, (cs.core.sitAt i).dot,
        j - BS.dtag cs.dists (cs.core.proj.tagOf i), (cs.core.sitAt i).ctx⟩ := by
  rw [mem_items2_iff]
  constructor
  · rintro ⟨s, hs, t, _, hrun, rfl⟩
    obtain ⟨q, hq, rfl⟩ := (hstart s).mp hs
    obtain ⟨i, h1, h2, h3⟩ := low_index hcore hd hq hrun
    exact ⟨i, h1, by rw [h2, h3]; rfl⟩
  · rintro ⟨i, hi, rfl⟩
    obtain ⟨q, hq, t, hrun, h2, h3⟩ := low_item hcore hd hi
    refine ⟨itemOf j q, (hstart _).mpr ⟨q, hq, rfl⟩, t, nullRun_le_maxRhs hrun, hrun, ?_⟩
    rw [h2, h3]; rfl

theorem initPart_iff_index {c : Core2} {s : BS.Sit} :
    s ∈ c.proj.initPart ↔ ∃ i, c.nAllDists ≤ i ∧ i < c.sits.length ∧ (c.sitAt i).proj = s := by
  rw [BS.mem_initPart_iff]
  constructor
  · rintro ⟨i, h1, h2⟩
    have h2' : (c.sits.map Sit2.proj)[i]? = some s := h2
    have hlt : i < c.sits.length := by
      have := (List.getElem?_eq_some_iff.mp h2').1
      simpa using this
    rw [List.getElem?_map, sitAt_get hlt] at h2'
    exact ⟨i, h1, hlt, by simpa using h2'⟩
  · rintro ⟨i, h1, h2, h3⟩
    refine ⟨i, h1, ?_⟩
    show (c.sits.map Sit2.proj)[i]? = some s
    rw [List.getElem?_map, sitAt_get h2, ← h3]; rfl

/-- the keys of the predicted items are the initial situations -/
theorem initPart_iff_pairs2 (hcore : ExpandSpec2 g num (ns.map (·.1)) cs.core)
    (hd : cs.dists = ns.map (·.2))
    (hstart : ∀ x, x ∈ start ↔ ∃ p ∈ ns, x = itemOf j p) (s : BS.Sit) :
    s ∈ cs.core.proj.initPart ↔ s ∈ pairs2 g start := by
  have hsp := hcore.spec
  have hsh := hsp.shape
  have hlen : cs.core.proj.sits.length = cs.core.sits.length := by simp [Core2.proj]
  have hle' : cs.core.nAllDists ≤ cs.core.sits.length := by
    have := hsp.le'
    rw [hlen] at this; exact this
  constructor
  · -- every initial situation is predicted: the closure property of `pairs2`
    intro hs
    have hclosed := pairs_closed g g.analysis ((items2 g start).map fun it => (it.rule, it.dot))
    let Q : Nat → Nat → Option Nat → Prop := fun r d t =>
      match t with
      | some _ => (r, d) ∈ (items2 g start).map (fun it => (it.rule, it.dot))
      | none => (r, d) ∈ pairs2 g start
    have hallQ : BS.AllQ Q cs.core.proj := by
      rw [hcore.proj]
      apply BS.expandNewStartSet_allQ
      · -- the dot over a nullable symbol
        intro r d t rl sy hq hr hsy hn
        cases sy with
        | t a => simp [symNullable] at hn
        | n B =>
          have hn' : symNullable g.nullable (Sym.n B) = true := hn
          have hB : B ∈ g.nullable := by simpa [symNullable] using hn'
          have hns : g.nextSym r d = some (Sym.n B) := nextSym_eq_some.mpr ⟨rl, hr, hsy⟩
          cases t with
          | some p =>
            obtain ⟨it, hit, he⟩ := List.mem_map.mp hq
            simp only [Prod.mk.injEq] at he
            obtain ⟨s0, hs0, t0, _, hrun, rfl⟩ := mem_items2_iff.mp hit
            simp only at he
            have hrun' : NullRun g s0.rule s0.dot (t0 + 1) := by
              intro t' ht'
              rcases Nat.lt_or_ge t' t0 with h | h
              · exact hrun t' h
              · have : t' = t0 := by omega
                subst this
                exact ⟨B, by rw [he.1, he.2]; exact hns, hB⟩
            refine List.mem_map.mpr ⟨{ s0 with dot := s0.dot + (t0 + 1) },
              mem_items2_iff.mpr ⟨s0, hs0, t0 + 1, nullRun_le_maxRhs hrun', hrun', rfl⟩, ?_⟩
            simp only [Prod.mk.injEq]
            exact ⟨he.1, by omega⟩
          | none =>
            exact hclosed (mem_initStep.mpr (.inr ⟨(r, d), hq, B, hns, hB, rfl⟩))
      · -- prediction
        intro r d t B r' rl' hq hns hr' hl
        have hrf : r' ∈ g.rulesFor B := mem_rulesFor.mpr ⟨rl', hr', hl⟩
        apply hclosed
        refine mem_initStep.mpr (.inl ⟨(r, d), ?_, B, hns, hrf, rfl⟩)
        cases t with
        | some p => exact List.mem_append_left _ hq
        | none => exact List.mem_append_right _ hq
      · -- the start situations
        intro i sit hsit
        obtain ⟨q, hq, hqp, _, _⟩ := ns_get hsit
        have hmem : itemOf j q ∈ items2 g start :=
          mem_items2_iff.mpr ⟨itemOf j q, (hstart _).mpr ⟨q, List.mem_of_getElem? hq, rfl⟩, 0,
            Nat.zero_le _, fun t' ht' => absurd ht' (Nat.not_lt_zero _), rfl⟩
        refine List.mem_map.mpr ⟨_, hmem, ?_⟩
        rw [← hqp]; rfl
    obtain ⟨i, h1, h2⟩ := BS.mem_initPart_iff.mp hs
    have := hallQ.at_index hsh h2
    rw [BS.tagOf_ge_nAll hsh h1] at this
    exact this
  · -- everything `initStep` derives is there
    intro hs
    unfold pairs2 at hs
    refine saturate_sound (initStep g g.analysis _) (· ∈ cs.core.proj.initPart) ?_ _ _ ?_ s hs
    · intro cur hcur x hx
      -- an index for every pair of the base or of `cur`
      have hidx : ∀ q, q ∈ (items2 g start).map (fun it => (it.rule, it.dot)) ++ cur →
          ∃ k, k < cs.core.sits.length ∧ (cs.core.sitAt k).proj = q := by
        intro q hq
        rcases List.mem_append.mp hq with hq | hq
        · obtain ⟨it, hit, rfl⟩ := List.mem_map.mp hq
          obtain ⟨i, hi, rfl⟩ := (items2_iff_low hcore hd hstart it).mp hit
          exact ⟨i, by omega, rfl⟩
        · obtain ⟨i, _, h2, h3⟩ := initPart_iff_index.mp (hcur q hq)
          exact ⟨i, h2, h3⟩
      rcases mem_initStep.mp hx with ⟨q, hq, B, hns, hrf, hx2⟩ | ⟨q, hq, B, hns, hB, rfl⟩
      · obtain ⟨k, hk, hkq⟩ := hidx q hq
        have hnx : BS.nextOf g cs.core.proj.sits k = some (Sym.n B) := by
          rw [nextOf_proj]
          have : (cs.core.sitAt k).proj = (q.1, q.2) := hkq
          unfold Sit2.proj at this
          simp only [Prod.mk.injEq] at this
          rw [this.1, this.2]; exact hns
        have := hsp.pred k (by rw [hlen]; exact hk) B hnx x.1
          (BS.mem_rulesOf.mpr (mem_rulesFor.mp hrf))
        have hx' : x = (x.1, 0) := by rw [← hx2]
        rw [hx']; exact this
      · obtain ⟨k, h1, h2, h3⟩ := initPart_iff_index.mp (hcur q hq)
        have h3' : (cs.core.sitAt k).rule = q.1 ∧ (cs.core.sitAt k).dot = q.2 := by
          unfold Sit2.proj at h3
          rw [← h3]; exact ⟨rfl, rfl⟩
        have hnx : BS.nextOf g cs.core.proj.sits k = some (Sym.n B) := by
          rw [nextOf_proj, h3'.1, h3'.2]; exact hns
        have := hsp.adv k (by rw [hlen]; exact h2) h1 (Sym.n B) hnx (by
          show symNullable g.nullable (Sym.n B) = true
          have hB' : B ∈ g.nullable := hB
          simpa [symNullable] using hB')
        have e : cs.core.proj.sits.getD k default = (cs.core.sitAt k).proj := getD_map_proj _ _
        rw [e, h3] at this
        exact this
    · intro x hx; cases hx

/-- at a fixpoint of the context loop the contexts the loop body computes are a solution -/
theorem ExpandSpec2.prefix_self {c : Core2} (h : ExpandSpec2 g num (ns.map (·.1)) c) :
    PreFix g g.analysis c (fun A => ctxOfNt g g.analysis c A) := by
  intro k hk A hnx a ha
  apply mem_ctxOfNt.mpr
  refine ⟨k, (h.transExact _ k).mpr ⟨hk, hnx⟩, ?_⟩
  by_cases hlow : k < c.nAllDists
  · rw [if_pos hlow] at ha; exact ha
  · rw [if_neg hlow] at ha
    rw [← h.fix k (by omega) hk]
    exact ha

/-- **the contexts**: the initial situation at index `i` has the context `ctxFix` computes for
its `(rule, dot)` -/
theorem init_ctx_eq (hsr : g.symsInRange = true)
    (hcore : ExpandSpec2 g num (ns.map (·.1)) cs.core) (hd : cs.dists = ns.map (·.2))
    (hstart : ∀ x, x ∈ start ↔ ∃ p ∈ ns, x = itemOf j p)
    (hbnd : ∀ s ∈ start, ∀ a ∈ s.ctx, a < g.nT) {i : Nat} (hi1 : cs.core.nAllDists ≤ i)
    (hi2 : i < cs.core.sits.length) {e : CEntry} (he : e ∈ inits2 g start)
    (hkey : e.1 = (cs.core.sitAt i).proj) : (cs.core.sitAt i).ctx = e.2 := by
  obtain ⟨hfp, hkeys, _⟩ := inits2_spec hsr hbnd
  have hctxA : ∀ e' ∈ inits2 g start,
      e'.2 = ctxOf g g.analysis (items2 g start) (inits2 g start) (Yaep.lhsOf g e'.1.1) :=
    fun e' he' => inits2_ctx hfp he'
  have hkeyr : e.1.1 = (cs.core.sitAt i).rule := by rw [hkey]; rfl
  -- an entry for every initial situation
  have hentry : ∀ k, cs.core.nAllDists ≤ k → k < cs.core.sits.length →
      ∃ e' ∈ inits2 g start, e'.1 = (cs.core.sitAt k).proj := by
    intro k h1 h2
    have : (cs.core.sitAt k).proj ∈ pairs2 g start :=
      (initPart_iff_pairs2 hcore hd hstart _).mp (initPart_iff_index.mpr ⟨k, h1, h2, rfl⟩)
    rw [← hkeys] at this
    obtain ⟨e', he', hk'⟩ := List.mem_map.mp this
    exact ⟨e', he', hk'⟩
  apply sortedLt_ext (hcore.canon i hi1 hi2)
    (by rw [hctxA e he]; exact normSet_sorted _)
  intro a
  constructor
  · -- the C contexts are below the solution `ctxFix` reaches
    intro ha
    have hpre : PreFix g g.analysis cs.core
        (fun A => ctxOf g g.analysis (items2 g start) (inits2 g start) A) := by
      intro k hk A hnx b hb
      apply mem_ctxOf.mpr
      by_cases hlow : k < cs.core.nAllDists
      · rw [if_pos hlow] at hb
        left
        exact ⟨_, (items2_iff_low hcore hd hstart _).mpr ⟨k, hlow, rfl⟩, hnx, hb⟩
      · rw [if_neg hlow] at hb
        right
        obtain ⟨e', he', hk'⟩ := hentry k (by omega) hk
        have h1 : e'.1.1 = (cs.core.sitAt k).rule := by rw [hk']; rfl
        have h2 : e'.1.2 = (cs.core.sitAt k).dot := by rw [hk']; rfl
        refine ⟨e', he', by rw [h1, h2]; exact hnx, ?_⟩
        rw [h1, h2, hctxA e' he', h1, ← lhsOf_eq]
        exact hb
    have := hcore.least _ hpre i hi1 hi2 a ha
    rw [hctxA e he, hkeyr, ← lhsOf_eq]
    exact this
  · -- and conversely
    intro ha
    have hfixi := hcore.fix i hi1 hi2
    have := inits2_least (g := g) (start := start) (Y := fun A => ctxOfNt g g.analysis cs.core A)
      (by
        intro p hp A hnx b hb
        obtain ⟨k, hk, rfl⟩ := (items2_iff_low hcore hd hstart p).mp hp
        have hle' : cs.core.nAllDists ≤ cs.core.sits.length := by
          have := hcore.spec.le'
          simpa [Core2.proj] using this
        exact mem_ctxOfNt.mpr ⟨k, (hcore.transExact _ k).mpr ⟨by omega, hnx⟩, hb⟩)
      (by
        intro q hq A hnx b hb
        obtain ⟨k, h1, h2, h3⟩ := initPart_iff_index.mp
          ((initPart_iff_pairs2 hcore hd hstart q).mpr hq)
        have h3' : (cs.core.sitAt k).rule = q.1 ∧ (cs.core.sitAt k).dot = q.2 := by
          unfold Sit2.proj at h3
          rw [← h3]; exact ⟨rfl, rfl⟩
        refine mem_ctxOfNt.mpr ⟨k, (hcore.transExact _ k).mpr ⟨h2, by rw [h3'.1, h3'.2]; exact hnx⟩, ?_⟩
        rw [h3'.1, h3'.2]
        have hf := hcore.fix k h1 h2
        rw [newCtx_eq, lhsOf_eq, h3'.1] at hf
        show b ∈ la2 g g.analysis q.1 (q.2 + 1) (cs.core.ctxAt k)
        rw [← hf]; exact hb)
      e he a ha
    show a ∈ cs.core.ctxAt i
    rw [← hfixi, newCtx_eq, lhsOf_eq, ← hkeyr]
    exact this

/-- **A stored set with an expanded core has the items of `expand2`.** -/
theorem items_iff_expand2 (hsr : g.symsInRange = true)
    (hcore : ExpandSpec2 g num (ns.map (·.1)) cs.core) (hd : cs.dists = ns.map (·.2))
    (hstart : ∀ x, x ∈ start ↔ ∃ p ∈ ns, x = itemOf j p)
    (hbnd : ∀ s ∈ start, ∀ a ∈ s.ctx, a < g.nT) :
    ∀ x, x ∈ cs.items j ↔ x ∈ expand2 g g.analysis start j := by
  have hsp := hcore.spec
  have hsh := hsp.shape
  obtain ⟨_, hkeys, _⟩ := inits2_spec hsr hbnd
  intro x
  rw [mem_items, mem_expand2_iff]
  constructor
  · rintro ⟨i, sit, hs, rfl⟩
    have hlt := (List.getElem?_eq_some_iff.mp hs).1
    have hsat := sitAt_of_get hs
    rcases Nat.lt_or_ge i cs.core.nAllDists with hlow | hhigh
    · left
      exact (items2_iff_low hcore hd hstart _).mpr ⟨i, hlow, by rw [hsat]⟩
    · right
      have : sit.proj ∈ pairs2 g start := by
        apply (initPart_iff_pairs2 hcore hd hstart _).mp
        exact initPart_iff_index.mpr ⟨i, hhigh, hlt, by rw [hsat]⟩
      rw [← hkeys] at this
      obtain ⟨e, he, hk⟩ := List.mem_map.mp this
      have hctx := init_ctx_eq hsr hcore hd hstart hbnd hhigh hlt he (by rw [hsat]; exact hk)
      rw [hsat] at hctx
      refine ⟨e, he, ?_⟩
      have h1 : e.1.1 = sit.rule := by rw [hk]; rfl
      have h2 : e.1.2 = sit.dot := by rw [hk]; rfl
      rw [BS.tagOf_ge_nAll hsh hhigh, h1, h2, hctx]
      rfl
  · rintro (hx | ⟨e, he, rfl⟩)
    · obtain ⟨i, hi, rfl⟩ := (items2_iff_low hcore hd hstart x).mp hx
      have hle' : cs.core.nAllDists ≤ cs.core.sits.length := by
        have := hsp.le'
        simpa [Core2.proj] using this
      exact ⟨i, cs.core.sitAt i, sitAt_get (by omega), rfl⟩
    · have hk : e.1 ∈ pairs2 g start := by rw [← hkeys]; exact List.mem_map_of_mem he
      obtain ⟨i, h1, h2, h3⟩ := initPart_iff_index.mp
        ((initPart_iff_pairs2 hcore hd hstart e.1).mpr hk)
      have hctx := init_ctx_eq hsr hcore hd hstart hbnd h1 h2 he h3.symm
      refine ⟨i, cs.core.sitAt i, sitAt_get h2, ?_⟩
      have h4 : (cs.core.sitAt i).rule = e.1.1 := by rw [← h3]; rfl
      have h5 : (cs.core.sitAt i).dot = e.1.2 := by rw [← h3]; rfl
      rw [BS.tagOf_ge_nAll hsh h1, h4, h5, hctx]
      rfl

end Parts

end Yaep.BS2
