import Yaep.Lemmas.HeapWfOps
/-!
# The heaps of the model of `make_parse` are well formed, part 3: the invariant of the machine

`HInv`: the tree memory satisfies `HW`; the slot every state on the stack is filling (`Open`) is the
only reference to the ALT chain it holds (`ExclSlot`); per state (`SInv`): where its translation
goes (`tgt`: the open slot of the parent), the end of its span (`Γ.shi`), the symbols after the
dot derive ε if the whole span lies before the dot (`suf`), every rule instance below the one of
the state has a smaller rank than the abstract node the state fills (`tr`, `pr`); the abstract
nodes of the table have the rank of their rule instance.

The lemmas of this file: the invariant is kept by the primitive moves (a node is placed into an
open slot, a cell is allocated, a state is pushed, the top state moves its dot, the top state is
popped, the table grows, the final `NULL → empty node` pass).
-/
namespace Yaep.MP
open Yaep

/-- no other slot refers to the ALT chain (if any) in slot `(a, d)` -/
def ExclSlot (h : Array MNode) (a d : Nat) : Prop :=
  ∀ k, getKid h a d = some k → isAlt h k = true → ∀ a' d', getKid h a' d' = some k → a' = a ∧ d' = d

/-- the slots that may still be written: the result slot and, for every state on the stack with an
abstract node, the slot of its current position -/
def Open (g : Grammar) (sts : Array PState) (stack : List Nat) (a d : Nat) : Prop :=
  (a = rootId ∧ d = 0) ∨
  ∃ sid ∈ stack, (sts.getD sid default).anode = some a ∧ ∃ rl,
    g.rules[(sts.getD sid default).rule]? = some rl ∧
    rl.order.getD (sts.getD sid default).pos none = some d

/-- the abstract node of the parent of a state (`0` if there is none) -/
def pcell (sts : Array PState) (t : PState) : Nat := ((sts.getD t.parent default).anode).getD 0

/-- the cell a state puts the translations of its right-hand-side symbols into -/
def tcell (sts : Array PState) (t : PState) : Nat :=
  match t.anode with
  | some a => a
  | none => pcell sts t

/-- the ghost data of the old cells and states are kept -/
def GhExt (Γ Γ' : Gh) (hsz ssz : Nat) : Prop :=
  (∀ i, i < hsz → Γ'.rho i = Γ.rho i) ∧ (∀ x, x < ssz → Γ'.shi x = Γ.shi x)

theorem GhExt.refl (Γ : Gh) (a b : Nat) : GhExt Γ Γ a b := ⟨fun _ _ => rfl, fun _ _ => rfl⟩

theorem GhExt.trans {Γ1 Γ2 Γ3 : Gh} {a a' b b' : Nat} (h1 : GhExt Γ1 Γ2 a b) (h2 : GhExt Γ2 Γ3 a' b')
    (ha : a ≤ a') (hb : b ≤ b') : GhExt Γ1 Γ3 a b :=
  ⟨fun i hi => by rw [h2.1 i (by omega), h1.1 i hi], fun x hx => by rw [h2.2 x (by omega), h1.2 x hx]⟩

/-- the invariant of one parse state on the stack -/
structure SInv (g : Grammar) (n : Nat) (Γ : Gh) (hsz : Nat) (sts : Array PState) (stack : List Nat)
    (sid : Nat) : Prop where
  lt : sid < sts.size
  parLt : (sts.getD sid default).parent < sid
  tgt : ((sts.getD sid default).parent = 0 ∧ (sts.getD sid default).parentDisp = 0) ∨
    ((sts.getD sid default).parent ∈ stack ∧ ∃ rlP,
      g.rules[(sts.getD (sts.getD sid default).parent default).rule]? = some rlP ∧
      rlP.order.getD (sts.getD (sts.getD sid default).parent default).pos none =
        some (sts.getD sid default).parentDisp)
  plLe : (sts.getD sid default).plInd ≤ Γ.shi sid
  hiLe : Γ.shi sid ≤ n
  suf : (sts.getD sid default).pos ≠ 0 → (sts.getD sid default).plInd = Γ.shi sid →
    ∀ rl, g.rules[(sts.getD sid default).rule]? = some rl → ∀ j s, (sts.getD sid default).pos ≤ j →
      rl.rhs[j]? = some s → Der g [s] []
  tr : ∀ rl, g.rules[(sts.getD sid default).rule]? = some rl → ∀ A lo hi,
    Below g A lo hi rl.lhs (sts.getD sid default).orig (Γ.shi sid) → hi ≤ n →
    rhoI g A lo hi + 1 < Γ.rho (tcell sts (sts.getD sid default))
  pr : ∀ a, (sts.getD sid default).anode = some a → Γ.rho a < Γ.rho (pcell sts (sts.getD sid default))
  anLt : ∀ a, (sts.getD sid default).anode = some a → a < hsz
  pcLt : pcell sts (sts.getD sid default) < hsz

/-- the invariant of the machine state -/
structure HInv (g : Grammar) (n : Nat) (h : Array MNode) (sts : Array PState) (stack : List Nat)
    (table : Array (List (Nat × Nat × Nat))) (Γ : Gh) : Prop where
  hw : HW h Γ
  nil0 : h.getD nilId .nil = .nil
  err1 : h.getD errId .nil = .err
  rootSt : (sts.getD 0 default).anode = some rootId
  rootLt : rootId < h.size
  stLt : 0 < sts.size
  excl : ∀ a d, Open g sts stack a d → ExclSlot h a d
  sts : ∀ sid ∈ stack, SInv g n Γ h.size sts stack sid
  table : ∀ pl r o node, (r, o, node) ∈ table.getD pl [] → node < h.size ∧ isAlt h node = false ∧
    ∀ rl, g.rules[r]? = some rl → Γ.rho node = rhoI g rl.lhs o pl + 1

/-! ## frame lemmas -/

theorem tcell_lt {g : Grammar} {n : Nat} {Γ : Gh} {hsz : Nat} {sts : Array PState} {stack : List Nat}
    {sid : Nat} (hs : SInv g n Γ hsz sts stack sid) : tcell sts (sts.getD sid default) < hsz := by
  unfold tcell
  cases han : (sts.getD sid default).anode with
  | some a => exact hs.anLt a han
  | none => exact hs.pcLt

/-- a state keeps its invariant when the heap grows, the ghost data of the old cells and of the
state stay, the state and the rule / position / abstract node of its parent stay, and the parent
stays on the stack -/
theorem SInv.transfer {g : Grammar} {n : Nat} {Γ Γ' : Gh} {hsz hsz' : Nat} {sts sts' : Array PState}
    {stack stack' : List Nat} {sid : Nat} (hs : SInv g n Γ hsz sts stack sid)
    (hrho : ∀ i, i < hsz → Γ'.rho i = Γ.rho i) (hshi : Γ'.shi sid = Γ.shi sid) (hsz_le : hsz ≤ hsz')
    (hsize : sts.size ≤ sts'.size) (hself : sts'.getD sid default = sts.getD sid default)
    (hpar : sts'.getD (sts.getD sid default).parent default = sts.getD (sts.getD sid default).parent default)
    (hstack : (sts.getD sid default).parent ∈ stack → (sts.getD sid default).parent ∈ stack') :
    SInv g n Γ' hsz' sts' stack' sid := by
  have hpc : pcell sts' (sts.getD sid default) = pcell sts (sts.getD sid default) := by
    unfold pcell; rw [hpar]
  have htc : tcell sts' (sts.getD sid default) = tcell sts (sts.getD sid default) := by
    unfold tcell; rw [hpc]
  have htl := tcell_lt hs
  refine ⟨by have := hs.lt; omega, by rw [hself]; exact hs.parLt, ?_, by rw [hself, hshi]; exact hs.plLe,
    by rw [hshi]; exact hs.hiLe, by rw [hself, hshi]; exact hs.suf, ?_, ?_,
    by rw [hself]; exact fun a ha => Nat.lt_of_lt_of_le (hs.anLt a ha) hsz_le,
    by rw [hself, hpc]; exact Nat.lt_of_lt_of_le hs.pcLt hsz_le⟩
  · rw [hself]
    rcases hs.tgt with h1 | ⟨h1, rlP, h2, h3⟩
    · exact Or.inl h1
    · exact Or.inr ⟨hstack h1, rlP, by rw [hpar]; exact h2, by rw [hpar]; exact h3⟩
  · rw [hself, hshi, htc, hrho _ htl]; exact hs.tr
  · rw [hself, hpc]
    intro a ha
    rw [hrho _ (hs.anLt a ha), hrho _ hs.pcLt]
    exact hs.pr a ha

theorem Open.mono {g : Grammar} {sts sts' : Array PState} {stack stack' : List Nat} {a d : Nat}
    (ho : Open g sts stack a d)
    (hst : ∀ sid ∈ stack, sid ∈ stack' ∧ sts'.getD sid default = sts.getD sid default) :
    Open g sts' stack' a d := by
  rcases ho with h | ⟨sid, hm, h1, rl, h2, h3⟩
  · exact Or.inl h
  · obtain ⟨m', e⟩ := hst sid hm
    exact Or.inr ⟨sid, m', by rw [e]; exact h1, rl, by rw [e]; exact h2, by rw [e]; exact h3⟩

/-- every slot holds a cell of the heap -/
theorem HW.kid_lt {h : Array MNode} {Γ : Gh} (hw : HW h Γ) {a d k : Nat}
    (hk : getKid h a d = some k) : k < h.size := by
  obtain ⟨nm, c, ks, hc, hkd⟩ := getKid_some_iff.mp hk
  have ha : a < h.size := getD_lt_of_ne_nil (by rw [hc]; simp)
  have := hw a ha
  rw [hc] at this
  exact (this.2.2 d k hkd).1

theorem HW.hd_self {h : Array MNode} {Γ : Gh} (hw : HW h Γ) {i : Nat} (hi : i < h.size)
    (hna : isAlt h i = false) : Γ.hd i = i := by
  have := hw i hi
  unfold isAlt at hna
  cases hc : h.getD i .nil with
  | nil => rw [hc] at this; exact this.2
  | err => rw [hc] at this; exact this.2
  | term _ _ => rw [hc] at this; exact this.2
  | anode _ _ _ => rw [hc] at this; exact this.2.1
  | alt _ _ => rw [hc] at hna; cases hna

theorem HW.rho_anode_pos {h : Array MNode} {Γ : Gh} (hw : HW h Γ) {a : Nat} {nm : String} {c : Nat}
    {ks : Array (Option Nat)} (hc : h.getD a .nil = .anode nm c ks) : 0 < Γ.rho a := by
  have ha : a < h.size := getD_lt_of_ne_nil (by rw [hc]; simp)
  have := hw a ha
  rw [hc] at this
  exact this.1

theorem Placed.getKid_same' {h h' : Array MNode} {Γ Γ' : Gh} {a d : Nat} (hp : Placed h h' Γ Γ' a d)
    {k : Nat} (hk : getKid h' a d = some k) : isAlt h' k = true → h.size ≤ k := by
  obtain ⟨nm, c, ks, m', c1, c2, c3, c4⟩ := hp.cell
  rw [getKid_of_cell c2, getD_set!] at hk
  split at hk
  · injection hk with hk; subst hk; exact c4
  · rename_i hne
    have : ks.getD d none = none := by
      rw [Array.getD_eq_getD_getElem?, Array.getElem?_eq_none]
      · rfl
      · apply Nat.le_of_not_lt
        intro hlt; exact hne ⟨rfl, hlt⟩
    rw [this] at hk; cases hk

theorem ExclSlot.placed {h h' : Array MNode} {Γ Γ' : Gh} {a d : Nat} (hw : HW h Γ)
    (hp : Placed h h' Γ Γ' a d) {a2 d2 : Nat} (he : ExclSlot h a2 d2) : ExclSlot h' a2 d2 := by
  intro k hk hka a' d' hk'
  by_cases h2 : a2 = a ∧ d2 = d
  · obtain ⟨rfl, rfl⟩ := h2
    have hge := hp.getKid_same' hk hka
    by_cases h3 : a' = a2 ∧ d' = d2
    · exact h3
    · rw [hp.getKid_other h3] at hk'
      have := hw.kid_lt hk'
      omega
  · rw [hp.getKid_other h2] at hk
    have hklt := hw.kid_lt hk
    rw [hp.isAlt_old hklt] at hka
    by_cases h3 : a' = a ∧ d' = d
    · obtain ⟨rfl, rfl⟩ := h3
      have hka' : isAlt h' k = true := by rw [hp.isAlt_old hklt]; exact hka
      have := hp.getKid_same' hk' hka'
      omega
    · rw [hp.getKid_other h3] at hk'
      exact he k hk hka a' d' hk'

/-! ## a node is placed into an open slot -/

theorem placeTranslation_not_anode {h : Array MNode} {a d node : Nat}
    (hna : ∀ nm c ks, h.getD a .nil ≠ .anode nm c ks) : placeTranslation h (a, d) node = h := by
  have hk : getKid h a d = none := by
    unfold getKid
    split
    · rename_i nm c ks e; exact absurd e (hna nm c ks)
    · rfl
  rw [placeTranslation_none (by exact hk)]
  unfold setKid
  split
  · rename_i nm c ks e; exact absurd e (hna nm c ks)
  · rfl

section
variable {g : Grammar} {n : Nat} {h : Array MNode} {sts : Array PState} {stack : List Nat}
  {table : Array (List (Nat × Nat × Nat))} {Γ : Gh}

theorem HInv.of_placed (hi : HInv g n h sts stack table Γ) {h' : Array MNode} {Γ' : Gh} {a d : Nat}
    (hp : Placed h h' Γ Γ' a d) (hlt : ∀ x ∈ stack, x < sts.size → Γ'.shi x = Γ.shi x) :
    HInv g n h' sts stack table Γ' := by
  obtain ⟨nm, c, ks, m', c1, c2, _⟩ := hp.cell
  have ha0 : a ≠ nilId := by intro e; rw [e, hi.nil0] at c1; cases c1
  have ha1 : a ≠ errId := by intro e; rw [e, hi.err1] at c1; cases c1
  have hr := hi.rootLt
  have hr' : 2 < h.size := hr
  refine ⟨hp.hw, ?_, ?_, hi.rootSt, Nat.lt_of_lt_of_le hi.rootLt hp.size_le, hi.stLt, ?_, ?_, ?_⟩
  · rw [hp.other _ (Ne.symm ha0) (by show 0 < _; omega)]; exact hi.nil0
  · rw [hp.other _ (Ne.symm ha1) (by show 1 < _; omega)]; exact hi.err1
  · intro a2 d2 ho
    exact (hi.excl a2 d2 ho).placed hi.hw hp
  · intro sid hm
    have hs := hi.sts sid hm
    exact hs.transfer hp.rho (hlt sid hm hs.lt) hp.size_le (Nat.le_refl _) rfl rfl (fun x => x)
  · intro pl r o node hmem
    obtain ⟨t1, t2, t3⟩ := hi.table pl r o node hmem
    refine ⟨Nat.lt_of_lt_of_le t1 hp.size_le, by rw [hp.isAlt_old t1]; exact t2, ?_⟩
    intro rl hrl
    rw [hp.rho node t1]; exact t3 rl hrl

/-- **a node is placed**: the node is not an ALT cell; if the target is an abstract node, it has a
larger rank and the slot is open -/
theorem HInv.place (hi : HInv g n h sts stack table Γ) {a d node : Nat}
    (hnode : node < h.size) (hna : isAlt h node = false)
    (hcond : ∀ nm c ks, h.getD a .nil = .anode nm c ks → Γ.rho node < Γ.rho a ∧ Open g sts stack a d) :
    ∃ Γ', HInv g n (placeTranslation h (a, d) node) sts stack table Γ' ∧ GhExt Γ Γ' h.size sts.size ∧
      h.size ≤ (placeTranslation h (a, d) node).size ∧
      (∀ i, i < h.size → isAlt (placeTranslation h (a, d) node) i = isAlt h i) ∧
      (∀ a' d', getKid h a' d' ≠ none → getKid (placeTranslation h (a, d) node) a' d' ≠ none) ∧
      (∀ i nm c ks, h.getD i .nil = .anode nm c ks →
        ∃ ks', (placeTranslation h (a, d) node).getD i .nil = .anode nm c ks' ∧ ks'.size = ks.size) := by
  cases hc : h.getD a .nil with
  | anode nm c ks =>
    obtain ⟨hrk, hopen⟩ := hcond nm c ks hc
    obtain ⟨Γ', hp⟩ := place_placed hi.hw hc hnode hna hrk (hi.hw.hd_self hnode hna)
      (hi.excl a d hopen)
    exact ⟨Γ', hi.of_placed hp (fun x _ _ => by rw [hp.shi]), ⟨hp.rho, fun x _ => by rw [hp.shi]⟩,
      hp.size_le, fun i hi' => hp.isAlt_old hi', fun a' d' hk => hp.getKid_ne_none hk,
      fun i nm c ks hc' => hp.anode_cell hc'⟩
  | nil =>
    rw [placeTranslation_not_anode (fun nm c ks e => by rw [hc] at e; cases e)]
    exact ⟨Γ, hi, GhExt.refl _ _ _, Nat.le_refl _, fun _ _ => rfl, fun _ _ hk => hk,
      fun i nm c ks hc' => ⟨ks, hc', rfl⟩⟩
  | err =>
    rw [placeTranslation_not_anode (fun nm c ks e => by rw [hc] at e; cases e)]
    exact ⟨Γ, hi, GhExt.refl _ _ _, Nat.le_refl _, fun _ _ => rfl, fun _ _ hk => hk,
      fun i nm c ks hc' => ⟨ks, hc', rfl⟩⟩
  | term _ _ =>
    rw [placeTranslation_not_anode (fun nm c ks e => by rw [hc] at e; cases e)]
    exact ⟨Γ, hi, GhExt.refl _ _ _, Nat.le_refl _, fun _ _ => rfl, fun _ _ hk => hk,
      fun i nm c ks hc' => ⟨ks, hc', rfl⟩⟩
  | alt _ _ =>
    rw [placeTranslation_not_anode (fun nm c ks e => by rw [hc] at e; cases e)]
    exact ⟨Γ, hi, GhExt.refl _ _ _, Nat.le_refl _, fun _ _ => rfl, fun _ _ hk => hk,
      fun i nm c ks hc' => ⟨ks, hc', rfl⟩⟩

end

end Yaep.MP
