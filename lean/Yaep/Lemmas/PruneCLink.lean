import Yaep.Lemmas.PruneCPass2b
/-!
# The heap after the first pass satisfies what the second pass needs
-/
namespace Yaep.PC
open Yaep

theorem Linked.suffix {h : Array Cell} : ∀ (l1 : List Nat) (j : Nat) (l2 : List Nat),
    Linked h (l1 ++ j :: l2) → Linked h (j :: l2)
  | [], _, _, hl => hl
  | [x], j, l2, hl => hl.2
  | x :: y :: l1, j, l2, hl => Linked.suffix (y :: l1) j l2 hl.2

section
variable {h0 : Array Cell} {rk hd : Nat → Nat} {one free : Bool}

/-- the cells of the pruned translation: processed leaves and abstract nodes, and the cells
that stay linked in processed chains -/
def InF (h0 : Array Cell) (rk hd : Nat → Nat) (one free : Bool) (s : PSt) (z : Nat) : Prop :=
  (z < h0.size ∧ isAlt h0 z = false ∧ Visited h0 free s z) ∨
  (∃ a, a < h0.size ∧ isAlt h0 a = true ∧ hd a = a ∧ Visited h0 free s a ∧ z ∈ kept h0 rk one a)

theorem visited_alt_chain (wf : WfHeap h0 rk hd) {s : PSt}
    (hinv : Inv h0 rk hd one free (fun _ => False) s) {a : Nat} (ha : a < h0.size)
    (hal : isAlt h0 a = true) (hda : hd a = a) (hv : Visited h0 free s a) :
    (∀ j ∈ chain0 h0 a, (∃ nx, cellAt s.heap j = .alt (altNode h0 j) nx) ∧
        Visited h0 free s (altNode h0 j) ∧ (free = true → j ∈ s.coll)) ∧
      Linked s.heap (kept h0 rk one a) := by
  have hch := hinv.chain a ha hal hda (fun h => h)
  unfold ChainOK at hch
  unfold Visited at hv
  unfold isAlt at hal
  split at hal
  · rename_i e
    rw [e] at hv
    simp only at hv
    rw [if_pos hv.1] at hch
    exact hch
  · cases hal

theorem visited_anode (wf : WfHeap h0 rk hd) {s : PSt}
    (hinv : Inv h0 rk hd one free (fun _ => False) s) {k : Nat} {nm : String} {c : Int}
    {ks : Array (Option Nat)} (hk : k < h0.size) (hcell : cellAt h0 k = .anode nm c ks)
    (hv : Visited h0 free s k) :
    ∃ ks' : Array (Option Nat), cellAt s.heap k = .anode nm (-(cost0 h0 rk one k : Int) - 1) ks' ∧
      kidsOf ks' = (kidsOf ks).map (res0 h0 rk one) ∧
      (∀ x ∈ kidsOf ks, Visited h0 free s x) ∧ (free = true → k ∈ s.coll) := by
  obtain ⟨hc0, -⟩ := wf.anode k nm c ks hk hcell
  have hnode := hinv.node k hk (fun h => h)
  unfold NodeOK at hnode
  unfold Visited at hv
  rw [hcell] at hnode hv
  simp only at hnode hv
  rcases hnode with e | ⟨ks', e1, e2, e3, e4⟩
  · simp only [costAt, e] at hv; omega
  · refine ⟨ks', e1, ?_, e3, e4⟩
    rw [kidsOf_somePrefix, e2, somePrefix_mapPre, ← kidsOf_somePrefix]

/-- a cell that is not an ALT cell keeps its kind -/
theorem nonalt_kind (wf : WfHeap h0 rk hd) {s : PSt} {X : Nat → Prop}
    (hinv : Inv h0 rk hd one free X s) {k : Nat} (hk : k < h0.size) (hx : ¬ X k)
    (hal : isAlt h0 k = false) :
    isAlt s.heap k = false ∧ isAnode s.heap k = isAnode h0 k ∧
      (isAnode h0 k = false → cellAt s.heap k = cellAt h0 k) := by
  have hnode := hinv.node k hk hx
  unfold NodeOK at hnode
  unfold isAlt at hal ⊢
  unfold isAnode
  split at hnode
  · rename_i nm c ks e
    rcases hnode with h | ⟨ks', h, -⟩
    · simp [h, e]
    · simp [h, e]
  · rename_i e; rw [e] at hal; cases hal
  · rename_i e1 e2
    rw [hnode]
    refine ⟨hal, rfl, fun _ => rfl⟩

theorem kept_mem_props (wf : WfHeap h0 rk hd) {a : Nat} (ha : a < h0.size)
    (hal : isAlt h0 a = true) (hda : hd a = a) {j : Nat} (hj : j ∈ kept h0 rk one a) :
    j < h0.size ∧ isAlt h0 j = true ∧ hd j = a ∧ rk j ≤ rk a ∧
      altNode h0 j < h0.size ∧ isAlt h0 (altNode h0 j) = false ∧ rk (altNode h0 j) < rk j ∧
      hd (altNode h0 j) = altNode h0 j := by
  have hch := chain0_isChain wf ha hal
  obtain ⟨q1, q2, q3, q4⟩ := hch.props wf ha j (kept_subset a j hj)
  obtain ⟨r1, r2, r3⟩ := altNode_props wf q1 q2
  exact ⟨q1, q2, by rw [q3, hda], q4, r1, r2, r3, wf.hd_self _ r1 r2⟩

theorem InF.lt (wf : WfHeap h0 rk hd) {s : PSt} {z : Nat} (h : InF h0 rk hd one free s z) :
    z < h0.size := by
  rcases h with h | ⟨a, ha, hal, hda, -, hz⟩
  · exact h.1
  · exact (kept_mem_props wf ha hal hda hz).1

theorem InF_res0 (wf : WfHeap h0 rk hd) {s : PSt}
    (hinv : Inv h0 rk hd one free (fun _ => False) s) {k : Nat} (hk : k < h0.size)
    (hdk : hd k = k) (hv : Visited h0 free s k) : InF h0 rk hd one free s (res0 h0 rk one k) := by
  cases hal : isAlt h0 k with
  | false => rw [res0_nonalt hal]; exact Or.inl ⟨hk, hal, hv⟩
  | true =>
    have hkne := kept_ne_nil (one := one) wf hk hal
    unfold res0
    unfold isAlt at hal
    split at hal
    · rename_i e
      have hal' : isAlt h0 k = true := by simp [isAlt, e]
      simp only [e]
      split
      · rename_i j hkj
        obtain ⟨p1, p2, p3, p4, p5, p6, p7, p8⟩ := kept_mem_props (one := one) wf hk hal' hdk
          (j := j) (by rw [hkj]; simp)
        have := (visited_alt_chain wf hinv hk hal' hdk hv).1 j (kept_subset k j (by rw [hkj]; simp))
        exact Or.inl ⟨p5, p6, this.2.1⟩
      · rename_i j r _ hkj
        exact Or.inr ⟨k, hk, hal', hdk, hv, by rw [hkj]; simp⟩
      · rename_i hkj; exact absurd hkj hkne
    · cases hal

theorem res0_rank (wf : WfHeap h0 rk hd) {k : Nat} (hk : k < h0.size) (hdk : hd k = k) :
    rk (hd (res0 h0 rk one k)) ≤ rk k := by
  cases hal : isAlt h0 k with
  | false => rw [res0_nonalt hal, hdk]; exact Nat.le_refl _
  | true =>
    unfold res0
    unfold isAlt at hal
    split at hal
    · rename_i e
      have hal' : isAlt h0 k = true := by simp [isAlt, e]
      simp only [e]
      split
      · rename_i j hkj
        obtain ⟨p1, p2, p3, p4, p5, p6, p7, p8⟩ := kept_mem_props (one := one) wf hk hal' hdk
          (j := j) (by rw [hkj]; simp)
        rw [p8]; omega
      · rename_i j r _ hkj
        obtain ⟨p1, p2, p3, p4, p5, p6, p7, p8⟩ := kept_mem_props (one := one) wf hk hal' hdk
          (j := j) (by rw [hkj]; simp)
        rw [p3]; exact Nat.le_refl _
      · rw [hdk]; exact Nat.le_refl _
    · cases hal

theorem kept_length_le (wf : WfHeap h0 rk hd) {a : Nat} (ha : a < h0.size)
    (hal : isAlt h0 a = true) : (kept h0 rk one a).length ≤ h0.size := by
  have hchain := chain0_isChain wf ha hal
  have h1 : (kept h0 rk one a).length ≤ (chain0 h0 a).length := by
    rw [kept_eq wf ha hal]
    unfold minCells
    cases one
    · simp only [Bool.false_eq_true, if_false, List.length_reverse]
      exact List.length_filter_le _ _
    · simp only [if_true]
      exact Nat.le_trans (List.length_take_le' _ _) (List.length_filter_le _ _)
  have h2 := hchain.length_le wf ha
  have h3 := wf.rk_lt a ha
  omega

/-- the heap after the first pass is a pruned heap -/
theorem pruned_of_inv (wf : WfHeap h0 rk hd) {s : PSt}
    (hinv : Inv h0 rk hd one free (fun _ => False) s) :
    Pruned s.heap (InF h0 rk hd one free s) (fun x => rk (hd x)) := by
  constructor
  · intro x hx; rw [hinv.size]; exact hx.lt wf
  · intro x nm c ks hx hcell
    rcases hx with ⟨hk, hal, hv⟩ | ⟨a, ha, hal, hda, hv, hz⟩
    · cases hc0 : cellAt h0 x with
      | anode nm0 c0 ks0 =>
        obtain ⟨ks', e1, e2, e3, e4⟩ := visited_anode wf hinv hk hc0 hv
        rw [e1] at hcell
        injection hcell with i1 i2 i3
        subst i1 i2 i3
        refine ⟨by omega, ?_⟩
        intro y hy
        rw [e2] at hy
        obtain ⟨kid, hkid, rfl⟩ := List.mem_map.1 hy
        obtain ⟨-, hkids⟩ := wf.anode x nm0 c0 ks0 hk hc0
        obtain ⟨p1, p2, p3⟩ := hkids kid hkid
        refine ⟨InF_res0 wf hinv p1 p3 (e3 kid hkid), ?_⟩
        have := res0_rank (one := one) wf p1 p3
        have hdx := wf.hd_self x hk hal
        simp only [hdx]; omega
      | alt _ _ => simp [isAlt, hc0] at hal
      | nil =>
        have := (nonalt_kind wf hinv hk (fun h => h) hal).2.2 (by simp [isAnode, hc0])
        rw [this, hc0] at hcell; cases hcell
      | err =>
        have := (nonalt_kind wf hinv hk (fun h => h) hal).2.2 (by simp [isAnode, hc0])
        rw [this, hc0] at hcell; cases hcell
      | term _ _ =>
        have := (nonalt_kind wf hinv hk (fun h => h) hal).2.2 (by simp [isAnode, hc0])
        rw [this, hc0] at hcell; cases hcell
    · obtain ⟨⟨nx, e⟩, -, -⟩ := (visited_alt_chain wf hinv ha hal hda hv).1 x (kept_subset a x hz)
      rw [e] at hcell; cases hcell
  · intro x hx halx
    rcases hx with ⟨hk, hal, hv⟩ | ⟨a, ha, hal, hda, hv, hz⟩
    · have := (nonalt_kind wf hinv hk (fun h => h) hal).1
      rw [this] at halx; cases halx
    · obtain ⟨hcells, hlinked⟩ := visited_alt_chain wf hinv ha hal hda hv
      obtain ⟨l1, l2, hsplit⟩ := List.append_of_mem hz
      refine ⟨x :: l2, rfl, ?_, ?_, ?_⟩
      · rw [hsplit] at hlinked; exact Linked.suffix l1 x l2 hlinked
      · have := kept_length_le (one := one) wf ha hal
        rw [hsplit] at this
        simp only [List.length_append, List.length_cons] at this ⊢
        rw [hinv.size]; omega
      · intro j hj
        have hjk : j ∈ kept h0 rk one a := by rw [hsplit]; exact List.mem_append_right _ hj
        obtain ⟨p1, p2, p3, p4, p5, p6, p7, p8⟩ := kept_mem_props wf ha hal hda hjk
        obtain ⟨⟨nx, e⟩, hvn, -⟩ := hcells j (kept_subset a j hjk)
        have hnd : altNode s.heap j = altNode h0 j := by simp [altNode, e]
        rw [hnd]
        refine ⟨by rw [hinv.size]; exact p1, Or.inl ⟨p5, p6, hvn⟩,
          (nonalt_kind wf hinv p5 (fun h => h) p6).1, ?_⟩
        have hdx := (kept_mem_props wf ha hal hda hz).2.2.1
        simp only [p8, hdx]; omega

end

end Yaep.PC
