import Yaep.Lemmas.RecoveredParseCtx
import Yaep.Lemmas.MakeParseSoundFuel
import Yaep.Lemmas.MakeParseAllMain
import Yaep.Lemmas.MakeParseTotalMain
import Yaep.Lemmas.MakeParseTotalPL
import Yaep.Props.C03
import Yaep.Props.HeapWf
/-!
# `make_parse` on the final parse list of a recovering parse

`RP.Final`: what is used of the final list (run invariant, shape, last element shifted on the end
marker).  `one_sound`, `one_total`, `all_sound`, `all_total`: the `make_parse` model, run on the
sets and token numbers of such a list, returns (with enough fuel) a table all of whose trees are
`(translate g pt).mapAttr (fix pl)` for a derivation `pt` of the repaired input `word pl`.
-/
namespace Yaep.RP
open Yaep Yaep.MP

/-- what the theorems use of a final parse list -/
structure Final (g : Grammar) (la : Nat) (full : List Nat) (pl : List PSet) : Prop where
  run : RunOk g g.analysis la full pl
  shape : PLOk g full pl full.length

section
variable {g : Grammar} {la : Nat} {full : List Nat} {pl : List PSet} {S : Array (Array Item)}

theorem Final.ok_drop (h : Final g la full pl) : ∀ s ∈ pl.drop 1, s.Ok g full := by
  obtain ⟨s0, rest, rfl, _, _, hseg, _⟩ := h.shape
  intro s hs
  exact hseg.sets s (by simpa using hs)

theorem Final.plInv (h : Final g la full pl) :
    PLInv g (okF g g.analysis la full pl) (word pl) (psItems pl) :=
  plInv_of_runOk h.run h.ok_drop

theorem Final.length (h : Final g la full pl) : pl.length = (word pl).length + 1 := by
  obtain ⟨s0, rest, rfl, _⟩ := h.shape
  rw [word_length]; simp

theorem Final.tokRel (h : Final g la full pl) :
    TokRel (fix pl) (idToks pl.length) (tokNums pl)
      (((idToks pl.length).foldl max 0).toNat + 1) (((tokNums pl).foldl max 0).toNat + 1) := by
  obtain ⟨s0, rest, rfl, _, _, hseg, _⟩ := h.shape
  exact RP.tokRel hseg.sorted

theorem Final.termsOK (h : Final g la full pl) : TermsOK g pl := termsOK_of_ok h.ok_drop

/-! ## one parse -/

/-- the renaming theorem instantiated, one-parse mode -/
theorem Final.reTok_one (h : Final g la full pl) (hS : SameSets pl S) (hg : GrOK g) (fuel : Nat) :
    makeParse g S (tokNums pl) true fuel =
      outRl (fix pl) (makeParse g S (idToks pl.length) true fuel) := by
  have hcc := ctxOKc hS h.plInv h.length
  have hc := hcc.toCtxOK
  apply makeParse_reTok h.tokRel
    (fun s => Yaep.MP.Good g (okF g g.analysis la full pl) (word pl) s ∧ s.bad = false)
  · intro s0 hi
    exact ⟨init_inv hc hg hi, (init_props hi).1⟩
  · intro s ⟨hgood, hb⟩ hne
    cases hst : s.stack with
    | nil => exact absurd hst hne
    | cons sid rest =>
      obtain ⟨a1, a2, _⟩ := step_total hcc hg hgood hb hst
      exact ⟨a1, a2⟩
  · intro s ⟨hgood, _⟩
    apply termHyp_of_item (g := g) (ok := okF g g.analysis la full pl) (pl := pl)
      (fun r rl hr => hc.rule_eq hr) rfl h.termsOK
    intro sid rest hst hpos
    rcases hgood.main with ⟨he, _⟩ | ⟨frs, htop⟩
    · rw [hst] at he; cases he
    · rw [hst] at htop
      cases frs with
      | nil => simp [TopOK] at htop
      | cons fr frs =>
        simp only [TopOK] at htop
        obtain ⟨_, _, rl, _, t3, t4, _, t6, _⟩ := htop
        exact ⟨rl, t3, t4, t6 hpos⟩

/-- **soundness, one parse** -/
theorem Final.one_sound (h : Final g la full pl) (hS : SameSets pl S) (hg : GrOK g) {fuel : Nat} {res : Result}
    (hm : makeParse g S (tokNums pl) true fuel = .ok res) :
    ∃ pt, PT.IsDerivation g (word pl) pt ∧
      (denoteTab res.tab).getD res.root [] = [(translate g pt).mapAttr (fix pl)] ∧
      denote (unfoldAt res.tab res.root) = [(translate g pt).mapAttr (fix pl)] ∧
      hasAlt res.tab = false := by
  have hwf := makeParse_tableWF hm
  rw [h.reTok_one hS hg] at hm
  cases hm0 : makeParse g S (idToks pl.length) true fuel with
  | ok res0 =>
    rw [hm0] at hm
    simp only [outRl, Outcome.ok.injEq] at hm
    subst hm
    have hc := (ctxOKc hS h.plInv h.length).toCtxOK
    obtain ⟨pt, h1, _, h3, h4⟩ := makeParse_one_sound_ctx hc hg hm0
    have hd : (denoteTab (resRl (fix pl) res0).tab).getD (resRl (fix pl) res0).root [] =
        [(translate g pt).mapAttr (fix pl)] := by
      show (denoteTab (res0.tab.map (rlRec (fix pl)))).getD res0.root [] = _
      rw [denoteTab_rl_getD, h3]; rfl
    refine ⟨pt, h1, hd, ?_, ?_⟩
    · unfold unfoldAt
      rw [← denoteTab_spec_getD hwf.1 hwf.2 (Nat.lt_succ_self _)]
      exact hd
    · show hasAlt (res0.tab.map (rlRec (fix pl))) = false
      rw [hasAlt_rl]; exact h4
  | noParse => rw [hm0] at hm; cases hm
  | outOfFuel => rw [hm0] at hm; cases hm
  | undefinedBehaviour => rw [hm0] at hm; cases hm
  | cyclic => rw [hm0] at hm; cases hm


/-- **totality, one parse**: the repaired input ends with the end marker and the last set is not
empty -/
theorem Final.one_total (h : Final g la full pl) (hS : SameSets pl S) (hwf : g.WF) (hg : GrOK g) (hcyc : ¬ Cyclic g)
    (hsr : g.symsInRange = true) {u : List Nat} (hw : word pl = u ++ [g.eofT])
    (hne : ∃ it, EarleyF g (okF g g.analysis la full pl) (word pl) (u.length + 1) it)
    {fuel : Nat} (hfuel : mpFuel g (u.length + 1) ≤ fuel) :
    ∃ res, makeParse g S (tokNums pl) true fuel = .ok res := by
  have hcc := ctxOKc hS h.plInv h.length
  rw [hw] at hcc hne
  obtain ⟨res0, h0⟩ := makeParse_one_total_ctx hwf hcc hg hcyc hsr hne hfuel
  rw [h.reTok_one hS hg, h0]
  exact ⟨_, rfl⟩

/-! ## all parses -/

/-- the renaming theorem instantiated, all-parses mode -/
theorem Final.reTok_all (h : Final g la full pl) (hS : SameSets pl S) (hcyc : ¬ Cyclic g) (hsr : g.symsInRange = true)
    (fuel : Nat) :
    makeParse g S (tokNums pl) false fuel =
      outRl (fix pl) (makeParse g S (idToks pl.length) false fuel) := by
  have hcc := ctxAllc hS h.plInv h.length
  have hc := hcc.toCtxAll
  apply makeParse_reTok h.tokRel
    (fun s => ∃ fin, TInv g (okF g g.analysis la full pl) (word pl) s fin ∧ s.bad = false)
  · intro s0 hi
    obtain ⟨a1, a2, _⟩ := tinit hc hi
    exact ⟨_, a1, a2⟩
  · intro s ⟨fin, hinv, hb⟩ hne
    obtain ⟨fin', a1, a2, _⟩ := tstep hcc hcyc hsr (size_le_plMaxSize S) hinv hb hne
    exact ⟨fin', a1, a2⟩
  · intro s ⟨fin, hinv, _⟩
    apply termHyp_of_item (g := g) (ok := okF g g.analysis la full pl) (pl := pl)
      (fun r rl hr => hc.rule_eq hr) rfl h.termsOK
    intro sid rest hst hpos
    obtain ⟨_, hok⟩ := hinv.sts sid (by rw [hst]; exact List.mem_cons_self)
    obtain ⟨rl, hr, hle, _⟩ := hok.rule
    exact ⟨rl, hr, hle, hok.item hpos⟩

/-- **soundness, all parses** -/
theorem Final.all_sound (h : Final g la full pl) (hS : SameSets pl S) (hg : GrOK g) (hcyc : ¬ Cyclic g)
    (hsr : g.symsInRange = true) {fuel : Nat} {res : Result}
    (hm : makeParse g S (tokNums pl) false fuel = .ok res) :
    (∀ t ∈ (denoteTab res.tab).getD res.root [],
      ∃ pt, PT.IsDerivation g (word pl) pt ∧ t = (translate g pt).mapAttr (fix pl)) ∧
    (∀ t ∈ denote (unfoldAt res.tab res.root),
      ∃ pt, PT.IsDerivation g (word pl) pt ∧ t = (translate g pt).mapAttr (fix pl)) := by
  have hwf := makeParse_tableWF hm
  have key : ∀ t ∈ (denoteTab res.tab).getD res.root [],
      ∃ pt, PT.IsDerivation g (word pl) pt ∧ t = (translate g pt).mapAttr (fix pl) := by
    rw [h.reTok_all hS hcyc hsr] at hm
    cases hm0 : makeParse g S (idToks pl.length) false fuel with
    | ok res0 =>
      rw [hm0] at hm
      simp only [outRl, Outcome.ok.injEq] at hm
      subst hm
      have hc := (ctxAllc hS h.plInv h.length).toCtxAll
      have h0 := makeParse_all_sound_ctx hc hg hm0
      intro t ht
      have ht' : t ∈ (denoteTab (res0.tab.map (rlRec (fix pl)))).getD res0.root [] := ht
      rw [denoteTab_rl_getD, List.mem_map] at ht'
      obtain ⟨t0, ht0, rfl⟩ := ht'
      obtain ⟨pt, h1, h2⟩ := h0 t0 ht0
      exact ⟨pt, h1, by rw [h2]⟩
    | noParse => rw [hm0] at hm; cases hm
    | outOfFuel => rw [hm0] at hm; cases hm
    | undefinedBehaviour => rw [hm0] at hm; cases hm
    | cyclic => rw [hm0] at hm; cases hm
  refine ⟨key, ?_⟩
  intro t ht
  apply key
  unfold unfoldAt at ht
  rw [← denoteTab_spec_getD hwf.1 hwf.2 (Nat.lt_succ_self _)] at ht
  exact ht

/-- **totality, all parses** -/
theorem Final.all_total (h : Final g la full pl) (hS : SameSets pl S) (hwf : g.WF) (hg : GrOK g) (hcyc : ¬ Cyclic g)
    (hsr : g.symsInRange = true) {u : List Nat} (hw : word pl = u ++ [g.eofT])
    (hne : ∃ it, EarleyF g (okF g g.analysis la full pl) (word pl) (u.length + 1) it)
    {fuel : Nat} (hfuel : mpAllFuelC g (u.length + 1) (plMaxSize S) ≤ fuel) :
    ∃ res, makeParse g S (tokNums pl) false fuel = .ok res := by
  have hcc := ctxAllc hS h.plInv h.length
  rw [hw] at hcc hne
  obtain ⟨s, r, hm, hb, hres⟩ := makeParse_all_total_ctx hwf hcc hg hcyc hsr hne
    (size_le_plMaxSize S) hfuel
  obtain ⟨Γ, wf, hr, _⟩ := makeParse_heap_wf_ctx hcc.toCtxAll hg hcyc hsr hm hb hres
  obtain ⟨tab, root, hx⟩ := PC.exportTable_some wf hr
  rw [toHeap_ofHeap] at hx
  have h0 : ∃ res0, makeParse g S (idToks pl.length) false fuel = .ok res0 := by
    unfold makeParseSt at hm
    split at hm
    · cases hm
    · rename_i s0 hi
      simp only [makeParse, hi, hm, hb, hres, hx]
      exact ⟨_, rfl⟩
  obtain ⟨res0, h0⟩ := h0
  rw [h.reTok_all hS hcyc hsr, h0]
  exact ⟨_, rfl⟩

end

end Yaep.RP
