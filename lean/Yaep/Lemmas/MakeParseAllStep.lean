import Yaep.Lemmas.MakeParseSoundStep
/-!
# All-parses mode of the model of `make_parse`: the body of the candidate loop, in two halves

`candidate = candTail ∘ candHead`: the head chooses the state the translation of the candidate is
attached to (the original state, a state of `orig_states` with the same origin, or a fresh copy),
the tail attaches it (new abstract node, reused abstract node, new state without abstract node,
empty node).
-/
namespace Yaep.MP
open Yaep

/-- first half of `candidate` (both `parent_anode` and `disp` present): the state, the list
`orig_states`, `curr_state` and its abstract node -/
def candHead (L : Loc) (sit : Item) (nCand : Nat) (os : List Nat) (s : St) (parentPlace : Nat × Nat)
    (disp : Nat) : St × List Nat × Nat × Option Nat :=
  let origSt := s.state L.origSid
  if nCand != 0 then
    let os := if nCand == 1 then L.origSid :: os else os
    match os.find? fun sid => (s.state sid).plInd == sit.origin with
    | some sid => (s, os, sid, (s.state sid).anode)
    | none =>
      let (s, anode') : St × Option Nat :=
        match origSt.anode with
        | some a =>
          let (h, cp) := copyAnode s.heap parentPlace a disp
          ({ s with heap := h }, some cp)
        | none => (s, none)
      let (s, sid) := s.push { origSt with plInd := sit.origin, anode := anode' }
      (s, sid :: os, sid, anode')
  else (s, os, L.origSid, origSt.anode)

/-- second half of `candidate` -/
def candTail (c : Ctx) (L : Loc) (sit : Item) (parentPlace : Nat × Nat) (disp : Nat)
    (x : St × List Nat × Nat × Option Nat) : St × List Nat :=
  let s := x.1
  let os := x.2.1
  let currSid := x.2.2.1
  let anode := x.2.2.2
  let sitRule := c.rule sit.rule
  let place : Nat × Nat := match anode with
    | none => parentPlace
    | some a => (a, disp)
  let childParent : Nat := match anode with
    | none => (s.state currSid).parent
    | some _ => currSid
  let childDisp : Nat := match anode with
    | none => L.parentDisp
    | some _ => disp
  match sitRule.anode with
  | some name =>
    let found : Option Nat := if c.oneParse then none else tableFind s.table sit.rule sit.origin L.plInd
    match found with
    | none =>
      let node := s.heap.size
      let s := { s with heap := s.heap.push (.anode name sitRule.cost (Array.replicate (sitRule.transLen + 1) none)),
                        table := if c.oneParse then s.table else tableInsert s.table sit.rule sit.origin L.plInd node }
      let s := if s.namedRules.contains sit.rule then s
               else { s with namedRules := sit.rule :: s.namedRules, nameAfter := node :: s.nameAfter }
      let (s, _) := s.push { rule := sit.rule, pos := sit.dot, orig := sit.origin, plInd := L.plInd,
                             parent := childParent, parentDisp := childDisp, anode := some node }
      (s.place place node, os)
    | some node =>
      ({ s with reuse := s.reuse + 1 }.place place node, os)
  | none =>
    if sit.dot != 0 then
      let (s, _) := s.push { rule := sit.rule, pos := sit.dot, orig := sit.origin, plInd := L.plInd,
                             parent := childParent, parentDisp := childDisp, anode := none }
      (s, os)
    else
      (s.place place nilId, os)

/-- the state before the head: the hook counter and `orig_state->pl_ind = sit_orig` -/
def candPre (L : Loc) (sit : Item) (nCand : Nat) (s : St) : St :=
  let needTr := L.parentAnode.isSome && L.disp.isSome
  let s := if nCand != 0 && !needTr && (s.state L.origSid).plInd != sit.origin
           then { s with origins := s.origins + 1 } else s
  if nCand == 0 then s.setState L.origSid { s.state L.origSid with plInd := sit.origin } else s

theorem candidate_eq (c : Ctx) (L : Loc) (sit : Item) (nCand : Nat) (os : List Nat) (s : St) :
    candidate c L sit nCand os s =
      match L.parentAnode, L.disp with
      | some pa, some disp =>
        candTail c L sit (pa, L.parentDisp) disp
          (candHead L sit nCand os (candPre L sit nCand s) (pa, L.parentDisp) disp)
      | _, _ => (candPre L sit nCand s, os) := by
  unfold candidate candTail candHead candPre
  cases L.parentAnode <;> cases L.disp <;> rfl

@[simp] theorem setState_table (s : St) (sid : Nat) (p : PState) : (s.setState sid p).table = s.table := rfl
@[simp] theorem setState_termNodes (s : St) (sid : Nat) (p : PState) :
    (s.setState sid p).termNodes = s.termNodes := rfl
@[simp] theorem place_table (s : St) (pl : Nat × Nat) (n : Nat) : (s.place pl n).table = s.table := rfl
@[simp] theorem place_termNodes (s : St) (pl : Nat × Nat) (n : Nat) :
    (s.place pl n).termNodes = s.termNodes := rfl
@[simp] theorem push_table (s : St) (p : PState) : (s.push p).1.table = s.table := rfl
@[simp] theorem push_termNodes (s : St) (p : PState) : (s.push p).1.termNodes = s.termNodes := rfl

/-- the place and the parent fields of the child of `curr_state` -/
def tailPlace (anode : Option Nat) (pp : Nat × Nat) (disp : Nat) : Nat × Nat :=
  match anode with
  | none => pp
  | some a => (a, disp)

def tailChild (L : Loc) (sit : Item) (s : St) (currSid : Nat) (anode : Option Nat) (disp : Nat)
    (an : Option Nat) : PState :=
  { rule := sit.rule, pos := sit.dot, orig := sit.origin, plInd := L.plInd,
    parent := match anode with
      | none => (s.state currSid).parent
      | some _ => currSid,
    parentDisp := match anode with
      | none => L.parentDisp
      | some _ => disp,
    anode := an }

/-- tail, new abstract node -/
theorem candTail_new {c : Ctx} {L : Loc} {sit : Item} {pp : Nat × Nat} {disp : Nat} {s : St}
    {os : List Nat} {cur : Nat} {anode : Option Nat} {name : String} (hall : c.oneParse = false)
    (hn : (c.rule sit.rule).anode = some name)
    (hf : tableFind s.table sit.rule sit.origin L.plInd = none) :
    let r := candTail c L sit pp disp (s, os, cur, anode)
    r.1.heap = placeTranslation (s.heap.push (.anode name (c.rule sit.rule).cost
        (Array.replicate ((c.rule sit.rule).transLen + 1) none))) (tailPlace anode pp disp) s.heap.size ∧
    r.1.states = s.states.push (tailChild L sit s cur anode disp (some s.heap.size)) ∧
    r.1.stack = s.states.size :: s.stack ∧
    r.1.table = tableInsert s.table sit.rule sit.origin L.plInd s.heap.size ∧
    r.1.termNodes = s.termNodes ∧ r.1.bad = s.bad ∧ r.2 = os := by
  unfold candTail
  simp only [hall, hn, hf]
  refine ⟨?_, ?_, ?_, ?_, ?_, ?_, rfl⟩
  · simp [apply_ite St.heap, tailPlace]
  · simp [apply_ite St.states, tailChild]
  · simp [apply_ite St.stack, apply_ite St.states]
  · simp [apply_ite St.table]
  · simp [apply_ite St.termNodes]
  · simp [apply_ite St.bad]

/-- tail, reused abstract node -/
theorem candTail_reuse {c : Ctx} {L : Loc} {sit : Item} {pp : Nat × Nat} {disp : Nat} {s : St}
    {os : List Nat} {cur : Nat} {anode : Option Nat} {name : String} {node : Nat}
    (hall : c.oneParse = false) (hn : (c.rule sit.rule).anode = some name)
    (hf : tableFind s.table sit.rule sit.origin L.plInd = some node) :
    let r := candTail c L sit pp disp (s, os, cur, anode)
    r.1.heap = placeTranslation s.heap (tailPlace anode pp disp) node ∧
    r.1.states = s.states ∧ r.1.stack = s.stack ∧ r.1.table = s.table ∧
    r.1.termNodes = s.termNodes ∧ r.1.bad = s.bad ∧ r.2 = os := by
  unfold candTail
  simp only [hall, hn, hf]
  refine ⟨?_, rfl, rfl, rfl, rfl, rfl, rfl⟩
  simp [tailPlace]

/-- tail, a rule without abstract node and a nonempty right-hand side -/
theorem candTail_pass {c : Ctx} {L : Loc} {sit : Item} {pp : Nat × Nat} {disp : Nat} {s : St}
    {os : List Nat} {cur : Nat} {anode : Option Nat}
    (hn : (c.rule sit.rule).anode = none) (hdot : sit.dot ≠ 0) :
    let r := candTail c L sit pp disp (s, os, cur, anode)
    r.1.heap = s.heap ∧
    r.1.states = s.states.push (tailChild L sit s cur anode disp none) ∧
    r.1.stack = s.states.size :: s.stack ∧ r.1.table = s.table ∧
    r.1.termNodes = s.termNodes ∧ r.1.bad = s.bad ∧ r.2 = os := by
  unfold candTail
  simp only [hn]
  refine ⟨?_, ?_, ?_, ?_, ?_, ?_, ?_⟩ <;> simp [hdot, tailChild]

/-- tail, an empty rule without abstract node -/
theorem candTail_nil {c : Ctx} {L : Loc} {sit : Item} {pp : Nat × Nat} {disp : Nat} {s : St}
    {os : List Nat} {cur : Nat} {anode : Option Nat}
    (hn : (c.rule sit.rule).anode = none) (hdot : sit.dot = 0) :
    let r := candTail c L sit pp disp (s, os, cur, anode)
    r.1.heap = placeTranslation s.heap (tailPlace anode pp disp) nilId ∧
    r.1.states = s.states ∧ r.1.stack = s.stack ∧ r.1.table = s.table ∧
    r.1.termNodes = s.termNodes ∧ r.1.bad = s.bad ∧ r.2 = os := by
  unfold candTail
  simp only [hn]
  refine ⟨?_, ?_, ?_, ?_, ?_, ?_, ?_⟩ <;> simp [hdot, tailPlace]

/-- `orig_states` as the head sees it -/
def headOs (L : Loc) (nCand : Nat) (os : List Nat) : List Nat :=
  if nCand == 1 then L.origSid :: os else os

theorem candHead_zero (L : Loc) (sit : Item) (os : List Nat) (s : St) (pp : Nat × Nat) (disp : Nat) :
    candHead L sit 0 os s pp disp = (s, os, L.origSid, (s.state L.origSid).anode) := by
  unfold candHead; simp

theorem candHead_found {L : Loc} {sit : Item} {nCand : Nat} {os : List Nat} {s : St} {pp : Nat × Nat}
    {disp sid : Nat} (hn : nCand ≠ 0)
    (hf : (headOs L nCand os).find? (fun sid => (s.state sid).plInd == sit.origin) = some sid) :
    candHead L sit nCand os s pp disp = (s, headOs L nCand os, sid, (s.state sid).anode) := by
  unfold candHead
  have : (nCand != 0) = true := by simpa using hn
  simp only [this, if_true]
  unfold headOs at hf
  rw [hf]
  rfl

/-- the cell `copy_anode` allocates -/
def copyCell (h : Array MNode) (a disp : Nat) : MNode :=
  match h.getD a .nil with
  | .anode nm c ks => MNode.anode nm c (ks.set! disp none)
  | m => m

theorem candHead_copy_owner {L : Loc} {sit : Item} {nCand : Nat} {os : List Nat} {s : St}
    {pp : Nat × Nat} {disp a : Nat} (hn : nCand ≠ 0)
    (hf : (headOs L nCand os).find? (fun sid => (s.state sid).plInd == sit.origin) = none)
    (ha : (s.state L.origSid).anode = some a) :
    let r := candHead L sit nCand os s pp disp
    r.1.heap = placeTranslation (s.heap.push (copyCell s.heap a disp)) pp s.heap.size ∧
    r.1.states = s.states.push { s.state L.origSid with plInd := sit.origin, anode := some s.heap.size } ∧
    r.1.stack = s.states.size :: s.stack ∧ r.1.table = s.table ∧ r.1.termNodes = s.termNodes ∧
    r.1.bad = s.bad ∧ r.2.1 = s.states.size :: headOs L nCand os ∧ r.2.2.1 = s.states.size ∧
    r.2.2.2 = some s.heap.size := by
  unfold candHead
  have : (nCand != 0) = true := by simpa using hn
  simp only [this, if_true]
  unfold headOs at hf
  rw [hf]
  simp only [ha, copyAnode]
  refine ⟨?_, ?_, ?_, ?_, ?_, ?_, ?_, ?_, ?_⟩ <;> first | rfl | trivial

theorem candHead_copy_pass {L : Loc} {sit : Item} {nCand : Nat} {os : List Nat} {s : St}
    {pp : Nat × Nat} {disp : Nat} (hn : nCand ≠ 0)
    (hf : (headOs L nCand os).find? (fun sid => (s.state sid).plInd == sit.origin) = none)
    (ha : (s.state L.origSid).anode = none) :
    let r := candHead L sit nCand os s pp disp
    r.1.heap = s.heap ∧
    r.1.states = s.states.push { s.state L.origSid with plInd := sit.origin, anode := none } ∧
    r.1.stack = s.states.size :: s.stack ∧ r.1.table = s.table ∧ r.1.termNodes = s.termNodes ∧
    r.1.bad = s.bad ∧ r.2.1 = s.states.size :: headOs L nCand os ∧ r.2.2.1 = s.states.size ∧
    r.2.2.2 = none := by
  unfold candHead
  have : (nCand != 0) = true := by simpa using hn
  simp only [this, if_true]
  unfold headOs at hf
  rw [hf]
  simp only [ha]
  refine ⟨?_, ?_, ?_, ?_, ?_, ?_, ?_, ?_, ?_⟩ <;> first | rfl | trivial

/-- `Terminal before dot`, all parses -/
theorem stepTerm_all {c : Ctx} {sid : Nat} {st : PState} {pos : Nat} {disp : Option Nat} {a : Nat}
    {pa : Nat} {s : St} (hall : c.oneParse = false) :
    let r := stepTerm c sid st pos disp a (some pa) s
    r.states = s.states.set! sid { st with pos := pos, plInd := if pos != 0 then st.plInd - 1 else st.plInd } ∧
    r.stack = s.stack ∧ r.table = s.table ∧
    (r.heap, r.termNodes) = match disp with
      | none => (s.heap, s.termNodes)
      | some d =>
        if a == c.errT then (placeTranslation s.heap (placeOf st pa d) errId, s.termNodes)
        else
          match s.termNodes.getD (c.plToks.getD (st.plInd - 1 + 1) (-1)).toNat none with
          | some node => (placeTranslation s.heap (placeOf st pa d) node, s.termNodes)
          | none =>
            (placeTranslation (s.heap.push (.term (c.termCodes.getD a 0) (c.plToks.getD (st.plInd - 1 + 1) (-1))))
              (placeOf st pa d) s.heap.size,
             s.termNodes.set! (c.plToks.getD (st.plInd - 1 + 1) (-1)).toNat (some s.heap.size)) := by
  unfold stepTerm
  cases disp with
  | none => exact ⟨rfl, rfl, rfl, rfl⟩
  | some d =>
    simp only [hall]
    by_cases he : (a == c.errT) = true
    · simp only [he, if_true]
      refine ⟨rfl, rfl, rfl, ?_⟩
      simp [placeOf]; rfl
    · simp only [he]
      cases hk : s.termNodes.getD (c.plToks.getD (st.plInd - 1 + 1) (-1)).toNat none with
      | some node =>
        simp only [Bool.false_eq_true, if_false, hk]
        refine ⟨rfl, rfl, rfl, ?_⟩
        simp [placeOf]; rfl
      | none =>
        simp only [Bool.false_eq_true, if_false, hk]
        refine ⟨rfl, rfl, rfl, ?_⟩
        simp [placeOf]; rfl

end Yaep.MP
