import Yaep.Lemmas.Earley2
import Yaep.Model.BuildSet2
/-!
# Lookahead independence: the parse list of level 2 as `make_parse` reads it (for tests only)

At level 2 a situation carries a context; `make_parse` does not look at it.  `plSets2 g w` is the parse list
of the step model `BS2.buildPLC2` with the contexts dropped.  Nothing is proved about it (see
`REPORT-L23.md`); `Props/LaIndep.lean` evaluates `make_parse` on it for one grammar.
-/
namespace Yaep.LI
open Yaep

def plSets2 (g : Grammar) (w : List Nat) : Array (Array Item) :=
  ((BS2.plItems (BS2.buildPLC2 g w).2.2).map fun l => (l.map Item2.proj).toArray).toArray

end Yaep.LI
