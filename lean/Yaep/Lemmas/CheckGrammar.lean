import Yaep.Model.ReadGrammar
import Yaep.Lemmas.Analysis
/-!
# Helper lemmas: the control flow of `checkGrammar`
-/
namespace Yaep

/-- the first phase of `check_grammar`: the productivity / accessibility scan -/
def strictErr (g : Grammar) (strict : Bool) : Option Nat :=
  if strict then
    (List.range g.nN).findSome? fun A =>
      if !(g.productive.contains A) then some 15
      else if !(g.reachable.contains A) then some 14 else none
  else if !(g.productive.contains g.startN) then some 15 else none

theorem checkGrammar_eq (g : Grammar) (strict : Bool) :
    checkGrammar g strict =
      (match strictErr g strict with
      | some e => e
      | none => if g.loopSet.isEmpty then (0 : Nat) else 16) := rfl

theorem strictErr_eq_none_iff (g : Grammar) (strict : Bool) :
    strictErr g strict = none ↔
      (if strict then ∀ A < g.nN, A ∈ g.productive ∧ A ∈ g.reachable
       else g.startN ∈ g.productive) := by
  unfold strictErr
  cases strict with
  | false =>
    simp only [Bool.false_eq_true, if_false]
    by_cases h : g.startN ∈ g.productive
    · simp [h]
    · simp [h]
  | true =>
    simp only [if_true]
    rw [List.findSome?_eq_none_iff]
    constructor
    · intro hall A hA
      have := hall A (List.mem_range.mpr hA)
      by_cases h1 : A ∈ g.productive
      · by_cases h2 : A ∈ g.reachable
        · exact ⟨h1, h2⟩
        · simp [h1, h2] at this
      · simp [h1] at this
    · intro hall A hA
      obtain ⟨h1, h2⟩ := hall A (List.mem_range.mp hA)
      simp [h1, h2]

theorem strictErr_eq_some (g : Grammar) (strict : Bool) {e : Nat}
    (h : strictErr g strict = some e) :
    (e = 15 ∧ ∃ A, (if strict then A < g.nN else A = g.startN) ∧ A ∉ g.productive) ∨
    (e = 14 ∧ strict = true ∧ ∃ A, A < g.nN ∧ A ∉ g.reachable) := by
  unfold strictErr at h
  cases strict with
  | false =>
    simp only [Bool.false_eq_true, if_false] at h
    split at h
    · rename_i hp
      simp only [Option.some.injEq] at h
      left
      refine ⟨h.symm, g.startN, by simp, ?_⟩
      simpa using hp
    · cases h
  | true =>
    simp only [if_true] at h
    obtain ⟨A, hA, hf⟩ := List.exists_of_findSome?_eq_some h
    have hA' := List.mem_range.mp hA
    split at hf
    · rename_i hp
      simp only [Option.some.injEq] at hf
      left
      refine ⟨hf.symm, A, by simpa using hA', ?_⟩
      simpa using hp
    · split at hf
      · rename_i hr
        simp only [Option.some.injEq] at hf
        right
        refine ⟨hf.symm, rfl, A, hA', ?_⟩
        simpa using hr
      · cases hf

end Yaep
