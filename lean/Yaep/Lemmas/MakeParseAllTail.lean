import Yaep.Lemmas.MakeParseAllGrow
/-!
# All-parses mode: attaching the translation of one candidate (`candTail`)
-/
namespace Yaep.MP
open Yaep

/-- the state the translation of the candidate is attached to: it is on the stack with its dot
before the nonterminal `A` (translated into slot `d`), the split points around `A` are `k`, `e` -/
structure CurOK (g : Grammar) (ok : Nat → Nat → Nat → Bool) (toks : List Nat) (s : St) (G : Ghost)
    (cur : Nat) (rlc : Rule) (A d k e : Nat) : Prop where
  mem : cur ∈ s.stack
  st : StateOK g ok toks G s.heap s.states s.stack cur rlc
  hX : rlc.rhs[(s.states.getD cur default).pos]? = some (.n A)
  hd : rlc.order.getD (s.states.getD cur default).pos none = some d
  hk : G.ssp cur (s.states.getD cur default).pos = k
  he : G.ssp cur ((s.states.getD cur default).pos + 1) = e

theorem PtrOK.lt {g : Grammar} {toks : List Nat} {ty : Nat → CellTy} {h : Array MNode} {m : Nat}
    {T : Tree → Prop} (hp : PtrOK g toks ty h m T) : m < h.size := by
  cases hp <;> assumption

/-- a well-typed pointer is put into the place of the current state -/
theorem tail_place {g : Grammar} {ok : Nat → Nat → Nat → Bool} {toks : List Nat} {s s' : St}
    {G : Ghost} {hole : Option (Nat × Nat)} (hwf : g.translWF = true)
    (hgood : AGood g ok toks s G hole) {cur : Nat} {rlc : Rule} {A d k e : Nat}
    (hcur : CurOK g ok toks s G cur rlc A d k e)
    (hhole : hole = none ∨ hole = some (placeOfSt s.states (s.states.getD cur default) d))
    {node : Nat} (hnode : PtrOK g toks G.ty s.heap node (Tr g toks (.n A) k e))
    (hh : s'.heap = placeTranslation s.heap (placeOfSt s.states (s.states.getD cur default) d) node)
    (hs : s'.states = s.states) (hk : s'.stack = s.stack) (ht : s'.table = s.table)
    (hn : s'.termNodes = s.termNodes) :
    AGood g ok toks s' G none ∧ Grow s G s' G := by
  obtain ⟨T, hslot, hsub⟩ := hcur.st.slot hwf hcur.mem hgood.rootSt.1 hcur.hX hcur.hd
  rw [hcur.hk, hcur.he] at hsub
  have hnode' := hnode.mono (HeapExt.refl _) (fun _ _ => rfl) hsub
  obtain ⟨c1, _, nm, c, ks, c2, _, _⟩ := hslot.cell hwf hgood
  have hpl : placeOfSt s.states (s.states.getD cur default) d =
      ((placeOfSt s.states (s.states.getD cur default) d).1,
       (placeOfSt s.states (s.states.getD cur default) d).2) := rfl
  have hg := hgood.place hwf hslot hnode' (by rw [hh]) hs hk ht hn
  refine ⟨?_, Grow.place c2 c1 hnode.lt (by rw [hh]) hs hk⟩
  rcases hhole with rfl | rfl
  · simpa using hg
  · simpa using hg

/-- the parent fields `candTail` gives to the state of the candidate -/
def childPar (st : PState) (cur : Nat) : Nat :=
  match st.anode with
  | none => st.parent
  | some _ => cur

def childDsp (st : PState) (d : Nat) : Nat :=
  match st.anode with
  | none => st.parentDisp
  | some _ => d

/-- the place of the current state is a legitimate target for a state that derives `A` on
`toks[k, e)` -/
theorem CurOK.childTgt {g : Grammar} {ok : Nat → Nat → Nat → Bool} {toks : List Nat} {s : St}
    {G G' : Ghost} {cur : Nat} {rlc : Rule} {A d k e : Nat} (hwf : g.translWF = true)
    (hcur : CurOK g ok toks s G cur rlc A d k e) {sts' : Array PState} {stack' : List Nat}
    (hsts : ∀ x, x < s.states.size → sts'.getD x default = s.states.getD x default)
    (hgh : ∀ x, x < s.states.size → G'.ssp x = G.ssp x)
    (hstk : ∀ x ∈ s.stack, x ∈ stack') :
    TgtOK g toks G' sts' stack' (childPar (s.states.getD cur default) cur)
      (childDsp (s.states.getD cur default) d) A k e := by
  have hlt := hcur.st.lt
  have hpl := hcur.st.parLt
  have hc := hcur.st.cell
  unfold childPar childDsp
  cases han : (s.states.getD cur default).anode with
  | some a =>
    simp only
    refine Or.inr ⟨hstk cur hcur.mem, rlc, (s.states.getD cur default).pos, .n A, a,
      by rw [hsts cur hlt]; exact hcur.st.hr, by rw [hsts cur hlt]; exact han, hcur.hd,
      by rw [hsts cur hlt]; exact Nat.le_refl _, hcur.hX, ?_⟩
    rw [hgh cur hlt, hcur.hk, hcur.he]
    exact fun _ h => h
  | none =>
    rw [han] at hc
    simp only
    have hsub := hcur.st.pass_sub hwf hc hcur.hX hcur.hd
    rw [hcur.hk, hcur.he] at hsub
    rcases hcur.st.tgt with ⟨t1, t2, t3⟩ | ⟨t1, rlP, qP, Y, aP, t2, t3, t4, t5, t6, t7⟩
    · exact Or.inl ⟨t1, t2, fun t ht => t3 t (hsub t ht)⟩
    · have hPlt : (s.states.getD cur default).parent < s.states.size := by omega
      refine Or.inr ⟨hstk _ t1, rlP, qP, Y, aP, by rw [hsts _ hPlt]; exact t2,
        by rw [hsts _ hPlt]; exact t3, t4, by rw [hsts _ hPlt]; exact t5, t6, ?_⟩
      rw [hgh _ hPlt]
      exact fun t ht => t7 t (hsub t ht)

/-- the parent of the state of the candidate has an abstract node, and its place is the place of the
current state -/
theorem CurOK.childPlace {g : Grammar} {ok : Nat → Nat → Nat → Bool} {toks : List Nat} {s : St}
    {G : Ghost} {cur : Nat} {rlc : Rule} {A d k e : Nat}
    (hcur : CurOK g ok toks s G cur rlc A d k e) :
    childPar (s.states.getD cur default) cur < s.states.size ∧
    childPar (s.states.getD cur default) cur ≤ cur ∧
    ∃ pa, (s.states.getD (childPar (s.states.getD cur default) cur) default).anode = some pa ∧
      placeOfSt s.states (s.states.getD cur default) d = (pa, childDsp (s.states.getD cur default) d) := by
  have hlt := hcur.st.lt
  have hpl := hcur.st.parLt
  unfold childPar childDsp placeOfSt
  cases han : (s.states.getD cur default).anode with
  | some a => exact ⟨hlt, Nat.le_refl _, a, han, rfl⟩
  | none =>
    obtain ⟨pa, hpa⟩ := hcur.st.pa
    simp only
    exact ⟨by omega, by omega, pa, hpa, by simp only [hpa]; rfl⟩

/-- ghost data of a new state `y` whose right-hand side is still to be processed: every split
point is the end `e` of its span -/
def Ghost.newState (G : Ghost) (y e : Nat) : Ghost :=
  { G with sfin := fun x => if x = y then e else G.sfin x,
           ssp := fun x q => if x = y then e else G.ssp x q }

def Ghost.newCell (G : Ghost) (n : Nat) (t : CellTy) : Ghost :=
  { G with ty := fun m => if m = n then t else G.ty m }

theorem Ghost.newState_old (G : Ghost) (y e x : Nat) (h : x ≠ y) :
    (G.newState y e).ssp x = G.ssp x ∧ (G.newState y e).sfin x = G.sfin x := by
  constructor
  · funext q; simp [Ghost.newState, h]
  · simp [Ghost.newState, h]

/-- the invariant of the state pushed for a candidate -/
theorem child_stateOK {g : Grammar} {ok : Nat → Nat → Nat → Bool} {toks : List Nat} {s : St}
    {G G' : Ghost} {cur : Nat} {rlc : Rule} {A d k e : Nat} (hwf : g.translWF = true)
    (hcur : CurOK g ok toks s G cur rlc A d k e) {sr : Nat} {rl' : Rule} {Y : PState}
    {h' : Array MNode} (hr' : g.rules[sr]? = some rl') (hlhs : rl'.lhs = A)
    (hE : EarleyF g ok toks e ⟨sr, rl'.rhs.length, k⟩)
    (y1 : Y.rule = sr) (y2 : Y.pos = rl'.rhs.length) (y3 : Y.orig = k) (y4 : Y.plInd = e)
    (y5 : Y.parent = childPar (s.states.getD cur default) cur)
    (y6 : Y.parentDisp = childDsp (s.states.getD cur default) d)
    (hsp : G'.ssp s.states.size = fun _ => e) (hfin : G'.sfin s.states.size = e)
    (hold : ∀ x, x < s.states.size → G'.ssp x = G.ssp x)
    (hcell : match Y.anode with
      | some a => LiveCell g toks G' h' s.states.size Y rl' a
      | none => rl'.anode = none) :
    StateOK g ok toks G' h' (s.states.push Y) (s.states.size :: s.stack) s.states.size rl' := by
  have hY : (s.states.push Y).getD s.states.size default = Y := getD_push_eq _ _ _
  have hsts : ∀ x, x < s.states.size → (s.states.push Y).getD x default = s.states.getD x default :=
    fun x hx => getD_push_lt _ _ _ _ hx
  obtain ⟨p1, p2, pa, p3, p4⟩ := hcur.childPlace
  have hok := Grammar.translWF_rule hwf hr'
  refine ⟨by simp, by rw [hY, y5]; have := hcur.st.lt; omega, by rw [hY, y1]; exact hr',
    by rw [hY, y2]; exact Nat.le_refl _, ?_, ?_, by rw [hsp, hfin], ?_, ?_, ?_, by rw [hY]; exact hcell⟩
  · rw [hY, y1, y2, y3, y4, hsp]
    exact fun _ => ⟨hE, rfl⟩
  · rw [hY, y2, y3, hsp]
    intro h0
    rw [h0] at hE
    exact hE.dot_zero.symm
  · rw [hY, y2]
    intro q X hq hX _
    have := (List.getElem?_eq_some_iff.mp hX).1
    omega
  · rw [hY, y5, hsts _ p1]; exact ⟨pa, p3⟩
  · rw [hY, y5, y6, y3, hfin, hlhs]
    exact hcur.childTgt hwf hsts hold (fun x hx => List.mem_cons_of_mem _ hx)

/-- a new state without abstract node for the candidate -/
theorem tail_push {g : Grammar} {ok : Nat → Nat → Nat → Bool} {toks : List Nat} {s s' : St}
    {G : Ghost} {hole : Option (Nat × Nat)} (hwf : g.translWF = true)
    (hgood : AGood g ok toks s G hole) {cur : Nat} {rlc : Rule} {A d k e : Nat}
    (hcur : CurOK g ok toks s G cur rlc A d k e)
    (hhole : hole = none ∨ hole = some (placeOfSt s.states (s.states.getD cur default) d))
    {sr : Nat} {rl' : Rule} {Y : PState} (hr' : g.rules[sr]? = some rl') (hlhs : rl'.lhs = A)
    (hE : EarleyF g ok toks e ⟨sr, rl'.rhs.length, k⟩) (hn' : rl'.anode = none)
    (y1 : Y.rule = sr) (y2 : Y.pos = rl'.rhs.length) (y3 : Y.orig = k) (y4 : Y.plInd = e)
    (y5 : Y.parent = childPar (s.states.getD cur default) cur)
    (y6 : Y.parentDisp = childDsp (s.states.getD cur default) d) (y7 : Y.anode = none)
    (hh : s'.heap = s.heap) (hs : s'.states = s.states.push Y)
    (hk : s'.stack = s.states.size :: s.stack) (ht : s'.table = s.table)
    (hn : s'.termNodes = s.termNodes) :
    AGood g ok toks s' (G.newState s.states.size e) none ∧
      Grow s G s' (G.newState s.states.size e) := by
  have hold : ∀ x, x < s.states.size → (G.newState s.states.size e).ssp x = G.ssp x ∧
      (G.newState s.states.size e).sfin x = G.sfin x :=
    fun x hx => G.newState_old _ _ _ (by omega)
  have hY : (s.states.push Y).getD s.states.size default = Y := getD_push_eq _ _ _
  obtain ⟨p1, p2, pa, p3, p4⟩ := hcur.childPlace
  have hok := Grammar.translWF_rule hwf hr'
  refine ⟨?_, Grow.push (Or.inl hh) hs hk (fun _ _ => rfl) hold⟩
  refine hgood.push (Y := Y) (rlY := rl') (Or.inl ⟨hh, y7⟩) hs hk (fun _ _ => rfl) hold ?_
    (fun pl r o node hm => Or.inl (by rw [ht] at hm; exact hm)) hn ?_ ?_
  · rw [hh, hs, hk]
    refine child_stateOK hwf hcur hr' hlhs hE y1 y2 y3 y4 y5 y6 ?_ ?_ (fun x hx => (hold x hx).1) ?_
    · funext q; simp [Ghost.newState]
    · simp [Ghost.newState]
    · rw [y7]; exact hn'
  · intro pl hpl _
    rcases hhole with h0 | h0
    · rw [h0] at hpl; cases hpl
    · rw [h0] at hpl; injection hpl with hpl
      rw [hs]
      unfold Owes
      rw [hY]
      refine ⟨y7, ?_, rl', by rw [y1]; exact hr', ?_⟩
      · rw [← hpl, p4, y5, y6, getD_push_lt _ _ _ _ p1, p3]; rfl
      · rw [y2]; intro q hq; exact order_getD_none_of_le hok hq
  · intro pl hproc _
    obtain ⟨rlx, q, dd, q1, q2, q3, _⟩ := hproc
    rw [hs, hY] at q1 q2
    rw [y1, hr'] at q1; injection q1 with q1; subst q1
    rw [y2] at q2
    rw [order_getD_none_of_le hok q2] at q3; cases q3

/-- a new abstract node and a new state for the candidate -/
theorem tail_new {g : Grammar} {ok : Nat → Nat → Nat → Bool} {toks : List Nat} {s s' : St}
    {G : Ghost} {hole : Option (Nat × Nat)} (hwf : g.translWF = true)
    (hgood : AGood g ok toks s G hole) {cur : Nat} {rlc : Rule} {A d k e : Nat}
    (hcur : CurOK g ok toks s G cur rlc A d k e)
    (hhole : hole = none ∨ hole = some (placeOfSt s.states (s.states.getD cur default) d))
    {sr : Nat} {rl' : Rule} {Y : PState} {name : String} (hr' : g.rules[sr]? = some rl')
    (hlhs : rl'.lhs = A) (hE : EarleyF g ok toks e ⟨sr, rl'.rhs.length, k⟩)
    (hn' : rl'.anode = some name)
    (y1 : Y.rule = sr) (y2 : Y.pos = rl'.rhs.length) (y3 : Y.orig = k) (y4 : Y.plInd = e)
    (y5 : Y.parent = childPar (s.states.getD cur default) cur)
    (y6 : Y.parentDisp = childDsp (s.states.getD cur default) d) (y7 : Y.anode = some s.heap.size)
    (hh : s'.heap = placeTranslation (s.heap.push (.anode name rl'.cost
      (Array.replicate (rl'.transLen + 1) none))) (placeOfSt s.states (s.states.getD cur default) d)
      s.heap.size)
    (hs : s'.states = s.states.push Y) (hk : s'.stack = s.states.size :: s.stack)
    (ht : s'.table = tableInsert s.table sr k e s.heap.size) (hn : s'.termNodes = s.termNodes) :
    ∃ G', AGood g ok toks s' G' none ∧ Grow s G s' G' := by
  let G' : Ghost := (G.newState s.states.size e).newCell s.heap.size ⟨sr, k, e⟩
  let H1 : Array MNode := s.heap.push (.anode name rl'.cost (Array.replicate (rl'.transLen + 1) none))
  let s1 : St := { s with heap := H1, states := s.states.push Y,
                          stack := s.states.size :: s.stack,
                          table := tableInsert s.table sr k e s.heap.size }
  have hold : ∀ x, x < s.states.size → G'.ssp x = G.ssp x ∧ G'.sfin x = G.sfin x :=
    fun x hx => G.newState_old _ _ _ (by omega)
  have hty : ∀ m, m < s.heap.size → G'.ty m = G.ty m := by
    intro m hm; simp [G', Ghost.newCell, Ghost.newState]; omega
  have htynew : G'.ty s.heap.size = ⟨sr, k, e⟩ := by simp [G', Ghost.newCell]
  obtain ⟨rks, _, _, hroot, _⟩ := hgood.root
  have hok := Grammar.translWF_rule hwf hr'
  have hY : (s.states.push Y).getD s.states.size default = Y := getD_push_eq _ _ _
  have hlt : ∀ x ∈ s.stack, x < s.states.size := by
    intro x hx; obtain ⟨rl, hx'⟩ := hgood.states x hx; exact hx'.lt
  have hgrow1 : Grow s G s1 G' := Grow.push (Or.inr ⟨_, rfl⟩) rfl rfl hty hold
  -- the cell and the state
  have hg1 : AGood g ok toks s1 G' hole := by
    refine hgood.push (Y := Y) (rlY := rl') (Or.inr ⟨_, _, _, rfl, y7⟩) rfl rfl hty hold ?_ ?_ rfl
      (fun pl h1 h2 => absurd h1 h2) ?_
    · refine child_stateOK hwf hcur hr' hlhs hE y1 y2 y3 y4 y5 y6 ?_ ?_ (fun x hx => (hold x hx).1) ?_
      · funext q; simp [G', Ghost.newCell, Ghost.newState]
      · simp [G', Ghost.newCell, Ghost.newState]
      · rw [y7]
        refine ⟨by simp [s1, H1], hroot, ?_, name, _, hn', getD_push_eq _ _ _, by simp, ?_⟩
        · rw [htynew, y1, y3]; simp [G', Ghost.newCell, Ghost.newState]
        · intro dd m hm
          simp [Array.getD_eq_getD_getElem?, Array.getElem?_replicate] at hm
          split at hm <;> simp at hm
    · intro pl r o node hm
      rcases mem_tableInsert hm with h1 | ⟨h1, h2⟩
      · exact Or.inl h1
      · injection h1 with e1 e2; injection e2 with e2 e3
        subst e1; subst e2; subst e3; subst h2
        exact Or.inr ⟨rfl, y7, hroot, htynew⟩
    · intro pl hproc _
      obtain ⟨rlx, q, dd, q1, q2, q3, _⟩ := hproc
      change g.rules[((s.states.push Y).getD s.states.size default).rule]? = some rlx at q1
      change ((s.states.push Y).getD s.states.size default).pos ≤ q at q2
      rw [hY] at q1 q2
      rw [y1, hr'] at q1; injection q1 with q1; subst q1
      rw [y2] at q2
      rw [order_getD_none_of_le hok q2] at q3; cases q3
  -- the new cell goes into the place of the current state
  obtain ⟨T, hslot, hsub⟩ := hcur.st.slot hwf hcur.mem hgood.rootSt.1 hcur.hX hcur.hd
  rw [hcur.hk, hcur.he] at hsub
  have hslot1 := hslot.grow hgrow1 hlt
  have hnode : PtrOK g toks G'.ty s1.heap s.heap.size T := by
    refine .anode (by simp [s1, H1]) hroot (getD_push_eq _ _ _) ?_
    intro t ht
    rw [htynew] at ht
    exact hsub t (hlhs ▸ ht.tr hr')
  obtain ⟨c1, _, nm, c, ks, c2, _, _⟩ := hslot1.cell hwf hg1
  have hg2 := hg1.place hwf hslot1 hnode (s' := s') (by rw [hh]) (by rw [hs]) (by rw [hk])
    (by rw [ht]) (by rw [hn])
  refine ⟨G', ?_, hgrow1.trans (Grow.place (node := s.heap.size) c2 c1 (by simp [s1, H1])
    (by rw [hh]) (by rw [hs]) (by rw [hk]))⟩
  rcases hhole with rfl | rfl
  · simpa using hg2
  · simpa using hg2

/-- **`candTail` keeps the invariant** and fills the hole of the current state -/
theorem candTail_good {g : Grammar} {ok : Nat → Nat → Nat → Bool} {toks : List Nat} {c : Ctx} {s : St}
    {G : Ghost} {hole : Option (Nat × Nat)} (hc : CtxAll g ok toks c) (hwf : g.translWF = true)
    (hgood : AGood g ok toks s G hole) {cur : Nat} {rlc : Rule} {A d k e : Nat}
    (hcur : CurOK g ok toks s G cur rlc A d k e)
    (hhole : hole = none ∨ hole = some (placeOfSt s.states (s.states.getD cur default) d))
    {sr : Nat} {rl' : Rule} (hr' : g.rules[sr]? = some rl') (hlhs : rl'.lhs = A)
    (hE : EarleyF g ok toks e ⟨sr, rl'.rhs.length, k⟩)
    {L : Loc} {pp : Nat × Nat} {os : List Nat}
    (hpp : tailPlace (s.states.getD cur default).anode pp d =
      placeOfSt s.states (s.states.getD cur default) d)
    (hLd : L.parentDisp = (s.states.getD cur default).parentDisp) (hLe : L.plInd = e) :
    ∃ G', AGood g ok toks
        (candTail c L ⟨sr, rl'.rhs.length, k⟩ pp d (s, os, cur, (s.states.getD cur default).anode)).1 G' none ∧
      Grow s G
        (candTail c L ⟨sr, rl'.rhs.length, k⟩ pp d (s, os, cur, (s.states.getD cur default).anode)).1 G' ∧
      (candTail c L ⟨sr, rl'.rhs.length, k⟩ pp d (s, os, cur, (s.states.getD cur default).anode)).2 = os := by
  have hrule' := hc.rule_eq hr'
  have hchild : ∀ an, tailChild L ⟨sr, rl'.rhs.length, k⟩ s cur (s.states.getD cur default).anode d an =
      { rule := sr, pos := rl'.rhs.length, orig := k, plInd := e,
        parent := childPar (s.states.getD cur default) cur,
        parentDisp := childDsp (s.states.getD cur default) d, anode := an } := by
    intro an
    unfold tailChild childPar childDsp
    rw [hLd, hLe]
    cases (s.states.getD cur default).anode <;> rfl
  cases hn' : rl'.anode with
  | some name =>
    cases hf : tableFind s.table sr k L.plInd with
    | none =>
      obtain ⟨n1, n2, n3, n4, n5, _, n7⟩ := candTail_new (c := c) (L := L)
        (sit := ⟨sr, rl'.rhs.length, k⟩) (pp := pp) (disp := d) (s := s) (os := os) (cur := cur)
        (anode := (s.states.getD cur default).anode) hc.all (by rw [hrule']; exact hn') hf
      rw [hrule', hpp] at n1
      rw [hchild] at n2
      rw [hLe] at n4
      obtain ⟨G', h1, h2⟩ := tail_new hwf hgood hcur hhole hr' hlhs hE hn' rfl rfl rfl rfl rfl rfl rfl
        n1 n2 n3 n4 n5
      exact ⟨G', h1, h2, n7⟩
    | some node =>
      obtain ⟨n1, n2, n3, n4, n5, _, n7⟩ := candTail_reuse (c := c) (L := L)
        (sit := ⟨sr, rl'.rhs.length, k⟩) (pp := pp) (disp := d) (s := s) (os := os) (cur := cur)
        (anode := (s.states.getD cur default).anode) hc.all (by rw [hrule']; exact hn') hf
      rw [hpp] at n1
      rw [hLe] at hf
      obtain ⟨t1, t2, ⟨nm1, c1, ks1, t3⟩, t4⟩ := hgood.table e sr k node (tableFind_mem hf)
      have hnode : PtrOK g toks G.ty s.heap node (Tr g toks (.n A) k e) :=
        .anode t1 t2 t3 (fun t ht => by rw [t4] at ht; exact hlhs ▸ ht.tr hr')
      obtain ⟨h1, h2⟩ := tail_place hwf hgood hcur hhole hnode n1 n2 n3 n4 n5
      exact ⟨G, h1, h2, n7⟩
  | none =>
    by_cases hdot : rl'.rhs.length = 0
    · obtain ⟨n1, n2, n3, n4, n5, _, n7⟩ := candTail_nil (c := c) (L := L)
        (sit := ⟨sr, rl'.rhs.length, k⟩) (pp := pp) (disp := d) (s := s) (os := os) (cur := cur)
        (anode := (s.states.getD cur default).anode) (by rw [hrule']; exact hn') hdot
      rw [hpp] at n1
      obtain ⟨rks, _, _, hroot, _⟩ := hgood.root
      have hroot' : 2 < s.heap.size := hroot
      have hke : k = e := by rw [hdot] at hE; exact hE.dot_zero
      have hnil : Tr g toks (.n A) k e .nil := by
        have hrhs : rl'.rhs = [] := List.length_eq_zero_iff.mp hdot
        refine ⟨.node sr [], .node hr' hlhs (by rw [hrhs, hke]; exact .nil), ?_⟩
        exact (translate_passthrough hwf hr' hn' []).2 (fun p s' hp => by
          have hl := (Grammar.translWF_rule hwf hr').len
          have := (List.getElem?_eq_some_iff.mp hp).1
          omega)
      have hnode : PtrOK g toks G.ty s.heap nilId (Tr g toks (.n A) k e) :=
        .nil (by show 0 < _; omega) hgood.h0 hnil
      obtain ⟨h1, h2⟩ := tail_place hwf hgood hcur hhole hnode n1 n2 n3 n4 n5
      exact ⟨G, h1, h2, n7⟩
    · obtain ⟨n1, n2, n3, n4, n5, _, n7⟩ := candTail_pass (c := c) (L := L)
        (sit := ⟨sr, rl'.rhs.length, k⟩) (pp := pp) (disp := d) (s := s) (os := os) (cur := cur)
        (anode := (s.states.getD cur default).anode) (by rw [hrule']; exact hn') hdot
      rw [hchild] at n2
      obtain ⟨h1, h2⟩ := tail_push hwf hgood hcur hhole hr' hlhs hE hn' rfl rfl rfl rfl rfl rfl rfl
        n1 n2 n3 n4 n5
      exact ⟨_, h1, h2, n7⟩

end Yaep.MP
