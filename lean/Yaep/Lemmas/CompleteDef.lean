import Yaep.Lemmas.MakeParseAllMain
/-!
# Completeness of the all-parses forest of `make_parse`, part 1: what a cell of the tree memory
denotes (ALT chains, shared cells), as a relation

`DenP h m t`: the pointer `m` into the tree memory `h` denotes the tree `t` (choose one alternative
at every ALT chain).  The relation is monotone along everything `make_parse` does to the memory
(`HMono`): cells are only added, slots of abstract nodes are filled or get a longer ALT chain.
-/
namespace Yaep.CP
open Yaep Yaep.MP

/-- `a` is an alternative of the ALT chain that starts at the cell `m` -/
inductive InChain (h : Array MNode) : Nat → Nat → Prop
  | head {m node : Nat} {next : Option Nat} : h.getD m .nil = .alt node next → InChain h m node
  | tail {m node m' a : Nat} : h.getD m .nil = .alt node (some m') → InChain h m' a → InChain h m a

/-- the pointer `m` denotes the tree `t` -/
inductive DenP (h : Array MNode) : Nat → Tree → Prop
  | nil {m : Nat} : m < h.size → h.getD m .nil = .nil → DenP h m .nil
  | err {m : Nat} : m < h.size → h.getD m .nil = .err → DenP h m .error
  | term {m : Nat} {c a : Int} : h.getD m .nil = .term c a → DenP h m (.term c a)
  | anode {m : Nat} {nm : String} {c : Nat} {ks : Array (Option Nat)} {ts : List Tree} (kf : Nat → Nat) :
      rootId < m → h.getD m .nil = .anode nm c ks → ks.size = ts.length + 1 →
      (∀ i, i < ts.length → ks.getD i none = some (kf i)) →
      (∀ i, i < ts.length → DenP h (kf i) (ts.getD i .nil)) → DenP h m (.anode nm c ts)
  | alt {m a : Nat} {t : Tree} : InChain h m a → DenP h a t → DenP h m t

/-- slot `π.2` of the abstract-node cell `π.1` denotes `t` -/
def DenSlot (h : Array MNode) (π : Nat × Nat) (t : Tree) : Prop :=
  ∃ k, getKid h π.1 π.2 = some k ∧ DenP h k t

/-- the cell `a` (not an ALT cell) is what the slot refers to, or an alternative of its chain -/
def InSlot (h : Array MNode) (π : Nat × Nat) (a : Nat) : Prop :=
  ∃ k, getKid h π.1 π.2 = some k ∧ ((k = a ∧ isAlt h a = false) ∨ InChain h k a)

/-- the `next` pointer of an ALT cell goes to an earlier cell, or to the cell allocated right after
it which ends the chain (the two cells `place_translation` allocates for the first alternative) -/
def AltShape (h : Array MNode) : Prop :=
  ∀ m nd m', h.getD m .nil = .alt nd (some m') →
    m' < m ∨ (m' = m + 1 ∧ ∃ nd', h.getD (m + 1) .nil = .alt nd' none)

/-- from `h` to `h'` every pointer keeps what it denotes -/
structure HMono (h h' : Array MNode) : Prop where
  size : h.size ≤ h'.size
  den : ∀ m t, DenP h m t → DenP h' m t
  slot : ∀ π t, DenSlot h π t → DenSlot h' π t
  inslot : ∀ π a, InSlot h π a → InSlot h' π a
  kid : ∀ n i, getKid h n i ≠ none → getKid h' n i ≠ none
  acell : ∀ m nm c ks, h.getD m .nil = .anode nm c ks →
    ∃ ks', h'.getD m .nil = .anode nm c ks' ∧ ks'.size = ks.size
  shape : AltShape h → AltShape h'

theorem HMono.refl (h : Array MNode) : HMono h h :=
  ⟨Nat.le_refl _, fun _ _ x => x, fun _ _ x => x, fun _ _ x => x, fun _ _ x => x,
   fun _ _ _ ks x => ⟨ks, x, rfl⟩, fun x => x⟩

theorem HMono.trans {a b c : Array MNode} (h1 : HMono a b) (h2 : HMono b c) : HMono a c := by
  refine ⟨Nat.le_trans h1.size h2.size, fun m t x => h2.den m t (h1.den m t x),
    fun π t x => h2.slot π t (h1.slot π t x), fun π a x => h2.inslot π a (h1.inslot π a x),
    fun n i x => h2.kid n i (h1.kid n i x), ?_, fun x => h2.shape (h1.shape x)⟩
  intro m nm cc ks hc
  obtain ⟨ks1, e1, s1⟩ := h1.acell m nm cc ks hc
  obtain ⟨ks2, e2, s2⟩ := h2.acell m nm cc ks1 e1
  exact ⟨ks2, e2, by rw [s2, s1]⟩

/-- a cell in the slot (or in its chain) that denotes `t` makes the slot denote `t` -/
theorem InSlot.den {h : Array MNode} {π : Nat × Nat} {a : Nat} {t : Tree} (hi : InSlot h π a)
    (hd : DenP h a t) : DenSlot h π t := by
  obtain ⟨k, hk, hc⟩ := hi
  rcases hc with ⟨rfl, _⟩ | hc
  · exact ⟨k, hk, hd⟩
  · exact ⟨k, hk, .alt hc hd⟩

end Yaep.CP
