import Yaep.Lemmas.EarleyLA
import Yaep.Lemmas.MakeParseSoundEarley
import Yaep.Lemmas.DepthBound
/-!
# The ambiguity flag of `make_parse`, part 1: the Earley sets contain every item of every
derivation of the whole input

`OkDer g ok w`: the lookahead filter `ok` never removes an item whose tail, followed by a right
context covered by FOLLOW, derives the rest of the input.  The filters of `build_pl`
(`laFilter`, every level) have this property.  Under `OkDer` the declarative sets `EarleyF` are
complete along parse trees (`EarleyF.advance_valid`): this is what makes the item of *any*
derivation a reduce candidate of `make_parse`.
-/
namespace Yaep

/-- the filter keeps every item that lies on a derivation of the rest of the input -/
def OkDer (g : Grammar) (ok : Nat → Nat → Nat → Bool) (w : List Nat) : Prop :=
  ∀ (r d m : Nat) (rl : Rule) (γ : List Sym), g.rules[r]? = some rl →
    Der g (rl.rhs.drop d ++ γ) (w.drop m) → FollowCovers g rl.lhs γ → ok m r d = true

theorem okDer_of_true {g : Grammar} {ok : Nat → Nat → Nat → Bool} {w : List Nat}
    (h : ∀ j r d, ok j r d = true) : OkDer g ok w :=
  fun _ _ _ _ _ _ _ _ => h _ _ _

theorem laFilter_succ (g : Grammar) (an : Analysis) (la : Nat) (w : List Nat) :
    laFilter g an (la + 1) w = laFilter g an 1 w := by
  funext j r d
  unfold laFilter okItem
  cases w[j]? <;> rfl

/-- the filters of `build_pl` at every lookahead level -/
theorem okDer_laFilter {g : Grammar} (hsr : g.symsInRange = true) (la : Nat) (w : List Nat) :
    OkDer g (laFilter g g.analysis la w) w := by
  cases la with
  | zero => exact okDer_of_true (laFilter_zero _ _ _)
  | succ la =>
    rw [laFilter_succ]
    intro r d m rl γ hr hd hcov
    exact laFilter_one_of_der hsr hr hd hcov

/-- completeness of the declarative sets under `OkDer` (as `completeness_la1_aux`) -/
theorem completeness_okDer {g : Grammar} (hsr : g.symsInRange = true)
    {ok : Nat → Nat → Nat → Bool} {w : List Nat} (hok : OkDer g ok w)
    {β : List Sym} {u : List Nat} (hd : Der g β u) :
    ∀ (r d i k : Nat) (rest γ : List Sym) (rl : Rule),
      EarleyF g ok w k ⟨r, d, i⟩ →
      g.rules[r]? = some rl → rl.rhs.drop d = β ++ rest → slice w k (k + u.length) = u →
      Der g (rest ++ γ) (w.drop (k + u.length)) → FollowCovers g rl.lhs γ →
      EarleyF g ok w (k + u.length) ⟨r, d + β.length, i⟩ := by
  induction hd with
  | nil =>
    intro r d i k rest γ rl h _ _ _ _ _
    simpa using h
  | @term a ss w1 hss ih =>
    intro r d i k rest γ rl h hr hrest hs hrem hcov
    obtain ⟨hsym, hdrop⟩ := drop_succ_of_drop_cons (by simpa using hrest)
    obtain ⟨hw, hs', _⟩ := slice_cons hs
    have hns : g.nextSym r d = some (Sym.t a) := nextSym_eq_some.mpr ⟨rl, hr, hsym⟩
    have e1 : k + 1 + w1.length = k + (a :: w1).length := by simp only [List.length_cons]; omega
    have e2 : d + 1 + ss.length = d + (Sym.t a :: ss).length := by
      simp only [List.length_cons]; omega
    rw [← e1] at hs' hrem
    have hD : Der g (rl.rhs.drop (d + 1) ++ γ) (w.drop (k + 1)) := by
      rw [hdrop, List.append_assoc, drop_eq_of_slice hs']
      exact Der.append hss hrem
    have h1 := EarleyF.scan h hns hw (hok _ _ _ _ _ hr hD hcov)
    have hE := ih r (d+1) i (k+1) rest γ rl h1 hr hdrop hs' hrem hcov
    rw [e1, e2] at hE
    exact hE
  | @nt r' rl' ss u' v' hr' _ hss ih1 ih2 =>
    intro r d i k rest γ rl h hr hrest hs hrem hcov
    obtain ⟨hsym, hdrop⟩ := drop_succ_of_drop_cons (by simpa using hrest)
    have hns : g.nextSym r d = some (Sym.n rl'.lhs) := nextSym_eq_some.mpr ⟨rl, hr, hsym⟩
    have hlen : k + (u' ++ v').length = (k + u'.length) + v'.length := by
      simp only [List.length_append]; omega
    rw [hlen] at hs hrem
    obtain ⟨hs1, hs2⟩ := slice_split hs
    have hD : Der g (rl.rhs.drop (d + 1) ++ γ) (w.drop (k + u'.length)) := by
      rw [hdrop, List.append_assoc, drop_eq_of_slice hs2]
      exact Der.append hss hrem
    have hp := EarleyF.predict h hns hr' rfl
    have hc := ih1 r' 0 k k [] (rl.rhs.drop (d + 1) ++ γ) rl' hp hr' (by simp) hs1
      (by rw [List.nil_append]; exact hD) (FollowCovers.predict hsr hr hsym hcov)
    rw [Nat.zero_add] at hc
    have hcomp := EarleyF.complete hr' hc h hns (fun _ => hok _ _ _ _ _ hr hD hcov)
    have hE := ih2 r (d+1) i (k + u'.length) rest γ rl hcomp hr hdrop hs2 hrem hcov
    have e2 : d + 1 + ss.length = d + (Sym.n rl'.lhs :: ss).length := by
      simp only [List.length_cons]; omega
    rw [← hlen, e2] at hE
    exact hE

/-! ## parse trees: yield = slice -/

mutual
theorem PT.ValidAt.yield_slice {g : Grammar} {toks : List Nat} : ∀ {pt : PT} {X : Sym} {i j : Nat},
    PT.ValidAt g toks pt X i j → slice toks i j = pt.yield
  | .leaf a p, _, _, _, h => by
    cases h with
    | leaf hw => simp only [PT.yield]; exact slice_succ toks hw
  | .node r kids, _, _, _, h => by
    cases h with
    | node _ _ v => simp only [PT.yield]; exact PT.ValidListAt.yield_slice v
theorem PT.ValidListAt.yield_slice {g : Grammar} {toks : List Nat} :
    ∀ {kids : List PT} {Xs : List Sym} {i j : Nat},
    PT.ValidListAt g toks kids Xs i j → slice toks i j = PT.yieldList kids
  | [], _, _, _, h => by cases h; simp [PT.yieldList]
  | k :: ks, _, _, _, h => by
    cases h with
    | cons h1 h2 =>
      simp only [PT.yieldList]
      rw [← slice_append toks h1.le h2.le, PT.ValidAt.yield_slice h1, PT.ValidListAt.yield_slice h2]
end

theorem PT.ValidAt.le_length {g : Grammar} {toks : List Nat} : ∀ {pt : PT} {X : Sym} {i j : Nat},
    PT.ValidAt g toks pt X i j → i ≤ toks.length → j ≤ toks.length := by
  intro pt X i j h hi
  have h1 := h.yield_slice
  have h2 := h.span
  have h3 := congrArg List.length h1
  simp only [slice, List.length_take, List.length_drop] at h3
  omega

/-- the rest of the input after a segment: `toks[i..] = toks[i, j) ++ toks[j..]` -/
theorem drop_eq_slice_append (toks : List Nat) {i j : Nat} (hij : i ≤ j) :
    toks.drop i = slice toks i j ++ toks.drop j := by
  unfold slice
  have : toks.drop j = (toks.drop i).drop (j - i) := by rw [List.drop_drop]; congr 1; omega
  rw [this, List.take_append_drop]

/-- a list of trees on `[i, j)` followed by a string that derives the rest -/
theorem PT.ValidListAt.der_drop {g : Grammar} {toks : List Nat} {kids : List PT} {Xs γ : List Sym}
    {i j : Nat} (hv : PT.ValidListAt g toks kids Xs i j) (hγ : Der g γ (toks.drop j)) :
    Der g (Xs ++ γ) (toks.drop i) := by
  rw [drop_eq_slice_append toks hv.le, hv.yield_slice]
  exact Der.append hv.der hγ

/-- **completeness along parse trees**: the dot of an item moves over a list of trees -/
theorem EarleyF.advance_valid {g : Grammar} (hsr : g.symsInRange = true)
    {ok : Nat → Nat → Nat → Bool} {toks : List Nat} (hok : OkDer g ok toks)
    {kids : List PT} {β rest γ : List Sym} {r d i k k' : Nat} {rl : Rule}
    (hE : EarleyF g ok toks k ⟨r, d, i⟩) (hr : g.rules[r]? = some rl)
    (hdrop : rl.rhs.drop d = β ++ rest) (hv : PT.ValidListAt g toks kids β k k')
    (hrem : Der g (rest ++ γ) (toks.drop k')) (hcov : FollowCovers g rl.lhs γ) :
    EarleyF g ok toks k' ⟨r, d + β.length, i⟩ := by
  have hsp := hv.span
  have hys := hv.yield_slice
  rw [hsp] at hys hrem ⊢
  exact completeness_okDer hsr hok hv.der r d i k rest γ rl hE hr hdrop hys hrem hcov

/-- every item comes from the item of its rule with the dot at the start, in its origin set -/
theorem EarleyF.origin_item {g : Grammar} {ok : Nat → Nat → Nat → Bool} {w : List Nat} {j : Nat}
    {it : Item} (h : EarleyF g ok w j it) : EarleyF g ok w it.origin ⟨it.rule, 0, it.origin⟩ := by
  induction h with
  | init hr hl => exact EarleyF.init hr hl
  | scan _ _ _ _ ih => exact ih
  | predict h hs hr hl _ => exact EarleyF.predict h hs hr hl
  | complete _ _ _ _ _ _ ih2 => exact ih2

end Yaep
