import Yaep.Lemmas.BuildSetExpand
/-!
# Helper lemmas for `Yaep/Model/BuildSet.lean`, part 2: the start situations of
`build_new_set`, `set_insert`
-/
namespace Yaep.BS
open Yaep

/-! ## the loops of `build_new_set` as `addNew` -/

theorem addShifted_eq (ok : Nat → Nat → Bool) (s : CSet) (base : Nat) (ns : NewStart) (ind : Nat) :
    addShifted ok s base ns ind = addNew ns (shiftSit ok s base ind).toList := by
  unfold addShifted
  cases shiftSit ok s base ind with
  | none => rfl
  | some p =>
    obtain ⟨sit, dist⟩ := p
    simp only [Option.toList, sitDistInsert, addStartSit, addNew_singleton]
    by_cases h : (sit, dist) ∈ ns <;> simp [h]

theorem foldl_addShifted (ok : Nat → Nat → Bool) (s : CSet) (base : Nat) (tr : List Nat)
    (ns : NewStart) :
    tr.foldl (addShifted ok s base) ns = addNew ns (tr.filterMap (shiftSit ok s base)) := by
  induction tr generalizing ns with
  | nil => rfl
  | cons a tr ih =>
    simp only [List.foldl_cons, ih, addShifted_eq]
    cases h : shiftSit ok s base a with
    | none => simp [h, addNew]
    | some p =>
      rw [List.filterMap_cons, h]
      show addNew (addNew ns [p]) _ = addNew ns ([p] ++ _)
      rw [addNew_append]

theorem newSetLoop1_eq (ok : Nat → Nat → Bool) (set : CSet) (tr : List Nat) :
    newSetLoop1 ok set tr = addNew [] (tr.filterMap (shiftSit ok set 1)) :=
  foldl_addShifted ok set 1 tr []

/-- the pairs the body of the second loop tries to add at index `i` -/
def step2Pairs (g : Grammar) (an : Analysis) (ok : Nat → Nat → Bool) (pl : List CSet)
    (plCurr : Nat) (ns : NewStart) (i : Nat) : List (Sit × Nat) :=
  if emptyTailP g an (ns.getD i default).1 then
    let prev := pl.getD (plCurr + 1 - (ns.getD i default).2) default
    if prev.core.find (.n (lhsOf g (ns.getD i default).1)) then
      ((prev.core.transOf (.n (lhsOf g (ns.getD i default).1))).getD []).filterMap
        (shiftSit ok prev (ns.getD i default).2)
    else []
  else []

theorem newSetStep2_fst (g : Grammar) (an : Analysis) (ok : Nat → Nat → Bool) (pl : List CSet)
    (plCurr : Nat) (st : NewStart × Bool) (i : Nat) :
    (newSetStep2 g an ok pl plCurr st i).1 = addNew st.1 (step2Pairs g an ok pl plCurr st.1 i) := by
  unfold newSetStep2 step2Pairs
  dsimp only
  split
  · split
    · simp only [foldl_addShifted]
    · rfl
  · rfl

theorem step2Pairs_append (g : Grammar) (an : Analysis) (ok : Nat → Nat → Bool) (pl : List CSet)
    (plCurr : Nat) (ns e : NewStart) {k : Nat} (hk : k < ns.length) :
    step2Pairs g an ok pl plCurr (ns ++ e) k = step2Pairs g an ok pl plCurr ns k := by
  unfold step2Pairs
  rw [getD_append_left ns e default hk]

/-- the universe of the pairs `(situation, distance)` of a set at list position `n` -/
def pairUniv (g : Grammar) (n : Nat) : List (Sit × Nat) :=
  (sitUniv g).flatMap fun s => (List.range (n + 1)).map fun d => (s, d)

theorem mem_pairUniv {g : Grammar} {n : Nat} {p : Sit × Nat} :
    p ∈ pairUniv g n ↔ p.1 ∈ sitUniv g ∧ p.2 ≤ n := by
  unfold pairUniv
  simp only [List.mem_flatMap, List.mem_map, List.mem_range]
  constructor
  · rintro ⟨s, hs, d, hd, rfl⟩; exact ⟨hs, by simp only; omega⟩
  · rintro ⟨h1, h2⟩; exact ⟨p.1, h1, p.2, by omega, rfl⟩

theorem length_pairUniv (g : Grammar) (n : Nat) : (pairUniv g n).length = sitBound g * (n + 1) := by
  unfold pairUniv
  rw [length_flatMap_const _ _ (n + 1), length_sitUniv]
  intro s _
  rw [List.length_map, List.length_range]

/-- invariant of the second loop of `build_new_set` at index `i`; `P` is any property of
pairs that the loop bodies preserve -/
structure NSInv (g : Grammar) (an : Analysis) (ok : Nat → Nat → Bool) (pl : List CSet)
    (plCurr : Nat) (P : Sit × Nat → Prop) (ns1 : NewStart) (i : Nat) (ns : NewStart) : Prop where
  nodup : ns.Nodup
  all : ∀ p ∈ ns, P p
  first : ns1 ⊆ ns
  closed : ∀ k, k < i → step2Pairs g an ok pl plCurr ns k ⊆ ns

section Loop2
variable {g : Grammar} {an : Analysis} {ok : Nat → Nat → Bool} {pl : List CSet} {plCurr : Nat}
  {P : Sit × Nat → Prop} {ns1 : NewStart}

theorem NSInv_step
    (hP : ∀ ns i, (∀ p ∈ ns, P p) → i < ns.length →
      ∀ p ∈ step2Pairs g an ok pl plCurr ns i, P p)
    (i : Nat) (st : NewStart × Bool) (h : NSInv g an ok pl plCurr P ns1 i st.1)
    (hi : i < st.1.length) :
    NSInv g an ok pl plCurr P ns1 (i + 1) (newSetStep2 g an ok pl plCurr st i).1 ∧
      i + 1 ≤ (newSetStep2 g an ok pl plCurr st i).1.length := by
  rw [newSetStep2_fst]
  generalize hN : step2Pairs g an ok pl plCurr st.1 i = N
  obtain ⟨e, he⟩ := addNew_prefix st.1 N
  have hsub : st.1 ⊆ addNew st.1 N := addNew_subset_left _ _
  refine ⟨⟨addNew_nodup N h.nodup, ?_, fun x hx => hsub (h.first hx), ?_⟩, ?_⟩
  · intro p hp
    rcases mem_addNew hp with hp | hp
    · exact h.all p hp
    · rw [← hN] at hp; exact hP st.1 i h.all hi p hp
  · intro k hk
    rw [he, step2Pairs_append _ _ _ _ _ _ _ (by omega), ← he]
    rcases Nat.lt_or_ge k i with hlt | hge
    · exact fun x hx => hsub (h.closed k hlt hx)
    · have : k = i := by omega
      subst this
      rw [hN]; exact addNew_subset_right _ _
  · rw [he, List.length_append]; omega

theorem newSetLoop2_spec
    (hP : ∀ ns i, (∀ p ∈ ns, P p) → i < ns.length →
      ∀ p ∈ step2Pairs g an ok pl plCurr ns i, P p)
    (hU : ∀ p, P p → p ∈ pairUniv g pl.length)
    (hnd : ns1.Nodup) (h1 : ∀ p ∈ ns1, P p) (b : Bool) :
    NSInv g an ok pl plCurr P ns1
      (newSetLoop2 g an ok pl plCurr (newSetFuel g pl) (ns1, b)).1.length
      (newSetLoop2 g an ok pl plCurr (newSetFuel g pl) (ns1, b)).1 ∧
    ∀ extra, newSetLoop2 g an ok pl plCurr (newSetFuel g pl + extra) (ns1, b) =
      newSetLoop2 g an ok pl plCurr (newSetFuel g pl) (ns1, b) := by
  unfold newSetLoop2
  have hstep := NSInv_step (g := g) (an := an) (ok := ok) (pl := pl) (plCurr := plCurr)
    (P := P) (ns1 := ns1) hP
  have hbound : ∀ (i : Nat) (st : NewStart × Bool), NSInv g an ok pl plCurr P ns1 i st.1 →
      st.1.length ≤ sitBound g * (pl.length + 1) := by
    intro i st h
    have := nodup_subset_length h.nodup (fun p hp => hU p (h.all p hp))
    rwa [length_pairUniv] at this
  have h0 : NSInv g an ok pl plCurr P ns1 0 (ns1, b).1 :=
    ⟨hnd, h1, fun _ h => h, fun k hk => absurd hk (Nat.not_lt_zero _)⟩
  exact ⟨scanLoop_inv (len := fun st : NewStart × Bool => st.1.length)
      (fun i st => NSInv g an ok pl plCurr P ns1 i st.1) _ hstep hbound _ 0 _ h0 (Nat.zero_le _)
      (by unfold newSetFuel; omega),
    scanLoop_stable (len := fun st : NewStart × Bool => st.1.length)
      (fun i st => NSInv g an ok pl plCurr P ns1 i st.1) _ hstep hbound _ 0 _ h0 (Nat.zero_le _)
      (by unfold newSetFuel; omega)⟩

end Loop2

/-! ## `set_insert` and the table of cores -/

/-- every core of the table is what `expand_new_start_set` makes of its start situations -/
structure TabInv (g : Grammar) (an : Analysis) (tab : Tab) : Prop where
  ncores : tab.nCores = tab.cores.length
  cores : ∀ i c, tab.cores[i]? = some c →
    c = expandNewStartSet g an (Core.fresh i (c.sits.take c.nStart))

theorem setInsert_spec (tab : Tab) (ns : NewStart) :
    (setInsert tab ns).2.1.dists = ns.map (·.2) ∧
    (setInsert tab ns).1.bad = tab.bad ∧
    (((setInsert tab ns).2.2 = false ∧
        (∃ i : Nat, tab.cores[i]? = some (setInsert tab ns).2.1.core) ∧
        coreKeyEq (ns.map (·.1)) (setInsert tab ns).2.1.core = true ∧
        (setInsert tab ns).1.cores = tab.cores ∧ (setInsert tab ns).1.nCores = tab.nCores) ∨
     ((setInsert tab ns).2.2 = true ∧
        (setInsert tab ns).2.1.core = Core.fresh tab.nCores (ns.map (·.1)) ∧
        (setInsert tab ns).1.cores = tab.cores ++ [Core.fresh tab.nCores (ns.map (·.1))] ∧
        (setInsert tab ns).1.nCores = tab.nCores + 1)) := by
  unfold setInsert
  dsimp only
  generalize htab1 : (if tab.distVecs.contains (ns.map (·.2)) = true then tab
    else { tab with distVecs := tab.distVecs ++ [ns.map (·.2)], nDists := tab.nDists + 1 }) = tab1
  have hc1 : tab1.cores = tab.cores := by rw [← htab1]; split <;> rfl
  have hn1 : tab1.nCores = tab.nCores := by rw [← htab1]; split <;> rfl
  have hb1 : tab1.bad = tab.bad := by rw [← htab1]; split <;> rfl
  cases hf : tab1.cores.find? (coreKeyEq (ns.map (·.1))) with
  | some c =>
    dsimp only
    refine ⟨rfl, ?_, Or.inl ⟨rfl, ?_, ?_, ?_, ?_⟩⟩
    · split <;> exact hb1
    · have := List.mem_of_find?_eq_some hf
      rw [hc1] at this
      exact List.mem_iff_getElem?.mp this
    · exact List.find?_some hf
    · split <;> exact hc1
    · split <;> exact hn1
  | none =>
    dsimp only
    refine ⟨rfl, ?_, Or.inr ⟨rfl, ?_, ?_, ?_⟩⟩
    · split <;> exact hb1
    · rw [hn1]
    · split <;> simp only [hc1, hn1]
    · split <;> simp only [hn1]

theorem coreKeyEq_iff {sits : List Sit} {c : Core} :
    coreKeyEq sits c = true ↔ c.nStart = sits.length ∧ c.sits.take c.nStart = sits := by
  unfold coreKeyEq
  simp

theorem expandNewStartSet_num (g : Grammar) (an : Analysis) (num : Nat) (ss : List Sit) :
    (expandNewStartSet g an (Core.fresh num ss)).num = num :=
  (expandNewStartSet_spec g an num ss).num

/-- `set_insert` followed by `expand_new_start_set` for a new core: the resulting core is
what `expand_new_start_set` computes from the start situations, whether it was found in the
table or not — hash-consing on the start situations only is sound. -/
theorem insert_expand_spec {g : Grammar} {an : Analysis} {tab : Tab} (hinv : TabInv g an tab)
    (ns : NewStart) :
    let r := setInsert tab ns
    let res : Tab × CSet :=
      if r.2.2 then
        (r.1.storeCore (expandNewStartSet g an r.2.1.core),
          { r.2.1 with core := expandNewStartSet g an r.2.1.core })
      else (r.1, r.2.1)
    TabInv g an res.1 ∧ res.2.dists = ns.map (·.2) ∧
      ∃ num, res.2.core = expandNewStartSet g an (Core.fresh num (ns.map (·.1))) := by
  intro r res
  obtain ⟨hd, _, hcase⟩ := setInsert_spec tab ns
  rcases hcase with ⟨hnew, ⟨i, hi⟩, hkey, hcores, hn⟩ | ⟨hnew, hcore, hcores, hn⟩
  · have hres : res = (r.1, r.2.1) := by
      show (if r.2.2 = true then _ else _) = _
      rw [show r.2.2 = false from hnew]; rfl
    rw [hres]
    refine ⟨⟨by rw [hn, hcores]; exact hinv.ncores, by rw [hcores]; exact hinv.cores⟩, hd, i, ?_⟩
    have := hinv.cores i _ hi
    obtain ⟨_, h2⟩ := coreKeyEq_iff.mp hkey
    rw [h2] at this
    exact this
  · have hres : res = (r.1.storeCore (expandNewStartSet g an r.2.1.core),
          { r.2.1 with core := expandNewStartSet g an r.2.1.core }) := by
      show (if r.2.2 = true then _ else _) = _
      rw [show r.2.2 = true from hnew]; rfl
    rw [hres]
    have hcore' : r.2.1.core = Core.fresh tab.nCores (ns.map (·.1)) := hcore
    have hcores' : r.1.cores = tab.cores ++ [Core.fresh tab.nCores (ns.map (·.1))] := hcores
    have hstore : (r.1.storeCore (expandNewStartSet g an r.2.1.core)).cores =
        tab.cores ++ [expandNewStartSet g an (Core.fresh tab.nCores (ns.map (·.1)))] := by
      unfold Tab.storeCore
      simp only [hcore', hcores', expandNewStartSet_num, hinv.ncores]
      rw [List.set_append_right _ _ (Nat.le_refl _)]
      simp
    refine ⟨⟨?_, ?_⟩, hd, tab.nCores, by simp only [hcore']⟩
    · rw [hstore]
      show r.1.nCores = _
      rw [show r.1.nCores = tab.nCores + 1 from hn, hinv.ncores]; simp
    · intro i c hi
      rw [hstore] at hi
      rcases Nat.lt_or_ge i tab.cores.length with hlt | hge
      · rw [List.getElem?_append_left hlt] at hi
        exact hinv.cores i c hi
      · rw [List.getElem?_append_right hge] at hi
        have hi0 : i - tab.cores.length = 0 := by
          rcases Nat.eq_zero_or_pos (i - tab.cores.length) with h | h
          · exact h
          · rw [List.getElem?_eq_none (by simp; omega)] at hi; cases hi
        rw [hi0] at hi
        simp only [List.getElem?_cons_zero, Option.some.injEq] at hi
        have hi' : i = tab.nCores := by rw [hinv.ncores]; omega
        subst hi
        rw [hi']
        have hsp := expandNewStartSet_spec g an tab.nCores (ns.map (·.1))
        have e : (expandNewStartSet g an (Core.fresh tab.nCores (ns.map (·.1)))).sits.take
            (expandNewStartSet g an (Core.fresh tab.nCores (ns.map (·.1)))).nStart = ns.map (·.1) :=
          hsp.start
        rw [e]

end Yaep.BS
