import Yaep.Lemmas.MakeParseAllHead
/-!
# All-parses mode: one candidate of the loop over the reduces of a translated nonterminal
-/
namespace Yaep.MP
open Yaep

theorem candPre_pos {L : Loc} {sit : Item} {nCand : Nat} {s : St} {pa d : Nat} (hn : nCand ≠ 0)
    (hpa : L.parentAnode = some pa) (hd : L.disp = some d) : candPre L sit nCand s = s := by
  unfold candPre
  have h1 : (nCand == 0) = false := by simpa using hn
  simp [hpa, hd, h1]

/-- the invariant between two candidates (at least one has been attached): the states of
`orig_states` are the original state `X` and its copies -/
structure LoopOK (g : Grammar) (ok : Nat → Nat → Nat → Bool) (toks : List Nat) (L : Loc) (rlX : Rule)
    (A d pa : Nat) (s : St) (G : Ghost) (os : List Nat) : Prop where
  good : AGood g ok toks s G none
  sib : ∀ x, x = L.origSid ∨ x ∈ os → x ∈ s.stack ∧ (s.states.getD x default).rule = L.rule ∧
    (s.states.getD x default).pos = L.pos ∧ (s.states.getD x default).orig = L.orig ∧
    (s.states.getD x default).parent = (s.states.getD L.origSid default).parent ∧
    (s.states.getD x default).parentDisp = L.parentDisp ∧ G.ssp x (L.pos + 1) = L.plInd
  hr : g.rules[L.rule]? = some rlX
  hsym : rlX.rhs[L.pos]? = some (.n A)
  hd : rlX.order.getD L.pos none = some d
  hpa : (s.states.getD (s.states.getD L.origSid default).parent default).anode = some pa
  full : ∀ a, (s.states.getD L.origSid default).anode = some a → ∀ q d', L.pos < q →
    rlX.order.getD q none = some d' → getKid s.heap a d' ≠ none

theorem LoopOK.grow {g : Grammar} {ok : Nat → Nat → Nat → Bool} {toks : List Nat} {L : Loc}
    {rlX : Rule} {A d pa : Nat} {s s' : St} {G G' : Ghost} {os os' : List Nat}
    (h : LoopOK g ok toks L rlX A d pa s G os) (hg : Grow s G s' G')
    (hgood : AGood g ok toks s' G' none)
    (hos : ∀ x ∈ os', x = L.origSid ∨ x ∈ os ∨ (x ∈ s'.stack ∧ (s'.states.getD x default).rule = L.rule ∧
      (s'.states.getD x default).pos = L.pos ∧ (s'.states.getD x default).orig = L.orig ∧
      (s'.states.getD x default).parent = (s.states.getD L.origSid default).parent ∧
      (s'.states.getD x default).parentDisp = L.parentDisp ∧ G'.ssp x (L.pos + 1) = L.plInd)) :
    LoopOK g ok toks L rlX A d pa s' G' os' := by
  have hlt : ∀ x ∈ s.stack, x < s.states.size := by
    intro x hx; obtain ⟨rl, hx'⟩ := h.good.states x hx; exact hx'.lt
  have hXmem := (h.sib L.origSid (Or.inl rfl)).1
  have hXlt := hlt _ hXmem
  have hXst := hg.sts _ hXlt
  obtain ⟨rl0, hX0⟩ := h.good.states _ hXmem
  have hPlt : (s.states.getD L.origSid default).parent < s.states.size := by
    have := hX0.parLt; omega
  have hold : ∀ x, x = L.origSid ∨ x ∈ os → x ∈ s'.stack ∧ (s'.states.getD x default).rule = L.rule ∧
      (s'.states.getD x default).pos = L.pos ∧ (s'.states.getD x default).orig = L.orig ∧
      (s'.states.getD x default).parent = (s'.states.getD L.origSid default).parent ∧
      (s'.states.getD x default).parentDisp = L.parentDisp ∧ G'.ssp x (L.pos + 1) = L.plInd := by
    intro x hx
    obtain ⟨a1, a2, a3, a4, a5, a6, a7⟩ := h.sib x hx
    have hxlt := hlt x a1
    rw [hg.sts x hxlt, hXst, (hg.gh x hxlt).1]
    exact ⟨hg.stack x a1, a2, a3, a4, a5, a6, a7⟩
  refine ⟨hgood, ?_, h.hr, h.hsym, h.hd, by rw [hXst, hg.sts _ hPlt]; exact h.hpa, ?_⟩
  · intro x hx
    rcases hx with hx | hx
    · exact hold x (Or.inl hx)
    · rcases hos x hx with h0 | h1 | ⟨b1, b2, b3, b4, b5, b6, b7⟩
      · exact hold x (Or.inl h0)
      · exact hold x (Or.inr h1)
      · exact ⟨b1, b2, b3, b4, by rw [hXst]; exact b5, b6, b7⟩
  · intro a ha q d' hq ho
    rw [hXst] at ha
    exact hg.kid (a, d') (h.full a ha q d' hq ho)

/-- a state of `orig_states` whose origin is that of the candidate is a good current state -/
theorem LoopOK.curOK {g : Grammar} {ok : Nat → Nat → Nat → Bool} {toks : List Nat} {L : Loc}
    {rlX : Rule} {A d pa : Nat} {s : St} {G : Ghost} {os : List Nat}
    (h : LoopOK g ok toks L rlX A d pa s G os) {x k : Nat} (hx : x = L.origSid ∨ x ∈ os)
    (hpl : (s.states.getD x default).plInd = k)
    (hE2 : EarleyF g ok toks k ⟨L.rule, L.pos, L.orig⟩) :
    CurOK g ok toks s G x rlX A d k L.plInd ∧
    tailPlace (s.states.getD x default).anode (pa, L.parentDisp) d =
      placeOfSt s.states (s.states.getD x default) d ∧
    L.parentDisp = (s.states.getD x default).parentDisp := by
  obtain ⟨a1, a2, a3, a4, a5, a6, a7⟩ := h.sib x hx
  obtain ⟨rl, hst⟩ := h.good.states x a1
  have hrl : rl = rlX := by
    have := hst.hr; rw [a2, h.hr] at this; injection this with this; exact this.symm
  subst hrl
  refine ⟨⟨a1, hst, by rw [a3]; exact h.hsym, by rw [a3]; exact h.hd, ?_, by rw [a3]; exact a7⟩, ?_,
    a6.symm⟩
  · by_cases hp : (s.states.getD x default).pos = 0
    · rw [hp, hst.pos0 hp, a4]
      rw [← a3, hp] at hE2
      exact hE2.dot_zero
    · rw [(hst.item hp).2]; exact hpl
  · unfold tailPlace placeOfSt
    cases (s.states.getD x default).anode with
    | some a => rfl
    | none => simp only; rw [a5, h.hpa, a6]; rfl

theorem mem_headOs {L : Loc} {nCand : Nat} {os : List Nat} {x : Nat} (h : x ∈ headOs L nCand os) :
    x = L.origSid ∨ x ∈ os := by
  unfold headOs at h
  split at h
  · rcases List.mem_cons.mp h with h | h
    · exact Or.inl h
    · exact Or.inr h
  · exact Or.inr h

/-- after the copy of the original state has been pushed: attach the candidate to the copy -/
theorem after_copy {g : Grammar} {ok : Nat → Nat → Nat → Bool} {toks : List Nat} {c : Ctx}
    (hc : CtxAll g ok toks c) (hwf : g.translWF = true) {L : Loc} {rlX : Rule} {A d pa : Nat}
    {s s1 : St} {G G1 : Ghost} {os os0 : List Nat}
    (hloop : LoopOK g ok toks L rlX A d pa s G os)
    {sr k : Nat} {rl' : Rule} (hr' : g.rules[sr]? = some rl') (hlhs : rl'.lhs = A)
    (hE : EarleyF g ok toks L.plInd ⟨sr, rl'.rhs.length, k⟩)
    {an : Option Nat}
    (hg1 : AGood g ok toks s1 G1 (some (placeOfSt s1.states
      { s.states.getD L.origSid default with plInd := k, anode := an } d)))
    (hgrow : Grow s G s1 G1)
    (hs : s1.states = s.states.push { s.states.getD L.origSid default with plInd := k, anode := an })
    (hk : s1.stack = s.states.size :: s.stack)
    (hspk : G1.ssp s.states.size L.pos = k)
    (hspe : G1.ssp s.states.size (L.pos + 1) = G.ssp L.origSid (L.pos + 1))
    (hos0 : ∀ x ∈ os0, x = L.origSid ∨ x ∈ os) :
    ∃ G', LoopOK g ok toks L rlX A d pa
      (candTail c L ⟨sr, rl'.rhs.length, k⟩ (pa, L.parentDisp) d (s1, s.states.size :: os0, s.states.size, an)).1 G'
      (candTail c L ⟨sr, rl'.rhs.length, k⟩ (pa, L.parentDisp) d (s1, s.states.size :: os0, s.states.size, an)).2 := by
  obtain ⟨a1, a2, a3, a4, _, a6, a7⟩ := hloop.sib L.origSid (Or.inl rfl)
  have hYget : s1.states.getD s.states.size default =
      { s.states.getD L.origSid default with plInd := k, anode := an } := by
    rw [hs]; exact getD_push_eq _ _ _
  have hymem : s.states.size ∈ s1.stack := by rw [hk]; simp
  obtain ⟨rl, hst⟩ := hg1.states _ hymem
  have hrl : rl = rlX := by
    have := hst.hr; rw [hYget] at this
    have this' : g.rules[(s.states.getD L.origSid default).rule]? = some rl := this
    rw [a2, hloop.hr] at this'; injection this' with this'; exact this'.symm
  subst hrl
  obtain ⟨rl0, hX0⟩ := hloop.good.states _ a1
  have hPlt : (s.states.getD L.origSid default).parent < s.states.size := by
    have := hX0.parLt; have := hX0.lt; omega
  have hposY : (s1.states.getD s.states.size default).pos = L.pos := by rw [hYget]; exact a3
  have hcur : CurOK g ok toks s1 G1 s.states.size rl A d k L.plInd :=
    ⟨hymem, hst, by rw [hposY]; exact hloop.hsym, by rw [hposY]; exact hloop.hd,
      by rw [hposY]; exact hspk, by rw [hposY, hspe]; exact a7⟩
  have han : (s1.states.getD s.states.size default).anode = an := by rw [hYget]
  have hpp : tailPlace (s1.states.getD s.states.size default).anode (pa, L.parentDisp) d =
      placeOfSt s1.states (s1.states.getD s.states.size default) d := by
    rw [hYget]
    unfold tailPlace placeOfSt
    cases an with
    | some a => rfl
    | none =>
      simp only
      have : s1.states.getD (s.states.getD L.origSid default).parent default =
          s.states.getD (s.states.getD L.origSid default).parent default := hgrow.sts _ hPlt
      rw [this, hloop.hpa, a6]; rfl
  obtain ⟨G', h1, h2, h3⟩ := candTail_good (os := s.states.size :: os0) (L := L) hc hwf hg1 hcur
    (Or.inr (by rw [hYget])) hr' hlhs hE hpp (by rw [hYget]; exact a6.symm) rfl
  rw [han] at h1 h2 h3
  refine ⟨G', ?_⟩
  rw [h3]
  have hlt1 : s.states.size < s1.states.size := by rw [hs]; simp
  refine hloop.grow (hgrow.trans h2) h1 ?_
  intro y hy
  rcases List.mem_cons.mp hy with rfl | hy
  · right; right
    rw [h2.sts _ hlt1, hYget, (h2.gh _ hlt1).1, hspe]
    exact ⟨h2.stack _ hymem, a2, a3, a4, rfl, a6, a7⟩
  · rcases hos0 y hy with e | e
    · exact Or.inl e
    · exact Or.inr (Or.inl e)

/-- a further candidate (`n_candidates ≥ 1`) of a translated nonterminal -/
theorem cand_step_pos {g : Grammar} {ok : Nat → Nat → Nat → Bool} {toks : List Nat} {c : Ctx}
    (hc : CtxAll g ok toks c) (hwf : g.translWF = true) {L : Loc} {rlX : Rule} {A d pa : Nat}
    {s : St} {G : Ghost} {os : List Nat} {nCand : Nat} (hn : nCand ≠ 0)
    (hLpa : L.parentAnode = some pa) (hLd : L.disp = some d)
    (hloop : LoopOK g ok toks L rlX A d pa s G os)
    {sr k : Nat} {rl' : Rule} (hr' : g.rules[sr]? = some rl') (hlhs : rl'.lhs = A)
    (hE : EarleyF g ok toks L.plInd ⟨sr, rl'.rhs.length, k⟩)
    (hE2 : EarleyF g ok toks k ⟨L.rule, L.pos, L.orig⟩) :
    ∃ G', LoopOK g ok toks L rlX A d pa (candidate c L ⟨sr, rl'.rhs.length, k⟩ nCand os s).1 G'
      (candidate c L ⟨sr, rl'.rhs.length, k⟩ nCand os s).2 := by
  rw [candidate_eq, hLpa, hLd]
  simp only
  rw [candPre_pos hn hLpa hLd]
  cases hf : (headOs L nCand os).find? (fun sid => (s.state sid).plInd == k) with
  | some x =>
    rw [candHead_found (sit := ⟨sr, rl'.rhs.length, k⟩) hn hf]
    have hxmem := mem_headOs (List.mem_of_find?_eq_some hf)
    have hxpl : (s.states.getD x default).plInd = k := by
      have := List.find?_some hf
      simp only [beq_iff_eq] at this
      exact this
    obtain ⟨hcur, hpp, hLdisp⟩ := hloop.curOK hxmem hxpl hE2
    obtain ⟨G', h1, h2, h3⟩ := candTail_good (os := headOs L nCand os) hc hwf hloop.good hcur
      (Or.inl rfl) hr' hlhs hE hpp hLdisp rfl
    refine ⟨G', ?_⟩
    show LoopOK g ok toks L rlX A d pa (candTail c L ⟨sr, rl'.rhs.length, k⟩ (pa, L.parentDisp) d
      (s, headOs L nCand os, x, (s.states.getD x default).anode)).1 G'
      (candTail c L ⟨sr, rl'.rhs.length, k⟩ (pa, L.parentDisp) d
      (s, headOs L nCand os, x, (s.states.getD x default).anode)).2
    rw [h3]
    exact hloop.grow h2 h1 (fun y hy => by
      rcases mem_headOs hy with e | e
      · exact Or.inl e
      · exact Or.inr (Or.inl e))
  | none =>
    obtain ⟨a1, a2, a3, a4, _, a6, a7⟩ := hloop.sib L.origSid (Or.inl rfl)
    obtain ⟨rl0, hX0⟩ := hloop.good.states _ a1
    have hrl : rl0 = rlX := by
      have := hX0.hr; rw [a2, hloop.hr] at this; injection this with this; exact this.symm
    subst hrl
    have hE2' : EarleyF g ok toks k ⟨(s.states.getD L.origSid default).rule,
        (s.states.getD L.origSid default).pos, (s.states.getD L.origSid default).orig⟩ := by
      rw [a2, a3, a4]; exact hE2
    have hsym' : rl0.rhs[(s.states.getD L.origSid default).pos]? = some (.n A) := by
      rw [a3]; exact hloop.hsym
    have hd' : rl0.order.getD (s.states.getD L.origSid default).pos none = some d := by
      rw [a3]; exact hloop.hd
    cases han : (s.states.getD L.origSid default).anode with
    | some a =>
      obtain ⟨n1, n2, n3, n4, n5, _, n7, n8, n9⟩ := candHead_copy_owner (L := L)
        (sit := ⟨sr, rl'.rhs.length, k⟩) (os := os) (s := s) (pp := (pa, L.parentDisp)) (disp := d)
        hn hf han
      generalize candHead L ⟨sr, rl'.rhs.length, k⟩ nCand os s (pa, L.parentDisp) d = r at *
      obtain ⟨s1, os1, cur1, an1⟩ := r
      simp only at n1 n2 n3 n4 n5 n7 n8 n9
      subst n7; subst n8; subst n9
      rw [← a6] at n1
      obtain ⟨G1, g1, g2, g3, g4⟩ := copy_owner_good hwf hloop.good a1 hX0 han hloop.hpa hsym' hd' hE2'
        (fun q d' hq ho => hloop.full a han q d' (by rw [← a3]; exact hq) ho) n1 n2 n3 n4 n5
      rw [a3] at g3 g4
      refine after_copy hc hwf hloop hr' hlhs hE (an := some s.heap.size) ?_ g2 n2 n3 g3 g4
        (fun x hx => mem_headOs hx)
      have : placeOfSt s1.states { s.states.getD L.origSid default with plInd := k, anode := some s.heap.size } d = (s.heap.size, d) := by
        unfold placeOfSt; rfl
      rw [this]; exact g1
    | none =>
      obtain ⟨n1, n2, n3, n4, n5, _, n7, n8, n9⟩ := candHead_copy_pass (L := L)
        (sit := ⟨sr, rl'.rhs.length, k⟩) (os := os) (s := s) (pp := (pa, L.parentDisp)) (disp := d)
        hn hf han
      generalize candHead L ⟨sr, rl'.rhs.length, k⟩ nCand os s (pa, L.parentDisp) d = r at *
      obtain ⟨s1, os1, cur1, an1⟩ := r
      simp only at n1 n2 n3 n4 n5 n7 n8 n9
      subst n7; subst n8; subst n9
      obtain ⟨g1, g2⟩ := copy_pass_good hwf hloop.good hX0 han hloop.hpa hsym' hd' hE2' n1 n2 n3 n4 n5
      rw [a3] at g1 g2
      refine after_copy hc hwf hloop hr' hlhs hE (an := none) ?_ g2 n2 n3 ?_ ?_
        (fun x hx => mem_headOs hx)
      · have : placeOfSt s1.states { s.states.getD L.origSid default with plInd := k, anode := none } d = (pa, (s.states.getD L.origSid default).parentDisp) := by
          unfold placeOfSt
          simp only
          have hP : (s.states.getD L.origSid default).parent < s.states.size := by
            have := hX0.parLt; have := hX0.lt; omega
          rw [g2.sts _ hP, hloop.hpa]; rfl
        rw [this]; exact g1
      · simp [Ghost.copyState]
      · simp [Ghost.copyState]

theorem candPre_zero (L : Loc) (sit : Item) (s : St) :
    candPre L sit 0 s = s.setState L.origSid { s.state L.origSid with plInd := sit.origin } := by
  unfold candPre; simp

/-- the first candidate of a translated nonterminal: the dot of the top state moves, the candidate
is attached to the state itself -/
theorem cand_step_zero {g : Grammar} {ok : Nat → Nat → Nat → Bool} {toks : List Nat} {c : Ctx}
    (hc : CtxAll g ok toks c) (hwf : g.translWF = true) {s : St} {G : Ghost}
    (hgood : AGood g ok toks s G none) {X : Nat} {rest : List Nat} (hst : s.stack = X :: rest)
    {rlX : Rule} {A d pa : Nat} (hr : g.rules[(s.state X).rule]? = some rlX)
    (hpos : (s.state X).pos ≠ 0) (hsym : rlX.rhs[(s.state X).pos - 1]? = some (.n A))
    (hd : rlX.order.getD ((s.state X).pos - 1) none = some d)
    (hpa : (s.state (s.state X).parent).anode = some pa)
    {sr k : Nat} {rl' : Rule} (hr' : g.rules[sr]? = some rl') (hlhs : rl'.lhs = A)
    (hE : EarleyF g ok toks (s.state X).plInd ⟨sr, rl'.rhs.length, k⟩)
    (hE2 : EarleyF g ok toks k ⟨(s.state X).rule, (s.state X).pos - 1, (s.state X).orig⟩) :
    ∃ G', LoopOK g ok toks (ntLoc c s X A) rlX A d pa
      (candidate c (ntLoc c s X A) ⟨sr, rl'.rhs.length, k⟩ 0 [] (ntS0 s X)).1 G'
      (candidate c (ntLoc c s X A) ⟨sr, rl'.rhs.length, k⟩ 0 [] (ntS0 s X)).2 := by
  have hXmem : X ∈ s.stack := by rw [hst]; simp
  obtain ⟨rl0, hX0⟩ := hgood.states X hXmem
  have est : s.states.getD X default = s.state X := rfl
  have hrl : rl0 = rlX := by
    have := hX0.hr; rw [est, hr] at this; injection this with this; exact this.symm
  subst hrl
  have hXlt := hX0.lt
  have hrule := hc.rule_eq hr
  have hLpa : (ntLoc c s X A).parentAnode = some pa := hpa
  have hLd : (ntLoc c s X A).disp = some d := by simp only [ntLoc, hrule]; exact hd
  rw [candidate_eq, hLpa, hLd]
  simp only
  rw [candPre_zero, candHead_zero]
  -- the state after the dot has moved and the list index is set
  have hs0 := ntS0_state (s := s) hXlt
  have hsz0 : X < (ntS0 s X).states.size := by simp [ntS0]; exact hXlt
  generalize hs1 : (ntS0 s X).setState (ntLoc c s X A).origSid
    { (ntS0 s X).state (ntLoc c s X A).origSid with plInd := (⟨sr, rl'.rhs.length, k⟩ : Item).origin } = s1
  have hupd : StsUpd s.states s1.states X { s.state X with pos := (s.state X).pos - 1, plInd := k } := by
    have u1 : StsUpd s.states (ntS0 s X).states X _ := StsUpd.set _ hXlt
    have u2 := StsUpd.set (sts := (ntS0 s X).states) { (ntS0 s X).state X with plInd := k } hsz0
    rw [hs0] at u2
    rw [← hs1]
    show StsUpd s.states ((ntS0 s X).states.set! X { (ntS0 s X).state X with plInd := k }) X _
    rw [hs0]
    exact u1.trans u2
  have hadv := hgood.advance (s' := s1)
    (st' := { s.state X with pos := (s.state X).pos - 1, plInd := k }) hwf hst
    (by rw [est]; exact hr) (by rw [est]; exact hpos)
    (by rw [est]; exact hsym) (k := k) (by rw [est]; exact hE2)
    (fun ho => by rw [est, hd] at ho; cases ho) hupd rfl rfl rfl rfl rfl rfl
    (fun _ => rfl) (by rw [← hs1]; rfl) (by rw [← hs1]; rfl) (by rw [← hs1]; rfl) (by rw [← hs1]; rfl)
  rw [est, hd] at hadv
  simp only [Option.map_some] at hadv
  have hs1X : s1.states.getD X default = { s.state X with pos := (s.state X).pos - 1, plInd := k } :=
    hupd.same
  have hmem1 : X ∈ s1.stack := by rw [← hs1]; exact hXmem
  obtain ⟨rl1, hX1⟩ := hadv.states X hmem1
  have hrl1 : rl1 = rl0 := by
    have := hX1.hr; rw [hs1X] at this
    have this' : g.rules[(s.state X).rule]? = some rl1 := this
    rw [hr] at this'; injection this' with this'; exact this'.symm
  subst hrl1
  have hpp1 : (s.state X).pos - 1 + 1 = (s.state X).pos := by omega
  have hcur : CurOK g ok toks s1 (G.setSp X ((s.state X).pos - 1) k) X rl1 A d k (s.state X).plInd := by
    refine ⟨hmem1, hX1, by rw [hs1X]; exact hsym, by rw [hs1X]; exact hd, by rw [hs1X]; exact G.setSp_same _ _ _,
      ?_⟩
    rw [hs1X]
    show (G.setSp X ((s.state X).pos - 1) k).ssp X ((s.state X).pos - 1 + 1) = _
    rw [hpp1, G.setSp_other _ _ _ _ _ (Or.inr (by omega))]
    exact (hX0.item (by rw [est]; exact hpos)).2
  have hpar1 : s1.states.getD (s.state X).parent default = s.states.getD (s.state X).parent default :=
    hupd.other _ hX0.parLt
  have hplace : placeOfSt s1.states (s1.states.getD X default) d = placeOfSt s.states (s.state X) d := by
    rw [hs1X]; exact placeOfSt_congr rfl rfl rfl (by rw [hpar1])
  have hpp : tailPlace (s1.states.getD X default).anode (pa, (ntLoc c s X A).parentDisp) d =
      placeOfSt s1.states (s1.states.getD X default) d := by
    rw [hplace, hs1X]
    unfold tailPlace placeOfSt
    cases han : (s.state X).anode with
    | some a => simp [han]
    | none =>
      simp only [han]
      have : (s.states.getD (s.state X).parent default).anode = some pa := hpa
      rw [this]; rfl
  show ∃ G', LoopOK g ok toks (ntLoc c s X A) rl1 A d pa
    (candTail c (ntLoc c s X A) ⟨sr, rl'.rhs.length, k⟩ (pa, (ntLoc c s X A).parentDisp) d
      (s1, [], X, (s1.states.getD X default).anode)).1 G'
    (candTail c (ntLoc c s X A) ⟨sr, rl'.rhs.length, k⟩ (pa, (ntLoc c s X A).parentDisp) d
      (s1, [], X, (s1.states.getD X default).anode)).2
  obtain ⟨G2, h1, h2, h3⟩ := candTail_good (os := []) (L := ntLoc c s X A) hc hwf hadv hcur
    (Or.inr (by rw [hplace])) hr' hlhs hE hpp (by rw [hs1X]; rfl) rfl
  refine ⟨G2, ?_⟩
  rw [h3]
  generalize (candTail c (ntLoc c s X A) ⟨sr, rl'.rhs.length, k⟩ (pa, (ntLoc c s X A).parentDisp) d
      (s1, [], X, (s1.states.getD X default).anode)).1 = s2 at h1 h2 ⊢
  have hlt1 : X < s1.states.size := by have := hupd.size; omega
  have hXpar : (s.state X).parent < X := hX0.parLt
  have hPlt : (s.state X).parent < s1.states.size := by omega
  have hs2X : s2.states.getD X default = { s.state X with pos := (s.state X).pos - 1, plInd := k } := by
    rw [h2.sts _ hlt1, hs1X]
  have hs2P : s2.states.getD (s.state X).parent default = s.states.getD (s.state X).parent default := by
    rw [h2.sts _ hPlt, hpar1]
  refine ⟨h1, ?_, hr, hsym, hd, ?_, ?_⟩
  · intro x hx
    rcases hx with hx | hx
    · have hx' : X = x := hx.symm
      subst hx'
      show X ∈ s2.stack ∧ (s2.states.getD X default).rule = (s.state X).rule ∧
        (s2.states.getD X default).pos = (s.state X).pos - 1 ∧
        (s2.states.getD X default).orig = (s.state X).orig ∧
        (s2.states.getD X default).parent = (s2.states.getD X default).parent ∧
        (s2.states.getD X default).parentDisp = (s.state X).parentDisp ∧
        G2.ssp X ((s.state X).pos - 1 + 1) = (s.state X).plInd
      rw [hs2X, (h2.gh _ hlt1).1]
      refine ⟨h2.stack _ hmem1, rfl, rfl, rfl, rfl, rfl, ?_⟩
      have := hcur.he
      rw [hs1X] at this
      exact this
    · cases hx
  · show (s2.states.getD (s2.states.getD X default).parent default).anode = some pa
    rw [hs2X]
    show (s2.states.getD (s.state X).parent default).anode = some pa
    rw [hs2P]; exact hpa
  · intro a ha q d' hq ho
    have ha1 : (s2.states.getD X default).anode = some a := ha
    rw [hs2X] at ha1
    have ha' : (s.state X).anode = some a := ha1
    apply h2.kid (a, d')
    show getKid s1.heap a d' ≠ none
    have hh1 : s1.heap = s.heap := by rw [← hs1]; rfl
    rw [hh1]
    have hq' : (s.state X).pos - 1 < q := hq
    have hproc : Proc g s.states X (a, d') :=
      ⟨rl1, q, d', hr, by show (s.state X).pos ≤ q; omega, ho, by unfold placeOfSt; rw [est, ha']⟩
    rcases hgood.nn X hXmem (a, d') hproc (by simp) with h | ⟨z, hz, hxz, _⟩
    · exact h
    · have := hgood.top_max hst
      rw [hst] at hz
      rcases List.mem_cons.mp hz with rfl | hz
      · exact absurd hxz (Nat.lt_irrefl _)
      · have := this z hz; omega

end Yaep.MP
