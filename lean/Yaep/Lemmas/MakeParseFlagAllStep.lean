import Yaep.Lemmas.MakeParseFlagAllShape
import Yaep.Lemmas.MakeParseAmb
/-!
# The ambiguity flag, all parses, part 2: one iteration of the main loop, heap-free (any mode)
-/
namespace Yaep.MP
open Yaep

/-- pop: the parse states do not change -/
theorem step_pop_shape {c : Ctx} {s : St} {sid : Nat} {rest : List Nat}
    (hst : s.stack = sid :: rest) (hpos : (s.state sid).pos = 0) :
    (step c s).states = s.states ∧ (step c s).stack = rest ∧ (step c s).amb = s.amb := by
  cases han : (s.state sid).anode with
  | none =>
    unfold step
    simp only [hst, hpos, han]
    simp only [beq_self_eq_true, if_true]
    split
    · split <;> exact ⟨rfl, rfl, rfl⟩
    · exact ⟨rfl, rfl, rfl⟩
  | some an =>
    rw [step_pop_some hst hpos han]
    obtain ⟨_, p2, p3, _⟩ := popFold_proj an (List.range (c.rule (s.state sid).rule).transLen)
      { s with stack := rest }
    exact ⟨p2, p3, popFold_amb _ _ _⟩

theorem stepTerm_shape (c : Ctx) (sid : Nat) (st : PState) (pos : Nat) (disp : Option Nat) (a : Nat)
    (pa : Option Nat) (s : St) :
    (stepTerm c sid st pos disp a pa s).states =
      s.states.set! sid { st with pos := pos, plInd := if pos != 0 then st.plInd - 1 else st.plInd } ∧
    (stepTerm c sid st pos disp a pa s).stack = s.stack ∧
    (stepTerm c sid st pos disp a pa s).amb = s.amb := by
  unfold stepTerm
  cases pa with
  | none => exact ⟨rfl, rfl, rfl⟩
  | some p =>
    cases disp with
    | none => exact ⟨rfl, rfl, rfl⟩
    | some d =>
      simp only
      split
      · exact ⟨rfl, rfl, rfl⟩
      · split <;> exact ⟨rfl, rfl, rfl⟩

/-- terminal before the dot: the top state moves its dot and its list index -/
theorem step_term_shape {c : Ctx} {s : St} {sid : Nat} {rest : List Nat} {a : Nat}
    (hst : s.stack = sid :: rest) (hpos : (s.state sid).pos ≠ 0)
    (hsym : (c.rule (s.state sid).rule).rhs.getD ((s.state sid).pos - 1) (.t 0) = .t a) :
    (step c s).states = s.states.set! sid
      { s.state sid with pos := (s.state sid).pos - 1,
                         plInd := if (s.state sid).pos - 1 != 0 then (s.state sid).plInd - 1
                                  else (s.state sid).plInd } ∧
    (step c s).stack = s.stack ∧ (step c s).amb = s.amb := by
  rw [step_term hst hpos hsym]
  exact stepTerm_shape ..

/-- entry `i` of the reduce vector of `A` in the current set passes the check loop -/
def Passes (c : Ctx) (s : St) (sid A : Nat) (i : Nat) : Prop :=
  i ∈ reduces c (c.sets.getD (s.state sid).plInd #[]) A ∧
  checkFound c (ntLoc c s sid A)
    ((c.sets.getD (s.state sid).plInd #[]).getD i default).origin = true

/-- nonterminal before the dot: the shape of the parse states after the candidate loop, and the
flag: it is set iff it was set or two different entries of the reduce vector pass the check loop -/
theorem step_nt_shape {c : Ctx} {s : St} {sid : Nat} {rest : List Nat} {A : Nat}
    (hst : s.stack = sid :: rest) (hpos : (s.state sid).pos ≠ 0)
    (hsym : (c.rule (s.state sid).rule).rhs.getD ((s.state sid).pos - 1) (.t 0) = .n A)
    (hsid : sid < s.states.size) :
    (∃ n, CandShape (ntLoc c s sid A) (c.sets.getD (s.state sid).plInd #[]) (Passes c s sid A)
      { s.state sid with pos := (s.state sid).pos - 1 } (ntS0 s sid).states (sid :: rest) (step c s) n ∧
      (n = 0 → (step c s).bad = true)) ∧
    ((step c s).amb = true ↔ s.amb = true ∨ ∃ i1 i2, i1 ≠ i2 ∧ Passes c s sid A i1 ∧ Passes c s sid A i2) := by
  rw [step_nt' hst hpos hsym]
  have h0 : CandShape (ntLoc c s sid A) (c.sets.getD (s.state sid).plInd #[]) (Passes c s sid A)
      { s.state sid with pos := (s.state sid).pos - 1 } (ntS0 s sid).states (sid :: rest) (ntS0 s sid) 0 := by
    refine ⟨Nat.le_refl _, fun _ _ _ => rfl, ⟨[], by show s.stack = _; rw [hst]; rfl, fun _ h => by cases h⟩,
      Or.inl ⟨rfl, ?_⟩, fun y h1 h2 => by omega⟩
    exact state_setState_same _ hsid
  have hsz : (ntLoc c s sid A).origSid < (ntS0 s sid).states.size := by
    show sid < (s.states.set! sid _).size
    simpa using hsid
  have hshape := candLoop_shape (c := c) hsz (reduces c (c.sets.getD (s.state sid).plInd #[]) A) 0 []
    (ntS0 s sid) (fun i hi hf => ⟨hi, hf⟩) h0
  constructor
  · refine ⟨(candLoop c (ntLoc c s sid A) (c.sets.getD (s.state sid).plInd #[])
      (reduces c (c.sets.getD (s.state sid).plInd #[]) A) 0 [] (ntS0 s sid)).2, ?_, ?_⟩
    · split
      · exact hshape.congr rfl rfl
      · exact hshape
    · intro hn
      rw [hn]
      rfl
  · have hamb : ∀ (x : St × Nat), (if (x.2 == 0) = true then { x.1 with bad := true } else x.1 : St).amb = x.1.amb := by
      intro x; split <;> rfl
    rw [hamb]
    constructor
    · intro h
      rcases candLoop_amb_src _ 0 [] _ (reduces_nodup _ _ _) h with h1 | ⟨h1, _⟩ | ⟨i1, m1, i2, m2, hne, f1, f2⟩
      · exact Or.inl h1
      · exact absurd rfl h1
      · exact Or.inr ⟨i1, i2, hne, ⟨m1, f1⟩, ⟨m2, f2⟩⟩
    · rintro (h | ⟨i1, i2, hne, ⟨m1, f1⟩, ⟨m2, f2⟩⟩)
      · exact candLoop_amb_mono _ _ _ _ h
      · exact candLoop_amb_two _ 0 [] _ i1 i2 m1 m2 hne f1 f2

end Yaep.MP
