import Yaep.Lemmas.Forest
/-!
# Helper lemmas for C04: cost accumulation and pruning to minimal cost
-/
namespace Yaep

/-! ## `accum`, `fieldSum`, `totalCost` -/

theorem fieldSum_cons (t : Tree) (ts : List Tree) :
    Tree.fieldSum (t :: ts) = t.field + Tree.fieldSum ts := by
  cases t <;> simp [Tree.fieldSum, Tree.field]

theorem accumList_eq_map (ts : List Tree) : Tree.accumList ts = ts.map Tree.accum := by
  induction ts with
  | nil => simp [Tree.accumList]
  | cons t ts ih => simp [Tree.accumList, ih]

mutual
theorem accum_field_eq : ∀ t : Tree, t.accum.field = t.totalCost
  | .nil => by simp [Tree.accum, Tree.field, Tree.totalCost]
  | .error => by simp [Tree.accum, Tree.field, Tree.totalCost]
  | .term _ _ => by simp [Tree.accum, Tree.field, Tree.totalCost]
  | .anode n c ks => by
    simp only [Tree.accum, Tree.field, Tree.totalCost, fieldSum_accumList ks]
theorem fieldSum_accumList : ∀ ts : List Tree,
    Tree.fieldSum (Tree.accumList ts) = Tree.totalCostList ts
  | [] => by simp [Tree.accumList, Tree.fieldSum, Tree.totalCostList]
  | t :: ts => by
    rw [Tree.accumList, fieldSum_cons, accum_field_eq t, fieldSum_accumList ts,
      Tree.totalCostList]
end

theorem accum_anode (n : String) (c : Nat) (ks : List Tree) :
    (Tree.anode n c ks).accum = .anode n (c + Tree.totalCostList ks) (Tree.accumList ks) := by
  simp only [Tree.accum, fieldSum_accumList]

mutual
theorem sub_accum : ∀ (t : Tree) {s : Tree}, Tree.Sub s t.accum → ∃ u, Tree.Sub u t ∧ s = u.accum
  | .nil, s, h => by
    simp only [Tree.accum] at h; cases h; exact ⟨.nil, .refl _, by simp [Tree.accum]⟩
  | .error, s, h => by
    simp only [Tree.accum] at h; cases h; exact ⟨.error, .refl _, by simp [Tree.accum]⟩
  | .term c a, s, h => by
    simp only [Tree.accum] at h; cases h; exact ⟨.term c a, .refl _, by simp [Tree.accum]⟩
  | .anode n c ks, s, h => by
    rw [accum_anode] at h
    cases h with
    | refl => exact ⟨.anode n c ks, .refl _, (accum_anode n c ks).symm⟩
    | kid hk hs =>
      obtain ⟨u, k, hk, hu, e⟩ := sub_accumList ks hk hs
      exact ⟨u, .kid hk hu, e⟩
theorem sub_accumList : ∀ (ts : List Tree) {s k' : Tree}, k' ∈ Tree.accumList ts →
    Tree.Sub s k' → ∃ u k, k ∈ ts ∧ Tree.Sub u k ∧ s = u.accum
  | [], s, k', hk, _ => by simp [Tree.accumList] at hk
  | t :: ts, s, k', hk, hs => by
    simp only [Tree.accumList, List.mem_cons] at hk
    rcases hk with rfl | hk
    · obtain ⟨u, hu, e⟩ := sub_accum t hs
      exact ⟨u, t, by simp, hu, e⟩
    · obtain ⟨u, k, hk, hu, e⟩ := sub_accumList ts hk hs
      exact ⟨u, k, by simp [hk], hu, e⟩
end

/-! ## minimum of a list -/

theorem foldl_min_le_init (xs : List Nat) (x : Nat) : xs.foldl min x ≤ x := by
  induction xs generalizing x with
  | nil => simp
  | cons y ys ih => exact Nat.le_trans (ih _) (Nat.min_le_left _ _)

theorem foldl_min_le_mem (xs : List Nat) (x : Nat) {y : Nat} (h : y ∈ xs) : xs.foldl min x ≤ y := by
  induction xs generalizing x with
  | nil => simp at h
  | cons z zs ih =>
    rcases List.mem_cons.1 h with rfl | h
    · show zs.foldl min (min x y) ≤ y
      exact Nat.le_trans (foldl_min_le_init _ _) (Nat.min_le_right _ _)
    · exact ih _ h

theorem foldl_min_mem (xs : List Nat) (x : Nat) : xs.foldl min x = x ∨ xs.foldl min x ∈ xs := by
  induction xs generalizing x with
  | nil => simp
  | cons z zs ih =>
    simp only [List.foldl_cons]
    rcases ih (min x z) with h | h
    · rw [h]
      rcases Nat.le_total x z with hx | hx
      · left; exact Nat.min_eq_left hx
      · right; rw [Nat.min_eq_right hx]; simp
    · right; exact List.mem_cons_of_mem _ h

theorem minNat_le {xs : List Nat} {x : Nat} (h : x ∈ xs) : minNat xs ≤ x := by
  cases xs with
  | nil => simp at h
  | cons y ys =>
    rcases List.mem_cons.1 h with rfl | h
    · exact foldl_min_le_init _ _
    · exact foldl_min_le_mem _ _ h

theorem minNat_mem {xs : List Nat} (h : xs ≠ []) : minNat xs ∈ xs := by
  cases xs with
  | nil => exact absurd rfl h
  | cons y ys =>
    rcases foldl_min_mem ys y with h | h
    · simp [minNat, h]
    · exact List.mem_cons_of_mem _ h

/-! ## `prodAll` -/

theorem prodAll_ne_nil {α : Type} : ∀ {ls : List (List α)}, (∀ xs ∈ ls, xs ≠ []) → prodAll ls ≠ []
  | [], _ => by simp [prodAll]
  | xs :: rest, h => by
    have h1 : xs ≠ [] := h xs (by simp)
    have h2 : prodAll rest ≠ [] := prodAll_ne_nil fun ys hy => h ys (by simp [hy])
    obtain ⟨x, xs', rfl⟩ := List.exists_cons_of_ne_nil h1
    obtain ⟨r, rs, hr⟩ := List.exists_cons_of_ne_nil h2
    simp [prodAll, hr]

theorem prodAll_length_one {α : Type} : ∀ {ls : List (List α)}, (∀ xs ∈ ls, xs.length = 1) →
    (prodAll ls).length = 1
  | [], _ => by simp [prodAll]
  | xs :: rest, h => by
    have h1 : xs.length = 1 := h xs (by simp)
    have h2 : (prodAll rest).length = 1 := prodAll_length_one fun ys hy => h ys (by simp [hy])
    match xs, h1 with
    | [x], _ => simp [prodAll, h2]

/-! ## pruning -/

theorem pruneList_eq_map (all : Bool) (ns : List Node) : pruneList all ns = ns.map (prune all) := by
  induction ns with
  | nil => simp [pruneList]
  | cons n ns ih => simp [pruneList, ih]

/-- minimal cost computed for a list of children -/
def sumMin (all : Bool) (ks : List Node) : Nat := (ks.map fun k => (prune all k).2).sum
/-- the pruned children -/
def prunedKids (all : Bool) (ks : List Node) : List Node := ks.map fun k => (prune all k).1

theorem prune_anode (all : Bool) (n : String) (c : Nat) (ks : List Node) :
    prune all (.anode n c ks) =
      (.anode n (c + sumMin all ks) (prunedKids all ks), c + sumMin all ks) := by
  simp [prune, pruneList_eq_map, sumMin, prunedKids, Function.comp_def]

theorem prune_alt (all : Bool) (as : List Node) :
    prune all (.alt as) =
      (.alt (keepMin all (as.map (prune all))), minNat (as.map fun a => (prune all a).2)) := by
  simp [prune, pruneList_eq_map, Function.comp_def]

/-- what the induction proves about every (total) forest -/
structure Good (all : Bool) (n : Node) : Prop where
  le : ∀ t ∈ denote n, (prune all n).2 ≤ t.totalCost
  sound : ∀ t' ∈ denote (prune all n).1,
    ∃ t ∈ denote n, t.totalCost = (prune all n).2 ∧ t' = t.accum
  ne : denote (prune all n).1 ≠ []
  complete : all = true → ∀ t ∈ denote n, t.totalCost = (prune all n).2 →
    t.accum ∈ denote (prune all n).1
  one : all = false → (denote (prune all n).1).length = 1

theorem good_nil (all : Bool) : Good all .nil := by
  constructor <;> simp [prune, denote, Tree.accum, Tree.totalCost]
theorem good_err (all : Bool) : Good all .err := by
  constructor <;> simp [prune, denote, Tree.accum, Tree.totalCost]
theorem good_term (all : Bool) (c a : Int) : Good all (.term c a) := by
  constructor <;> simp [prune, denote, Tree.accum, Tree.totalCost]

theorem kids_le {all : Bool} : ∀ {ks : List Node} {l : List Tree}, (∀ k ∈ ks, Good all k) →
    Pointwise (fun x k => x ∈ denote k) l ks → sumMin all ks ≤ Tree.totalCostList l
  | _, _, _, .nil => by simp [sumMin, Tree.totalCostList]
  | k :: ks, x :: l, h, .cons hx hl => by
    have h1 := (h k (by simp)).le x hx
    have h2 := kids_le (fun k' hk' => h k' (by simp [hk'])) hl
    simp only [sumMin, List.map_cons, List.sum_cons, Tree.totalCostList] at h2 ⊢
    omega

theorem kids_eq {all : Bool} : ∀ {ks : List Node} {l : List Tree}, (∀ k ∈ ks, Good all k) →
    Pointwise (fun x k => x ∈ denote k) l ks → Tree.totalCostList l = sumMin all ks →
    Pointwise (fun x k => x ∈ denote k ∧ x.totalCost = (prune all k).2) l ks
  | _, _, _, .nil, _ => .nil
  | k :: ks, x :: l, h, .cons hx hl, e => by
    have hks : ∀ k' ∈ ks, Good all k' := fun k' hk' => h k' (by simp [hk'])
    have h1 := (h k (by simp)).le x hx
    have h2 := kids_le hks hl
    simp only [sumMin, List.map_cons, List.sum_cons, Tree.totalCostList] at h2 e
    exact .cons ⟨hx, by omega⟩ (kids_eq hks hl (by simp only [sumMin]; omega))

theorem kids_complete {all : Bool} (ha : all = true) : ∀ {ks : List Node} {l : List Tree},
    (∀ k ∈ ks, Good all k) →
    Pointwise (fun x k => x ∈ denote k ∧ x.totalCost = (prune all k).2) l ks →
    Pointwise (fun x k => x ∈ denote k) (Tree.accumList l) (prunedKids all ks)
  | _, _, _, .nil => by simp only [Tree.accumList, prunedKids, List.map_nil]; exact .nil
  | k :: ks, x :: l, h, .cons hx hl => by
    simp only [Tree.accumList, prunedKids, List.map_cons]
    exact .cons ((h k (by simp)).complete ha x hx.1 hx.2)
      (kids_complete ha (fun k' hk' => h k' (by simp [hk'])) hl)

theorem kids_sound {all : Bool} : ∀ {ks : List Node} {l' : List Tree}, (∀ k ∈ ks, Good all k) →
    Pointwise (fun x k => x ∈ denote k) l' (prunedKids all ks) →
    ∃ l, Pointwise (fun x k => x ∈ denote k) l ks ∧ Tree.totalCostList l = sumMin all ks ∧
      l' = Tree.accumList l
  | [], l', _, hp => by
    simp only [prunedKids, List.map_nil] at hp
    cases hp
    exact ⟨[], .nil, by simp [sumMin, Tree.totalCostList], by simp [Tree.accumList]⟩
  | k :: ks, l', h, hp => by
    simp only [prunedKids, List.map_cons] at hp
    cases hp with
    | cons hx hl =>
      obtain ⟨t, ht, hc, rfl⟩ := (h k (by simp)).sound _ hx
      obtain ⟨l, hl1, hl2, rfl⟩ := kids_sound (fun k' hk' => h k' (by simp [hk'])) hl
      refine ⟨t :: l, .cons ht hl1, ?_, by simp [Tree.accumList]⟩
      simp only [sumMin, List.map_cons, List.sum_cons, Tree.totalCostList] at hl2 ⊢
      omega

theorem good_anode {all : Bool} (n : String) (c : Nat) {ks : List Node}
    (h : ∀ k ∈ ks, Good all k) : Good all (.anode n c ks) := by
  have hden : denoteList (prunedKids all ks) =
      ks.map (fun k => denote (prune all k).1) := by
    simp [prunedKids, denoteList_eq_map, Function.comp_def]
  constructor
  · intro t ht
    obtain ⟨l, rfl, hl⟩ := mem_denote_anode_iff.1 ht
    have := kids_le h hl
    simp only [prune_anode, Tree.totalCost]; omega
  · intro t' ht'
    rw [prune_anode] at ht'
    obtain ⟨l', rfl, hl'⟩ := mem_denote_anode_iff.1 ht'
    obtain ⟨l, hl1, hl2, rfl⟩ := kids_sound h hl'
    refine ⟨.anode n c l, mem_denote_anode_iff.2 ⟨l, rfl, hl1⟩, ?_, ?_⟩
    · simp only [prune_anode, Tree.totalCost, hl2]
    · rw [accum_anode, hl2]
  · rw [prune_anode]
    simp only [denote, hden]
    intro hnil
    have := List.map_eq_nil_iff.1 hnil
    refine prodAll_ne_nil ?_ this
    intro xs hxs
    obtain ⟨k, hk, rfl⟩ := List.mem_map.1 hxs
    exact (h k hk).ne
  · intro ha t ht hc
    obtain ⟨l, rfl, hl⟩ := mem_denote_anode_iff.1 ht
    simp only [prune_anode, Tree.totalCost] at hc
    have he : Tree.totalCostList l = sumMin all ks := by omega
    rw [prune_anode, accum_anode, he]
    exact mem_denote_anode_iff.2 ⟨_, rfl, kids_complete ha h (kids_eq h hl he)⟩
  · intro ha
    rw [prune_anode]
    simp only [denote, hden, List.length_map]
    apply prodAll_length_one
    intro xs hxs
    obtain ⟨k, hk, rfl⟩ := List.mem_map.1 hxs
    exact (h k hk).one ha

theorem mem_keepMin {all : Bool} {as : List Node} {a' : Node}
    (h : a' ∈ keepMin all (as.map (prune all))) :
    ∃ a ∈ as, a' = (prune all a).1 ∧
      (prune all a).2 = minNat (as.map fun a => (prune all a).2) := by
  have h' : a' ∈ ((as.map (prune all)).filter fun p =>
      p.2 == minNat ((as.map (prune all)).map (·.2))).map (·.1) := by
    unfold keepMin at h
    cases all
    · exact List.mem_of_mem_take (by simpa using h)
    · simpa using h
  simp only [List.mem_map, List.mem_filter, List.map_map, Function.comp_def] at h'
  obtain ⟨p, ⟨⟨a, ha, rfl⟩, hm⟩, rfl⟩ := h'
  exact ⟨a, ha, rfl, by simpa using hm⟩

theorem mem_keepMin_true {as : List Node} {a : Node} (ha : a ∈ as)
    (hm : (prune true a).2 = minNat (as.map fun a => (prune true a).2)) :
    (prune true a).1 ∈ keepMin true (as.map (prune true)) := by
  simp only [keepMin, if_true, List.mem_map, List.mem_filter, List.map_map, Function.comp_def]
  exact ⟨prune true a, ⟨⟨a, ha, rfl⟩, by simpa using hm⟩, rfl⟩

theorem keepMin_ne_nil {all : Bool} {as : List Node} (h : as ≠ []) :
    keepMin all (as.map (prune all)) ≠ [] := by
  have hne : (as.map fun a => (prune all a).2) ≠ [] := by simpa using h
  obtain ⟨a, ha, hm⟩ := List.mem_map.1 (minNat_mem hne)
  have hf : (prune all a).1 ∈ ((as.map (prune all)).filter fun p =>
      p.2 == minNat ((as.map (prune all)).map (·.2))).map (·.1) := by
    simp only [List.mem_map, List.mem_filter, List.map_map, Function.comp_def]
    exact ⟨prune all a, ⟨⟨a, ha, rfl⟩, by simpa using hm⟩, rfl⟩
  unfold keepMin
  cases all
  · simp only [Bool.false_eq_true, if_false]
    intro hnil
    rw [List.take_eq_nil_iff] at hnil
    rcases hnil with h0 | h0
    · exact absurd h0 (by decide)
    · rw [h0] at hf; simp at hf
  · simp only [if_true]
    intro hnil; rw [hnil] at hf; simp at hf

theorem keepMin_false_length {as : List Node} (h : as ≠ []) :
    ∃ a', keepMin false (as.map (prune false)) = [a'] := by
  have hne := keepMin_ne_nil (all := false) h
  unfold keepMin at hne ⊢
  simp only [Bool.false_eq_true, if_false] at hne ⊢
  generalize (((as.map (prune false)).filter fun p =>
      p.2 == minNat ((as.map (prune false)).map (·.2))).map (·.1)) = L at hne ⊢
  match L, hne with
  | x :: _, _ => exact ⟨x, by simp⟩

theorem good_alt {all : Bool} {as : List Node} (hne : as ≠ [])
    (h : ∀ a ∈ as, Good all a) : Good all (.alt as) := by
  constructor
  · intro t ht
    obtain ⟨a, ha, hta⟩ := mem_denote_alt_iff.1 ht
    rw [prune_alt]
    exact Nat.le_trans (minNat_le (List.mem_map.2 ⟨a, ha, rfl⟩)) ((h a ha).le t hta)
  · intro t' ht'
    rw [prune_alt] at ht' ⊢
    obtain ⟨a', ha', hta'⟩ := mem_denote_alt_iff.1 ht'
    obtain ⟨a, ha, rfl, hm⟩ := mem_keepMin ha'
    obtain ⟨t, ht, hc, rfl⟩ := (h a ha).sound _ hta'
    exact ⟨t, mem_denote_alt_iff.2 ⟨a, ha, ht⟩, by rw [hc, hm], rfl⟩
  · rw [prune_alt]
    obtain ⟨a', rest, hk⟩ := List.exists_cons_of_ne_nil (keepMin_ne_nil (all := all) hne)
    have ha' : a' ∈ keepMin all (as.map (prune all)) := by rw [hk]; simp
    obtain ⟨a, ha, rfl, -⟩ := mem_keepMin ha'
    obtain ⟨t, tl, ht⟩ := List.exists_cons_of_ne_nil (h a ha).ne
    intro hnil
    have : t ∈ denote (.alt (keepMin all (as.map (prune all)))) :=
      mem_denote_alt_iff.2 ⟨_, ha', by rw [ht]; simp⟩
    rw [hnil] at this; simp at this
  · intro hall t ht hc
    subst hall
    obtain ⟨a, ha, hta⟩ := mem_denote_alt_iff.1 ht
    rw [prune_alt] at hc ⊢
    have h1 := (h a ha).le t hta
    have h2 : minNat (as.map fun a => (prune true a).2) ≤ (prune true a).2 :=
      minNat_le (List.mem_map.2 ⟨a, ha, rfl⟩)
    have hm : (prune true a).2 = minNat (as.map fun a => (prune true a).2) := by omega
    exact mem_denote_alt_iff.2
      ⟨_, mem_keepMin_true ha hm, (h a ha).complete rfl t hta (by omega)⟩
  · intro hall
    subst hall
    rw [prune_alt]
    obtain ⟨a', hk⟩ := keepMin_false_length hne
    have ha' : a' ∈ keepMin false (as.map (prune false)) := by rw [hk]; simp
    obtain ⟨a, ha, rfl, -⟩ := mem_keepMin ha'
    simp only [hk, denote, denoteList, List.flatten_cons, List.flatten_nil, List.append_nil]
    exact (h a ha).one rfl

mutual
theorem good_of_total (all : Bool) : ∀ n : Node, n.total = true → Good all n
  | .nil, _ => good_nil all
  | .err, _ => good_err all
  | .term c a, _ => good_term all c a
  | .anode n c ks, h => good_anode n c (goodList_of_total all ks (by simpa [Node.total] using h))
  | .alt as, h => by
    simp only [Node.total, Bool.and_eq_true, Bool.not_eq_true'] at h
    exact good_alt (by intro e; simp [e] at h) (goodList_of_total all as h.2)
theorem goodList_of_total (all : Bool) : ∀ ns : List Node, Node.totalList ns = true →
    ∀ n ∈ ns, Good all n
  | [], _ => by simp
  | n :: ns, h => by
    simp only [Node.totalList, Bool.and_eq_true] at h
    intro m hm
    rcases List.mem_cons.1 hm with e | hm
    · exact e ▸ good_of_total all n h.1
    · exact goodList_of_total all ns h.2 m hm
end

end Yaep
