import Yaep.Lemmas.EtfSets
import Yaep.Lemmas.ListSets
/-!
# The performance input of the arithmetic-expression family is a sentence

The project's performance case repeats the 8 tokens `a + a * ( a ) +` `k` times and appends `a`
(`etfPerfInput k`, `8 k + 1` tokens).  It is a sentence of `etfGrammar`; hence (levels 0 and 1)
accepted: all `8 k + 3` sets are built.
-/
namespace Yaep.ETF
open Yaep

/-- `a + a * ( a ) +` -/
def etfBlock : List Nat := [2, 0, 2, 1, 3, 2, 4, 0]

def etfBlocks (k : Nat) : List Nat := (List.replicate k etfBlock).flatten

/-- `(a + a * ( a ) +)^k a`: what the performance case of the project feeds to the parser -/
def etfPerfInput (k : Nat) : List Nat := etfBlocks k ++ [2]

/-- `(a + a * ( a ) + a)^k`, the fragment of 9 tokens repeated (for `k ≥ 2` not a sentence: `a a`) -/
def etfRepInput (k : Nat) : List Nat := (List.replicate k [2, 0, 2, 1, 3, 2, 4, 0, 2]).flatten

theorem etfBlocks_succ (k : Nat) : etfBlocks (k + 1) = etfBlocks k ++ etfBlock := by
  unfold etfBlocks
  rw [List.replicate_succ', List.flatten_append]
  simp

theorem etfPerfInput_succ (k : Nat) :
    etfPerfInput (k + 1) = etfPerfInput k ++ [0, 2, 1, 3, 2, 4, 0, 2] := by
  unfold etfPerfInput
  rw [etfBlocks_succ]
  simp [etfBlock]

theorem etfPerfInput_length (k : Nat) : (etfPerfInput k).length = 8 * k + 1 := by
  induction k with
  | zero => rfl
  | succ k ih => rw [etfPerfInput_succ, List.length_append, ih]; simp; omega

/-! ## derivations -/

theorem der_F_a : Der etfGrammar [Sym.n 3] [2] :=
  Der.nt' (g := etfGrammar) (r := 5) rfl rfl (Der.term Der.nil) Der.nil rfl

theorem der_T_of_F {u : List Nat} (h : Der etfGrammar [Sym.n 3] u) : Der etfGrammar [Sym.n 2] u :=
  Der.nt' (g := etfGrammar) (r := 4) rfl rfl h Der.nil (by simp)

theorem der_E_of_T {u : List Nat} (h : Der etfGrammar [Sym.n 2] u) : Der etfGrammar [Sym.n 0] u :=
  Der.nt' (g := etfGrammar) (r := 2) rfl rfl h Der.nil (by simp)

theorem der_E_plus {u v : List Nat} (h1 : Der etfGrammar [Sym.n 0] u)
    (h2 : Der etfGrammar [Sym.n 2] v) : Der etfGrammar [Sym.n 0] (u ++ 0 :: v) :=
  Der.nt' (g := etfGrammar) (r := 1) rfl rfl
    (Der.append (α := [Sym.n 0]) (β := [Sym.t 0, Sym.n 2]) h1 (Der.term h2)) Der.nil (by simp)

theorem der_T_times {u v : List Nat} (h1 : Der etfGrammar [Sym.n 2] u)
    (h2 : Der etfGrammar [Sym.n 3] v) : Der etfGrammar [Sym.n 2] (u ++ 1 :: v) :=
  Der.nt' (g := etfGrammar) (r := 3) rfl rfl
    (Der.append (α := [Sym.n 2]) (β := [Sym.t 1, Sym.n 3]) h1 (Der.term h2)) Der.nil (by simp)

theorem der_F_paren {u : List Nat} (h : Der etfGrammar [Sym.n 0] u) :
    Der etfGrammar [Sym.n 3] (3 :: (u ++ [4])) :=
  Der.nt' (g := etfGrammar) (r := 6) rfl rfl
    (Der.term (Der.append (α := [Sym.n 0]) (β := [Sym.t 4]) h (Der.term Der.nil))) Der.nil
    (by simp)

/-- `a * ( a )` -/
theorem der_T_block : Der etfGrammar [Sym.n 2] [2, 1, 3, 2, 4] :=
  der_T_times (der_T_of_F der_F_a) (der_F_paren (der_E_of_T (der_T_of_F der_F_a)))

theorem etfPerfInput_sentence (k : Nat) : Sentence etfGrammar (etfPerfInput k) := by
  show Der etfGrammar [Sym.n 0] (etfPerfInput k)
  induction k with
  | zero => exact der_E_of_T (der_T_of_F der_F_a)
  | succ k ih =>
    rw [etfPerfInput_succ]
    have h1 := der_E_plus ih der_T_block
    have h2 := der_E_plus h1 (der_T_of_F der_F_a)
    have e : etfPerfInput k ++ [0, 2, 1, 3, 2, 4, 0, 2] =
        (etfPerfInput k ++ 0 :: [2, 1, 3, 2, 4]) ++ 0 :: [2] := by simp
    rw [e]; exact h2

/-- at levels 0 and 1 the performance input is accepted: all `8 k + 3` sets are built -/
theorem etfPerfInput_accepted {la : Nat} (hla : la ≤ 1) (k : Nat) :
    (buildPL etfGrammar la (etfPerfInput k)).1 = none ∧
    (buildPL etfGrammar la (etfPerfInput k)).2.length = 8 * k + 3 := by
  have hd := der_axiom_of_sentence (etfPerfInput_sentence k)
  have hacc : (buildPL etfGrammar la (etfPerfInput k)).1 = none := by
    rw [buildPL_none_iff]
    rcases Nat.le_one_iff_eq_zero_or_eq_one.mp hla with h | h
    · subst h; exact trans_of_der_axiom etf_wf.1 (laFilter_zero _ _ _) hd
    · subst h; exact (la1_of_der_axiom etf_wf.1 etf_wf.2 hd).2
  refine ⟨hacc, ?_⟩
  rw [((buildPL_spec etfGrammar la (etfPerfInput k)).2.1 hacc).1, List.length_append,
    etfPerfInput_length]
  rfl

end Yaep.ETF
