import Yaep.Lemmas.PruneCPass1b
/-!
# The first pass: the loop over the alternatives of a chain
-/
namespace Yaep.PC
open Yaep

@[simp] theorem collect_heap (free : Bool) (s : PSt) (n : Nat) : (collect free s n).heap = s.heap := by
  unfold collect; split <;> rfl
@[simp] theorem collect_memo (free : Bool) (s : PSt) (n : Nat) : (collect free s n).memo = s.memo := by
  unfold collect; split <;> rfl
@[simp] theorem collect_oof (free : Bool) (s : PSt) (n : Nat) : (collect free s n).oof = s.oof := by
  unfold collect; split <;> rfl
theorem collect_coll_mono (free : Bool) (s : PSt) (n : Nat) :
    ∀ i, i ∈ s.coll → i ∈ (collect free s n).coll := by
  intro i hi; unfold collect; split
  · exact Array.mem_push_of_mem _ hi
  · exact hi
theorem collect_coll_mem (s : PSt) (n : Nat) : n ∈ (collect true s n).coll := by
  simp [collect]
theorem collect_coll_cases (free : Bool) (s : PSt) (n : Nat) :
    ∀ i, i ∈ (collect free s n).coll → i ∈ s.coll ∨ i = n := by
  intro i hi; unfold collect at hi; split at hi
  · simpa [Array.mem_push] using hi
  · exact Or.inl hi

section
variable {h0 : Array Cell} {rk hd : Nat → Nat} {one free : Bool}

theorem Frame.collect (s : PSt) (n r : Nat) : Frame rk hd s (collect free s n) r :=
  ⟨by simp, fun _ _ => by simp, fun _ _ => by simp, fun _ _ h => by simpa using h,
    collect_coll_mono free s n, fun _ h => by simpa using h, by simp⟩

theorem Inv.collect (wf : WfHeap h0 rk hd) {X : Nat → Prop} {s : PSt} (n : Nat)
    (hi : Inv h0 rk hd one free X s) : Inv h0 rk hd one free X (collect free s n) :=
  Inv.pres wf (by simp) (fun _ _ _ => by simp) (by simp) (collect_coll_mono free s n)
    (fun _ h => by simpa using h) hi

theorem res0_nonalt {k : Nat} (h : isAlt h0 k = false) : res0 h0 rk one k = k := by
  unfold res0
  unfold isAlt at h
  split
  · rename_i e; rw [e] at h; cases h
  · rfl

theorem keepFold_ne_nil (one : Bool) (cost : Nat → Nat) : ∀ (l : List Nat) (st : Nat × List Nat),
    st.2 ≠ [] → (keepFold one cost l st).2 ≠ []
  | [], _, h => h
  | j :: l, st, h => by
    apply keepFold_ne_nil one cost l
    unfold keepStep
    split
    · simp
    · split
      · simp
      · exact h

theorem keepStep_ne_nil (one : Bool) (st : Nat × List Nat) (j c : Nat) :
    (keepStep one st j c).2 ≠ [] ∨ False ∨ st.2 ≠ [] → (keepStep one st j c).2 ≠ [] := by
  intro _
  unfold keepStep
  split
  · simp
  · rename_i h
    split
    · simp
    · intro e; exact h (Or.inl e)

theorem keepFold_fst (one : Bool) (cost : Nat → Nat) : ∀ (l : List Nat) (st : Nat × List Nat),
    st.2 ≠ [] → (keepFold one cost l st).1 = (l.map cost).foldl min st.1
  | [], _, _ => rfl
  | j :: l, st, h => by
    have hne : (keepStep one st j (cost j)).2 ≠ [] := keepStep_ne_nil one st j _ (Or.inr (Or.inr h))
    show (keepFold one cost l (keepStep one st j (cost j))).1 = _
    rw [keepFold_fst one cost l _ hne]
    simp only [List.map_cons, List.foldl_cons]
    congr 1
    unfold keepStep
    split
    · rename_i hc
      rcases hc with hc | hc
      · exact absurd hc h
      · simp only; omega
    · rename_i hc
      split
      · simp only; omega
      · omega

theorem keepFold_first (one : Bool) (cost : Nat → Nat) (j : Nat) (l : List Nat) (x : Nat) :
    (keepFold one cost (j :: l) (x, [])).1 = minNat ((j :: l).map cost) := by
  show (keepFold one cost l (keepStep one (x, []) j (cost j))).1 = _
  have : keepStep one (x, []) j (cost j) = (cost j, [j]) := by simp [keepStep]
  rw [this, keepFold_fst one cost l _ (by simp)]
  rfl

theorem IsChain.suffix_aux {h : Array Cell} {a : Nat} {l : List Nat} (hc : IsChain h a l) :
    ∀ (l1 : List Nat) (j : Nat) (l2 : List Nat), l = l1 ++ j :: l2 → IsChain h j (j :: l2) := by
  induction hc with
  | @last a nd e =>
    intro l1 j l2 hl
    cases l1 with
    | nil =>
      simp only [List.nil_append, List.cons.injEq] at hl
      obtain ⟨rfl, rfl⟩ := hl
      exact .last e
    | cons x l1 =>
      have := congrArg List.length hl
      simp at this
  | @cons a nd j' l e hl ih =>
    intro l1 j l2 hl2
    cases l1 with
    | nil =>
      simp only [List.nil_append, List.cons.injEq] at hl2
      obtain ⟨rfl, rfl⟩ := hl2
      exact .cons e hl
    | cons x l1 =>
      simp only [List.cons_append, List.cons.injEq] at hl2
      exact ih l1 j l2 hl2.2

theorem IsChain.suffix {h : Array Cell} {l1 : List Nat} {a j : Nat} {l2 : List Nat}
    (hc : IsChain h a (l1 ++ j :: l2)) : IsChain h j (j :: l2) :=
  hc.suffix_aux l1 j l2 rfl

/-- the loop over the chain with head `a`: `done` are the cells already seen, `st` the locals -/
theorem altLoop_spec (wf : WfHeap h0 rk hd) {rec : PSt → Nat → PSt × Nat × Int} {B : Nat}
    (hrec : RecSpec h0 rk hd one free rec B) {X : Nat → Prop} {a : Nat}
    (ha : a < h0.size) (hal : isAlt h0 a = true) (hda : hd a = a) (hB : rk a ≤ B)
    (hX : ∀ x, X x → rk a < rk x) :
    ∀ (todo done : List Nat) (m : Nat) (st : Nat × List Nat) (res : Nat) (s : PSt),
      chain0 h0 a = done ++ todo → todo.length ≤ m →
      (done = [] ↔ st.2 = []) → (∀ j ∈ st.2, j ∈ done) → (done ≠ [] → st.2.head? = some res) →
      Inv h0 rk hd one free (fun x => X x ∨ x = a) s →
      (∀ j ∈ todo, cellAt s.heap j = cellAt h0 j) →
      (∀ j ∈ done, (∃ nx, cellAt s.heap j = .alt (altNode h0 j) nx) ∧
        Visited h0 free s (altNode h0 j) ∧ (free = true → j ∈ s.coll)) →
      Linked s.heap st.2 → memoFind s.memo a = none →
      ∃ (s' : PSt) (res' : Nat),
        altLoop rec one free a m todo.head? (st.1 : Int) res s =
          (s', ((keepFold one (altCost h0 rk one) todo st).1 : Int), res') ∧
        (done ++ todo ≠ [] → (keepFold one (altCost h0 rk one) todo st).2.head? = some res') ∧
        Inv h0 rk hd one free (fun x => X x ∨ x = a) s' ∧
        (∀ j ∈ done ++ todo, (∃ nx, cellAt s'.heap j = .alt (altNode h0 j) nx) ∧
          Visited h0 free s' (altNode h0 j) ∧ (free = true → j ∈ s'.coll)) ∧
        Linked s'.heap (keepFold one (altCost h0 rk one) todo st).2 ∧ memoFind s'.memo a = none ∧
        Frame rk hd s s' (rk a) ∧
        (∀ i, i ∈ s'.coll → i ∈ s.coll ∨ ∃ j ∈ todo, i = j ∨ Reach h0 (altNode h0 j) i) := by
  have hchain := chain0_isChain wf ha hal
  have hprops := hchain.props wf ha
  have hnodup := hchain.nodup wf ha
  intro todo
  induction todo with
  | nil =>
    intro done m st res s hsplit hm hst1 hst2 hst3 hinv htodo hdone hlink hmemo
    refine ⟨s, res, ?_, ?_, hinv, by simpa using hdone, hlink, hmemo, Frame.refl s _,
      fun i hi => Or.inl hi⟩
    · cases m <;> simp [altLoop, keepFold]
    · intro hne
      simp only [keepFold]
      exact hst3 (by simpa using hne)
  | cons j t ih =>
    intro done m st res s hsplit hm hst1 hst2 hst3 hinv htodo hdone hlink hmemo
    obtain ⟨m, rfl⟩ : ∃ m', m = m' + 1 := ⟨m - 1, by simp at hm; omega⟩
    have hjmem : j ∈ chain0 h0 a := by rw [hsplit]; simp
    obtain ⟨q1, q2, q3, q4⟩ := hprops j hjmem
    rw [hda] at q3
    have hjsuf : IsChain h0 j (j :: t) := IsChain.suffix (hsplit ▸ hchain)
    -- the cell `j` in the input heap
    obtain ⟨nd, nextAlt, ecell0, hnext⟩ :
        ∃ nd nextAlt, cellAt h0 j = .alt nd nextAlt ∧ nextAlt = t.head? := by
      cases hjsuf with
      | last e => exact ⟨_, _, e, rfl⟩
      | cons e hl =>
        obtain ⟨t', ht'⟩ := hl.head_eq
        exact ⟨_, _, e, by rw [ht']; rfl⟩
    have hnd : altNode h0 j = nd := by simp [altNode, ecell0]
    obtain ⟨p1, p2, p3⟩ := altNode_props wf q1 q2
    rw [hnd] at p1 p2 p3
    have hdnd : hd nd = nd := wf.hd_self nd p1 p2
    have hjdone : j ∉ done := by
      intro hmem
      rw [hsplit] at hnodup
      have := (List.nodup_append.1 hnodup).2.2 j hmem j (by simp)
      exact this rfl
    -- collect
    have hinv0 : Inv h0 rk hd one free (fun x => X x ∨ x = a) (collect free s j) := hinv.collect wf j
    have ecellS : cellAt (collect free s j).heap j = .alt nd nextAlt := by
      rw [collect_heap, htodo j (by simp), ecell0]
    -- the recursive call
    obtain ⟨r1, r2, r3, r4, r5, r6⟩ := hrec (fun x => X x ∨ x = a) (collect free s j) nd (by omega) p1 hdnd
      (by
        intro x hx
        rcases hx with hx | rfl
        · have := hX x hx; omega
        · omega) hinv0
    unfold altLoop
    simp only [List.head?_cons, ecellS]
    generalize rec (collect free s j) nd = p at r1 r2 r3 r4 r5 r6 ⊢
    obtain ⟨s1, r, cst⟩ := p
    simp only at r1 r2 r3 r4 r5 r6 ⊢
    rw [res0_nonalt p2] at r2
    have r2' := r2.symm
    subst r2' r3
    have hfr01 : Frame rk hd s s1 (rk nd) := (Frame.collect s j (rk nd)).trans r5 (Nat.le_refl _)
    -- chain cells are not touched by the call
    have hchainsame : ∀ x ∈ chain0 h0 a, cellAt s1.heap x = cellAt s.heap x := by
      intro x hx
      obtain ⟨x1, x2, x3, x4⟩ := hprops x hx
      exact hfr01.cells x (by rw [x3, hda]; omega)
    have ecell1 : cellAt s1.heap j = .alt nd nextAlt := by
      rw [hchainsame j hjmem, htodo j (by simp), ecell0]
    have hjs1 : j < s1.heap.size := by rw [r1.size]; exact q1
    rw [setAltNode_self ecell1]
    -- the three branches all write (at most) the `next` field of cell `j`
    have key : ∀ (nx' : Option Nat) (st' : Nat × List Nat) (res' : Nat),
        st' = keepStep one st j (altCost h0 rk one j) → st'.2.head? = some res' →
        Linked (setAltNext s1.heap j nx') st'.2 →
        ∃ (s' : PSt) (res'' : Nat),
          altLoop rec one free a m nextAlt (st'.1 : Int) res'
            { s1 with heap := setAltNext s1.heap j nx' } =
            (s', ((keepFold one (altCost h0 rk one) (j :: t) st).1 : Int), res'') ∧
          (done ++ j :: t ≠ [] →
            (keepFold one (altCost h0 rk one) (j :: t) st).2.head? = some res'') ∧
          Inv h0 rk hd one free (fun x => X x ∨ x = a) s' ∧
          (∀ x ∈ done ++ j :: t, (∃ nx, cellAt s'.heap x = .alt (altNode h0 x) nx) ∧
            Visited h0 free s' (altNode h0 x) ∧ (free = true → x ∈ s'.coll)) ∧
          Linked s'.heap (keepFold one (altCost h0 rk one) (j :: t) st).2 ∧
          memoFind s'.memo a = none ∧ Frame rk hd s s' (rk a) ∧
          (∀ i, i ∈ s'.coll → i ∈ s.coll ∨ ∃ x ∈ j :: t, i = x ∨ Reach h0 (altNode h0 x) i) := by
      intro nx' st' res' hst' hres' hlink'
      generalize hs2 : ({ s1 with heap := setAltNext s1.heap j nx' } : PSt) = s2
      have hheap2 : s2.heap = setAltNext s1.heap j nx' := by rw [← hs2]
      have hmemo2 : s2.memo = s1.memo := by rw [← hs2]
      have hcoll2 : s2.coll = s1.coll := by rw [← hs2]
      have hoof2 : s2.oof = s1.oof := by rw [← hs2]
      have hsize2 : s2.heap.size = s1.heap.size := by rw [hheap2]; simp
      have hother : ∀ x, x ≠ j → cellAt s2.heap x = cellAt s1.heap x := by
        intro x hx
        rw [hheap2, cellAt_setAltNext_ne _ _ (Ne.symm hx)]
      have ecell2 : cellAt s2.heap j = .alt nd nx' := by
        rw [hheap2]; exact cellAt_setAltNext_eq nx' hjs1 ecell1
      have hneg2 : ∀ x, costAt s1.heap x < 0 → costAt s2.heap x < 0 := by
        intro x hx
        by_cases e : x = j
        · subst e; simp [costAt, ecell1] at hx
        · simpa only [costAt, hother x e] using hx
      have hinv2 : Inv h0 rk hd one free (fun x => X x ∨ x = a) s2 := by
        refine Inv.pres wf hsize2 ?_ hmemo2 (by rw [hcoll2]; exact fun _ h => h) hneg2 r1
        intro x hx hxx
        by_cases e : x = j
        · subst e; exact absurd (Or.inr q3) hxx
        · exact hother x e
      have hframe2 : Frame rk hd s1 s2 (rk a) := by
        refine ⟨hsize2, ?_, by rw [hmemo2]; exact fun _ _ => rfl,
          by rw [hmemo2]; exact fun _ _ h => h, by rw [hcoll2]; exact fun _ h => h, hneg2, hoof2⟩
        intro x hx
        by_cases e : x = j
        · subst e; rw [q3] at hx; omega
        · exact hother x e
      have hfr02 : Frame rk hd s s2 (rk a) :=
        (hfr01.mono (by omega)).trans hframe2 (Nat.le_refl _)
      have hkf : keepFold one (altCost h0 rk one) (j :: t) st = keepFold one (altCost h0 rk one) t st' := by
        rw [hst']; rfl
      have hst'ne : st'.2 ≠ [] := by
        intro e; rw [e] at hres'; cases hres'
      have := ih (done ++ [j]) m st' res' s2 (by rw [hsplit]; simp) (by simp at hm; omega)
        (by simp [hst'ne])
        (by
          intro x hx
          rw [hst'] at hx
          unfold keepStep at hx
          split at hx
          · simp at hx; simp [hx]
          · split at hx
            · rcases List.mem_cons.1 hx with rfl | hx
              · simp
              · exact List.mem_append_left _ (hst2 x hx)
            · exact List.mem_append_left _ (hst2 x hx))
        (fun _ => hres') hinv2
        (by
          intro x hx
          have hxne : x ≠ j := by
            intro e; subst e
            rw [hsplit] at hnodup
            have := (List.nodup_append.1 hnodup).2.1
            exact (List.nodup_cons.1 this).1 hx
          rw [hother x hxne, hchainsame x (by rw [hsplit]; simp [hx]), htodo x (by simp [hx])])
        (by
          intro x hx
          rcases List.mem_append.1 hx with hx | hx
          · have hxne : x ≠ j := fun e => hjdone (e ▸ hx)
            obtain ⟨⟨nx, e⟩, v, cl⟩ := hdone x hx
            refine ⟨⟨nx, ?_⟩, (v.frame hfr02), fun hf => hfr02.coll _ (cl hf)⟩
            rw [hother x hxne, hchainsame x (by rw [hsplit]; simp [hx]), e]
          · simp only [List.mem_singleton] at hx
            subst hx
            refine ⟨⟨nx', by rw [hnd]; exact ecell2⟩, by rw [hnd]; exact r4.frame hframe2, ?_⟩
            intro hf
            subst hf
            exact hframe2.coll _ (r5.coll _ (collect_coll_mem s x)))
        (by rw [hheap2]; exact hlink')
        (by rw [hmemo2, r5.memoHi a (by omega)]; simpa using hmemo)
      obtain ⟨s', res'', z1, z2, z3, z4, z5, z6, z7, z8⟩ := this
      refine ⟨s', res'', ?_, ?_, z3, by simpa using z4, by rw [hkf]; exact z5, z6,
        hfr02.trans z7 (Nat.le_refl _), ?_⟩
      · rw [hkf, ← z1, hnext]
      · intro _; rw [hkf]; exact z2 (by simp)
      · intro i hi
        rcases z8 i hi with h | ⟨x, hx, h⟩
        · rw [hcoll2] at h
          rcases r6 i h with h | h
          · rcases collect_coll_cases free s j i h with h | h
            · exact Or.inl h
            · exact Or.inr ⟨j, by simp, Or.inl h⟩
          · exact Or.inr ⟨j, by simp, Or.inr (by rw [hnd]; exact h)⟩
        · exact Or.inr ⟨x, by simp [hx], h⟩
    -- which branch
    have hhead : (j == a) = true ↔ st.2 = [] := by
      rw [← hst1]
      constructor
      · intro e
        have e : j = a := by simpa using e
        subst e
        cases done with
        | nil => rfl
        | cons d ds =>
          exfalso
          obtain ⟨tl, htl⟩ := hchain.head_eq
          rw [hsplit] at htl
          simp only [List.cons_append, List.cons.injEq] at htl
          exact hjdone (by rw [htl.1]; simp)
      · intro e
        subst e
        obtain ⟨tl, htl⟩ := hchain.head_eq
        rw [hsplit] at htl
        simp only [List.nil_append, List.cons.injEq] at htl
        simp [htl.1]
    by_cases hc1 : st.2 = [] ∨ altCost h0 rk one j < st.1
    · -- a new minimum
      have hcond : (j == a || decide ((st.1 : Int) > (altCost h0 rk one j : Int))) = true := by
        rcases hc1 with h | h
        · simp [hhead.2 h]
        · simp only [Bool.or_eq_true, decide_eq_true_eq]; right; omega
      have hcond' : (j == a || decide ((st.1 : Int) > (cost0 h0 rk one nd : Int))) = true := by
        rw [← hnd]; exact hcond
      rw [if_pos hcond']
      have hks : keepStep one st j (altCost h0 rk one j) = (altCost h0 rk one j, [j]) := by
        unfold keepStep; rw [if_pos hc1]
      have := key none (altCost h0 rk one j, [j]) j hks.symm rfl
        ⟨nd, cellAt_setAltNext_eq none hjs1 ecell1⟩
      simpa only [altCost, hnd] using this
    · have hst2ne : st.2 ≠ [] := fun e => hc1 (Or.inl e)
      have hcond : (j == a || decide ((st.1 : Int) > (cost0 h0 rk one nd : Int))) = false := by
        have h1 : (j == a) = false := by
          cases hx : (j == a) with
          | false => rfl
          | true => exact absurd (hhead.1 hx) hst2ne
        have h2 : ¬ ((st.1 : Int) > (cost0 h0 rk one nd : Int)) := by
          intro h; apply hc1; right; unfold altCost; rw [hnd]; omega
        simp [h1, h2]
      rw [if_neg (by rw [hcond]; simp)]
      obtain ⟨d0, hd0⟩ : ∃ d, done ≠ [] := ⟨(), fun e => hst2ne (hst1.1 e)⟩
      have hres := hst3 hd0
      by_cases hc2 : st.1 = altCost h0 rk one j ∧ one = false
      · -- a tie, all parses
        have hcond2 : (((st.1 : Int) == (cost0 h0 rk one nd : Int)) && !one) = true := by
          have : st.1 = cost0 h0 rk one nd := by rw [← hnd]; exact hc2.1
          simp [hc2.2, this]
        rw [if_pos hcond2]
        have hks : keepStep one st j (altCost h0 rk one j) = (st.1, j :: st.2) := by
          unfold keepStep; rw [if_neg hc1, if_pos hc2]
        have hjst : j ∉ st.2 := fun h => hjdone (hst2 j h)
        have := key (some res) (st.1, j :: st.2) j hks.symm rfl (by
          obtain ⟨r', hr'⟩ : ∃ r', st.2 = res :: r' := by
            cases hx : st.2 with
            | nil => exact absurd hx hst2ne
            | cons y ys => rw [hx] at hres; simp at hres; exact ⟨ys, by rw [hres]⟩
          simp only [hr']
          refine ⟨⟨nd, cellAt_setAltNext_eq (some res) hjs1 ecell1⟩, ?_⟩
          rw [← hr']
          refine Linked.pres ?_ hlink
          intro x hx
          have hxne : x ≠ j := fun e => hjst (e ▸ hx)
          rw [cellAt_setAltNext_ne _ _ (Ne.symm hxne)]
          exact hchainsame x (by rw [hsplit]; exact List.mem_append_left _ (hst2 x hx)))
        exact this
      · -- dropped
        have hcond2 : (((st.1 : Int) == (cost0 h0 rk one nd : Int)) && !one) = false := by
          by_cases hone : one = true
          · simp [hone]
          · have hone' : one = false := by simpa using hone
            have : st.1 ≠ cost0 h0 rk one nd := by
              intro e; apply hc2; exact ⟨by unfold altCost; rw [hnd]; exact e, hone'⟩
            have h3 : ¬ ((st.1 : Int) = (cost0 h0 rk one nd : Int)) := by omega
            simp [h3]
        rw [if_neg (by rw [hcond2]; simp)]
        have hks : keepStep one st j (altCost h0 rk one j) = st := by
          unfold keepStep; rw [if_neg hc1, if_neg hc2]
        have hself : setAltNext s1.heap j nextAlt = s1.heap := by
          apply heap_ext (by simp)
          intro i hi
          by_cases e : j = i
          · subst e; rw [cellAt_setAltNext_eq nextAlt hjs1 ecell1, ecell1]
          · rw [cellAt_setAltNext_ne _ _ e]
        have := key nextAlt st res hks.symm hres (by
          rw [hself]
          refine Linked.pres ?_ hlink
          intro x hx
          exact hchainsame x (by rw [hsplit]; exact List.mem_append_left _ (hst2 x hx)))
        rw [hself] at this
        exact this

end

end Yaep.PC
