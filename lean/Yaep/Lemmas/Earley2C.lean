import Yaep.Lemmas.Earley2
import Yaep.Lemmas.DepthBound
/-!
# Lookahead level 2: completeness

Part 2: if the input is a sentence, `buildPL2` reports no error.  The invariant is the one
of the level-1 proof (`Yaep/Lemmas/EarleyLA.lean`) with the item's context in the place of
FOLLOW: an item on the derivation of the whole input has a right context `γ` such that
whatever starts a string derived from `γ` is in the item's context (`CtxCovers`).
-/
namespace Yaep

/-! ## `normSet` -/

theorem mem_insertSorted {a x : Nat} {l : List Nat} : x ∈ insertSorted a l ↔ x = a ∨ x ∈ l := by
  induction l with
  | nil => simp [insertSorted]
  | cons b rest ih =>
    unfold insertSorted
    split
    · simp
    · split
      · rename_i h; subst h; simp
      · simp only [List.mem_cons, ih]
        constructor
        · rintro (h | h | h)
          · exact .inr (.inl h)
          · exact .inl h
          · exact .inr (.inr h)
        · rintro (h | h | h)
          · exact .inr (.inl h)
          · exact .inl h
          · exact .inr (.inr h)

theorem mem_foldl_insertSorted {x : Nat} (l acc : List Nat) :
    x ∈ l.foldl (fun acc a => insertSorted a acc) acc ↔ x ∈ acc ∨ x ∈ l := by
  induction l generalizing acc with
  | nil => simp
  | cons a l ih =>
    simp only [List.foldl_cons, ih, mem_insertSorted, List.mem_cons]
    constructor
    · rintro ((h | h) | h)
      · exact .inr (.inl h)
      · exact .inl h
      · exact .inr (.inr h)
    · rintro (h | h | h)
      · exact .inl (.inr h)
      · exact .inl (.inl h)
      · exact .inr h

theorem mem_normSet {x : Nat} {l : List Nat} : x ∈ normSet l ↔ x ∈ l := by
  unfold normSet
  rw [mem_foldl_insertSorted]; simp

/-- strictly increasing -/
def SortedLt (l : List Nat) : Prop := l.Pairwise (· < ·)

theorem insertSorted_sorted {a : Nat} {l : List Nat} (h : SortedLt l) :
    SortedLt (insertSorted a l) := by
  induction l with
  | nil => simp [insertSorted, SortedLt]
  | cons b rest ih =>
    unfold SortedLt at h ⊢
    rw [List.pairwise_cons] at h
    unfold insertSorted
    split
    · rename_i hab
      rw [List.pairwise_cons]
      refine ⟨?_, List.pairwise_cons.mpr h⟩
      intro x hx
      rcases List.mem_cons.mp hx with rfl | hx
      · exact hab
      · exact Nat.lt_trans hab (h.1 x hx)
    · split
      · exact List.pairwise_cons.mpr h
      · rename_i h1 h2
        rw [List.pairwise_cons]
        refine ⟨?_, ih h.2⟩
        intro x hx
        rcases mem_insertSorted.mp hx with rfl | hx
        · omega
        · exact h.1 x hx

theorem normSet_sorted (l : List Nat) : SortedLt (normSet l) := by
  unfold normSet
  have : ∀ acc, SortedLt acc → SortedLt (l.foldl (fun acc a => insertSorted a acc) acc) := by
    induction l with
    | nil => intro acc h; exact h
    | cons a l ih => intro acc h; exact ih _ (insertSorted_sorted h)
  exact this [] List.Pairwise.nil

theorem SortedLt.nodup {l : List Nat} (h : SortedLt l) : l.Nodup :=
  List.Pairwise.imp (fun hab => Nat.ne_of_lt hab) h

/-- sorted lists with the same elements are equal -/
theorem sortedLt_ext : ∀ {l1 l2 : List Nat}, SortedLt l1 → SortedLt l2 →
    (∀ x, x ∈ l1 ↔ x ∈ l2) → l1 = l2
  | [], [], _, _, _ => rfl
  | [], b :: _, _, _, h => absurd ((h b).mpr (by simp)) (by simp)
  | a :: _, [], _, _, h => absurd ((h a).mp (by simp)) (by simp)
  | a :: l1, b :: l2, h1, h2, h => by
    unfold SortedLt at h1 h2
    rw [List.pairwise_cons] at h1 h2
    have hab : a = b := by
      have ha := (h a).mp (by simp)
      have hb := (h b).mpr (by simp)
      rcases List.mem_cons.mp ha with e | ha
      · exact e
      · rcases List.mem_cons.mp hb with e | hb
        · exact e.symm
        · have := h2.1 a ha; have := h1.1 b hb; omega
    subst hab
    congr 1
    apply sortedLt_ext h1.2 h2.2
    intro x
    constructor
    · intro hx
      rcases List.mem_cons.mp ((h x).mp (List.mem_cons_of_mem _ hx)) with e | hx'
      · subst e; exact absurd (h1.1 x hx) (Nat.lt_irrefl _)
      · exact hx'
    · intro hx
      rcases List.mem_cons.mp ((h x).mpr (List.mem_cons_of_mem _ hx)) with e | hx'
      · subst e; exact absurd (h2.1 x hx) (Nat.lt_irrefl _)
      · exact hx'

/-! ## the lookahead set of an item with a context -/

theorem mem_la2_iff {g : Grammar} {an : Analysis} {r d : Nat} {ctx : List Nat} {rl : Rule}
    (hr : g.rules[r]? = some rl) {a : Nat} :
    a ∈ la2 g an r d ctx ↔ (a ∈ (firstOfStr an.nl an.fs (rl.rhs.drop d)).1 ∨
      ((firstOfStr an.nl an.fs (rl.rhs.drop d)).2 = true ∧ a ∈ ctx)) := by
  unfold la2
  rw [hr]
  simp only [mem_normSet]
  split
  · rename_i he; simp [he]
  · rename_i he; simp [he]

theorem la2_none {g : Grammar} {an : Analysis} {r d : Nat} {ctx : List Nat}
    (hr : g.rules[r]? = none) : la2 g an r d ctx = [] := by
  unfold la2; rw [hr]

/-- whatever starts a string derived from `γ` is in `ctx` -/
def CtxCovers (g : Grammar) (ctx : List Nat) (γ : List Sym) : Prop :=
  ∀ a v, Der g γ (a :: v) → a ∈ ctx

theorem CtxCovers.nil (g : Grammar) (ctx : List Nat) : CtxCovers g ctx [] := by
  intro a v h
  exact absurd h.nil_inv (by simp)

theorem la2_of_der {g : Grammar} (hsr : g.symsInRange = true) {r d a : Nat} {rl : Rule}
    {ctx : List Nat} {γ : List Sym} {v : List Nat} (hr : g.rules[r]? = some rl)
    (hd : Der g (rl.rhs.drop d ++ γ) (a :: v)) (hcov : CtxCovers g ctx γ) :
    a ∈ la2 g g.analysis r d ctx := by
  rw [mem_la2_iff hr]
  obtain ⟨u1, v1, h1, h2, huv⟩ := hd.append_inv
  cases u1 with
  | nil =>
    rw [List.nil_append] at huv
    subst huv
    exact Or.inr ⟨(firstOfStr_snd_iff _).mpr h1, hcov _ _ h2⟩
  | cons b u1' =>
    rw [List.cons_append] at huv
    injection huv with hb _
    subst hb
    exact Or.inl (first_closed_aux hsr h1 a u1' rfl)

/-- the level-2 test passes for an item whose tail, followed by a right context covered by
its context, derives the whole rest of the input -/
theorem ok2_of_der {g : Grammar} (hsr : g.symsInRange = true) {w : List Nat} {r d m : Nat}
    {rl : Rule} {ctx : List Nat} {γ : List Sym} (hr : g.rules[r]? = some rl)
    (hd : Der g (rl.rhs.drop d ++ γ) (w.drop m)) (hcov : CtxCovers g ctx γ) :
    ok2 g g.analysis w[m]? r d ctx = true := by
  cases hw : w[m]? with
  | none => rfl
  | some c =>
    have hlt := (List.getElem?_eq_some_iff.mp hw).1
    have hc := (List.getElem?_eq_some_iff.mp hw).2
    rw [List.drop_eq_getElem_cons hlt, hc] at hd
    simp only [ok2, Bool.or_eq_true, List.contains_iff_mem]
    exact Or.inl (la2_of_der hsr hr hd hcov)

/-- the context of a predicted nonterminal covers its right context -/
theorem CtxCovers.predict {g : Grammar} (hsr : g.symsInRange = true) {r d : Nat} {rl : Rule}
    {ctx c' : List Nat} {γ : List Sym} (hr : g.rules[r]? = some rl)
    (hcov : CtxCovers g ctx γ) (hsub : ∀ a ∈ la2 g g.analysis r (d + 1) ctx, a ∈ c') :
    CtxCovers g c' (rl.rhs.drop (d + 1) ++ γ) :=
  fun _ _ hd => hsub _ (la2_of_der hsr hr hd hcov)


/-! ## completeness from the closure properties of the parse list -/

/-- the closure properties of a level-2 parse list `pl` for the token string `w` (only sets
that exist are constrained) -/
structure Closed2 (g : Grammar) (w : List Nat) (pl : List (List Item2)) : Prop where
  scan : ∀ {k r d i a : Nat} {c : List Nat}, k + 1 < pl.length →
    (⟨r, d, i, c⟩ : Item2) ∈ pl.getD k [] → g.nextSym r d = some (Sym.t a) → w[k]? = some a →
    ok2 g g.analysis w[k + 1]? r (d + 1) c = true → (⟨r, d + 1, i, c⟩ : Item2) ∈ pl.getD (k + 1) []
  pred : ∀ {k r d i B r' : Nat} {c : List Nat} {rl' : Rule},
    (⟨r, d, i, c⟩ : Item2) ∈ pl.getD k [] → g.nextSym r d = some (Sym.n B) →
    g.rules[r']? = some rl' → rl'.lhs = B →
    ∃ c', (⟨r', 0, k, c'⟩ : Item2) ∈ pl.getD k [] ∧ ∀ a ∈ la2 g g.analysis r (d + 1) c, a ∈ c'
  null : ∀ {k r d i B : Nat} {c : List Nat},
    (⟨r, d, i, c⟩ : Item2) ∈ pl.getD k [] → g.nextSym r d = some (Sym.n B) → B ∈ g.nullable →
    (⟨r, d + 1, i, c⟩ : Item2) ∈ pl.getD k []
  comp : ∀ {j k r d i r' : Nat} {c c1 : List Nat} {rl' : Rule}, k < j →
    g.rules[r']? = some rl' → (⟨r', rl'.rhs.length, k, c1⟩ : Item2) ∈ pl.getD j [] →
    (⟨r, d, i, c⟩ : Item2) ∈ pl.getD k [] → g.nextSym r d = some (Sym.n rl'.lhs) →
    ok2 g g.analysis w[j]? r (d + 1) c = true → (⟨r, d + 1, i, c⟩ : Item2) ∈ pl.getD j []

/-- set `m` of the parse list has an item with the terminal `w[m]` after the dot -/
def HasTrans2At (g : Grammar) (w : List Nat) (pl : List (List Item2)) (m : Nat) : Prop :=
  ∃ p ∈ pl.getD m [], ∃ a, w[m]? = some a ∧ g.nextSym p.rule p.dot = some (Sym.t a)

theorem mem_getD_lt {α : Type} {pl : List (List α)} {k : Nat} {x : α} (h : x ∈ pl.getD k []) :
    k < pl.length := by
  rcases Nat.lt_or_ge k pl.length with hlt | hge
  · exact hlt
  · rw [List.getD_eq_getElem?_getD, List.getElem?_eq_none hge] at h
    simp at h

/-- Completeness at level 2, as `completeness_la1_aux`, inside the sets that exist. -/
theorem completeness2_aux {g : Grammar} (hsr : g.symsInRange = true) {w : List Nat}
    {pl : List (List Item2)} (hcl : Closed2 g w pl) {β : List Sym} {u : List Nat}
    (hd : Der g β u) :
    ∀ (r d i k : Nat) (c : List Nat) (rest γ : List Sym) (rl : Rule),
      (⟨r, d, i, c⟩ : Item2) ∈ pl.getD k [] →
      g.rules[r]? = some rl → rl.rhs.drop d = β ++ rest → slice w k (k + u.length) = u →
      Der g (rest ++ γ) (w.drop (k + u.length)) → CtxCovers g c γ →
      (k + u.length < pl.length → (⟨r, d + β.length, i, c⟩ : Item2) ∈ pl.getD (k + u.length) []) ∧
      ∀ m, k ≤ m → m < k + u.length → m < pl.length → HasTrans2At g w pl m := by
  induction hd with
  | nil =>
    intro r d i k c rest γ rl h _ _ _ _ _
    exact ⟨fun _ => by simpa using h,
      fun m h1 h2 => absurd h2 (by simp only [List.length_nil]; omega)⟩
  | @term a ss w1 hss ih =>
    intro r d i k c rest γ rl h hr hrest hs hrem hcov
    obtain ⟨hsym, hdrop⟩ := drop_succ_of_drop_cons (by simpa using hrest)
    obtain ⟨hw, hs', _⟩ := slice_cons hs
    have hns : g.nextSym r d = some (Sym.t a) := nextSym_eq_some.mpr ⟨rl, hr, hsym⟩
    have e1 : k + 1 + w1.length = k + (a :: w1).length := by simp only [List.length_cons]; omega
    have e2 : d + 1 + ss.length = d + (Sym.t a :: ss).length := by
      simp only [List.length_cons]; omega
    rw [← e1] at hs' hrem
    have hD : Der g (rl.rhs.drop (d + 1) ++ γ) (w.drop (k + 1)) := by
      rw [hdrop, List.append_assoc, drop_eq_of_slice hs']
      exact Der.append hss hrem
    have htr : HasTrans2At g w pl k := ⟨_, h, a, hw, hns⟩
    by_cases hk1 : k + 1 < pl.length
    · have h1 := hcl.scan hk1 h hns hw (ok2_of_der hsr hr hD hcov)
      obtain ⟨hE, hT⟩ := ih r (d+1) i (k+1) c rest γ rl h1 hr hdrop hs' hrem hcov
      rw [e1, e2] at hE
      refine ⟨hE, ?_⟩
      intro m hm1 hm2 hm3
      rcases Nat.eq_or_lt_of_le hm1 with heq | hlt
      · subst heq; exact htr
      · exact hT m hlt (by rw [e1]; exact hm2) hm3
    · refine ⟨fun hlt => absurd hlt (by simp only [List.length_cons]; omega), ?_⟩
      intro m hm1 hm2 hm3
      have : m = k := by omega
      subst this; exact htr
  | @nt r' rl' ss u' v' hr' hu' hss ih1 ih2 =>
    intro r d i k c rest γ rl h hr hrest hs hrem hcov
    obtain ⟨hsym, hdrop⟩ := drop_succ_of_drop_cons (by simpa using hrest)
    have hns : g.nextSym r d = some (Sym.n rl'.lhs) := nextSym_eq_some.mpr ⟨rl, hr, hsym⟩
    have hlen : k + (u' ++ v').length = (k + u'.length) + v'.length := by
      simp only [List.length_append]; omega
    rw [hlen] at hs hrem
    obtain ⟨hs1, hs2⟩ := slice_split hs
    have hD : Der g (rl.rhs.drop (d + 1) ++ γ) (w.drop (k + u'.length)) := by
      rw [hdrop, List.append_assoc, drop_eq_of_slice hs2]
      exact Der.append hss hrem
    have e2 : d + 1 + ss.length = d + (Sym.n rl'.lhs :: ss).length := by
      simp only [List.length_cons]; omega
    obtain ⟨c', hp, hsub⟩ := hcl.pred h hns hr' rfl
    obtain ⟨hc, hT1⟩ := ih1 r' 0 k k c' [] (rl.rhs.drop (d + 1) ++ γ) rl' hp hr' (by simp) hs1
      (by rw [List.nil_append]; exact hD) (CtxCovers.predict hsr hr hcov hsub)
    rw [Nat.zero_add] at hc
    -- the advanced item in set `k + |u'|`, if that set exists
    have hadv : k + u'.length < pl.length →
        (⟨r, d + 1, i, c⟩ : Item2) ∈ pl.getD (k + u'.length) [] := by
      intro hlt
      by_cases hu0 : u'.length = 0
      · have hnil : u' = [] := List.eq_nil_of_length_eq_zero hu0
        subst hnil
        have hB : rl'.lhs ∈ g.nullable := by
          rw [mem_nullable_iff]
          have := Der.nt (ss := []) (v := []) hr' hu' Der.nil
          simpa using this
        simpa using hcl.null h hns hB
      · exact hcl.comp (by omega) hr' (hc hlt) h hns (ok2_of_der hsr hr hD hcov)
    by_cases hk1 : k + u'.length < pl.length
    · obtain ⟨hE, hT2⟩ := ih2 r (d+1) i (k + u'.length) c rest γ rl (hadv hk1) hr hdrop hs2
        hrem hcov
      rw [← hlen, e2] at hE
      refine ⟨hE, ?_⟩
      intro m hm1 hm2 hm3
      rcases Nat.lt_or_ge m (k + u'.length) with hlt | hge
      · exact hT1 m hm1 hlt hm3
      · exact hT2 m hge (by rw [← hlen]; exact hm2) hm3
    · refine ⟨fun hlt => absurd hlt (by rw [hlen]; omega), ?_⟩
      intro m hm1 hm2 hm3
      exact hT1 m hm1 (by omega) hm3

/-- if `start $eof` derives the token string `x` and the parse list is closed and contains
the item `$S : . start $eof` with the empty context, every existing set up to `|x|` has a
transition on its token -/
theorem trans2_of_der_axiom {g : Grammar} (hwf : g.WF) (hsr : g.symsInRange = true)
    {x : List Nat} {pl : List (List Item2)} (hcl : Closed2 g x pl)
    (h0 : (⟨0, 0, 0, []⟩ : Item2) ∈ pl.getD 0 [])
    (hd : Der g [Sym.n g.startN, Sym.t g.eofT] x) :
    ∀ m, m < x.length → m < pl.length → HasTrans2At g x pl m := by
  obtain ⟨r0, hr0, _, hrhs⟩ := hwf.rule0
  have := (completeness2_aux hsr hcl hd 0 0 0 0 [] [] [] r0 h0 hr0 (by rw [hrhs]; rfl)
    (by rw [Nat.zero_add]; exact slice_zero_length x)
    (by rw [Nat.zero_add, List.drop_length]; exact Der.nil) (CtxCovers.nil g _)).2
  intro m hm hm2
  exact this m (Nat.zero_le _) (by rw [Nat.zero_add]; exact hm) hm2


/-! ## `derived2` -/

/-- the `t` symbols after position `d` of rule `r` are nullable nonterminals -/
def NullRun (g : Grammar) (r d t : Nat) : Prop :=
  ∀ t', t' < t → ∃ B, g.nextSym r (d + t') = some (Sym.n B) ∧ B ∈ g.nullable

theorem mem_derived2_iff {g : Grammar} : ∀ (fuel : Nat) (it x : Item2),
    x ∈ derived2 g g.analysis it fuel ↔
      ∃ t, 1 ≤ t ∧ t ≤ fuel ∧ NullRun g it.rule it.dot t ∧ x = { it with dot := it.dot + t } := by
  intro fuel
  induction fuel with
  | zero =>
    intro it x
    simp only [derived2, List.not_mem_nil, false_iff]
    rintro ⟨t, h1, h2, _⟩; omega
  | succ fuel ih =>
    intro it x
    unfold derived2
    constructor
    · intro hx
      split at hx
      · rename_i B hns
        split at hx
        · rename_i hB
          rcases List.mem_cons.mp hx with rfl | hx
          · refine ⟨1, Nat.le_refl _, by omega, ?_, rfl⟩
            intro t' ht'
            have : t' = 0 := by omega
            subst this
            exact ⟨B, by simpa using hns, hB⟩
          · obtain ⟨t, h1, h2, h3, rfl⟩ := (ih _ _).mp hx
            refine ⟨t + 1, by omega, by omega, ?_, ?_⟩
            · intro t' ht'
              cases t' with
              | zero => exact ⟨B, by simpa using hns, hB⟩
              | succ t' =>
                obtain ⟨B', hB', hn'⟩ := h3 t' (by omega)
                refine ⟨B', ?_, hn'⟩
                simp only at hB'
                rw [← hB']; congr 1; omega
            · simp only [Item2.mk.injEq, true_and, and_true]; omega
        · simp at hx
      · simp at hx
    · rintro ⟨t, h1, h2, h3, rfl⟩
      obtain ⟨B, hns, hB⟩ := h3 0 (by omega)
      rw [Nat.add_zero] at hns
      rw [hns]
      simp only
      rw [if_pos (show B ∈ g.analysis.nl from hB)]
      by_cases ht : t = 1
      · subst ht; exact List.mem_cons_self
      · apply List.mem_cons_of_mem
        apply (ih _ _).mpr
        refine ⟨t - 1, by omega, by omega, ?_, ?_⟩
        · intro t' ht'
          obtain ⟨B', hB', hn'⟩ := h3 (t' + 1) (by omega)
          refine ⟨B', ?_, hn'⟩
          simp only
          rw [← hB']; congr 1; omega
        · simp only [Item2.mk.injEq, true_and, and_true]; omega

theorem nextSym_lt {g : Grammar} {r d : Nat} {X : Sym} {rl : Rule} (hr : g.rules[r]? = some rl)
    (h : g.nextSym r d = some X) : d < rl.rhs.length := by
  obtain ⟨rl', hr', hs⟩ := nextSym_eq_some.mp h
  rw [hr] at hr'; injection hr' with hr'; subst hr'
  exact (List.getElem?_eq_some_iff.mp hs).1

/-- a run of nullable nonterminals derives ε -/
theorem NullRun.der {g : Grammar} {r d t : Nat} {rl : Rule} (hr : g.rules[r]? = some rl)
    (h : NullRun g r d t) : Der g ((rl.rhs.drop d).take t) [] := by
  apply Der.nil_of_forall
  intro s hs
  obtain ⟨t', hget⟩ := List.mem_iff_getElem?.mp hs
  rw [List.getElem?_take] at hget
  split at hget
  · rename_i hlt
    obtain ⟨B, hns, hB⟩ := h t' hlt
    obtain ⟨rl', hr', hs'⟩ := nextSym_eq_some.mp hns
    rw [hr] at hr'; injection hr' with hr'; subst hr'
    rw [List.getElem?_drop] at hget
    rw [hs'] at hget
    injection hget with hget; subst hget
    exact mem_nullable_iff.mp hB
  · cases hget

/-! ## the `(rule, dot)` pairs of the initial items -/

def pairUniv2 (g : Grammar) : List (Nat × Nat) :=
  (List.range g.rules.length).flatMap fun r => (List.range (g.maxRhs + 1)).map fun d => (r, d)

theorem mem_pairUniv2 {g : Grammar} {p : Nat × Nat} :
    p ∈ pairUniv2 g ↔ p.1 < g.rules.length ∧ p.2 ≤ g.maxRhs := by
  obtain ⟨r, d⟩ := p
  simp only [pairUniv2, List.mem_flatMap, List.mem_map, List.mem_range, Prod.mk.injEq]
  constructor
  · rintro ⟨r', hr', d', hd', rfl, rfl⟩; exact ⟨hr', by omega⟩
  · rintro ⟨h1, h2⟩; exact ⟨r, h1, d, by omega, rfl, rfl⟩

theorem length_pairUniv2 (g : Grammar) : (pairUniv2 g).length = g.rules.length * (g.maxRhs + 1) := by
  unfold pairUniv2
  rw [length_flatMap_const _ _ (g.maxRhs + 1) (fun _ _ => by simp)]
  simp

theorem mem_initStep {g : Grammar} {an : Analysis} {base cur : List (Nat × Nat)} {p : Nat × Nat} :
    p ∈ initStep g an base cur ↔
      (∃ q ∈ base ++ cur, ∃ B, g.nextSym q.1 q.2 = some (Sym.n B) ∧ p.1 ∈ g.rulesFor B ∧ p.2 = 0) ∨
      (∃ q ∈ cur, ∃ B, g.nextSym q.1 q.2 = some (Sym.n B) ∧ B ∈ an.nl ∧ p = (q.1, q.2 + 1)) := by
  obtain ⟨pr, pd⟩ := p
  unfold initStep
  simp only [List.mem_append, List.mem_flatMap]
  constructor
  · rintro (⟨⟨r, d⟩, hb, hp⟩ | ⟨⟨r, d⟩, hb, hp⟩)
    · simp only at hp
      split at hp
      · rename_i B hns
        obtain ⟨r2, hr2, he⟩ := List.mem_map.mp hp
        injection he with e1 e2; subst e1; subst e2
        exact .inl ⟨(r, d), .inl hb, B, hns, hr2, rfl⟩
      · simp at hp
    · simp only at hp
      split at hp
      · rename_i B hns
        rcases List.mem_append.mp hp with hp | hp
        · obtain ⟨r2, hr2, he⟩ := List.mem_map.mp hp
          injection he with e1 e2; subst e1; subst e2
          exact .inl ⟨(r, d), .inr hb, B, hns, hr2, rfl⟩
        · split at hp
          · rename_i hB
            simp only [List.mem_singleton] at hp
            exact .inr ⟨(r, d), hb, B, hns, hB, hp⟩
          · simp at hp
      · simp at hp
  · rintro (⟨⟨r, d⟩, hq, B, hns, hr2, hd⟩ | ⟨⟨r, d⟩, hq, B, hns, hB, he⟩)
    · simp only at hns hr2 hd
      subst hd
      rcases hq with hq | hq
      · refine .inl ⟨(r, d), hq, ?_⟩
        simp only [hns]
        exact List.mem_map.mpr ⟨pr, hr2, rfl⟩
      · refine .inr ⟨(r, d), hq, ?_⟩
        simp only [hns]
        exact List.mem_append_left _ (List.mem_map.mpr ⟨pr, hr2, rfl⟩)
    · simp only at hns he
      refine .inr ⟨(r, d), hq, ?_⟩
      simp only [hns, if_pos hB]
      exact List.mem_append_right _ (by simp [he])

theorem initStep_subset_univ {g : Grammar} {an : Analysis} {base cur : List (Nat × Nat)}
    (hcur : cur ⊆ pairUniv2 g) : initStep g an base cur ⊆ pairUniv2 g := by
  intro p hp
  rcases mem_initStep.mp hp with ⟨q, _, B, _, hr2, hd⟩ | ⟨q, hq, B, hns, _, he⟩
  · obtain ⟨rl, h1, _⟩ := mem_rulesFor.mp hr2
    exact mem_pairUniv2.mpr ⟨(List.getElem?_eq_some_iff.mp h1).1, by omega⟩
  · obtain ⟨hq1, _⟩ := mem_pairUniv2.mp (hcur hq)
    subst he
    obtain ⟨rl, hr, hs⟩ := nextSym_eq_some.mp hns
    have hlt := (List.getElem?_eq_some_iff.mp hs).1
    have := le_maxRhs (List.mem_of_getElem? hr)
    exact mem_pairUniv2.mpr ⟨hq1, by simp only; omega⟩

/-- the saturation of `initStep` is closed -/
theorem pairs_closed (g : Grammar) (an : Analysis) (base : List (Nat × Nat)) :
    initStep g an base (saturate (initStep g an base) (g.rules.length * (g.maxRhs + 1) + 2) []) ⊆
      saturate (initStep g an base) (g.rules.length * (g.maxRhs + 1) + 2) [] := by
  apply saturate_closed _ (pairUniv2 g) (fun s hs => initStep_subset_univ hs) _ _ (by simp)
    List.nodup_nil
  rw [length_pairUniv2]; simp


/-! ## the context fixpoint -/

abbrev CEntry := (Nat × Nat) × List Nat

/-- left-hand side of rule `r` as `ctxRound` computes it -/
def lhsOf (g : Grammar) (r : Nat) : Nat :=
  match g.rules[r]? with | some rl => rl.lhs | none => 0

/-- the context `ctxRound` assigns to the initial items of the nonterminal `A` -/
def ctxOf (g : Grammar) (an : Analysis) (items : List Item2) (inits : List CEntry) (A : Nat) :
    List Nat :=
  normSet ((items.flatMap fun p =>
      if g.nextSym p.rule p.dot = some (.n A) then la2 g an p.rule (p.dot + 1) p.ctx else []) ++
    (inits.flatMap fun (e : CEntry) =>
      if g.nextSym e.1.1 e.1.2 = some (.n A) then la2 g an e.1.1 (e.1.2 + 1) e.2 else []))

theorem ctxRound_eq (g : Grammar) (an : Analysis) (items : List Item2) (inits : List CEntry) :
    ctxRound g an items inits = inits.map fun e => (e.1, ctxOf g an items inits (lhsOf g e.1.1)) := by
  unfold ctxRound
  apply List.map_congr_left
  rintro ⟨⟨r, d⟩, c⟩ _
  rfl

theorem mem_ctxOf {g : Grammar} {an : Analysis} {items : List Item2} {inits : List CEntry}
    {A a : Nat} : a ∈ ctxOf g an items inits A ↔
      (∃ p ∈ items, g.nextSym p.rule p.dot = some (.n A) ∧ a ∈ la2 g an p.rule (p.dot + 1) p.ctx) ∨
      (∃ e ∈ inits, g.nextSym e.1.1 e.1.2 = some (.n A) ∧ a ∈ la2 g an e.1.1 (e.1.2 + 1) e.2) := by
  unfold ctxOf
  rw [mem_normSet, List.mem_append, List.mem_flatMap, List.mem_flatMap]
  constructor
  · rintro (⟨p, hp, h⟩ | ⟨e, he, h⟩)
    · split at h
      · rename_i hn; exact .inl ⟨p, hp, hn, h⟩
      · simp at h
    · split at h
      · rename_i hn; exact .inr ⟨e, he, hn, h⟩
      · simp at h
  · rintro (⟨p, hp, hn, h⟩ | ⟨e, he, hn, h⟩)
    · exact .inl ⟨p, hp, by rw [if_pos hn]; exact h⟩
    · exact .inr ⟨e, he, by rw [if_pos hn]; exact h⟩

/-- same keys, contexts included -/
inductive LeCtx : List CEntry → List CEntry → Prop where
  | nil : LeCtx [] []
  | cons {e e' : CEntry} {l l' : List CEntry} : e.1 = e'.1 → (∀ a ∈ e.2, a ∈ e'.2) →
      LeCtx l l' → LeCtx (e :: l) (e' :: l')

theorem LeCtx.exists_ge {R R' : List CEntry} (h : LeCtx R R') {e : CEntry} (he : e ∈ R) :
    ∃ e' ∈ R', e.1 = e'.1 ∧ ∀ a ∈ e.2, a ∈ e'.2 := by
  induction h with
  | nil => simp at he
  | cons h1 h2 _ ih =>
    rcases List.mem_cons.mp he with rfl | he
    · exact ⟨_, List.mem_cons_self, h1, h2⟩
    · obtain ⟨e', he', h⟩ := ih he
      exact ⟨e', List.mem_cons_of_mem _ he', h⟩

theorem LeCtx.map {R R' : List CEntry} (h : LeCtx R R') {f f' : CEntry → CEntry}
    (hf : ∀ e e', e.1 = e'.1 → (f e).1 = (f' e').1 ∧ ∀ a ∈ (f e).2, a ∈ (f' e').2) :
    LeCtx (R.map f) (R'.map f') := by
  induction h with
  | nil => exact .nil
  | cons h1 _ _ ih => exact .cons (hf _ _ h1).1 (hf _ _ h1).2 ih

theorem la2_mono {g : Grammar} {an : Analysis} {r d : Nat} {c c' : List Nat}
    (h : ∀ a ∈ c, a ∈ c') : ∀ a ∈ la2 g an r d c, a ∈ la2 g an r d c' := by
  intro a ha
  cases hr : g.rules[r]? with
  | none => rw [la2_none hr] at ha; simp at ha
  | some rl =>
    rw [mem_la2_iff hr] at ha ⊢
    rcases ha with ha | ⟨he, ha⟩
    · exact .inl ha
    · exact .inr ⟨he, h a ha⟩

theorem ctxOf_mono {g : Grammar} {an : Analysis} {items : List Item2} {R R' : List CEntry}
    (h : LeCtx R R') (A : Nat) : ∀ a ∈ ctxOf g an items R A, a ∈ ctxOf g an items R' A := by
  intro a ha
  rw [mem_ctxOf] at ha ⊢
  rcases ha with ha | ⟨e, he, hn, ha⟩
  · exact .inl ha
  · obtain ⟨e', he', h1, h2⟩ := h.exists_ge he
    refine .inr ⟨e', he', by rw [← h1]; exact hn, ?_⟩
    rw [← h1]
    exact la2_mono h2 a ha

theorem ctxRound_mono {g : Grammar} {an : Analysis} {items : List Item2} {R R' : List CEntry}
    (h : LeCtx R R') : LeCtx (ctxRound g an items R) (ctxRound g an items R') := by
  rw [ctxRound_eq, ctxRound_eq]
  apply h.map
  intro e e' he
  exact ⟨he, by rw [he]; exact ctxOf_mono h _⟩

/-- all contexts strictly increasing lists -/
def Canon (R : List CEntry) : Prop := ∀ e ∈ R, SortedLt e.2

theorem ctxRound_canon (g : Grammar) (an : Analysis) (items : List Item2) (R : List CEntry) :
    Canon (ctxRound g an items R) := by
  rw [ctxRound_eq]
  intro e he
  obtain ⟨e0, _, rfl⟩ := List.mem_map.mp he
  exact normSet_sorted _

/-- total size of the contexts -/
def ctxSize (R : List CEntry) : Nat := (R.map fun e => e.2.length).sum

theorem subset_of_nodup_length {c c' : List Nat} (hnd : c.Nodup) (hsub : ∀ a ∈ c, a ∈ c')
    (hlen : c'.length ≤ c.length) : ∀ a ∈ c', a ∈ c := by
  intro x hx
  apply Classical.byContradiction
  intro hnx
  have : c ⊆ c'.erase x := by
    intro b hb
    have hne : b ≠ x := by intro h; subst h; exact hnx hb
    exact (List.mem_erase_of_ne hne).mpr (hsub b hb)
  have h1 := nodup_subset_length hnd this
  have h2 := List.length_erase_of_mem hx
  have : 0 < c'.length := List.length_pos_of_mem hx
  omega

theorem LeCtx.size {R R' : List CEntry} (h : LeCtx R R') (hc : Canon R) (hc' : Canon R') :
    ctxSize R ≤ ctxSize R' ∧ (ctxSize R = ctxSize R' → R = R') := by
  induction h with
  | nil => simp [ctxSize]
  | @cons e e' l l' h1 h2 _ ih =>
    have hl := ih (fun x hx => hc x (List.mem_cons_of_mem _ hx))
      (fun x hx => hc' x (List.mem_cons_of_mem _ hx))
    have hs := hc e List.mem_cons_self
    have hs' := hc' e' List.mem_cons_self
    have hle : e.2.length ≤ e'.2.length := nodup_subset_length hs.nodup (fun a ha => h2 a ha)
    simp only [ctxSize, List.map_cons, List.sum_cons] at hl ⊢
    refine ⟨by omega, ?_⟩
    intro heq
    have hlen : e'.2.length ≤ e.2.length := by omega
    have hl' := hl.2 (by omega)
    have h2' := subset_of_nodup_length hs.nodup h2 hlen
    have : e.2 = e'.2 := sortedLt_ext hs hs' (fun x => ⟨h2 x, h2' x⟩)
    rw [hl']
    congr 1
    exact Prod.ext h1 this

/-- all elements of all contexts are terminal numbers -/
def CtxBnd (g : Grammar) (R : List CEntry) : Prop := ∀ e ∈ R, ∀ a ∈ e.2, a < g.nT

theorem la2_lt_nT {g : Grammar} (hsr : g.symsInRange = true) {r d : Nat} {c : List Nat}
    (hc : ∀ a ∈ c, a < g.nT) : ∀ a ∈ la2 g g.analysis r d c, a < g.nT := by
  intro a ha
  cases hr : g.rules[r]? with
  | none => rw [la2_none hr] at ha; simp at ha
  | some rl =>
    rw [mem_la2_iff hr] at ha
    rcases ha with ha | ⟨_, ha⟩
    · refine firstOfStr_inRange (firstTab_subset_univ hsr) ?_ ha
      intro s hs
      exact symsInRange_rhs hsr (List.mem_of_getElem? hr) s (List.mem_of_mem_drop hs)
    · exact hc a ha

theorem ctxRound_bnd {g : Grammar} (hsr : g.symsInRange = true) {items : List Item2}
    (hitems : ∀ p ∈ items, ∀ a ∈ p.ctx, a < g.nT) {R : List CEntry} (hR : CtxBnd g R) :
    CtxBnd g (ctxRound g g.analysis items R) := by
  rw [ctxRound_eq]
  intro e he a ha
  obtain ⟨e0, _, rfl⟩ := List.mem_map.mp he
  simp only at ha
  rcases mem_ctxOf.mp ha with ⟨p, hp, _, h⟩ | ⟨e1, he1, _, h⟩
  · exact la2_lt_nT hsr (hitems p hp) a h
  · exact la2_lt_nT hsr (hR e1 he1) a h

theorem ctxSize_le {g : Grammar} {R : List CEntry} (hc : Canon R) (hb : CtxBnd g R) :
    ctxSize R ≤ R.length * g.nT := by
  induction R with
  | nil => simp [ctxSize]
  | cons e R ih =>
    have h1 := ih (fun x hx => hc x (List.mem_cons_of_mem _ hx))
      (fun x hx => hb x (List.mem_cons_of_mem _ hx))
    have h2 : e.2.length ≤ g.nT :=
      length_le_of_nodup_lt (hc e List.mem_cons_self).nodup (hb e List.mem_cons_self)
    simp only [ctxSize, List.map_cons, List.sum_cons, List.length_cons, Nat.succ_mul] at h1 ⊢
    omega

theorem ctxRound_length (g : Grammar) (an : Analysis) (items : List Item2) (R : List CEntry) :
    (ctxRound g an items R).length = R.length := by
  rw [ctxRound_eq]; simp

/-- with enough fuel, `ctxFix` stops at a fixpoint of `ctxRound` -/
theorem ctxFix_fixpoint {g : Grammar} (hsr : g.symsInRange = true) {items : List Item2}
    (hitems : ∀ p ∈ items, ∀ a ∈ p.ctx, a < g.nT) :
    ∀ (fuel : Nat) (R : List CEntry), Canon R → CtxBnd g R →
      LeCtx R (ctxRound g g.analysis items R) → R.length * g.nT < ctxSize R + fuel →
      ctxRound g g.analysis items (ctxFix g g.analysis items fuel R) =
        ctxFix g g.analysis items fuel R ∧
      Canon (ctxFix g g.analysis items fuel R) ∧ CtxBnd g (ctxFix g g.analysis items fuel R) := by
  intro fuel
  induction fuel with
  | zero =>
    intro R hc hb _ hf
    have := ctxSize_le hc hb
    omega
  | succ fuel ih =>
    intro R hc hb hle hf
    unfold ctxFix
    simp only
    split
    · rename_i heq
      exact ⟨by simpa using heq, hc, hb⟩
    · rename_i hne
      have hne' : ctxRound g g.analysis items R ≠ R := by simpa using hne
      have hc' := ctxRound_canon g g.analysis items R
      have hb' := ctxRound_bnd hsr hitems hb
      have hsz := hle.size hc hc'
      have hlt : ctxSize R < ctxSize (ctxRound g g.analysis items R) := by
        rcases Nat.lt_or_ge (ctxSize R) (ctxSize (ctxRound g g.analysis items R)) with h | h
        · exact h
        · exact absurd (hsz.2 (by omega)).symm hne'
      apply ih _ hc' hb' (ctxRound_mono hle)
      rw [ctxRound_length]
      omega


/-! ## `expand2` -/

def items2 (g : Grammar) (start : List Item2) : List Item2 :=
  start ++ start.flatMap fun it => derived2 g g.analysis it (g.maxRhs + 1)

def pairs2 (g : Grammar) (start : List Item2) : List (Nat × Nat) :=
  saturate (initStep g g.analysis ((items2 g start).map fun it => (it.rule, it.dot)))
    (g.rules.length * (g.maxRhs + 1) + 2) []

def inits2 (g : Grammar) (start : List Item2) : List CEntry :=
  ctxFix g g.analysis (items2 g start) ((pairs2 g start).length * (g.nT + 1) + 2)
    ((pairs2 g start).map fun p => (p, []))

theorem expand2_eq (g : Grammar) (start : List Item2) (j : Nat) :
    expand2 g g.analysis start j =
      items2 g start ++ (inits2 g start).map fun e => ⟨e.1.1, e.1.2, j, e.2⟩ := by
  unfold expand2 items2 inits2 pairs2 items2
  simp only

theorem LeCtx.of_map {R : List CEntry} {f : CEntry → CEntry}
    (hf : ∀ e ∈ R, e.1 = (f e).1 ∧ ∀ a ∈ e.2, a ∈ (f e).2) : LeCtx R (R.map f) := by
  induction R with
  | nil => exact .nil
  | cons e R ih =>
    exact .cons (hf e List.mem_cons_self).1 (hf e List.mem_cons_self).2
      (ih fun x hx => hf x (List.mem_cons_of_mem _ hx))

/-- the facts about the initial items of a set: fixpoint, keys, bounds -/
theorem inits2_spec {g : Grammar} (hsr : g.symsInRange = true) {start : List Item2}
    (hbnd : ∀ s ∈ start, ∀ a ∈ s.ctx, a < g.nT) :
    ctxRound g g.analysis (items2 g start) (inits2 g start) = inits2 g start ∧
    (inits2 g start).map (·.1) = pairs2 g start ∧ CtxBnd g (inits2 g start) := by
  have hitems : ∀ p ∈ items2 g start, ∀ a ∈ p.ctx, a < g.nT := by
    intro p hp
    rcases List.mem_append.mp hp with hp | hp
    · exact hbnd p hp
    · obtain ⟨s, hs, hp⟩ := List.mem_flatMap.mp hp
      obtain ⟨t, _, _, _, rfl⟩ := (mem_derived2_iff _ _ _).mp hp
      exact hbnd s hs
  have h0c : Canon ((pairs2 g start).map fun p => ((p, []) : CEntry)) := by
    intro e he
    obtain ⟨p, _, rfl⟩ := List.mem_map.mp he
    exact List.Pairwise.nil
  have h0b : CtxBnd g ((pairs2 g start).map fun p => ((p, []) : CEntry)) := by
    intro e he a ha
    obtain ⟨p, _, rfl⟩ := List.mem_map.mp he
    simp at ha
  have h0l : LeCtx ((pairs2 g start).map fun p => ((p, []) : CEntry))
      (ctxRound g g.analysis (items2 g start) ((pairs2 g start).map fun p => (p, []))) := by
    rw [ctxRound_eq]
    apply LeCtx.of_map
    intro e he
    obtain ⟨p, _, rfl⟩ := List.mem_map.mp he
    exact ⟨rfl, by simp⟩
  obtain ⟨h1, _, h3⟩ := ctxFix_fixpoint hsr hitems ((pairs2 g start).length * (g.nT + 1) + 2)
    _ h0c h0b h0l (by
      simp only [List.length_map, Nat.mul_add, Nat.mul_one]
      omega)
  refine ⟨h1, ?_, h3⟩
  unfold inits2
  rw [ctxFix_keys]
  simp [Function.comp_def]

/-- at the fixpoint, the context of an initial item is `ctxOf` of its left-hand side -/
theorem inits2_ctx {g : Grammar} {start : List Item2}
    (hfp : ctxRound g g.analysis (items2 g start) (inits2 g start) = inits2 g start)
    {e : CEntry} (he : e ∈ inits2 g start) :
    e.2 = ctxOf g g.analysis (items2 g start) (inits2 g start) (lhsOf g e.1.1) := by
  rw [← hfp, ctxRound_eq] at he
  obtain ⟨e0, _, rfl⟩ := List.mem_map.mp he
  rfl

theorem lhsOf_eq {g : Grammar} {r : Nat} {rl : Rule} (h : g.rules[r]? = some rl) :
    lhsOf g r = rl.lhs := by
  unfold lhsOf; rw [h]

theorem mem_expand2_iff {g : Grammar} {start : List Item2} {j : Nat} {x : Item2} :
    x ∈ expand2 g g.analysis start j ↔
      x ∈ items2 g start ∨ ∃ e ∈ inits2 g start, x = ⟨e.1.1, e.1.2, j, e.2⟩ := by
  rw [expand2_eq, List.mem_append, List.mem_map]
  constructor
  · rintro (h | ⟨e, he, rfl⟩)
    · exact .inl h
    · exact .inr ⟨e, he, rfl⟩
  · rintro (h | ⟨e, he, rfl⟩)
    · exact .inl h
    · exact .inr ⟨e, he, rfl⟩

theorem mem_items2_iff {g : Grammar} {start : List Item2} {x : Item2} :
    x ∈ items2 g start ↔ ∃ s ∈ start, ∃ t, t ≤ g.maxRhs + 1 ∧ NullRun g s.rule s.dot t ∧
      x = { s with dot := s.dot + t } := by
  unfold items2
  rw [List.mem_append, List.mem_flatMap]
  constructor
  · rintro (h | ⟨s, hs, h⟩)
    · exact ⟨x, h, 0, Nat.zero_le _, fun t' ht' => absurd ht' (Nat.not_lt_zero _), by simp⟩
    · obtain ⟨t, _, h2, h3, rfl⟩ := (mem_derived2_iff _ _ _).mp h
      exact ⟨s, hs, t, h2, h3, rfl⟩
  · rintro ⟨s, hs, t, h2, h3, rfl⟩
    by_cases ht : t = 0
    · subst ht; exact .inl (by simpa using hs)
    · exact .inr ⟨s, hs, (mem_derived2_iff _ _ _).mpr ⟨t, by omega, h2, h3, rfl⟩⟩

/-- closure of a set under advancing over a nullable nonterminal -/
theorem expand2_null {g : Grammar} (hsr : g.symsInRange = true) {start : List Item2} {j : Nat}
    (hbnd : ∀ s ∈ start, ∀ a ∈ s.ctx, a < g.nT) {r d i B : Nat} {c : List Nat}
    (hp : (⟨r, d, i, c⟩ : Item2) ∈ expand2 g g.analysis start j)
    (hns : g.nextSym r d = some (Sym.n B)) (hB : B ∈ g.nullable) :
    (⟨r, d + 1, i, c⟩ : Item2) ∈ expand2 g g.analysis start j := by
  obtain ⟨hfp, hkeys, _⟩ := inits2_spec hsr hbnd
  rw [mem_expand2_iff] at hp ⊢
  rcases hp with hp | ⟨e, he, hx⟩
  · left
    obtain ⟨s, hs, t, ht, hrun, hx⟩ := mem_items2_iff.mp hp
    injection hx with h1 h2 h3 h4
    obtain ⟨rl, hr, hsym⟩ := nextSym_eq_some.mp hns
    have hlt := (List.getElem?_eq_some_iff.mp hsym).1
    have hmax := le_maxRhs (List.mem_of_getElem? hr)
    refine mem_items2_iff.mpr ⟨s, hs, t + 1, by omega, ?_, ?_⟩
    · intro t' ht'
      rcases Nat.lt_or_ge t' t with hlt' | hge
      · exact hrun t' hlt'
      · have : t' = t := by omega
        subst this
        exact ⟨B, by rw [← h1, ← h2]; exact hns, hB⟩
    · simp only [Item2.mk.injEq]
      exact ⟨h1, by omega, h3, h4⟩
  · right
    injection hx with h1 h2 h3 h4
    have hkey : (r, d) ∈ pairs2 g start := by
      rw [← hkeys]; exact List.mem_map.mpr ⟨e, he, by rw [h1, h2]⟩
    have hkey' : (r, d + 1) ∈ pairs2 g start := by
      apply pairs_closed g g.analysis _
      exact mem_initStep.mpr (.inr ⟨(r, d), hkey, B, hns, hB, rfl⟩)
    rw [← hkeys] at hkey'
    obtain ⟨e2, he2, hk2⟩ := List.mem_map.mp hkey'
    refine ⟨e2, he2, ?_⟩
    have hc2 := inits2_ctx hfp he2
    have hc1 := inits2_ctx hfp he
    rw [hk2] at hc2
    rw [← h1] at hc1
    simp only at hc2
    simp only [Item2.mk.injEq]
    refine ⟨by rw [hk2], by rw [hk2], h3, ?_⟩
    rw [h4, hc1, hc2]

/-- closure of a set under prediction, with the context inclusion -/
theorem expand2_pred {g : Grammar} (hsr : g.symsInRange = true) {start : List Item2} {j : Nat}
    (hbnd : ∀ s ∈ start, ∀ a ∈ s.ctx, a < g.nT) {r d i B r' : Nat} {c : List Nat} {rl' : Rule}
    (hp : (⟨r, d, i, c⟩ : Item2) ∈ expand2 g g.analysis start j)
    (hns : g.nextSym r d = some (Sym.n B)) (hr' : g.rules[r']? = some rl') (hl : rl'.lhs = B) :
    ∃ c', (⟨r', 0, j, c'⟩ : Item2) ∈ expand2 g g.analysis start j ∧
      ∀ a ∈ la2 g g.analysis r (d + 1) c, a ∈ c' := by
  obtain ⟨hfp, hkeys, _⟩ := inits2_spec hsr hbnd
  have hrf : r' ∈ g.rulesFor B := mem_rulesFor.mpr ⟨rl', hr', hl⟩
  have hkey' : ((r, d) ∈ (items2 g start).map (fun it => (it.rule, it.dot)) ∨
      (r, d) ∈ pairs2 g start) → (r', 0) ∈ pairs2 g start := by
    intro h
    apply pairs_closed g g.analysis _
    exact mem_initStep.mpr (.inl ⟨(r, d), List.mem_append.mpr h, B, hns, hrf, rfl⟩)
  have hfin : (r', 0) ∈ pairs2 g start →
      (∀ a ∈ la2 g g.analysis r (d + 1) c,
        a ∈ ctxOf g g.analysis (items2 g start) (inits2 g start) B) →
      ∃ c', (⟨r', 0, j, c'⟩ : Item2) ∈ expand2 g g.analysis start j ∧
        ∀ a ∈ la2 g g.analysis r (d + 1) c, a ∈ c' := by
    intro hk hsub
    rw [← hkeys] at hk
    obtain ⟨e2, he2, hk2⟩ := List.mem_map.mp hk
    have hc2 := inits2_ctx hfp he2
    rw [hk2] at hc2
    simp only at hc2
    rw [lhsOf_eq hr', hl] at hc2
    refine ⟨e2.2, mem_expand2_iff.mpr (.inr ⟨e2, he2, by rw [hk2]⟩), ?_⟩
    rw [hc2]; exact hsub
  rcases mem_expand2_iff.mp hp with hp | ⟨e, he, hx⟩
  · apply hfin (hkey' (.inl (List.mem_map.mpr ⟨_, hp, rfl⟩)))
    intro a ha
    exact mem_ctxOf.mpr (.inl ⟨_, hp, hns, ha⟩)
  · injection hx with h1 h2 h3 h4
    have hkey : (r, d) ∈ pairs2 g start := by
      rw [← hkeys]; exact List.mem_map.mpr ⟨e, he, by rw [h1, h2]⟩
    apply hfin (hkey' (.inr hkey))
    intro a ha
    exact mem_ctxOf.mpr (.inr ⟨e, he, by rw [← h1, ← h2]; exact hns, by rw [← h1, ← h2, ← h4]; exact ha⟩)


/-! ## `startLoop` -/

/-- the items `startLoop` adds when it processes the start item `it` -/
def more2 (g : Grammar) (an : Analysis) (nxt : Option Nat) (pl : List (List Item2)) (it : Item2) :
    List Item2 :=
  let tailNullable := match g.rules[it.rule]? with
    | some rl => (firstOfStr an.nl an.fs (rl.rhs.drop it.dot)).2
    | none => false
  let lhs := match g.rules[it.rule]? with | some rl => rl.lhs | none => 0
  if tailNullable && it.origin < pl.length then
    (pl.getD it.origin []).filterMap fun p =>
      if g.nextSym p.rule p.dot = some (.n lhs) ∧ ok2 g an nxt p.rule (p.dot + 1) p.ctx = true
      then some ({ p with dot := p.dot + 1 } : Item2) else none
  else []

theorem startLoop_succ (g : Grammar) (an : Analysis) (nxt : Option Nat) (pl : List (List Item2))
    (fuel : Nat) (start : List Item2) (k : Nat) :
    startLoop g an nxt pl (fuel + 1) start k =
      match start[k]? with
      | none => start
      | some it => startLoop g an nxt pl fuel (addNew start (more2 g an nxt pl it)) (k + 1) := rfl

theorem mem_more2 {g : Grammar} {an : Analysis} {nxt : Option Nat} {pl : List (List Item2)}
    {it x : Item2} : x ∈ more2 g an nxt pl it ↔
      ∃ rl, g.rules[it.rule]? = some rl ∧ (firstOfStr an.nl an.fs (rl.rhs.drop it.dot)).2 = true ∧
        it.origin < pl.length ∧ ∃ p ∈ pl.getD it.origin [],
          g.nextSym p.rule p.dot = some (.n rl.lhs) ∧
          ok2 g an nxt p.rule (p.dot + 1) p.ctx = true ∧ x = { p with dot := p.dot + 1 } := by
  unfold more2
  cases hr : g.rules[it.rule]? with
  | none => simp
  | some rl =>
    simp only
    constructor
    · intro h
      split at h
      · rename_i hc
        rw [Bool.and_eq_true, decide_eq_true_eq] at hc
        obtain ⟨p, hp, hx⟩ := List.mem_filterMap.mp h
        split at hx
        · rename_i hcond
          injection hx with hx
          exact ⟨rl, rfl, hc.1, hc.2, p, hp, hcond.1, hcond.2, hx.symm⟩
        · simp at hx
      · simp at h
    · rintro ⟨rl', hrl, h1, h2, p, hp, h3, h4, rfl⟩
      injection hrl with hrl; subst hrl
      rw [if_pos (by rw [Bool.and_eq_true, decide_eq_true_eq]; exact ⟨h1, h2⟩)]
      exact List.mem_filterMap.mpr ⟨p, hp, by rw [if_pos ⟨h3, h4⟩]⟩

theorem addNew_prefix {α : Type} [DecidableEq α] (s xs : List α) : s <+: addNew s xs := by
  induction xs generalizing s with
  | nil => simp [addNew]
  | cons x xs ih =>
    unfold addNew
    split
    · exact ih s
    · exact (List.prefix_append s [x]).trans (ih _)

theorem prefix_getElem? {α : Type} {s t : List α} (h : s <+: t) {k : Nat} {x : α}
    (hk : s[k]? = some x) : t[k]? = some x := by
  obtain ⟨u, rfl⟩ := h
  rw [List.getElem?_append_left (List.getElem?_eq_some_iff.mp hk).1]; exact hk

/-- `startLoop` extends the list, and has processed every index in `[k, k + fuel)` -/
theorem startLoop_spec (g : Grammar) (an : Analysis) (nxt : Option Nat) (pl : List (List Item2)) :
    ∀ (fuel : Nat) (start : List Item2) (k : Nat),
      start <+: startLoop g an nxt pl fuel start k ∧
      ∀ idx it, k ≤ idx → idx < k + fuel → (startLoop g an nxt pl fuel start k)[idx]? = some it →
        ∀ x ∈ more2 g an nxt pl it, x ∈ startLoop g an nxt pl fuel start k := by
  intro fuel
  induction fuel with
  | zero =>
    intro start k
    exact ⟨List.prefix_refl _, fun idx it h1 h2 => by omega⟩
  | succ fuel ih =>
    intro start k
    rw [startLoop_succ]
    cases hk : start[k]? with
    | none =>
      simp only
      refine ⟨List.prefix_refl _, ?_⟩
      intro idx it h1 _ h3
      have := List.getElem?_eq_none_iff.mp hk
      have := (List.getElem?_eq_some_iff.mp h3).1
      omega
    | some it0 =>
      simp only
      obtain ⟨hpre, hdone⟩ := ih (addNew start (more2 g an nxt pl it0)) (k + 1)
      have hpre0 := addNew_prefix start (more2 g an nxt pl it0)
      refine ⟨hpre0.trans hpre, ?_⟩
      intro idx it h1 h2 h3 x hx
      rcases Nat.eq_or_lt_of_le h1 with heq | hlt
      · subst heq
        have h4 := prefix_getElem? (hpre0.trans hpre) hk
        rw [h3] at h4; injection h4 with h4; subst h4
        exact hpre.subset (addNew_subset_right _ _ hx)
      · exact hdone idx it hlt (by omega) h3 x hx

theorem nodup_map_of_inj_on {α β : Type} {l : List α} {f : α → β} (hl : l.Nodup)
    (hinj : ∀ a ∈ l, ∀ b ∈ l, f a = f b → a = b) : (l.map f).Nodup := by
  induction l with
  | nil => simp
  | cons x l ih =>
    have hx := List.nodup_cons.1 hl
    simp only [List.map_cons]
    refine List.nodup_cons.2 ⟨?_, ih hx.2 fun a ha b hb => hinj a (by simp [ha]) b (by simp [hb])⟩
    intro hmem
    obtain ⟨y, hy, hfy⟩ := List.mem_map.1 hmem
    have := hinj y (by simp [hy]) x (by simp) hfy
    subst this
    exact hx.1 hy

theorem startLoop_nodup (g : Grammar) (an : Analysis) (nxt : Option Nat) (pl : List (List Item2)) :
    ∀ (fuel : Nat) (start : List Item2) (k : Nat), start.Nodup →
      (startLoop g an nxt pl fuel start k).Nodup := by
  intro fuel
  induction fuel with
  | zero => intro start k h; exact h
  | succ fuel ih =>
    intro start k h
    rw [startLoop_succ]
    split
    · exact h
    · exact ih _ _ (addNew_nodup _ h)

/-- every item of the list comes from an item satisfying `P` by advancing the dot -/
theorem startLoop_from {g : Grammar} {an : Analysis} {nxt : Option Nat} {pl : List (List Item2)}
    (P : Item2 → Prop) (hP : ∀ k p, p ∈ pl.getD k [] → P { p with dot := p.dot + 1 }) :
    ∀ (fuel : Nat) (start : List Item2) (k : Nat), (∀ s ∈ start, P s) →
      ∀ s ∈ startLoop g an nxt pl fuel start k, P s := by
  intro fuel
  induction fuel with
  | zero => intro start k h; exact h
  | succ fuel ih =>
    intro start k h
    rw [startLoop_succ]
    split
    · exact h
    · rename_i it _
      apply ih
      intro s hs
      rcases mem_addNew hs with hs | hs
      · exact h s hs
      · obtain ⟨_, _, _, _, p, hp, _, _, rfl⟩ := mem_more2.mp hs
        exact hP _ p hp


/-! ## where the items of a set come from -/

theorem expand2_src {g : Grammar} {start : List Item2} {j : Nat} {x : Item2}
    (hx : x ∈ expand2 g g.analysis start j) :
    (∃ s ∈ start, s.rule = x.rule ∧ s.origin = x.origin ∧ s.ctx = x.ctx) ∨
    (x.origin = j ∧ ∃ e ∈ inits2 g start, x = ⟨e.1.1, e.1.2, j, e.2⟩) := by
  rcases mem_expand2_iff.mp hx with h | ⟨e, he, rfl⟩
  · obtain ⟨s, hs, t, _, _, rfl⟩ := mem_items2_iff.mp h
    exact .inl ⟨s, hs, rfl, rfl, rfl⟩
  · exact .inr ⟨rfl, e, he, rfl⟩

theorem expand2_bnd {g : Grammar} (hsr : g.symsInRange = true) {start : List Item2} {j : Nat}
    (hbnd : ∀ s ∈ start, ∀ a ∈ s.ctx, a < g.nT) :
    ∀ x ∈ expand2 g g.analysis start j, ∀ a ∈ x.ctx, a < g.nT := by
  intro x hx
  rcases expand2_src hx with ⟨s, hs, _, _, hc⟩ | ⟨_, e, he, rfl⟩
  · rw [← hc]; exact hbnd s hs
  · exact (inits2_spec hsr hbnd).2.2 e he

theorem start_subset_expand2 {g : Grammar} {start : List Item2} {j : Nat} :
    start ⊆ expand2 g g.analysis start j := by
  intro x hx
  exact mem_expand2_iff.mpr (.inl (List.mem_append_left _ hx))

/-- the rule of an initial item belongs to a nonterminal that occurs in a right-hand side -/
theorem pairs2_occurs {g : Grammar} {start : List Item2} :
    ∀ p ∈ pairs2 g start, ∃ B q1 q2, g.nextSym q1 q2 = some (Sym.n B) ∧ p.1 ∈ g.rulesFor B := by
  unfold pairs2
  apply saturate_sound (initStep g g.analysis _)
    (fun p : Nat × Nat => ∃ B q1 q2, g.nextSym q1 q2 = some (Sym.n B) ∧ p.1 ∈ g.rulesFor B)
  · intro s hs p hp
    rcases mem_initStep.mp hp with ⟨q, _, B, hns, hr2, _⟩ | ⟨q, hq, B, _, _, he⟩
    · exact ⟨B, q.1, q.2, hns, hr2⟩
    · subst he; exact hs q hq
  · simp

theorem inits2_same_rule {g : Grammar} (hsr : g.symsInRange = true) {start : List Item2}
    (hbnd : ∀ s ∈ start, ∀ a ∈ s.ctx, a < g.nT) {e e' : CEntry} (he : e ∈ inits2 g start)
    (he' : e' ∈ inits2 g start) (h : e.1.1 = e'.1.1) : e.2 = e'.2 := by
  have hfp := (inits2_spec hsr hbnd).1
  rw [inits2_ctx hfp he, inits2_ctx hfp he', h]

/-! ## the invariants of the parse list -/

/-- contexts are determined by rule and origin, throughout the parse list -/
def CtxDet (pl : List (List Item2)) : Prop :=
  ∀ k1 k2 p q, p ∈ pl.getD k1 [] → q ∈ pl.getD k2 [] → p.rule = q.rule → p.origin = q.origin →
    p.ctx = q.ctx

def CtxBndPL (g : Grammar) (pl : List (List Item2)) : Prop :=
  ∀ k p, p ∈ pl.getD k [] → ∀ a ∈ p.ctx, a < g.nT

/-- the item has the rule, origin and context of some item of the parse list -/
def FromPL (pl : List (List Item2)) (x : Item2) : Prop :=
  ∃ k p, p ∈ pl.getD k [] ∧ p.rule = x.rule ∧ p.origin = x.origin ∧ p.ctx = x.ctx

theorem getD_append_left' {α : Type} {pl : List (List α)} {s : List α} {k : Nat}
    (h : k < pl.length) : (pl ++ [s]).getD k [] = pl.getD k [] := by
  rw [List.getD_eq_getElem?_getD, List.getD_eq_getElem?_getD, List.getElem?_append_left h]

theorem getD_append_right' {α : Type} {pl : List (List α)} {s : List α} :
    (pl ++ [s]).getD pl.length [] = s := by
  rw [List.getD_eq_getElem?_getD, List.getElem?_append_right (Nat.le_refl _)]
  simp

theorem mem_getD_append {α : Type} {pl : List (List α)} {s : List α} {k : Nat} {x : α}
    (h : x ∈ (pl ++ [s]).getD k []) :
    (k < pl.length ∧ x ∈ pl.getD k []) ∨ (k = pl.length ∧ x ∈ s) := by
  have hk := mem_getD_lt h
  rw [List.length_append, List.length_singleton] at hk
  rcases Nat.lt_or_ge k pl.length with hlt | hge
  · rw [getD_append_left' hlt] at h; exact .inl ⟨hlt, h⟩
  · have : k = pl.length := by omega
    subst this
    rw [getD_append_right'] at h; exact .inr ⟨rfl, h⟩

/-- the start list `nextSet2` expands -/
def startOf (g : Grammar) (nxt : Option Nat) (pl : List (List Item2)) (a : Nat) : List Item2 :=
  startLoop g g.analysis nxt pl
    (g.rules.length * (g.maxRhs + 1) * (pl.length + 1) * 4 + 8)
    (addNew [] ((pl.getLastD []).filterMap fun p =>
      if g.nextSym p.rule p.dot = some (.t a) ∧
        ok2 g g.analysis nxt p.rule (p.dot + 1) p.ctx = true
      then some ({ p with dot := p.dot + 1 } : Item2) else none)) 0

theorem nextSet2_eq (g : Grammar) (nxt : Option Nat) (pl : List (List Item2)) (a : Nat) :
    nextSet2 g g.analysis nxt pl a = expand2 g g.analysis (startOf g nxt pl a) pl.length := rfl

theorem startOf_from (g : Grammar) (nxt : Option Nat) (pl : List (List Item2)) (a : Nat) :
    ∀ s ∈ startOf g nxt pl a, FromPL pl s := by
  unfold startOf
  apply startLoop_from (FromPL pl) (fun k p hp => ⟨k, p, hp, rfl, rfl, rfl⟩)
  intro s hs
  rcases mem_addNew hs with hs | hs
  · simp at hs
  · obtain ⟨p, hp, hs⟩ := List.mem_filterMap.mp hs
    split at hs
    · injection hs with hs; subst hs
      have hlt : 0 < pl.length := by
        cases pl with
        | nil => simp at hp
        | cons _ _ => simp
      refine ⟨pl.length - 1, p, ?_, rfl, rfl, rfl⟩
      rw [← getLastD_eq_getD pl (pl.length - 1) [] (by omega)]; exact hp
    · simp at hs

theorem startOf_sound {g : Grammar} {w : List Nat} {nxt : Option Nat} {pl : List (List Item2)}
    {k a : Nat} (hlen : pl.length = k + 1) (hpl : PL2Sound g w pl) (hw : w[k]? = some a) :
    ∀ s ∈ startOf g nxt pl a, Sound2 g w pl.length s := by
  unfold startOf
  apply startLoop_sound hpl
  intro s hs
  rcases mem_addNew hs with hs | hs
  · simp at hs
  · obtain ⟨p, hp, hs⟩ := List.mem_filterMap.mp hs
    split at hs
    · rename_i hc
      injection hs with hs; subst hs
      rw [getLastD_eq_getD pl k [] hlen] at hp
      have := hpl k (by omega) p hp
      rw [hlen]
      exact EarleyF.scan this hc.1 hw rfl
    · simp at hs

theorem startOf_nodup (g : Grammar) (nxt : Option Nat) (pl : List (List Item2)) (a : Nat) :
    (startOf g nxt pl a).Nodup :=
  startLoop_nodup _ _ _ _ _ _ _ (addNew_nodup _ List.nodup_nil)

/-- the fuel of `startLoop` covers the whole start list -/
theorem startOf_length {g : Grammar} {w : List Nat} {nxt : Option Nat} {pl : List (List Item2)}
    {k a : Nat} (hlen : pl.length = k + 1) (hpl : PL2Sound g w pl) (hdet : CtxDet pl)
    (hw : w[k]? = some a) :
    (startOf g nxt pl a).length ≤ g.rules.length * (g.maxRhs + 1) * (pl.length + 1) * 4 + 8 := by
  have hnd := startOf_nodup g nxt pl a
  have hinj : ∀ x ∈ startOf g nxt pl a, ∀ y ∈ startOf g nxt pl a, x.proj = y.proj → x = y := by
    intro x hx y hy hxy
    obtain ⟨k1, p, hp, h1, h2, h3⟩ := startOf_from g nxt pl a x hx
    obtain ⟨k2, q, hq, h4, h5, h6⟩ := startOf_from g nxt pl a y hy
    simp only [Item2.proj, Item.mk.injEq] at hxy
    have hc : x.ctx = y.ctx := by
      rw [← h3, ← h6]
      exact hdet k1 k2 p q hp hq (by rw [h1, h4, hxy.1]) (by rw [h2, h5, hxy.2.2])
    cases x; cases y
    simp only at hxy hc
    simp only [Item2.mk.injEq]
    exact ⟨hxy.1, hxy.2.1, hxy.2.2, hc⟩
  have hnd' := nodup_map_of_inj_on hnd hinj
  have hsub : (startOf g nxt pl a).map Item2.proj ⊆ itemUniv g.rules.length g.maxRhs pl.length := by
    intro y hy
    obtain ⟨x, hx, rfl⟩ := List.mem_map.mp hy
    exact (EarleyF.sound (startOf_sound hlen hpl hw x hx)).in_univ
  have := nodup_subset_length hnd' hsub
  rw [List.length_map, length_itemUniv] at this
  omega

/-- every start item has been processed -/
theorem startOf_done {g : Grammar} {w : List Nat} {nxt : Option Nat} {pl : List (List Item2)}
    {k a : Nat} (hlen : pl.length = k + 1) (hpl : PL2Sound g w pl) (hdet : CtxDet pl)
    (hw : w[k]? = some a) {s : Item2} (hs : s ∈ startOf g nxt pl a) :
    ∀ x ∈ more2 g g.analysis nxt pl s, x ∈ startOf g nxt pl a := by
  obtain ⟨idx, hidx⟩ := List.mem_iff_getElem?.mp hs
  have hl := startOf_length (nxt := nxt) hlen hpl hdet hw
  have hlt := (List.getElem?_eq_some_iff.mp hidx).1
  exact (startLoop_spec g g.analysis nxt pl _ _ 0).2 idx s (Nat.zero_le _)
    (by rw [Nat.zero_add]; exact Nat.lt_of_lt_of_le hlt hl) hidx


/-! ## one step of the parse loop keeps the invariants -/

structure Inv2 (g : Grammar) (w : List Nat) (pl : List (List Item2)) : Prop where
  sound : PL2Sound g w pl
  closed : Closed2 g w pl
  det : CtxDet pl
  bnd : CtxBndPL g pl

theorem startOf_bnd {g : Grammar} {nxt : Option Nat} {pl : List (List Item2)} {a : Nat}
    (hb : CtxBndPL g pl) : ∀ s ∈ startOf g nxt pl a, ∀ x ∈ s.ctx, x < g.nT := by
  intro s hs
  obtain ⟨k, p, hp, _, _, hc⟩ := startOf_from g nxt pl a s hs
  rw [← hc]; exact hb k p hp

theorem origin_le_of_sound {g : Grammar} {w : List Nat} {pl : List (List Item2)}
    (hpl : PL2Sound g w pl) {k : Nat} {p : Item2} (hp : p ∈ pl.getD k []) : p.origin ≤ k := by
  obtain ⟨_, _, _, ho, _⟩ := EarleyF.sound (hpl k (mem_getD_lt hp) p hp)
  exact ho

theorem nextSet2_scan {g : Grammar} {nxt : Option Nat} {pl : List (List Item2)} {k a : Nat}
    (hlen : pl.length = k + 1) {r d i : Nat} {c : List Nat}
    (hp : (⟨r, d, i, c⟩ : Item2) ∈ pl.getD k []) (hns : g.nextSym r d = some (Sym.t a))
    (hok : ok2 g g.analysis nxt r (d + 1) c = true) :
    (⟨r, d + 1, i, c⟩ : Item2) ∈ nextSet2 g g.analysis nxt pl a := by
  rw [nextSet2_eq]
  apply start_subset_expand2
  unfold startOf
  apply (startLoop_spec g g.analysis nxt pl _ _ 0).1.subset
  apply addNew_subset_right
  rw [getLastD_eq_getD pl k [] hlen]
  exact List.mem_filterMap.mpr ⟨_, hp, by rw [if_pos ⟨hns, hok⟩]⟩

theorem nextSet2_comp {g : Grammar} {w : List Nat} {nxt : Option Nat} {pl : List (List Item2)}
    {k a : Nat} (hlen : pl.length = k + 1) (hpl : PL2Sound g w pl) (hdet : CtxDet pl)
    (hw : w[k]? = some a) {k0 r d i r' : Nat} {c c1 : List Nat} {rl' : Rule}
    (hk0 : k0 < pl.length) (hr' : g.rules[r']? = some rl')
    (hq : (⟨r', rl'.rhs.length, k0, c1⟩ : Item2) ∈ nextSet2 g g.analysis nxt pl a)
    (hp : (⟨r, d, i, c⟩ : Item2) ∈ pl.getD k0 [])
    (hns : g.nextSym r d = some (Sym.n rl'.lhs))
    (hok : ok2 g g.analysis nxt r (d + 1) c = true) :
    (⟨r, d + 1, i, c⟩ : Item2) ∈ nextSet2 g g.analysis nxt pl a := by
  rw [nextSet2_eq] at hq ⊢
  apply start_subset_expand2
  rcases mem_expand2_iff.mp hq with hq | ⟨e, _, hx⟩
  · obtain ⟨s, hs, t, _, hrun, hx⟩ := mem_items2_iff.mp hq
    injection hx with h1 h2 h3 h4
    apply startOf_done hlen hpl hdet hw hs
    apply mem_more2.mpr
    refine ⟨rl', by rw [← h1]; exact hr', ?_, by rw [← h3]; exact hk0, ⟨r, d, i, c⟩,
      by rw [← h3]; exact hp, hns, hok, rfl⟩
    have hder := hrun.der (by rw [← h1]; exact hr')
    have : (rl'.rhs.drop s.dot).take t = rl'.rhs.drop s.dot := by
      apply List.take_of_length_le
      simp only [List.length_drop]; omega
    rw [this] at hder
    exact (firstOfStr_snd_iff _).mpr hder
  · injection hx with _ _ h3 _
    omega

theorem Inv2.step {g : Grammar} (hsr : g.symsInRange = true) {w : List Nat}
    {pl : List (List Item2)} {k a : Nat} (hinv : Inv2 g w pl) (hlen : pl.length = k + 1)
    (hw : w[k]? = some a) :
    Inv2 g w (pl ++ [nextSet2 g g.analysis w[k + 1]? pl a]) := by
  have hsb := startOf_bnd (nxt := w[k + 1]?) (a := a) hinv.bnd
  -- facts about the items of the new set
  have hsrc : ∀ x ∈ nextSet2 g g.analysis w[k + 1]? pl a,
      (∃ k' p, k' < pl.length ∧ p ∈ pl.getD k' [] ∧ p.rule = x.rule ∧ p.origin = x.origin ∧
        p.ctx = x.ctx) ∨
      (x.origin = pl.length ∧ ∃ e ∈ inits2 g (startOf g w[k + 1]? pl a),
        x = ⟨e.1.1, e.1.2, pl.length, e.2⟩) := by
    intro x hx
    rw [nextSet2_eq] at hx
    rcases expand2_src hx with ⟨s, hs, h1, h2, h3⟩ | h
    · obtain ⟨k', p, hp, h4, h5, h6⟩ := startOf_from g _ pl a s hs
      exact .inl ⟨k', p, mem_getD_lt hp, hp, by rw [h4, h1], by rw [h5, h2], by rw [h6, h3]⟩
    · exact .inr h
  refine ⟨PL2Sound_snoc hinv.sound (nextSet2_sound hlen hinv.sound hw), ?_, ?_, ?_⟩
  · -- closure
    constructor
    · intro k0 r d i a' c hk hp hns hw' hok
      rw [List.length_append, List.length_singleton] at hk
      rcases mem_getD_append hp with ⟨hlt, hp0⟩ | ⟨he, _⟩
      · rcases Nat.lt_or_ge (k0 + 1) pl.length with h1 | h1
        · rw [getD_append_left' h1]
          exact hinv.closed.scan h1 hp0 hns hw' hok
        · have hk0 : k0 = k := by omega
          subst hk0
          rw [hw] at hw'; injection hw' with hw'; subst hw'
          have hget : ∀ S : List Item2, (pl ++ [S]).getD (k0 + 1) [] = S := by
            intro S
            have : k0 + 1 = pl.length := by omega
            rw [this, getD_append_right']
          rw [hget]
          exact nextSet2_scan hlen hp0 hns hok
      · omega
    · intro k0 r d i B r' c rl' hp hns hr' hl
      rcases mem_getD_append hp with ⟨hlt, hp0⟩ | ⟨he, hp0⟩
      · rw [getD_append_left' hlt]
        exact hinv.closed.pred hp0 hns hr' hl
      · subst he
        rw [getD_append_right']
        rw [nextSet2_eq] at hp0 ⊢
        exact expand2_pred hsr hsb hp0 hns hr' hl
    · intro k0 r d i B c hp hns hB
      rcases mem_getD_append hp with ⟨hlt, hp0⟩ | ⟨he, hp0⟩
      · rw [getD_append_left' hlt]
        exact hinv.closed.null hp0 hns hB
      · subst he
        rw [getD_append_right']
        rw [nextSet2_eq] at hp0 ⊢
        exact expand2_null hsr hsb hp0 hns hB
    · intro j0 k0 r d i r' c c1 rl' hkj hr' hq hp hns hok
      rcases mem_getD_append hq with ⟨hlt, hq0⟩ | ⟨he, hq0⟩
      · have hp' : (⟨r, d, i, c⟩ : Item2) ∈ pl.getD k0 [] := by
          rw [getD_append_left' (by omega)] at hp; exact hp
        rw [getD_append_left' hlt]
        exact hinv.closed.comp hkj hr' hq0 hp' hns hok
      · subst he
        have hp' : (⟨r, d, i, c⟩ : Item2) ∈ pl.getD k0 [] := by
          rw [getD_append_left' hkj] at hp; exact hp
        rw [getD_append_right']
        have hj : pl.length = k + 1 := hlen
        rw [hj] at hok
        exact nextSet2_comp hlen hinv.sound hinv.det hw hkj hr' hq0 hp' hns hok
  · -- contexts determined by rule and origin
    intro k1 k2 p q hp hq hr ho
    rcases mem_getD_append hp with ⟨h1, hp⟩ | ⟨h1, hp⟩
    · rcases mem_getD_append hq with ⟨h2, hq⟩ | ⟨h2, hq⟩
      · exact hinv.det k1 k2 p q hp hq hr ho
      · rcases hsrc q hq with ⟨k', q', _, hq', e1, e2, e3⟩ | ⟨hoq, _⟩
        · rw [← e3]
          exact hinv.det k1 k' p q' hp hq' (by rw [hr, e1]) (by rw [ho, e2])
        · have := origin_le_of_sound hinv.sound hp
          omega
    · rcases mem_getD_append hq with ⟨h2, hq⟩ | ⟨h2, hq⟩
      · rcases hsrc p hp with ⟨k', p', _, hp', e1, e2, e3⟩ | ⟨hop, _⟩
        · rw [← e3]
          exact hinv.det k' k2 p' q hp' hq (by rw [e1, hr]) (by rw [e2, ho])
        · have := origin_le_of_sound hinv.sound hq
          omega
      · rcases hsrc p hp with ⟨k', p', hk', hp', e1, e2, e3⟩ | ⟨hop, e, he, hpe⟩
        · rcases hsrc q hq with ⟨k'', q', _, hq', f1, f2, f3⟩ | ⟨hoq, _⟩
          · rw [← e3, ← f3]
            exact hinv.det k' k'' p' q' hp' hq' (by rw [e1, f1, hr]) (by rw [e2, f2, ho])
          · have := origin_le_of_sound hinv.sound hp'
            omega
        · rcases hsrc q hq with ⟨k'', q', hk'', hq', f1, f2, f3⟩ | ⟨hoq, e', he', hqe⟩
          · have := origin_le_of_sound hinv.sound hq'
            omega
          · subst hpe; subst hqe
            exact inits2_same_rule hsr hsb he he' hr
  · -- bounds
    intro k0 p hp
    rcases mem_getD_append hp with ⟨_, hp⟩ | ⟨_, hp⟩
    · exact hinv.bnd k0 p hp
    · rw [nextSet2_eq] at hp
      exact expand2_bnd hsr hsb p hp


/-! ## the first set -/

def start0 (g : Grammar) : List Item2 := (g.rulesFor g.axiomN).map fun r => ⟨r, 0, 0, []⟩

theorem Inv2.init {g : Grammar} (hwf : g.WF) (hsr : g.symsInRange = true) (w : List Nat) :
    Inv2 g w [expand2 g g.analysis (start0 g) 0] ∧
    (⟨0, 0, 0, []⟩ : Item2) ∈ expand2 g g.analysis (start0 g) 0 := by
  have hsb : ∀ s ∈ start0 g, ∀ a ∈ s.ctx, a < g.nT := by
    intro s hs a ha
    obtain ⟨r, _, rfl⟩ := List.mem_map.mp hs
    simp at ha
  have hmem0 : ∀ {k : Nat} {x : Item2}, x ∈ [expand2 g g.analysis (start0 g) 0].getD k [] →
      k = 0 ∧ x ∈ expand2 g g.analysis (start0 g) 0 := by
    intro k x hx
    have hk := mem_getD_lt hx
    have : k = 0 := by simpa using hk
    subst this
    exact ⟨rfl, by simpa using hx⟩
  refine ⟨⟨?_, ?_, ?_, ?_⟩, ?_⟩
  · intro k hk it hit
    obtain ⟨rfl, hit⟩ := hmem0 hit
    exact set0_2_sound g w it hit
  · constructor
    · intro k r d i a c hk; simp at hk
    · intro k r d i B r' c rl' hp hns hr' hl
      obtain ⟨rfl, hp⟩ := hmem0 hp
      simpa using expand2_pred hsr hsb hp hns hr' hl
    · intro k r d i B c hp hns hB
      obtain ⟨rfl, hp⟩ := hmem0 hp
      simpa using expand2_null hsr hsb hp hns hB
    · intro j k r d i r' c c1 rl' hkj _ hq
      obtain ⟨rfl, _⟩ := hmem0 hq
      omega
  · intro k1 k2 p q hp hq hr _
    obtain ⟨_, hp⟩ := hmem0 hp
    obtain ⟨_, hq⟩ := hmem0 hq
    have hclash : ∀ {x y : Item2}, (∃ s ∈ start0 g, s.rule = x.rule ∧ s.origin = x.origin ∧
        s.ctx = x.ctx) → (∃ e ∈ inits2 g (start0 g), y = ⟨e.1.1, e.1.2, 0, e.2⟩) →
        x.rule = y.rule → False := by
      rintro x y ⟨s, hs, h1, _, _⟩ ⟨e, he, rfl⟩ hxy
      obtain ⟨r, hr, rfl⟩ := List.mem_map.mp hs
      obtain ⟨rl, hrl, hax⟩ := mem_rulesFor.mp hr
      have hkey : e.1 ∈ pairs2 g (start0 g) := by
        rw [← (inits2_spec hsr hsb).2.1]; exact List.mem_map_of_mem he
      obtain ⟨B, q1, q2, hns, hrf⟩ := pairs2_occurs _ hkey
      obtain ⟨rl2, hrl2, hB⟩ := mem_rulesFor.mp hrf
      simp only at h1 hxy
      rw [← hxy, ← h1, hrl] at hrl2
      injection hrl2 with hrl2; subst hrl2
      obtain ⟨rl0, hr0, hs0⟩ := nextSym_eq_some.mp hns
      have hmem : Sym.n B ∈ rl0.rhs := List.mem_of_getElem? hs0
      rw [← hB, hax] at hmem
      exact hwf.2.2.1 rl0 (List.mem_of_getElem? hr0) hmem
    rcases expand2_src hp with hps | ⟨_, hpi⟩
    · rcases expand2_src hq with hqs | ⟨_, hqi⟩
      · obtain ⟨s, hs, _, _, h3⟩ := hps
        obtain ⟨s', hs', _, _, h3'⟩ := hqs
        obtain ⟨r, _, rfl⟩ := List.mem_map.mp hs
        obtain ⟨r', _, rfl⟩ := List.mem_map.mp hs'
        rw [← h3, ← h3']
      · exact absurd hr (fun h => hclash hps hqi h)
    · rcases expand2_src hq with hqs | ⟨_, hqi⟩
      · exact absurd hr.symm (fun h => hclash hqs hpi h)
      · obtain ⟨e, he, rfl⟩ := hpi
        obtain ⟨e', he', rfl⟩ := hqi
        exact inits2_same_rule hsr hsb he he' hr
  · intro k p hp
    obtain ⟨_, hp⟩ := hmem0 hp
    exact expand2_bnd hsr hsb p hp
  · apply start_subset_expand2
    obtain ⟨r0, hr0, hl0, _⟩ := hwf.rule0
    exact List.mem_map.mpr ⟨0, mem_rulesFor.mpr ⟨r0, hr0, hl0⟩, rfl⟩

/-! ## the parse loop -/

theorem parseLoop2_spec {g : Grammar} (hsr : g.symsInRange = true) (w' : List Nat) :
    ∀ (toks : List Nat) (pl : List (List Item2)) (k : Nat), w'.drop k = toks →
      pl.length = k + 1 → Inv2 g w' pl →
      Inv2 g w' (parseLoop2 g g.analysis toks pl k).2 ∧
      pl <+: (parseLoop2 g g.analysis toks pl k).2 ∧
      ∀ e, (parseLoop2 g g.analysis toks pl k).1 = some e →
        (parseLoop2 g g.analysis toks pl k).2.length = e + 1 ∧ e < w'.length ∧
        ¬ HasTrans2At g w' (parseLoop2 g g.analysis toks pl k).2 e := by
  intro toks
  induction toks with
  | nil =>
    intro pl k _ _ hinv
    unfold parseLoop2
    exact ⟨hinv, List.prefix_refl _, fun e he => absurd he (by simp)⟩
  | cons a rest ih =>
    intro pl k hdrop hlen hinv
    obtain ⟨hw, hrest⟩ := drop_succ_of_drop_cons hdrop
    have hklt : k < w'.length := (List.getElem?_eq_some_iff.mp hw).1
    unfold parseLoop2
    by_cases hT : hasTrans2 g (pl.getLastD []) a = true
    · rw [if_pos hT]
      have hhead : rest.head? = w'[k + 1]? := by rw [← hrest, List.head?_drop]
      rw [hhead]
      obtain ⟨h1, h2, h3⟩ := ih _ _ hrest (by rw [List.length_append, hlen]; rfl)
        (hinv.step hsr hlen hw)
      exact ⟨h1, (List.prefix_append pl _).trans h2, h3⟩
    · rw [if_neg hT]
      refine ⟨hinv, List.prefix_refl _, ?_⟩
      intro e he
      have : k = e := by simpa using he
      subst this
      refine ⟨hlen, hklt, ?_⟩
      rintro ⟨p, hp, a', hw', hns⟩
      rw [hw] at hw'; injection hw' with hw'; subst hw'
      apply hT
      rw [getLastD_eq_getD pl k [] hlen]
      exact hasTrans2_iff.mpr ⟨p, hp, hns⟩

/-- for a sentence, `buildPL2` reports no error -/
theorem buildPL2_complete {g : Grammar} {w : List Nat} (hwf : g.WF) (hsr : g.symsInRange = true)
    (hs : Sentence g w) : (buildPL2 g w).1 = none := by
  obtain ⟨hinv0, h0⟩ := Inv2.init hwf hsr (w ++ [g.eofT])
  have hspec := parseLoop2_spec hsr (w ++ [g.eofT]) (w ++ [g.eofT])
    [expand2 g g.analysis (start0 g) 0] 0 rfl rfl hinv0
  have hbuild : buildPL2 g w = parseLoop2 g g.analysis (w ++ [g.eofT])
      [expand2 g g.analysis (start0 g) 0] 0 := rfl
  rw [hbuild]
  obtain ⟨hinv, hpre, herr⟩ := hspec
  cases hres : (parseLoop2 g g.analysis (w ++ [g.eofT]) [expand2 g g.analysis (start0 g) 0] 0).1 with
  | none => rfl
  | some e =>
    exfalso
    obtain ⟨hlen, he, hno⟩ := herr e hres
    apply hno
    have h0' : (⟨0, 0, 0, []⟩ : Item2) ∈
        (parseLoop2 g g.analysis (w ++ [g.eofT]) [expand2 g g.analysis (start0 g) 0] 0).2.getD 0 [] := by
      obtain ⟨t, ht⟩ := hpre
      rw [← ht]
      simpa using h0
    exact trans2_of_der_axiom hwf hsr hinv.closed h0' (der_axiom_of_sentence hs) e he
      (by rw [hlen]; exact Nat.lt_succ_self _)


/-! ## the first error -/

theorem prefix_getD {α : Type} {pl pl' : List (List α)} (h : pl <+: pl') {m : Nat}
    (hm : m < pl.length) : pl'.getD m [] = pl.getD m [] := by
  obtain ⟨t, rfl⟩ := h
  rw [List.getD_eq_getElem?_getD, List.getD_eq_getElem?_getD, List.getElem?_append_left hm]

theorem HasTrans2At.mono_prefix {g : Grammar} {w : List Nat} {pl pl' : List (List Item2)}
    (h : pl <+: pl') {m : Nat} (ht : HasTrans2At g w pl m) : HasTrans2At g w pl' m := by
  obtain ⟨p, hp, a, hw, hns⟩ := ht
  exact ⟨p, by rw [prefix_getD h (mem_getD_lt hp)]; exact hp, a, hw, hns⟩

/-- every position before the reported error (every position, if none is reported) has a
transition -/
theorem parseLoop2_trans {g : Grammar} (w' : List Nat) :
    ∀ (toks : List Nat) (pl : List (List Item2)) (k : Nat), w'.drop k = toks →
      pl.length = k + 1 → (∀ m, m < k → HasTrans2At g w' pl m) →
      (∀ e, (parseLoop2 g g.analysis toks pl k).1 = some e →
        ∀ m, m < e → HasTrans2At g w' (parseLoop2 g g.analysis toks pl k).2 m) ∧
      ((parseLoop2 g g.analysis toks pl k).1 = none →
        ∀ m, m < w'.length → HasTrans2At g w' (parseLoop2 g g.analysis toks pl k).2 m) := by
  intro toks
  induction toks with
  | nil =>
    intro pl k hdrop _ htr
    have hge : w'.length ≤ k := List.drop_eq_nil_iff.mp hdrop
    unfold parseLoop2
    exact ⟨fun e he => absurd he (by simp), fun _ m hm => htr m (by omega)⟩
  | cons a rest ih =>
    intro pl k hdrop hlen htr
    obtain ⟨hw, hrest⟩ := drop_succ_of_drop_cons hdrop
    unfold parseLoop2
    by_cases hT : hasTrans2 g (pl.getLastD []) a = true
    · rw [if_pos hT]
      apply ih _ _ hrest (by rw [List.length_append, hlen]; rfl)
      intro m hm
      apply HasTrans2At.mono_prefix (List.prefix_append pl _)
      rcases Nat.eq_or_lt_of_le (Nat.le_of_lt_succ hm) with heq | hlt
      · subst heq
        rw [getLastD_eq_getD pl m [] hlen] at hT
        obtain ⟨p, hp, hns⟩ := hasTrans2_iff.mp hT
        exact ⟨p, hp, a, hw, hns⟩
      · exact htr m hlt
    · rw [if_neg hT]
      refine ⟨?_, fun h => absurd h (by simp)⟩
      intro e he m hm
      have : k = e := by simpa using he
      subst this
      exact htr m hm

theorem getD_take {α : Type} {pl : List (List α)} {L k : Nat} {x : α}
    (h : x ∈ (pl.take L).getD k []) : k < L ∧ x ∈ pl.getD k [] := by
  have hk := mem_getD_lt h
  rw [List.length_take] at hk
  have hkL : k < L := by omega
  refine ⟨hkL, ?_⟩
  rw [List.getD_eq_getElem?_getD, List.getElem?_take, if_pos hkL, ← List.getD_eq_getElem?_getD] at h
  exact h

theorem getD_take_of_lt {α : Type} {pl : List (List α)} {L k : Nat} (h : k < L) :
    (pl.take L).getD k [] = pl.getD k [] := by
  rw [List.getD_eq_getElem?_getD, List.getElem?_take, if_pos h, ← List.getD_eq_getElem?_getD]

/-- the first `L` sets only depend on the first `L` tokens -/
theorem Closed2.truncate {g : Grammar} {w x : List Nat} {pl : List (List Item2)}
    (h : Closed2 g w pl) {L : Nat} (hL : L ≤ pl.length) (hx : ∀ m, m < L → x[m]? = w[m]?) :
    Closed2 g x (pl.take L) := by
  have hlen : (pl.take L).length = L := by rw [List.length_take]; omega
  constructor
  · intro k r d i a c hk hp hns hw hok
    rw [hlen] at hk
    obtain ⟨_, hp⟩ := getD_take hp
    rw [getD_take_of_lt hk]
    rw [hx k (by omega)] at hw
    rw [hx (k + 1) hk] at hok
    exact h.scan (by omega) hp hns hw hok
  · intro k r d i B r' c rl' hp hns hr' hl
    obtain ⟨hk, hp⟩ := getD_take hp
    rw [getD_take_of_lt hk]
    exact h.pred hp hns hr' hl
  · intro k r d i B c hp hns hB
    obtain ⟨hk, hp⟩ := getD_take hp
    rw [getD_take_of_lt hk]
    exact h.null hp hns hB
  · intro j k r d i r' c c1 rl' hkj hr' hq hp hns hok
    obtain ⟨hj, hq⟩ := getD_take hq
    obtain ⟨_, hp⟩ := getD_take hp
    rw [getD_take_of_lt hj]
    rw [hx j hj] at hok
    exact h.comp hkj hr' hq hp hns hok

/-- if the tokens up to and including token `m` can be continued to a sentence, set `m` (if
it exists) has a transition on token `m` -/
theorem hasTrans2At_of_viable {g : Grammar} (hwf : g.WF) (hsr : g.symsInRange = true)
    {w : List Nat} {pl : List (List Item2)} (hcl : Closed2 g w pl)
    (h0 : (⟨0, 0, 0, []⟩ : Item2) ∈ pl.getD 0 []) {m : Nat} (hm : m < w.length)
    (hml : m < pl.length) {v : List Nat}
    (hd : Der g [Sym.n g.startN, Sym.t g.eofT] (w.take (m + 1) ++ v)) :
    HasTrans2At g w pl m := by
  have hpre : ∀ k, k ≤ m → (w.take (m + 1) ++ v)[k]? = w[k]? :=
    fun k hk => getElem?_take_append hm hk
  have hcl' := hcl.truncate (L := m + 1) (x := w.take (m + 1) ++ v) (by omega)
    (fun k hk => hpre k (by omega))
  have h0' : (⟨0, 0, 0, []⟩ : Item2) ∈ (pl.take (m + 1)).getD 0 [] := by
    rw [getD_take_of_lt (by omega)]; exact h0
  have hlen : m < (w.take (m + 1) ++ v).length := by
    rw [List.length_append, List.length_take]; omega
  obtain ⟨p, hp, a, hw, hns⟩ := trans2_of_der_axiom hwf hsr hcl' h0' hd m hlen
    (by rw [List.length_take]; omega)
  rw [getD_take_of_lt (by omega)] at hp
  exact ⟨p, hp, a, by rw [← hpre m (Nat.le_refl _)]; exact hw, hns⟩

theorem HasTrans2At.toF {g : Grammar} {w : List Nat} {pl : List (List Item2)}
    (hpl : PL2Sound g w pl) {m : Nat} (h : HasTrans2At g w pl m) : HasTransF g okT w m := by
  obtain ⟨p, hp, a, hw, hns⟩ := h
  exact ⟨p.rule, p.dot, p.origin, a, hpl m (mem_getD_lt hp) p hp, hw, hns⟩

/-- the token reported at level 2 is the first one that makes the prefix non-viable -/
theorem buildPL2_error_iff {g : Grammar} {w : List Nat} (hwf : g.WF)
    (hsr : g.symsInRange = true) (hprod : ∀ A, A < g.nN → A ∈ g.productive)
    (htok : ∀ a ∈ w, a ≠ g.eofT ∧ a ≠ g.errT) (k : Nat) :
    (buildPL2 g w).1 = some k ↔
      k < (w ++ [g.eofT]).length ∧
      (¬ ∃ v, Der g [Sym.n g.startN, Sym.t g.eofT] ((w ++ [g.eofT]).take (k + 1) ++ v)) ∧
      ∀ m, m < k →
        ∃ v, Der g [Sym.n g.startN, Sym.t g.eofT] ((w ++ [g.eofT]).take (m + 1) ++ v) := by
  obtain ⟨hinv0, h0⟩ := Inv2.init hwf hsr (w ++ [g.eofT])
  obtain ⟨hinv, hpre, herr⟩ := parseLoop2_spec hsr (w ++ [g.eofT]) (w ++ [g.eofT])
    [expand2 g g.analysis (start0 g) 0] 0 rfl rfl hinv0
  obtain ⟨htr1, htr2⟩ := parseLoop2_trans (g := g) (w ++ [g.eofT]) (w ++ [g.eofT])
    [expand2 g g.analysis (start0 g) 0] 0 rfl rfl (fun m hm => absurd hm (Nat.not_lt_zero _))
  have hbuild : buildPL2 g w = parseLoop2 g g.analysis (w ++ [g.eofT])
      [expand2 g g.analysis (start0 g) 0] 0 := rfl
  rw [← hbuild] at hinv hpre herr htr1 htr2
  have h0' : (⟨0, 0, 0, []⟩ : Item2) ∈ (buildPL2 g w).2.getD 0 [] := by
    obtain ⟨t, ht⟩ := hpre
    rw [← ht]; simpa using h0
  have herr0 := getElem?_zero_ne_err hwf htok
  have hviab : ∀ m, HasTrans2At g (w ++ [g.eofT]) (buildPL2 g w).2 m →
      ∃ v, Der g [Sym.n g.startN, Sym.t g.eofT] ((w ++ [g.eofT]).take (m + 1) ++ v) :=
    fun m h => (h.toF hinv.sound).viable hwf hsr hprod herr0
  constructor
  · intro hres
    obtain ⟨hlen, hk, hno⟩ := herr k hres
    refine ⟨hk, ?_, fun m hm => hviab m (htr1 k hres m hm)⟩
    rintro ⟨v, hv⟩
    exact hno (hasTrans2At_of_viable hwf hsr hinv.closed h0' hk (by rw [hlen]; omega) hv)
  · rintro ⟨hk, hnv, hall⟩
    cases hres : (buildPL2 g w).1 with
    | none => exact absurd (hviab k (htr2 hres k hk)) hnv
    | some e =>
      obtain ⟨hlen, he, hno⟩ := herr e hres
      rcases Nat.lt_trichotomy e k with hlt | heq | hgt
      · obtain ⟨v, hv⟩ := hall e hlt
        exact absurd (hasTrans2At_of_viable hwf hsr hinv.closed h0' he
          (by rw [hlen]; omega) hv) hno
      · rw [heq]
      · exact absurd (hviab k (htr1 e hres k hgt)) hnv

end Yaep
