import Yaep.Lemmas.MakeParseAllAdvance
/-!
# All-parses mode: a new parse state (and possibly its new abstract-node cell) on top of the stack
-/
namespace Yaep.MP
open Yaep

theorem Proc.congr {g : Grammar} {sts sts' : Array PState} {x : Nat} {pl : Nat × Nat}
    (h1 : sts'.getD x default = sts.getD x default)
    (h2 : (sts'.getD (sts.getD x default).parent default).anode =
      (sts.getD (sts.getD x default).parent default).anode)
    (hp : Proc g sts x pl) : Proc g sts' x pl := by
  obtain ⟨rl, q, d, p1, p2, p3, p4⟩ := hp
  refine ⟨rl, q, d, by rw [h1]; exact p1, by rw [h1]; exact p2, p3, ?_⟩
  rw [p4, h1]
  exact (placeOfSt_congr rfl rfl rfl h2).symm

theorem Owes.congr {g : Grammar} {sts sts' : Array PState} {z : Nat} {pl : Nat × Nat}
    (h1 : sts'.getD z default = sts.getD z default)
    (h2 : (sts'.getD (sts.getD z default).parent default).anode =
      (sts.getD (sts.getD z default).parent default).anode)
    (ho : Owes g sts z pl) : Owes g sts' z pl := by
  obtain ⟨o1, o2, rl, o3, o4⟩ := ho
  exact ⟨by rw [h1]; exact o1, by rw [h1, h2]; exact o2, rl, by rw [h1]; exact o3, by rw [h1]; exact o4⟩

theorem getKid_push_ne_none {h : Array MNode} {c : MNode} {pl : Nat × Nat}
    (hk : getKid h pl.1 pl.2 ≠ none) : getKid (h.push c) pl.1 pl.2 ≠ none := by
  have hlt : pl.1 < h.size := by
    rcases Nat.lt_or_ge pl.1 h.size with hlt | hge
    · exact hlt
    · exfalso; apply hk
      unfold getKid
      simp [Array.getD_eq_getD_getElem?, Array.getElem?_eq_none hge]
  unfold getKid at hk ⊢
  rw [getD_push_lt _ _ _ _ hlt]; exact hk

theorem AGood.push {g : Grammar} {ok : Nat → Nat → Nat → Bool} {toks : List Nat} {s s' : St}
    {G G' : Ghost} {hole hole' : Option (Nat × Nat)} (hgood : AGood g ok toks s G hole)
    {Y : PState} {rlY : Rule}
    (hheap : (s'.heap = s.heap ∧ Y.anode = none) ∨
      (∃ nm cc ks, s'.heap = s.heap.push (.anode nm cc ks) ∧ Y.anode = some s.heap.size))
    (hs : s'.states = s.states.push Y) (hk : s'.stack = s.states.size :: s.stack)
    (hty : ∀ m, m < s.heap.size → G'.ty m = G.ty m)
    (hsp : ∀ x, x < s.states.size → G'.ssp x = G.ssp x ∧ G'.sfin x = G.sfin x)
    (hY : StateOK g ok toks G' s'.heap s'.states s'.stack s.states.size rlY)
    (htab : ∀ pl r o node, (r, o, node) ∈ s'.table.getD pl [] → (r, o, node) ∈ s.table.getD pl [] ∨
      (node = s.heap.size ∧ Y.anode = some node ∧ rootId < node ∧ G'.ty node = ⟨r, o, pl⟩))
    (hn : s'.termNodes = s.termNodes)
    (hfill : ∀ pl, hole = some pl → hole' ≠ some pl → Owes g s'.states s.states.size pl)
    (hYnn : ∀ pl, Proc g s'.states s.states.size pl → hole' ≠ some pl →
      getKid s'.heap pl.1 pl.2 ≠ none) :
    AGood g ok toks s' G' hole' := by
  have hext : HeapExt s.heap s'.heap := by
    rcases hheap with ⟨e, _⟩ | ⟨nm, cc, ks, e, _⟩
    · rw [e]; exact HeapExt.refl _
    · rw [e]; exact ⟨by simp, fun m hm => Or.inl (getD_push_lt _ _ _ _ hm)⟩
  have hold : ∀ m, m < s.heap.size → s'.heap.getD m .nil = s.heap.getD m .nil := by
    intro m hm
    rcases hheap with ⟨e, _⟩ | ⟨nm, cc, ks, e, _⟩
    · rw [e]
    · rw [e]; exact getD_push_lt _ _ _ _ hm
  have hstold : ∀ x, x < s.states.size → s'.states.getD x default = s.states.getD x default := by
    intro x hx; rw [hs]; exact getD_push_lt _ _ _ _ hx
  have hstY : s'.states.getD s.states.size default = Y := by rw [hs]; exact getD_push_eq _ _ _
  have hlt : ∀ x ∈ s.stack, x < s.states.size := by
    intro x hx; obtain ⟨rl, hx'⟩ := hgood.states x hx; exact hx'.lt
  have hroot := hgood.root
  obtain ⟨rks, k1, k2, k3, k4⟩ := hroot
  have k3' : 2 < s.heap.size := k3
  have hkmono : ∀ pl : Nat × Nat, getKid s.heap pl.1 pl.2 ≠ none → getKid s'.heap pl.1 pl.2 ≠ none := by
    intro pl hpl
    rcases hheap with ⟨e, _⟩ | ⟨nm, cc, ks, e, _⟩
    · rw [e]; exact hpl
    · rw [e]; exact getKid_push_ne_none hpl
  refine ⟨by rw [hold _ (by show 0 < _; omega)]; exact hgood.h0,
    by rw [hold _ (by show 1 < _; omega)]; exact hgood.h1,
    ⟨rks, by rw [hold _ k3]; exact k1, k2, by have := hext.1; omega,
      fun m hm => (k4 m hm).mono hext hty (fun _ h => h)⟩,
    ?_, ?_, ?_, ?_, ?_, ?_, ?_, ?_, ?_⟩
  · rw [hstold 0 hgood.rootSt.2]
    exact ⟨hgood.rootSt.1, by rw [hs]; simp⟩
  · rw [hk]
    exact List.pairwise_cons.mpr ⟨fun x hx => hlt x hx, hgood.sorted⟩
  · intro x hx
    rw [hk] at hx
    rcases List.mem_cons.mp hx with rfl | hx
    · have := hgood.rootSt.2; omega
    · exact hgood.spos x hx
  · intro x hx
    rw [hk] at hx
    rcases List.mem_cons.mp hx with rfl | hx
    · exact ⟨rlY, hY⟩
    · obtain ⟨rl, hsx⟩ := hgood.states x hx
      have hxlt := hlt x hx
      have hP := hsx.parLt
      refine ⟨rl, hsx.frame (fun a han => ?_) (hstold x hxlt) (by rw [hs]; simp) (hsp x hxlt).1
        (hsp x hxlt).2 (by rw [hstold _ (by omega)]) (by rw [hstold _ (by omega)])
        (by rw [hstold _ (by omega)]; exact Nat.le_refl _)
        (fun q _ => by rw [(hsp _ (by omega)).1]) (fun h => by rw [hk]; exact List.mem_cons_of_mem _ h)⟩
      have hc := hsx.cell; rw [han] at hc
      exact hc.frame hext hty (hold a hc.1) (hsp x hxlt).1 (hsp x hxlt).2
  · -- no sharing
    have hYan : ∀ a, Y.anode = some a → a = s.heap.size := by
      intro a ha
      rcases hheap with ⟨_, e⟩ | ⟨_, _, _, _, e⟩
      · rw [e] at ha; cases ha
      · rw [e] at ha; injection ha with ha; exact ha.symm
    have hxan : ∀ x ∈ s.stack, ∀ a, (s.states.getD x default).anode = some a → a < s.heap.size := by
      intro x hx a ha
      obtain ⟨rl, hsx⟩ := hgood.states x hx
      have hc := hsx.cell; rw [ha] at hc; exact hc.1
    intro x hx y hy a hxa hya
    rw [hk] at hx hy
    rcases List.mem_cons.mp hx with rfl | hx <;> rcases List.mem_cons.mp hy with rfl | hy
    · rfl
    · rw [hstY] at hxa; rw [hstold y (hlt y hy)] at hya
      have := hYan a hxa; have := hxan y hy a hya; omega
    · rw [hstY] at hya; rw [hstold x (hlt x hx)] at hxa
      have := hYan a hya; have := hxan x hx a hxa; omega
    · rw [hstold x (hlt x hx)] at hxa; rw [hstold y (hlt y hy)] at hya
      exact hgood.noShare x hx y hy a hxa hya
  · -- the cells
    intro n hnlt hnroot hnan
    rw [hk]
    by_cases hnold : n < s.heap.size
    · rw [hold n hnold] at hnan
      rcases hgood.cells n hnold hnroot hnan with ⟨hf, hno⟩ | ⟨z, hz, hza⟩
      · left
        refine ⟨hf.frame hnold hext hty (hold n hnold), ?_⟩
        intro z hz
        rcases List.mem_cons.mp hz with rfl | hz
        · rw [hstY]
          intro e
          rcases hheap with ⟨_, e'⟩ | ⟨_, _, _, _, e'⟩
          · rw [e'] at e; cases e
          · rw [e'] at e; injection e with e; omega
        · rw [hstold z (hlt z hz)]; exact hno z hz
      · exact Or.inr ⟨z, List.mem_cons_of_mem _ hz, by rw [hstold z (hlt z hz)]; exact hza⟩
    · right
      rcases hheap with ⟨e, _⟩ | ⟨_, _, _, e, e'⟩
      · rw [e] at hnlt; omega
      · rw [e] at hnlt; simp only [Array.size_push] at hnlt
        exact ⟨s.states.size, List.mem_cons_self, by rw [hstY, e']; congr 1; omega⟩
  · -- obligations
    intro x hx pl hproc hhole
    rw [hk] at hx ⊢
    rcases List.mem_cons.mp hx with rfl | hx
    · exact Or.inl (hYnn pl hproc hhole)
    · obtain ⟨rl, hsx⟩ := hgood.states x hx
      have hxlt := hlt x hx
      have hP := hsx.parLt
      have hproc' : Proc g s.states x pl :=
        Proc.congr (hstold x hxlt).symm (by rw [hstold x hxlt, hstold _ (by omega)]) hproc
      by_cases hh : hole = some pl
      · exact Or.inr ⟨s.states.size, List.mem_cons_self, hxlt, hfill pl hh hhole⟩
      · rcases hgood.nn x hx pl hproc' hh with h1 | ⟨z, hz, hxz, ho⟩
        · exact Or.inl (hkmono pl h1)
        · obtain ⟨rlz, hsz⟩ := hgood.states z hz
          have := hsz.parLt
          exact Or.inr ⟨z, List.mem_cons_of_mem _ hz, hxz,
            Owes.congr (hstold z (hlt z hz)) (by rw [hstold _ (by have := hlt z hz; omega)]) ho⟩
  · intro pl r o node hmem
    rcases htab pl r o node hmem with hm | ⟨e1, e2, e3, e4⟩
    · obtain ⟨t1, t2, ⟨nm1, c1, ks1, t3⟩, t4⟩ := hgood.table pl r o node hm
      exact ⟨by have := hext.1; omega, t2, ⟨nm1, c1, ks1, by rw [hold node t1]; exact t3⟩,
        by rw [hty node t1]; exact t4⟩
    · rcases hheap with ⟨_, e'⟩ | ⟨nm, cc, ks, e, _⟩
      · rw [e'] at e2; cases e2
      · refine ⟨by rw [e, e1]; simp, e3, ⟨nm, cc, ks, by rw [e, e1]; exact getD_push_eq _ _ _⟩, e4⟩
  · intro k node hmem
    rw [hn] at hmem
    obtain ⟨t1, a, t2, t3⟩ := hgood.terms k node hmem
    exact ⟨by have := hext.1; omega, a, t2, by rw [hold node t1]; exact t3⟩

end Yaep.MP
