import Yaep.Lemmas.NoGarbageStep
import Yaep.Lemmas.MakeParseSoundPres
/-!
# No garbage, part 4: a nonterminal before the dot (the candidate loop), both modes
-/
namespace Yaep.NG
open Yaep MP

/-- the invariant inside the `for` loop over the reduces of one nonterminal occurrence -/
structure LInv (c : Ctx) (L : Loc) (s : St) (os : List Nat) : Prop where
  inv : NGInv c s
  o0 : L.origSid ≠ 0
  olt : L.origSid < s.states.size
  rule : (s.state L.origSid).rule = L.rule
  pa : (s.state (s.state L.origSid).parent).anode = L.parentAnode
  pd : (s.state L.origSid).parentDisp = L.parentDisp
  disp : L.disp = (c.rule L.rule).order.getD L.pos none
  os : ∀ x ∈ os, x ≠ 0 ∧ x < s.states.size ∧ (s.state x).rule = L.rule ∧
    (s.state x).parentDisp = L.parentDisp

theorem LInv.transfer {c : Ctx} {L : Loc} {s s' : St} {os : List Nat} (hl : LInv c L s os)
    (hi : NGInv c s') (hsz : s.states.size ≤ s'.states.size)
    (him : ∀ x, x < s.states.size → SameImm (s'.state x) (s.state x)) : LInv c L s' os := by
  have h1 := him _ hl.olt
  refine ⟨hi, hl.o0, Nat.lt_of_lt_of_le hl.olt hsz, h1.2.1.trans hl.rule, ?_, h1.2.2.2.trans hl.pd,
    hl.disp, ?_⟩
  · have h2 : (s'.state (s.state L.origSid).parent).anode =
        (s.state (s.state L.origSid).parent).anode := (him _ (hl.inv.sok.plt L.origSid)).1
    rw [h1.2.2.1, h2]
    exact hl.pa
  · intro x hx
    obtain ⟨a1, a2, a3, a4⟩ := hl.os x hx
    have h2 := him _ a2
    exact ⟨a1, Nat.lt_of_lt_of_le a2 hsz, h2.2.1.trans a3, h2.2.2.2.trans a4⟩

theorem LInv.mono_os {c : Ctx} {L : Loc} {s : St} {os os' : List Nat} (hl : LInv c L s os)
    (h : ∀ x ∈ os', x ≠ 0 ∧ x < s.states.size ∧ (s.state x).rule = L.rule ∧
      (s.state x).parentDisp = L.parentDisp) : LInv c L s os' :=
  ⟨hl.inv, hl.o0, hl.olt, hl.rule, hl.pa, hl.pd, hl.disp, h⟩

theorem state_push_old (s : St) (p : PState) {x : Nat} (hx : x < s.states.size) :
    (s.push p).1.state x = s.state x := by
  show (s.states.push p).getD x default = s.states.getD x default
  exact getD_push_lt _ _ _ _ hx

theorem push_sameImm (sts : Array PState) (p : PState) {x : Nat} (hx : x < sts.size) :
    SameImm ((sts.push p).getD x default) (sts.getD x default) := by
  rw [getD_push_lt _ _ _ _ hx]; exact SameImm.refl _

/-! ## the state before the head -/

theorem candPre_inv {c : Ctx} {L : Loc} {s : St} {os : List Nat} (sit : Item) (n : Nat)
    (hl : LInv c L s os) : LInv c L (candPre L sit n s) os := by
  have key : ∀ s1 : St, s1.heap = s.heap → s1.states = s.states → s1.stack = s.stack →
      s1.nilUsed = s.nilUsed → s1.errUsed = s.errUsed → s1.namedRules = s.namedRules →
      s1.nameAfter = s.nameAfter →
      LInv c L (if n == 0 then s1.setState L.origSid { s1.state L.origSid with plInd := sit.origin }
        else s1) os := by
    intro s1 a1 a2 a3 a4 a5 a6 a7
    have hi1 : NGInv c s1 := by unfold NGInv; rw [a1, a2, a3, a4, a5, a6, a7]; exact hl.inv
    split
    · apply hl.transfer
      · unfold NGInv
        show Inv c s1.heap (s1.states.set! L.origSid _) s1.stack s1.nilUsed s1.errUsed s1.namedRules
          s1.nameAfter
        exact Inv.setState hi1 _ _ ⟨rfl, rfl, rfl, rfl⟩
      · show s.states.size ≤ (s1.states.set! L.origSid _).size
        rw [a2]; simp
      · intro x _
        show SameImm ((s1.states.set! L.origSid _).getD x default) (s.states.getD x default)
        rw [← a2]
        refine set!_sameImm _ _ _ ?_ x
        exact ⟨rfl, rfl, rfl, rfl⟩
    · apply hl.transfer hi1 (by rw [a2]; exact Nat.le_refl _)
      intro x _
      show SameImm (s1.states.getD x default) (s.states.getD x default)
      rw [a2]; exact SameImm.refl _
  unfold candPre
  simp only
  exact key _ (by split <;> rfl) (by split <;> rfl) (by split <;> rfl) (by split <;> rfl)
    (by split <;> rfl) (by split <;> rfl) (by split <;> rfl)

/-! ## the head: the state the candidate is attached to -/

theorem candHead_flags_same (L : Loc) (sit : Item) (n : Nat) (os : List Nat) (s : St) (pp : Nat × Nat)
    (disp : Nat) :
    (candHead L sit n os s pp disp).1.nilUsed = s.nilUsed ∧
    (candHead L sit n os s pp disp).1.errUsed = s.errUsed ∧
    (candHead L sit n os s pp disp).1.namedRules = s.namedRules ∧
    (candHead L sit n os s pp disp).1.nameAfter = s.nameAfter := by
  unfold candHead
  simp only
  split
  · split
    · exact ⟨rfl, rfl, rfl, rfl⟩
    · split <;> exact ⟨rfl, rfl, rfl, rfl⟩
  · exact ⟨rfl, rfl, rfl, rfl⟩

theorem copyCell_new {h : Array MNode} {a disp : Nat} {nm : String} {cst : Nat}
    {ks : Array (Option Nat)} (hc : h.getD a .nil = .anode nm cst ks)
    (hlast : 0 < ks.size ∧ ks.getD (ks.size - 1) none = none) :
    copyCell h a disp = .anode nm cst (ks.set! disp none) ∧ NewCell h (copyCell h a disp) := by
  have e : copyCell h a disp = .anode nm cst (ks.set! disp none) := by
    unfold copyCell; rw [hc]
  refine ⟨e, ?_, ?_, by rw [e]; exact ⟨nofun, nofun⟩⟩
  · intro v hv
    rw [e] at hv
    obtain ⟨i, hi⟩ := hv
    rw [kids_getD_set!] at hi
    split at hi
    · cases hi
    · exact ⟨a, by unfold Edge; rw [hc]; exact ⟨i, hi⟩⟩
  · intro nm' cst' ks' e'
    rw [e] at e'
    injection e' with _ _ e3
    subst e3
    refine ⟨by simp; exact hlast.1, ?_⟩
    rw [kids_getD_set!]
    split
    · rfl
    · simp only [Array.set!_eq_setIfInBounds, Array.size_setIfInBounds]
      exact hlast.2

theorem candHead_inv {c : Ctx} {L : Loc} {s : St} {os : List Nat} (sit : Item) (n : Nat) {pa disp : Nat}
    (hl : LInv c L s os) (hpa : L.parentAnode = some pa) :
    let r := candHead L sit n os s (pa, L.parentDisp) disp
    LInv c L r.1 r.2.1 ∧ r.2.2.2 = (r.1.state r.2.2.1).anode ∧ r.2.2.1 ≠ 0 ∧
      r.2.2.1 < r.1.states.size ∧ (r.1.state r.2.2.1).rule = L.rule ∧
      (r.1.state r.2.2.1).parentDisp = L.parentDisp := by
  by_cases hn : n = 0
  · subst hn
    rw [candHead_zero]
    exact ⟨hl, rfl, hl.o0, hl.olt, hl.rule, hl.pd⟩
  · have hos : ∀ x ∈ headOs L n os, x ≠ 0 ∧ x < s.states.size ∧ (s.state x).rule = L.rule ∧
        (s.state x).parentDisp = L.parentDisp := by
      intro x hx
      unfold headOs at hx
      split at hx
      · rcases List.mem_cons.1 hx with e | e
        · subst e; exact ⟨hl.o0, hl.olt, hl.rule, hl.pd⟩
        · exact hl.os x e
      · exact hl.os x hx
    cases hf : (headOs L n os).find? (fun sid => (s.state sid).plInd == sit.origin) with
    | some x =>
      rw [candHead_found hn hf]
      obtain ⟨a1, a2, a3, a4⟩ := hos x (List.mem_of_find?_eq_some hf)
      exact ⟨hl.mono_os hos, rfl, a1, a2, a3, a4⟩
    | none =>
      have hflags := candHead_flags_same L sit n os s (pa, L.parentDisp) disp
      have hpar : (s.state L.origSid).parent < s.states.size := hl.inv.sok.plt L.origSid
      have hslot : ∀ pa', (s.states.getD (s.state L.origSid).parent default).anode = some pa' →
          PSlot s.heap pa' (s.state L.origSid).parentDisp := fun pa' h => hl.inv.sok.par L.origSid pa' h
      cases ha : (s.state L.origSid).anode with
      | some a =>
        obtain ⟨e1, e2, e3, _, _, _, e7, e8, e9⟩ :=
          candHead_copy_owner (pp := (pa, L.parentDisp)) (disp := disp) hn hf ha
        simp only at e1 e2 e3 e7 e8 e9 ⊢
        generalize candHead L sit n os s (pa, L.parentDisp) disp = r at *
        obtain ⟨h3, nm, cst, ks, c1, c2⟩ := hl.inv.sok.own L.origSid a hl.o0 ha
        have hlast := hl.inv.hok.last a nm cst ks h3 c1
        obtain ⟨ec, hnew⟩ := copyCell_new (disp := disp) c1 hlast
        have hps : PSlot s.heap pa L.parentDisp := by
          rw [← hl.pd]; apply hslot; rw [← hpa]; exact hl.pa
        have hinv : NGInv c r.1 := by
          unfold NGInv
          rw [e1, e2, e3, hflags.1, hflags.2.1, hflags.2.2.1, hflags.2.2.2]
          obtain ⟨_, _, g3, g4, g5⟩ := alloc_place hl.inv.hok hl.inv.flags hps hnew
          have hnok : NOK c (placeTranslation (s.heap.push (copyCell s.heap a disp)) (pa, L.parentDisp)
              s.heap.size) s.namedRules s.nameAfter := by
            apply hl.inv.nok.shp g3
            intro i nm' cst' ks' hge hc'
            by_cases hi' : i = s.heap.size
            · subst hi'
              rw [g4, ec] at hc'
              injection hc' with e1' _ _
              subst e1'
              exact hl.inv.nok.cover a nm cst ks h3 c1
            · exact absurd hc' (g5 i nm' cst' ks' (by omega))
          refine (Inv.allocAnode hl.inv hps hnew
            { s.state L.origSid with plInd := sit.origin, anode := some s.heap.size } hpar hslot rfl
            ⟨nm, cst, _, ec, ?_⟩ hnok).1
          show (ks.set! disp none).size = _
          simp only [Array.set!_eq_setIfInBounds, Array.size_setIfInBounds]
          exact c2
        have hl1 : LInv c L r.1 os := by
          apply hl.transfer hinv (by rw [e2]; simp)
          intro x hx
          show SameImm (r.1.states.getD x default) _
          rw [e2]; exact push_sameImm _ _ hx
        have hcur : r.1.state r.2.2.1 =
            { s.state L.origSid with plInd := sit.origin, anode := some s.heap.size } := by
          show r.1.states.getD r.2.2.1 default = _
          rw [e2, e8]; exact getD_push_eq _ _ _
        refine ⟨hl1.mono_os ?_, by rw [hcur, e9], by rw [e8]; have := hl.olt; omega,
          by rw [e8, e2]; simp, by rw [hcur]; exact hl.rule, by rw [hcur]; exact hl.pd⟩
        intro x hx
        rw [e7] at hx
        rcases List.mem_cons.1 hx with e | e
        · subst e
          have : r.1.state s.states.size =
              { s.state L.origSid with plInd := sit.origin, anode := some s.heap.size } := by
            rw [← e8]; exact hcur
          exact ⟨by have := hl.olt; omega, by rw [e2]; simp, by rw [this]; exact hl.rule,
            by rw [this]; exact hl.pd⟩
        · obtain ⟨a1, a2, a3, a4⟩ := hos x e
          have him : r.1.state x = s.state x := by
            show r.1.states.getD x default = _
            rw [e2]; exact getD_push_lt _ _ _ _ a2
          exact ⟨a1, by rw [e2]; simp; omega, by rw [him]; exact a3, by rw [him]; exact a4⟩
      | none =>
        obtain ⟨e1, e2, e3, _, _, _, e7, e8, e9⟩ :=
          candHead_copy_pass (pp := (pa, L.parentDisp)) (disp := disp) hn hf ha
        simp only at e1 e2 e3 e7 e8 e9 ⊢
        generalize candHead L sit n os s (pa, L.parentDisp) disp = r at *
        have hinv : NGInv c r.1 := by
          unfold NGInv
          rw [e1, e2, e3, hflags.1, hflags.2.1, hflags.2.2.1, hflags.2.2.2]
          exact Inv.pushState hl.inv _ hpar hslot (fun a h => by cases h)
        have hl1 : LInv c L r.1 os := by
          apply hl.transfer hinv (by rw [e2]; simp)
          intro x hx
          show SameImm (r.1.states.getD x default) _
          rw [e2]; exact push_sameImm _ _ hx
        have hcur : r.1.state r.2.2.1 =
            { s.state L.origSid with plInd := sit.origin, anode := none } := by
          show r.1.states.getD r.2.2.1 default = _
          rw [e2, e8]; exact getD_push_eq _ _ _
        refine ⟨hl1.mono_os ?_, by rw [hcur, e9], by rw [e8]; have := hl.olt; omega,
          by rw [e8, e2]; simp, by rw [hcur]; exact hl.rule, by rw [hcur]; exact hl.pd⟩
        intro x hx
        rw [e7] at hx
        rcases List.mem_cons.1 hx with e | e
        · subst e
          have : r.1.state s.states.size =
              { s.state L.origSid with plInd := sit.origin, anode := none } := by
            rw [← e8]; exact hcur
          exact ⟨by have := hl.olt; omega, by rw [e2]; simp, by rw [this]; exact hl.rule,
            by rw [this]; exact hl.pd⟩
        · obtain ⟨a1, a2, a3, a4⟩ := hos x e
          have him : r.1.state x = s.state x := by
            show r.1.states.getD x default = _
            rw [e2]; exact getD_push_lt _ _ _ _ a2
          exact ⟨a1, by rw [e2]; simp; omega, by rw [him]; exact a3, by rw [him]; exact a4⟩

/-! ## the tail: the translation of the candidate is attached -/

theorem candTail_new' {c : Ctx} {L : Loc} {sit : Item} {pp : Nat × Nat} {disp : Nat} {s : St}
    {os : List Nat} {cur : Nat} {anode : Option Nat} {name : String}
    (hn : (c.rule sit.rule).anode = some name)
    (hf : (if c.oneParse then none else tableFind s.table sit.rule sit.origin L.plInd) = none) :
    let r := candTail c L sit pp disp (s, os, cur, anode)
    r.1.heap = placeTranslation (s.heap.push (.anode name (c.rule sit.rule).cost
        (Array.replicate ((c.rule sit.rule).transLen + 1) none))) (tailPlace anode pp disp) s.heap.size ∧
    r.1.states = s.states.push (tailChild L sit s cur anode disp (some s.heap.size)) ∧
    r.1.stack = s.states.size :: s.stack ∧
    r.1.nilUsed = (s.nilUsed || s.heap.size == nilId) ∧
    r.1.errUsed = (s.errUsed || s.heap.size == errId) ∧ r.2 = os ∧
    r.1.namedRules = (if s.namedRules.contains sit.rule then s.namedRules
      else sit.rule :: s.namedRules) ∧
    r.1.nameAfter = (if s.namedRules.contains sit.rule then s.nameAfter
      else s.heap.size :: s.nameAfter) := by
  unfold candTail
  simp only [hn, hf]
  refine ⟨?_, ?_, ?_, ?_, ?_, ?_, ?_, ?_⟩
  · simp [apply_ite St.heap, tailPlace]
  · simp [apply_ite St.states, tailChild]
  · simp [apply_ite St.stack, apply_ite St.states]
  · simp [St.place, St.push, apply_ite St.nilUsed, apply_ite St.heap]
  · simp [St.place, St.push, apply_ite St.errUsed, apply_ite St.heap]
  · first | rfl | trivial
  · simp [St.place, St.push, apply_ite St.namedRules]
  · simp [St.place, St.push, apply_ite St.nameAfter]

theorem candTail_reuse' {c : Ctx} {L : Loc} {sit : Item} {pp : Nat × Nat} {disp : Nat} {s : St}
    {os : List Nat} {cur : Nat} {anode : Option Nat} {name : String} {node : Nat}
    (hn : (c.rule sit.rule).anode = some name)
    (hf : (if c.oneParse then none else tableFind s.table sit.rule sit.origin L.plInd) = some node) :
    let r := candTail c L sit pp disp (s, os, cur, anode)
    r.1.heap = placeTranslation s.heap (tailPlace anode pp disp) node ∧
    r.1.states = s.states ∧ r.1.stack = s.stack ∧
    r.1.nilUsed = (s.nilUsed || node == nilId) ∧ r.1.errUsed = (s.errUsed || node == errId) ∧
    r.2 = os ∧ r.1.namedRules = s.namedRules ∧ r.1.nameAfter = s.nameAfter := by
  unfold candTail
  simp only [hn, hf]
  refine ⟨?_, ?_, ?_, ?_, ?_, ?_, ?_, ?_⟩
  · simp [tailPlace]
  all_goals first | rfl | trivial

theorem candTail_pass' {c : Ctx} {L : Loc} {sit : Item} {pp : Nat × Nat} {disp : Nat} {s : St}
    {os : List Nat} {cur : Nat} {anode : Option Nat}
    (hn : (c.rule sit.rule).anode = none) (hdot : sit.dot ≠ 0) :
    let r := candTail c L sit pp disp (s, os, cur, anode)
    r.1.heap = s.heap ∧
    r.1.states = s.states.push (tailChild L sit s cur anode disp none) ∧
    r.1.stack = s.states.size :: s.stack ∧ r.1.nilUsed = s.nilUsed ∧ r.1.errUsed = s.errUsed ∧
    r.2 = os ∧ r.1.namedRules = s.namedRules ∧ r.1.nameAfter = s.nameAfter := by
  unfold candTail
  simp only [hn]
  refine ⟨?_, ?_, ?_, ?_, ?_, ?_, ?_, ?_⟩ <;> first | rfl | (simp [hdot, tailChild]; done) | (simp [hdot]; rfl)

theorem candTail_nil' {c : Ctx} {L : Loc} {sit : Item} {pp : Nat × Nat} {disp : Nat} {s : St}
    {os : List Nat} {cur : Nat} {anode : Option Nat}
    (hn : (c.rule sit.rule).anode = none) (hdot : sit.dot = 0) :
    let r := candTail c L sit pp disp (s, os, cur, anode)
    r.1.heap = placeTranslation s.heap (tailPlace anode pp disp) nilId ∧
    r.1.states = s.states ∧ r.1.stack = s.stack ∧
    r.1.nilUsed = (s.nilUsed || nilId == nilId) ∧ r.1.errUsed = (s.errUsed || nilId == errId) ∧
    r.2 = os ∧ r.1.namedRules = s.namedRules ∧ r.1.nameAfter = s.nameAfter := by
  unfold candTail
  simp only [hn]
  refine ⟨?_, ?_, ?_, ?_, ?_, ?_, ?_, ?_⟩ <;> first | rfl | simp [hdot, tailPlace, St.place]

theorem candTail_inv {c : Ctx} {L : Loc} {s : St} {os : List Nat} (sit : Item) {pa disp cur : Nat}
    {an : Option Nat} (hc : COK c) (hl : LInv c L s os) (hpa : L.parentAnode = some pa)
    (hd : L.disp = some disp) (han : an = (s.state cur).anode) (hcur0 : cur ≠ 0)
    (hcurlt : cur < s.states.size) (hrule : (s.state cur).rule = L.rule)
    (hpd : (s.state cur).parentDisp = L.parentDisp) :
    LInv c L (candTail c L sit (pa, L.parentDisp) disp (s, os, cur, an)).1
      (candTail c L sit (pa, L.parentDisp) disp (s, os, cur, an)).2 := by
  have hi := hl.inv
  -- the place
  have hplace : PSlot s.heap (tailPlace an (pa, L.parentDisp) disp).1
      (tailPlace an (pa, L.parentDisp) disp).2 := by
    cases ha : an with
    | none =>
      show PSlot s.heap pa L.parentDisp
      rw [← hl.pd]
      apply hi.sok.par L.origSid
      have := hl.pa; rw [hpa] at this; exact this
    | some a =>
      show PSlot s.heap a disp
      rw [ha] at han
      apply own_slot hi hc hcur0 han.symm (p := L.pos)
      have : (c.rule (s.state cur).rule).order.getD L.pos none = some disp := by
        rw [hrule, ← hl.disp]; exact hd
      exact this
  generalize hpl : tailPlace an (pa, L.parentDisp) disp = pl at hplace
  obtain ⟨pl1, pl2⟩ := pl
  simp only at hplace
  -- the child
  have hch1 : ∀ x, (tailChild L sit s cur an disp x).parent < s.states.size := by
    intro x
    cases ha : an with
    | none => exact hi.sok.plt cur
    | some a => exact hcurlt
  have hch2 : ∀ x pa', (s.states.getD (tailChild L sit s cur an disp x).parent default).anode = some pa' →
      PSlot s.heap pa' (tailChild L sit s cur an disp x).parentDisp := by
    intro x pa' h
    cases ha : an with
    | none =>
      rw [ha] at h
      show PSlot s.heap pa' L.parentDisp
      rw [← hpd]
      exact hi.sok.par cur pa' h
    | some a =>
      rw [ha] at h han
      show PSlot s.heap pa' disp
      have h' : (s.state cur).anode = some pa' := h
      rw [← han] at h'
      injection h' with h'
      subst h'
      have hp := hplace
      have : tailPlace (some a) (pa, L.parentDisp) disp = (a, disp) := rfl
      rw [ha, this] at hpl
      injection hpl with e1 e2
      rw [e1, e2]; exact hp
  have hsz := hi.hok.size
  cases hn : (c.rule sit.rule).anode with
  | some name =>
    cases hf : (if c.oneParse then none else tableFind s.table sit.rule sit.origin L.plInd) with
    | none =>
      obtain ⟨e1, e2, e3, e4, e5, e6, e7, e8⟩ := candTail_new' (L := L) (pp := (pa, L.parentDisp))
        (disp := disp) (os := os) (cur := cur) (anode := an) hn hf
      rw [e6]
      have f1 : (s.heap.size == nilId) = false := by simp only [beq_eq_false_iff_ne, nilId]; omega
      have f2 : (s.heap.size == errId) = false := by simp only [beq_eq_false_iff_ne, errId]; omega
      rw [f1, Bool.or_false] at e4
      rw [f2, Bool.or_false] at e5
      have hinv : NGInv c (candTail c L sit (pa, L.parentDisp) disp (s, os, cur, an)).1 := by
        unfold NGInv
        rw [e1, e2, e3, e4, e5, e7, e8, hpl]
        have hnew : NewCell s.heap (MNode.anode name (c.rule sit.rule).cost
            (Array.replicate ((c.rule sit.rule).transLen + 1) none)) := by
          refine ⟨?_, ?_, ⟨nofun, nofun⟩⟩
          · intro v hv
            obtain ⟨i, hi'⟩ := hv
            simp [Array.getD_eq_getD_getElem?, Array.getElem?_replicate] at hi'
            split at hi' <;> simp at hi'
          · intro nm cst ks e
            injection e with _ _ e3
            subst e3
            refine ⟨by simp, ?_⟩
            simp [Array.getD_eq_getD_getElem?, Array.getElem?_replicate]
        obtain ⟨_, _, g3, g4, g5⟩ := alloc_place hi.hok hi.flags hplace hnew
        have hnok : NOK c (placeTranslation (s.heap.push (MNode.anode name (c.rule sit.rule).cost
              (Array.replicate ((c.rule sit.rule).transLen + 1) none))) (pl1, pl2) s.heap.size)
            (if s.namedRules.contains sit.rule then s.namedRules else sit.rule :: s.namedRules)
            (if s.namedRules.contains sit.rule then s.nameAfter else s.heap.size :: s.nameAfter) := by
          split
          · rename_i hcont
            apply hi.nok.shp g3
            intro i nm' cst' ks' hge hc'
            by_cases hi' : i = s.heap.size
            · subst hi'
              rw [g4] at hc'
              injection hc' with e1' _ _
              subst e1'
              exact ⟨sit.rule, by simpa using hcont, hn⟩
            · exact absurd hc' (g5 i nm' cst' ks' (by omega))
          · rename_i hcont
            exact hi.nok.cons g3 (by simpa using hcont) hn hsz g4 g5
        refine (Inv.allocAnode hi hplace hnew (tailChild L sit s cur an disp (some s.heap.size))
          (hch1 _) (hch2 _) rfl ⟨_, _, _, rfl, ?_⟩ hnok).1
        simp [tailChild]
      apply hl.transfer hinv (by rw [e2]; simp)
      intro x hx
      show SameImm ((candTail c L sit (pa, L.parentDisp) disp (s, os, cur, an)).1.states.getD x default) _
      rw [e2]; exact push_sameImm _ _ hx
    | some node =>
      obtain ⟨e1, e2, e3, e4, e5, e6, e7, e8⟩ := candTail_reuse' (L := L) (pp := (pa, L.parentDisp))
        (disp := disp) (os := os) (cur := cur) (anode := an) hn hf
      rw [e6]
      have hinv : NGInv c (candTail c L sit (pa, L.parentDisp) disp (s, os, cur, an)).1 := by
        unfold NGInv
        rw [e1, e2, e3, e4, e5, e7, e8, hpl]
        exact (Inv.place hi hplace node).1
      apply hl.transfer hinv (by rw [e2]; exact Nat.le_refl _)
      intro x _
      show SameImm ((candTail c L sit (pa, L.parentDisp) disp (s, os, cur, an)).1.states.getD x default) _
      rw [e2]; exact SameImm.refl _
  | none =>
    by_cases hdot : sit.dot = 0
    · obtain ⟨e1, e2, e3, e4, e5, e6, e7, e8⟩ := candTail_nil' (c := c) (L := L)
        (pp := (pa, L.parentDisp)) (disp := disp) (s := s) (os := os) (cur := cur) (anode := an) hn hdot
      rw [e6]
      have hinv : NGInv c (candTail c L sit (pa, L.parentDisp) disp (s, os, cur, an)).1 := by
        unfold NGInv
        rw [e1, e2, e3, e4, e5, e7, e8, hpl]
        exact (Inv.place hi hplace nilId).1
      apply hl.transfer hinv (by rw [e2]; exact Nat.le_refl _)
      intro x _
      show SameImm ((candTail c L sit (pa, L.parentDisp) disp (s, os, cur, an)).1.states.getD x default) _
      rw [e2]; exact SameImm.refl _
    · obtain ⟨e1, e2, e3, e4, e5, e6, e7, e8⟩ := candTail_pass' (c := c) (L := L)
        (pp := (pa, L.parentDisp)) (disp := disp) (s := s) (os := os) (cur := cur) (anode := an) hn hdot
      rw [e6]
      have hinv : NGInv c (candTail c L sit (pa, L.parentDisp) disp (s, os, cur, an)).1 := by
        unfold NGInv
        rw [e1, e2, e3, e4, e5, e7, e8]
        exact Inv.pushState hi _ (hch1 _) (hch2 _) (fun a h => by simp [tailChild] at h)
      apply hl.transfer hinv (by rw [e2]; simp)
      intro x hx
      show SameImm ((candTail c L sit (pa, L.parentDisp) disp (s, os, cur, an)).1.states.getD x default) _
      rw [e2]; exact push_sameImm _ _ hx

/-! ## one candidate, the loop, one iteration, the run -/

theorem candidate_inv {c : Ctx} {L : Loc} {s : St} {os : List Nat} (sit : Item) (n : Nat)
    (hc : COK c) (hl : LInv c L s os) :
    LInv c L (candidate c L sit n os s).1 (candidate c L sit n os s).2 := by
  rw [candidate_eq]
  have hpre := candPre_inv sit n hl
  cases hpa : L.parentAnode with
  | none => exact hpre
  | some pa =>
    cases hd : L.disp with
    | none => exact hpre
    | some disp =>
      simp only
      obtain ⟨h1, h2, h3, h4, h5, h6⟩ := candHead_inv (disp := disp) sit n hpre hpa
      generalize candHead L sit n os (candPre L sit n s) (pa, L.parentDisp) disp = r at h1 h2 h3 h4 h5 h6
      obtain ⟨s1, os1, cur, an⟩ := r
      exact candTail_inv sit hc h1 hpa hd h2 h3 h4 h5 h6

theorem candLoop_inv {c : Ctx} {L : Loc} {set : Array Item} (hc : COK c) :
    ∀ (l : List Nat) (n : Nat) (os : List Nat) (s : St), LInv c L s os →
      NGInv c (candLoop c L set l n os s).1
  | [], _, _, s, hl => hl.inv
  | i :: l, n, os, s, hl => by
    unfold candLoop
    simp only
    split
    · exact candLoop_inv hc l n os s hl
    · have hl1 : LInv c L (if (n != 0) = true then { s with amb := true } else s) os := by
        split
        · exact ⟨hl.inv, hl.o0, hl.olt, hl.rule, hl.pa, hl.pd, hl.disp, hl.os⟩
        · exact hl
      split
      · exact hl1.inv
      · have h2 := candidate_inv (set.getD i default) n hc hl1
        exact candLoop_inv hc l (n + 1) _ _ h2

theorem step_inv {c : Ctx} {s : St} (hc : COK c) (hi : NGInv c s) : NGInv c (step c s) := by
  cases hst : s.stack with
  | nil =>
    have : step c s = s := by unfold step; rw [hst]
    rw [this]; exact hi
  | cons sid rest =>
    have hne : sid ≠ 0 := by
      intro e; subst e
      have := hi.nz; rw [hst] at this
      exact this List.mem_cons_self
    by_cases hpos : (s.state sid).pos = 0
    · exact step_pop_inv hi hst hpos
    · cases hsym : (c.rule (s.state sid).rule).rhs.getD ((s.state sid).pos - 1) (.t 0) with
      | t a =>
        rw [step_term hst hpos hsym]
        exact stepTerm_inv hi hc hne
      | n A =>
        rw [step_nt' hst hpos hsym]
        have hlt : sid < s.states.size := by
          rcases Nat.lt_or_ge sid s.states.size with h1 | h1
          · exact h1
          · exfalso
            apply hpos
            show (s.states.getD sid default).pos = 0
            simp [Array.getD_eq_getD_getElem?, Array.getElem?_eq_none h1]
            rfl
        have hi0 : NGInv c (ntS0 s sid) := by
          unfold NGInv ntS0
          show Inv c s.heap (s.states.set! sid _) s.stack s.nilUsed s.errUsed s.namedRules s.nameAfter
          exact Inv.setState hi _ _ ⟨rfl, rfl, rfl, rfl⟩
        have him : ∀ x, SameImm ((ntS0 s sid).state x) (s.state x) := by
          intro x
          show SameImm ((s.states.set! sid _).getD x default) (s.states.getD x default)
          refine set!_sameImm _ _ _ ?_ x
          exact ⟨rfl, rfl, rfl, rfl⟩
        have hl : LInv c (ntLoc c s sid A) (ntS0 s sid) [] := by
          refine ⟨hi0, hne, ?_, (him sid).2.1, ?_, (him sid).2.2.2, rfl, fun x hx => by cases hx⟩
          · show sid < (s.states.set! sid _).size
            simpa using hlt
          · show ((ntS0 s sid).state ((ntS0 s sid).state sid).parent).anode = _
            rw [(him sid).2.2.1, (him _).1]
            rfl
        have := candLoop_inv (set := c.sets.getD (s.state sid).plInd #[]) hc
          (reduces c (c.sets.getD (s.state sid).plInd #[]) A) 0 [] _ hl
        split
        · exact this
        · exact this

theorem run_inv {c : Ctx} (hc : COK c) : ∀ (fuel : Nat) (s s' : St), NGInv c s →
    run c fuel s = some s' → NGInv c s'
  | 0, s, s', hi, hr => by
    unfold run at hr
    split at hr
    · injection hr with hr; rw [← hr]; exact hi
    · cases hr
  | fuel + 1, s, s', hi, hr => by
    unfold run at hr
    split at hr
    · injection hr with hr; rw [← hr]; exact hi
    · exact run_inv hc fuel _ _ (step_inv hc hi) hr

theorem init_inv {c : Ctx} {s0 : St} (h0 : init c = some s0) : NGInv c s0 := by
  unfold init at h0
  simp only at h0
  split at h0
  · cases h0
  · split at h0
    · cases h0
    · injection h0 with h0
      subst h0
      unfold NGInv
      simp only
      have hroot : (#[MNode.nil, .err, .anode "$result" 0 #[none]] : Array MNode).getD rootId .nil =
          .anode "$result" 0 #[none] := rfl
      have hnoedge : ∀ u v, ¬ Edge (#[MNode.nil, .err, .anode "$result" 0 #[none]] : Array MNode) u v := by
        intro u v e
        have hu := e.lt
        have hu' : u < 3 := hu
        unfold Edge at e
        rcases (by omega : u = 0 ∨ u = 1 ∨ u = 2) with h | h | h
        · subst h; exact e
        · subst h; exact e
        · subst h
          obtain ⟨i, hi⟩ := e
          have : (#[(none : Option Nat)]).getD i none = none := by
            rcases i with _ | i <;> rfl
          rw [this] at hi; cases hi
      refine ⟨⟨by decide, rfl, rfl, ⟨_, _, _, hroot, rfl⟩, ?_, ?_, ?_⟩, ⟨?_, ?_, ?_, ?_⟩,
        ⟨(by show 0 < 2; omega), rfl, ?_, ?_, ?_⟩, by decide, ?_, ?_⟩
      · intro i h1 h2
        have : i < 3 := h2
        omega
      · intro i nm cst ks h1 hcell
        have := lt_of_anode hcell
        have : i < 3 := this
        omega
      · intro i h1 h2
        have : i < 3 := h2
        omega
      · intro h; cases h
      · intro h; cases h
      · intro _ u e; exact hnoedge _ _ e
      · intro _ u e; exact hnoedge _ _ e
      · intro sid
        rcases sid with _ | _ | sid
        · show (0 : Nat) < 2; omega
        · show (0 : Nat) < 2; omega
        · show (0 : Nat) < 2; omega
      · intro sid a hne ha
        rcases sid with _ | _ | sid
        · exact absurd rfl hne
        · cases ha
        · cases ha
      · intro sid pa hpa
        rcases sid with _ | _ | sid
        · have hpa' : some rootId = some pa := hpa
          injection hpa' with hpa'; subst hpa'
          exact ⟨_, _, _, hroot, (by show 0 < 1; omega), Or.inl rfl⟩
        · have hpa' : some rootId = some pa := hpa
          injection hpa' with hpa'; subst hpa'
          exact ⟨_, _, _, hroot, (by show 0 < 1; omega), Or.inl rfl⟩
        · have hpa' : some rootId = some pa := hpa
          injection hpa' with hpa'; subst hpa'
          exact ⟨_, _, _, hroot, (by show 0 < 1; omega), Or.inl rfl⟩
      · intro i nm cst ks h1 hcell
        have := lt_of_anode hcell
        have : i < 3 := this
        omega
      · refine ⟨?_, rfl, (fun q hq => by cases hq), List.nodup_nil, List.nodup_nil,
          (fun i hi => by cases hi)⟩
        intro i nm cst ks h1 hcell
        have := lt_of_anode hcell
        have : i < 3 := this
        omega

end Yaep.NG
