import Yaep.Lemmas.HeapWfHead
/-!
# The heaps of the model of `make_parse` are well formed, part 8: the loop over the reduces of a
nonterminal

`hcand_zero` / `hcand_pos`: one candidate of a translated nonterminal (first / further) keeps the
invariant, next to the soundness invariant `LoopOK`; `hstep_nt`: the whole step.
-/
namespace Yaep.MP
open Yaep

/-- the invariant between two candidates: `HSt`, and the original state and its copies have the
same end of span -/
structure HLoop (g : Grammar) (N : Nat) (L : Loc) (hiX : Nat) (s : St) (Γ : Gh) (os : List Nat) :
    Prop where
  inv : HSt g N s Γ
  shi : ∀ x, x = L.origSid ∨ x ∈ os → Γ.shi x = hiX

/-- what does not change while the candidates are tried: the end `hiX` of the span of the original
state; if the list index before the step is `hiX`, the symbols after the nonterminal derive ε -/
structure LC (g : Grammar) (toks : List Nat) (L : Loc) (rlX : Rule) (hiX : Nat) : Prop where
  ple : L.plInd ≤ hiX
  hiN : hiX ≤ toks.length
  sufX : L.plInd = hiX → ∀ j s, L.pos < j → rlX.rhs[j]? = some s → Der g [s] []

section
variable {g : Grammar} {ok : Nat → Nat → Nat → Bool} {toks : List Nat} {c : Ctx}

theorem cloneSt_anode (t : PState) (k : Nat) (an : Option Nat) : (cloneSt t k an).anode = an := rfl

/-- a further candidate (`n_candidates ≥ 1`) of a translated nonterminal -/
theorem hcand_pos (hc : CtxAll g ok toks c) (hcyc : ¬ Cyclic g) (hsr : g.symsInRange = true)
    {L : Loc} {rlX : Rule} {A d pa hiX : Nat} {s : St} {G : Ghost} {Γ : Gh} {os : List Nat} {nCand : Nat}
    (hn : nCand ≠ 0) (hLpa : L.parentAnode = some pa) (hLd : L.disp = some d)
    (hloop : LoopOK g ok toks L rlX A d pa s G os) (hh : HLoop g toks.length L hiX s Γ os)
    (lc : LC g toks L rlX hiX)
    {sr k : Nat} {rl' : Rule} (hr' : g.rules[sr]? = some rl') (hlhs : rl'.lhs = A)
    (hE : EarleyF g ok toks L.plInd ⟨sr, rl'.rhs.length, k⟩)
    (hE2 : EarleyF g ok toks k ⟨L.rule, L.pos, L.orig⟩) :
    ∃ Γ', HLoop g toks.length L hiX (candidate c L ⟨sr, rl'.rhs.length, k⟩ nCand os s).1 Γ'
      (candidate c L ⟨sr, rl'.rhs.length, k⟩ nCand os s).2 := by
  have hbelow := cand_below hloop.hr hloop.hsym hE hE2 lc.ple lc.sufX
  have hsufk := cand_suf hloop.hsym hr' hlhs hE lc.ple lc.sufX
  have hplN : L.plInd ≤ toks.length := Nat.le_trans lc.ple lc.hiN
  have hkle : k ≤ hiX := by
    obtain ⟨_, _, _, hle1, _⟩ := hE.sound
    simp only at hle1
    exact Nat.le_trans hle1 lc.ple
  have hslt := hloop.good.stack_lt
  rw [candidate_eq, hLpa, hLd]
  simp only
  rw [candPre_pos hn hLpa hLd]
  obtain ⟨a1, a2, a3, a4, _, a6, _⟩ := hloop.sib L.origSid (Or.inl rfl)
  cases hf : (headOs L nCand os).find? (fun sid => (s.state sid).plInd == k) with
  | some x =>
    rw [candHead_found (sit := ⟨sr, rl'.rhs.length, k⟩) hn hf]
    have hxmem := mem_headOs (List.mem_of_find?_eq_some hf)
    obtain ⟨b1, b2, b3, b4, b5, b6, _⟩ := hloop.sib x hxmem
    have hpax : (s.states.getD (s.states.getD x default).parent default).anode = some pa := by
      rw [b5]; exact hloop.hpa
    obtain ⟨Γ2, q1, q2, q3, q4⟩ := htail (c := c) (fun h => hc.rule_eq h) hcyc hsr hh.inv hslt (headOs L nCand os) b1 b2 b3 b4 b6
      hpax (hh.shi x hxmem) hloop.hr hloop.hd hr' hlhs hbelow hplN
    refine ⟨Γ2, ?_⟩
    show HLoop g toks.length L hiX (candTail c L ⟨sr, rl'.rhs.length, k⟩ (pa, L.parentDisp) d
      (s, headOs L nCand os, x, (s.states.getD x default).anode)).1 Γ2
      (candTail c L ⟨sr, rl'.rhs.length, k⟩ (pa, L.parentDisp) d
      (s, headOs L nCand os, x, (s.states.getD x default).anode)).2
    rw [q4]
    refine ⟨q1, ?_⟩
    intro y hy
    have hy' : y = L.origSid ∨ y ∈ os := by
      rcases hy with e | e
      · exact Or.inl e
      · exact mem_headOs e
    rw [q2.2 y (hslt y (hloop.sib y hy').1)]
    exact hh.shi y hy'
  | none =>
    have hrX : g.rules[(s.states.getD L.origSid default).rule]? = some rlX := by rw [a2]; exact hloop.hr
    have hdX : rlX.order.getD (s.states.getD L.origSid default).pos none = some d := by
      rw [a3]; exact hloop.hd
    have hsufX' : (s.states.getD L.origSid default).pos ≠ 0 → k = hiX → ∀ rl,
        g.rules[(s.states.getD L.origSid default).rule]? = some rl → ∀ j sy,
        (s.states.getD L.origSid default).pos ≤ j → rl.rhs[j]? = some sy → Der g [sy] [] := by
      intro _ hk rl hrl j sy hj hsy
      rw [hrX] at hrl; injection hrl with hrl; subst hrl
      rw [a3] at hj
      exact hsufk hk j sy hj hsy
    have hXlt := hslt _ a1
    have hPlt : (s.states.getD L.origSid default).parent < s.states.size := by
      have := (hh.inv.sts _ a1).parLt; omega
    cases han : (s.states.getD L.origSid default).anode with
    | some a =>
      obtain ⟨n1, n2, n3, n4, _, _, n7, n8, n9⟩ := candHead_copy_owner (L := L)
        (sit := ⟨sr, rl'.rhs.length, k⟩) (os := os) (s := s) (pp := (pa, L.parentDisp)) (disp := d)
        hn hf han
      generalize candHead L ⟨sr, rl'.rhs.length, k⟩ nCand os s (pa, L.parentDisp) d = r at *
      obtain ⟨s1, os1, cur1, an1⟩ := r
      simp only at n1 n2 n3 n4 n7 n8 n9
      subst n7; subst n8; subst n9
      rw [← a6] at n1
      obtain ⟨Γ1, w1, w2, w3, w4⟩ := hcopy_owner hloop.good hh.inv a1 (hh.shi _ (Or.inl rfl)) hkle han
        hloop.hpa hrX hdX hsufX'
      have n2' : s1.states = s.states.push (cloneSt (s.states.getD L.origSid default) k (some s.heap.size)) := n2
      have hi1 : HSt g toks.length s1 Γ1 := HSt.of_eq w1 n1 n2' n3 n4
      have hslt1 : ∀ y ∈ s1.stack, y < s1.states.size := by
        intro y hy
        rw [n3] at hy; rw [n2']
        simp only [Array.size_push]
        rcases List.mem_cons.mp hy with e | e
        · omega
        · have := hslt y e; omega
      have hget : s1.states.getD s.states.size default =
          cloneSt (s.states.getD L.origSid default) k (some s.heap.size) := by
        rw [n2']; exact getD_push_eq _ _ _
      have hpa1 : (s1.states.getD (s1.states.getD s.states.size default).parent default).anode = some pa := by
        rw [hget]
        show (s1.states.getD (s.states.getD L.origSid default).parent default).anode = some pa
        rw [n2', getD_push_lt' hPlt]; exact hloop.hpa
      obtain ⟨Γ2, q1, q2, q3, q4⟩ := htail (c := c) (fun h => hc.rule_eq h) hcyc hsr hi1 hslt1 (L := L) (cur := s.states.size)
        (s.states.size :: headOs L nCand os) (by rw [n3]; simp)
        (by rw [hget]; exact a2) (by rw [hget]; exact a3) (by rw [hget]; exact a4)
        (by rw [hget]; exact a6) hpa1 w3 hloop.hr hloop.hd hr' hlhs hbelow hplN
      rw [hget, cloneSt_anode] at q1 q3 q4
      refine ⟨Γ2, ?_⟩
      rw [q4]
      refine ⟨q1, ?_⟩
      have hsz1 : s1.states.size = s.states.size + 1 := by rw [n2']; simp
      intro y hy
      have hcase : y = s.states.size ∨ (y = L.origSid ∨ y ∈ os) := by
        rcases hy with e | e
        · exact Or.inr (Or.inl e)
        · rcases List.mem_cons.mp e with e | e
          · exact Or.inl e
          · exact Or.inr (mem_headOs e)
      rcases hcase with e | e
      · rw [e, q2.2 _ (by omega)]; exact w3
      · have hylt := hslt y (hloop.sib y e).1
        rw [q2.2 y (by omega), w2.2 y hylt]
        exact hh.shi y e
    | none =>
      obtain ⟨n1, n2, n3, n4, _, _, n7, n8, n9⟩ := candHead_copy_pass (L := L)
        (sit := ⟨sr, rl'.rhs.length, k⟩) (os := os) (s := s) (pp := (pa, L.parentDisp)) (disp := d)
        hn hf han
      generalize candHead L ⟨sr, rl'.rhs.length, k⟩ nCand os s (pa, L.parentDisp) d = r at *
      obtain ⟨s1, os1, cur1, an1⟩ := r
      simp only at n1 n2 n3 n4 n7 n8 n9
      subst n7; subst n8; subst n9
      have w1 := hcopy_pass hh.inv hslt a1 (hh.shi _ (Or.inl rfl)) hkle han hsufX'
      have n2' : s1.states = s.states.push (cloneSt (s.states.getD L.origSid default) k none) := n2
      have hi1 : HSt g toks.length s1 (Γ.setHi s.states.size hiX) := HSt.of_eq w1 n1 n2' n3 n4
      have w3 : (Γ.setHi s.states.size hiX).shi s.states.size = hiX := upd_same _ _ _
      have hslt1 : ∀ y ∈ s1.stack, y < s1.states.size := by
        intro y hy
        rw [n3] at hy; rw [n2']
        simp only [Array.size_push]
        rcases List.mem_cons.mp hy with e | e
        · omega
        · have := hslt y e; omega
      have hget : s1.states.getD s.states.size default =
          cloneSt (s.states.getD L.origSid default) k none := by
        rw [n2']; exact getD_push_eq _ _ _
      have hpa1 : (s1.states.getD (s1.states.getD s.states.size default).parent default).anode = some pa := by
        rw [hget]
        show (s1.states.getD (s.states.getD L.origSid default).parent default).anode = some pa
        rw [n2', getD_push_lt' hPlt]; exact hloop.hpa
      obtain ⟨Γ2, q1, q2, q3, q4⟩ := htail (c := c) (fun h => hc.rule_eq h) hcyc hsr hi1 hslt1 (L := L) (cur := s.states.size)
        (s.states.size :: headOs L nCand os) (by rw [n3]; simp)
        (by rw [hget]; exact a2) (by rw [hget]; exact a3) (by rw [hget]; exact a4)
        (by rw [hget]; exact a6) hpa1 w3 hloop.hr hloop.hd hr' hlhs hbelow hplN
      rw [hget, cloneSt_anode] at q1 q3 q4
      refine ⟨Γ2, ?_⟩
      rw [q4]
      refine ⟨q1, ?_⟩
      have hsz1 : s1.states.size = s.states.size + 1 := by rw [n2']; simp
      intro y hy
      have hcase : y = s.states.size ∨ (y = L.origSid ∨ y ∈ os) := by
        rcases hy with e | e
        · exact Or.inr (Or.inl e)
        · rcases List.mem_cons.mp e with e | e
          · exact Or.inl e
          · exact Or.inr (mem_headOs e)
      rcases hcase with e | e
      · rw [e, q2.2 _ (by omega)]; exact w3
      · have hylt := hslt y (hloop.sib y e).1
        rw [q2.2 y (by omega)]
        show upd Γ.shi _ _ y = _
        rw [upd_ne _ _ (by omega)]
        exact hh.shi y e

/-- the states after the dot of the top state has moved and its list index is set -/
theorem advance_states {s : St} {X k : Nat} (hXlt : X < s.states.size) (L : Loc) (hL : L.origSid = X) :
    let s1 := (ntS0 s X).setState L.origSid { (ntS0 s X).state L.origSid with plInd := k }
    s1.heap = s.heap ∧ s1.stack = s.stack ∧ s1.table = s.table ∧ s1.states.size = s.states.size ∧
    s1.states.getD X default = { s.state X with pos := (s.state X).pos - 1, plInd := k } ∧
    ∀ y, y ≠ X → s1.states.getD y default = s.states.getD y default := by
  subst hL
  have hs0 := ntS0_state (s := s) hXlt
  have hsz0 : L.origSid < (ntS0 s L.origSid).states.size := by simp [ntS0]; exact hXlt
  refine ⟨rfl, rfl, rfl, by simp [ntS0, St.setState], ?_, ?_⟩
  · show ((ntS0 s L.origSid).states.set! L.origSid _).getD L.origSid default = _
    rw [getD_set!, if_pos ⟨rfl, hsz0⟩, hs0]
  · intro y hy
    show ((ntS0 s L.origSid).states.set! L.origSid _).getD y default = _
    rw [getD_set!, if_neg (fun hh => hy hh.1.symm)]
    show (s.states.set! L.origSid _).getD y default = _
    rw [getD_set!, if_neg (fun hh => hy hh.1.symm)]

/-- what the invariant of the top state gives for the loop -/
theorem lc_of_inv {Γ : Gh} {s : St} (hi : HSt g toks.length s Γ) {X A : Nat} {rlX : Rule}
    (hXmem : X ∈ s.stack) (hr : g.rules[(s.state X).rule]? = some rlX) (hpos : (s.state X).pos ≠ 0) :
    LC g toks (ntLoc c s X A) rlX (Γ.shi X) := by
  have hsX := hi.sts X hXmem
  refine ⟨hsX.plLe, hsX.hiLe, ?_⟩
  intro he j sy hj hsy
  have hj' : (s.state X).pos - 1 < j := hj
  exact hsX.suf hpos he rlX hr j sy (by show (s.state X).pos ≤ j; omega) hsy

/-- the top state moves its dot over the nonterminal, the list index becomes the origin `k` of the
first candidate -/
theorem hadvance (c : Ctx) {s : St} {Γ : Gh} {X : Nat}
    (tf : TopFacts g s X) (hi : HSt g toks.length s Γ) {rest : List Nat}
    (hst : s.stack = X :: rest) {rlX : Rule} {A : Nat} (hr : g.rules[(s.state X).rule]? = some rlX)
    (hpos : (s.state X).pos ≠ 0) (hsym : rlX.rhs[(s.state X).pos - 1]? = some (.n A))
    {sr k : Nat} {rl' : Rule} (hr' : g.rules[sr]? = some rl') (hlhs : rl'.lhs = A)
    (hE : EarleyF g ok toks (s.state X).plInd ⟨sr, rl'.rhs.length, k⟩) {s1 : St}
    (e1 : s1.heap = s.heap) (e2 : s1.stack = s.stack) (e3 : s1.table = s.table)
    (e4 : s1.states.size = s.states.size)
    (e5 : s1.states.getD X default = { s.state X with pos := (s.state X).pos - 1, plInd := k })
    (e6 : ∀ y, y ≠ X → s1.states.getD y default = s.states.getD y default) :
    HSt g toks.length s1 Γ := by
  have hXmem : X ∈ s.stack := by rw [hst]; simp
  have lc := lc_of_inv (c := c) (A := A) hi hXmem hr hpos
  have hsufk := cand_suf (L := ntLoc c s X A) (rlX := rlX) hsym hr' hlhs hE lc.ple lc.sufX
  have hkle : k ≤ Γ.shi X := by
    obtain ⟨_, _, _, hle1, _⟩ := hE.sound
    simp only at hle1
    exact Nat.le_trans hle1 lc.ple
  have h1 := HInv.setTop hi hXmem (sts' := s1.states) _ e4 e5 e6 tf.np rfl rfl rfl rfl rfl hkle
    (by
      intro _ hk rl hrl j sy hj hsy
      have hrl' : g.rules[(s.state X).rule]? = some rl := hrl
      rw [hr] at hrl'; injection hrl' with hrl'; subst hrl'
      exact hsufk hk j sy hj hsy)
    (by
      intro a rl d' ha hrl hd'
      have hrl' : g.rules[(s.state X).rule]? = some rl := hrl
      rw [hr] at hrl'; injection hrl' with hrl'; subst hrl'
      exact ExclSlot.of_none (tf.slot_none a _ d' ha hr hpos hd'))
  exact HSt.of_eq h1 e1 rfl e2 e3

/-- the first candidate of a translated nonterminal -/
theorem hcand_zero (hrule : ∀ {r : Nat} {rl : Rule}, g.rules[r]? = some rl → c.rule r = rl)
    (hcyc : ¬ Cyclic g) (hsr : g.symsInRange = true) {s : St} {Γ : Gh} {X : Nat}
    (tf : TopFacts g s X) (hi : HSt g toks.length s Γ) {rest : List Nat}
    (hst : s.stack = X :: rest) {rlX : Rule} {A d pa : Nat}
    (hr : g.rules[(s.state X).rule]? = some rlX)
    (hpos : (s.state X).pos ≠ 0) (hsym : rlX.rhs[(s.state X).pos - 1]? = some (.n A))
    (hd : rlX.order.getD ((s.state X).pos - 1) none = some d)
    (hpa : (s.state (s.state X).parent).anode = some pa)
    {sr k : Nat} {rl' : Rule} (hr' : g.rules[sr]? = some rl') (hlhs : rl'.lhs = A)
    (hE : EarleyF g ok toks (s.state X).plInd ⟨sr, rl'.rhs.length, k⟩)
    (hE2 : EarleyF g ok toks k ⟨(s.state X).rule, (s.state X).pos - 1, (s.state X).orig⟩) :
    ∃ Γ', HLoop g toks.length (ntLoc c s X A) (Γ.shi X)
      (candidate c (ntLoc c s X A) ⟨sr, rl'.rhs.length, k⟩ 0 [] (ntS0 s X)).1 Γ'
      (candidate c (ntLoc c s X A) ⟨sr, rl'.rhs.length, k⟩ 0 [] (ntS0 s X)).2 := by
  have hXmem : X ∈ s.stack := by rw [hst]; simp
  have hXlt := tf.stack_lt X hXmem
  have hruleX := hrule hr
  have hLpa : (ntLoc c s X A).parentAnode = some pa := hpa
  have hLd : (ntLoc c s X A).disp = some d := by simp only [ntLoc, hruleX]; exact hd
  have lc := lc_of_inv (c := c) (A := A) hi hXmem hr hpos
  have hbelow := cand_below (L := ntLoc c s X A) (rlX := rlX) hr hsym hE hE2 lc.ple lc.sufX
  have hplN : (ntLoc c s X A).plInd ≤ toks.length := Nat.le_trans lc.ple lc.hiN
  rw [candidate_eq, hLpa, hLd]
  simp only
  rw [candPre_zero, candHead_zero]
  obtain ⟨e1, e2, e3, e4, e5, e6⟩ := advance_states (s := s) (k := k) hXlt (ntLoc c s X A) rfl
  generalize (ntS0 s X).setState (ntLoc c s X A).origSid
    { (ntS0 s X).state (ntLoc c s X A).origSid with plInd := (⟨sr, rl'.rhs.length, k⟩ : Item).origin } = s1
    at e1 e2 e3 e4 e5 e6 ⊢
  have hi1 := hadvance (ok := ok) c tf hi hst hr hpos hsym hr' hlhs hE e1 e2 e3 e4 e5 e6
  have hslt1 : ∀ y ∈ s1.stack, y < s1.states.size := by
    intro y hy; rw [e2] at hy; rw [e4]; exact tf.stack_lt y hy
  have hparne : (s.state X).parent ≠ X := by
    have := (hi.sts X hXmem).parLt
    have this' : (s.state X).parent < X := this
    omega
  have hpa1 : (s1.states.getD (s1.states.getD X default).parent default).anode = some pa := by
    rw [e5]
    show (s1.states.getD (s.state X).parent default).anode = some pa
    rw [e6 _ hparne]; exact hpa
  obtain ⟨Γ2, q1, q2, q3, q4⟩ := htail (c := c) hrule hcyc hsr hi1 hslt1 (L := ntLoc c s X A) (cur := X)
    (rlX := rlX) (hiX := Γ.shi X) [] (by rw [e2]; exact hXmem)
    (by rw [e5]; rfl) (by rw [e5]; rfl) (by rw [e5]; rfl) (by rw [e5]; rfl) hpa1 rfl hr hd hr' hlhs
    hbelow hplN
  refine ⟨Γ2, ?_⟩
  show HLoop g toks.length (ntLoc c s X A) (Γ.shi X)
    (candTail c (ntLoc c s X A) ⟨sr, rl'.rhs.length, k⟩ (pa, (ntLoc c s X A).parentDisp) d
      (s1, [], X, (s1.states.getD X default).anode)).1 Γ2
    (candTail c (ntLoc c s X A) ⟨sr, rl'.rhs.length, k⟩ (pa, (ntLoc c s X A).parentDisp) d
      (s1, [], X, (s1.states.getD X default).anode)).2
  rw [q4]
  refine ⟨q1, ?_⟩
  intro y hy
  rcases hy with e | e
  · have e' : y = X := e
    rw [e', q2.2 X (by rw [e4]; exact hXlt)]
  · cases e

end

end Yaep.MP
