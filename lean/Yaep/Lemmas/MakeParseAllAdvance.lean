import Yaep.Lemmas.MakeParseAllPlace
/-!
# All-parses mode: the top state moves its dot over one symbol
-/
namespace Yaep.MP
open Yaep

/-- ghost update: the split point before position `q` of state `sid` is `k` -/
def Ghost.setSp (G : Ghost) (sid q k : Nat) : Ghost :=
  { G with ssp := fun x y => if x = sid ∧ y = q then k else G.ssp x y }

theorem Ghost.setSp_same (G : Ghost) (sid q k : Nat) : (G.setSp sid q k).ssp sid q = k := by
  simp [Ghost.setSp]

theorem Ghost.setSp_other (G : Ghost) (sid q k x y : Nat) (h : x ≠ sid ∨ y ≠ q) :
    (G.setSp sid q k).ssp x y = G.ssp x y := by
  simp only [Ghost.setSp]
  rw [if_neg]
  intro hh; rcases h with h | h
  · exact h hh.1
  · exact h hh.2

theorem placeOfSt_congr {sts sts' : Array PState} {st st' : PState} {d : Nat}
    (h1 : st'.anode = st.anode) (h2 : st'.parent = st.parent) (h3 : st'.parentDisp = st.parentDisp)
    (h4 : (sts'.getD st.parent default).anode = (sts.getD st.parent default).anode) :
    placeOfSt sts' st' d = placeOfSt sts st d := by
  unfold placeOfSt
  rw [h1, h2, h3, h4]

theorem AGood.advance {g : Grammar} {ok : Nat → Nat → Nat → Bool} {toks : List Nat} {s s' : St}
    {G : Ghost} (hwf : g.translWF = true) (hgood : AGood g ok toks s G none)
    {sid : Nat} {rest : List Nat} (hst : s.stack = sid :: rest) {rl : Rule}
    (hr : g.rules[(s.states.getD sid default).rule]? = some rl)
    (hpos : (s.states.getD sid default).pos ≠ 0) {X : Sym}
    (hX : rl.rhs[(s.states.getD sid default).pos - 1]? = some X) {k : Nat} {st' : PState}
    (hE : EarleyF g ok toks k ⟨(s.states.getD sid default).rule, (s.states.getD sid default).pos - 1,
      (s.states.getD sid default).orig⟩)
    (hun : rl.order.getD ((s.states.getD sid default).pos - 1) none = none →
      ∃ pt, PT.ValidAt g toks pt X k (G.ssp sid (s.states.getD sid default).pos))
    (hu : StsUpd s.states s'.states sid st')
    (e1 : st'.rule = (s.states.getD sid default).rule)
    (e2 : st'.pos = (s.states.getD sid default).pos - 1)
    (e3 : st'.orig = (s.states.getD sid default).orig)
    (e4 : st'.parent = (s.states.getD sid default).parent)
    (e5 : st'.parentDisp = (s.states.getD sid default).parentDisp)
    (e6 : st'.anode = (s.states.getD sid default).anode)
    (hpl : st'.pos ≠ 0 → st'.plInd = k)
    (hh : s'.heap = s.heap) (hk : s'.stack = s.stack) (ht : s'.table = s.table)
    (hn : s'.termNodes = s.termNodes) :
    AGood g ok toks s' (G.setSp sid ((s.states.getD sid default).pos - 1) k)
      ((rl.order.getD ((s.states.getD sid default).pos - 1) none).map
        (placeOfSt s.states (s.states.getD sid default))) := by
  have hsidmem : sid ∈ s.stack := by rw [hst]; simp
  have hlt : ∀ x ∈ s.stack, x ≠ sid → x < sid := by
    intro x hx hne
    have hs := hgood.sorted
    rw [hst] at hs hx
    rcases List.mem_cons.mp hx with rfl | hx
    · exact absurd rfl hne
    · exact (List.pairwise_cons.mp hs).1 x hx
  obtain ⟨rl0, hsid⟩ := hgood.states sid hsidmem
  have hrl : rl0 = rl := by have := hsid.hr; rw [hr] at this; injection this with this; exact this.symm
  subst hrl
  have hpp : (s.states.getD sid default).pos - 1 + 1 = (s.states.getD sid default).pos := by omega
  have hplt : (s.states.getD sid default).pos - 1 < rl0.rhs.length := (List.getElem?_eq_some_iff.mp hX).1
  have hsame : ∀ x, x < sid → s'.states.getD x default = s.states.getD x default := hu.other
  have hparsid : s'.states.getD (s.states.getD sid default).parent default =
      s.states.getD (s.states.getD sid default).parent default := hsame _ hsid.parLt
  -- the ghost data off the new split point
  have hspo : ∀ x y, x ≠ sid ∨ y ≠ (s.states.getD sid default).pos - 1 →
      (G.setSp sid ((s.states.getD sid default).pos - 1) k).ssp x y = G.ssp x y :=
    fun x y h => G.setSp_other _ _ _ _ _ h
  have hspge : ∀ y, (s.states.getD sid default).pos ≤ y →
      (G.setSp sid ((s.states.getD sid default).pos - 1) k).ssp sid y = G.ssp sid y :=
    fun y hy => hspo sid y (Or.inr (by omega))
  have hplace : ∀ d, placeOfSt s'.states st' d = placeOfSt s.states (s.states.getD sid default) d :=
    fun d => placeOfSt_congr e6 e4 e5 (by rw [hparsid])
  refine ⟨by rw [hh]; exact hgood.h0, by rw [hh]; exact hgood.h1, by rw [hh]; exact hgood.root,
    ?_, by rw [hk]; exact hgood.sorted, by rw [hk]; exact hgood.spos, ?_, ?_, ?_, ?_,
    by rw [ht, hh]; exact hgood.table, by rw [hn, hh]; exact hgood.terms⟩
  · rw [hsame 0 (hgood.spos sid hsidmem)]
    exact ⟨hgood.rootSt.1, by have := hu.size; have := hgood.rootSt.2; omega⟩
  · -- the states
    intro x hx
    rw [hk] at hx
    rw [hh, hk]
    by_cases hxs : x = sid
    · subst hxs
      refine ⟨rl0, ?_⟩
      refine ⟨by have := hu.size; have := hsid.lt; omega, by rw [hu.same, e4]; exact hsid.parLt,
        by rw [hu.same, e1]; exact hr, by rw [hu.same, e2]; omega, ?_, ?_, ?_, ?_, ?_, ?_, ?_⟩
      · rw [hu.same]
        intro hp
        rw [hpl hp, e1, e2, e3]
        exact ⟨hE, G.setSp_same _ _ _⟩
      · rw [hu.same, e2, e3]
        intro hp
        rw [← hp, G.setSp_same]
        rw [hp] at hE
        exact hE.dot_zero.symm
      · rw [hspge _ (by have := hsid.posLe; omega)]; exact hsid.spFin
      · rw [hu.same, e2]
        intro q Y hq hY ho
        by_cases hqe : q = (s.states.getD x default).pos - 1
        · subst hqe
          rw [hX] at hY; injection hY with hY; subst hY
          rw [G.setSp_same, hpp, hspge _ (Nat.le_refl _)]
          exact hun ho
        · rw [hspge q (by omega), hspge (q + 1) (by omega)]
          exact hsid.untr q Y (by omega) hY ho
      · rw [hu.same, e4, hparsid]; exact hsid.pa
      · rw [hu.same, e4, e5, e3]
        rcases hsid.tgt with ⟨t1, t2, t3⟩ | ⟨t1, rlP, qP, Y, aP, t2, t3, t4, t5, t6, t7⟩
        · exact Or.inl ⟨t1, t2, t3⟩
        · have hPne : (s.states.getD x default).parent ≠ x := Nat.ne_of_lt hsid.parLt
          refine Or.inr ⟨t1, rlP, qP, Y, aP, by rw [hparsid]; exact t2, by rw [hparsid]; exact t3, t4,
            by rw [hparsid]; exact t5, t6, ?_⟩
          rw [hspo _ _ (Or.inl hPne), hspo _ _ (Or.inl hPne)]; exact t7
      · rw [hu.same, e6]
        have hc := hsid.cell
        cases han : (s.states.getD x default).anode with
        | none => rw [han] at hc; exact hc
        | some a =>
          rw [han] at hc
          obtain ⟨c1, c2, c3, nm, ks, c4, c5, c6, c7⟩ := hc
          simp only
          refine ⟨c1, c2, by rw [e1, e3]; exact c3, nm, ks, c4, c5, c6, ?_⟩
          intro d m hm
          obtain ⟨q, Y, d1, d2, d3, d4⟩ := c7 d m hm
          refine ⟨q, Y, by rw [e2]; omega, d2, d3, ?_⟩
          rw [hspge q d1, hspge (q + 1) (by omega)]
          exact d4
    · have hxlt := hlt x hx hxs
      obtain ⟨rlx, hsx⟩ := hgood.states x hx
      refine ⟨rlx, ?_⟩
      have hP := hsx.parLt
      refine hsx.frame (fun a han => (by
          have hc := hsx.cell; rw [han] at hc
          exact hc.frame (HeapExt.refl _) (fun _ _ => rfl) rfl
            (by funext y; exact hspo x y (Or.inl hxs)) rfl))
        (hsame x hxlt) hu.size (by funext y; exact hspo x y (Or.inl hxs)) rfl
        (by rw [hsame _ (by omega)]) (by rw [hsame _ (by omega)])
        (by rw [hsame _ (by omega)]; exact Nat.le_refl _)
        (fun q _ => hspo _ _ (Or.inl (by omega))) (fun h => h)
  · -- no sharing of cells
    intro x hx y hy a hxa hya
    rw [hk] at hx hy
    have hanx : ∀ z ∈ s.stack, (s'.states.getD z default).anode = (s.states.getD z default).anode := by
      intro z hz
      by_cases hzs : z = sid
      · subst hzs; rw [hu.same, e6]
      · rw [hsame z (hlt z hz hzs)]
    rw [hanx x hx] at hxa; rw [hanx y hy] at hya
    exact hgood.noShare x hx y hy a hxa hya
  · -- the cells
    intro n hnlt hnroot hnan
    rw [hh] at hnlt hnan ⊢
    rw [hk]
    have hanx : ∀ z ∈ s.stack, (s'.states.getD z default).anode = (s.states.getD z default).anode := by
      intro z hz
      by_cases hzs : z = sid
      · subst hzs; rw [hu.same, e6]
      · rw [hsame z (hlt z hz hzs)]
    rcases hgood.cells n hnlt hnroot hnan with ⟨hf, hno⟩ | ⟨z, hz, hza⟩
    · exact Or.inl ⟨hf, fun z hz => by rw [hanx z hz]; exact hno z hz⟩
    · exact Or.inr ⟨z, hz, by rw [hanx z hz]; exact hza⟩
  · -- obligations
    intro x hx pl hproc hhole
    rw [hk] at hx
    rw [hh, hk]
    have howes : ∀ z ∈ s.stack, Owes g s.states z pl → Owes g s'.states z pl ∨
        (rl0.order.getD ((s.states.getD sid default).pos - 1) none).map
          (placeOfSt s.states (s.states.getD sid default)) = some pl := by
      intro z hz ⟨o1, o2, rlz, o3, o4⟩
      by_cases hzs : z = sid
      · subst hzs
        rw [hr] at o3; injection o3 with o3; subst o3
        cases ho : rl0.order.getD ((s.states.getD z default).pos - 1) none with
        | none =>
          left
          refine ⟨by rw [hu.same, e6]; exact o1, by rw [hu.same, e4, e5, hparsid]; exact o2, rl0,
            by rw [hu.same, e1]; exact hr, ?_⟩
          rw [hu.same, e2]
          intro q hq
          by_cases hqe : q = (s.states.getD z default).pos - 1
          · rw [hqe]; exact ho
          · exact o4 q (by omega)
        | some d =>
          right
          simp only [Option.map_some]
          rw [o2]
          unfold placeOfSt
          rw [o1]
      · left
        have hzlt := hlt z hz hzs
        obtain ⟨rlz', hsz⟩ := hgood.states z hz
        exact ⟨by rw [hsame z hzlt]; exact o1,
          by rw [hsame z hzlt, hsame _ (by have := hsz.parLt; omega)]; exact o2, rlz,
          by rw [hsame z hzlt]; exact o3, by rw [hsame z hzlt]; exact o4⟩
    have hold : Proc g s.states x pl → getKid s.heap pl.1 pl.2 ≠ none ∨
        ∃ z ∈ s.stack, x < z ∧ Owes g s'.states z pl := by
      intro hp
      rcases hgood.nn x hx pl hp (by simp) with h1 | ⟨z, hz, hxz, ho⟩
      · exact Or.inl h1
      · rcases howes z hz ho with h2 | h2
        · exact Or.inr ⟨z, hz, hxz, h2⟩
        · exact absurd h2 hhole
    by_cases hxs : x = sid
    · subst hxs
      obtain ⟨rlx, q, d, p1, p2, p3, p4⟩ := hproc
      rw [hu.same] at p1 p2 p4
      rw [e1, hr] at p1; injection p1 with p1; subst p1
      rw [e2] at p2
      rw [hplace] at p4
      by_cases hqe : q = (s.states.getD x default).pos - 1
      · subst hqe
        exfalso; apply hhole
        rw [p3, p4]; rfl
      · exact hold ⟨rl0, q, d, hr, by omega, p3, p4⟩
    · have hxlt := hlt x hx hxs
      obtain ⟨rlx', hsx⟩ := hgood.states x hx
      apply hold
      obtain ⟨rlx, q, d, p1, p2, p3, p4⟩ := hproc
      rw [hsame x hxlt] at p1 p2 p4
      refine ⟨rlx, q, d, p1, p2, p3, ?_⟩
      rw [p4]
      exact placeOfSt_congr rfl rfl rfl (by rw [hsame _ (by have := hsx.parLt; omega)])

end Yaep.MP
