import Yaep.Lemmas.BuildSetNew
/-!
# Helper lemmas for `Yaep/Model/BuildSet.lean`, part 3: the sets built by the C algorithm
are the sets of the abstract model (as sets of items)

Part 1 (`BuildSetExpand.lean`) describes what `expand_new_start_set` computes, part 2
(`BuildSetNew.lean`) the start situations of `build_new_set` and `set_insert`.  Here the
two are related to `closeSet` of `Yaep/Model/Earley.lean`.
-/
namespace Yaep.BS
open Yaep

/-! ## items of a stored set -/

/-- distance of a tag -/
def dtag (ds : List Nat) : Option Nat → Nat
  | some p => ds.getD p 0
  | none => 0

theorem originOf_eq (s : CSet) (j i : Nat) :
    s.originOf j i = j - dtag s.dists (s.core.tagOf i) := by
  unfold CSet.originOf Core.tagOf
  split
  · rfl
  · split <;> rfl

theorem distOf_eq {s : CSet} (hs : Shape s.core) (i : Nat) :
    s.distOf i = dtag s.dists (s.core.tagOf i) := by
  unfold CSet.distOf Core.tagOf
  have := hs.le
  by_cases h1 : s.core.nAllDists ≤ i
  · rw [if_pos h1, if_neg (by omega), if_neg (by omega)]; rfl
  · rw [if_neg h1]
    by_cases h2 : i < s.core.nStart
    · rw [if_pos h2, if_pos h2]; rfl
    · rw [if_neg h2, if_neg h2, if_pos (by omega)]; rfl

theorem mem_items {s : CSet} {j : Nat} {it : Item} :
    it ∈ s.items j ↔ ∃ i sit, s.core.sits[i]? = some sit ∧
      it = ⟨sit.1, sit.2, j - dtag s.dists (s.core.tagOf i)⟩ := by
  unfold CSet.items
  simp only [List.mem_map, List.mem_range]
  constructor
  · rintro ⟨i, hi, rfl⟩
    refine ⟨i, s.core.sits.getD i default, ?_, by rw [originOf_eq]⟩
    rw [List.getD_eq_getElem?_getD, List.getElem?_eq_getElem hi]; rfl
  · rintro ⟨i, sit, hs, rfl⟩
    obtain ⟨hi, he⟩ := List.getElem?_eq_some_iff.mp hs
    refine ⟨i, hi, ?_⟩
    rw [originOf_eq, List.getD_eq_getElem?_getD, hs]; rfl

/-- what the proofs need to know about an earlier set of the parse list at position `k` -/
structure SetOK (g : Grammar) (k : Nat) (s : CSet) : Prop where
  shape : Shape s.core
  dlen : s.dists.length = s.core.nStart
  dle : ∀ d ∈ s.dists, d ≤ k
  trans : ∀ X, s.core.transOf X = vecOf (filt g s.core.sits s.core.sits.length X)

theorem SetOK.dtag_le {g : Grammar} {k : Nat} {s : CSet} (h : SetOK g k s) (t : Option Nat) :
    dtag s.dists t ≤ k := by
  cases t with
  | none => exact Nat.zero_le _
  | some p =>
    show s.dists.getD p 0 ≤ k
    rw [List.getD_eq_getElem?_getD]
    cases hp : s.dists[p]? with
    | none => exact Nat.zero_le _
    | some d => exact h.dle d (List.mem_of_getElem? hp)

/-- the transition vector of `X`: exactly the indices with `X` after the dot -/
theorem SetOK.mem_trans {g : Grammar} {k : Nat} {s : CSet} (h : SetOK g k s) {X : Sym} {ind : Nat} :
    ind ∈ (s.core.transOf X).getD [] ↔ ind < s.core.sits.length ∧ nextOf g s.core.sits ind = some X := by
  rw [h.trans, vecOf_getD, mem_filt]

theorem find_of_mem_trans {s : CSet} {X : Sym} {ind : Nat}
    (hm : ind ∈ (s.core.transOf X).getD []) : s.core.find X = true := by
  unfold Core.find
  cases ht : s.core.transOf X with
  | none => rw [ht] at hm; cases hm
  | some l => rfl

theorem nextOf_of_get {g : Grammar} {sits : List Sit} {i : Nat} {sit : Sit}
    (h : sits[i]? = some sit) : nextOf g sits i = g.nextSym sit.1 sit.2 := by
  unfold nextOf
  rw [List.getD_eq_getElem?_getD, h]; rfl

/-! ## the abstract side: nullable symbols inside a closed set -/

section Closed
variable {g : Grammar} {ok : Nat → Nat → Bool} {prev : List (List Item)} {j : Nat} {T : List Item}

theorem closed_predict (hcl : closeStep g ok prev j T ⊆ T) {r d o B r' : Nat} {rl' : Rule}
    (hit : (⟨r, d, o⟩ : Item) ∈ T) (hs : g.nextSym r d = some (Sym.n B))
    (hr' : g.rules[r']? = some rl') (hl : rl'.lhs = B) : (⟨r', 0, j⟩ : Item) ∈ T := by
  obtain ⟨rl, hrl, hB⟩ := nextSym_eq_some.mp hs
  exact hcl (mem_closeStep.mpr ⟨_, hit, rl, hrl,
    Or.inl ⟨B, hB, mem_predictItems.mpr ⟨r', rl', hr', hl, rfl⟩⟩⟩)

/-- a segment of a right-hand side that derives the empty string can be skipped inside a
set closed under `closeStep` -/
theorem closed_skip_nil (hcl : closeStep g ok prev j T ⊆ T) {β : List Sym} {u : List Nat}
    (hd : Der g β u) : u = [] → ∀ (r d o : Nat) (rl : Rule) (rest : List Sym),
      (⟨r, d, o⟩ : Item) ∈ T → g.rules[r]? = some rl → rl.rhs.drop d = β ++ rest →
      (⟨r, d + β.length, o⟩ : Item) ∈ T := by
  induction hd with
  | nil => intro _ r d o rl rest hit _ _; simpa using hit
  | term _ _ => intro hu; cases hu
  | @nt r' rl' ss u' v' hr' _ _ ih1 ih2 =>
    intro hu r d o rl rest hit hr hrest
    obtain ⟨hu', hv'⟩ := List.append_eq_nil_iff.mp hu
    obtain ⟨hsym, hdrop⟩ := drop_succ_of_drop_cons (by simpa using hrest)
    have hns : g.nextSym r d = some (Sym.n rl'.lhs) := nextSym_eq_some.mpr ⟨rl, hr, hsym⟩
    have hp : (⟨r', 0, j⟩ : Item) ∈ T := closed_predict hcl hit hns hr' rfl
    have hc := ih1 hu' r' 0 j rl' [] hp hr' (by simp)
    rw [Nat.zero_add] at hc
    have hn : rl'.rhs[rl'.rhs.length]? = none := List.getElem?_eq_none_iff.mpr (Nat.le_refl _)
    have hadv : (⟨r, d + 1, o⟩ : Item) ∈ T :=
      hcl (mem_closeStep.mpr ⟨_, hc, rl', hr', Or.inr (Or.inl ⟨hn, rfl,
        mem_advanceOver.mpr ⟨_, hit, hns, rfl, rfl⟩⟩)⟩)
    have := ih2 hv' r (d + 1) o rl rest hadv hr hdrop
    have e : d + 1 + ss.length = d + (Sym.n rl'.lhs :: ss).length := by
      simp only [List.length_cons]; omega
    rwa [e] at this

theorem closed_nullable_adv (hcl : closeStep g ok prev j T ⊆ T) {r d o : Nat} {rl : Rule} {s : Sym}
    (hit : (⟨r, d, o⟩ : Item) ∈ T) (hr : g.rules[r]? = some rl) (hs : rl.rhs[d]? = some s)
    (hn : symNullable g.nullable s = true) : (⟨r, d + 1, o⟩ : Item) ∈ T := by
  have hder : Der g [s] [] := symNullable_iff.mp hn
  have hlt := (List.getElem?_eq_some_iff.mp hs).1
  have hdrop : rl.rhs.drop d = [s] ++ rl.rhs.drop (d + 1) := by
    rw [List.drop_eq_getElem_cons hlt]
    have := (List.getElem?_eq_some_iff.mp hs).2
    rw [this]; rfl
  exact closed_skip_nil hcl hder rfl r d o rl _ hit hr hdrop

theorem closed_skip_tail (hcl : closeStep g ok prev j T ⊆ T) {r d o : Nat} {rl : Rule}
    (hit : (⟨r, d, o⟩ : Item) ∈ T) (hr : g.rules[r]? = some rl) (hd : d ≤ rl.rhs.length)
    (hall : (rl.rhs.drop d).all (symNullable g.nullable) = true) :
    (⟨r, rl.rhs.length, o⟩ : Item) ∈ T := by
  have hder : Der g (rl.rhs.drop d) [] := by
    apply Der.nil_of_forall
    intro s hs
    exact symNullable_iff.mp (List.all_eq_true.mp hall s hs)
  have := closed_skip_nil hcl hder rfl r d o rl [] hit hr (by simp)
  rw [List.length_drop] at this
  rwa [show d + (rl.rhs.length - d) = rl.rhs.length by omega] at this

end Closed

/-! ## moving the dot over a nullable symbol inside an expanded core -/

section Expanded
variable {g : Grammar} {an : Analysis} {num : Nat} {ss : List Sit} {c : Core}

theorem tagOf_lt_nStart {c : Core} {i : Nat} (h : i < c.nStart) : c.tagOf i = some i := by
  unfold Core.tagOf; rw [if_pos h]

theorem tagOf_ge_nAll {c : Core} (hs : Shape c) {i : Nat} (h : c.nAllDists ≤ i) :
    c.tagOf i = none := by
  unfold Core.tagOf
  have := hs.le
  rw [if_neg (by omega), if_neg (by omega)]

theorem tagOf_mid {c : Core} {i p : Nat} (h1 : c.nStart ≤ i) (h2 : i < c.nAllDists)
    (hp : c.parents[i - c.nStart]? = some p) : c.tagOf i = some p := by
  unfold Core.tagOf
  rw [if_neg (by omega), if_pos h2, List.getD_eq_getElem?_getD, hp]; rfl

theorem parents_get {c : Core} (hs : Shape c) {i : Nat} (h1 : c.nStart ≤ i) (h2 : i < c.nAllDists) :
    ∃ p, c.parents[i - c.nStart]? = some p := by
  have : i - c.nStart < c.parents.length := by rw [hs.plen]; omega
  exact ⟨_, List.getElem?_eq_getElem this⟩

theorem ExpandSpec.start_get (h : ExpandSpec g an num ss c) {i : Nat} {sit : Sit}
    (hi : i < c.nStart) (hs : c.sits[i]? = some sit) : ss[i]? = some sit := by
  rw [← h.start]; exact startPart_get.mpr ⟨hi, hs⟩

/-- the situation with the dot moved over a nullable symbol is in the core, with the same
tag -/
theorem ExpandSpec.adv_nullable (h : ExpandSpec g an num ss c) {i1 r d : Nat} {rl : Rule} {s : Sym}
    (hi : c.sits[i1]? = some (r, d)) (hr : g.rules[r]? = some rl) (hs : rl.rhs[d]? = some s)
    (hn : symNullable an.nl s = true) :
    ∃ i2, c.sits[i2]? = some (r, d + 1) ∧ c.tagOf i2 = c.tagOf i1 := by
  have hsh := h.shape
  have hlt := (List.getElem?_eq_some_iff.mp hi).1
  rcases Nat.lt_or_ge i1 c.nAllDists with hA | hA
  · rcases Nat.lt_or_ge i1 c.nStart with hS | hS
    · -- a start situation
      have hss := h.start_get hS hi
      have hk : 0 < nullRun an.nl (rl.rhs.drop d) :=
        nullRun_extend (Nat.zero_le _) (by rw [List.getElem?_drop]; exact hs) hn
      have hdf : DerivedFrom g an.nl ss ((r, d + 1), i1) := ⟨r, d, rl, 0, hss, hr, hk, rfl⟩
      obtain ⟨i2, h1, h2, h3, h4⟩ := mem_derived_iff.mp ((h.derived _).mpr hdf)
      exact ⟨i2, h3, by rw [tagOf_mid h1 h2 h4, tagOf_lt_nStart hS]⟩
    · -- a derived situation
      obtain ⟨p0, hp0⟩ := parents_get hsh hS hA
      have hmem : ((r, d), p0) ∈ c.derived := mem_derived_iff.mpr ⟨i1, hS, hA, hi, hp0⟩
      obtain ⟨r0, d00, rl0, k, hss, hr0, hk, hx⟩ := (h.derived _).mp hmem
      simp only [Prod.mk.injEq] at hx
      obtain ⟨hx1, hx2⟩ := hx
      subst hx1
      rw [hr] at hr0; cases hr0
      have hk' : k + 1 < nullRun an.nl (rl.rhs.drop d00) :=
        nullRun_extend (by omega)
          (by rw [List.getElem?_drop, show d00 + (k + 1) = d by omega]; exact hs) hn
      have hdf : DerivedFrom g an.nl ss ((r, d + 1), p0) :=
        ⟨r, d00, rl, k + 1, hss, hr, hk', by simp only [Prod.mk.injEq, true_and]; omega⟩
      obtain ⟨i2, h1, h2, h3, h4⟩ := mem_derived_iff.mp ((h.derived _).mpr hdf)
      exact ⟨i2, h3, by rw [tagOf_mid h1 h2 h4, tagOf_mid hS hA hp0]⟩
  · -- an initial situation
    have hnx : nextOf g c.sits i1 = some s := by
      rw [nextOf_of_get hi]; exact nextSym_eq_some.mpr ⟨rl, hr, hs⟩
    have := h.adv i1 hlt hA s hnx hn
    rw [List.getD_eq_getElem?_getD, hi] at this
    obtain ⟨i2, h1, h2⟩ := mem_initPart_iff.mp this
    exact ⟨i2, h2, by rw [tagOf_ge_nAll hsh h1, tagOf_ge_nAll hsh hA]⟩

/-- a situation with the dot at the end whose distance is the one of start situation `p0`
comes from that start situation, and the start situation has `empty_tail_p` -/
theorem ExpandSpec.complete_parent (h : ExpandSpec g an num ss c) {i0 r0 d0 p0 : Nat} {rl : Rule}
    (hi : c.sits[i0]? = some (r0, d0)) (hr : g.rules[r0]? = some rl) (hd : rl.rhs[d0]? = none)
    (ht : c.tagOf i0 = some p0) :
    ∃ d00, ss[p0]? = some (r0, d00) ∧ emptyTailP g an (r0, d00) = true := by
  have hsh := h.shape
  have hge : rl.rhs.length ≤ d0 := List.getElem?_eq_none_iff.mp hd
  rcases Nat.lt_or_ge i0 c.nAllDists with hA | hA
  · rcases Nat.lt_or_ge i0 c.nStart with hS | hS
    · rw [tagOf_lt_nStart hS] at ht
      cases ht
      refine ⟨d0, h.start_get hS hi, ?_⟩
      unfold emptyTailP
      simp only [hr]
      rw [List.drop_eq_nil_of_le hge]; rfl
    · obtain ⟨p, hp⟩ := parents_get hsh hS hA
      rw [tagOf_mid hS hA hp] at ht
      cases ht
      have hmem : ((r0, d0), p0) ∈ c.derived := mem_derived_iff.mpr ⟨i0, hS, hA, hi, hp⟩
      obtain ⟨r, d00, rl0, k, hss, hr0, hk, hx⟩ := (h.derived _).mp hmem
      simp only [Prod.mk.injEq] at hx
      obtain ⟨hx1, hx2⟩ := hx
      subst hx1
      rw [hr] at hr0; cases hr0
      refine ⟨d00, hss, ?_⟩
      unfold emptyTailP
      simp only [hr]
      apply nullRun_eq_length_iff.mp
      have := nullRun_le_length an.nl (rl.rhs.drop d00)
      rw [List.length_drop] at this ⊢
      omega
  · rw [tagOf_ge_nAll hsh hA] at ht; cases ht

end Expanded

theorem ExpandSpec.parents_lt {g : Grammar} {an : Analysis} {num : Nat} {ss : List Sit} {c : Core}
    (h : ExpandSpec g an num ss c) : ∀ p ∈ c.parents, p < c.nStart := by
  intro p hp
  have hsh := h.shape
  obtain ⟨k, hk⟩ := List.mem_iff_getElem?.mp hp
  have hkl := (List.getElem?_eq_some_iff.mp hk).1
  rw [hsh.plen] at hkl
  have hlt : c.nStart + k < c.sits.length := by have := hsh.le'; omega
  have hmem : (c.sits[c.nStart + k], p) ∈ c.derived :=
    mem_derived_iff.mpr ⟨c.nStart + k, by omega, by omega, List.getElem?_eq_getElem hlt,
      by rw [show c.nStart + k - c.nStart = k by omega]; exact hk⟩
  obtain ⟨r, d, rl, k', hss, _⟩ := (h.derived _).mp hmem
  rw [h.nStart]
  exact (List.getElem?_eq_some_iff.mp hss).1

/-! ## a stored set with an expanded core against `closeSet` -/

theorem take_all_of_le {α : Type} (l : List α) {n : Nat} (h : l.length ≤ n) : l.take n = l :=
  List.take_of_length_le h

/-- The generic comparison: a set whose core is `expand_new_start_set` of start situations
`ss` (distances `cs.dists`) has, at position `j`, exactly the items of `closeSet … S`, provided
the start situations are sound (`hA`), contain `S` (`hB`), start situations with origin `j`
have the dot at the beginning (`hC`: only set 0), and the completions of the start situations
with `empty_tail_p` are among the items (`hD`). -/
theorem items_iff_closeSet {g : Grammar} {an : Analysis} {ok : Nat → Nat → Bool}
    {plA : List (List Item)} {j : Nat} {S : List Item} {num : Nat} {ss : List Sit} {cs : CSet}
    (hnl : an.nl = g.nullable)
    (hcore : cs.core = expandNewStartSet g an (Core.fresh num ss))
    (hcl : closeStep g ok plA j (closeSet g ok plA j S) ⊆ closeSet g ok plA j S)
    (hA : ∀ i sit, ss[i]? = some sit →
      (⟨sit.1, sit.2, j - cs.dists.getD i 0⟩ : Item) ∈ closeSet g ok plA j S)
    (hB : ∀ x ∈ S, x ∈ cs.items j)
    (hC : ∀ i sit, ss[i]? = some sit → j - cs.dists.getD i 0 = j → sit.2 = 0)
    (hD : ∀ i sit rl, ss[i]? = some sit → g.rules[sit.1]? = some rl →
      emptyTailP g an sit = true → j - cs.dists.getD i 0 ≠ j →
      ∀ x ∈ advanceOver g (Sym.n rl.lhs) ok (plA.getD (j - cs.dists.getD i 0) []), x ∈ cs.items j) :
    ∀ it, it ∈ cs.items j ↔ it ∈ closeSet g ok plA j S := by
  have hsp : ExpandSpec g an num ss cs.core := hcore ▸ expandNewStartSet_spec g an num ss
  have hsh := hsp.shape
  have hallQ : ∀ {Q : Nat → Nat → Option Nat → Prop}, QAdv g an.nl Q → QPred g Q →
      (∀ i sit, ss[i]? = some sit → Q sit.1 sit.2 (some i)) → AllQ Q cs.core := by
    intro Q h1 h2 h3
    rw [hcore]; exact expandNewStartSet_allQ g an num ss h1 h2 h3
  -- items with origin `j` have a nullable prefix
  have hprefix : ∀ i sit, cs.core.sits[i]? = some sit → j - dtag cs.dists (cs.core.tagOf i) = j →
      ∀ rl, g.rules[sit.1]? = some rl → (rl.rhs.take sit.2).all (symNullable an.nl) = true := by
    intro i sit hi
    refine (hallQ (Q := fun r d t => j - dtag cs.dists t = j → ∀ rl, g.rules[r]? = some rl →
      (rl.rhs.take d).all (symNullable an.nl) = true) ?_ ?_ ?_).at_index hsh hi
    · intro r d t rl s hq hr hs hn ho rl' hr'
      rw [hr] at hr'; cases hr'
      rw [take_succ_of_getElem? _ hs, List.all_append, hq ho rl hr]
      simp [hn]
    · intro r d t B r' rl' _ _ _ _ _ rl _; rfl
    · intro i sit hs ho rl _
      rw [hC i sit hs ho]; rfl
  intro it
  constructor
  · -- soundness
    intro hit
    obtain ⟨i, sit, hs, rfl⟩ := mem_items.mp hit
    refine (hallQ (Q := fun r d t => (⟨r, d, j - dtag cs.dists t⟩ : Item) ∈ closeSet g ok plA j S)
      ?_ ?_ ?_).at_index hsh hs
    · intro r d t rl s hq hr hs hn
      rw [hnl] at hn
      exact closed_nullable_adv hcl hq hr hs hn
    · intro r d t B r' rl' hq hs hr' hl
      exact closed_predict hcl hq hs hr' hl
    · exact hA
  · -- completeness
    intro hit
    unfold closeSet at hit
    refine saturate_sound (closeStep g ok plA j) (· ∈ cs.items j) ?_ _ _ ?_ it hit
    · intro s hs x hx
      obtain ⟨it0, hit0, rl, hrl, hcase⟩ := mem_closeStep.mp hx
      obtain ⟨i0, sit0, hi0, rfl⟩ := mem_items.mp (hs _ hit0)
      obtain ⟨r0, d0⟩ := sit0
      simp only at hrl hcase
      rcases hcase with ⟨B, hB', hx⟩ | ⟨hn, ho, hx⟩ | ⟨hn, ho, hx⟩
      · -- predict
        obtain ⟨r', rl', hr', hl', rfl⟩ := mem_predictItems.mp hx
        have hnx : nextOf g cs.core.sits i0 = some (Sym.n B) := by
          rw [nextOf_of_get hi0]; exact nextSym_eq_some.mpr ⟨rl, hrl, hB'⟩
        have := hsp.pred i0 (List.getElem?_eq_some_iff.mp hi0).1 B hnx r'
          (mem_rulesOf.mpr ⟨rl', hr', hl'⟩)
        obtain ⟨i2, h1, h2⟩ := mem_initPart_iff.mp this
        exact mem_items.mpr ⟨i2, _, h2, by rw [tagOf_ge_nAll hsh h1]; rfl⟩
      · -- completion inside the set: the completed rule is nullable
        obtain ⟨p, hp, hnx, _, rfl⟩ := mem_advanceOver.mp hx
        obtain ⟨i1, sit1, hi1, rfl⟩ := mem_items.mp (hs _ hp)
        obtain ⟨r, d⟩ := sit1
        simp only at hnx ⊢
        have hpre := hprefix i0 (r0, d0) hi0 ho rl hrl
        have hge : rl.rhs.length ≤ d0 := List.getElem?_eq_none_iff.mp hn
        rw [take_all_of_le _ hge] at hpre
        have hlhs : rl.lhs ∈ g.nullable := by
          apply nullable_closed g
          rw [hnl] at hpre
          exact mem_nullableStep.mpr ⟨rl, List.mem_of_getElem? hrl, hpre, rfl⟩
        obtain ⟨rl1, hr1, hs1⟩ := nextSym_eq_some.mp hnx
        have hnull : symNullable an.nl (Sym.n rl.lhs) = true := by
          rw [hnl]; simpa [symNullable] using hlhs
        obtain ⟨i2, h1, h2⟩ := hsp.adv_nullable hi1 hr1 hs1 hnull
        exact mem_items.mpr ⟨i2, _, h1, by rw [h2]⟩
      · -- completion with an earlier origin: through the start situation
        have ho' : j - dtag cs.dists (cs.core.tagOf i0) ≠ j := ho
        cases ht : cs.core.tagOf i0 with
        | none => rw [ht] at ho'; exact absurd (by simp [dtag]) ho'
        | some p0 =>
          rw [ht] at ho' hx
          obtain ⟨d00, hss, het⟩ := hsp.complete_parent hi0 hrl hn ht
          exact hD p0 (r0, d00) rl hss hrl het ho' x hx
    · intro x hx
      rcases mem_addNew hx with h | h
      · cases h
      · exact hB x h

/-! ## `build_start_set` -/

/-- a situation `(rule, dot)` with the dot inside the rule -/
def ValidSit (g : Grammar) (s : Sit) : Prop := ∃ rl, g.rules[s.1]? = some rl ∧ s.2 ≤ rl.rhs.length

theorem ValidSit.in_univ {g : Grammar} {s : Sit} (h : ValidSit g s) : s ∈ sitUniv g := by
  obtain ⟨rl, h1, h2⟩ := h
  have := le_maxRhs (List.mem_of_getElem? h1)
  exact mem_sitUniv.mpr ⟨(List.getElem?_eq_some_iff.mp h1).1, by omega⟩

theorem validSit_of_next {g : Grammar} {r d : Nat} {X : Sym} (h : g.nextSym r d = some X) :
    ValidSit g (r, d + 1) := by
  obtain ⟨rl, h1, h2⟩ := nextSym_eq_some.mp h
  exact ⟨rl, h1, (List.getElem?_eq_some_iff.mp h2).1⟩



theorem buildNewSet_unfold (g : Grammar) (an : Analysis) (ok : Nat → Nat → Bool) (tab : Tab)
    (pl : List CSet) (set : CSet) (X : Sym) :
    buildNewSet g an ok tab pl set X =
      let st := newSetLoop2 g an ok pl (pl.length - 1) (newSetFuel g pl)
        (newSetLoop1 ok set ((set.core.transOf X).getD []), false)
      let r := setInsert tab st.1
      let tab' : Tab := { r.1 with bad := r.1.bad || st.2 }
      if r.2.2 then
        (tab'.storeCore (expandNewStartSet g an r.2.1.core),
          { r.2.1 with core := expandNewStartSet g an r.2.1.core })
      else (tab', r.2.1) := rfl

theorem buildStartSet_unfold (g : Grammar) (an : Analysis) :
    buildStartSet g an =
      let ns := (rulesOf g g.axiomN).foldl (fun ns r => addStartSit ns (r, 0) 0) setNewStart
      let r := setInsert {} ns
      (r.1.storeCore (expandNewStartSet g an r.2.1.core),
        { r.2.1 with core := expandNewStartSet g an r.2.1.core }) := rfl

theorem foldl_addStartSit (L : List Nat) (ns : NewStart) :
    L.foldl (fun ns r => addStartSit ns (r, 0) 0) ns = ns ++ L.map fun r => ((r, 0), 0) := by
  induction L generalizing ns with
  | nil => simp
  | cons a L ih =>
    simp only [List.foldl_cons]
    rw [ih]
    simp [addStartSit]

theorem TabInv_empty (g : Grammar) (an : Analysis) : TabInv g an {} :=
  ⟨rfl, fun i c h => by simp at h⟩

theorem TabInv_congr {g : Grammar} {an : Analysis} {tab tab' : Tab} (h : TabInv g an tab)
    (h1 : tab'.cores = tab.cores) (h2 : tab'.nCores = tab.nCores) : TabInv g an tab' :=
  ⟨by rw [h1, h2]; exact h.ncores, by rw [h1]; exact h.cores⟩

/-- the resulting set of `set_insert` + `expand_new_start_set` satisfies `SetOK` at position
`k` if its distances are at most `k` -/
theorem SetOK_of_expand {g : Grammar} {an : Analysis} {num : Nat} {ss : List Sit} {cs : CSet} {k : Nat}
    (hcore : cs.core = expandNewStartSet g an (Core.fresh num ss))
    (hdl : cs.dists.length = ss.length) (hle : ∀ d ∈ cs.dists, d ≤ k) : SetOK g k cs := by
  have hsp : ExpandSpec g an num ss cs.core := hcore ▸ expandNewStartSet_spec g an num ss
  exact ⟨hsp.shape, by rw [hdl, hsp.nStart], hle, hsp.trans⟩

/-- the set is what `expand_new_start_set` makes of some start situations (one distance per
start situation) -/
def Expanded (g : Grammar) (an : Analysis) (cs : CSet) : Prop :=
  ∃ num ss, cs.core = expandNewStartSet g an (Core.fresh num ss) ∧ cs.dists.length = ss.length ∧
    ∀ sit ∈ ss, ValidSit g sit

/-- every situation of an expanded core is a situation of the grammar -/
theorem Expanded.valid {g : Grammar} {an : Analysis} {cs : CSet} (h : Expanded g an cs) :
    ∀ sit ∈ cs.core.sits, ValidSit g sit := by
  obtain ⟨num, ss, hc, _, hv⟩ := h
  have hsp : ExpandSpec g an num ss cs.core := hc ▸ expandNewStartSet_spec g an num ss
  intro sit hs
  obtain ⟨i, hi⟩ := List.mem_iff_getElem?.mp hs
  have hq : AllQ (fun r d _ => ValidSit g (r, d)) cs.core := by
    rw [hc]
    apply expandNewStartSet_allQ
    · intro r d t rl s _ hr hs _
      exact ⟨rl, hr, (List.getElem?_eq_some_iff.mp hs).1⟩
    · intro r d t B r' rl' _ _ hr' _
      exact ⟨rl', hr', Nat.zero_le _⟩
    · intro i sit hs
      exact hv sit (List.mem_of_getElem? hs)
  exact hq.at_index hsp.shape hi

theorem buildStartSet_main (g : Grammar) (an : Analysis) (hnl : an.nl = g.nullable) :
    TabInv g an (buildStartSet g an).1 ∧ SetOK g 0 (buildStartSet g an).2 ∧
      Expanded g an (buildStartSet g an).2 ∧
      ∀ it, it ∈ (buildStartSet g an).2.items 0 ↔ it ∈ set0 g := by
  rw [buildStartSet_unfold]
  dsimp only
  rw [foldl_addStartSit]
  simp only [setNewStart, List.nil_append]
  generalize hns : (rulesOf g g.axiomN).map (fun r => (((r, 0), 0) : Sit × Nat)) = ns
  have hss : ns.map (·.1) = (rulesOf g g.axiomN).map fun r => ((r, 0) : Sit) := by
    rw [← hns, List.map_map]; rfl
  have hds : ∀ d ∈ ns.map (·.2), d = 0 := by
    rw [← hns, List.map_map]; intro d hd; simp at hd; exact hd.2.symm
  have hspec := insert_expand_spec (TabInv_empty g an) ns
  obtain ⟨hd, _, hcase⟩ := setInsert_spec {} ns
  rcases hcase with ⟨_, ⟨i, hi⟩, _⟩ | ⟨hnew, hcore, hcores, hn⟩
  · simp at hi
  · dsimp only at hspec
    rw [hnew] at hspec
    simp only [if_true] at hspec
    obtain ⟨htab, hdists, num, hc⟩ := hspec
    refine ⟨htab, ?_, ⟨num, _, hc, ?_, ?_⟩, ?_⟩
    · apply SetOK_of_expand hc
      · show (setInsert {} ns).2.1.dists.length = _
        rw [hd, List.length_map, List.length_map]
      · intro d hd'
        have : d ∈ ns.map (·.2) := by
          have e : (setInsert {} ns).2.1.dists = ns.map (·.2) := hd
          rw [← e]; exact hd'
        rw [hds d this]; exact Nat.le_refl _
    · show (setInsert {} ns).2.1.dists.length = _
      rw [hd, List.length_map, List.length_map]
    · intro sit hs
      rw [hss] at hs
      obtain ⟨r, hr, rfl⟩ := List.mem_map.mp hs
      obtain ⟨rl, h1, _⟩ := mem_rulesOf.mp hr
      exact ⟨rl, h1, Nat.zero_le _⟩
    · unfold set0
      have hdget : ∀ i, ({ (setInsert {} ns).2.1 with
          core := expandNewStartSet g an (setInsert {} ns).2.1.core } : CSet).dists.getD i 0 = 0 := by
        intro i
        show (setInsert {} ns).2.1.dists.getD i 0 = 0
        rw [hd, List.getD_eq_getElem?_getD]
        cases h : (ns.map (·.2))[i]? with
        | none => rfl
        | some d => exact hds d (List.mem_of_getElem? h)
      have hssget : ∀ (i : Nat) (sit : Sit), (ns.map (·.1))[i]? = some sit →
          ∃ rl, g.rules[sit.1]? = some rl ∧ rl.lhs = g.axiomN ∧ sit.2 = 0 := by
        intro i sit h
        rw [hss] at h
        have := List.mem_of_getElem? h
        simp only [List.mem_map] at this
        obtain ⟨r, hr, rfl⟩ := this
        obtain ⟨rl, h1, h2⟩ := mem_rulesOf.mp hr
        exact ⟨rl, h1, h2, rfl⟩
      apply items_iff_closeSet hnl hc
      · apply closeSet_closed
        · intro k hk; omega
        · intro x hx
          obtain ⟨r, rl, h1, h2, rfl⟩ := mem_initItems.mp hx
          exact mem_itemUniv.mpr ⟨(List.getElem?_eq_some_iff.mp h1).1, Nat.zero_le _, Nat.le_refl _⟩
      · intro i sit h
        obtain ⟨rl, h1, h2, h3⟩ := hssget i sit h
        apply start_subset_closeSet
        rw [hdget]
        exact mem_initItems.mpr ⟨sit.1, rl, h1, h2, by rw [h3]⟩
      · intro x hx
        obtain ⟨r, rl, h1, h2, rfl⟩ := mem_initItems.mp hx
        have hmem : ((r, 0) : Sit) ∈ ns.map (·.1) := by
          rw [hss]; exact List.mem_map.mpr ⟨r, mem_rulesOf.mpr ⟨rl, h1, h2⟩, rfl⟩
        obtain ⟨i, hi⟩ := List.mem_iff_getElem?.mp hmem
        have hsp : ExpandSpec g an num (ns.map (·.1))
            (expandNewStartSet g an (Core.fresh num (ns.map (·.1)))) :=
          expandNewStartSet_spec g an num _
        rw [← hsp.start] at hi
        obtain ⟨hi1, hi2⟩ := startPart_get.mp hi
        refine mem_items.mpr ⟨i, (r, 0), by rw [hc]; exact hi2, ?_⟩
        have e : ({ (setInsert {} ns).2.1 with
          core := expandNewStartSet g an (setInsert {} ns).2.1.core } : CSet).core.tagOf i = some i := by
          rw [hc]; exact tagOf_lt_nStart hi1
        rw [e]
        show _ = Item.mk r 0 (0 - _)
        simp
      · intro i sit h _
        obtain ⟨_, _, _, h3⟩ := hssget i sit h
        exact h3
      · intro i sit rl _ _ _ hne
        exact absurd (Nat.zero_sub _) hne

/-! ## `build_new_set` -/

/-- the parse-list invariant: every stored set satisfies `SetOK` and has, as a set, the items
of the abstract set at the same position -/
structure PLOK (g : Grammar) (plA : List (List Item)) (pl : List CSet) : Prop where
  len : plA.length = pl.length
  ok : ∀ k, k < pl.length → SetOK g k (pl.getD k default)
  items : ∀ k, k < pl.length → ∀ it, it ∈ (pl.getD k default).items k ↔ it ∈ plA.getD k []

section Shift
variable {g : Grammar} {plA : List (List Item)} {pl : List CSet}

/-- what a pair produced by `shiftSit` from the transition vector of `X` of set `k` is -/
theorem shift_sound (h : PLOK g plA pl) {k : Nat} (hk : k < pl.length) {ok : Nat → Nat → Bool}
    {X : Sym} {base ind : Nat} {p : Sit × Nat}
    (hind : ind ∈ (((pl.getD k default).core.transOf X).getD []))
    (hp : shiftSit ok (pl.getD k default) base ind = some p) :
    ∃ r d dist, p = ((r, d + 1), dist + base) ∧ ok r (d + 1) = true ∧ g.nextSym r d = some X ∧
      (⟨r, d, k - dist⟩ : Item) ∈ plA.getD k [] ∧ dist ≤ k := by
  have hok := h.ok k hk
  have hitems := h.items k hk
  generalize pl.getD k default = prev at hok hitems hind hp
  obtain ⟨hlt, hnx⟩ := hok.mem_trans.mp hind
  have hget : prev.core.sits[ind]? = some (prev.core.sits.getD ind default) := by
    rw [List.getD_eq_getElem?_getD, List.getElem?_eq_getElem hlt]; rfl
  generalize prev.core.sits.getD ind default = sit at hget
  unfold shiftSit at hp
  rw [List.getD_eq_getElem?_getD, hget] at hp
  simp only [Option.getD_some] at hp
  split at hp
  · rename_i hokk
    cases hp
    refine ⟨sit.1, sit.2, prev.distOf ind, rfl, hokk, ?_, ?_, ?_⟩
    · rw [← nextOf_of_get hget]; exact hnx
    · rw [← hitems, distOf_eq hok.shape]
      exact mem_items.mpr ⟨ind, sit, hget, rfl⟩
    · rw [distOf_eq hok.shape]; exact hok.dtag_le _
  · cases hp

/-- every item of set `k` with `X` after the dot that passes the lookahead test is shifted -/
theorem shift_complete (h : PLOK g plA pl) {k : Nat} (hk : k < pl.length) {ok : Nat → Nat → Bool}
    {X : Sym} (base : Nat) {r d o : Nat} (hit : (⟨r, d, o⟩ : Item) ∈ plA.getD k [])
    (hnx : g.nextSym r d = some X) (hokk : ok r (d + 1) = true) :
    o ≤ k ∧ ∃ ind, ind ∈ (((pl.getD k default).core.transOf X).getD []) ∧
      shiftSit ok (pl.getD k default) base ind = some ((r, d + 1), (k - o) + base) := by
  have hok := h.ok k hk
  have hitems := h.items k hk
  generalize pl.getD k default = prev at hok hitems ⊢
  obtain ⟨i, sit, hs, hit'⟩ := mem_items.mp ((hitems _).mpr hit)
  simp only [Item.mk.injEq] at hit'
  obtain ⟨h1, h2, h3⟩ := hit'
  have hle := hok.dtag_le (prev.core.tagOf i)
  refine ⟨by omega, i, ?_, ?_⟩
  · apply hok.mem_trans.mpr
    refine ⟨(List.getElem?_eq_some_iff.mp hs).1, ?_⟩
    rw [nextOf_of_get hs, ← h1, ← h2]; exact hnx
  · unfold shiftSit
    rw [List.getD_eq_getElem?_getD, hs]
    simp only [Option.getD_some]
    rw [← h1, ← h2, if_pos hokk, distOf_eq hok.shape]
    congr 2
    omega

end Shift

section NewSet
variable {g : Grammar} {an : Analysis} {ok : Nat → Nat → Bool} {plA : List (List Item)}
  {pl : List CSet} {a : Nat}

/-- the property of the pairs `(start situation, distance)` of the new set -/
def PairOK (g : Grammar) (ok : Nat → Nat → Bool) (plA : List (List Item)) (a : Nat)
    (p : Sit × Nat) : Prop :=
  ValidSit g p.1 ∧ 1 ≤ p.2 ∧ p.2 ≤ plA.length ∧
    (⟨p.1.1, p.1.2, plA.length - p.2⟩ : Item) ∈ nextSet g ok plA a

theorem nextSet_closed (h : PLOK g plA pl) :
    closeStep g ok plA plA.length (nextSet g ok plA a) ⊆ nextSet g ok plA a := by
  unfold nextSet
  apply closeSet_closed
  · intro k hk it hit
    rw [h.len] at hk
    obtain ⟨i, sit, _, rfl⟩ := mem_items.mp ((h.items k hk it).mpr hit)
    have := h.len
    simp only
    omega
  · intro x hx
    obtain ⟨p, hp, hnx, _, rfl⟩ := mem_advanceOver.mp hx
    apply advance_in_univ hnx
    rcases Nat.eq_zero_or_pos plA.length with h0 | hpos
    · have : plA = [] := List.eq_nil_of_length_eq_zero h0
      subst this; cases hp
    · have hk : plA.length - 1 < pl.length := by rw [← h.len]; omega
      rw [getLastD_eq_getD plA (plA.length - 1) [] (by omega)] at hp
      obtain ⟨i, sit, _, rfl⟩ := mem_items.mp ((h.items _ hk p).mpr hp)
      have := h.len
      simp only
      omega

theorem pairOK_loop1 (h : PLOK g plA pl) (hne : pl ≠ []) :
    ∀ p ∈ newSetLoop1 ok (pl.getLastD default) (((pl.getLastD default).core.transOf (Sym.t a)).getD []),
      PairOK g ok plA a p := by
  intro p hp
  have hpos : 0 < pl.length := List.length_pos_iff.mpr hne
  have hk : pl.length - 1 < pl.length := by omega
  have hlast : pl.getLastD default = pl.getD (pl.length - 1) default :=
    getLastD_eq_getD pl _ _ (by omega)
  have hlastA : plA.getLastD [] = plA.getD (pl.length - 1) [] :=
    getLastD_eq_getD plA _ _ (by rw [h.len]; omega)
  rw [newSetLoop1_eq, hlast] at hp
  rcases mem_addNew hp with hp | hp
  · cases hp
  · obtain ⟨ind, hind, hsh⟩ := List.mem_filterMap.mp hp
    obtain ⟨r, d, dist, rfl, hokk, hnx, hmem, hle⟩ := shift_sound h hk hind hsh
    refine ⟨validSit_of_next hnx, by simp only; omega, by simp only; rw [h.len]; omega, ?_⟩
    unfold nextSet
    apply start_subset_closeSet
    rw [hlastA]
    refine mem_advanceOver.mpr ⟨_, hmem, hnx, hokk, ?_⟩
    simp only [Item.mk.injEq, true_and]
    rw [h.len]; omega

theorem pairOK_step (hnl : an.nl = g.nullable) (h : PLOK g plA pl) :
    ∀ ns i, (∀ p ∈ ns, PairOK g ok plA a p) → i < ns.length →
      ∀ p ∈ step2Pairs g an ok pl (pl.length - 1) ns i, PairOK g ok plA a p := by
  intro ns i hall hi p hp
  have hcl := nextSet_closed (ok := ok) (a := a) h
  have hmemi : ns.getD i default ∈ ns := by
    rw [List.getD_eq_getElem?_getD, List.getElem?_eq_getElem hi]
    exact List.getElem_mem hi
  obtain ⟨⟨rl, hrl, hd0⟩, h1, h2, hT⟩ := hall _ hmemi
  unfold step2Pairs at hp
  generalize ns.getD i default = p0 at hp hrl hd0 h1 h2 hT
  obtain ⟨⟨r0, d0⟩, nd0⟩ := p0
  simp only at hrl hd0 h1 h2 hT
  simp only at hp
  split at hp
  · rename_i het
    split at hp
    · have hplace : pl.length - 1 + 1 - nd0 = plA.length - nd0 := by rw [h.len]; omega
      rw [hplace] at hp
      have hk : plA.length - nd0 < pl.length := by rw [← h.len]; omega
      obtain ⟨ind, hind, hsh⟩ := List.mem_filterMap.mp hp
      obtain ⟨r, d, dist, rfl, hokk, hnx, hmem, hle⟩ := shift_sound h hk hind hsh
      have hlhs : lhsOf g (r0, d0) = rl.lhs := by
        unfold lhsOf
        rw [List.getD_eq_getElem?_getD, hrl]; rfl
      rw [hlhs] at hnx
      refine ⟨validSit_of_next hnx, by simp only; omega, by simp only; omega, ?_⟩
      -- the start situation with an empty tail is completed ...
      have hall' : (rl.rhs.drop d0).all (symNullable g.nullable) = true := by
        unfold emptyTailP at het
        simp only [hrl] at het
        rw [← hnl]; exact het
      have hcomp := closed_skip_tail hcl hT hrl hd0 hall'
      -- ... and the completion advances the item of the origin set
      have hn : rl.rhs[rl.rhs.length]? = none := List.getElem?_eq_none_iff.mpr (Nat.le_refl _)
      have hx : (⟨r, d + 1, plA.length - nd0 - dist⟩ : Item) ∈ nextSet g ok plA a :=
        hcl (mem_closeStep.mpr ⟨_, hcomp, rl, hrl, Or.inr (Or.inr ⟨hn, by simp only; omega,
          mem_advanceOver.mpr ⟨_, hmem, hnx, hokk, rfl⟩⟩)⟩)
      simp only
      rw [show plA.length - (dist + nd0) = plA.length - nd0 - dist by omega]
      exact hx
    · cases hp
  · cases hp

theorem PairOK.in_univ (h : PLOK g plA pl) {p : Sit × Nat} (hp : PairOK g ok plA a p) :
    p ∈ pairUniv g pl.length := by
  obtain ⟨h1, _, h3, _⟩ := hp
  exact mem_pairUniv.mpr ⟨h1.in_univ, by rw [← h.len]; exact h3⟩

/-- the start situations of the new set, after both loops -/
def newStarts (g : Grammar) (an : Analysis) (ok : Nat → Nat → Bool) (pl : List CSet) (a : Nat) :
    NewStart × Bool :=
  newSetLoop2 g an ok pl (pl.length - 1) (newSetFuel g pl)
    (newSetLoop1 ok (pl.getLastD default) (((pl.getLastD default).core.transOf (Sym.t a)).getD []),
      false)

theorem newStarts_inv (hnl : an.nl = g.nullable) (h : PLOK g plA pl) (hne : pl ≠ []) :
    NSInv g an ok pl (pl.length - 1) (PairOK g ok plA a)
      (newSetLoop1 ok (pl.getLastD default) (((pl.getLastD default).core.transOf (Sym.t a)).getD []))
      (newStarts g an ok pl a).1.length (newStarts g an ok pl a).1 := by
  unfold newStarts
  refine (newSetLoop2_spec (pairOK_step hnl h) (fun p hp => hp.in_univ h) ?_
    (pairOK_loop1 h hne) false).1
  rw [newSetLoop1_eq]
  exact addNew_nodup _ List.nodup_nil

theorem map_fst_get {ns : NewStart} {i : Nat} {sit : Sit} (h : (ns.map (·.1))[i]? = some sit) :
    ∃ nd, ns[i]? = some (sit, nd) ∧ (ns.map (·.2)).getD i 0 = nd := by
  rw [List.getElem?_map] at h
  cases hn : ns[i]? with
  | none => rw [hn] at h; cases h
  | some p =>
    rw [hn] at h
    simp only [Option.map_some, Option.some.injEq] at h
    refine ⟨p.2, by rw [← h], ?_⟩
    rw [List.getD_eq_getElem?_getD, List.getElem?_map, hn]; rfl

/-- a pair of the start situations is an item of the resulting set -/
theorem start_item {num : Nat} {ns : NewStart} {cs : CSet} {j : Nat}
    (hcore : cs.core = expandNewStartSet g an (Core.fresh num (ns.map (·.1))))
    (hd : cs.dists = ns.map (·.2)) {p : Sit × Nat} (hp : p ∈ ns) :
    (⟨p.1.1, p.1.2, j - p.2⟩ : Item) ∈ cs.items j := by
  obtain ⟨i, hi⟩ := List.mem_iff_getElem?.mp hp
  have hsp : ExpandSpec g an num (ns.map (·.1)) cs.core := hcore ▸ expandNewStartSet_spec g an num _
  have h1 : (ns.map (·.1))[i]? = some p.1 := by rw [List.getElem?_map, hi]; rfl
  rw [← hsp.start] at h1
  obtain ⟨hlt, hs⟩ := startPart_get.mp h1
  refine mem_items.mpr ⟨i, p.1, hs, ?_⟩
  rw [tagOf_lt_nStart hlt, hd]
  show _ = Item.mk p.1.1 p.1.2 (j - (ns.map (·.2)).getD i 0)
  rw [List.getD_eq_getElem?_getD, List.getElem?_map, hi]; rfl

/-- The set with core `expand_new_start_set (start situations)` and the distances of the
start situations has exactly the items of `nextSet`. -/
theorem newSet_items (hnl : an.nl = g.nullable) (h : PLOK g plA pl) (hne : pl ≠ []) {num : Nat}
    {cs : CSet}
    (hcore : cs.core = expandNewStartSet g an
      (Core.fresh num ((newStarts g an ok pl a).1.map (·.1))))
    (hd : cs.dists = (newStarts g an ok pl a).1.map (·.2)) :
    ∀ it, it ∈ cs.items plA.length ↔ it ∈ nextSet g ok plA a := by
  have hinv := newStarts_inv (ok := ok) (a := a) hnl h hne
  generalize (newStarts g an ok pl a).1 = ns at hinv hcore hd
  have hpos : 0 < pl.length := List.length_pos_iff.mpr hne
  have hlen := h.len
  have hlast : pl.getLastD default = pl.getD (pl.length - 1) default :=
    getLastD_eq_getD pl _ _ (by omega)
  have hlastA : plA.getLastD [] = plA.getD (pl.length - 1) [] :=
    getLastD_eq_getD plA _ _ (by omega)
  have hcl := nextSet_closed (ok := ok) (a := a) h
  unfold nextSet at hcl ⊢
  apply items_iff_closeSet hnl hcore hcl
  · -- the start situations are sound
    intro i sit hs
    obtain ⟨nd, hn, hdn⟩ := map_fst_get hs
    rw [hd, hdn]
    exact (hinv.all _ (List.mem_of_getElem? hn)).2.2.2
  · -- the scanned items are start situations
    intro x hx
    rw [hlastA] at hx
    obtain ⟨⟨r, d, o⟩, hp, hnx, hokk, rfl⟩ := mem_advanceOver.mp hx
    simp only at hnx hokk ⊢
    obtain ⟨hle, ind, hind, hsh⟩ := shift_complete h (by omega : pl.length - 1 < pl.length) 1 hp hnx hokk
    have hm : (((r, d + 1), pl.length - 1 - o + 1) : Sit × Nat) ∈ ns := by
      apply hinv.first
      rw [newSetLoop1_eq, hlast]
      exact addNew_subset_right _ _ (List.mem_filterMap.mpr ⟨ind, hind, hsh⟩)
    have := start_item (j := plA.length) hcore hd hm
    simp only at this
    rwa [show plA.length - (pl.length - 1 - o + 1) = o by omega] at this
  · -- no start situation has origin `j`
    intro i sit hs ho
    obtain ⟨nd, hn, hdn⟩ := map_fst_get hs
    rw [hd, hdn] at ho
    obtain ⟨_, h1, h2, _⟩ := hinv.all _ (List.mem_of_getElem? hn)
    simp only at h1 h2
    omega
  · -- completions of start situations with an empty tail
    intro i sit rl hs hrl het hne' x hx
    obtain ⟨nd, hn, hdn⟩ := map_fst_get hs
    rw [hd, hdn] at hx
    obtain ⟨_, h1, h2, _⟩ := hinv.all _ (List.mem_of_getElem? hn)
    simp only at h1 h2
    obtain ⟨⟨r, d, o⟩, hp, hnx, hokk, rfl⟩ := mem_advanceOver.mp hx
    simp only at hnx hokk ⊢
    have hk : plA.length - nd < pl.length := by omega
    obtain ⟨hle, ind, hind, hsh⟩ := shift_complete h hk nd hp hnx hokk
    have hilt : i < ns.length := (List.getElem?_eq_some_iff.mp hn).1
    have hgetD : ns.getD i default = (sit, nd) := by
      rw [List.getD_eq_getElem?_getD, hn]; rfl
    have hlhs : lhsOf g sit = rl.lhs := by
      unfold lhsOf
      rw [List.getD_eq_getElem?_getD, hrl]; rfl
    have hm : (((r, d + 1), plA.length - nd - o + nd) : Sit × Nat) ∈ ns := by
      apply hinv.closed i hilt
      unfold step2Pairs
      rw [hgetD]
      simp only
      rw [if_pos het, show pl.length - 1 + 1 - nd = plA.length - nd by omega, hlhs,
        if_pos (find_of_mem_trans hind)]
      exact List.mem_filterMap.mpr ⟨ind, hind, hsh⟩
    have := start_item (j := plA.length) hcore hd hm
    simp only at this
    rwa [show plA.length - (plA.length - nd - o + nd) = o by omega] at this

/-- `build_new_set`: the table invariant is kept, the new set satisfies `SetOK` and has the
items of `nextSet` -/
theorem buildNewSet_main {tab : Tab} (hnl : an.nl = g.nullable) (htab : TabInv g an tab)
    (h : PLOK g plA pl) (hne : pl ≠ []) :
    TabInv g an (buildNewSet g an ok tab pl (pl.getLastD default) (Sym.t a)).1 ∧
    SetOK g pl.length (buildNewSet g an ok tab pl (pl.getLastD default) (Sym.t a)).2 ∧
    Expanded g an (buildNewSet g an ok tab pl (pl.getLastD default) (Sym.t a)).2 ∧
    ∀ it, it ∈ (buildNewSet g an ok tab pl (pl.getLastD default) (Sym.t a)).2.items pl.length ↔
      it ∈ nextSet g ok plA a := by
  have hspec := insert_expand_spec htab (newStarts g an ok pl a).1
  have hinv := newStarts_inv (ok := ok) (a := a) hnl h hne
  have hunf : buildNewSet g an ok tab pl (pl.getLastD default) (Sym.t a) =
      let st := newStarts g an ok pl a
      let r := setInsert tab st.1
      let tab' : Tab := { r.1 with bad := r.1.bad || st.2 }
      if r.2.2 then
        (tab'.storeCore (expandNewStartSet g an r.2.1.core),
          { r.2.1 with core := expandNewStartSet g an r.2.1.core })
      else (tab', r.2.1) := rfl
  rw [hunf]
  dsimp only at hspec ⊢
  have key : ∀ {cs : CSet} {num : Nat},
      cs.dists = (newStarts g an ok pl a).1.map (·.2) →
      cs.core = expandNewStartSet g an (Core.fresh num ((newStarts g an ok pl a).1.map (·.1))) →
      SetOK g pl.length cs ∧ Expanded g an cs ∧
        ∀ it, it ∈ cs.items pl.length ↔ it ∈ nextSet g ok plA a := by
    intro cs num hd hc
    refine ⟨SetOK_of_expand hc (by rw [hd, List.length_map, List.length_map]) ?_,
      ⟨num, _, hc, by rw [hd, List.length_map, List.length_map], ?_⟩, ?_⟩
    · intro d hdm
      rw [hd] at hdm
      obtain ⟨p, hp, rfl⟩ := List.mem_map.mp hdm
      have := (hinv.all p hp).2.2.1
      rw [← h.len]; exact this
    · intro sit hs
      obtain ⟨p, hp, rfl⟩ := List.mem_map.mp hs
      exact (hinv.all p hp).1
    · rw [← h.len]; exact newSet_items hnl h hne hc hd
  by_cases hnew : (setInsert tab (newStarts g an ok pl a).1).2.2 = true
  · rw [if_pos hnew] at hspec ⊢
    obtain ⟨ht, hd, num, hc⟩ := hspec
    exact ⟨TabInv_congr ht rfl rfl, key hd hc⟩
  · rw [if_neg hnew] at hspec ⊢
    obtain ⟨ht, hd, num, hc⟩ := hspec
    exact ⟨TabInv_congr ht rfl rfl, key hd hc⟩

end NewSet

/-! ## the parse list -/

theorem parseLoopC_nil (g : Grammar) (an : Analysis) (la : Nat) (tab : Tab) (pl : List CSet)
    (k : Nat) : parseLoopC g an la [] tab pl k = (none, tab, pl) := rfl

theorem parseLoopC_cons (g : Grammar) (an : Analysis) (la : Nat) (a : Nat) (rest : List Nat)
    (tab : Tab) (pl : List CSet) (k : Nat) :
    parseLoopC g an la (a :: rest) tab pl k =
      if (pl.getLastD default).core.find (Sym.t a) then
        parseLoopC g an la rest
          (buildNewSet g an (okItem g an la rest.head?) tab pl (pl.getLastD default) (Sym.t a)).1
          (pl ++ [(buildNewSet g an (okItem g an la rest.head?) tab pl (pl.getLastD default)
            (Sym.t a)).2]) (k + 1)
      else (some k, tab, pl) := rfl

theorem buildPLC_eq (g : Grammar) (la : Nat) (w : List Nat) :
    buildPLC g la w = parseLoopC g g.analysis la (w ++ [g.eofT])
      (buildStartSet g g.analysis).1 [(buildStartSet g g.analysis).2] 0 := rfl

/-- `core_symb_vect_find (set->core, term) != NULL` iff the abstract set has a transition -/
theorem find_iff_hasTrans {g : Grammar} {plA : List (List Item)} {pl : List CSet}
    (h : PLOK g plA pl) (hne : pl ≠ []) (a : Nat) :
    (pl.getLastD default).core.find (Sym.t a) = hasTrans g (plA.getLastD []) a := by
  have hpos : 0 < pl.length := List.length_pos_iff.mpr hne
  have hlen := h.len
  have hk : pl.length - 1 < pl.length := by omega
  rw [getLastD_eq_getD pl (pl.length - 1) _ (by omega),
    getLastD_eq_getD plA (pl.length - 1) _ (by omega)]
  have hok := h.ok _ hk
  have hitems := h.items _ hk
  generalize pl.getD (pl.length - 1) default = set at hok hitems
  apply Bool.eq_iff_iff.mpr
  rw [hasTrans_iff]
  unfold Core.find
  simp only [Bool.or_false]
  rw [hok.trans]
  unfold vecOf
  constructor
  · intro hf
    split at hf
    · cases hf
    · rename_i hne'
      obtain ⟨i, hi⟩ := List.exists_mem_of_ne_nil _ hne'
      obtain ⟨hlt, hnx⟩ := mem_filt.mp hi
      have hget : set.core.sits[i]? = some (set.core.sits.getD i default) := by
        rw [List.getD_eq_getElem?_getD, List.getElem?_eq_getElem hlt]; rfl
      refine ⟨_, (hitems _).mp (mem_items.mpr ⟨i, _, hget, rfl⟩), ?_⟩
      rw [← nextOf_of_get hget]; exact hnx
  · rintro ⟨p, hp, hnx⟩
    obtain ⟨i, sit, hs, rfl⟩ := mem_items.mp ((hitems p).mpr hp)
    have : i ∈ filt g set.core.sits set.core.sits.length (Sym.t a) :=
      mem_filt.mpr ⟨(List.getElem?_eq_some_iff.mp hs).1, by rw [nextOf_of_get hs]; exact hnx⟩
    split
    · rename_i he; rw [he] at this; cases this
    · rfl

theorem PLOK_snoc {g : Grammar} {plA : List (List Item)} {pl : List CSet} {sA : List Item}
    {s : CSet} (h : PLOK g plA pl) (hs : SetOK g pl.length s)
    (hi : ∀ it, it ∈ s.items pl.length ↔ it ∈ sA) : PLOK g (plA ++ [sA]) (pl ++ [s]) := by
  have hlen := h.len
  refine ⟨by simp [hlen], ?_, ?_⟩
  · intro k hk
    rw [List.length_append, List.length_singleton] at hk
    rw [List.getD_eq_getElem?_getD]
    rcases Nat.lt_or_ge k pl.length with hlt | hge
    · rw [List.getElem?_append_left hlt, ← List.getD_eq_getElem?_getD]
      exact h.ok k hlt
    · have : k = pl.length := by omega
      subst this
      rw [List.getElem?_append_right (Nat.le_refl _)]
      simpa using hs
  · intro k hk it
    rw [List.length_append, List.length_singleton] at hk
    rw [List.getD_eq_getElem?_getD, List.getD_eq_getElem?_getD]
    rcases Nat.lt_or_ge k pl.length with hlt | hge
    · rw [List.getElem?_append_left hlt, List.getElem?_append_left (by omega),
        ← List.getD_eq_getElem?_getD, ← List.getD_eq_getElem?_getD]
      exact h.items k hlt it
    · have : k = pl.length := by omega
      subst this
      rw [List.getElem?_append_right (Nat.le_refl _),
        List.getElem?_append_right (by omega)]
      simpa [hlen] using hi it

/-- the main loop: same error index, and the two parse lists stay related -/
theorem parseLoopC_spec (g : Grammar) (an : Analysis) (la : Nat) (hnl : an.nl = g.nullable) :
    ∀ (toks : List Nat) (tab : Tab) (pl : List CSet) (plA : List (List Item)) (k : Nat),
      TabInv g an tab → PLOK g plA pl → pl ≠ [] → (∀ cs ∈ pl, Expanded g an cs) →
      (parseLoopC g an la toks tab pl k).1 = (parseLoop g an la toks plA k).1 ∧
      TabInv g an (parseLoopC g an la toks tab pl k).2.1 ∧
      PLOK g (parseLoop g an la toks plA k).2 (parseLoopC g an la toks tab pl k).2.2 ∧
      ∀ cs ∈ (parseLoopC g an la toks tab pl k).2.2, Expanded g an cs := by
  intro toks
  induction toks with
  | nil => intro tab pl plA k ht h _ he; exact ⟨rfl, ht, h, he⟩
  | cons a rest ih =>
    intro tab pl plA k ht h hne he
    rw [parseLoopC_cons]
    unfold parseLoop
    rw [find_iff_hasTrans h hne a]
    by_cases hT : hasTrans g (plA.getLastD []) a = true
    · rw [if_pos hT, if_pos hT]
      obtain ⟨h1, h2, h3, h4⟩ := buildNewSet_main (ok := okItem g an la rest.head?) (a := a) hnl ht h hne
      apply ih _ _ _ _ h1 (PLOK_snoc h h2 h4) (by simp)
      intro cs hcs
      rcases List.mem_append.mp hcs with hcs | hcs
      · exact he cs hcs
      · rw [List.mem_singleton.mp hcs]; exact h3
    · rw [if_neg hT, if_neg hT]
      exact ⟨rfl, ht, h, he⟩

theorem buildPLC_spec (g : Grammar) (la : Nat) (w : List Nat) :
    (buildPLC g la w).1 = (buildPL g la w).1 ∧ TabInv g g.analysis (buildPLC g la w).2.1 ∧
      PLOK g (buildPL g la w).2 (buildPLC g la w).2.2 ∧
      ∀ cs ∈ (buildPLC g la w).2.2, Expanded g g.analysis cs := by
  rw [buildPLC_eq]
  unfold buildPL
  obtain ⟨h1, h2, h3, h4⟩ := buildStartSet_main g g.analysis rfl
  apply parseLoopC_spec g g.analysis la rfl _ _ _ _ 0 h1
  · refine ⟨rfl, ?_, ?_⟩
    · intro k hk
      have : k = 0 := by simpa using hk
      subst this; simpa using h2
    · intro k hk it
      have : k = 0 := by simpa using hk
      subst this; simpa using h4 it
  · simp
  · intro cs hcs
    rw [List.mem_singleton.mp hcs]; exact h3

end Yaep.BS
