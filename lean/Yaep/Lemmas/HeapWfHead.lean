import Yaep.Lemmas.HeapWfCand
/-!
# The heaps of the model of `make_parse` are well formed, part 7: copies of the original state
(`candHead`, `copy_anode`)

`clone_sinv`: the invariant of the copy of the state `X` for another origin `k`;
`hcopy_owner`: `X` has an abstract node: the cell is copied (the slot of the current position
emptied), the copy is placed where `X` delivers its translation, the copy state is pushed;
`hcopy_pass`: `X` has no abstract node: only the copy state is pushed.
-/
namespace Yaep.MP
open Yaep

section
variable {g : Grammar} {n : Nat} {h : Array MNode} {sts : Array PState} {stack : List Nat}
  {table : Array (List (Nat × Nat × Nat))} {Γ : Gh}

/-- the invariant of a copy of the state `X` with the list index `k` and the abstract node `an` -/
theorem clone_sinv (hi : HInv g n h sts stack table Γ) (hslt : ∀ x ∈ stack, x < sts.size)
    {X k hiX : Nat} (hX : X ∈ stack) (hshi : Γ.shi X = hiX) (hk : k ≤ hiX)
    {t' : PState} {an : Option Nat}
    (f1 : t'.rule = (sts.getD X default).rule) (f2 : t'.pos = (sts.getD X default).pos)
    (f3 : t'.orig = (sts.getD X default).orig) (f4 : t'.plInd = k)
    (f5 : t'.parent = (sts.getD X default).parent)
    (f6 : t'.parentDisp = (sts.getD X default).parentDisp) (f7 : t'.anode = an)
    (hsuf : (sts.getD X default).pos ≠ 0 → k = hiX → ∀ rl,
      g.rules[(sts.getD X default).rule]? = some rl → ∀ j s, (sts.getD X default).pos ≤ j →
      rl.rhs[j]? = some s → Der g [s] [])
    (hnone : an = none → (sts.getD X default).anode = none)
    (hsome : ∀ nd, an = some nd → nd < h.size ∧
      ∃ a, (sts.getD X default).anode = some a ∧ Γ.rho nd = Γ.rho a) :
    SInv g n (Γ.setHi sts.size hiX) h.size (sts.push t') (sts.size :: stack) sts.size := by
  have hsX := hi.sts X hX
  have hXlt := hslt X hX
  have hsame : (sts.push t').getD sts.size default = t' := getD_push_eq _ _ _
  have hshiN : (Γ.setHi sts.size hiX).shi sts.size = hiX := upd_same _ _ _
  have hplt : t'.parent < sts.size := by rw [f5]; have := hsX.parLt; omega
  have hpc : pcell (sts.push t') t' = pcell sts (sts.getD X default) := by
    unfold pcell
    rw [getD_push_lt' hplt, f5]
  refine ⟨by simp, by rw [hsame]; exact hplt, ?_, by rw [hsame, hshiN, f4]; exact hk,
    by rw [hshiN, ← hshi]; exact hsX.hiLe, ?_, ?_, ?_, ?_, by rw [hsame, hpc]; exact hsX.pcLt⟩
  · rw [hsame, f5, f6]
    rcases hsX.tgt with h1 | ⟨h1, rlP, h2, h3⟩
    · exact Or.inl h1
    · have hpl : (sts.getD X default).parent < sts.size := by have := hsX.parLt; omega
      exact Or.inr ⟨List.mem_cons_of_mem _ h1, rlP, by rw [getD_push_lt' hpl]; exact h2,
        by rw [getD_push_lt' hpl]; exact h3⟩
  · rw [hsame, hshiN, f1, f2, f4]
    exact hsuf
  · rw [hsame, hshiN, f1, f3]
    intro rl hrl A lo hi2 hb hle
    show _ < Γ.rho _
    have hold := hsX.tr rl hrl A lo hi2 (by rw [hshi]; exact hb) hle
    unfold tcell at hold ⊢
    rw [f7]
    cases han : an with
    | none =>
      simp only
      rw [hnone han] at hold
      simp only at hold
      rw [hpc]; exact hold
    | some nd =>
      simp only
      obtain ⟨_, a, ha, hr⟩ := hsome nd han
      rw [ha] at hold
      simp only at hold
      rw [hr]; exact hold
  · rw [hsame, hpc, f7]
    intro nd hnd
    show Γ.rho nd < Γ.rho _
    obtain ⟨_, a, ha, hr⟩ := hsome nd hnd
    rw [hr]; exact hsX.pr a ha
  · rw [hsame, f7]
    intro nd hnd
    exact (hsome nd hnd).1

end

/-- the copy state -/
def cloneSt (t : PState) (k : Nat) (an : Option Nat) : PState := { t with plInd := k, anode := an }

/-- **`X` has no abstract node**: the copy state is pushed -/
theorem hcopy_pass {g : Grammar} {n : Nat} {s : St} {Γ : Gh} (hi : HSt g n s Γ)
    (hslt : ∀ x ∈ s.stack, x < s.states.size) {X k hiX : Nat} (hX : X ∈ s.stack)
    (hshi : Γ.shi X = hiX) (hk : k ≤ hiX) (han : (s.states.getD X default).anode = none)
    (hsuf : (s.states.getD X default).pos ≠ 0 → k = hiX → ∀ rl,
      g.rules[(s.states.getD X default).rule]? = some rl → ∀ j sy, (s.states.getD X default).pos ≤ j →
      rl.rhs[j]? = some sy → Der g [sy] []) :
    HInv g n s.heap (s.states.push (cloneSt (s.states.getD X default) k none))
      (s.states.size :: s.stack) s.table (Γ.setHi s.states.size hiX) := by
  have hchild := clone_sinv (t' := cloneSt (s.states.getD X default) k none) (an := none)
    hi hslt hX hshi hk rfl rfl rfl rfl rfl rfl rfl hsuf (fun _ => han) (fun nd hnd => by cases hnd)
  exact HInv.pushState hi _ hiX hslt hchild (fun a rl d ha _ _ => by cases ha)

/-- **`X` has an abstract node**: `copy_anode` and the copy state -/
theorem hcopy_owner {g : Grammar} {ok : Nat → Nat → Nat → Bool} {toks : List Nat}
    {s : St} {G : Ghost} {Γ : Gh}
    (hgood : AGood g ok toks s G none) (hi : HSt g toks.length s Γ) {X k hiX a pa d : Nat} {rlX : Rule}
    (hX : X ∈ s.stack) (hshi : Γ.shi X = hiX) (hk : k ≤ hiX)
    (han : (s.states.getD X default).anode = some a)
    (hpa : (s.states.getD (s.states.getD X default).parent default).anode = some pa)
    (hr : g.rules[(s.states.getD X default).rule]? = some rlX)
    (hd : rlX.order.getD (s.states.getD X default).pos none = some d)
    (hsuf : (s.states.getD X default).pos ≠ 0 → k = hiX → ∀ rl,
      g.rules[(s.states.getD X default).rule]? = some rl → ∀ j sy, (s.states.getD X default).pos ≤ j →
      rl.rhs[j]? = some sy → Der g [sy] []) :
    ∃ Γ1, HInv g toks.length
        (placeTranslation (s.heap.push (copyCell s.heap a d))
          (pa, (s.states.getD X default).parentDisp) s.heap.size)
        (s.states.push (cloneSt (s.states.getD X default) k (some s.heap.size)))
        (s.states.size :: s.stack) s.table Γ1 ∧
      GhExt Γ Γ1 s.heap.size s.states.size ∧ Γ1.shi s.states.size = hiX ∧
      s.heap.size ≤ (placeTranslation (s.heap.push (copyCell s.heap a d))
          (pa, (s.states.getD X default).parentDisp) s.heap.size).size := by
  have hslt := hgood.stack_lt
  have hsX := hi.sts X hX
  obtain ⟨rl0, hX0⟩ := hgood.states X hX
  have hroot : rootId < a := by
    have := hX0.cell; rw [han] at this; exact this.2.1
  obtain ⟨rl', nm, ks, h1, hcell, _⟩ := hgood.stateCell hX han
  have hx : copyCell s.heap a d = .anode nm rl'.cost (ks.set! d none) := by
    unfold copyCell; rw [hcell]
  rw [hx]
  generalize hxx : MNode.anode nm rl'.cost (ks.set! d none) = x
  have halt : a < s.heap.size := hsX.anLt a han
  -- the slots of the copy
  have hkids : ∀ d' k', getKid (s.heap.push x) s.heap.size d' = some k' →
      d' ≠ d ∧ getKid s.heap a d' = some k' := by
    intro d' k' hk'
    rw [getKid_of_cell (by rw [getD_push_eq, ← hxx]), getD_set!] at hk'
    split at hk'
    · cases hk'
    · rename_i hne
      have hlt := lt_size_of_getD_some hk'
      refine ⟨fun e => hne ⟨e.symm, e ▸ hlt⟩, ?_⟩
      rw [getKid_of_cell hcell]; exact hk'
  have hnoOpen : ∀ d', Open g s.states s.stack a d' → d' = d := by
    intro d' ho
    rcases ho with ⟨e, _⟩ | ⟨sid, hm, q1, rl, q2, q3⟩
    · rw [e] at hroot; exact absurd hroot (Nat.lt_irrefl _)
    · have := hgood.noShare sid hm X hX a q1 han
      subst this
      rw [hr] at q2; injection q2 with q2; subst q2
      rw [hd] at q3; injection q3 with q3; exact q3.symm
  have hiA := HInv.pushCell hi x (Γ.rho a) (by rw [← hxx]; exact push_copy_hw hi.hw hcell d)
    (fun d' k' hk' => ⟨a, (hkids d' k' hk').2, fun ho => (hkids d' k' hk').1 (hnoOpen d' ho)⟩)
  have hrhoN : (Γ.newCell s.heap.size (Γ.rho a)).rho s.heap.size = Γ.rho a := upd_same _ _ _
  have hrhoO : ∀ i, i < s.heap.size → (Γ.newCell s.heap.size (Γ.rho a)).rho i = Γ.rho i :=
    fun i hi' => (Γ.newCell_old _ hi').1
  have hchild := clone_sinv (t' := cloneSt (s.states.getD X default) k (some s.heap.size))
    (an := some s.heap.size) hiA hslt hX hshi hk rfl rfl rfl rfl rfl rfl rfl hsuf
    (fun e => by cases e)
    (fun nd hnd => by
      injection hnd with hnd; subst hnd
      exact ⟨by simp, a, han, by rw [hrhoN, hrhoO a halt]⟩)
  have hiB := HInv.pushState hiA _ hiX hslt hchild (by
    intro a' rl d' ha' hr' hd'
    have ha'' : some s.heap.size = some a' := ha'
    injection ha'' with ha''; subst ha''
    have hr'' : g.rules[(s.states.getD X default).rule]? = some rl := hr'
    rw [hr] at hr''; injection hr'' with hr''; subst hr''
    have hd'' : rlX.order.getD (s.states.getD X default).pos none = some d' := hd'
    rw [hd] at hd''; injection hd'' with hd''; subst hd''
    apply ExclSlot.of_none
    cases hg : getKid (s.heap.push x) s.heap.size d with
    | none => rfl
    | some k' => exact absurd rfl (hkids d k' hg).1)
  have hcellx : (s.heap.push x).getD s.heap.size .nil = x := getD_push_eq _ _ _
  have hnax : isAlt (s.heap.push x) s.heap.size = false := by unfold isAlt; rw [hcellx, ← hxx]
  have hXlt := hslt X hX
  have hXmem' : X ∈ s.states.size :: s.stack := List.mem_cons_of_mem _ hX
  have hXget : (s.states.push (cloneSt (s.states.getD X default) k (some s.heap.size))).getD X default =
      s.states.getD X default := getD_push_lt' hXlt
  have hPlt : (s.states.getD X default).parent < s.states.size := by have := hsX.parLt; omega
  have hopen : Open g (s.states.push (cloneSt (s.states.getD X default) k (some s.heap.size)))
      (s.states.size :: s.stack) pa (s.states.getD X default).parentDisp := by
    have := HInv.tgt_open hiB (sid := X) (pa := pa) hXmem' (by rw [hXget, getD_push_lt' hPlt]; exact hpa)
    rw [hXget] at this; exact this
  have hpalt : pa < s.heap.size := by
    have := hsX.pcLt; unfold pcell at this; rw [hpa] at this; exact this
  have hpr : Γ.rho a < Γ.rho pa := by
    have := hsX.pr a han; unfold pcell at this; rw [hpa] at this; exact this
  obtain ⟨Γ1, hiC, hext, hsz, _⟩ := HInv.place hiB (a := pa) (d := (s.states.getD X default).parentDisp)
    (node := s.heap.size) (by simp) hnax (by
      intro nm' c' ks' _
      refine ⟨?_, hopen⟩
      show (Γ.newCell _ _).rho _ < (Γ.newCell _ _).rho _
      rw [hrhoN, hrhoO pa hpalt]; exact hpr)
  refine ⟨Γ1, hiC, ⟨fun i hi' => ?_, fun y hy => ?_⟩, ?_, ?_⟩
  · rw [hext.1 i (by simp; omega)]; exact hrhoO i hi'
  · rw [hext.2 y (by simp; omega)]; exact upd_ne _ _ (by omega)
  · rw [hext.2 _ (by simp)]; exact upd_same _ _ _
  · simp only [Array.size_push] at hsz; omega

end Yaep.MP
