import Yaep.Lemmas.CompleteTail
/-!
# Completeness of the all-parses forest, part 8: every split of the symbols before the dot is a
candidate of the loop

For a state with a right context, every derivation of the nonterminal before the dot together with
derivations of the symbols before it gives an entry of the reduce vector that passes the check loop
(completeness of the Earley sets along derivations, `EarleyF.advance_valid`).
-/
namespace Yaep.CP
open Yaep Yaep.MP

section
variable {g : Grammar} {ok : Nat → Nat → Nat → Bool} {toks : List Nat} {c : Ctx}

theorem drop_pred_cons {rl : Rule} {p : Nat} {Y : Sym} (hp : p ≠ 0) (hY : rl.rhs[p - 1]? = some Y) :
    rl.rhs.drop (p - 1) = Y :: rl.rhs.drop p := by
  have hlt : p - 1 < rl.rhs.length := (List.getElem?_eq_some_iff.mp hY).1
  have hx : rl.rhs[p - 1] = Y := (List.getElem?_eq_some_iff.mp hY).2
  rw [List.drop_eq_getElem_cons hlt, hx]
  congr 2; omega

/-- the right context of a state that has moved its dot over the nonterminal `A` back to `k` -/
theorem der_back {rl : Rule} {p A k m : Nat} {γ : List Sym} {kid : PT} (hp : p ≠ 0)
    (hsym : rl.rhs[p - 1]? = some (.n A)) (hkid : PT.ValidAt g toks kid (.n A) k m)
    (hder : Der g (rl.rhs.drop p ++ γ) (toks.drop m)) :
    Der g (rl.rhs.drop (p - 1) ++ γ) (toks.drop k) := by
  rw [drop_pred_cons hp hsym]
  have hv : PT.ValidListAt g toks [kid] [.n A] k m := .cons hkid .nil
  exact hv.der_drop hder

/-- **every split is a candidate** -/
theorem cand_complete (hcc : CtxAllc g ok toks c) (hsr : g.symsInRange = true) (hokd : OkDer g ok toks)
    {s : St} {X A : Nat} {rl : Rule} (hr : g.rules[(s.state X).rule]? = some rl)
    (hpos : (s.state X).pos ≠ 0) (hsym : rl.rhs[(s.state X).pos - 1]? = some (.n A))
    (hitem : EarleyF g ok toks (s.state X).plInd ⟨(s.state X).rule, (s.state X).pos, (s.state X).orig⟩)
    {γ : List Sym} (hcov : FollowCovers g rl.lhs γ)
    (hder : Der g (rl.rhs.drop (s.state X).pos ++ γ) (toks.drop (s.state X).plInd))
    {pre gks : List PT} {r' m' : Nat} {rl' : Rule}
    (hpre : PT.ValidListAt g toks pre (rl.rhs.take ((s.state X).pos - 1)) (s.state X).orig m')
    (hr' : g.rules[r']? = some rl') (hlhs : rl'.lhs = A)
    (hgks : PT.ValidListAt g toks gks rl'.rhs m' (s.state X).plInd) :
    ∃ i ∈ reduces c (c.sets.getD (s.state X).plInd #[]) A,
      (c.sets.getD (s.state X).plInd #[]).getD i default = ⟨r', rl'.rhs.length, m'⟩ ∧
      checkFound c (ntLoc c s X A) m' = true := by
  have hkid : PT.ValidAt g toks (.node r' gks) (.n A) m' (s.state X).plInd := .node hr' hlhs hgks
  have hback := der_back hpos hsym hkid hder
  have hE0 := hitem.origin_item
  simp only at hE0
  have hE1 := EarleyF.advance_valid hsr hokd hE0 hr
    (by rw [List.drop_zero]; exact (List.take_append_drop ((s.state X).pos - 1) rl.rhs).symm)
    hpre hback hcov
  have hlen : (rl.rhs.take ((s.state X).pos - 1)).length = (s.state X).pos - 1 := by
    rw [List.length_take]
    have := (List.getElem?_eq_some_iff.mp hsym).1
    omega
  rw [hlen, Nat.zero_add] at hE1
  have hns : g.nextSym (s.state X).rule ((s.state X).pos - 1) = some (.n rl'.lhs) := by
    rw [hlhs]; exact nextSym_eq_some.mpr ⟨rl, hr, hsym⟩
  have hp := EarleyF.predict hE1 hns hr' rfl
  have hcov2 := FollowCovers.predict hsr hr hsym hcov
  have hpp : (s.state X).pos - 1 + 1 = (s.state X).pos := by omega
  rw [hpp] at hcov2
  have hE2 := EarleyF.advance_valid hsr hokd hp hr' (rest := []) (by rw [List.drop_zero, List.append_nil])
    hgks (by rw [List.nil_append]; exact hder) (by rw [hlhs]; exact hcov2)
  rw [Nat.zero_add] at hE2
  obtain ⟨i, hi1, hi2⟩ := hcc.complete _ _ hE2
  obtain ⟨ci, hc1, hc2⟩ := hcc.complete _ _ hE1
  have hrule := hcc.toCtxAll.rule_eq hr
  have hrule' := hcc.toCtxAll.rule_eq hr'
  refine ⟨i, ?_, hi2, ?_⟩
  · unfold reduces
    rw [List.mem_filter, List.mem_range]
    refine ⟨hi1, ?_⟩
    rw [hi2]
    simp [hrule', hlhs]
  · unfold checkFound
    simp only [List.any_eq_true, Bool.and_eq_true, beq_iff_eq]
    refine ⟨ci, ?_, ?_⟩
    · unfold transitions
      rw [List.mem_filter, List.mem_range]
      refine ⟨hc1, ?_⟩
      rw [hc2]
      simp only [Ctx.after, ntLoc, hrule, hsym, beq_self_eq_true]
    · rw [hc2]; simp [ntLoc]

/-- the symbols before the dot split into the symbols before the nonterminal and the nonterminal -/
theorem split_kids {rl : Rule} {p A orig m : Nat} {kids : List PT} (hp : p ≠ 0)
    (hsym : rl.rhs[p - 1]? = some (.n A))
    (hk : PT.ValidListAt g toks kids (rl.rhs.take p) orig m) :
    ∃ pre r' rl' gks m', kids = pre ++ [.node r' gks] ∧ pre.length = p - 1 ∧
      PT.ValidListAt g toks pre (rl.rhs.take (p - 1)) orig m' ∧
      g.rules[r']? = some rl' ∧ rl'.lhs = A ∧ PT.ValidListAt g toks gks rl'.rhs m' m := by
  rw [take_pred_snoc hp hsym] at hk
  obtain ⟨pre, x, m', rfl, h1, h2⟩ := ValidListAt.snoc_inv hk
  have hlen : (rl.rhs.take (p - 1)).length = p - 1 := by
    rw [List.length_take]
    have := (List.getElem?_eq_some_iff.mp hsym).1
    omega
  cases h2 with
  | node hr' hl hg => exact ⟨pre, _, _, _, m', rfl, by rw [h1.length_eq, hlen], h1, hr', hl, hg⟩

end

end Yaep.CP
