import Yaep.Model.GotoCache
import Yaep.Lemmas.Earley
/-!
# The goto cache: a reused set is the set a fresh computation produces

The computation of a set is transported to the relative (stored) representation
(`relCloseStep`, `closeStep_rel`); there it depends on the rest of the list only through the
stored sets at the distances of its own items (`relSaturate_congr`), which is what
`check_cached_transition_set` compares.
-/
namespace Yaep
namespace Cache

/-! ## `addNew` / `saturate` under an injective map, under a change of the step function, and
with more fuel -/

section Generic
variable {α β : Type} [DecidableEq α] [DecidableEq β]

theorem addNew_map (φ : α → β) (P : α → Prop) (hinj : ∀ x y, P x → P y → φ x = φ y → x = y)
    (xs : List α) : ∀ (s : List α), (∀ x ∈ s, P x) → (∀ x ∈ xs, P x) →
      (addNew s xs).map φ = addNew (s.map φ) (xs.map φ) := by
  induction xs with
  | nil => intro s _ _; rfl
  | cons x xs ih =>
    intro s hs hxs
    have hx := hxs x List.mem_cons_self
    have hxs' : ∀ y ∈ xs, P y := fun y hy => hxs y (List.mem_cons_of_mem _ hy)
    have hmem : φ x ∈ s.map φ ↔ x ∈ s := by
      constructor
      · intro h
        obtain ⟨y, hy, hxy⟩ := List.mem_map.mp h
        rw [← hinj y x (hs y hy) hx hxy]; exact hy
      · exact fun h => List.mem_map.mpr ⟨x, h, rfl⟩
    rw [List.map_cons, addNew, addNew]
    by_cases hin : x ∈ s
    · rw [if_pos hin, if_pos (hmem.mpr hin)]
      exact ih s hs hxs'
    · rw [if_neg hin, if_neg (fun h => hin (hmem.mp h))]
      have := ih (s ++ [x]) (by
        intro y hy
        rcases List.mem_append.mp hy with h | h
        · exact hs y h
        · rw [List.mem_singleton] at h; rw [h]; exact hx) hxs'
      rw [this]
      simp

theorem saturate_map (φ : α → β) (P : α → Prop)
    (hinj : ∀ x y, P x → P y → φ x = φ y → x = y) (f : List α → List α) (f' : List β → List β)
    (hP : ∀ s, (∀ x ∈ s, P x) → ∀ x ∈ f s, P x)
    (hcomm : ∀ s, (∀ x ∈ s, P x) → (f s).map φ = f' (s.map φ)) :
    ∀ (n : Nat) (s : List α), (∀ x ∈ s, P x) →
      (saturate f n s).map φ = saturate f' n (s.map φ) := by
  intro n
  induction n with
  | zero => intro s _; rfl
  | succ n ih =>
    intro s hs
    have h1 : (addNew s (f s)).map φ = addNew (s.map φ) (f' (s.map φ)) := by
      rw [addNew_map φ P hinj (f s) s hs (hP s hs), hcomm s hs]
    have hlen : (addNew (s.map φ) (f' (s.map φ))).length = (addNew s (f s)).length := by
      rw [← h1, List.length_map]
    unfold saturate
    simp only [hlen, List.length_map]
    split
    · rfl
    · rw [← h1]
      apply ih
      intro x hx
      rcases mem_addNew hx with h | h
      · exact hs x h
      · exact hP s hs x h

/-- two step functions that agree on everything inside the result give the same result -/
theorem saturate_congr_on (f f' : List α → List α) :
    ∀ (n : Nat) (s R : List α), saturate f n s ⊆ R → (∀ t, t ⊆ R → f t = f' t) →
      saturate f n s = saturate f' n s := by
  intro n
  induction n with
  | zero => intro s R _ _; rfl
  | succ n ih =>
    intro s R hR hff
    have hs : s ⊆ R := fun x hx => hR (subset_saturate f (n + 1) s hx)
    have hfs : f s = f' s := hff s hs
    unfold saturate at hR ⊢
    simp only [← hfs] at hR ⊢
    split
    · rfl
    · rename_i hne
      rw [if_neg hne] at hR
      exact ih _ R hR hff

theorem addNew_eq_self {s xs : List α} (h : xs ⊆ s) : addNew s xs = s := by
  induction xs with
  | nil => rfl
  | cons x xs ih =>
    rw [addNew, if_pos (h List.mem_cons_self)]
    exact ih (fun y hy => h (List.mem_cons_of_mem _ hy))

/-- once the result is closed, more fuel changes nothing -/
theorem saturate_more_fuel (f : List α → List α) :
    ∀ (n : Nat) (s : List α), f (saturate f n s) ⊆ saturate f n s →
      ∀ m, n ≤ m → saturate f m s = saturate f n s := by
  intro n
  induction n with
  | zero =>
    intro s hcl m _
    have hcl' : f s ⊆ s := hcl
    cases m with
    | zero => rfl
    | succ m =>
      unfold saturate
      simp only [addNew_eq_self hcl', if_true]
  | succ n ih =>
    intro s hcl m hm
    obtain ⟨m', rfl⟩ : ∃ m', m = m' + 1 := ⟨m - 1, by omega⟩
    unfold saturate at hcl ⊢
    simp only at hcl ⊢
    split
    · rfl
    · rename_i hne
      rw [if_neg hne] at hcl
      exact ih _ hcl m' (by omega)

end Generic

/-! ## the relative form of one closure step -/

def rel (L : Nat) (it : Item) : RelItem := (it.rule, it.dot, L - it.origin)

theorem toRel_eq_map (L : Nat) (s : List Item) : toRel L s = s.map (rel L) := rfl

/-- all origins are at most `L` -/
def Upto (L : Nat) (s : List Item) : Prop := ∀ it ∈ s, it.origin ≤ L

/-- every set of the list refers to itself and earlier sets only -/
def WfPL (pl : List (List Item)) : Prop := ∀ k, Upto k (pl.getD k [])

theorem rel_inj {L : Nat} {x y : Item} (hx : x.origin ≤ L) (hy : y.origin ≤ L)
    (h : rel L x = rel L y) : x = y := by
  obtain ⟨r, d, o⟩ := x
  obtain ⟨r', d', o'⟩ := y
  simp only [rel, Prod.mk.injEq] at h
  simp only at hx hy
  obtain ⟨h1, h2, h3⟩ := h
  subst h1 h2
  have : o = o' := by omega
  subst this
  rfl

theorem filterMap_congr' {α β : Type} {l : List α} {f g : α → Option β}
    (h : ∀ x ∈ l, f x = g x) : l.filterMap f = l.filterMap g := by
  induction l with
  | nil => rfl
  | cons x xs ih =>
    rw [List.filterMap_cons, List.filterMap_cons, h x List.mem_cons_self,
      ih (fun y hy => h y (List.mem_cons_of_mem _ hy))]

theorem flatMap_congr' {α β : Type} {l : List α} {f g : α → List β}
    (h : ∀ x ∈ l, f x = g x) : l.flatMap f = l.flatMap g := by
  induction l with
  | nil => rfl
  | cons x xs ih =>
    rw [List.flatMap_cons, List.flatMap_cons, h x List.mem_cons_self,
      ih (fun y hy => h y (List.mem_cons_of_mem _ hy))]

def relAdvance (g : Grammar) (X : Sym) (keep : Nat → Nat → Bool) (src : RelSet) (shift : Nat) :
    RelSet :=
  src.filterMap fun p =>
    if g.nextSym p.1 p.2.1 = some X ∧ keep p.1 (p.2.1 + 1) = true
    then some (p.1, p.2.1 + 1, p.2.2 + shift) else none

/-- advancing items of the set at index `k`, seen from index `L` -/
theorem advance_rel (g : Grammar) (X : Sym) (keep : Nat → Nat → Bool) {src : List Item}
    {k L : Nat} (hsrc : Upto k src) (hk : k ≤ L) :
    toRel L (advanceOver g X keep src) = relAdvance g X keep (toRel k src) (L - k) := by
  unfold toRel advanceOver relAdvance
  rw [List.map_filterMap, List.filterMap_map]
  apply filterMap_congr'
  intro p hp
  have ho := hsrc p hp
  simp only [Function.comp]
  split
  · simp only [Option.map_some, Option.some.injEq, Prod.mk.injEq, true_and]
    omega
  · rfl

def relPredict (g : Grammar) (B : Nat) : RelSet := (g.rulesFor B).map fun r => (r, 0, 0)

theorem predict_rel (g : Grammar) (B L : Nat) : toRel L (g.predictItems B L) = relPredict g B := by
  unfold toRel Grammar.predictItems relPredict
  rw [List.map_map]
  apply List.map_congr_left
  intro r _
  simp

/-- `closeStep` on stored sets; `look dist` is the stored set `dist` positions back -/
def relCloseStep (g : Grammar) (ok : Nat → Nat → Bool) (look : Nat → RelSet) (cur : RelSet) :
    RelSet :=
  cur.flatMap fun p =>
    match g.rules[p.1]? with
    | none => []
    | some rl =>
      match rl.rhs[p.2.1]? with
      | some (.n B) => relPredict g B
      | some (.t _) => []
      | none =>
        if p.2.2 = 0 then relAdvance g (.n rl.lhs) (fun _ _ => true) cur 0
        else relAdvance g (.n rl.lhs) ok (look p.2.2) p.2.2

/-- the stored set `dist` positions before index `L` -/
def lookOf (pl : List (List Item)) (L : Nat) (dist : Nat) : RelSet := storedAt pl (L - dist)

theorem closeStep_rel (g : Grammar) (ok : Nat → Nat → Bool) {pl : List (List Item)} (hpl : WfPL pl)
    {L : Nat} {cur : List Item} (hcur : Upto L cur) :
    toRel L (closeStep g ok pl L cur) = relCloseStep g ok (lookOf pl L) (toRel L cur) := by
  unfold closeStep relCloseStep
  rw [toRel_eq_map, List.map_flatMap, toRel_eq_map, List.flatMap_map]
  apply flatMap_congr'
  intro it hit
  have ho := hcur it hit
  show List.map (rel L) _ = _
  have hrule : (rel L it).1 = it.rule := rfl
  have hdot : (rel L it).2.1 = it.dot := rfl
  rw [hrule, hdot]
  cases hr : g.rules[it.rule]? with
  | none => rfl
  | some rl =>
    simp only []
    cases hs : rl.rhs[it.dot]? with
    | some X =>
      cases X with
      | t a => rfl
      | n B => exact predict_rel g B L
    | none =>
      simp only []
      by_cases hoL : it.origin = L
      · have h0 : (rel L it).2.2 = 0 := by show L - it.origin = 0; omega
        rw [if_pos hoL, if_pos h0]
        have := advance_rel g (.n rl.lhs) (fun _ _ => true) hcur (Nat.le_refl L)
        rw [Nat.sub_self] at this
        exact this
      · have h0 : ¬ (rel L it).2.2 = 0 := by show ¬ L - it.origin = 0; omega
        rw [if_neg hoL, if_neg h0]
        have := advance_rel g (.n rl.lhs) ok (hpl it.origin) ho
        show toRel L _ = relAdvance g _ ok (lookOf pl L (L - it.origin)) (L - it.origin)
        rw [this]
        unfold lookOf storedAt
        have : L - (L - it.origin) = it.origin := by omega
        rw [this]

theorem closeStep_upto (g : Grammar) (ok : Nat → Nat → Bool) {pl : List (List Item)}
    (hpl : WfPL pl) {L : Nat} {cur : List Item} (hcur : Upto L cur) :
    Upto L (closeStep g ok pl L cur) := by
  intro x hx
  obtain ⟨it, hit, rl, hrl, h⟩ := mem_closeStep.mp hx
  rcases h with ⟨B, hB, h⟩ | ⟨hn, ho, h⟩ | ⟨hn, ho, h⟩
  · obtain ⟨r, rl1, h1, h2, rfl⟩ := mem_predictItems.mp h
    exact Nat.le_refl _
  · obtain ⟨p, hp, _, _, rfl⟩ := mem_advanceOver.mp h
    exact hcur p hp
  · obtain ⟨p, hp, _, _, rfl⟩ := mem_advanceOver.mp h
    exact Nat.le_trans (hpl _ p hp) (hcur it hit)

/-! ## the relative form of `nextSet` -/

def relNext (g : Grammar) (ok : Nat → Nat → Bool) (look : Nat → RelSet) (cur : RelSet) (a n : Nat) :
    RelSet :=
  saturate (relCloseStep g ok look) n (addNew [] (relAdvance g (.t a) ok cur 1))

theorem upto_mono {k L : Nat} {s : List Item} (h : Upto k s) (hk : k ≤ L) : Upto L s :=
  fun it hit => Nat.le_trans (h it hit) hk

theorem advance_upto {g : Grammar} {X : Sym} {keep : Nat → Nat → Bool} {src : List Item} {L : Nat}
    (h : Upto L src) : Upto L (advanceOver g X keep src) := by
  intro x hx
  obtain ⟨p, hp, _, _, rfl⟩ := mem_advanceOver.mp hx
  exact h p hp

theorem last_eq_getD {pl : List (List Item)} (hne : pl ≠ []) :
    pl.getLastD [] = pl.getD (pl.length - 1) [] := by
  have : pl.length = (pl.length - 1) + 1 := by
    have := List.length_pos_iff.mpr hne; omega
  exact getLastD_eq_getD pl _ [] this

/-- the new set in stored form, computed from stored sets only; any fuel from `itemFuel` on -/
theorem nextSet_rel (g : Grammar) (ok : Nat → Nat → Bool) {pl : List (List Item)} (hpl : WfPL pl)
    (hne : pl ≠ []) (a : Nat) {n : Nat} (hn : g.itemFuel pl.length ≤ n) :
    toRel pl.length (nextSet g ok pl a) =
      relNext g ok (lookOf pl pl.length) (storedAt pl (pl.length - 1)) a n := by
  have hLpos : 0 < pl.length := List.length_pos_iff.mpr hne
  have hlast : Upto (pl.length - 1) (pl.getLastD []) := by
    rw [last_eq_getD hne]; exact hpl _
  have hstart : Upto pl.length (advanceOver g (.t a) ok (pl.getLastD [])) :=
    advance_upto (upto_mono hlast (Nat.sub_le _ _))
  -- fuel
  have hclosed := closeSet_closed (g := g) (okj := ok) (prev := pl) (j := pl.length)
    (start := advanceOver g (.t a) ok (pl.getLastD []))
    (fun k hk it hit => Nat.le_trans (hpl k it hit) (Nat.le_of_lt hk))
    (by
      intro x hx
      obtain ⟨p, hp, h1, _, rfl⟩ := mem_advanceOver.mp hx
      exact advance_in_univ h1 (upto_mono hlast (Nat.sub_le _ _) p hp))
  have hfuel : nextSet g ok pl a = saturate (closeStep g ok pl pl.length) n
      (addNew [] (advanceOver g (.t a) ok (pl.getLastD []))) := by
    unfold nextSet closeSet
    exact (saturate_more_fuel _ _ _ hclosed n hn).symm
  rw [hfuel, toRel_eq_map]
  rw [saturate_map (rel pl.length) (fun it => it.origin ≤ pl.length)
    (fun x y hx hy => rel_inj hx hy) (closeStep g ok pl pl.length)
    (relCloseStep g ok (lookOf pl pl.length))
    (fun s hs => closeStep_upto g ok hpl hs)
    (fun s hs => closeStep_rel g ok hpl hs)]
  · unfold relNext
    congr 1
    rw [addNew_map (rel pl.length) (fun it => it.origin ≤ pl.length)
      (fun x y hx hy => rel_inj hx hy) _ [] (fun _ h => (by cases h)) hstart]
    have := advance_rel g (.t a) ok hlast (Nat.sub_le pl.length 1)
    rw [toRel_eq_map] at this
    rw [this]
    have h1 : pl.length - (pl.length - 1) = 1 := by omega
    rw [h1, last_eq_getD hne]
    rfl
  · intro x hx
    rcases mem_addNew hx with h | h
    · cases h
    · exact hstart x h

theorem nextSet_upto (g : Grammar) (ok : Nat → Nat → Bool) {pl : List (List Item)} (hpl : WfPL pl)
    (hne : pl ≠ []) (a : Nat) : Upto pl.length (nextSet g ok pl a) := by
  have hlast : Upto (pl.length - 1) (pl.getLastD []) := by
    rw [last_eq_getD hne]; exact hpl _
  unfold nextSet closeSet
  intro x hx
  refine saturate_sound (closeStep g ok pl pl.length) (fun it => it.origin ≤ pl.length)
    (fun s hs => closeStep_upto g ok hpl hs) _ _ ?_ x hx
  intro y hy
  rcases mem_addNew hy with h | h
  · cases h
  · exact advance_upto (upto_mono hlast (Nat.sub_le _ _)) y h

/-- **the set depends on the list only through the stored sets at the distances of its own
items**: if the current sets are the same stored set and, for every item of the result with
distance `> 1`, the sets that far back are the same stored set, the results are the same
stored set -/
theorem nextSet_congr_aux (g : Grammar) (ok : Nat → Nat → Bool) {pl pl' : List (List Item)}
    (hpl : WfPL pl) (hpl' : WfPL pl') (hne : pl ≠ []) (hne' : pl' ≠ []) (a : Nat)
    (hcur : storedAt pl (pl.length - 1) = storedAt pl' (pl'.length - 1))
    (hagree : ∀ p ∈ toRel pl.length (nextSet g ok pl a), 1 < p.2.2 →
      storedAt pl (pl.length - p.2.2) = storedAt pl' (pl'.length - p.2.2)) :
    toRel pl.length (nextSet g ok pl a) = toRel pl'.length (nextSet g ok pl' a) := by
  have h1 := nextSet_rel g ok hpl hne a
    (n := max (g.itemFuel pl.length) (g.itemFuel pl'.length)) (Nat.le_max_left _ _)
  have h2 := nextSet_rel g ok hpl' hne' a
    (n := max (g.itemFuel pl.length) (g.itemFuel pl'.length)) (Nat.le_max_right _ _)
  rw [h2, ← hcur]
  rw [h1] at hagree ⊢
  unfold relNext at hagree ⊢
  apply saturate_congr_on _ _ _ _ _ (fun _ h => h)
  intro t ht
  unfold relCloseStep
  apply flatMap_congr'
  intro p hp
  have hpR := ht hp
  cases g.rules[p.1]? with
  | none => rfl
  | some rl =>
    simp only []
    cases rl.rhs[p.2.1]? with
    | some X => cases X <;> rfl
    | none =>
      simp only []
      split
      · rfl
      · rename_i h0
        have hlook : lookOf pl pl.length p.2.2 = lookOf pl' pl'.length p.2.2 := by
          unfold lookOf
          by_cases h1' : p.2.2 = 1
          · rw [h1']; exact hcur
          · exact hagree p hpR (by omega)
        rw [hlook]

/-! ## the cache -/

theorem ofRel_toRel {L : Nat} {s : List Item} (h : Upto L s) : ofRel L (toRel L s) = s := by
  unfold ofRel toRel
  rw [List.map_map]
  have : s.map ((fun p : RelItem => (⟨p.1, p.2.1, L - p.2.2⟩ : Item)) ∘
      fun it => (it.rule, it.dot, L - it.origin)) = s.map id := by
    apply List.map_congr_left
    intro it hit
    have := h it hit
    obtain ⟨r, d, o⟩ := it
    simp only [Function.comp, id, Item.mk.injEq, true_and]
    simp only at this
    omega
  rw [this, List.map_id]

theorem hasTrans_toRel (g : Grammar) {i i' : Nat} {s s' : List Item} (a : Nat)
    (h : toRel i s = toRel i' s') : hasTrans g s a = hasTrans g s' a := by
  have key : ∀ (i : Nat) (s : List Item), hasTrans g s a =
      (toRel i s).any fun p => g.nextSym p.1 p.2.1 == some (.t a) := by
    intro i s
    unfold hasTrans toRel
    rw [List.any_map]
    rfl
  rw [key i s, key i' s', h]

theorem okItem_keyLookahead (g : Grammar) (an : Analysis) (la : Nat) (rest : List Nat) :
    okItem g an la (keyLookahead la rest) = okItem g an la rest.head? := by
  unfold keyLookahead
  cases la with
  | zero => funext r d; rfl
  | succ n => rfl

theorem getD_take (pl : List (List Item)) (n k : Nat) :
    (pl.take n).getD k [] = if k < n then pl.getD k [] else [] := by
  rw [List.getD_eq_getElem?_getD, List.getD_eq_getElem?_getD, List.getElem?_take]
  split <;> rfl

theorem storedAt_take {pl : List (List Item)} {n k : Nat} (h : k < n) :
    storedAt (pl.take n) k = storedAt pl k := by
  unfold storedAt
  rw [getD_take, if_pos h]

theorem WfPL.take {pl : List (List Item)} (h : WfPL pl) (n : Nat) : WfPL (pl.take n) := by
  intro k
  rw [getD_take]
  split
  · exact h k
  · intro _ hx; cases hx

theorem getD_snoc (pl : List (List Item)) (x : List Item) (k : Nat) :
    (pl ++ [x]).getD k [] = if k < pl.length then pl.getD k [] else if k = pl.length then x else [] := by
  rw [List.getD_eq_getElem?_getD, List.getD_eq_getElem?_getD, List.getElem?_append]
  split
  · rfl
  · rename_i hk
    split
    · rename_i hk'
      subst hk'
      simp
    · rename_i hk'
      have : k - pl.length ≠ 0 := by omega
      cases hd : k - pl.length with
      | zero => exact absurd hd this
      | succ m => simp

theorem WfPL.snoc {pl : List (List Item)} (h : WfPL pl) {x : List Item} (hx : Upto pl.length x) :
    WfPL (pl ++ [x]) := by
  intro k
  rw [getD_snoc]
  split
  · exact h k
  · split
    · rename_i hk; rw [hk]; exact hx
    · intro _ hy; cases hy

/-- what the cache knows about a stored result: it was computed by `nextSet` at `place` from
the prefix of the list that is still in place -/
structure ResultOK (g : Grammar) (an : Analysis) (la : Nat) (pl : List (List Item))
    (key : CacheKey) (x : RelSet × Nat) : Prop where
  place_lt : x.2 + 1 < pl.length
  cur : key.1 = storedAt pl x.2
  trans : hasTrans g (pl.getD x.2 []) key.2.1 = true
  res : x.1 = toRel (x.2 + 1)
    (nextSet g (okItem g an la key.2.2) (pl.take (x.2 + 1)) key.2.1)

def CacheInv (g : Grammar) (an : Analysis) (la : Nat) (pl : List (List Item)) (c : GotoCache) :
    Prop :=
  ∀ e ∈ c, ∀ x ∈ e.results, ResultOK g an la pl e.key x

theorem ResultOK.snoc {g : Grammar} {an : Analysis} {la : Nat} {pl : List (List Item)}
    {key : CacheKey} {x : RelSet × Nat} (h : ResultOK g an la pl key x) (y : List Item) :
    ResultOK g an la (pl ++ [y]) key x := by
  have hlt := h.place_lt
  constructor
  · rw [List.length_append]; exact Nat.lt_succ_of_lt hlt
  · rw [h.cur]
    unfold storedAt
    rw [getD_snoc, if_pos (by omega)]
  · rw [getD_snoc, if_pos (by omega)]; exact h.trans
  · rw [h.res, List.take_append_of_le_length (by omega)]

theorem CacheInv.snoc {g : Grammar} {an : Analysis} {la : Nat} {pl : List (List Item)}
    {c : GotoCache} (h : CacheInv g an la pl c) (y : List Item) : CacheInv g an la (pl ++ [y]) c :=
  fun e he x hx => (h e he x hx).snoc y

theorem mem_store_results {e : CacheEntry} {x y : RelSet × Nat} (h : y ∈ (e.store x).results) :
    y ∈ e.results ∨ y = x := by
  unfold CacheEntry.store at h
  simp only at h
  split at h
  · rcases List.mem_or_eq_of_mem_set h with h | h
    · exact Or.inl h
    · exact Or.inr h
  · rcases List.mem_append.mp h with h | h
    · exact Or.inl h
    · exact Or.inr (List.mem_singleton.mp h)

theorem CacheInv.store {g : Grammar} {an : Analysis} {la : Nat} {pl : List (List Item)}
    {c : GotoCache} (h : CacheInv g an la pl c) {key : CacheKey} {x : RelSet × Nat}
    (hx : ResultOK g an la pl key x) : CacheInv g an la pl (c.store key x) := by
  intro e he y hy
  unfold GotoCache.store at he
  split at he
  · obtain ⟨e0, he0, rfl⟩ := List.mem_map.mp he
    split at hy
    · rename_i hk
      have hk' : e0.key = key := by simpa using hk
      have hkey : (e0.store x).key = e0.key := rfl
      rw [if_pos hk] at *
      rcases mem_store_results hy with h1 | rfl
      · exact h e0 he0 y h1
      · rw [hkey, hk']; exact hx
    · rename_i hk
      rw [if_neg hk] at *
      exact h e0 he0 y hy
  · rcases List.mem_append.mp he with he | he
    · exact h e he y hy
    · rw [List.mem_singleton] at he
      subst he
      rcases mem_store_results hy with h1 | rfl
      · cases h1
      · exact hx

/-- **a valid hit is the set a fresh computation produces** (and the shifted terminal has a
transition) -/
theorem cache_hit_sound_aux {g : Grammar} {an : Analysis} {la : Nat} {pl : List (List Item)}
    {c : GotoCache} (hpl : WfPL pl) (hne : pl ≠ []) (hinv : CacheInv g an la pl c) {a : Nat}
    {nla : Option Nat} {hit : RelSet × Nat}
    (hlook : c.lookup (toRel (pl.length - 1) (pl.getLastD []), a, nla) pl (pl.length - 1)
      = some hit) :
    ofRel (pl.length - 1 + 1) hit.1 = nextSet g (okItem g an la nla) pl a ∧
      hasTrans g (pl.getLastD []) a = true := by
  have hLpos : 0 < pl.length := List.length_pos_iff.mpr hne
  have hj : pl.length - 1 + 1 = pl.length := by omega
  unfold GotoCache.lookup at hlook
  cases hf : c.find? (fun e => e.key == (toRel (pl.length - 1) (pl.getLastD []), a, nla)) with
  | none => rw [hf] at hlook; cases hlook
  | some e =>
    rw [hf] at hlook
    simp only [] at hlook
    have hemem := List.mem_of_find?_eq_some hf
    have hekey : e.key = (toRel (pl.length - 1) (pl.getLastD []), a, nla) := by
      simpa using List.find?_some hf
    have hhitmem := List.mem_of_find?_eq_some hlook
    have hvalid : validAt pl (pl.length - 1) hit = true := List.find?_some hlook
    have hok := hinv e hemem hit hhitmem
    rw [hekey] at hok
    obtain ⟨hplace, hcur, htrans, hres⟩ := hok
    simp only at hcur htrans hres
    -- the prefix the result was computed from
    have hlen1 : (pl.take (hit.2 + 1)).length = hit.2 + 1 := by
      rw [List.length_take]; omega
    have hne1 : pl.take (hit.2 + 1) ≠ [] := by
      intro h; rw [h] at hlen1; cases hlen1
    have hlastS : toRel (pl.length - 1) (pl.getLastD []) = storedAt pl (pl.length - 1) := by
      rw [last_eq_getD hne]; rfl
    have hcongr := nextSet_congr_aux g (okItem g an la nla) (hpl.take (hit.2 + 1)) hpl hne1 hne a
      (by
        rw [hlen1, Nat.add_sub_cancel, storedAt_take (Nat.lt_succ_self _), ← hcur, hlastS])
      (by
        rw [hlen1, ← hres]
        intro p hp hdist
        have hv := List.all_eq_true.mp hvalid p hp
        simp only [Bool.or_eq_true, decide_eq_true_eq, beq_iff_eq] at hv
        rcases hv with hv | hv
        · omega
        · rw [storedAt_take (by omega), ← hv, hj])
    rw [hlen1, ← hres] at hcongr
    refine ⟨?_, ?_⟩
    · rw [hcongr, hj]
      exact ofRel_toRel (nextSet_upto g _ hpl hne a)
    · rw [← htrans]
      apply hasTrans_toRel g a (i := pl.length - 1) (i' := hit.2)
      exact hcur

/-- the cached loop computes what the plain loop computes, and keeps the cache invariant -/
theorem parseLoopCached_spec (g : Grammar) (an : Analysis) (la : Nat) (toks : List Nat) :
    ∀ (pl : List (List Item)) (k : Nat) (c : GotoCache) (hits : Nat),
      WfPL pl → pl ≠ [] → CacheInv g an la pl c →
      (parseLoopCached g an la toks pl k c hits).result = parseLoop g an la toks pl k ∧
      CacheInv g an la (parseLoopCached g an la toks pl k c hits).result.2
        (parseLoopCached g an la toks pl k c hits).cache := by
  induction toks with
  | nil =>
    intro pl k c hits _ _ hinv
    exact ⟨rfl, hinv⟩
  | cons a rest ih =>
    intro pl k c hits hpl hne hinv
    have hLpos : 0 < pl.length := List.length_pos_iff.mpr hne
    have hj : pl.length - 1 + 1 = pl.length := by omega
    have hok := okItem_keyLookahead g an la rest
    unfold parseLoopCached parseLoop
    simp only []
    cases hl : c.lookup (toRel (pl.length - 1) (pl.getLastD []), a, keyLookahead la rest) pl
        (pl.length - 1) with
    | some hit =>
      simp only []
      obtain ⟨hset, htr⟩ := cache_hit_sound_aux hpl hne hinv hl
      rw [if_pos htr, hset, hok]
      apply ih
      · exact hpl.snoc (nextSet_upto g _ hpl hne a)
      · simp
      · exact hinv.snoc _
    | none =>
      simp only []
      by_cases htr : hasTrans g (pl.getLastD []) a = true
      · rw [if_pos htr, if_pos htr, hok]
        apply ih
        · exact hpl.snoc (nextSet_upto g _ hpl hne a)
        · simp
        · apply CacheInv.store (hinv.snoc _)
          constructor
          · show pl.length - 1 + 1 < (pl ++ [_]).length
            rw [List.length_append, hj]; exact Nat.lt_succ_self _
          · show toRel (pl.length - 1) (pl.getLastD []) = storedAt (pl ++ [_]) (pl.length - 1)
            unfold storedAt
            rw [getD_snoc, if_pos (by omega), last_eq_getD hne]
          · show hasTrans g ((pl ++ [_]).getD (pl.length - 1) []) a = true
            rw [getD_snoc, if_pos (by omega), ← last_eq_getD hne]
            exact htr
          · show toRel (pl.length - 1 + 1) _ = toRel (pl.length - 1 + 1) _
            rw [hj, List.take_append_of_le_length (Nat.le_refl _), List.take_length, hok]
      · rw [if_neg htr, if_neg htr]
        exact ⟨rfl, hinv⟩

theorem wfPL_set0 (g : Grammar) : WfPL [set0 g] := by
  intro k
  cases k with
  | zero =>
    show Upto 0 (set0 g)
    unfold set0 closeSet
    intro x hx
    refine saturate_sound (closeStep g (fun _ _ => true) [] 0) (fun it => it.origin ≤ 0)
      (fun s hs => closeStep_upto g _ (pl := []) (fun k it hit => by simp at hit) hs) _ _ ?_ x hx
    intro y hy
    rcases mem_addNew hy with h | h
    · cases h
    · obtain ⟨r, rl, _, _, rfl⟩ := mem_initItems.mp h
      exact Nat.le_refl _
  | succ k =>
    intro it hit
    simp at hit

end Cache
end Yaep
