import Yaep.Model.AnalysisC
/-!
# Defective variants of the step-for-step analysis model (for the TESTS of
`Yaep/Props/AnalysisC.lean`)

Each variant is the transcription of `Yaep/Model/AnalysisC.lean` with one realistic mistake put
in.  Nothing is proved about them; `Yaep/Props/AnalysisC.lean` exhibits, by `decide`, a grammar
on which each of them differs from the abstract analysis (and hence from the real loops).
-/
namespace Yaep.AC.Variant

open Yaep.AC

/-- a pass over all nonterminals and their rules -/
def passOver {σ : Type} (g : Grammar) (rule : Nat → σ → Rule → σ) (st : σ) : σ :=
  (List.range g.nN).foldl (fun st A => (rulesOf g A).foldl (rule A) st) st

/-! ## (a) the change of `empty_p` recorded against `derivation_p`

`empty_changed_p |= symb->derivation_p ^ empty_p;` instead of `symb->empty_p ^ empty_p`: a
nonterminal already known to derive a terminal string becomes `empty_p` silently, and the loop
can stop before the symbols visited earlier have seen it. -/

def eadRuleA (A : Nat) (st : EadSt) (r : Rule) : EadSt :=
  let sc := r.rhs.foldl (eadRhsStep (.n A)) { fl := st.fl, accCh := st.accCh, e := true, d := true }
  let st1 : EadSt :=
    if sc.e then
      { fl := { sc.fl with empty := upd sc.fl.empty (.n A) sc.e }
        emptyCh := st.emptyCh || (sc.fl.deriv (.n A) ^^ sc.e)      -- the mistake
        derivCh := st.derivCh, accCh := sc.accCh }
    else { fl := sc.fl, emptyCh := st.emptyCh, derivCh := st.derivCh, accCh := sc.accCh }
  if sc.d then
    { st1 with fl := { st1.fl with deriv := upd st1.fl.deriv (.n A) sc.d }
               derivCh := st1.derivCh || (st1.fl.deriv (.n A) ^^ sc.d) }
  else st1

def eadPassA (g : Grammar) (fl : Flags) : Flags × Bool :=
  let st := passOver g eadRuleA { fl := fl, emptyCh := false, derivCh := false, accCh := false }
  (st.fl, st.emptyCh || st.derivCh || st.accCh)

def emptyAccessDerivesA (g : Grammar) : Flags :=
  (doWhile (eadPassA g) (eadFuel g) (eadInit g)).getD (eadInit g)

/-! ## (b) the right-hand-side scan left at the first symbol without `derivation_p`

`if (!rhs_symb->derivation_p) break;` at the end of the body ("the rule cannot become empty or
productive in this pass any more"): the symbols behind are not marked accessible. -/

def eadScanB (lhs : Sym) : List Sym → ScanSt → ScanSt
  | [], s => s
  | x :: rest, s =>
    let s' := eadRhsStep lhs s x
    if !s'.fl.deriv x then s' else eadScanB lhs rest s'      -- the mistake: `break`

def eadRuleB (A : Nat) (st : EadSt) (r : Rule) : EadSt :=
  let sc := eadScanB (.n A) r.rhs { fl := st.fl, accCh := st.accCh, e := true, d := true }
  let st1 : EadSt :=
    if sc.e then
      { fl := { sc.fl with empty := upd sc.fl.empty (.n A) sc.e }
        emptyCh := st.emptyCh || (sc.fl.empty (.n A) ^^ sc.e)
        derivCh := st.derivCh, accCh := sc.accCh }
    else { fl := sc.fl, emptyCh := st.emptyCh, derivCh := st.derivCh, accCh := sc.accCh }
  if sc.d then
    { st1 with fl := { st1.fl with deriv := upd st1.fl.deriv (.n A) sc.d }
               derivCh := st1.derivCh || (st1.fl.deriv (.n A) ^^ sc.d) }
  else st1

def eadPassB (g : Grammar) (fl : Flags) : Flags × Bool :=
  let st := passOver g eadRuleB { fl := fl, emptyCh := false, derivCh := false, accCh := false }
  (st.fl, st.emptyCh || st.derivCh || st.accCh)

def emptyAccessDerivesB (g : Grammar) : Flags :=
  (doWhile (eadPassB g) (eadFuel g) (eadInit g)).getD (eadInit g)

/-! ## (c) FOLLOW of the left-hand side given to the last right-hand-side symbol only

`if (j == rhs_len - 1)` instead of `if (k == rhs_len)`: a nonterminal followed by an `empty_p`
tail does not inherit FOLLOW of the left-hand side. -/

def ffSymC (empty : Sym → Bool) (A rhsLen : Nat) (x : Sym) (rest : List Sym) (j : Nat)
    (st : FF × Bool) (fc : Bool) : FF × Bool :=
  match x with
  | .t b => if fc then storeFirst st A (termSetUp (st.1.first A) b) else st
  | .n B =>
    let st1 := if fc then storeFirst st A (termSetOr (st.1.first A) (st.1.first B)) else st
    let p2 := followScan empty B rest (j + 1) st1
    if j + 1 == rhsLen then                                   -- the mistake
      storeFollow p2.1 B (termSetOr (p2.1.1.follow B) (p2.1.1.follow A))
    else p2.1

def ffRhsWith (sym : Nat → Nat → Sym → List Sym → Nat → FF × Bool → Bool → FF × Bool)
    (empty : Sym → Bool) (A rhsLen : Nat) : List Sym → Nat → FF × Bool → Bool → FF × Bool
  | [], _, st, _ => st
  | x :: rest, j, st, fc =>
    ffRhsWith sym empty A rhsLen rest (j + 1) (sym A rhsLen x rest j st fc)
      (if !empty x then false else fc)

def ffPassWith (sym : Nat → Nat → Sym → List Sym → Nat → FF × Bool → Bool → FF × Bool)
    (g : Grammar) (empty : Sym → Bool) (ff : FF) : FF × Bool :=
  passOver g (fun A st r => ffRhsWith sym empty A r.rhs.length r.rhs 0 st true) (ff, false)

def firstFollowC' (g : Grammar) : FF :=
  let empty := (emptyAccessDerives g).empty
  (doWhile (ffPassWith (ffSymC empty) g empty) (ffFuel g) ffInit).getD ffInit

/-! ## (d) a FOLLOW update that does not raise `changed_p`

`term_set_or (rhs_symb->u.nonterm.follow, symb->u.nonterm.follow);` without
`changed_p |=`: the loop can stop while the inherited terminals have not yet travelled on. -/

def ffSymD (empty : Sym → Bool) (A rhsLen : Nat) (x : Sym) (rest : List Sym) (j : Nat)
    (st : FF × Bool) (fc : Bool) : FF × Bool :=
  match x with
  | .t b => if fc then storeFirst st A (termSetUp (st.1.first A) b) else st
  | .n B =>
    let st1 := if fc then storeFirst st A (termSetOr (st.1.first A) (st.1.first B)) else st
    let p2 := followScan empty B rest (j + 1) st1
    if p2.2 == rhsLen then
      -- the mistake: the result of `term_set_or` is dropped
      storeFollow p2.1 B ((termSetOr (p2.1.1.follow B) (p2.1.1.follow A)).1, false)
    else p2.1

def firstFollowD (g : Grammar) : FF :=
  let empty := (emptyAccessDerives g).empty
  (doWhile (ffPassWith (ffSymD empty) g empty) (ffFuel g) ffInit).getD ffInit

/-- sanity: the generic pass builders instantiated with the unmodified body are the model -/
def firstFollowGeneric (g : Grammar) : FF :=
  let empty := (emptyAccessDerives g).empty
  (doWhile (ffPassWith (ffSym empty) g empty) (ffFuel g) ffInit).getD ffInit

end Yaep.AC.Variant
