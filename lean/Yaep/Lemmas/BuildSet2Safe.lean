import Yaep.Lemmas.BuildSet2Inv
import Yaep.Lemmas.BuildSetSafe
/-!
# The `do … while` of `build_new_set` is never entered with an empty vector (level 2)

As `Yaep/Lemmas/BuildSetSafe.lean`, for the level-2 model: when the second loop of
`build_new_set` finds a triple `core_symb_vect_find (prev_set_core, lhs)`, its transition vector
is not empty.  The invariant: every situation of every set of the parse list belongs to a rule
of `$S` or has its left-hand side after the dot of a situation of the set at its origin
(`PLPred`).
-/
namespace Yaep.BS2
open Yaep

theorem proj_get_iff {c : Core2} {k : Nat} {s : BS.Sit} :
    c.proj.sits[k]? = some s ↔ k < c.sits.length ∧ (c.sitAt k).proj = s := by
  show (c.sits.map Sit2.proj)[k]? = some s ↔ _
  rw [List.getElem?_map]
  constructor
  · intro h
    cases hk : c.sits[k]? with
    | none => rw [hk] at h; cases h
    | some x =>
      rw [hk] at h
      simp only [Option.map_some, Option.some.injEq] at h
      exact ⟨(List.getElem?_eq_some_iff.mp hk).1, by rw [sitAt_of_get hk]; exact h⟩
  · rintro ⟨h1, h2⟩
    rw [sitAt_get h1, ← h2]; rfl

/-- an initial situation has its left-hand side after the dot of a situation of the same core
(a fact about the core without its contexts) -/
theorem init_predictor_of_proj {g : Grammar} {an : Analysis} {num : Nat} {ss : List BS.Sit}
    {c : Core2} (hp : c.proj = BS.expandNewStartSet g an (BS.Core.fresh num ss)) {i : Nat}
    (hi1 : c.nAllDists ≤ i) (hi2 : i < c.sits.length) :
    ∃ i', i' < c.sits.length ∧
      g.nextSym (c.sitAt i').rule (c.sitAt i').dot = some (.n (lhsOf g (c.sitAt i))) := by
  have hsp : BS.ExpandSpec g an num ss c.proj := by
    rw [hp]; exact BS.expandNewStartSet_spec g an num ss
  have hsh := hsp.shape
  let Q : Nat → Nat → Option Nat → Prop := fun r d t =>
    (∃ k, k < c.sits.length ∧ (c.sitAt k).proj = (r, d)) ∧
    (t = none → ∃ i', i' < c.sits.length ∧
      g.nextSym (c.sitAt i').rule (c.sitAt i').dot = some (.n (Yaep.lhsOf g r)))
  have hallQ : BS.AllQ Q c.proj := by
    rw [hp]
    apply BS.expandNewStartSet_allQ
    · intro r d t rl s hq hr hs hn
      obtain ⟨⟨k, hk1, hk2⟩, hq2⟩ := hq
      obtain ⟨i2, h1, _⟩ := hsp.adv_nullable (proj_get_iff.mpr ⟨hk1, hk2⟩) hr hs hn
      obtain ⟨h3, h4⟩ := proj_get_iff.mp h1
      exact ⟨⟨i2, h3, h4⟩, hq2⟩
    · intro r d t B r' rl' hq hns hr' hl
      obtain ⟨⟨k, hk1, hk2⟩, _⟩ := hq
      have hrd : (c.sitAt k).rule = r ∧ (c.sitAt k).dot = d := by
        unfold Sit2.proj at hk2
        simp only [Prod.mk.injEq] at hk2
        exact hk2
      have hnx : BS.nextOf g c.proj.sits k = some (Sym.n B) := by
        rw [nextOf_proj, hrd.1, hrd.2]; exact hns
      have hlen : c.proj.sits.length = c.sits.length := by simp [Core2.proj]
      have := hsp.pred k (by rw [hlen]; exact hk1) B hnx r' (BS.mem_rulesOf.mpr ⟨rl', hr', hl⟩)
      obtain ⟨i2, _, h3, h4⟩ := initPart_iff_index.mp this
      refine ⟨⟨i2, h3, h4⟩, fun _ => ⟨k, hk1, ?_⟩⟩
      rw [hrd.1, hrd.2, Yaep.lhsOf_eq hr', hl]; exact hns
    · intro i sit hs
      refine ⟨?_, fun ht => by cases ht⟩
      rw [← hsp.start] at hs
      obtain ⟨_, h2⟩ := BS.startPart_get.mp hs
      obtain ⟨h3, h4⟩ := proj_get_iff.mp h2
      exact ⟨i, h3, h4⟩
  have hget : c.proj.sits[i]? = some (c.sitAt i).proj := proj_get_iff.mpr ⟨hi2, rfl⟩
  have := hallQ.at_index hsh hget
  rw [BS.tagOf_ge_nAll hsh hi1] at this
  obtain ⟨i', h1, h2⟩ := this.2 rfl
  refine ⟨i', h1, ?_⟩
  rw [lhsOf_eq]; exact h2

theorem ExpandSpec2.init_predictor {g : Grammar} {num : Nat} {ss : List Sit2} {c : Core2}
    (h : ExpandSpec2 g num ss c) {i : Nat} (hi1 : c.nAllDists ≤ i) (hi2 : i < c.sits.length) :
    ∃ i', i' < c.sits.length ∧
      g.nextSym (c.sitAt i').rule (c.sitAt i').dot = some (.n (lhsOf g (c.sitAt i))) :=
  init_predictor_of_proj h.proj hi1 hi2

/-- in the `lookahead_level > 1` block, `core_symb_vect_find (new_core, new_sit->rule->lhs)` is
not `NULL` and its transition vector is not empty, whatever the grammar and the start
situations -/
theorem ctxLoop_vect_nonempty (g : Grammar) (an : Analysis) (num : Nat) (ss : List Sit2) {i : Nat}
    (hi1 : (expand3 g an (Core2.fresh num ss)).nAllDists ≤ i)
    (hi2 : i < (expand3 g an (Core2.fresh num ss)).sits.length) :
    ∃ l, (expand3 g an (Core2.fresh num ss)).transOf
        (.n (lhsOf g ((expand3 g an (Core2.fresh num ss)).sitAt i))) = some l ∧ l ≠ [] := by
  obtain ⟨hp, _, _, _⟩ := expand3_sim g an num ss
  have hsp : BS.ExpandSpec g an num (ss.map Sit2.proj) (expand3 g an (Core2.fresh num ss)).proj := by
    rw [hp]; exact BS.expandNewStartSet_spec g an num _
  have htr := transExact_of_proj hsp
  obtain ⟨i', h1, h2⟩ := init_predictor_of_proj hp hi1 hi2
  generalize expand3 g an (Core2.fresh num ss) = c at htr h1 h2
  have hmem := (htr _ i').mpr ⟨h1, h2⟩
  cases ht : c.transOf (.n (lhsOf g (c.sitAt i))) with
  | none => rw [ht] at hmem; cases hmem
  | some l =>
    refine ⟨l, rfl, ?_⟩
    intro hl
    rw [ht, hl] at hmem; cases hmem

/-! ## the invariant -/

/-- situation `i` of the set at position `k` belongs to a rule of `$S` or its left-hand side is
after the dot of a situation of the set at its origin -/
def PredOK (g : Grammar) (pl : List CSet2) (k : Nat) : Prop :=
  ∀ i, i < (pl.getD k default).core.sits.length →
    lhsOf g ((pl.getD k default).core.sitAt i) = g.axiomN ∨
    ∃ i', i' < (pl.getD (k - BS.dtag (pl.getD k default).dists
        ((pl.getD k default).core.proj.tagOf i)) default).core.sits.length ∧
      g.nextSym
        ((pl.getD (k - BS.dtag (pl.getD k default).dists
          ((pl.getD k default).core.proj.tagOf i)) default).core.sitAt i').rule
        ((pl.getD (k - BS.dtag (pl.getD k default).dists
          ((pl.getD k default).core.proj.tagOf i)) default).core.sitAt i').dot =
        some (.n (lhsOf g ((pl.getD k default).core.sitAt i)))

def PLPred (g : Grammar) (pl : List CSet2) : Prop := ∀ k, k < pl.length → PredOK g pl k

/-- the same for a pair (start situation, distance) of the set being formed after `pl` -/
def PredPair (g : Grammar) (pl : List CSet2) (p : Sit2 × Nat) : Prop :=
  lhsOf g p.1 = g.axiomN ∨
  (1 ≤ p.2 ∧ p.2 ≤ pl.length ∧
    ∃ i', i' < (pl.getD (pl.length - p.2) default).core.sits.length ∧
      g.nextSym ((pl.getD (pl.length - p.2) default).core.sitAt i').rule
        ((pl.getD (pl.length - p.2) default).core.sitAt i').dot = some (.n (lhsOf g p.1)))

theorem mem_shiftUniv_iff {pl : List CSet2} {p : Sit2 × Nat} :
    p ∈ shiftUniv pl ↔ ∃ place ind, place < pl.length ∧
      ind < (pl.getD place default).core.sits.length ∧
      p = shiftPair (pl.getD place default) (pl.length - place) ind := by
  unfold shiftUniv
  simp only [List.mem_flatMap, List.mem_map, List.mem_range]
  constructor
  · rintro ⟨place, h1, ind, h2, rfl⟩; exact ⟨place, ind, h1, h2, rfl⟩
  · rintro ⟨place, ind, h1, h2, rfl⟩; exact ⟨place, h1, ind, h2, rfl⟩

theorem predPair_of_univ {g : Grammar} {plA : List (List Item2)} {pl : List CSet2}
    (h : PLOK2 g plA pl) (hp : PLPred g pl) {p : Sit2 × Nat} (hu : p ∈ shiftUniv pl) :
    PredPair g pl p := by
  obtain ⟨place, ind, h1, h2, rfl⟩ := mem_shiftUniv_iff.mp hu
  have hok := h.ok place h1
  have hpred := hp place h1 ind h2
  have hd := distOf_eq hok.shape ind
  have hle := hok.dtag_le ((pl.getD place default).core.proj.tagOf ind)
  unfold PredPair shiftPair
  simp only
  have hl : lhsOf g ⟨((pl.getD place default).core.sitAt ind).rule,
      ((pl.getD place default).core.sitAt ind).dot + 1,
      ((pl.getD place default).core.sitAt ind).ctx⟩ =
      lhsOf g ((pl.getD place default).core.sitAt ind) := rfl
  rw [hl]
  rcases hpred with hax | ⟨i', hi1, hi2⟩
  · exact .inl hax
  · right
    have ho : pl.length - ((pl.getD place default).distOf ind + (pl.length - place)) =
        place - BS.dtag (pl.getD place default).dists
          ((pl.getD place default).core.proj.tagOf ind) := by rw [hd]; omega
    rw [ho]
    exact ⟨by omega, by rw [hd]; omega, i', hi1, hi2⟩

theorem getD_snoc_lt {pl : List CSet2} {s : CSet2} {k : Nat} (hk : k < pl.length) :
    (pl ++ [s]).getD k default = pl.getD k default := by
  rw [List.getD_eq_getElem?_getD, List.getD_eq_getElem?_getD, List.getElem?_append_left hk]

theorem getD_snoc_eq {pl : List CSet2} {s : CSet2} : (pl ++ [s]).getD pl.length default = s := by
  rw [List.getD_eq_getElem?_getD, List.getElem?_append_right (Nat.le_refl _)]
  simp

/-- the invariant for the list with the new set -/
theorem PLPred_snoc {g : Grammar} {plA : List (List Item2)} {pl : List CSet2} {cs : CSet2}
    {num : Nat} {ns : NewStart2} (h : PLOK2 g plA pl) (hp : PLPred g pl)
    (hcore : ExpandSpec2 g num (ns.map (·.1)) cs.core) (hd : cs.dists = ns.map (·.2))
    (hpp : ∀ p ∈ ns, PredPair g pl p) : PLPred g (pl ++ [cs]) := by
  intro k hk
  rw [List.length_append, List.length_singleton] at hk
  rcases Nat.lt_or_ge k pl.length with hlt | hge
  · -- an old set
    intro i hi
    rw [getD_snoc_lt hlt] at hi ⊢
    have hle := (h.ok k hlt).dtag_le ((pl.getD k default).core.proj.tagOf i)
    rw [getD_snoc_lt (by omega : k - BS.dtag (pl.getD k default).dists
      ((pl.getD k default).core.proj.tagOf i) < pl.length)]
    exact hp k hlt i hi
  · -- the new set
    have hk' : k = pl.length := by omega
    subst hk'
    intro i hi
    rw [getD_snoc_eq] at hi ⊢
    have hsh := hcore.spec.shape
    rcases Nat.lt_or_ge i cs.core.nAllDists with hlow | hhigh
    · obtain ⟨q, hq, t, _, h2, h3⟩ := low_item hcore hd hlow
      have hl : lhsOf g (cs.core.sitAt i) = lhsOf g q.1 := by rw [h2]; rfl
      rw [hl, h3]
      rcases hpp q hq with hax | ⟨h4, h5, i', hi1, hi2⟩
      · exact .inl hax
      · right
        rw [getD_snoc_lt (by omega : pl.length - q.2 < pl.length)]
        exact ⟨i', hi1, hi2⟩
    · right
      rw [BS.tagOf_ge_nAll hsh hhigh]
      have e : (pl ++ [cs]).getD (pl.length - BS.dtag cs.dists none) default = cs := by
        show (pl ++ [cs]).getD (pl.length - 0) default = cs
        rw [Nat.sub_zero, getD_snoc_eq]
      rw [e]
      exact hcore.init_predictor hhigh hi

/-! ## the flag -/

section Safe
variable {g : Grammar} {w : List Nat} {plA : List (List Item2)} {pl : List CSet2} {k a : Nat}
  {nxt : Option Nat}

theorem find_axiom_set0 (hwf : g.WF) (h : PLOK2 g plA pl) (hinv : Yaep.Inv2 g w plA)
    (hpos : 0 < pl.length) : (pl.getD 0 default).core.find (Sym.n g.axiomN) = false := by
  have hok := h.ok 0 hpos
  have hitems := h.items 0 hpos
  obtain ⟨num, ns, hc, _⟩ := hok.exp
  have hsp := hc.spec
  generalize pl.getD 0 default = s0 at hok hitems hc hsp
  cases hf : s0.core.find (Sym.n g.axiomN) with
  | false => rfl
  | true =>
    exfalso
    have hf' : s0.core.proj.find (Sym.n g.axiomN) = true := hf
    unfold BS.Core.find at hf'
    simp only [hsp.trans, hsp.reduces, Bool.or_eq_true] at hf'
    rcases hf' with hf' | hf'
    · unfold BS.vecOf at hf'
      split at hf'
      · cases hf'
      · rename_i hne'
        obtain ⟨i, hi⟩ := List.exists_mem_of_ne_nil _ hne'
        obtain ⟨_, hnx⟩ := BS.mem_filt.mp hi
        unfold BS.nextOf at hnx
        obtain ⟨rl', hrl', hs'⟩ := nextSym_eq_some.mp hnx
        exact hwf.2.2.1 rl' (List.mem_of_getElem? hrl') (List.mem_of_getElem? hs')
    · unfold BS.vecOf at hf'
      split at hf'
      · cases hf'
      · rename_i hne'
        obtain ⟨i, hi⟩ := List.exists_mem_of_ne_nil _ hne'
        obtain ⟨hilt, hred⟩ := BS.mem_rfilt.mp hi
        have hlen : s0.core.proj.sits.length = s0.core.sits.length := by simp [Core2.proj]
        rw [hlen] at hilt
        unfold BS.redOf at hred
        have e : s0.core.proj.sits.getD i default = (s0.core.sitAt i).proj := getD_map_proj _ _
        rw [e] at hred
        split at hred
        · cases hred
        · rename_i rl1 hrl1
          split at hred
          · rename_i hdot
            simp only [Option.some.injEq] at hred
            have hit : (⟨(s0.core.sitAt i).rule, (s0.core.sitAt i).dot,
                0 - BS.dtag s0.dists (s0.core.proj.tagOf i), (s0.core.sitAt i).ctx⟩ : Item2) ∈
                plA.getD 0 [] := (hitems _).mp (mem_items.mpr ⟨i, _, sitAt_get hilt, rfl⟩)
            have hE0 := hinv.sound 0 (by rw [h.len]; exact hpos) _ hit
            have hE0' : EarleyF g okT w 0 ⟨(s0.core.sitAt i).rule, (s0.core.sitAt i).dot,
                0 - BS.dtag s0.dists (s0.core.proj.tagOf i)⟩ := hE0
            have := BS.no_complete_axiom_set0 hwf hE0' hrl1 hred
            have hdot' : (s0.core.sitAt i).dot = rl1.rhs.length := hdot
            omega
          · cases hred

/-- one step: the flag computed by the second loop of `build_new_set` is `false` -/
theorem newStarts_not_bad (hwf : g.WF) (h : PLOK2 g plA pl) (hpred : PLPred g pl)
    (hinv : Yaep.Inv2 g w plA) (hlen : plA.length = k + 1) (hw : w[k]? = some a) :
    (newStarts g nxt pl a).2 = false := by
  have hpl : pl.length = k + 1 := by rw [← h.len]; exact hlen
  unfold newStarts newSetLoop2
  refine (BS.scanLoop_preserves (len := fun st : NewStart2 × Bool => st.1.length)
    (step := newSetStep2 g g.analysis (ok2 g g.analysis nxt) pl (pl.length - 1))
    (fun st => st.2 = false ∧ ∀ p ∈ st.1, PairOK2 g nxt plA pl a p) ?_ _ 0 _
    ⟨rfl, pairOK_loop1 h hlen⟩).1
  intro i st ⟨hb, hall⟩ hi
  refine ⟨?_, ?_⟩
  · have hmemi : st.1.getD i default ∈ st.1 := by
      rw [List.getD_eq_getElem?_getD, List.getElem?_eq_getElem hi]
      exact List.getElem_mem hi
    obtain ⟨h1, h2, hT, hu⟩ := hall _ hmemi
    have hpp := predPair_of_univ h hpred hu
    unfold newSetStep2
    generalize st.1.getD i default = p0 at h1 h2 hT hu hpp
    obtain ⟨sit0, nd0⟩ := p0
    simp only at h1 h2 hT hpp ⊢
    split
    · split
      · rename_i het hfind
        simp only [hb, Bool.false_or]
        have hplace : pl.length - 1 + 1 - nd0 = pl.length - nd0 := by omega
        rw [hplace] at hfind ⊢
        rcases hpp with hax | ⟨_, _, i', hi1, hi2⟩
        · -- a rule of `$S`: its origin is set 0, where no triple for `$S` exists
          exfalso
          have hrl : ∃ rl, g.rules[sit0.rule]? = some rl := by
            cases hr : g.rules[sit0.rule]? with
            | none =>
              unfold BS.emptyTailP at het
              have : (sit0.proj).1 = sit0.rule := rfl
              rw [this, hr] at het
              cases het
            | some rl => exact ⟨rl, rfl⟩
          obtain ⟨rl, hrl⟩ := hrl
          have hl : rl.lhs = g.axiomN := by rw [← hax, lhsOf_eq, Yaep.lhsOf_eq hrl]
          have hE := startOf_sound hlen hinv.sound hw _ hT
          have hE' : EarleyF g okT w plA.length ⟨sit0.rule, sit0.dot, plA.length - nd0⟩ := hE
          have ho := hE'.axiom_origin hwf rl hrl hl
          simp only at ho
          have ho' : pl.length - nd0 = 0 := by rw [← h.len]; exact ho
          rw [ho', hax, find_axiom_set0 hwf h hinv (by omega)] at hfind
          cases hfind
        · -- predicted in the origin set: the transition vector is not empty
          have hok := h.ok (pl.length - nd0) (by omega)
          have hmem : i' ∈ ((pl.getD (pl.length - nd0) default).core.transOf
              (Sym.n (lhsOf g sit0))).getD [] := (hok.transExact _ i').mpr ⟨hi1, hi2⟩
          cases htr : ((pl.getD (pl.length - nd0) default).core.transOf
              (Sym.n (lhsOf g sit0))).getD [] with
          | nil => rw [htr] at hmem; cases hmem
          | cons x xs => rfl
      · exact hb
    · exact hb
  · rw [newSetStep2_fst]
    intro p hp
    rcases mem_addNew hp with hp | hp
    · exact hall p hp
    · exact pairOK_step h hinv hlen hw st.1 i hall hi p hp

theorem buildNewSet_bad {tab : Tab2} :
    (buildNewSet g g.analysis (ok2 g g.analysis nxt) tab pl (pl.getLastD default) (Sym.t a)).1.bad =
      (tab.bad || (newStarts g nxt pl a).2) := by
  have hunf : buildNewSet g g.analysis (ok2 g g.analysis nxt) tab pl (pl.getLastD default) (Sym.t a) =
      let st := newStarts g nxt pl a
      let r := setInsert tab st.1
      let tab' : Tab2 := { r.1 with bad := r.1.bad || st.2 }
      if r.2.2 then
        (tab'.storeCore (expandNewStartSet g g.analysis r.2.1.core),
          { r.2.1 with core := expandNewStartSet g g.analysis r.2.1.core })
      else (tab', r.2.1) := rfl
  rw [hunf]
  dsimp only
  have hb := (setInsert_spec tab (newStarts g nxt pl a).1).2.1
  split
  · show ((setInsert tab (newStarts g nxt pl a).1).1.bad || _) = _
    rw [hb]
  · show ((setInsert tab (newStarts g nxt pl a).1).1.bad || _) = _
    rw [hb]

/-- the new set keeps `PLPred` -/
theorem buildNewSet_pred (hsr : g.symsInRange = true) {tab : Tab2}
    (htab : TabInv2 g g.analysis tab) (h : PLOK2 g plA pl) (hpred : PLPred g pl)
    (hinv : Yaep.Inv2 g w plA) (hlen : plA.length = k + 1) (hw : w[k]? = some a) :
    PLPred g (pl ++ [(buildNewSet g g.analysis (ok2 g g.analysis nxt) tab pl (pl.getLastD default)
      (Sym.t a)).2]) := by
  obtain ⟨_, num, ns, hc, hd, hns⟩ :=
    buildNewSet_tabInv htab (ok2 g g.analysis nxt) pl (pl.getLastD default) (Sym.t a)
  have hnsinv := (newStarts_inv (nxt := nxt) h hinv hlen hw).1
  have hns' : ns = (newStarts g nxt pl a).1 := hns
  have hsb := startOf_bnd (nxt := nxt) (a := a) hinv.bnd
  have hb : ∀ s ∈ ns.map (·.1), ∀ x ∈ s.ctx, x < g.nT := by
    intro s hs x hx
    obtain ⟨p, hp, rfl⟩ := List.mem_map.mp hs
    rw [hns'] at hp
    exact hsb _ (hnsinv.all p hp).2.2.1 x hx
  have hsp2 := (expandNewStartSet_spec2 hsr num (ns.map (·.1)) hb).1
  rw [← hc] at hsp2
  apply PLPred_snoc h hpred hsp2 hd
  intro p hp
  rw [hns'] at hp
  exact predPair_of_univ h hpred (hnsinv.all p hp).2.2.2

end Safe

theorem buildStartSet_bad (g : Grammar) (an : Analysis) : (buildStartSet g an).1.bad = false := by
  rw [buildStartSet_unfold]
  dsimp only
  generalize (BS.rulesOf g g.axiomN).foldl (fun ns r => addStartSit ns ⟨r, 0, []⟩ 0) setNewStart = ns
  have := (setInsert_spec {} ns).2.1
  generalize setInsert {} ns = r at this
  exact this

/-- set 0: every situation below `n_all_dists` belongs to a rule of `$S` -/
theorem buildStartSet_pred {g : Grammar} (hsr : g.symsInRange = true) :
    PLPred g [(buildStartSet g g.analysis).2] := by
  obtain ⟨_, num, hc, hd⟩ := buildStartSet_tabInv g g.analysis
  have hb : ∀ s ∈ (BS.rulesOf g g.axiomN).map (fun r => (⟨r, 0, []⟩ : Sit2)), ∀ a ∈ s.ctx,
      a < g.nT := by
    intro s hs a ha
    obtain ⟨r, _, rfl⟩ := List.mem_map.mp hs
    cases ha
  have hsp2 := (expandNewStartSet_spec2 hsr num _ hb).1
  rw [← hc] at hsp2
  generalize (buildStartSet g g.analysis).2 = cs at hsp2 hd
  let ns : NewStart2 := (BS.rulesOf g g.axiomN).map fun r => ((⟨r, 0, []⟩ : Sit2), 0)
  have e1 : ns.map (·.1) = (BS.rulesOf g g.axiomN).map fun r => (⟨r, 0, []⟩ : Sit2) := by
    simp only [ns, List.map_map]; rfl
  have e2 : ns.map (·.2) = (BS.rulesOf g g.axiomN).map fun _ => 0 := by
    simp only [ns, List.map_map]; rfl
  rw [← e1] at hsp2
  rw [← e2] at hd
  have hpl0 : PLPred g ([] : List CSet2) := fun k hk => absurd hk (Nat.not_lt_zero _)
  have h0 : PLOK2 g [] [] := ⟨rfl, fun k hk => absurd hk (Nat.not_lt_zero _),
    fun k hk => absurd hk (Nat.not_lt_zero _)⟩
  have := PLPred_snoc h0 hpl0 hsp2 hd (by
    intro p hp
    obtain ⟨r, hr, rfl⟩ := List.mem_map.mp hp
    left
    obtain ⟨rl, hrl, hl⟩ := BS.mem_rulesOf.mp hr
    show lhsOf g ⟨r, 0, []⟩ = g.axiomN
    rw [lhsOf_eq, Yaep.lhsOf_eq hrl]; exact hl)
  simpa using this

/-- the main loop keeps the flag `false` -/
theorem parseLoopC2_bad {g : Grammar} (hwf : g.WF) (hsr : g.symsInRange = true) (w' : List Nat) :
    ∀ (toks : List Nat) (tab : Tab2) (pl : List CSet2) (plA : List (List Item2)) (k : Nat),
      w'.drop k = toks → plA.length = k + 1 → TabInv2 g g.analysis tab → PLOK2 g plA pl →
      Yaep.Inv2 g w' plA → PLPred g pl → tab.bad = false →
      (parseLoopC2 g g.analysis toks tab pl k).2.1.bad = false := by
  intro toks
  induction toks with
  | nil => intro tab pl plA k _ _ _ _ _ _ hb; exact hb
  | cons a rest ih =>
    intro tab pl plA k hdrop hlen ht h hinv hpred hb
    obtain ⟨hw, hrest⟩ := drop_succ_of_drop_cons hdrop
    rw [parseLoopC2_cons]
    split
    · have hhead : rest.head? = w'[k + 1]? := by rw [← hrest, List.head?_drop]
      rw [hhead]
      obtain ⟨h1, h2, h3⟩ := buildNewSet_main (nxt := w'[k + 1]?) hsr ht h hinv hlen hw
      apply ih _ _ (plA ++ [nextSet2 g g.analysis w'[k + 1]? plA a]) (k + 1) hrest
        (by rw [List.length_append, hlen]; rfl) h1 (PLOK2_snoc h h2 h3) (hinv.step hsr hlen hw)
        (buildNewSet_pred hsr ht h hpred hinv hlen hw)
      rw [buildNewSet_bad, hb, newStarts_not_bad hwf h hpred hinv hlen hw]
      rfl
    · exact hb

/-- For a well-formed grammar the `do … while` of `build_new_set` is never entered with an
empty transition vector (`assert (curr_el != NULL)` holds), at level 2. -/
theorem buildPLC2_not_bad {g : Grammar} (hwf : g.WF) (hsr : g.symsInRange = true) (w : List Nat) :
    (buildPLC2 g w).2.1.bad = false := by
  rw [buildPLC2_eq]
  obtain ⟨h1, h2, h3⟩ := buildStartSet_main hsr
  obtain ⟨hinv0, _⟩ := Inv2.init hwf hsr (w ++ [g.eofT])
  apply parseLoopC2_bad hwf hsr (w ++ [g.eofT]) _ _ _ [expand2 g g.analysis (start0 g) 0] 0 rfl rfl
    h1 _ hinv0 (buildStartSet_pred hsr) (buildStartSet_bad g g.analysis)
  refine ⟨rfl, ?_, ?_⟩
  · intro k hk
    have : k = 0 := by simpa using hk
    subst this; simpa using h2
  · intro k hk it
    have : k = 0 := by simpa using hk
    subst this; simpa using h3 it

end Yaep.BS2
