import Yaep.Lemmas.NoGarbagePruned
/-!
# No garbage, part 12: the exporter and `free_tree` on the tree `find_minimal_translation` returns

The exporter only looks at the cells reachable from the root, so the final heap and its masked
version (a `WfHeap`, `FinalHeap.wfMasked`) have the same exported table; `export_free_bij` for the
masked heap is a statement about the final heap.
-/
namespace Yaep.NG
open Yaep MP

/-! ## two heaps that agree on a closed set of cells -/

theorem exportKids_congr (f g : ExSt → Nat → ExSt × Nat) :
    ∀ (ks : List Nat) (ex : ExSt) (acc : List Nat), (∀ k ∈ ks, ∀ ex, f ex k = g ex k) →
      exportKids f ks ex acc = exportKids g ks ex acc
  | [], _, _, _ => rfl
  | k :: ks, ex, acc, h => by
    show exportKids f ks (f ex k).1 (acc ++ [(f ex k).2]) = exportKids g ks (g ex k).1 (acc ++ [(g ex k).2])
    rw [h k List.mem_cons_self ex]
    exact exportKids_congr f g ks _ _ (fun k' hk' => h k' (List.mem_cons_of_mem _ hk'))

section
variable {A B : Array PC.Cell} {D : Nat → Prop}
  (hsz : A.size = B.size)
  (hcl : ∀ n, D n → ∀ k ∈ PC.succs A n, D k)
  (heq : ∀ n, D n → PC.cellAt B n = PC.cellAt A n)
include hcl heq

theorem agree_succs {n : Nat} (hn : D n) : PC.succs B n = PC.succs A n := by
  unfold PC.succs; rw [heq n hn]

theorem agree_reach {a z : Nat} (ha : D a) (h : PC.Reach A a z) : PC.Reach B a z ∧ D z := by
  induction h with
  | refl => exact ⟨.refl _, ha⟩
  | step e _ ih =>
    obtain ⟨h1, h2⟩ := ih (hcl _ ha _ e)
    exact ⟨.step (by rw [agree_succs hcl heq ha]; exact e) h1, h2⟩

theorem agree_reach' {a z : Nat} (ha : D a) (h : PC.Reach B a z) : PC.Reach A a z ∧ D z := by
  induction h with
  | refl => exact ⟨.refl _, ha⟩
  | step e _ ih =>
    rw [agree_succs hcl heq ha] at e
    obtain ⟨h1, h2⟩ := ih (hcl _ ha _ e)
    exact ⟨.step e h1, h2⟩

theorem agree_chainCells : ∀ (m a : Nat), D a → PC.chainCells B m a = PC.chainCells A m a
  | 0, _, _ => rfl
  | m + 1, a, ha => by
    unfold PC.chainCells
    rw [heq a ha]
    split
    · rename_i nd nx e
      rw [agree_chainCells m nx (hcl a ha nx (by simp [PC.succs, e]))]
    · rfl
    · rfl

theorem agree_altChain : ∀ (fuel : Nat) (a : Nat), D a →
    altChain (PC.toHeap B) fuel (some a) = altChain (PC.toHeap A) fuel (some a)
  | 0, _, _ => rfl
  | fuel + 1, a, ha => by
    unfold altChain
    rw [PC.toHeap_getD, PC.toHeap_getD, heq a ha]
    cases hc : PC.cellAt A a with
    | alt nd nx =>
      simp only [PC.toMNode]
      cases nx with
      | none => cases fuel <;> rfl
      | some j =>
        rw [agree_altChain fuel j (hcl a ha j (by simp [PC.succs, hc]))]
    | nil => rfl
    | err => rfl
    | term _ _ => rfl
    | anode _ _ _ => rfl

include hsz in
theorem agree_cellKids {n : Nat} (hn : D n) :
    cellKids (PC.toHeap B) n = cellKids (PC.toHeap A) n := by
  unfold cellKids
  rw [PC.toHeap_getD, PC.toHeap_getD, heq n hn]
  cases hc : PC.cellAt A n with
  | alt nd nx =>
    simp only [PC.toMNode]
    rw [PC.toHeap_size, PC.toHeap_size, ← hsz]
    exact agree_altChain hcl heq _ n hn
  | nil => rfl
  | err => rfl
  | term _ _ => rfl
  | anode _ _ _ => rfl

theorem agree_cellRec {n : Nat} (hn : D n) (ids : List Nat) :
    cellRec (PC.toHeap B) n ids = cellRec (PC.toHeap A) n ids := by
  unfold cellRec
  rw [PC.toHeap_getD, PC.toHeap_getD, heq n hn]

/-- the cells the exporter visits from a cell of `D` are in `D` -/
theorem agree_kids_closed {n : Nat} (hn : D n) : ∀ k ∈ cellKids (PC.toHeap A) n, D k := by
  intro k hk
  unfold cellKids at hk
  rw [PC.toHeap_getD] at hk
  cases hc : PC.cellAt A n with
  | anode nm c ks =>
    rw [hc] at hk
    simp only [PC.toMNode] at hk
    exact hcl n hn k (by simp only [PC.succs, hc]; exact hk)
  | alt nd nx =>
    rw [hc] at hk
    simp only [PC.toMNode] at hk
    -- every alternative of the chain is in `D`
    have key : ∀ (fuel a : Nat), D a → ∀ k ∈ altChain (PC.toHeap A) fuel (some a), D k := by
      intro fuel
      induction fuel with
      | zero => intro a _ k hk; simp [altChain] at hk
      | succ fuel ih =>
        intro a ha k hk
        unfold altChain at hk
        rw [PC.toHeap_getD] at hk
        cases hca : PC.cellAt A a with
        | alt nd' nx' =>
          rw [hca] at hk
          simp only [PC.toMNode] at hk
          rcases List.mem_cons.1 hk with e | e
          · rw [e]; exact hcl a ha nd' (by cases nx' <;> simp [PC.succs, hca])
          · cases nx' with
            | none => cases fuel <;> simp [altChain] at e
            | some j => exact ih j (hcl a ha j (by simp [PC.succs, hca])) k e
        | nil => rw [hca] at hk; simp [PC.toMNode] at hk
        | err => rw [hca] at hk; simp [PC.toMNode] at hk
        | term _ _ => rw [hca] at hk; simp [PC.toMNode] at hk
        | anode _ _ _ => rw [hca] at hk; simp [PC.toMNode] at hk
    exact key _ n hn k hk
  | nil => rw [hc] at hk; simp [PC.toMNode] at hk
  | err => rw [hc] at hk; simp [PC.toMNode] at hk
  | term _ _ => rw [hc] at hk; simp [PC.toMNode] at hk

include hsz in
theorem agree_exportNode : ∀ (fuel : Nat) (ex : ExSt) (n : Nat), D n →
    exportNode (PC.toHeap B) fuel ex n = exportNode (PC.toHeap A) fuel ex n
  | 0, _, _, _ => rfl
  | fuel + 1, ex, n, hn => by
    unfold exportNode
    split
    · rfl
    · split
      · rfl
      · rw [agree_cellKids hsz hcl heq hn]
        have hk := exportKids_congr (exportNode (PC.toHeap B) fuel) (exportNode (PC.toHeap A) fuel)
          (cellKids (PC.toHeap A) n) { ex with visiting := ex.visiting.set! n true } []
          (fun k hk ex' => agree_exportNode fuel ex' k (agree_kids_closed hcl heq hn k hk))
        rw [hk]
        simp only [agree_cellRec hcl heq hn]

include hsz in
theorem agree_exportTable {r : Nat} (hr : D r) :
    exportTable (PC.toHeap B) r = exportTable (PC.toHeap A) r := by
  unfold exportTable
  rw [PC.toHeap_size, PC.toHeap_size, ← hsz, agree_exportNode hsz hcl heq _ _ r hr]

end

/-! ## the pruned tree -/

section
variable {h0 : Array PC.Cell} {rk hd : Nat → Nat} {one free : Bool} {s : PC.PSt}
  {Hf : Array PC.Cell} {x0 : Nat} (H : FinalHeap h0 rk hd one free s Hf x0)
include H

theorem FinalHeap.closed : ∀ n, PC.Reach Hf x0 n → ∀ k ∈ PC.succs Hf n, PC.Reach Hf x0 k :=
  fun _ hn _ hk => hn.trans (.single hk)

theorem FinalHeap.agree : ∀ n, PC.Reach Hf x0 n → PC.cellAt H.masked n = PC.cellAt Hf n :=
  fun _ hn => H.masked_in hn

theorem FinalHeap.size_masked : Hf.size = H.masked.size := by
  rw [H.masked_size, H.size_eq]

/-- **`free_tree` on the exported table of the pruned tree**: as `export_free_bij`, for the final
heap of `find_minimal_translation` -/
theorem FinalHeap.export_free_bij {tab : Array NodeRec} {root : Nat}
    (hx : exportTable (PC.toHeap Hf) x0 = some (tab, root)) :
    ∃ cells : List Nat, cells.length = tab.size ∧ cells.getD root 0 = x0 ∧
      (∀ id, id < tab.size → RepAt (PC.toHeap Hf) tab cells id ∧ PC.Reach Hf x0 (cells.getD id 0)) ∧
      (freedBlocks (freeTree tab root)).Nodup ∧
      (∀ b ∈ freedBlocks (freeTree tab root), ∀ b' ∈ freedBlocks (freeTree tab root),
        isNameB b = false → isNameB b' = false → cellOf Hf cells b = cellOf Hf cells b' → b = b') ∧
      (∀ x, PC.Reach Hf x0 x ↔
        ∃ b ∈ freedBlocks (freeTree tab root), isNameB b = false ∧ cellOf Hf cells b = x) ∧
      (∀ b ∈ freedBlocks (freeTree tab root),
        (∀ k, b = .node k → PC.isAlt Hf (cellOf Hf cells b) = false) ∧
        (∀ k p, b = .cell k p → PC.isAlt Hf (cellOf Hf cells b) = true)) ∧
      (∀ nm, Block.name nm ∈ freedBlocks (freeTree tab root) ↔
        ∃ x c ks, PC.Reach Hf x0 x ∧ PC.cellAt Hf x = .anode nm c ks) ∧
      (termCalls (freeTree tab root)).Nodup ∧
      (∀ k, k ∈ termCalls (freeTree tab root) ↔
        Block.node k ∈ freedBlocks (freeTree tab root) ∧
          ∃ cd a, PC.cellAt Hf (cells.getD k 0) = .term cd a) := by
  have hsz := H.size_masked
  have hcl := H.closed
  have heq := H.agree
  have hx' : exportTable (PC.toHeap H.masked) x0 = some (tab, root) := by
    rw [agree_exportTable hsz hcl heq (.refl _)]; exact hx
  obtain ⟨cells, b1, b2, b3, b4, b5, b6, b7, b8, b9, b10⟩ :=
    NG.export_free_bij H.wfMasked H.root_lt H.hdN_root hx'
  -- reachability is the same in the two heaps
  have hreach : ∀ z, PC.Reach H.masked x0 z ↔ PC.Reach Hf x0 z := by
    intro z
    constructor
    · intro h; exact (agree_reach' hcl heq (.refl _) h).1
    · intro h; exact (agree_reach hcl heq (.refl _) h).1
  have hcellsR : ∀ id, id < tab.size → PC.Reach Hf x0 (cells.getD id 0) :=
    fun id hid => (hreach _).1 (b3 id hid).2
  -- `cellOf` is the same on the blocks of the table
  have hcellOf : ∀ b ∈ freedBlocks (freeTree tab root), cellOf H.masked cells b = cellOf Hf cells b := by
    intro b hb
    cases b with
    | name s => rfl
    | node k => rfl
    | cell k p =>
      show (PC.chain0 H.masked (cells.getD k 0)).getD p 0 = (PC.chain0 Hf (cells.getD k 0)).getD p 0
      unfold PC.chain0
      have hk : k < tab.size := by
        obtain ⟨hwf, hroot⟩ := exportTable_wf hx
        have := ((freeTree_exactly_once hwf hroot).2.1 _).1 hb
        have := this.1.le hwf
        omega
      rw [← hsz, agree_chainCells hcl heq _ _ (hcellsR k hk)]
  have hisAlt : ∀ y, PC.Reach Hf x0 y → PC.isAlt H.masked y = PC.isAlt Hf y := by
    intro y hy; unfold PC.isAlt; rw [heq y hy]
  refine ⟨cells, b1, b2, ?_, b4, ?_, ?_, ?_, ?_, b9, ?_⟩
  · intro id hid
    obtain ⟨⟨ids, e1, e2, e3⟩, _⟩ := b3 id hid
    have hD := hcellsR id hid
    refine ⟨⟨ids, ?_, ?_, e3⟩, hD⟩
    · rw [e1, agree_cellRec hcl heq hD]
    · rw [e2, agree_cellKids hsz hcl heq hD]
  · intro b hb b' hb' hn hn' he
    apply b5 b hb b' hb' hn hn'
    rw [hcellOf b hb, hcellOf b' hb']; exact he
  · intro x
    rw [← hreach x, b6 x]
    constructor
    · rintro ⟨b, hb, hn, he⟩; exact ⟨b, hb, hn, by rw [← hcellOf b hb]; exact he⟩
    · rintro ⟨b, hb, hn, he⟩; exact ⟨b, hb, hn, by rw [hcellOf b hb]; exact he⟩
  · intro b hb
    have hr : isNameB b = false → PC.Reach Hf x0 (cellOf Hf cells b) := by
      intro hn
      rw [← hreach, b6]
      exact ⟨b, hb, hn, hcellOf b hb⟩
    obtain ⟨k1, k2⟩ := b7 b hb
    refine ⟨fun k e => ?_, fun k p e => ?_⟩
    · have := k1 k e
      rw [hcellOf b hb] at this
      rw [← hisAlt _ (hr (by rw [e]; rfl))]; exact this
    · have := k2 k p e
      rw [hcellOf b hb] at this
      rw [← hisAlt _ (hr (by rw [e]; rfl))]; exact this
  · intro nm
    rw [b8 nm]
    constructor
    · rintro ⟨x, c, ks, hx1, hx2⟩
      have hD := (hreach x).1 hx1
      exact ⟨x, c, ks, hD, by rw [← heq x hD]; exact hx2⟩
    · rintro ⟨x, c, ks, hx1, hx2⟩
      exact ⟨x, c, ks, (hreach x).2 hx1, by rw [heq x hx1]; exact hx2⟩
  · intro k
    rw [b10 k]
    constructor
    · rintro ⟨h1, cd, a, hc⟩
      have hk : k < tab.size := by
        obtain ⟨hwf, hroot⟩ := exportTable_wf hx
        have := ((freeTree_exactly_once hwf hroot).2.1 _).1 h1
        have := this.1.le hwf
        omega
      exact ⟨h1, cd, a, by rw [← heq _ (hcellsR k hk)]; exact hc⟩
    · rintro ⟨h1, cd, a, hc⟩
      have hk : k < tab.size := by
        obtain ⟨hwf, hroot⟩ := exportTable_wf hx
        have := ((freeTree_exactly_once hwf hroot).2.1 _).1 h1
        have := this.1.le hwf
        omega
      exact ⟨h1, cd, a, by rw [heq _ (hcellsR k hk)]; exact hc⟩

end

/-! ## the final heap of the model is a `FinalHeap` -/

theorem finalHeap_of_fmt {h0 : Array PC.Cell} {rk hd : Nat → Nat} (wf : PC.WfHeap h0 rk hd)
    {root fuel : Nat} (hr : root < h0.size) (hdr : hd root = root) (hf : h0.size ≤ fuel)
    (one free : Bool) (nameBlk : Nat → Nat) (nu eu : Bool) :
    FinalHeap h0 rk hd one free (PC.pass1 fuel h0 root one free).1
      (PC.findMinimalTranslation fuel h0 root one free nameBlk nu eu).heap
      (PC.findMinimalTranslation fuel h0 root one free nameBlk nu eu).root := by
  obtain ⟨p1, p2, _, p4, _, _⟩ := PC.pass1_facts wf hr hdr hf one free
  obtain ⟨q1, q2, _, _, _⟩ := PC.pass2_facts wf hr hdr hf one free nameBlk
  rw [PC.fmt_heap, PC.fmt_root, p2]
  refine ⟨wf, p1, q1.size, ?_, ?_, ⟨root, hr, hdr, p4, rfl⟩⟩
  · intro i
    rcases q1.cells i with e | ⟨nm, c, ks, hc, e1, e2⟩
    · exact Or.inl e
    · exact Or.inr ⟨nm, c, ks, hc, e1, e2⟩
  · intro z hz nm c ks hc
    exact (q2 z hz).1 nm c ks hc

end Yaep.NG
