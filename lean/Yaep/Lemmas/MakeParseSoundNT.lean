import Yaep.Lemmas.MakeParseSoundPres
/-!
# Soundness of the model of `make_parse`, part 6: a nonterminal before the dot; the whole loop
-/
namespace Yaep.MP
open Yaep

theorem Good.of_proj {g : Grammar} {ok : Nat → Nat → Nat → Bool} {toks : List Nat} {s' : St}
    {H : Array MNode} {S : Array PState} {K : List Nat} {frs : List Frame}
    (hh : s'.heap = H) (hs : s'.states = S) (hk : s'.stack = K)
    (h0 : H.getD nilId .nil = .nil) (h1 : H.getD errId .nil = .err)
    (ht : TopOK g ok toks H S K frs) : Good g ok toks s' :=
  ⟨by rw [hh]; exact h0, by rw [hh]; exact h1, Or.inr ⟨frs, by rw [hh, hs, hk]; exact ht⟩⟩

/-- what the chosen candidate is: a completed item for `A` in the current set whose origin holds
the item of the state with the dot before `A` -/
theorem cand_facts {g : Grammar} {ok : Nat → Nat → Nat → Bool} {toks : List Nat} {c : Ctx}
    (hc : CtxOK g ok toks c) {L : Loc} {pl i A : Nat}
    (hi : i ∈ reduces c (c.sets.getD pl #[]) A)
    (hf : checkFound c L ((c.sets.getD pl #[]).getD i default).origin = true) :
    ∃ sr so rl' kids, (c.sets.getD pl #[]).getD i default = ⟨sr, rl'.rhs.length, so⟩ ∧
      g.rules[sr]? = some rl' ∧ c.rule sr = rl' ∧ rl'.lhs = A ∧
      EarleyF g ok toks pl ⟨sr, rl'.rhs.length, so⟩ ∧
      PT.ValidAt g toks (.node sr kids) (.n A) so pl ∧
      PT.ValidListAt g toks kids rl'.rhs so pl ∧
      EarleyF g ok toks so ⟨L.rule, L.pos, L.orig⟩ := by
  obtain ⟨m1, m2, m3⟩ := mem_reduces hi
  have hE := hc.sound pl i m1
  obtain ⟨ci, c1, c2⟩ := checkFound_spec hf
  have hE2 := hc.sound _ ci c1
  rw [c2] at hE2
  generalize (c.sets.getD pl #[]).getD i default = sit at *
  obtain ⟨sr, sd, so⟩ := sit
  obtain ⟨rl', hr', _⟩ := hE.sound
  simp only at hr' m2 m3 hE2
  have hrule := hc.rule_eq hr'
  rw [hrule] at m2 m3
  subst m2
  obtain ⟨_, kids, hk⟩ := hE.complete_valid hr'
  exact ⟨sr, so, rl', kids, rfl, hr', hrule, m3, hE, .node hr' m3 hk, hk, hE2⟩

theorem order_getD_none_of_le {rl : Rule} (hok : rl.TranslOK) {q : Nat} (h : rl.rhs.length ≤ q) :
    rl.order.getD q none = none := by
  rw [List.getD_eq_getElem?_getD, List.getElem?_eq_none (by rw [hok.len]; exact h)]; rfl

/-- a new state on top of the stack: nothing of its right-hand side is processed yet -/
theorem top_push {g : Grammar} {ok : Nat → Nat → Nat → Bool} {toks : List Nat}
    {h' : Array MNode} {sts'' : Array PState} (hwf : g.translWF = true)
    {Ysid sid : Nat} {rest : List Nat} {fr : Frame} {frs : List Frame} {hi : Nat} {place : Nat × Nat}
    {A so fin : Nat} {Y : PState} {rl' : Rule}
    (hb : BelowOK g ok toks h' sts'' (sid :: rest) (fr :: frs) hi Ysid place A so fin)
    (hY : sts''.getD Ysid default = Y) (hYs : Ysid < sts''.size) (hpar : Y.parent < Ysid)
    (hr' : g.rules[Y.rule]? = some rl') (hlhs : rl'.lhs = A) (hpos : Y.pos = rl'.rhs.length)
    (horig : Y.orig = so) (hpl : Y.plInd = fin)
    (hE : EarleyF g ok toks fin ⟨Y.rule, rl'.rhs.length, so⟩)
    (hpa : (sts''.getD Y.parent default).anode = some place.1) (hpd : Y.parentDisp = place.2)
    (hhi : hi ≤ h'.size)
    (hcase : (∃ node nm, Y.anode = some node ∧ node = hi ∧ node < h'.size ∧ rl'.anode = some nm ∧
        h'.getD node .nil = .anode nm rl'.cost (Array.replicate (rl'.transLen + 1) none) ∧
        getKid h' place.1 place.2 = some node) ∨
      (Y.anode = none ∧ rl'.anode = none ∧ getKid h' place.1 place.2 = none)) :
    ∃ frY, TopOK g ok toks h' sts'' (Ysid :: sid :: rest) (frY :: fr :: frs) := by
  have hok := Grammar.translWF_rule hwf hr'
  have hvalid : PT.ValidListAt g toks [] (rl'.rhs.drop Y.pos)
      (if Y.pos = 0 then Y.orig else Y.plInd) fin := by
    rw [hpos, List.drop_length]
    have : (if rl'.rhs.length = 0 then Y.orig else Y.plInd) = fin := by
      split
      · rename_i h0
        rw [h0] at hE
        rw [horig]; exact hE.dot_zero
      · exact hpl
    rw [this]; exact .nil
  have hear : Y.pos ≠ 0 → EarleyF g ok toks Y.plInd ⟨Y.rule, Y.pos, Y.orig⟩ := by
    intro _; rw [hpl, hpos, horig]; exact hE
  rcases hcase with ⟨node, nm, c1, c2, c3, c4, c5, c6⟩ | ⟨c1, c2, c3⟩
  · refine ⟨{ fin := fin, lo := node + 1, done := [] }, ?_⟩
    simp only [TopOK]
    rw [hY, hpa, c1]
    refine ⟨hYs, hpar, rl', place.1, hr', by rw [hpos]; exact Nat.le_refl _, rfl, hear, hvalid,
      by show node + 1 ≤ h'.size; omega, ?_⟩
    simp only
    refine ⟨Nat.lt_succ_self _, ⟨nm, _, c4, c5, by simp, ?_⟩, by rw [hpd]; exact c6, ?_⟩
    · intro d _
      refine ⟨?_, ?_⟩
      · intro q hq1 hq2
        rw [order_getD_none_of_le hok (by omega)] at hq2; cases hq2
      · intro _
        simp only [Array.getD_eq_getD_getElem?, Array.getElem?_replicate]
        split <;> rfl
    · rw [hpd, hlhs, horig, c2]; exact hb
  · refine ⟨{ fin := fin, lo := hi, done := [] }, ?_⟩
    simp only [TopOK]
    rw [hY, hpa, c1]
    refine ⟨hYs, hpar, rl', place.1, hr', by rw [hpos]; exact Nat.le_refl _, rfl, hear, hvalid,
      hhi, ?_⟩
    simp only
    refine ⟨⟨c2, ?_, ?_⟩, ?_⟩
    · intro q d hq1 hq2
      rw [order_getD_none_of_le hok (by omega)] at hq2; cases hq2
    · intro _; rw [hpd]; exact c3
    · rw [hpd, hlhs, horig]; exact hb

theorem ntS0_state {s : St} {sid : Nat} (h : sid < s.states.size) :
    (ntS0 s sid).state sid = { s.state sid with pos := (s.state sid).pos - 1 } :=
  state_setState_same _ h

/-- where the pushed state looks for its parent abstract node -/
theorem childState_parent {c : Ctx} {s : St} {sid A d pa : Nat} {sit : Item} {an' : Option Nat}
    {sts'' : Array PState} {st' : PState} (t1 : sid < s.states.size)
    (t2 : (s.state sid).parent < sid)
    (t5 : (s.states.getD (s.state sid).parent default).anode = some pa)
    (hu : StsUpd s.states sts'' sid st') (ha : st'.anode = (s.state sid).anode) :
    (childState (ntS0 s sid) (ntLoc c s sid A) sit d an').parent < s.states.size ∧
    (sts''.getD (childState (ntS0 s sid) (ntLoc c s sid A) sit d an').parent default).anode =
      some (placeOf (s.state sid) pa d).1 ∧
    (childState (ntS0 s sid) (ntLoc c s sid A) sit d an').parentDisp = (placeOf (s.state sid) pa d).2 := by
  have hs0 := ntS0_state (s := s) t1
  unfold childState placeOf
  show (match ((ntS0 s sid).state sid).anode with
      | none => ((ntS0 s sid).state sid).parent | some _ => sid) < _ ∧
    (sts''.getD (match ((ntS0 s sid).state sid).anode with
      | none => ((ntS0 s sid).state sid).parent | some _ => sid) default).anode = _ ∧
    (match ((ntS0 s sid).state sid).anode with
      | none => (s.state sid).parentDisp | some _ => d) = _
  rw [hs0]
  simp only
  cases han : (s.state sid).anode with
  | none =>
    simp only
    refine ⟨by omega, ?_, trivial⟩
    rw [hu.other _ t2]; exact t5
  | some an =>
    simp only
    refine ⟨t1, ?_, trivial⟩
    rw [hu.same, ha, han]

theorem pres_nt {g : Grammar} {ok : Nat → Nat → Nat → Bool} {toks : List Nat} {c : Ctx} {s : St}
    (hc : CtxOK g ok toks c) (hg : GrOK g) {sid : Nat} {rest : List Nat} {frs : List Frame}
    (h0 : s.heap.getD nilId .nil = .nil) (h1 : s.heap.getD errId .nil = .err)
    (hst : s.stack = sid :: rest) (htop : TopOK g ok toks s.heap s.states (sid :: rest) frs)
    (hpos : (s.state sid).pos ≠ 0) {rl : Rule} {A : Nat}
    (hr : g.rules[(s.state sid).rule]? = some rl)
    (hX : rl.rhs[(s.state sid).pos - 1]? = some (.n A)) :
    ((∀ i ∈ reduces c (c.sets.getD (s.state sid).plInd #[]) A,
        checkFound c (ntLoc c s sid A)
          ((c.sets.getD (s.state sid).plInd #[]).getD i default).origin = false) ∧
      (step c s).bad = true) ∨
    (Good g ok toks (step c s) ∧ (step c s).bad = s.bad ∧ StepShape g s (step c s) sid rest) := by
  cases frs with
  | nil => simp [TopOK] at htop
  | cons fr frs =>
  have htop' := htop
  simp only [TopOK] at htop'
  have est : s.states.getD sid default = s.state sid := rfl
  rw [est] at htop'
  obtain ⟨t1, t2, rl', pa, t3, t4, t5, t6, _, t8, _⟩ := htop'
  rw [hr] at t3; injection t3 with t3; subst t3
  have hrule := hc.rule_eq hr
  have t5' : (s.state (s.state sid).parent).anode = some pa := t5
  rw [step_nt' hst hpos (by rw [hrule]; exact getD_of_getElem? hX)]
  rcases candLoop_zero (L := ntLoc c s sid A) (set := c.sets.getD (s.state sid).plInd #[]) hc.one
    (reduces c (c.sets.getD (s.state sid).plInd #[]) A) (ntS0 s sid) with ⟨hz, hall⟩ | ⟨i, hi, hfound, b, hcl⟩
  · rw [hz]; left; exact ⟨hall, rfl⟩
  · rw [hcl]
    right
    obtain ⟨sr, so, rl', kids, hsit, hr', hrule', hlhs, hE, hkid, hkids, hE2⟩ := cand_facts hc hi hfound
    rw [hsit] at hcl ⊢
    show Good g ok toks
        { (candidate c (ntLoc c s sid A) ⟨sr, rl'.rhs.length, so⟩ 0 [] (ntS0 s sid)).1 with amb := b } ∧
      ({ (candidate c (ntLoc c s sid A) ⟨sr, rl'.rhs.length, so⟩ 0 [] (ntS0 s sid)).1 with amb := b } : St).bad
        = s.bad ∧
      StepShape g s
        { (candidate c (ntLoc c s sid A) ⟨sr, rl'.rhs.length, so⟩ 0 [] (ntS0 s sid)).1 with amb := b } sid rest
    have hpp1 : (s.state sid).pos - 1 + 1 = (s.state sid).pos := by omega
    have hs0 := ntS0_state (s := s) t1
    have hheap0 : (ntS0 s sid).heap = s.heap := rfl
    have hsz0 : sid < (ntS0 s sid).states.size := by simp [ntS0]; exact t1
    have hLd : (ntLoc c s sid A).disp = rl.order.getD ((s.state sid).pos - 1) none := by
      simp only [ntLoc, hrule]
    have hLp : (ntLoc c s sid A).parentAnode = some pa := t5'
    have hE2' : EarleyF g ok toks so ⟨(s.state sid).rule, (s.state sid).pos - 1, (s.state sid).orig⟩ := hE2
    -- the states after `orig_state->pl_ind = sit_orig`
    have hupd : StsUpd s.states
        ((ntS0 s sid).states.set! sid { (ntS0 s sid).state sid with plInd := so }) sid
        { s.state sid with pos := (s.state sid).pos - 1, plInd := so } := by
      have u1 : StsUpd s.states (ntS0 s sid).states sid _ := StsUpd.set _ t1
      have u2 := StsUpd.set (sts := (ntS0 s sid).states)
        { (ntS0 s sid).state sid with plInd := so } hsz0
      rw [hs0] at u2 ⊢
      exact u1.trans u2
    cases hd : rl.order.getD ((s.state sid).pos - 1) none with
    | none =>
      -- the symbol is not translated
      have hskip := candidate_skip (c := c) (L := ntLoc c s sid A) (sit := ⟨sr, rl'.rhs.length, so⟩)
        (s := ntS0 s sid) (Or.inr (by rw [hLd]; exact hd))
      have hadv := top_advance (h := s.heap) (h1 := s.heap) (h' := s.heap) (node := 0) (kid := .node sr kids)
        (mid := so) (X := .n A) hg.twf htop hpos hr t5 hX hupd rfl rfl rfl rfl rfl rfl
        (by rw [est]; exact hkid) hE2' (fun _ => rfl) ⟨Nat.le_refl _, fun _ _ => rfl⟩
        (Or.inl ⟨by rw [est]; exact hd, rfl⟩)
      have k1 : (candidate c (ntLoc c s sid A) ⟨sr, rl'.rhs.length, so⟩ 0 [] (ntS0 s sid)).1.heap = s.heap := by
        rw [hskip]; rfl
      have k2 : (candidate c (ntLoc c s sid A) ⟨sr, rl'.rhs.length, so⟩ 0 [] (ntS0 s sid)).1.states =
          (ntS0 s sid).states.set! sid { (ntS0 s sid).state sid with plInd := so } := by
        rw [hskip]; rfl
      have k3 : (candidate c (ntLoc c s sid A) ⟨sr, rl'.rhs.length, so⟩ 0 [] (ntS0 s sid)).1.stack =
          sid :: rest := by
        rw [hskip]; exact hst
      have k4 : (candidate c (ntLoc c s sid A) ⟨sr, rl'.rhs.length, so⟩ 0 [] (ntS0 s sid)).1.bad = s.bad := by
        rw [hskip]; rfl
      exact ⟨Good.of_proj k1 k2 k3 h0 h1 hadv.1, k4,
        Or.inr (Or.inl ⟨_, k3, by rw [k2]; exact hupd, hpp1⟩)⟩
    | some d =>
      have hLd' : (ntLoc c s sid A).disp = some d := by rw [hLd]; exact hd
      have hplace : childPlace (ntS0 s sid) (ntLoc c s sid A) pa d = placeOf (s.state sid) pa d := by
        unfold childPlace placeOf
        show (match ((ntS0 s sid).state sid).anode with
          | none => (pa, (s.state sid).parentDisp) | some a => (a, d)) = _
        rw [hs0]
        cases (s.state sid).anode <;> rfl
      have hS1size : ((ntS0 s sid).states.set! sid { (ntS0 s sid).state sid with plInd := so }).size =
          s.states.size := by simp [ntS0]
      cases hn : rl'.anode with
      | some name =>
        -- the rule of the candidate has an abstract node: new cell, new state
        have han := candidate_anode (c := c) (L := ntLoc c s sid A) (sit := ⟨sr, rl'.rhs.length, so⟩)
          (s := ntS0 s sid) hc.one hLp hLd' (by rw [hrule']; exact hn) hsz0
        simp only at han
        obtain ⟨n1, n2, n3, n4⟩ := han
        rw [hplace, hrule', hheap0] at n1
        have hupd2 := hupd.push t1 (childState (ntS0 s sid) (ntLoc c s sid A) ⟨sr, rl'.rhs.length, so⟩ d
          (some (ntS0 s sid).heap.size))
        obtain ⟨b1, b2, b3, b4, ⟨nm0, c0, ks0, b5, b6⟩, _⟩ := top_to_below (h := s.heap)
          (h' := placeTranslation (s.heap.push (.anode name rl'.cost (Array.replicate (rl'.transLen + 1) none)))
            (placeOf (s.state sid) pa d) s.heap.size)
          (sb := s.states.size) (mid := so) hg.twf htop hpos hr t5 hX (by rw [est]; exact hd) hupd2
          rfl rfl rfl rfl rfl rfl rfl hE2' t1
        rw [est] at b1 b2 b3 b4 b5 b6
        obtain ⟨p1, p2, p3⟩ := childState_parent (c := c) (A := A) (sit := ⟨sr, rl'.rhs.length, so⟩) (d := d)
          (an' := some (ntS0 s sid).heap.size) t1 t2 t5 hupd2 rfl
        generalize placeOf (s.state sid) pa d = place at *
        obtain ⟨pn, pi⟩ := place
        simp only at b2 b3 b4 b5 b6 p2 p3
        have b4' : 2 ≤ pn := b4
        have hcell1 : (s.heap.push (MNode.anode name rl'.cost (Array.replicate (rl'.transLen + 1) none))).getD pn .nil =
            .anode nm0 c0 ks0 := by rw [getD_push_lt _ _ _ _ b3]; exact b5
        have hk1 : getKid (s.heap.push (MNode.anode name rl'.cost (Array.replicate (rl'.transLen + 1) none))) pn pi =
            none := by rw [getKid_of_cell hcell1, ← getKid_of_cell b5]; exact b2
        obtain ⟨q1, q2, q3, q4⟩ := place_spec (node := s.heap.size) hcell1 b6 (by simp; omega) hk1
        have hbelow := b1 (SlotFrame.trans (push_slotFrame (pn, pi) (Nat.le_refl _) b3)
          (place_slotFrame hcell1 b6 (by simp; omega) hk1))
        obtain ⟨frY, hY⟩ := top_push (Ysid := s.states.size) (rl' := rl') hg.twf hbelow
          (by rw [← hS1size, getD_push_eq]) (by simp [ntS0]) p1 hr' hlhs rfl rfl rfl hE p2 p3
          (by rw [q1]; simp)
          (Or.inl ⟨s.heap.size, name, rfl, rfl, by rw [q1]; simp, hn,
            by rw [q2 _ (by omega), getD_push_eq], q4⟩)
        have n3' : (candidate c (ntLoc c s sid A) ⟨sr, rl'.rhs.length, so⟩ 0 [] (ntS0 s sid)).1.stack =
            s.states.size :: sid :: rest := by
          rw [n3]; show _ :: s.stack = _; rw [hst]; simp [ntS0]
        refine ⟨Good.of_proj (frs := frY :: fr :: frs) n1 n2 n3' ?_ ?_ hY, n4,
          Or.inr (Or.inr ⟨_, s.states.size, n3', t1, by rw [n2]; exact hupd2, hpp1, ?_⟩)⟩
        · rw [q2 _ (by show 0 ≠ pn; omega), getD_push_lt _ _ _ _ (by show 0 < _; omega)]; exact h0
        · rw [q2 _ (by show 1 ≠ pn; omega), getD_push_lt _ _ _ _ (by show 1 < _; omega)]; exact h1
        · have hy := getD_push_eq ((ntS0 s sid).states.set! sid { (ntS0 s sid).state sid with plInd := so })
            (childState (ntS0 s sid) (ntLoc c s sid A) ⟨sr, rl'.rhs.length, so⟩ d (some (ntS0 s sid).heap.size))
            default
          rw [hS1size] at hy
          have hy' : (candidate c (ntLoc c s sid A) ⟨sr, rl'.rhs.length, so⟩ 0 [] (ntS0 s sid)).1.states.getD
              s.states.size default = childState (ntS0 s sid) (ntLoc c s sid A) ⟨sr, rl'.rhs.length, so⟩ d
                (some (ntS0 s sid).heap.size) := by rw [n2]; exact hy
          rw [hy']
          exact le_maxRhs (List.mem_of_getElem? hr')
      | none =>
        by_cases hdot : rl'.rhs.length = 0
        · -- an empty rule without abstract node: the empty node
          have hnil := candidate_nil (c := c) (L := ntLoc c s sid A) (sit := ⟨sr, rl'.rhs.length, so⟩)
            (s := ntS0 s sid) hLp hLd' (by rw [hrule']; exact hn) hdot hsz0
          simp only at hnil
          obtain ⟨n1, n2, n3, n4⟩ := hnil
          rw [hplace, hheap0] at n1
          have htr : translate g (.node sr kids) = .nil :=
            (translate_passthrough hg.twf hr' hn kids).2 (fun p s' hp => by
              have hl := (Grammar.translWF_rule hg.twf hr').len
              have := (List.getElem?_eq_some_iff.mp hp).1
              omega)
          have hadv := top_advance (h := s.heap) (h1 := s.heap)
            (h' := placeTranslation s.heap (placeOf (s.state sid) pa d) nilId) (node := nilId)
            (kid := .node sr kids) (mid := so) (X := .n A) hg.twf htop hpos hr t5 hX hupd
            rfl rfl rfl rfl rfl rfl (by rw [est]; exact hkid) hE2' (fun _ => rfl)
            ⟨Nat.le_refl _, fun _ _ => rfl⟩
            (Or.inr ⟨d, by rw [est]; exact hd, by rw [est], fun h'' _ _ _ _ => by rw [htr]; simp [Den]⟩)
          have n3' : (candidate c (ntLoc c s sid A) ⟨sr, rl'.rhs.length, so⟩ 0 [] (ntS0 s sid)).1.stack =
              sid :: rest := by rw [n3]; exact hst
          exact ⟨Good.of_proj n1 n2 n3' (by rw [hadv.2.1]; exact h0)
            (by rw [hadv.2.2]; exact h1) hadv.1, n4,
            Or.inr (Or.inl ⟨_, n3', by rw [n2]; exact hupd, hpp1⟩)⟩
        · -- a rule without abstract node: a new state that passes its translation through
          have hps := candidate_pass (c := c) (L := ntLoc c s sid A) (sit := ⟨sr, rl'.rhs.length, so⟩)
            (s := ntS0 s sid) hLp hLd' (by rw [hrule']; exact hn) hdot hsz0
          simp only at hps
          obtain ⟨n1, n2, n3, n4⟩ := hps
          rw [hheap0] at n1
          have hupd2 := hupd.push t1 (childState (ntS0 s sid) (ntLoc c s sid A) ⟨sr, rl'.rhs.length, so⟩ d none)
          obtain ⟨b1, b2, b3, b4, _, _⟩ := top_to_below (h := s.heap) (h' := s.heap)
            (sb := s.states.size) (mid := so) hg.twf htop hpos hr t5 hX (by rw [est]; exact hd) hupd2
            rfl rfl rfl rfl rfl rfl rfl hE2' t1
          rw [est] at b1 b2 b3 b4
          obtain ⟨p1, p2, p3⟩ := childState_parent (c := c) (A := A) (sit := ⟨sr, rl'.rhs.length, so⟩) (d := d)
            (an' := none) t1 t2 t5 hupd2 rfl
          have hbelow := b1 (SlotFrame.of_agree _ (fun _ _ => rfl) b3)
          obtain ⟨frY, hY⟩ := top_push (Ysid := s.states.size) (rl' := rl') hg.twf hbelow
            (by rw [← hS1size, getD_push_eq]) (by simp [ntS0]) p1 hr' hlhs rfl rfl rfl hE p2 p3
            (Nat.le_refl _) (Or.inr ⟨rfl, hn, b2⟩)
          have n3' : (candidate c (ntLoc c s sid A) ⟨sr, rl'.rhs.length, so⟩ 0 [] (ntS0 s sid)).1.stack =
              s.states.size :: sid :: rest := by
            rw [n3]; show _ :: s.stack = _; rw [hst]; simp [ntS0]
          refine ⟨Good.of_proj (frs := frY :: fr :: frs) n1 n2 n3' h0 h1 hY, n4,
            Or.inr (Or.inr ⟨_, s.states.size, n3', t1, by rw [n2]; exact hupd2, hpp1, ?_⟩)⟩
          have hy := getD_push_eq ((ntS0 s sid).states.set! sid { (ntS0 s sid).state sid with plInd := so })
            (childState (ntS0 s sid) (ntLoc c s sid A) ⟨sr, rl'.rhs.length, so⟩ d none) default
          rw [hS1size] at hy
          have hy' : (candidate c (ntLoc c s sid A) ⟨sr, rl'.rhs.length, so⟩ 0 [] (ntS0 s sid)).1.states.getD
              s.states.size default = childState (ntS0 s sid) (ntLoc c s sid A) ⟨sr, rl'.rhs.length, so⟩ d
                none := by rw [n2]; exact hy
          rw [hy']
          exact le_maxRhs (List.mem_of_getElem? hr')

/-! ## the main loop -/

theorem step_inv {g : Grammar} {ok : Nat → Nat → Nat → Bool} {toks : List Nat} {c : Ctx} {s : St}
    (hc : CtxOK g ok toks c) (hg : GrOK g) (hinv : MInv g ok toks s) : MInv g ok toks (step c s) := by
  rcases hinv with hb | hgood
  · exact Or.inl (step_bad hc.one hb)
  · rcases hgood.main with ⟨hempty, _⟩ | ⟨frs, htop⟩
    · have : step c s = s := by unfold step; rw [hempty]
      rw [this]; exact Or.inr hgood
    · cases hst : s.stack with
      | nil => rw [hst] at htop; simp [TopOK] at htop
      | cons sid rest =>
        rw [hst] at htop
        by_cases hpos : (s.state sid).pos = 0
        · exact Or.inr (pres_pop hc hg hgood.h0 hgood.h1 hst htop hpos).1
        · cases frs with
          | nil => simp [TopOK] at htop
          | cons fr frs =>
            have htop' := htop
            simp only [TopOK] at htop'
            obtain ⟨_, _, rl, _, t3, t4, _⟩ := htop'
            have t3' : g.rules[(s.state sid).rule]? = some rl := t3
            have t4' : (s.state sid).pos ≤ rl.rhs.length := t4
            have hlt : (s.state sid).pos - 1 < rl.rhs.length := by omega
            cases hX : rl.rhs[(s.state sid).pos - 1] with
            | t a =>
              exact Or.inr (pres_term hc hg hgood.h0 hgood.h1 hst htop hpos t3'
                (by rw [List.getElem?_eq_getElem hlt, hX])).1
            | n A =>
              rcases pres_nt hc hg hgood.h0 hgood.h1 hst htop hpos t3'
                (by rw [List.getElem?_eq_getElem hlt, hX]) with ⟨_, hb⟩ | ⟨hgd, _⟩
              · exact Or.inl hb
              · exact Or.inr hgd

theorem run_inv {g : Grammar} {ok : Nat → Nat → Nat → Bool} {toks : List Nat} {c : Ctx}
    (hc : CtxOK g ok toks c) (hg : GrOK g) : ∀ (fuel : Nat) (s s' : St), MInv g ok toks s →
      run c fuel s = some s' → MInv g ok toks s'
  | 0, s, s', hinv, hr => by
    unfold run at hr
    split at hr
    · injection hr with hr; rw [← hr]; exact hinv
    · cases hr
  | fuel + 1, s, s', hinv, hr => by
    unfold run at hr
    split at hr
    · injection hr with hr; rw [← hr]; exact hinv
    · exact run_inv hc hg fuel _ _ (step_inv hc hg hinv) hr

theorem init_inv {g : Grammar} {ok : Nat → Nat → Nat → Bool} {toks : List Nat} {c : Ctx}
    (hc : CtxOK g ok toks c) (hg : GrOK g) {s0 : St} (hi : init c = some s0) : Good g ok toks s0 := by
  unfold init at hi
  simp only at hi
  split at hi
  · cases hi
  · rename_i sit hsit
    split at hi
    · cases hi
    · rename_i hcond
      injection hi with hi
      simp only [Bool.or_eq_true, bne_iff_ne, ne_eq, not_or, Decidable.not_not] at hcond
      obtain ⟨⟨ho, hlhs⟩, hdot⟩ := hcond
      have hpl : c.sets.size - 1 = toks.length := by rw [hc.size]; rfl
      rw [hpl] at hsit hi
      have h0lt : 0 < (c.sets.getD toks.length #[]).size := by
        rcases Nat.eq_zero_or_pos (c.sets.getD toks.length #[]).size with h | h
        · rw [Array.getElem?_eq_none (by omega)] at hsit; cases hsit
        · exact h
      have hsit' : (c.sets.getD toks.length #[]).getD 0 default = sit := by
        rw [Array.getD_eq_getD_getElem?, hsit]; rfl
      have hE := hc.sound toks.length 0 h0lt
      rw [hsit'] at hE
      obtain ⟨rl0, hr0, _⟩ := hE.sound
      have hrule := hc.rule_eq hr0
      rw [hrule] at hlhs hdot
      rw [hc.axiomN] at hlhs
      obtain ⟨sr, sd, so⟩ := sit
      simp only at ho hdot hr0 hlhs
      subst ho; subst hdot
      have hok := Grammar.translWF_rule hg.twf hr0
      subst hi
      refine ⟨rfl, rfl, Or.inr ⟨[{ fin := toks.length, lo := 3, done := [] }], ?_⟩⟩
      simp only [TopOK]
      refine ⟨by simp, by simp, rl0, rootId, hr0, by simp, by simp, ?_, ?_, by simp, ?_⟩
      · intro _; simpa using hE
      · have hcur : (if rl0.rhs.length = 0 then 0 else toks.length) = toks.length := by
          split
          · rename_i hz
            rw [hz] at hE
            exact hE.dot_zero
          · rfl
        show PT.ValidListAt g toks [] (rl0.rhs.drop rl0.rhs.length)
          (if rl0.rhs.length = 0 then 0 else toks.length) toks.length
        rw [hcur, List.drop_length]
        exact .nil
      · simp only [List.getD_cons_zero, Array.getD_eq_getD_getElem?]
        refine ⟨⟨hg.axiomPass _ _ hr0 hlhs, ?_, ?_⟩, ?_⟩
        · intro q d hq1 hq2
          rw [order_getD_none_of_le hok hq1] at hq2; cases hq2
        · intro _; rfl
        · simp only [BelowOK]
          refine ⟨?_, ?_, hlhs, ?_, ?_, ?_, #[none], ?_, ?_⟩ <;> first | rfl | trivial | simp [rootId]

end Yaep.MP
