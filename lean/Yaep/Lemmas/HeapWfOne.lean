import Yaep.Lemmas.HeapWfMain
import Yaep.Lemmas.MakeParseSoundMain
/-!
# The heaps of the model of `make_parse` are well formed, part 10: one-parse mode

The same invariant `HInv`, carried next to the soundness invariant `Good` of one-parse mode
(`Lemmas/MakeParseSoundInv.lean`), which supplies the structural facts (`TopOK.facts`).  In this mode
no ALT cell is ever built, nothing is shared but the NIL / ERROR cells; `HInv` does not need to know
that.
-/
namespace Yaep.MP
open Yaep

section
variable {g : Grammar} {ok : Nat → Nat → Nat → Bool} {toks : List Nat}

/-- the states below the top are sorted, their parents are below them -/
theorem BelowOK.lt_facts {h : Array MNode} {sts : Array PState} :
    ∀ {rest : List Nat} {frs : List Frame} {hi sb : Nat} {tgt : Nat × Nat} {A cLo cFin : Nat},
      BelowOK g ok toks h sts rest frs hi sb tgt A cLo cFin →
      ∀ y ∈ rest, y < sb ∧ (sts.getD y default).parent < y
  | [], _, _, _, _, _, _, _, _, y, hy => by cases hy
  | sid :: rest, [], _, _, _, _, _, _, hb, _, _ => by simp [BelowOK] at hb
  | sid :: rest, fr :: frs, hi, sb, tgt, A, cLo, cFin, hb, y, hy => by
    simp only [BelowOK] at hb
    obtain ⟨h1, h2, rl, d, pa, _, _, _, _, _, _, _, hm⟩ := hb
    have hrec : ∀ z ∈ rest, z < sid ∧ (sts.getD z default).parent < z := by
      cases han : (sts.getD sid default).anode with
      | some an =>
        rw [han] at hm
        exact BelowOK.lt_facts hm.2.2.2.2.2
      | none =>
        rw [han] at hm
        exact BelowOK.lt_facts hm.2.2.2
    rcases List.mem_cons.mp hy with rfl | hy'
    · exact ⟨h1, h2⟩
    · obtain ⟨a1, a2⟩ := hrec y hy'
      exact ⟨by omega, a2⟩

/-- what the invariant of one-parse mode supplies about the top state -/
theorem TopOK.facts (hwf : g.translWF = true) {s : St} {X : Nat} {rest : List Nat} {frs : List Frame}
    (hst : s.stack = X :: rest) (htop : TopOK g ok toks s.heap s.states (X :: rest) frs) :
    ∃ rl pa, TopFacts g s X ∧ g.rules[(s.state X).rule]? = some rl ∧
      (s.state X).pos ≤ rl.rhs.length ∧ (s.state (s.state X).parent).anode = some pa ∧
      ((s.state X).pos ≠ 0 → EarleyF g ok toks (s.state X).plInd
        ⟨(s.state X).rule, (s.state X).pos, (s.state X).orig⟩) ∧
      (∀ a, (s.state X).anode = some a → ∃ nm cc ks, s.heap.getD a .nil = .anode nm cc ks) := by
  cases frs with
  | nil => simp [TopOK] at htop
  | cons fr frs =>
    simp only [TopOK] at htop
    obtain ⟨t1, t2, rl, pa, t3, t4, t5, t6, _, _, hm⟩ := htop
    have hbel : ∀ y ∈ rest, y < X ∧ (s.states.getD y default).parent < y := by
      cases han : (s.states.getD X default).anode with
      | some an =>
        rw [han] at hm
        exact BelowOK.lt_facts hm.2.2.2
      | none =>
        rw [han] at hm
        exact BelowOK.lt_facts hm.2
    refine ⟨rl, pa, ⟨?_, ?_, ?_⟩, t3, t4, t5, t6, ?_⟩
    · intro x hx
      rw [hst] at hx
      rcases List.mem_cons.mp hx with rfl | hx'
      · exact t1
      · have := (hbel x hx').1; omega
    · intro y hy
      rw [hst] at hy
      rcases List.mem_cons.mp hy with rfl | hy'
      · omega
      · obtain ⟨a1, a2⟩ := hbel y hy'; omega
    · intro a rl' d ha hr' hpos hd
      rw [ha] at hm
      obtain ⟨_, ⟨nm, ks, _, c2, _, c4⟩, _⟩ := hm
      have hr'' : g.rules[(s.states.getD X default).rule]? = some rl := t3
      rw [hr'] at hr''; injection hr'' with hr''; subst hr''
      rw [getKid_of_cell c2]
      apply (c4 d (by simp)).2
      intro q hq hq'
      have := (Grammar.translWF_rule hwf hr').inj _ _ _ (order_getD_eq_some.mp hq')
        (order_getD_eq_some.mp hd)
      omega
    · intro a ha
      have ha' : (s.states.getD X default).anode = some a := ha
      rw [ha'] at hm
      obtain ⟨_, ⟨nm, ks, _, c2, _⟩, _⟩ := hm
      exact ⟨nm, _, ks, c2⟩

end

/-! ## the steps -/

theorem stepTerm_table {c : Ctx} {sid : Nat} {st : PState} {pos : Nat} {disp : Option Nat} {a : Nat}
    {pa : Option Nat} {s : St} : (stepTerm c sid st pos disp a pa s).table = s.table := by
  unfold stepTerm
  cases pa <;> cases disp <;> simp only [setState_table]
  split
  · rfl
  · split <;> rfl

section
variable {g : Grammar} {ok : Nat → Nat → Nat → Bool} {toks : List Nat} {c : Ctx}

theorem hstep_term1 (hc : CtxOK g ok toks c) (hwf : g.translWF = true) {s : St} {Γ : Gh}
    (hi : HSt g toks.length s Γ) {X : Nat} {rest : List Nat} {frs : List Frame}
    (hst : s.stack = X :: rest) (htop : TopOK g ok toks s.heap s.states (X :: rest) frs)
    {rlX : Rule} {a : Nat} (hr : g.rules[(s.state X).rule]? = some rlX)
    (hpos : (s.state X).pos ≠ 0) (hsym : rlX.rhs[(s.state X).pos - 1]? = some (.t a)) :
    ∃ Γ', HSt g toks.length (step c s) Γ' := by
  obtain ⟨rl0, pa, tf, hr0, _, hpa', hitem, _⟩ := htop.facts hwf hst
  rw [hr] at hr0; injection hr0 with hr0; subst hr0
  have hrule := hc.rule_eq hr
  have hstep := step_term (c := c) (a := a) hst hpos (by rw [hrule]; exact getD_of_getElem? hsym)
  rw [hpa', hrule] at hstep
  obtain ⟨p1, p2, _, p4⟩ := stepTerm_proj (c := c) (sid := X) (st := s.state X)
    (pos := (s.state X).pos - 1) (disp := rlX.order.getD ((s.state X).pos - 1) none) (a := a)
    (pa := pa) (s := s) hc.one
  have p3 : (stepTerm c X (s.state X) ((s.state X).pos - 1)
      (rlX.order.getD ((s.state X).pos - 1) none) a (some pa) s).table = s.table := stepTerm_table
  rw [← hstep] at p1 p2 p3 p4
  have hpp : (s.state X).pos - 1 + 1 = (s.state X).pos := by omega
  have hear := hitem hpos
  rw [← hpp] at hear
  obtain ⟨j0, hj0, _, _⟩ := hear.term_inv hr hsym
  have hr1 : (1 : Nat) < s.heap.size := by have : 2 < s.heap.size := hi.rootLt; omega
  refine hterm_core hi hst tf hr hpos hpa' (by omega) p1 p2 p3 ?_ ?_
  · intro hd
    rw [hd] at p4
    exact p4
  · intro d hd
    rw [hd] at p4
    by_cases he : (a == c.errT) = true
    · simp only [he, if_true] at p4
      have hn1 : isAlt s.heap errId = false := by unfold isAlt; rw [hi.err1]
      exact Or.inl ⟨errId, hr1, (fun nm c ks e => by rw [hi.err1] at e; cases e), hn1, p4⟩
    · have he' : (a == c.errT) = false := by simpa using he
      simp only [he', Bool.false_eq_true, if_false] at p4
      exact Or.inr ⟨_, _, p4⟩

/-- a nonterminal before the dot, one parse: the first candidate that passes the check is taken -/
theorem hstep_nt1 (hc : CtxOK g ok toks c) (hwf : g.translWF = true) (hcyc : ¬ Cyclic g)
    (hsr : g.symsInRange = true) {s : St} {Γ : Gh}
    (hi : HSt g toks.length s Γ) {X : Nat} {rest : List Nat} {frs : List Frame}
    (hst : s.stack = X :: rest) (htop : TopOK g ok toks s.heap s.states (X :: rest) frs)
    {rlX : Rule} {A : Nat} (hr : g.rules[(s.state X).rule]? = some rlX)
    (hpos : (s.state X).pos ≠ 0) (hsym : rlX.rhs[(s.state X).pos - 1]? = some (.n A)) :
    (step c s).bad = true ∨ ∃ Γ', HSt g toks.length (step c s) Γ' := by
  obtain ⟨rl0, pa, tf, hr0, _, hpa', _, _⟩ := htop.facts hwf hst
  rw [hr] at hr0; injection hr0 with hr0; subst hr0
  have hXmem : X ∈ s.stack := by rw [hst]; simp
  have hXlt := tf.stack_lt X hXmem
  have hrule := hc.rule_eq hr
  rw [step_nt' hst hpos (by rw [hrule]; exact getD_of_getElem? hsym)]
  have hLdisp : (ntLoc c s X A).disp = rlX.order.getD ((s.state X).pos - 1) none := by
    simp only [ntLoc, hrule]
  rcases candLoop_zero (L := ntLoc c s X A) (set := c.sets.getD (s.state X).plInd #[]) hc.one
      (reduces c (c.sets.getD (s.state X).plInd #[]) A) (ntS0 s X) with ⟨h0, _⟩ | ⟨i, hi', hf, b, hcl⟩
  · left; rw [h0]; rfl
  · right
    rw [hcl]
    simp only [show ((1 : Nat) == 0) = false from rfl, Bool.false_eq_true, if_false]
    obtain ⟨sr, so, rl', kids, hsit, hr', _, hlhs, hE, _, _, hE2⟩ := cand_facts hc hi' hf
    rw [hsit]
    cases hd : rlX.order.getD ((s.state X).pos - 1) none with
    | none =>
      have hLd : (ntLoc c s X A).disp = none := by rw [hLdisp]; exact hd
      rw [candidate_untr hLd, candPre_zero]
      obtain ⟨e1, e2, e3, e4, e5, e6⟩ := advance_states (s := s) (k := so) hXlt (ntLoc c s X A) rfl
      have h1 := hadvance (ok := ok) c tf hi hst hr hpos hsym hr' hlhs hE e1 e2 e3 e4 e5 e6
      exact ⟨Γ, HSt.of_eq h1 rfl rfl rfl rfl⟩
    | some d =>
      obtain ⟨Γ', hh⟩ := hcand_zero (c := c) (fun h => hc.rule_eq h) hcyc hsr tf hi hst hr hpos hsym hd
        hpa' hr' hlhs hE hE2
      exact ⟨Γ', HSt.of_eq hh.inv rfl rfl rfl rfl⟩

/-- both invariants of the main loop, one parse -/
def HOInv (g : Grammar) (ok : Nat → Nat → Nat → Bool) (toks : List Nat) (s : St) : Prop :=
  s.bad = true ∨ (Good g ok toks s ∧ ∃ Γ, HSt g toks.length s Γ)

theorem hostep_inv (hc : CtxOK g ok toks c) (hg : GrOK g) (hcyc : ¬ Cyclic g)
    (hsr : g.symsInRange = true) {s : St} (hinv : HOInv g ok toks s) : HOInv g ok toks (step c s) := by
  rcases hinv with hb | ⟨hgood, ⟨Γ, hi⟩⟩
  · exact Or.inl (step_bad hc.one hb)
  · rcases step_inv hc hg (Or.inr hgood) with hb' | hgood'
    · exact Or.inl hb'
    · rcases hgood.main with ⟨hempty, _⟩ | ⟨frs, htop⟩
      · have : step c s = s := by unfold step; rw [hempty]
        rw [this]; exact Or.inr ⟨hgood, ⟨Γ, hi⟩⟩
      · cases hst : s.stack with
        | nil => rw [hst] at htop; simp [TopOK] at htop
        | cons X rest =>
          rw [hst] at htop
          obtain ⟨rl, pa, tf, hr, hle, hpa, _, hcell⟩ := htop.facts hg.twf hst
          by_cases hpos : (s.state X).pos = 0
          · refine Or.inr ⟨hgood', hpop_core hi hst hpos ?_ ⟨pa, hpa⟩ hcell⟩
            intro y hy
            exact tf.np y (by rw [hst]; exact List.mem_cons_of_mem _ hy)
          · have hlt : (s.state X).pos - 1 < rl.rhs.length := by omega
            cases hY : rl.rhs[(s.state X).pos - 1] with
            | t a =>
              have hsym : rl.rhs[(s.state X).pos - 1]? = some (.t a) := by
                rw [List.getElem?_eq_getElem hlt, hY]
              exact Or.inr ⟨hgood', hstep_term1 hc hg.twf hi hst htop hr hpos hsym⟩
            | n A =>
              have hsym : rl.rhs[(s.state X).pos - 1]? = some (.n A) := by
                rw [List.getElem?_eq_getElem hlt, hY]
              rcases hstep_nt1 hc hg.twf hcyc hsr hi hst htop hr hpos hsym with hb' | hh
              · exact Or.inl hb'
              · exact Or.inr ⟨hgood', hh⟩

theorem horun_inv (hc : CtxOK g ok toks c) (hg : GrOK g) (hcyc : ¬ Cyclic g)
    (hsr : g.symsInRange = true) : ∀ (fuel : Nat) (s s' : St), HOInv g ok toks s →
      run c fuel s = some s' → HOInv g ok toks s'
  | 0, s, s', hinv, hr => by
    unfold run at hr
    split at hr
    · injection hr with hr; rw [← hr]; exact hinv
    · cases hr
  | fuel + 1, s, s', hinv, hr => by
    unfold run at hr
    split at hr
    · injection hr with hr; rw [← hr]; exact hinv
    · exact horun_inv hc hg hcyc hsr fuel _ _ (hostep_inv hc hg hcyc hsr hinv) hr

/-- **the final heap of one-parse mode is well formed** -/
theorem makeParse_heap_wf_ctx1 {sets : Array (Array Item)} {plToks : Array Int} {fuel : Nat} {s : St}
    {r : Nat} (hc : CtxOK g ok toks (mkCtx g sets plToks true)) (hg : GrOK g) (hcyc : ¬ Cyclic g)
    (hsr : g.symsInRange = true) (hm : makeParseSt (mkCtx g sets plToks true) fuel = some s)
    (hb : s.bad = false) (hres : s.result = some r) :
    ∃ Γ : Gh, PC.WfHeap (PC.ofHeap s.heap) (Γ.rk s.heap) Γ.hd ∧ r < (PC.ofHeap s.heap).size ∧
      Γ.hd r = r := by
  unfold makeParseSt at hm
  split at hm
  · cases hm
  · rename_i s0 hi0
    have hg0 := init_inv hc hg hi0
    have h0 := hainit (toks := toks) hc.size (fun h => hc.rule_eq h) hi0
    rcases horun_inv hc hg hcyc hsr fuel s0 s (Or.inr ⟨hg0, ⟨_, h0⟩⟩) hm with hbad | ⟨_, ⟨Γ, hi⟩⟩
    · rw [hbad] at hb; cases hb
    · refine ⟨Γ, hi.hw.wfHeap, ?_, ?_⟩
      · rw [size_ofHeap]; exact hi.hw.kid_lt hres
      · obtain ⟨nm, cc, ks, hcell, hk⟩ := getKid_some_iff.mp hres
        have hlt : rootId < s.heap.size := hi.rootLt
        have := hi.hw rootId hlt
        rw [hcell] at this
        exact (this.2.2 0 r hk).2.1

end

end Yaep.MP
