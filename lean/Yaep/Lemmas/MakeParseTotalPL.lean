import Yaep.Lemmas.MakeParseTotalMain
/-!
# Totality of the model of `make_parse` in all-parses mode, part 6: the parse list of `build_pl`

The sets of the step-for-step model of `build_pl` (`BS.buildPLC`) are exactly the Earley sets
(`ctxAllc_plSets`); `plMaxSize`: the size of the largest set of a parse list.
-/
namespace Yaep.MP
open Yaep

/-- the parse list of an accepted input: its sets are exactly the Earley sets (all-parses context) -/
theorem ctxAllc_plSets {g : Grammar} {la : Nat} {w : List Nat} (hacc : (BS.buildPLC g la w).1 = none) :
    CtxAllc g (laFilter g g.analysis la (w ++ [g.eofT])) (w ++ [g.eofT])
      (mkCtx g (plSets g la w) (plTokNums w) false) :=
  ⟨ctxAll_plSets hacc, (ctxOKc_plSets hacc).complete⟩

/-- the size of the largest set of a parse list -/
def plMaxSize (sets : Array (Array Item)) : Nat := sets.foldl (fun m s => max m s.size) 0

theorem foldl_maxSize_ge (l : List (Array Item)) : ∀ (init : Nat),
    init ≤ l.foldl (fun m s => max m s.size) init ∧ ∀ x ∈ l, x.size ≤ l.foldl (fun m s => max m s.size) init := by
  induction l with
  | nil => intro init; exact ⟨Nat.le_refl _, fun x hx => by cases hx⟩
  | cons y l ih =>
    intro init
    simp only [List.foldl_cons]
    obtain ⟨i1, i2⟩ := ih (max init y.size)
    refine ⟨Nat.le_trans (Nat.le_max_left _ _) i1, ?_⟩
    intro x hx
    rcases List.mem_cons.mp hx with rfl | hx
    · exact Nat.le_trans (Nat.le_max_right _ _) i1
    · exact i2 x hx

theorem size_le_plMaxSize (sets : Array (Array Item)) (j : Nat) : (sets.getD j #[]).size ≤ plMaxSize sets := by
  unfold plMaxSize
  rw [← Array.foldl_toList]
  rcases Nat.lt_or_ge j sets.size with h | h
  · apply (foldl_maxSize_ge sets.toList 0).2
    rw [Array.getD_eq_getD_getElem?, Array.getElem?_eq_getElem h]
    simp
  · rw [Array.getD_eq_getD_getElem?, Array.getElem?_eq_none h]
    simp

end Yaep.MP
