import Yaep.Lemmas.MakeParseSoundMain
import Yaep.Lemmas.MakeParseSoundDepth
/-!
# The ambiguity flag of `make_parse` (one parse) is sound, if no set repeats a situation

`*ambiguous_p` is set when a second situation passes the check loop for the same nonterminal
occurrence.  Two *different* completed situations give two different derivations of the whole
input: the states on the stack form a context `C` (`BelowOK.ctx`) that is injective.
-/
namespace Yaep.MP
open Yaep

/-- the states below the top form an injective context: every derivation of the awaited
nonterminal is completed to a derivation of the whole input -/
theorem BelowOK.ctx {g : Grammar} {ok : Nat → Nat → Nat → Bool} {toks : List Nat}
    {h : Array MNode} {sts : Array PState} :
    ∀ {rest : List Nat} {frs : List Frame} {hi sb : Nat} {tgt : Nat × Nat} {A cLo cFin : Nat},
      BelowOK g ok toks h sts rest frs hi sb tgt A cLo cFin →
      ∃ C : PT → PT, (∀ a b, C a = C b → a = b) ∧
        ∀ cpt, PT.ValidAt g toks cpt (.n A) cLo cFin → PT.IsDerivation g toks (C cpt)
  | [], frs, hi, sb, tgt, A, cLo, cFin, hb => by
    simp only [BelowOK] at hb
    obtain ⟨_, _, rfl, rfl, rfl, _⟩ := hb
    exact ⟨id, fun _ _ h => h, fun _ hv => hv⟩
  | sid :: rest, [], hi, sb, tgt, A, cLo, cFin, hb => by simp [BelowOK] at hb
  | sid :: rest, fr :: frs, hi, sb, tgt, A, cLo, cFin, hb => by
    simp only [BelowOK] at hb
    obtain ⟨_, _, rl, d, pa, h3, h4, _, h6, h7, h8, _, hm⟩ := hb
    obtain ⟨pre, hpre⟩ := EarleyF.prefix_valid h3 h7
    have hrhs : rl.rhs = rl.rhs.take (sts.getD sid default).pos ++
        (Sym.n A :: rl.rhs.drop ((sts.getD sid default).pos + 1)) := by
      rw [← drop_of_getElem? h4, List.take_append_drop]
    have hbelow : ∃ hi' tgt', BelowOK g ok toks h sts rest frs hi' sid tgt' rl.lhs
        (sts.getD sid default).orig fr.fin := by
      split at hm
      · obtain ⟨_, _, _, _, _, m6⟩ := hm; exact ⟨_, _, m6⟩
      · obtain ⟨_, _, _, m4⟩ := hm; exact ⟨_, _, m4⟩
    obtain ⟨hi', tgt', hb'⟩ := hbelow
    obtain ⟨C, hinj, hC⟩ := BelowOK.ctx hb'
    refine ⟨fun cpt => C (.node (sts.getD sid default).rule (pre ++ cpt :: fr.done)), ?_, ?_⟩
    · intro a b hab
      have := hinj _ _ hab
      injection this with _ hk
      have := List.append_cancel_left hk
      injection this
    · intro cpt hv
      apply hC
      refine .node h3 rfl ?_
      rw [hrhs]
      exact ValidListAt_append hpre (.cons hv h8)

/-! ## where the flag is set -/

theorem candidate_amb {c : Ctx} {L : Loc} {sit : Item} {s : St} (hone : c.oneParse = true) :
    (candidate c L sit 0 [] s).1.amb = s.amb := by
  unfold candidate
  cases hpa : L.parentAnode <;> cases hd : L.disp <;> simp only [hone]
  all_goals try rfl
  cases hn : (c.rule sit.rule).anode
  · by_cases hdot : sit.dot = 0 <;> simp [hdot, St.place, St.push, St.setState]
  · simp [apply_ite St.amb, St.place, St.push, St.setState]

theorem candLoop_after_amb {c : Ctx} {L : Loc} {set : Array Item} (hone : c.oneParse = true) :
    ∀ (l : List Nat) (os : List Nat) (s : St),
      (candLoop c L set l 1 os s).1.amb = true →
        s.amb = true ∨ ∃ i ∈ l, checkFound c L (set.getD i default).origin = true
  | [], os, s, h => Or.inl h
  | i :: l, os, s, h => by
    unfold candLoop at h
    by_cases hf : checkFound c L (set.getD i default).origin = true
    · exact Or.inr ⟨i, List.mem_cons_self, hf⟩
    · simp only [hf] at h
      rcases candLoop_after_amb hone l os s (by simpa using h) with h1 | ⟨j, hj, h1⟩
      · exact Or.inl h1
      · exact Or.inr ⟨j, List.mem_cons_of_mem _ hj, h1⟩

theorem candLoop_zero_amb {c : Ctx} {L : Loc} {set : Array Item} (hone : c.oneParse = true) :
    ∀ (l : List Nat) (s : St), l.Nodup → (candLoop c L set l 0 [] s).1.amb = true →
      s.amb = true ∨ ∃ i1 ∈ l, ∃ i2 ∈ l, i1 ≠ i2 ∧
        checkFound c L (set.getD i1 default).origin = true ∧
        checkFound c L (set.getD i2 default).origin = true
  | [], s, _, h => Or.inl h
  | i :: l, s, hnd, h => by
    have hnd' := List.nodup_cons.mp hnd
    unfold candLoop at h
    by_cases hf : checkFound c L (set.getD i default).origin = true
    · simp only [hf] at h
      have h' : (candLoop c L set l 1 (candidate c L (set.getD i default) 0 [] s).2
          (candidate c L (set.getD i default) 0 [] s).1).1.amb = true := by simpa using h
      rcases candLoop_after_amb hone l _ _ h' with h1 | ⟨j, hj, h1⟩
      · rw [candidate_amb hone] at h1; exact Or.inl h1
      · exact Or.inr ⟨i, List.mem_cons_self, j, List.mem_cons_of_mem _ hj,
          fun e => hnd'.1 (e ▸ hj), hf, h1⟩
    · simp only [hf] at h
      rcases candLoop_zero_amb hone l s hnd'.2 (by simpa using h) with h1 | ⟨i1, m1, i2, m2, hne, f1, f2⟩
      · exact Or.inl h1
      · exact Or.inr ⟨i1, List.mem_cons_of_mem _ m1, i2, List.mem_cons_of_mem _ m2, hne, f1, f2⟩

theorem reduces_nodup (c : Ctx) (set : Array Item) (A : Nat) : (reduces c set A).Nodup := by
  unfold reduces
  exact List.nodup_range.sublist List.filter_sublist

theorem popFold_amb (an : Nat) : ∀ (l : List Nat) (s : St),
    (l.foldl (fun (s : St) i =>
          if (getKid s.heap an i).isNone then
            { s with heap := setKid s.heap an i (some nilId), nilUsed := true }
          else s) s).amb = s.amb
  | [], s => rfl
  | i :: l, s => by
    simp only [List.foldl_cons]
    rw [popFold_amb an l]
    split <;> rfl

theorem stepTerm_amb {c : Ctx} {sid : Nat} {st : PState} {pos : Nat} {disp : Option Nat} {a : Nat}
    {pa : Option Nat} {s : St} (hone : c.oneParse = true) :
    (stepTerm c sid st pos disp a pa s).amb = s.amb := by
  unfold stepTerm
  cases pa <;> cases disp <;> simp [hone, St.setState, St.place]
  split <;> rfl

/-- the flag is set only when two different entries of a reduce vector pass the check loop -/
theorem step_amb {c : Ctx} {s : St} (hone : c.oneParse = true) (h : (step c s).amb = true) :
    s.amb = true ∨ ∃ sid rest A, s.stack = sid :: rest ∧ (s.state sid).pos ≠ 0 ∧
      (c.rule (s.state sid).rule).rhs.getD ((s.state sid).pos - 1) (.t 0) = .n A ∧
      ∃ i1 ∈ reduces c (c.sets.getD (s.state sid).plInd #[]) A,
      ∃ i2 ∈ reduces c (c.sets.getD (s.state sid).plInd #[]) A, i1 ≠ i2 ∧
        checkFound c (ntLoc c s sid A)
          ((c.sets.getD (s.state sid).plInd #[]).getD i1 default).origin = true ∧
        checkFound c (ntLoc c s sid A)
          ((c.sets.getD (s.state sid).plInd #[]).getD i2 default).origin = true := by
  cases hst : s.stack with
  | nil =>
    have : step c s = s := by unfold step; rw [hst]
    rw [this] at h; exact Or.inl h
  | cons sid rest =>
    by_cases hpos : (s.state sid).pos = 0
    · left
      cases han : (s.state sid).anode with
      | none =>
        unfold step at h
        simp only [hst, hpos, han] at h
        revert h
        simp only [beq_self_eq_true, if_true]
        split
        · split <;> exact fun h => h
        · exact fun h => h
      | some an =>
        rw [step_pop_some hst hpos han, popFold_amb] at h
        exact h
    · cases hsym : (c.rule (s.state sid).rule).rhs.getD ((s.state sid).pos - 1) (.t 0) with
      | t a =>
        left
        rw [step_term hst hpos hsym, stepTerm_amb hone] at h
        exact h
      | n A =>
        rw [step_nt' hst hpos hsym] at h
        have h' : (candLoop c (ntLoc c s sid A) (c.sets.getD (s.state sid).plInd #[])
            (reduces c (c.sets.getD (s.state sid).plInd #[]) A) 0 [] (ntS0 s sid)).1.amb = true := by
          revert h; split <;> exact fun h => h
        rcases candLoop_zero_amb hone _ _ (reduces_nodup _ _ _) h' with h1 | ⟨i1, m1, i2, m2, hne, f1, f2⟩
        · exact Or.inl h1
        · exact Or.inr ⟨sid, rest, A, rfl, hpos, hsym, i1, m1, i2, m2, hne, f1, f2⟩

/-! ## two candidates, two derivations -/

/-- the input has two different derivations -/
def TwoDer (g : Grammar) (toks : List Nat) : Prop :=
  ∃ pt1 pt2, PT.IsDerivation g toks pt1 ∧ PT.IsDerivation g toks pt2 ∧ pt1 ≠ pt2

theorem two_derivs {g : Grammar} {ok : Nat → Nat → Nat → Bool} {toks : List Nat} {c : Ctx} {s : St}
    (hc : CtxOK g ok toks c) (hnd : ∀ j, (c.sets.getD j #[]).toList.Nodup)
    (hgood : Good g ok toks s) {sid : Nat} {rest : List Nat} {A : Nat}
    (hst : s.stack = sid :: rest) (hpos : (s.state sid).pos ≠ 0)
    (hsym : (c.rule (s.state sid).rule).rhs.getD ((s.state sid).pos - 1) (.t 0) = .n A)
    {i1 i2 : Nat} (m1 : i1 ∈ reduces c (c.sets.getD (s.state sid).plInd #[]) A)
    (m2 : i2 ∈ reduces c (c.sets.getD (s.state sid).plInd #[]) A) (hne : i1 ≠ i2)
    (f1 : checkFound c (ntLoc c s sid A)
      ((c.sets.getD (s.state sid).plInd #[]).getD i1 default).origin = true)
    (f2 : checkFound c (ntLoc c s sid A)
      ((c.sets.getD (s.state sid).plInd #[]).getD i2 default).origin = true) :
    TwoDer g toks := by
  rcases hgood.main with ⟨he, _⟩ | ⟨frs, htop⟩
  · rw [hst] at he; cases he
  rw [hst] at htop
  cases frs with
  | nil => simp [TopOK] at htop
  | cons fr frs =>
  simp only [TopOK] at htop
  have est : s.states.getD sid default = s.state sid := rfl
  rw [est] at htop
  obtain ⟨_, _, rl, pa, t3, t4, _, t6, t7, _, tm⟩ := htop
  rw [if_neg hpos] at t7
  have hrule := hc.rule_eq t3
  rw [hrule] at hsym
  have hlt : (s.state sid).pos - 1 < rl.rhs.length := by omega
  have hX : rl.rhs[(s.state sid).pos - 1]? = some (.n A) := by
    rw [List.getD_eq_getElem?_getD, List.getElem?_eq_getElem hlt] at hsym
    rw [List.getElem?_eq_getElem hlt]
    simpa using hsym
  have hpp : (s.state sid).pos - 1 + 1 = (s.state sid).pos := by omega
  have hbelow : ∃ hi' tgt', BelowOK g ok toks s.heap s.states rest frs hi' sid tgt' rl.lhs
      (s.state sid).orig fr.fin := by
    split at tm
    · obtain ⟨_, _, _, m4⟩ := tm; exact ⟨_, _, m4⟩
    · obtain ⟨_, m4⟩ := tm; exact ⟨_, _, m4⟩
  obtain ⟨hi', tgt', hb'⟩ := hbelow
  obtain ⟨C, hinj, hC⟩ := hb'.ctx
  obtain ⟨sr1, so1, rl1, kids1, e1, hr1, _, hl1, hE1, hk1, _, hP1⟩ := cand_facts hc m1 f1
  obtain ⟨sr2, so2, rl2, kids2, e2, hr2, _, hl2, hE2, hk2, _, hP2⟩ := cand_facts hc m2 f2
  obtain ⟨pre1, hpre1⟩ := EarleyF.prefix_valid t3 hP1
  obtain ⟨pre2, hpre2⟩ := EarleyF.prefix_valid t3 hP2
  have hrhs : rl.rhs = rl.rhs.take ((s.state sid).pos - 1) ++
      (Sym.n A :: rl.rhs.drop (s.state sid).pos) := by
    have := drop_of_getElem? hX
    rw [hpp] at this
    rw [← this, List.take_append_drop]
  have hnode : ∀ {pre : List PT} {ptA : PT} {k : Nat},
      PT.ValidListAt g toks pre (rl.rhs.take ((s.state sid).pos - 1)) (s.state sid).orig k →
      PT.ValidAt g toks ptA (.n A) k (s.state sid).plInd →
      PT.IsDerivation g toks (C (.node (s.state sid).rule (pre ++ ptA :: fr.done))) := by
    intro pre ptA k h1 h2
    apply hC
    refine .node t3 rfl ?_
    rw [hrhs]
    exact ValidListAt_append h1 (.cons h2 t7)
  refine ⟨_, _, hnode hpre1 hk1, hnode hpre2 hk2, ?_⟩
  intro heq
  have h1 := hinj _ _ heq
  injection h1 with _ hlist
  have hlen : pre1.length = pre2.length := by rw [hpre1.length_eq, hpre2.length_eq]
  obtain ⟨_, h2⟩ := List.append_inj hlist hlen
  injection h2 with h3 _
  have hpteq := h3
  injection h3 with h4 _
  -- the two situations are the same
  have hso : so1 = so2 := by
    have a1 := hk1.span
    have a2 := hk2.span
    rw [hpteq] at a1
    omega
  subst h4; subst hso
  rw [hr1] at hr2; injection hr2 with hr2; subst hr2
  obtain ⟨n1, _⟩ := mem_reduces m1
  obtain ⟨n2, _⟩ := mem_reduces m2
  have hnd' := hnd (s.state sid).plInd
  have hl1' : i1 < (c.sets.getD (s.state sid).plInd #[]).toList.length := by simpa using n1
  have hl2' : i2 < (c.sets.getD (s.state sid).plInd #[]).toList.length := by simpa using n2
  have heq' : (c.sets.getD (s.state sid).plInd #[]).toList[i1] =
      (c.sets.getD (s.state sid).plInd #[]).toList[i2] := by
    have aux : ∀ (S : Array Item) (i : Nat) (h : i < S.toList.length), S.toList[i] = S.getD i default := by
      intro S i h
      have h' : i < S.size := by simpa using h
      simp [Array.getD_eq_getD_getElem?, h']
    rw [aux _ i1 hl1', aux _ i2 hl2', e1, e2]
  exact hne ((List.getElem_inj hnd').mp heq')

/-! ## through the loop -/

def AmbInv (g : Grammar) (ok : Nat → Nat → Nat → Bool) (toks : List Nat) (s : St) : Prop :=
  s.bad = true ∨ (Good g ok toks s ∧ (s.amb = true → TwoDer g toks))

theorem step_ambInv {g : Grammar} {ok : Nat → Nat → Nat → Bool} {toks : List Nat} {c : Ctx} {s : St}
    (hc : CtxOK g ok toks c) (hg : GrOK g) (hnd : ∀ j, (c.sets.getD j #[]).toList.Nodup)
    (hinv : AmbInv g ok toks s) : AmbInv g ok toks (step c s) := by
  rcases hinv with hb | ⟨hgood, hamb⟩
  · exact Or.inl (step_bad hc.one hb)
  · rcases step_inv hc hg (Or.inr hgood) with hb | hgood'
    · exact Or.inl hb
    · refine Or.inr ⟨hgood', fun h => ?_⟩
      rcases step_amb hc.one h with h1 | ⟨sid, rest, A, hst, hpos, hsym, i1, m1, i2, m2, hne, f1, f2⟩
      · exact hamb h1
      · exact two_derivs hc hnd hgood hst hpos hsym m1 m2 hne f1 f2

theorem run_ambInv {g : Grammar} {ok : Nat → Nat → Nat → Bool} {toks : List Nat} {c : Ctx}
    (hc : CtxOK g ok toks c) (hg : GrOK g) (hnd : ∀ j, (c.sets.getD j #[]).toList.Nodup) :
    ∀ (fuel : Nat) (s s' : St), AmbInv g ok toks s → run c fuel s = some s' → AmbInv g ok toks s'
  | 0, s, s', hinv, hr => by
    unfold run at hr
    split at hr
    · injection hr with hr; rw [← hr]; exact hinv
    · cases hr
  | fuel + 1, s, s', hinv, hr => by
    unfold run at hr
    split at hr
    · injection hr with hr; rw [← hr]; exact hinv
    · exact run_ambInv hc hg hnd fuel _ _ (step_ambInv hc hg hnd hinv) hr

theorem init_amb {c : Ctx} {s0 : St} (hi : init c = some s0) : s0.amb = false := by
  unfold init at hi
  simp only at hi
  split at hi
  · cases hi
  · split at hi
    · cases hi
    · injection hi with hi; subst hi; rfl

/-- **the ambiguity flag is sound (one parse)**, over any parse list without repeated situations
whose situations are items of the Earley relation -/
theorem makeParse_one_amb_ctx {g : Grammar} {ok : Nat → Nat → Nat → Bool} {toks : List Nat}
    {sets : Array (Array Item)} {plToks : Array Int} {fuel : Nat} {res : Result}
    (hc : CtxOK g ok toks (mkCtx g sets plToks true)) (hg : GrOK g)
    (hnd : ∀ j, (sets.getD j #[]).toList.Nodup)
    (hm : makeParse g sets plToks true fuel = .ok res) (hamb : res.amb = true) :
    TwoDer g toks := by
  simp only [makeParse] at hm
  split at hm
  · cases hm
  · rename_i s0 hi
    split at hm
    · cases hm
    · rename_i s hr
      split at hm
      · cases hm
      · rename_i hb
        split at hm
        · cases hm
        · split at hm
          · cases hm
          · injection hm with hm
            subst hm
            have h0 : AmbInv g ok toks s0 :=
              Or.inr ⟨init_inv hc hg hi, fun h => by rw [init_amb hi] at h; cases h⟩
            rcases run_ambInv hc hg hnd fuel s0 s h0 hr with hbad | ⟨_, h⟩
            · rw [hbad] at hb; simp at hb
            · exact h hamb

end Yaep.MP
