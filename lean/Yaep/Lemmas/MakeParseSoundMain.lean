import Yaep.Lemmas.MakeParseSoundNT
import Yaep.Lemmas.MakeParseSoundExport
/-!
# Soundness of the model of `make_parse`, part 8: from the loop invariant to the exported result
-/
namespace Yaep.MP
open Yaep

/-- the machine state at the end of a run that is not flagged: the result slot holds the
translation of a derivation of the whole input -/
theorem run_final {g : Grammar} {ok : Nat → Nat → Nat → Bool} {toks : List Nat} {c : Ctx}
    (hc : CtxOK g ok toks c) (hg : GrOK g) {fuel : Nat} {s0 s : St} (hi : init c = some s0)
    (hr : run c fuel s0 = some s) (hb : s.bad = false) :
    s.heap.getD nilId .nil = .nil ∧ s.heap.getD errId .nil = .err ∧ Final g toks s.heap := by
  have hinv := run_inv hc hg fuel s0 s (Or.inr (init_inv hc hg hi)) hr
  rcases hinv with hbad | hgood
  · rw [hb] at hbad; cases hbad
  · refine ⟨hgood.h0, hgood.h1, ?_⟩
    rcases hgood.main with ⟨_, hf⟩ | ⟨frs, htop⟩
    · exact hf
    · rw [run_stack_empty c fuel s0 s hr] at htop
      simp [TopOK] at htop

/-- soundness of `make_parse` in one-parse mode over any parse list whose sets contain only items
of the Earley relation -/
theorem makeParse_one_sound_ctx {g : Grammar} {ok : Nat → Nat → Nat → Bool} {toks : List Nat}
    {sets : Array (Array Item)} {plToks : Array Int} {fuel : Nat} {res : Result}
    (hc : CtxOK g ok toks (mkCtx g sets plToks true)) (hg : GrOK g)
    (hm : makeParse g sets plToks true fuel = .ok res) :
    ∃ pt, PT.IsDerivation g toks pt ∧
      denote (unfoldAt res.tab res.root) = [translate g pt] ∧
      (denoteTab res.tab).getD res.root [] = [translate g pt] ∧
      hasAlt res.tab = false := by
  have hwf := makeParse_tableWF hm
  simp only [makeParse] at hm
  split at hm
  · cases hm
  · rename_i s0 hi
    split at hm
    · cases hm
    · rename_i s hr
      split at hm
      · cases hm
      · rename_i hb
        split at hm
        · cases hm
        · rename_i r hres
          split at hm
          · cases hm
          · rename_i tab root hx
            injection hm with hm
            subst hm
            simp only at hwf ⊢
            obtain ⟨h0, h1, pt, cl, hpt, hk, hden⟩ := run_final hc hg hi hr (by simpa using hb)
            have hcl : cl = r := by
              unfold St.result at hres
              rw [hk] at hres; injection hres
            subst hcl
            obtain ⟨tab', root', e1, e2, e3⟩ := exportTable_den h0 h1 hden
            rw [hx] at e1
            injection e1 with e1
            injection e1 with e1a e1b
            subst e1a; subst e1b
            have hd := RecDen.denoteTab hwf.1 _ _ e2
            refine ⟨pt, hpt, ?_, hd, hasAlt_false_of e3⟩
            unfold unfoldAt
            rw [← denoteTab_spec_getD hwf.1 hwf.2 (Nat.lt_succ_self _), hd]

end Yaep.MP
