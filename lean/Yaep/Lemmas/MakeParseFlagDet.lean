import Yaep.Lemmas.MakeParseFlagAllStep
/-!
# The ambiguity flag, part 14: parse lists on which the walk of `make_parse` is deterministic

`Det c r p o j`: starting from a parse state `(rule r, dot p, origin o, list index j)`, the walk
of `make_parse` over the parse list of `c` meets exactly one reduce candidate at every
nonterminal it looks at — a property of the parse list alone (greatest fixed point, given by a
closed set `V` of contexts).  Then the flag is never set, in one-parse mode and in all-parses
mode alike (`step_vinv`).
-/
namespace Yaep.MP
open Yaep

/-- a `Loc` with only the fields the check loop reads -/
def mkL (r p o A : Nat) : Loc :=
  { origSid := 0, rule := r, pos := p, disp := none, plInd := 0, orig := o, parentAnode := none,
    parentDisp := 0, A := A }

theorem checkFound_mkL (c : Ctx) (L : Loc) (x : Nat) :
    checkFound c L x = checkFound c (mkL L.rule L.pos L.orig L.A) x := rfl

/-- entry `i` of the reduce vector of `A` in set `j` passes the check loop of the state
`(r, p, o, j)` whose symbol before the dot is `A` -/
def PassK (c : Ctx) (r p o j A i : Nat) : Prop :=
  i ∈ reduces c (c.sets.getD j #[]) A ∧
  checkFound c (mkL r (p - 1) o A) ((c.sets.getD j #[]).getD i default).origin = true

theorem passes_iff (c : Ctx) (s : St) (sid A i : Nat) :
    Passes c s sid A i ↔
      PassK c (s.state sid).rule (s.state sid).pos (s.state sid).orig (s.state sid).plInd A i :=
  Iff.rfl

abbrev K4 := Nat → Nat → Nat → Nat → Prop

/-- one step of the walk from the context `(r, p, o, j)` stays inside `V` and meets at most one
candidate -/
def DetStep (c : Ctx) (V : K4) (r p o j : Nat) : Prop :=
  p ≠ 0 →
  match (c.rule r).rhs.getD (p - 1) (.t 0) with
  | .t _ => V r (p - 1) o (if p - 1 != 0 then j - 1 else j)
  | .n A => (∀ i1 i2, PassK c r p o j A i1 → PassK c r p o j A i2 → i1 = i2) ∧
      ∀ i, PassK c r p o j A i →
        V r (p - 1) o ((c.sets.getD j #[]).getD i default).origin ∧
        (((c.rule r).order.getD (p - 1) none).isSome = true →
          ((c.sets.getD j #[]).getD i default).dot ≠ 0 →
          V ((c.sets.getD j #[]).getD i default).rule ((c.sets.getD j #[]).getD i default).dot
            ((c.sets.getD j #[]).getD i default).origin j)

/-- `V` is closed under the walk -/
def Closed (c : Ctx) (V : K4) : Prop := ∀ r p o j, V r p o j → DetStep c V r p o j

/-- the walk from `(r, p, o, j)` is deterministic -/
def Det (c : Ctx) (r p o j : Nat) : Prop := ∃ V : K4, V r p o j ∧ Closed c V

/-- a parse state whose context is in `V` (or that is finished) -/
def ctxV (V : K4) (st : PState) : Prop := st.pos = 0 ∨ V st.rule st.pos st.orig st.plInd

def VInv (V : K4) (s : St) : Prop := ∀ sid ∈ s.stack, sid < s.states.size ∧ ctxV V (s.state sid)

/-- **inside a closed set the flag is never set** (any mode) -/
theorem step_vinv {c : Ctx} {V : K4} {s : St} (hV : Closed c V) (h : VInv V s) :
    ((step c s).bad = true ∨ VInv V (step c s)) ∧ ((step c s).amb = true → s.amb = true) := by
  cases hst : s.stack with
  | nil =>
    have : step c s = s := by unfold step; rw [hst]
    rw [this]; exact ⟨Or.inr h, id⟩
  | cons sid rest =>
    have hmem : sid ∈ s.stack := by rw [hst]; exact List.mem_cons_self
    obtain ⟨hlt, hctx⟩ := h sid hmem
    have hrest : ∀ y ∈ rest, y < s.states.size ∧ ctxV V (s.state y) :=
      fun y hy => h y (by rw [hst]; exact List.mem_cons_of_mem _ hy)
    by_cases hpos : (s.state sid).pos = 0
    · obtain ⟨e1, e2, e3⟩ := step_pop_shape (c := c) hst hpos
      refine ⟨Or.inr ?_, fun ha => by rw [← e3]; exact ha⟩
      intro y hy
      rw [e2] at hy
      unfold St.state
      rw [e1]
      exact hrest y hy
    · have hVk : V (s.state sid).rule (s.state sid).pos (s.state sid).orig (s.state sid).plInd := by
        rcases hctx with h0 | h0
        · exact absurd h0 hpos
        · exact h0
      have hstep := hV _ _ _ _ hVk hpos
      cases hsym : (c.rule (s.state sid).rule).rhs.getD ((s.state sid).pos - 1) (.t 0) with
      | t a =>
        rw [hsym] at hstep
        simp only at hstep
        obtain ⟨e1, e2, e3⟩ := step_term_shape hst hpos hsym
        refine ⟨Or.inr ?_, fun ha => by rw [← e3]; exact ha⟩
        intro y hy
        rw [e2, hst] at hy
        have hsz : (step c s).states.size = s.states.size := by rw [e1]; simp
        by_cases hys : y = sid
        · subst hys
          refine ⟨by rw [hsz]; exact hlt, ?_⟩
          have est : (step c s).state y =
              { s.state y with
                pos := (s.state y).pos - 1
                plInd := if (s.state y).pos - 1 != 0 then (s.state y).plInd - 1 else (s.state y).plInd } := by
            unfold St.state
            rw [e1, getD_set!, if_pos ⟨rfl, hlt⟩]
            rfl
          unfold ctxV
          rw [est]
          exact Or.inr hstep
        · have hyr : y ∈ rest := by
            rcases List.mem_cons.mp hy with e | e
            · exact absurd e hys
            · exact e
          obtain ⟨b1, b2⟩ := hrest y hyr
          refine ⟨by rw [hsz]; exact b1, ?_⟩
          have : (step c s).state y = s.state y := by
            unfold St.state
            rw [e1, getD_set!, if_neg (fun hh => hys hh.1.symm)]
          rw [this]; exact b2
      | n A =>
        rw [hsym] at hstep
        simp only at hstep
        obtain ⟨huniq, hsucc⟩ := hstep
        obtain ⟨⟨n, hshape, hbad⟩, hamb⟩ := step_nt_shape hst hpos hsym hlt
        constructor
        · by_cases hn : n = 0
          · exact Or.inl (hbad hn)
          · right
            obtain ⟨a1, a2, ⟨ids, a3, a3'⟩, a4, a5⟩ := hshape
            have hsz0 : (ntS0 s sid).states.size = s.states.size := by simp [ntS0]
            have horig : ctxV V ((step c s).state sid) := by
              rcases a4 with ⟨h0, _⟩ | ⟨_, i, hi, e⟩
              · exact absurd h0 hn
              · have e' : (step c s).state sid =
                    { s.state sid with
                      pos := (s.state sid).pos - 1
                      plInd := ((c.sets.getD (s.state sid).plInd #[]).getD i default).origin } := e
                unfold ctxV
                rw [e']
                exact Or.inr (hsucc i hi).1
            intro y hy
            rw [a3] at hy
            rcases List.mem_append.mp hy with hy | hy
            · obtain ⟨b1, b2⟩ := a3' y hy
              refine ⟨b2, ?_⟩
              obtain ⟨i, hi, hds, hnew⟩ := a5 y b1 b2
              obtain ⟨q1, q2⟩ := hsucc i hi
              unfold ctxV
              rcases hnew with ⟨n1, n2, n3, n4⟩ | ⟨n1, n2, n3, n4⟩
              · rw [n1, n2, n3, n4]
                by_cases hd0 : ((c.sets.getD (s.state sid).plInd #[]).getD i default).dot = 0
                · exact Or.inl hd0
                · exact Or.inr (q2 hds hd0)
              · rw [n1, n2, n3, n4]; exact Or.inr q1
            · by_cases hys : y = sid
              · subst hys
                exact ⟨by omega, horig⟩
              · have hyr : y ∈ rest := by
                  rcases List.mem_cons.mp hy with e | e
                  · exact absurd e hys
                  · exact e
                obtain ⟨b1, b2⟩ := hrest y hyr
                refine ⟨by omega, ?_⟩
                have : (step c s).state y = s.state y := by
                  unfold St.state
                  rw [a2 y (by omega) hys]
                  show (s.states.set! sid _).getD y default = _
                  rw [getD_set!, if_neg (fun hh => hys hh.1.symm)]
                rw [this]; exact b2
        · intro ha
          rcases hamb.mp ha with h1 | ⟨i1, i2, hne, p1, p2⟩
          · exact h1
          · exact absurd (huniq i1 i2 p1 p2) hne

end Yaep.MP
