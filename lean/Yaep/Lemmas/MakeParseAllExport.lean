import Yaep.Lemmas.MakeParse
/-!
# The harness export of an arbitrary tree memory: every table entry is the record of a cell

`exportTable h r = some (tab, root)` (no cycle met): there is a map `cellOf` from table indices to
cells with `cellOf root = r`, such that entry `id` is `cellRec h (cellOf id) ids` where `ids` are
the (smaller) indices of the cells `cellKids h (cellOf id)`.
-/
namespace Yaep.MP
open Yaep

/-- entry `id` of `out` is the record of the cell `cells[id]`, its children are the records of the
children of that cell -/
def RepAt (h : Array MNode) (out : Array NodeRec) (cells : List Nat) (id : Nat) : Prop :=
  ∃ ids, out.getD id .bad = cellRec h (cells.getD id 0) ids ∧
    ids.map (fun k => cells.getD k 0) = cellKids h (cells.getD id 0) ∧ ∀ k ∈ ids, k < id

structure RepInv (h : Array MNode) (ex : ExSt) (cells : List Nat) : Prop where
  len : cells.length = ex.out.size
  rep : ∀ id, id < ex.out.size → RepAt h ex.out cells id
  ids : ∀ m id, ex.ids.getD m none = some id → id < ex.out.size ∧ cells.getD id 0 = m

/-- `cells'` extends `cells` -/
def CellsExt (cells cells' : List Nat) : Prop := ∃ l, cells' = cells ++ l

theorem CellsExt.refl (cells : List Nat) : CellsExt cells cells := ⟨[], by simp⟩
theorem CellsExt.trans {a b c : List Nat} (h1 : CellsExt a b) (h2 : CellsExt b c) : CellsExt a c := by
  obtain ⟨l1, rfl⟩ := h1; obtain ⟨l2, rfl⟩ := h2; exact ⟨l1 ++ l2, by simp⟩
theorem CellsExt.getD {a b : List Nat} (h : CellsExt a b) {k : Nat} (hk : k < a.length) :
    b.getD k 0 = a.getD k 0 := by
  obtain ⟨l, rfl⟩ := h
  simp [List.getD_eq_getElem?_getD, List.getElem?_append_left hk]

/-- result of exporting one cell -/
structure ExpRes (h : Array MNode) (ex : ExSt) (cells : List Nat) (r : ExSt × Nat) (n : Nat) : Prop where
  cyc : ex.cycle = true → r.1.cycle = true
  ok : r.1.cycle = false → ∃ cells', CellsExt cells cells' ∧ RepInv h r.1 cells' ∧
    r.2 < r.1.out.size ∧ cells'.getD r.2 0 = n

/-- result of exporting a list of cells -/
structure ExpsRes (h : Array MNode) (ex : ExSt) (cells : List Nat) (acc : List Nat)
    (r : ExSt × List Nat) (ks : List Nat) : Prop where
  cyc : ex.cycle = true → r.1.cycle = true
  ok : r.1.cycle = false → ∃ cells' ids, CellsExt cells cells' ∧ RepInv h r.1 cells' ∧
    r.2 = acc ++ ids ∧ ids.map (fun k => cells'.getD k 0) = ks ∧ ∀ k ∈ ids, k < r.1.out.size

theorem RepAt.ext {h : Array MNode} {out out' : Array NodeRec} {cells cells' : List Nat} {id : Nat}
    (hlen : cells.length = out.size) (hid : id < out.size) (ho : out'.getD id .bad = out.getD id .bad)
    (hc : CellsExt cells cells') (hr : RepAt h out cells id) : RepAt h out' cells' id := by
  obtain ⟨ids, h1, h2, h3⟩ := hr
  refine ⟨ids, ?_, ?_, h3⟩
  · rw [ho, hc.getD (by omega)]; exact h1
  · rw [hc.getD (by omega), ← h2]
    apply List.map_congr_left
    intro k hk
    exact hc.getD (by have := h3 k hk; omega)

theorem exportKids_rep {h : Array MNode} (f : ExSt → Nat → ExSt × Nat)
    (hf : ∀ ex cells k, (ex.cycle = false → RepInv h ex cells) → ExpRes h ex cells (f ex k) k) :
    ∀ (ks : List Nat) (ex : ExSt) (cells : List Nat) (acc : List Nat),
      (ex.cycle = false → RepInv h ex cells) →
      ExpsRes h ex cells acc (exportKids f ks ex acc) ks
  | [], ex, cells, acc, hinv => by
    refine ⟨fun hc => hc, fun hc => ⟨cells, [], CellsExt.refl _, hinv hc, by simp [exportKids], rfl, ?_⟩⟩
    intro k hk; cases hk
  | k :: ks, ex, cells, acc, hinv => by
    have h1 := hf ex cells k hinv
    show ExpsRes h ex cells acc (exportKids f ks (f ex k).1 (acc ++ [(f ex k).2])) (k :: ks)
    cases hcy : (f ex k).1.cycle with
    | true =>
      have h2 := exportKids_rep f hf ks (f ex k).1 cells (acc ++ [(f ex k).2])
        (fun hc => by rw [hcy] at hc; cases hc)
      refine ⟨fun _ => h2.cyc hcy, fun hc => ?_⟩
      rw [h2.cyc hcy] at hc; cases hc
    | false =>
      obtain ⟨cells1, e1, r1, lt1, c1⟩ := h1.ok hcy
      have h2 := exportKids_rep f hf ks (f ex k).1 cells1 (acc ++ [(f ex k).2]) (fun _ => r1)
      refine ⟨fun hc => h2.cyc (h1.cyc hc), fun hc => ?_⟩
      obtain ⟨cells2, ids, e2, r2, a2, m2, b2⟩ := h2.ok hc
      refine ⟨cells2, (f ex k).2 :: ids, e1.trans e2, r2, by rw [a2]; simp, ?_, ?_⟩
      · simp only [List.map_cons]
        rw [m2, e2.getD (by rw [r1.len]; exact lt1), c1]
      · intro x hx
        rcases List.mem_cons.mp hx with rfl | hx
        · have := e2; obtain ⟨l, hl⟩ := this
          have hsz : (f ex k).1.out.size ≤ (exportKids f ks (f ex k).1 (acc ++ [(f ex k).2])).1.out.size := by
            rw [← r1.len, ← r2.len, hl]; simp
          omega
        · exact b2 x hx

theorem exportNode_rep (h : Array MNode) : ∀ (fuel : Nat) (ex : ExSt) (cells : List Nat) (n : Nat),
    (ex.cycle = false → RepInv h ex cells) → ExpRes h ex cells (exportNode h fuel ex n) n
  | 0, ex, cells, n, _ => by
    unfold exportNode
    exact ⟨fun _ => rfl, fun hc => by simp at hc⟩
  | fuel + 1, ex, cells, n, hinv => by
    unfold exportNode
    split
    · rename_i id hid
      refine ⟨fun hc => hc, fun hc => ?_⟩
      obtain ⟨a1, a2⟩ := (hinv hc).ids n id hid
      exact ⟨cells, CellsExt.refl _, hinv hc, a1, a2⟩
    · rename_i hnone
      split
      · exact ⟨fun _ => rfl, fun hc => by simp at hc⟩
      · have hk := exportKids_rep (exportNode h fuel) (fun ex cells k hi => exportNode_rep h fuel ex cells k hi)
          (cellKids h n) { ex with visiting := ex.visiting.set! n true } cells []
          (fun hc => ⟨(hinv hc).len, (hinv hc).rep, (hinv hc).ids⟩)
        generalize exportKids (exportNode h fuel) (cellKids h n)
          { ex with visiting := ex.visiting.set! n true } [] = p at hk
        refine ⟨fun hc => hk.cyc hc, fun hc => ?_⟩
        obtain ⟨cells1, ids, e1, r1, a1, m1, b1⟩ := hk.ok hc
        simp only [List.nil_append] at a1
        have hext : CellsExt cells1 (cells1 ++ [n]) := ⟨[n], rfl⟩
        have hmy : (cells1 ++ [n]).getD p.1.out.size 0 = n := by
          rw [← r1.len]; simp [List.getD_eq_getElem?_getD]
        refine ⟨cells1 ++ [n], e1.trans hext, ⟨by simp [r1.len], ?_, ?_⟩, by simp, hmy⟩
        · intro id hid
          simp only [Array.size_push] at hid
          by_cases hlt : id < p.1.out.size
          · exact (r1.rep id hlt).ext r1.len hlt (getD_push_lt _ _ _ _ hlt) hext
          · have hid' : id = p.1.out.size := by omega
            subst hid'
            refine ⟨ids, ?_, ?_, b1⟩
            · simp only
              rw [getD_push_eq, hmy, a1]
            · rw [hmy, ← m1]
              apply List.map_congr_left
              intro k hk'
              exact hext.getD (by rw [r1.len]; exact b1 k hk')
        · intro m id hm
          simp only at hm ⊢
          rw [getD_set!] at hm
          simp only [Array.size_push]
          split at hm
          · injection hm with hm; subst hm
            rename_i hh
            exact ⟨Nat.lt_succ_self _, by rw [hmy]; exact hh.1⟩
          · obtain ⟨b2, b3⟩ := r1.ids m id hm
            exact ⟨Nat.lt_succ_of_lt b2, by rw [hext.getD (by rw [r1.len]; exact b2)]; exact b3⟩

/-- **every entry of the exported table is the record of a cell** -/
theorem exportTable_rep {h : Array MNode} {r : Nat} {tab : Array NodeRec} {root : Nat}
    (hx : exportTable h r = some (tab, root)) :
    ∃ cells : List Nat, cells.length = tab.size ∧ root < tab.size ∧ cells.getD root 0 = r ∧
      ∀ id, id < tab.size → RepAt h tab cells id := by
  unfold exportTable at hx
  have hs := exportNode_rep h (h.size + 1)
    { ids := Array.replicate h.size none, visiting := Array.replicate h.size false } [] r
    (fun _ => ⟨rfl, fun id hid => by simp at hid, fun m id hm => by
      simp [Array.getD_eq_getD_getElem?, Array.getElem?_replicate] at hm
      split at hm <;> simp at hm⟩)
  generalize exportNode h (h.size + 1)
    { ids := Array.replicate h.size none, visiting := Array.replicate h.size false } r = p at hs hx
  obtain ⟨ex, rr⟩ := p
  simp only at hx
  split at hx
  · cases hx
  · rename_i hc
    simp at hx
    obtain ⟨rfl, rfl⟩ := hx
    obtain ⟨cells, _, r1, lt1, c1⟩ := hs.ok (by simpa using hc)
    exact ⟨cells, r1.len, lt1, c1, r1.rep⟩

end Yaep.MP
