import Yaep.Lemmas.AnalysisCBase
import Yaep.Lemmas.AnalysisCLoop
import Yaep.Lemmas.FirstFollow
/-!
# `create_first_follow_sets` step for step: the terminal sets, the stores, growth and
soundness of every step, what a pass without change means
-/
namespace Yaep.AC

/-! ## terminal sets as bit masks -/

theorem and_two_pow_beq_zero (s b : Nat) : (s &&& 2 ^ b == 0) = !s.testBit b := by
  cases h : s.testBit b
  · have : s &&& 2 ^ b = 0 := by
      apply Nat.eq_of_testBit_eq
      intro i
      rw [Nat.testBit_and, Nat.testBit_two_pow, Nat.zero_testBit]
      by_cases hi : b = i
      · subst hi; simp [h]
      · simp [hi]
    simp [this]
  · have : s &&& 2 ^ b ≠ 0 := by
      intro h0
      have := congrArg (fun x => x.testBit b) h0
      simp [Nat.testBit_and, h] at this
    simp [this]

theorem or_bne_iff (s op : Nat) :
    ((s ||| op) != s) = true ↔ ∃ a, op.testBit a = true ∧ s.testBit a = false := by
  constructor
  · intro h
    apply Classical.byContradiction
    intro hne
    have : s ||| op = s := by
      apply Nat.eq_of_testBit_eq
      intro i
      rw [Nat.testBit_or]
      cases hs : s.testBit i
      · cases ho : op.testBit i
        · rfl
        · exact absurd ⟨i, ho, hs⟩ hne
      · rfl
    simp [this] at h
  · rintro ⟨a, ho, hs⟩
    simp only [bne_iff_ne, ne_eq]
    intro h
    have := congrArg (fun x => x.testBit a) h
    simp [Nat.testBit_or, ho, hs] at this

/-- `term_set_up (set, b)` is `term_set_or` with the one-element set `{b}` -/
theorem termSetUp_eq (s b : Nat) : termSetUp s b = termSetOr s (2 ^ b) := by
  unfold termSetUp termSetOr
  simp only [Nat.one_shiftLeft, Prod.mk.injEq, true_and]
  rw [and_two_pow_beq_zero]
  cases h : s.testBit b
  · symm
    simp only [Bool.not_false]
    exact (or_bne_iff _ _).mpr ⟨b, Nat.testBit_two_pow_self, h⟩
  · simp only [Bool.not_true]
    cases h' : ((s ||| 2 ^ b) != s)
    · rfl
    · obtain ⟨a, ha, hs⟩ := (or_bne_iff _ _).mp h'
      rw [Nat.testBit_two_pow] at ha
      have : b = a := by simpa using ha
      subst this
      rw [h] at hs; cases hs

theorem testBit_two_pow_iff (b a : Nat) : (2 ^ b).testBit a = true ↔ a = b := by
  rw [Nat.testBit_two_pow]
  simp [eq_comm]

theorem termSetOr_fst (s op a : Nat) :
    (termSetOr s op).1.testBit a = true ↔ (s.testBit a = true ∨ op.testBit a = true) := by
  simp [termSetOr, Nat.testBit_or]

theorem termSetOr_snd (s op : Nat) :
    (termSetOr s op).2 = true ↔ ∃ a, op.testBit a = true ∧ s.testBit a = false :=
  or_bne_iff s op

theorem termSetOr_snd_false {s op : Nat} (h : (termSetOr s op).2 = false) :
    (termSetOr s op).1 = s ∧ ∀ a, op.testBit a = true → s.testBit a = true := by
  have hsub : ∀ a, op.testBit a = true → s.testBit a = true := by
    intro a ha
    cases hs : s.testBit a
    · have := (termSetOr_snd s op).mpr ⟨a, ha, hs⟩
      rw [h] at this; cases this
    · rfl
  refine ⟨?_, hsub⟩
  apply Nat.eq_of_testBit_eq
  intro i
  simp only [termSetOr, Nat.testBit_or]
  cases ho : op.testBit i
  · simp
  · simp [hsub i ho]

/-! ## the two stores: `set |= mask`, `changed_p |= …` -/

/-- `changed_p |= term_set_or (A->first, m)` -/
def addFirst (st : FF × Bool) (A m : Nat) : FF × Bool :=
  storeFirst st A (termSetOr (st.1.first A) m)

/-- `changed_p |= term_set_or (B->follow, m)` -/
def addFollow (st : FF × Bool) (B m : Nat) : FF × Bool :=
  storeFollow st B (termSetOr (st.1.follow B) m)

/-- `t ∈ FIRST (A)` in the state -/
abbrev FF.inFirst (ff : FF) (A t : Nat) : Prop := (ff.first A).testBit t = true
/-- `t ∈ FOLLOW (A)` in the state -/
abbrev FF.inFollow (ff : FF) (A t : Nat) : Prop := (ff.follow A).testBit t = true

theorem addFirst_first (st : FF × Bool) (A m C t : Nat) :
    (addFirst st A m).1.inFirst C t ↔ (st.1.inFirst C t ∨ (C = A ∧ m.testBit t = true)) := by
  unfold addFirst storeFirst FF.inFirst
  simp only
  by_cases hC : C = A
  · subst hC
    rw [upd_same, termSetOr_fst]; simp
  · rw [upd_other _ _ hC]; simp [hC]

theorem addFirst_follow (st : FF × Bool) (A m : Nat) : (addFirst st A m).1.follow = st.1.follow := rfl

theorem addFollow_follow (st : FF × Bool) (B m C t : Nat) :
    (addFollow st B m).1.inFollow C t ↔ (st.1.inFollow C t ∨ (C = B ∧ m.testBit t = true)) := by
  unfold addFollow storeFollow FF.inFollow
  simp only
  by_cases hC : C = B
  · subst hC
    rw [upd_same, termSetOr_fst]; simp
  · rw [upd_other _ _ hC]; simp [hC]

theorem addFollow_first (st : FF × Bool) (B m : Nat) : (addFollow st B m).1.first = st.1.first := rfl

theorem addFirst_ch (st : FF × Bool) (A m : Nat) :
    (addFirst st A m).2 = true ↔
      (st.2 = true ∨ ∃ t, m.testBit t = true ∧ (st.1.first A).testBit t = false) := by
  unfold addFirst storeFirst
  simp only [Bool.or_eq_true, termSetOr_snd]

theorem addFollow_ch (st : FF × Bool) (B m : Nat) :
    (addFollow st B m).2 = true ↔
      (st.2 = true ∨ ∃ t, m.testBit t = true ∧ (st.1.follow B).testBit t = false) := by
  unfold addFollow storeFollow
  simp only [Bool.or_eq_true, termSetOr_snd]

theorem FF.ext' {a b : FF} (h1 : a.first = b.first) (h2 : a.follow = b.follow) : a = b := by
  cases a; cases b; simp_all

theorem addFirst_noChange {st : FF × Bool} {A m : Nat} (h : (addFirst st A m).2 = false) :
    st.2 = false ∧ (addFirst st A m).1 = st.1 ∧ ∀ t, m.testBit t = true → st.1.inFirst A t := by
  unfold addFirst storeFirst at h ⊢
  simp only [Bool.or_eq_false_iff] at h
  obtain ⟨h1, h2⟩ := termSetOr_snd_false h.2
  refine ⟨h.1, ?_, h2⟩
  apply FF.ext'
  · simp only; rw [h1]; exact upd_self _ _
  · rfl

theorem addFollow_noChange {st : FF × Bool} {B m : Nat} (h : (addFollow st B m).2 = false) :
    st.2 = false ∧ (addFollow st B m).1 = st.1 ∧ ∀ t, m.testBit t = true → st.1.inFollow B t := by
  unfold addFollow storeFollow at h ⊢
  simp only [Bool.or_eq_false_iff] at h
  obtain ⟨h1, h2⟩ := termSetOr_snd_false h.2
  refine ⟨h.1, ?_, h2⟩
  apply FF.ext'
  · rfl
  · simp only; rw [h1]; exact upd_self _ _

/-! ## growth -/

def FF.Le (a b : FF) : Prop :=
  (∀ A t, a.inFirst A t → b.inFirst A t) ∧ (∀ A t, a.inFollow A t → b.inFollow A t)

/-- some set has a terminal it did not have -/
def FF.Strict (a b : FF) : Prop :=
  ∃ A t, (b.inFirst A t ∧ (a.first A).testBit t = false) ∨
         (b.inFollow A t ∧ (a.follow A).testBit t = false)

/-- the sets only grow, and the change flag goes up only if they did grow -/
def Grow (p q : FF × Bool) : Prop :=
  FF.Le p.1 q.1 ∧ (q.2 = true → p.2 = true ∨ FF.Strict p.1 q.1)

theorem FF.Le.refl (a : FF) : FF.Le a a := ⟨fun _ _ h => h, fun _ _ h => h⟩

theorem FF.Le.trans {a b c : FF} (h1 : FF.Le a b) (h2 : FF.Le b c) : FF.Le a c :=
  ⟨fun A t h => h2.1 A t (h1.1 A t h), fun A t h => h2.2 A t (h1.2 A t h)⟩

theorem Grow.refl (p : FF × Bool) : Grow p p := ⟨FF.Le.refl _, fun h => Or.inl h⟩

theorem Grow.trans {p q r : FF × Bool} (h1 : Grow p q) (h2 : Grow q r) : Grow p r := by
  refine ⟨h1.1.trans h2.1, ?_⟩
  intro hr
  rcases h2.2 hr with hq | ⟨A, t, hs⟩
  · rcases h1.2 hq with hp | ⟨A, t, hs⟩
    · exact Or.inl hp
    · right
      refine ⟨A, t, ?_⟩
      rcases hs with ⟨hs1, hs2⟩ | ⟨hs1, hs2⟩
      · exact Or.inl ⟨h2.1.1 A t hs1, hs2⟩
      · exact Or.inr ⟨h2.1.2 A t hs1, hs2⟩
  · right
    refine ⟨A, t, ?_⟩
    rcases hs with ⟨hs1, hs2⟩ | ⟨hs1, hs2⟩
    · left
      refine ⟨hs1, ?_⟩
      cases hx : (p.1.first A).testBit t
      · rfl
      · have := h1.1.1 A t hx
        unfold FF.inFirst at this
        rw [hs2] at this; cases this
    · right
      refine ⟨hs1, ?_⟩
      cases hx : (p.1.follow A).testBit t
      · rfl
      · have := h1.1.2 A t hx
        unfold FF.inFollow at this
        rw [hs2] at this; cases this

theorem addFirst_grow (st : FF × Bool) (A m : Nat) : Grow st (addFirst st A m) := by
  refine ⟨⟨fun C t h => (addFirst_first ..).mpr (Or.inl h), fun C t h => h⟩, ?_⟩
  intro hc
  rcases (addFirst_ch ..).mp hc with h | ⟨t, ht, hf⟩
  · exact Or.inl h
  · exact Or.inr ⟨A, t, Or.inl ⟨(addFirst_first ..).mpr (Or.inr ⟨rfl, ht⟩), hf⟩⟩

theorem addFollow_grow (st : FF × Bool) (B m : Nat) : Grow st (addFollow st B m) := by
  refine ⟨⟨fun C t h => h, fun C t h => (addFollow_follow ..).mpr (Or.inl h)⟩, ?_⟩
  intro hc
  rcases (addFollow_ch ..).mp hc with h | ⟨t, ht, hf⟩
  · exact Or.inl h
  · exact Or.inr ⟨B, t, Or.inr ⟨(addFollow_follow ..).mpr (Or.inr ⟨rfl, ht⟩), hf⟩⟩

/-! ## the steps of the model in terms of `addFirst` / `addFollow` -/

/-- the mask a right-hand-side symbol contributes: `{b}` for a terminal, FIRST for a nonterminal -/
def symMask (ff : FF) : Sym → Nat
  | .t b => 2 ^ b
  | .n C => ff.first C

theorem followScan_nil (empty : Sym → Bool) (B k : Nat) (st : FF × Bool) :
    followScan empty B [] k st = (st, k) := rfl

theorem followScan_cons (empty : Sym → Bool) (B : Nat) (next : Sym) (rest : List Sym) (k : Nat)
    (st : FF × Bool) :
    followScan empty B (next :: rest) k st =
      if !empty next then (addFollow st B (symMask st.1 next), k)
      else followScan empty B rest (k + 1) (addFollow st B (symMask st.1 next)) := by
  cases next with
  | t b =>
    conv => lhs; unfold followScan
    simp only [termSetUp_eq]
    rfl
  | n C =>
    conv => lhs; unfold followScan
    rfl

theorem ffSym_eq (empty : Sym → Bool) (A rhsLen : Nat) (x : Sym) (rest : List Sym) (j : Nat)
    (st : FF × Bool) (fc : Bool) :
    ffSym empty A rhsLen x rest j st fc =
      (let st1 := if fc then addFirst st A (symMask st.1 x) else st
       match x with
       | .t _ => st1
       | .n B =>
         let p2 := followScan empty B rest (j + 1) st1
         if p2.2 == rhsLen then addFollow p2.1 B (p2.1.1.follow A) else p2.1) := by
  cases x with
  | t b =>
    unfold ffSym
    simp only [termSetUp_eq]
    rfl
  | n B => rfl

/-! ## growth of every step -/

theorem followScan_grow (empty : Sym → Bool) (B : Nat) :
    ∀ (l : List Sym) (k : Nat) (st : FF × Bool), Grow st (followScan empty B l k st).1 := by
  intro l
  induction l with
  | nil => intro k st; exact Grow.refl _
  | cons next rest ih =>
    intro k st
    rw [followScan_cons]
    split
    · exact addFollow_grow _ _ _
    · exact (addFollow_grow _ _ _).trans (ih _ _)

theorem ffSym_grow (empty : Sym → Bool) (A rhsLen : Nat) (x : Sym) (rest : List Sym) (j : Nat)
    (st : FF × Bool) (fc : Bool) : Grow st (ffSym empty A rhsLen x rest j st fc) := by
  rw [ffSym_eq]
  have h1 : Grow st (if fc then addFirst st A (symMask st.1 x) else st) := by
    split
    · exact addFirst_grow _ _ _
    · exact Grow.refl _
  cases x with
  | t b => exact h1
  | n B =>
    simp only
    generalize (if fc then addFirst st A (symMask st.1 (.n B)) else st) = st1 at h1 ⊢
    have h2 := followScan_grow empty B rest (j + 1) st1
    split
    · exact h1.trans (h2.trans (addFollow_grow _ _ _))
    · exact h1.trans h2

theorem ffRhs_grow (empty : Sym → Bool) (A rhsLen : Nat) :
    ∀ (l : List Sym) (j : Nat) (st : FF × Bool) (fc : Bool),
      Grow st (ffRhs empty A rhsLen l j st fc) := by
  intro l
  induction l with
  | nil => intro j st fc; exact Grow.refl _
  | cons x rest ih =>
    intro j st fc
    unfold ffRhs
    exact (ffSym_grow ..).trans (ih _ _ _)

theorem ffRule_grow (empty : Sym → Bool) (A : Nat) (st : FF × Bool) (r : Rule) :
    Grow st (ffRule empty A st r) := ffRhs_grow ..

theorem ffNonterm_grow (g : Grammar) (empty : Sym → Bool) (st : FF × Bool) (A : Nat) :
    Grow st (ffNonterm g empty st A) :=
  foldl_rel (ffRule empty A) Grow Grow.refl (fun _ _ _ => Grow.trans) _
    (fun s r _ => ffRule_grow empty A s r) st

theorem ffPass_grow (g : Grammar) (empty : Sym → Bool) (ff : FF) :
    Grow (ff, false) (ffPass g empty ff) :=
  foldl_rel (ffNonterm g empty) Grow Grow.refl (fun _ _ _ => Grow.trans) _
    (fun s A _ => ffNonterm_grow g empty s A) (ff, false)

/-! ## steps that raise no change flag -/

/-- `m ⊆ s` as terminal sets -/
def MaskIn (m s : Nat) : Prop := ∀ t, m.testBit t = true → s.testBit t = true

/-- what the `k` loop leaves closed: every symbol of `l` up to and including the first one that
is not `empty_p` has its mask in FOLLOW (`B`) -/
def FollowItems (empty : Sym → Bool) (ff : FF) (B : Nat) (l : List Sym) : Prop :=
  ∀ (mid : List Sym) (y : Sym) (post : List Sym), l = mid ++ y :: post →
    (∀ s ∈ mid, empty s = true) → MaskIn (symMask ff y) (ff.follow B)

theorem followScan_noChange (empty : Sym → Bool) (B : Nat) :
    ∀ (l : List Sym) (k : Nat) (st : FF × Bool), (followScan empty B l k st).1.2 = false →
      st.2 = false ∧ (followScan empty B l k st).1.1 = st.1 ∧ FollowItems empty st.1 B l := by
  intro l
  induction l with
  | nil =>
    intro k st h
    refine ⟨h, rfl, ?_⟩
    intro mid y post hl
    cases mid <;> cases hl
  | cons next rest ih =>
    intro k st h
    rw [followScan_cons] at h ⊢
    split at h
    · rename_i hne
      rw [if_pos hne]
      obtain ⟨h1, h2, h3⟩ := addFollow_noChange h
      refine ⟨h1, h2, ?_⟩
      intro mid y post hl hmid
      cases mid with
      | nil =>
        simp only [List.nil_append, List.cons.injEq] at hl
        rw [← hl.1]; exact h3
      | cons m mid' =>
        simp only [List.cons_append, List.cons.injEq] at hl
        have := hmid m List.mem_cons_self
        rw [← hl.1] at this
        simp [this] at hne
    · rename_i hne
      rw [if_neg hne]
      obtain ⟨h1, h2, h3⟩ := ih _ _ h
      obtain ⟨h4, h5, h6⟩ := addFollow_noChange h1
      refine ⟨h4, h2.trans h5, ?_⟩
      intro mid y post hl hmid
      cases mid with
      | nil =>
        simp only [List.nil_append, List.cons.injEq] at hl
        rw [← hl.1]; exact h6
      | cons m mid' =>
        simp only [List.cons_append, List.cons.injEq] at hl
        rw [← h5]
        exact h3 mid' y post hl.2 (fun s hs => hmid s (List.mem_cons_of_mem _ hs))

/-- the `k` at which the loop is left: `rhs_len` exactly when no `break` was taken -/
theorem followScan_k (empty : Sym → Bool) (B : Nat) :
    ∀ (l : List Sym) (k : Nat) (st : FF × Bool),
      (followScan empty B l k st).2 = k + l.length ↔ ∀ s ∈ l, empty s = true := by
  intro l
  induction l with
  | nil => intro k st; simp [followScan_nil]
  | cons next rest ih =>
    intro k st
    rw [followScan_cons]
    split
    · rename_i hne
      have hne' : empty next = false := by simpa using hne
      simp only [List.length_cons, List.mem_cons, forall_eq_or_imp, hne', Bool.false_eq_true,
        false_and, iff_false]
      omega
    · rename_i hne
      have hne' : empty next = true := by simpa using hne
      rw [show k + (next :: rest).length = k + 1 + rest.length by simp; omega, ih]
      simp [hne']

/-- what the `j` loop leaves closed in the part `l` of a right-hand side of `A` -/
def SuffixClosed (empty : Sym → Bool) (ff : FF) (A : Nat) (fc : Bool) (l : List Sym) : Prop :=
  ∀ (pre : List Sym) (x : Sym) (post : List Sym), l = pre ++ x :: post →
    ((fc = true ∧ ∀ s ∈ pre, empty s = true) → MaskIn (symMask ff x) (ff.first A)) ∧
    (∀ B, x = .n B → FollowItems empty ff B post ∧
      ((∀ s ∈ post, empty s = true) → MaskIn (ff.follow A) (ff.follow B)))

theorem ffSym_noChange (empty : Sym → Bool) (A rhsLen : Nat) (x : Sym) (rest : List Sym) (j : Nat)
    (st : FF × Bool) (fc : Bool) (hlen : j + 1 + rest.length = rhsLen)
    (h : (ffSym empty A rhsLen x rest j st fc).2 = false) :
    st.2 = false ∧ (ffSym empty A rhsLen x rest j st fc).1 = st.1 ∧
    (fc = true → MaskIn (symMask st.1 x) (st.1.first A)) ∧
    (∀ B, x = .n B → FollowItems empty st.1 B rest ∧
      ((∀ s ∈ rest, empty s = true) → MaskIn (st.1.follow A) (st.1.follow B))) := by
  rw [ffSym_eq] at h ⊢
  -- the first store
  have hst1 : ∀ st1, st1 = (if fc then addFirst st A (symMask st.1 x) else st) → st1.2 = false →
      st.2 = false ∧ st1.1 = st.1 ∧ (fc = true → MaskIn (symMask st.1 x) (st.1.first A)) := by
    intro st1 he h1
    cases fc with
    | false =>
      simp only [Bool.false_eq_true, if_false] at he
      subst he
      exact ⟨h1, rfl, fun hh => by cases hh⟩
    | true =>
      simp only [if_true] at he
      subst he
      obtain ⟨h2, h3, h4⟩ := addFirst_noChange h1
      exact ⟨h2, h3, fun _ => h4⟩
  cases x with
  | t b =>
    simp only at h ⊢
    obtain ⟨h1, h2, h3⟩ := hst1 _ rfl h
    exact ⟨h1, h2, h3, fun B hB => by cases hB⟩
  | n B =>
    simp only at h ⊢
    generalize hst1e : (if fc then addFirst st A (symMask st.1 (.n B)) else st) = st1 at h ⊢
    have hk := followScan_k empty B rest (j + 1) st1
    rw [hlen] at hk
    generalize hp2 : followScan empty B rest (j + 1) st1 = p2 at h hk ⊢
    have hns := followScan_noChange empty B rest (j + 1) st1
    rw [hp2] at hns
    by_cases hkk : p2.2 = rhsLen
    · have hb : (p2.2 == rhsLen) = true := by simpa using hkk
      rw [hb] at h ⊢
      simp only [if_true] at h ⊢
      obtain ⟨h1, h2, h3⟩ := addFollow_noChange h
      obtain ⟨h4, h5, h6⟩ := hns h1
      obtain ⟨h7, h8, h9⟩ := hst1 st1 hst1e.symm h4
      have hall := hk.mp hkk
      refine ⟨h7, h2.trans (h5.trans h8), h9, ?_⟩
      intro B' hB'
      simp only [Sym.n.injEq] at hB'
      subst hB'
      rw [← h8]
      refine ⟨h6, fun _ => ?_⟩
      rw [← h5]
      exact h3
    · have hb : (p2.2 == rhsLen) = false := by simpa using hkk
      rw [hb] at h ⊢
      simp only [Bool.false_eq_true, if_false] at h ⊢
      obtain ⟨h4, h5, h6⟩ := hns h
      obtain ⟨h7, h8, h9⟩ := hst1 st1 hst1e.symm h4
      refine ⟨h7, h5.trans h8, h9, ?_⟩
      intro B' hB'
      simp only [Sym.n.injEq] at hB'
      subst hB'
      rw [← h8]
      exact ⟨h6, fun hall => absurd (hk.mpr hall) hkk⟩

theorem ffRhs_noChange (empty : Sym → Bool) (A rhsLen : Nat) :
    ∀ (l : List Sym) (j : Nat) (st : FF × Bool) (fc : Bool), j + l.length = rhsLen →
      (ffRhs empty A rhsLen l j st fc).2 = false →
      st.2 = false ∧ (ffRhs empty A rhsLen l j st fc).1 = st.1 ∧
        SuffixClosed empty st.1 A fc l := by
  intro l
  induction l with
  | nil =>
    intro j st fc _ h
    refine ⟨h, rfl, ?_⟩
    intro pre x post hl
    cases pre <;> cases hl
  | cons y rest ih =>
    intro j st fc hlen h
    unfold ffRhs at h ⊢
    simp only [List.length_cons] at hlen
    obtain ⟨h1, h2, h3⟩ := ih (j + 1) _ _ (by omega) h
    obtain ⟨h4, h5, h6, h7⟩ := ffSym_noChange empty A rhsLen y rest j st fc (by omega) h1
    refine ⟨h4, h2.trans h5, ?_⟩
    intro pre x post hl
    cases pre with
    | nil =>
      simp only [List.nil_append, List.cons.injEq] at hl
      obtain ⟨rfl, rfl⟩ := hl
      exact ⟨fun hh => h6 hh.1, h7⟩
    | cons p pre' =>
      simp only [List.cons_append, List.cons.injEq] at hl
      obtain ⟨rfl, hl⟩ := hl
      have := h3 pre' x post hl
      rw [h5] at this
      refine ⟨?_, this.2⟩
      rintro ⟨hfc, hpre⟩
      apply this.1
      have hy : empty y = true := hpre y List.mem_cons_self
      exact ⟨by simp [hy, hfc], fun s hs => hpre s (List.mem_cons_of_mem _ hs)⟩

theorem ffRule_noChange (empty : Sym → Bool) (A : Nat) (st : FF × Bool) (r : Rule)
    (h : (ffRule empty A st r).2 = false) :
    st.2 = false ∧ (ffRule empty A st r).1 = st.1 ∧ SuffixClosed empty st.1 A true r.rhs :=
  ffRhs_noChange empty A r.rhs.length r.rhs 0 st true (by omega) h

theorem ffNonterm_noChange (g : Grammar) (empty : Sym → Bool) (st : FF × Bool) (A : Nat)
    (h : (ffNonterm g empty st A).2 = false) :
    st.2 = false ∧ (ffNonterm g empty st A).1 = st.1 ∧
      ∀ r ∈ g.rules, r.lhs = A → SuffixClosed empty st.1 A true r.rhs := by
  obtain ⟨h1, h2, h3⟩ := foldl_closed (ffRule empty A) (fun st => st.2) (fun st => st.1)
    (fun r ff => SuffixClosed empty ff A true r.rhs) (rulesOf g A)
    (fun s r _ hc => ffRule_noChange empty A s r hc) st h
  exact ⟨h1, h2, fun r hr hl => h3 r (mem_rulesOf.mpr ⟨hr, hl⟩)⟩

/-- a pass that leaves `changed_p` down has changed nothing, and every rule of every nonterminal
`< nN` is closed -/
theorem ffPass_noChange (g : Grammar) (empty : Sym → Bool) (ff : FF)
    (h : (ffPass g empty ff).2 = false) :
    (ffPass g empty ff).1 = ff ∧
      ∀ A < g.nN, ∀ r ∈ g.rules, r.lhs = A → SuffixClosed empty ff A true r.rhs := by
  obtain ⟨_, h2, h3⟩ := foldl_closed (ffNonterm g empty) (fun st => st.2) (fun st => st.1)
    (fun A ff => ∀ r ∈ g.rules, r.lhs = A → SuffixClosed empty ff A true r.rhs) (List.range g.nN)
    (fun s A _ hc => ffNonterm_noChange g empty s A hc) (ff, false) h
  exact ⟨h2, fun A hA => h3 A (List.mem_range.mpr hA)⟩

end Yaep.AC
