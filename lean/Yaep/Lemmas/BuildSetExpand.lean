import Yaep.Model.BuildSet
import Yaep.Lemmas.Earley
import Yaep.Lemmas.Analysis
import Yaep.Lemmas.Saturate
/-!
# Helper lemmas for `Yaep/Model/BuildSet.lean`, part 1: `expand_new_start_set`

The step-for-step model of `build_start_set` / `build_new_set` / `expand_new_start_set` /
`set_insert` computes, as sets of items, the sets of the abstract model `Yaep/Model/Earley.lean`.
The main statements are collected in `Yaep/Props/BuildSet.lean`.
-/
namespace Yaep.BS
open Yaep

/-! ## association lists of vectors -/

section Vect
variable {κ : Type} [DecidableEq κ]

theorem vfind_vadd (l : List (κ × List Nat)) (k k' : κ) (i : Nat) :
    vfind (vadd l k i) k' = if k = k' then some ((vfind l k).getD [] ++ [i]) else vfind l k' := by
  induction l with
  | nil =>
    simp only [vadd, vfind]
    split <;> simp
  | cons a l ih =>
    obtain ⟨k0, v⟩ := a
    simp only [vadd]
    by_cases h0 : k0 = k
    · subst h0
      simp only [if_true, vfind]
      by_cases h1 : k0 = k' <;> simp [h1]
    · simp only [if_neg h0, vfind]
      by_cases h1 : k0 = k'
      · subst h1
        have : ¬ k = k0 := fun h => h0 h.symm
        simp [this]
      · simp only [if_neg h1, ih]

end Vect

/-! ## the generic scanning loop -/

section Scan
variable {σ : Type} {len : σ → Nat} {step : σ → Nat → σ}

/-- Invariant rule for `scanLoop`: if the length is bounded, the loop leaves through its
test and the invariant holds at the final length. -/
theorem scanLoop_inv (Inv : Nat → σ → Prop) (bound : Nat)
    (hstep : ∀ i s, Inv i s → i < len s → Inv (i + 1) (step s i) ∧ i + 1 ≤ len (step s i))
    (hbound : ∀ i s, Inv i s → len s ≤ bound) :
    ∀ fuel i s, Inv i s → i ≤ len s → bound < fuel + i →
      Inv (len (scanLoop len step fuel i s)) (scanLoop len step fuel i s) := by
  intro fuel
  induction fuel with
  | zero =>
    intro i s hI hi hb
    have := hbound i s hI
    omega
  | succ fuel ih =>
    intro i s hI hi hb
    unfold scanLoop
    by_cases hlt : i < len s
    · rw [if_pos hlt]
      obtain ⟨h1, h2⟩ := hstep i s hI hlt
      exact ih (i + 1) (step s i) h1 h2 (by omega)
    · rw [if_neg hlt]
      have : i = len s := by omega
      rw [← this]; exact hI

/-- Under the same hypotheses more fuel does not change the result. -/
theorem scanLoop_stable (Inv : Nat → σ → Prop) (bound : Nat)
    (hstep : ∀ i s, Inv i s → i < len s → Inv (i + 1) (step s i) ∧ i + 1 ≤ len (step s i))
    (hbound : ∀ i s, Inv i s → len s ≤ bound) :
    ∀ fuel i s, Inv i s → i ≤ len s → bound < fuel + i → ∀ extra,
      scanLoop len step (fuel + extra) i s = scanLoop len step fuel i s := by
  intro fuel
  induction fuel with
  | zero =>
    intro i s hI hi hb
    have := hbound i s hI
    omega
  | succ fuel ih =>
    intro i s hI hi hb extra
    have e : fuel + 1 + extra = (fuel + extra) + 1 := by omega
    rw [e]
    unfold scanLoop
    by_cases hlt : i < len s
    · rw [if_pos hlt, if_pos hlt]
      obtain ⟨h1, h2⟩ := hstep i s hI hlt
      exact ih (i + 1) (step s i) h1 h2 (by omega) extra
    · rw [if_neg hlt, if_neg hlt]

/-- a property preserved by every step holds of the result (no fuel condition) -/
theorem scanLoop_preserves (P : σ → Prop) (hstep : ∀ i s, P s → i < len s → P (step s i)) :
    ∀ fuel i s, P s → P (scanLoop len step fuel i s) := by
  intro fuel
  induction fuel with
  | zero => intro i s h; exact h
  | succ fuel ih =>
    intro i s h
    unfold scanLoop
    split
    · rename_i hlt; exact ih _ _ (hstep i s h hlt)
    · exact h

end Scan

/-! ## small list facts -/

theorem zip_append_of_length_le {α β : Type} (l1 e : List α) (l2 : List β)
    (h : l2.length ≤ l1.length) : (l1 ++ e).zip l2 = l1.zip l2 := by
  induction l1 generalizing l2 with
  | nil =>
    have : l2 = [] := List.eq_nil_of_length_eq_zero (by simpa using h)
    subst this; simp
  | cons a l1 ih =>
    cases l2 with
    | nil => simp
    | cons b l2 =>
      simp only [List.cons_append, List.zip_cons_cons, List.cons.injEq, true_and]
      exact ih l2 (by simpa using h)

theorem foldl_range_succ {β : Type} (f : β → Nat → β) (b : β) (n : Nat) :
    (List.range (n + 1)).foldl f b = f ((List.range n).foldl f b) n := by
  rw [List.range_succ, List.foldl_append]; rfl

/-! ## runs of nullable symbols -/

/-- length of the longest prefix of nullable symbols -/
def nullRun (nl : List Nat) : List Sym → Nat
  | [] => 0
  | s :: rest => if symNullable nl s then nullRun nl rest + 1 else 0

theorem nullRun_cons (nl : List Nat) (s : Sym) (rest : List Sym) :
    nullRun nl (s :: rest) = if symNullable nl s then nullRun nl rest + 1 else 0 := rfl

theorem nullRun_le_length (nl : List Nat) (l : List Sym) : nullRun nl l ≤ l.length := by
  induction l with
  | nil => simp [nullRun]
  | cons s rest ih =>
    unfold nullRun
    split <;> simp <;> omega

theorem nullRun_get {nl : List Nat} {l : List Sym} {k : Nat} (h : k < nullRun nl l) :
    ∃ s, l[k]? = some s ∧ symNullable nl s = true := by
  induction l generalizing k with
  | nil => simp [nullRun] at h
  | cons s rest ih =>
    unfold nullRun at h
    split at h
    · rename_i hs
      cases k with
      | zero => exact ⟨s, rfl, hs⟩
      | succ k => simpa using ih (by omega)
    · omega

theorem nullRun_extend {nl : List Nat} {l : List Sym} {k : Nat} {s : Sym}
    (h : k ≤ nullRun nl l) (hs : l[k]? = some s) (hn : symNullable nl s = true) :
    k < nullRun nl l := by
  induction l generalizing k with
  | nil => simp at hs
  | cons a rest ih =>
    unfold nullRun at h ⊢
    cases k with
    | zero =>
      simp only [List.getElem?_cons_zero, Option.some.injEq] at hs
      subst hs
      rw [if_pos hn]; omega
    | succ k =>
      split at h
      · rename_i ha
        rw [if_pos ha]
        have := ih (k := k) (by omega) (by simpa using hs)
        omega
      · omega

theorem nullRun_eq_length_iff {nl : List Nat} {l : List Sym} :
    nullRun nl l = l.length ↔ l.all (symNullable nl) = true := by
  induction l with
  | nil => simp [nullRun]
  | cons s rest ih =>
    unfold nullRun
    by_cases hs : symNullable nl s = true
    · rw [if_pos hs]
      simp only [List.length_cons, Nat.add_right_cancel_iff, List.all_cons, hs, Bool.true_and]
      exact ih
    · rw [if_neg hs]
      simp [hs]

theorem nullRun_drop {nl : List Nat} {l : List Sym} {k : Nat} (h : k ≤ nullRun nl l) :
    nullRun nl (l.drop k) = nullRun nl l - k := by
  induction l generalizing k with
  | nil => simp [nullRun]
  | cons s rest ih =>
    cases k with
    | zero => simp
    | succ k =>
      unfold nullRun at h
      split at h
      · rename_i hs
        simp only [List.drop_succ_cons]
        rw [ih (by omega)]
        conv => rhs; unfold nullRun
        rw [if_pos hs]; omega
      · omega

/-! ## the situations of the grammar -/

def sitUniv (g : Grammar) : List Sit :=
  (List.range g.rules.length).flatMap fun r => (List.range (g.maxRhs + 1)).map fun d => (r, d)

theorem mem_sitUniv {g : Grammar} {x : Sit} :
    x ∈ sitUniv g ↔ x.1 < g.rules.length ∧ x.2 ≤ g.maxRhs := by
  unfold sitUniv
  simp only [List.mem_flatMap, List.mem_map, List.mem_range]
  constructor
  · rintro ⟨r, hr, d, hd, rfl⟩; exact ⟨hr, by simp only; omega⟩
  · rintro ⟨h1, h2⟩; exact ⟨x.1, h1, x.2, by omega, rfl⟩

theorem length_sitUniv (g : Grammar) : (sitUniv g).length = sitBound g := by
  unfold sitUniv sitBound
  rw [length_flatMap_const _ _ (g.maxRhs + 1), List.length_range]
  intro r _
  rw [List.length_map, List.length_range]

/-- a situation with a symbol after the dot, and the one with the dot moved over it, are
situations of the grammar -/
theorem next_in_sitUniv {g : Grammar} {r d : Nat} {X : Sym} (h : g.nextSym r d = some X) :
    (r, d) ∈ sitUniv g ∧ (r, d + 1) ∈ sitUniv g := by
  obtain ⟨rl, hr, hs⟩ := nextSym_eq_some.mp h
  have h1 := (List.getElem?_eq_some_iff.mp hr).1
  have h2 := (List.getElem?_eq_some_iff.mp hs).1
  have h3 := le_maxRhs (List.mem_of_getElem? hr)
  exact ⟨mem_sitUniv.mpr ⟨h1, by simp only; omega⟩, mem_sitUniv.mpr ⟨h1, by simp only; omega⟩⟩

theorem mem_rulesOf {g : Grammar} {A r : Nat} :
    r ∈ rulesOf g A ↔ ∃ rl, g.rules[r]? = some rl ∧ rl.lhs = A := by
  unfold rulesOf
  rw [List.mem_reverse]; exact mem_rulesFor

/-! ## the three parts of a core -/

def Core.startPart (c : Core) : List Sit := c.sits.take c.nStart
/-- derived non-start situations with their parents -/
def Core.derived (c : Core) : List (Sit × Nat) :=
  ((c.sits.take c.nAllDists).drop c.nStart).zip c.parents
def Core.initPart (c : Core) : List Sit := c.sits.drop c.nAllDists

/-- a predicate on tagged situations (`some p`: the distance is the one of start situation
`p`; `none`: distance 0) holds of every situation of the core -/
def AllQ (Q : Nat → Nat → Option Nat → Prop) (c : Core) : Prop :=
  (∀ i sit, c.startPart[i]? = some sit → Q sit.1 sit.2 (some i)) ∧
  (∀ x ∈ c.derived, Q x.1.1 x.1.2 (some x.2)) ∧
  (∀ sit ∈ c.initPart, Q sit.1 sit.2 none)

/-- the state of a core during the first loop of `expand_new_start_set` -/
structure L1Inv (ss : List Sit) (c : Core) : Prop where
  nStart : c.nStart = ss.length
  start : c.sits.take c.nStart = ss
  len : c.sits.length = c.nAllDists
  nAll : c.nAllDists = c.nStart + c.parents.length
  trans : c.trans = []
  reduces : c.reduces = []

theorem L1Inv_fresh (num : Nat) (ss : List Sit) : L1Inv ss (Core.fresh num ss) :=
  ⟨rfl, by simp [Core.fresh], rfl, by simp [Core.fresh], rfl, rfl⟩

theorem L1Inv.derived_eq {ss : List Sit} {c : Core} (h : L1Inv ss c) :
    c.derived = (c.sits.drop c.nStart).zip c.parents := by
  unfold Core.derived
  rw [← h.len, List.take_length]

theorem L1Inv.initPart_eq {ss : List Sit} {c : Core} (h : L1Inv ss c) : c.initPart = [] := by
  unfold Core.initPart
  rw [← h.len, List.drop_length]

theorem addNonstartSit_num (c : Core) (sit : Sit) (p : Nat) : (addNonstartSit c sit p).num = c.num := by
  unfold addNonstartSit; split <;> rfl

theorem addNonstartSit_spec {ss : List Sit} {c : Core} (h : L1Inv ss c) (sit : Sit) (p : Nat) :
    L1Inv ss (addNonstartSit c sit p) ∧
    ∀ x, x ∈ (addNonstartSit c sit p).derived ↔ x ∈ c.derived ∨ x = (sit, p) := by
  unfold addNonstartSit
  by_cases hd : dupNonstart c sit p = true
  · rw [if_pos hd]
    refine ⟨h, fun x => ⟨Or.inl, ?_⟩⟩
    rintro (hx | rfl)
    · exact hx
    · rw [h.derived_eq]
      unfold dupNonstart at hd
      simpa using hd
  · rw [if_neg hd]
    have hlen : (c.sits.drop c.nStart).length = c.parents.length := by
      rw [List.length_drop, h.len, h.nAll]; omega
    have hns : c.nStart ≤ c.sits.length := by rw [h.len, h.nAll]; omega
    have hI : L1Inv ss { c with sits := c.sits ++ [sit], nAllDists := c.nAllDists + 1,
                                parents := c.parents ++ [p] } := by
      refine ⟨h.nStart, ?_, ?_, ?_, h.trans, h.reduces⟩
      · simp only; rw [List.take_append_of_le_length hns]; exact h.start
      · simp only [List.length_append, List.length_singleton, h.len]
      · simp only [List.length_append, List.length_singleton, h.nAll]; omega
    refine ⟨hI, fun x => ?_⟩
    rw [hI.derived_eq, h.derived_eq]
    simp only
    rw [List.drop_append_of_le_length hns, List.zip_append hlen]
    simp

theorem addNonstartSit_allQ {ss : List Sit} {c : Core} (h : L1Inv ss c) (sit : Sit) (p : Nat)
    {Q : Nat → Nat → Option Nat → Prop} (hq : AllQ Q c) (hnew : Q sit.1 sit.2 (some p)) :
    AllQ Q (addNonstartSit c sit p) := by
  obtain ⟨hI, hd⟩ := addNonstartSit_spec h sit p
  refine ⟨?_, ?_, ?_⟩
  · intro i s hs
    have e : (addNonstartSit c sit p).startPart = c.startPart := by
      unfold Core.startPart; rw [hI.start, h.start]
    rw [e] at hs
    exact hq.1 i s hs
  · intro x hx
    rcases (hd x).mp hx with hx | rfl
    · exact hq.2.1 x hx
    · exact hnew
  · intro s hs
    rw [hI.initPart_eq] at hs
    cases hs

theorem addDerivedLoop_num (nl : List Nat) (r p : Nat) (rest : List Sym) (i : Nat) (c : Core) :
    (addDerivedLoop nl r p rest i c).num = c.num := by
  induction rest generalizing i c with
  | nil => rfl
  | cons s rest ih =>
    unfold addDerivedLoop
    split
    · rw [ih, addNonstartSit_num]
    · rfl

theorem addDerivedLoop_spec {ss : List Sit} (nl : List Nat) (r p : Nat) (rest : List Sym) (i : Nat)
    {c : Core} (h : L1Inv ss c) :
    L1Inv ss (addDerivedLoop nl r p rest i c) ∧
    ∀ x, x ∈ (addDerivedLoop nl r p rest i c).derived ↔
      x ∈ c.derived ∨ ∃ k, k < nullRun nl rest ∧ x = ((r, i + k + 1), p) := by
  induction rest generalizing i c with
  | nil =>
    refine ⟨h, fun x => ⟨Or.inl, ?_⟩⟩
    rintro (hx | ⟨k, hk, _⟩)
    · exact hx
    · simp [nullRun] at hk
  | cons s rest ih =>
    unfold addDerivedLoop
    rw [nullRun_cons]
    by_cases hs : symNullable nl s = true
    · rw [if_pos hs, if_pos hs]
      obtain ⟨hI, hd⟩ := addNonstartSit_spec h (r, i + 1) p
      obtain ⟨hI', hd'⟩ := ih (i + 1) hI
      refine ⟨hI', fun x => ?_⟩
      rw [hd', hd]
      constructor
      · rintro ((hx | rfl) | ⟨k, hk, rfl⟩)
        · exact Or.inl hx
        · exact Or.inr ⟨0, by omega, rfl⟩
        · exact Or.inr ⟨k + 1, by omega, by rw [show i + 1 + k + 1 = i + (k + 1) + 1 by omega]⟩
      · rintro (hx | ⟨k, hk, rfl⟩)
        · exact Or.inl (Or.inl hx)
        · cases k with
          | zero => exact Or.inl (Or.inr rfl)
          | succ k =>
            exact Or.inr ⟨k, by omega, by rw [show i + 1 + k + 1 = i + (k + 1) + 1 by omega]⟩
    · rw [if_neg hs, if_neg hs]
      refine ⟨h, fun x => ⟨Or.inl, ?_⟩⟩
      rintro (hx | ⟨k, hk, _⟩)
      · exact hx
      · omega

theorem addDerivedLoop_allQ {ss : List Sit} (nl : List Nat) (r p : Nat) (rl : Rule)
    {Q : Nat → Nat → Option Nat → Prop}
    (hq1 : ∀ d s, Q r d (some p) → rl.rhs[d]? = some s → symNullable nl s = true →
      Q r (d + 1) (some p))
    (rest : List Sym) (i : Nat) (hrest : rest = rl.rhs.drop i)
    {c : Core} (h : L1Inv ss c) (hq : AllQ Q c) (hcur : Q r i (some p)) :
    AllQ Q (addDerivedLoop nl r p rest i c) := by
  induction rest generalizing i c with
  | nil => exact hq
  | cons s rest ih =>
    unfold addDerivedLoop
    obtain ⟨hsi, hdrop⟩ := drop_succ_of_drop_cons hrest.symm
    by_cases hs : symNullable nl s = true
    · rw [if_pos hs]
      have hnext := hq1 i s hcur hsi hs
      exact ih (i + 1) hdrop.symm (addNonstartSit_spec h (r, i + 1) p).1
        (addNonstartSit_allQ h (r, i + 1) p hq hnext) hnext
    · rw [if_neg hs]; exact hq

theorem addDerivedNonstartSits_num (g : Grammar) (an : Analysis) (c : Core) (sit : Sit) (p : Nat) :
    (addDerivedNonstartSits g an c sit p).num = c.num := by
  unfold addDerivedNonstartSits
  split
  · rfl
  · exact addDerivedLoop_num ..

theorem addDerivedNonstartSits_spec {ss : List Sit} (g : Grammar) (an : Analysis) {c : Core}
    (h : L1Inv ss c) (sit : Sit) (p : Nat) :
    L1Inv ss (addDerivedNonstartSits g an c sit p) ∧
    ∀ x, x ∈ (addDerivedNonstartSits g an c sit p).derived ↔
      x ∈ c.derived ∨ ∃ rl k, g.rules[sit.1]? = some rl ∧
        k < nullRun an.nl (rl.rhs.drop sit.2) ∧ x = ((sit.1, sit.2 + k + 1), p) := by
  unfold addDerivedNonstartSits
  split
  · rename_i hr
    refine ⟨h, fun x => ⟨Or.inl, ?_⟩⟩
    rintro (hx | ⟨rl, k, hrl, _⟩)
    · exact hx
    · rw [hr] at hrl; cases hrl
  · rename_i rl hr
    obtain ⟨hI, hd⟩ := addDerivedLoop_spec an.nl sit.1 p (rl.rhs.drop sit.2) sit.2 h
    refine ⟨hI, fun x => ?_⟩
    rw [hd]
    constructor
    · rintro (hx | ⟨k, hk, rfl⟩)
      · exact Or.inl hx
      · exact Or.inr ⟨rl, k, hr, hk, rfl⟩
    · rintro (hx | ⟨rl', k, hrl, hk, rfl⟩)
      · exact Or.inl hx
      · rw [hr] at hrl; cases hrl; exact Or.inr ⟨k, hk, rfl⟩

/-- `x = (situation, parent)` is one of the situations `add_derived_nonstart_sits` makes from
start situation `parent`: the dot moved over `k + 1` nullable symbols -/
def DerivedFrom (g : Grammar) (nl : List Nat) (ss : List Sit) (x : Sit × Nat) : Prop :=
  ∃ r d rl k, ss[x.2]? = some (r, d) ∧ g.rules[r]? = some rl ∧
    k < nullRun nl (rl.rhs.drop d) ∧ x.1 = (r, d + k + 1)

theorem L1Inv.getD_start {ss : List Sit} {c : Core} (h : L1Inv ss c) {i : Nat} (hi : i < ss.length) :
    ss[i]? = some (c.sits.getD i default) := by
  have e : ss[i]? = c.sits[i]? := by
    rw [← h.start, List.getElem?_take_of_lt (by rw [h.nStart]; exact hi)]
  have hlt : i < c.sits.length := by
    have := h.len; have := h.nAll; have := h.nStart; omega
  rw [e, List.getD_eq_getElem?_getD, List.getElem?_eq_getElem hlt]; rfl

/-- the first `n` rounds of the first loop -/
def loop1N (g : Grammar) (an : Analysis) (c : Core) (n : Nat) : Core :=
  (List.range n).foldl (fun c i => addDerivedNonstartSits g an c (c.sits.getD i default) i) c

theorem loop1N_succ (g : Grammar) (an : Analysis) (c : Core) (n : Nat) :
    loop1N g an c (n + 1) =
      addDerivedNonstartSits g an (loop1N g an c n) ((loop1N g an c n).sits.getD n default) n := by
  unfold loop1N; rw [foldl_range_succ]

theorem expandLoop1_aux {ss : List Sit} (g : Grammar) (an : Analysis) {c : Core} (h : L1Inv ss c)
    (hd : c.derived = []) (n : Nat) (hn : n ≤ ss.length) :
    L1Inv ss (loop1N g an c n) ∧ (loop1N g an c n).num = c.num ∧
      ∀ x, x ∈ (loop1N g an c n).derived ↔ x.2 < n ∧ DerivedFrom g an.nl ss x := by
  induction n with
  | zero =>
    refine ⟨h, rfl, fun x => ?_⟩
    show x ∈ c.derived ↔ _
    rw [hd]; simp
  | succ n ih =>
    obtain ⟨hI, hnum, hder⟩ := ih (by omega)
    rw [loop1N_succ]
    generalize loop1N g an c n = c1 at hI hder hnum
    obtain ⟨hI', hd'⟩ := addDerivedNonstartSits_spec g an hI (c1.sits.getD n default) n
    refine ⟨hI', by rw [addDerivedNonstartSits_num, hnum], fun x => ?_⟩
    rw [hd', hder]
    have hget := hI.getD_start (i := n) (by omega)
    constructor
    · rintro (⟨hx, hdf⟩ | ⟨rl, k, hrl, hk, rfl⟩)
      · exact ⟨by omega, hdf⟩
      · exact ⟨Nat.lt_succ_self _, _, _, rl, k, hget, hrl, hk, rfl⟩
    · rintro ⟨hx, r, d, rl, k, hs, hrl, hk, hx1⟩
      rcases Nat.lt_or_ge x.2 n with hlt | hge
      · exact Or.inl ⟨hlt, r, d, rl, k, hs, hrl, hk, hx1⟩
      · have hxn : x.2 = n := by omega
        right
        rw [hxn, hget] at hs
        have hs' := Option.some.inj hs
        refine ⟨rl, k, by rw [hs']; exact hrl, by rw [hs']; exact hk, ?_⟩
        obtain ⟨x1, x2⟩ := x
        simp only at hx1 hxn
        rw [hx1, hxn, hs']

theorem expandLoop1_spec {ss : List Sit} (g : Grammar) (an : Analysis) {c : Core} (h : L1Inv ss c)
    (hd : c.derived = []) :
    L1Inv ss (expandLoop1 g an c) ∧ (expandLoop1 g an c).num = c.num ∧
      ∀ x, x ∈ (expandLoop1 g an c).derived ↔ DerivedFrom g an.nl ss x := by
  obtain ⟨h1, h2, h3⟩ := expandLoop1_aux g an h hd c.nStart (by rw [h.nStart]; exact Nat.le_refl _)
  change L1Inv ss (loop1N g an c c.nStart) ∧ (loop1N g an c c.nStart).num = c.num ∧
      ∀ x, x ∈ (loop1N g an c c.nStart).derived ↔ DerivedFrom g an.nl ss x
  refine ⟨h1, h2, fun x => ?_⟩
  rw [h3 x]
  constructor
  · exact fun hx => hx.2
  · intro hx
    refine ⟨?_, hx⟩
    obtain ⟨r, d, rl, k, hs, _⟩ := hx
    rw [h.nStart]
    exact (List.getElem?_eq_some_iff.mp hs).1

/-- `Q` is preserved by moving the dot over a nullable symbol (same tag) -/
def QAdv (g : Grammar) (nl : List Nat) (Q : Nat → Nat → Option Nat → Prop) : Prop :=
  ∀ r d t rl s, Q r d t → g.rules[r]? = some rl → rl.rhs[d]? = some s → symNullable nl s = true →
    Q r (d + 1) t

/-- `Q` is preserved by prediction -/
def QPred (g : Grammar) (Q : Nat → Nat → Option Nat → Prop) : Prop :=
  ∀ r d t B r' rl', Q r d t → g.nextSym r d = some (Sym.n B) → g.rules[r']? = some rl' →
    rl'.lhs = B → Q r' 0 none

theorem addDerivedNonstartSits_allQ {ss : List Sit} (g : Grammar) (an : Analysis) {c : Core}
    (h : L1Inv ss c) (sit : Sit) (p : Nat) {Q : Nat → Nat → Option Nat → Prop}
    (hadv : QAdv g an.nl Q) (hq : AllQ Q c) (hcur : Q sit.1 sit.2 (some p)) :
    AllQ Q (addDerivedNonstartSits g an c sit p) := by
  unfold addDerivedNonstartSits
  split
  · exact hq
  · rename_i rl hr
    exact addDerivedLoop_allQ an.nl sit.1 p rl
      (fun d s h1 h2 h3 => hadv sit.1 d (some p) rl s h1 hr h2 h3) _ _ rfl h hq hcur

theorem expandLoop1_allQ {ss : List Sit} (g : Grammar) (an : Analysis) {c : Core} (h : L1Inv ss c)
    (hd : c.derived = []) {Q : Nat → Nat → Option Nat → Prop} (hadv : QAdv g an.nl Q)
    (hq : AllQ Q c) : AllQ Q (expandLoop1 g an c) := by
  have : ∀ n, n ≤ ss.length → AllQ Q (loop1N g an c n) := by
    intro n
    induction n with
    | zero => intro _; exact hq
    | succ n ih =>
      intro hn
      have hq' := ih (by omega)
      obtain ⟨hI, _, _⟩ := expandLoop1_aux g an h hd n (by omega)
      rw [loop1N_succ]
      apply addDerivedNonstartSits_allQ g an hI _ _ hadv hq'
      apply hq'.1 n
      unfold Core.startPart
      rw [hI.start]
      exact hI.getD_start (by omega)
  exact this c.nStart (by rw [h.nStart]; exact Nat.le_refl _)

/-! ## the second loop of `expand_new_start_set` -/

theorem addNew_append {α : Type} [DecidableEq α] (s xs ys : List α) :
    addNew s (xs ++ ys) = addNew (addNew s xs) ys := by
  induction xs generalizing s with
  | nil => rfl
  | cons x xs ih =>
    simp only [List.cons_append, addNew]
    split <;> exact ih _

theorem addNew_prefix {α : Type} [DecidableEq α] (s xs : List α) : ∃ e, addNew s xs = s ++ e := by
  induction xs generalizing s with
  | nil => exact ⟨[], by simp [addNew]⟩
  | cons x xs ih =>
    unfold addNew
    split
    · exact ih s
    · obtain ⟨e, he⟩ := ih (s ++ [x])
      exact ⟨[x] ++ e, by rw [he, List.append_assoc]⟩

theorem addNew_singleton {α : Type} [DecidableEq α] (s : List α) (x : α) :
    addNew s [x] = if x ∈ s then s else s ++ [x] := by
  simp only [addNew]

/-- the normal form of a core during the second and third loops: `c1` is the core after the
first loop, `I` the initial situations, `T`, `R` the vectors -/
def mk2 (c1 : Core) (I : List Sit) (T : List (Sym × List Nat)) (R : List (Nat × List Nat)) : Core :=
  { c1 with sits := c1.sits ++ I, trans := T, reduces := R }

theorem mk2_initPart {ss : List Sit} {c1 : Core} (h : L1Inv ss c1) (I : List Sit)
    (T : List (Sym × List Nat)) (R : List (Nat × List Nat)) : (mk2 c1 I T R).initPart = I := by
  unfold Core.initPart mk2
  simp only
  rw [← h.len, List.drop_left]

theorem addInitialSit_mk2 {ss : List Sit} {c1 : Core} (h : L1Inv ss c1) (I : List Sit)
    (T : List (Sym × List Nat)) (R : List (Nat × List Nat)) (s : Sit) :
    addInitialSit (mk2 c1 I T R) s = mk2 c1 (addNew I [s]) T R := by
  unfold addInitialSit
  have e : (mk2 c1 I T R).sits.drop (mk2 c1 I T R).nAllDists = I := mk2_initPart h I T R
  rw [e, addNew_singleton]
  by_cases hs : s ∈ I
  · simp [hs]
  · simp [hs, mk2]

theorem foldl_addInitialSit_mk2 {ss : List Sit} {c1 : Core} (h : L1Inv ss c1) {β : Type}
    (f : β → Sit) (L : List β) (I : List Sit) (T : List (Sym × List Nat))
    (R : List (Nat × List Nat)) :
    L.foldl (fun c r => addInitialSit c (f r)) (mk2 c1 I T R) = mk2 c1 (addNew I (L.map f)) T R := by
  induction L generalizing I with
  | nil => rfl
  | cons a L ih =>
    simp only [List.foldl_cons, List.map_cons]
    rw [addInitialSit_mk2 h, ih]
    congr 1
    rw [show f a :: L.map f = [f a] ++ L.map f from rfl, addNew_append]

/-- symbol after the dot of situation `k` of the list -/
def nextOf (g : Grammar) (sits : List Sit) (k : Nat) : Option Sym :=
  g.nextSym (sits.getD k default).1 (sits.getD k default).2

/-- the initial situations the body of the second loop tries to add at index `i` -/
def step2New (g : Grammar) (an : Analysis) (nA : Nat) (sits : List Sit)
    (T : List (Sym × List Nat)) (i : Nat) : List Sit :=
  match nextOf g sits i with
  | none => []
  | some symb =>
    (if (vfind T symb).isSome then []
     else match symb with
       | .n B => (rulesOf g B).map fun r => (r, 0)
       | .t _ => []) ++
    (if symNullable an.nl symb && decide (nA ≤ i) then
      [((sits.getD i default).1, (sits.getD i default).2 + 1)] else [])

def step2Trans (g : Grammar) (sits : List Sit) (T : List (Sym × List Nat)) (i : Nat) :
    List (Sym × List Nat) :=
  match nextOf g sits i with
  | none => T
  | some symb => vadd T symb i

theorem expandStep2_mk2 {ss : List Sit} {c1 : Core} (h : L1Inv ss c1) (g : Grammar)
    (an : Analysis) (I : List Sit) (T : List (Sym × List Nat)) (i : Nat) :
    expandStep2With addInitialSit g an (mk2 c1 I T []) i =
      mk2 c1 (addNew I (step2New g an c1.nAllDists (c1.sits ++ I) T i))
        (step2Trans g (c1.sits ++ I) T i) [] := by
  unfold expandStep2With step2New step2Trans nextOf
  have hs : (mk2 c1 I T []).sits = c1.sits ++ I := rfl
  rw [hs]
  dsimp only
  cases hnx : g.nextSym ((c1.sits ++ I).getD i default).1 ((c1.sits ++ I).getD i default).2 with
  | none => simp [addNew]
  | some symb =>
    simp only
    have hfind : (mk2 c1 I T []).find symb = (vfind T symb).isSome := by
      unfold Core.find Core.transOf Core.reducesOf mk2
      cases symb <;> simp [vfind]
    rw [hfind]
    have tail : ∀ (I' : List Sit) (T' : List (Sym × List Nat)) (x : Sit),
        (if (symNullable an.nl symb && decide ((mk2 c1 I' T' []).nAllDists ≤ i)) = true then
          addInitialSit (mk2 c1 I' T' []) x else mk2 c1 I' T' []) =
        mk2 c1 (addNew I' (if (symNullable an.nl symb && decide (c1.nAllDists ≤ i)) = true
          then [x] else [])) T' [] := by
      intro I' T' x
      have e : (mk2 c1 I' T' []).nAllDists = c1.nAllDists := rfl
      rw [e]
      by_cases hc : (symNullable an.nl symb && decide (c1.nAllDists ≤ i)) = true
      · rw [if_pos hc, if_pos hc, addInitialSit_mk2 h]
      · rw [if_neg hc, if_neg hc]; rfl
    by_cases hf : (vfind T symb).isSome = true
    · simp only [hf, if_true, List.nil_append]
      have : ((mk2 c1 I T []).addTransEl symb i) = mk2 c1 I (vadd T symb i) [] := rfl
      rw [this, tail]
    · simp only [hf, Bool.false_eq_true, if_false]
      cases symb with
      | t a =>
        simp only [List.nil_append]
        have : ((mk2 c1 I T []).addTransEl (Sym.t a) i) = mk2 c1 I (vadd T (Sym.t a) i) [] := rfl
        rw [this, tail]
      | n B =>
        simp only [foldl_addInitialSit_mk2 h (fun r => (r, 0))]
        have : ((mk2 c1 (addNew I ((rulesOf g B).map fun r => (r, 0))) T []).addTransEl (Sym.n B) i) =
            mk2 c1 (addNew I ((rulesOf g B).map fun r => (r, 0))) (vadd T (Sym.n B) i) [] := rfl
        rw [this, tail, addNew_append]

/-- indices below `i` with `X` after the dot, increasing -/
def filt (g : Grammar) (sits : List Sit) (i : Nat) (X : Sym) : List Nat :=
  (List.range i).filter fun k => nextOf g sits k == some X

/-- a vector exists iff it is not empty -/
def vecOf (l : List Nat) : Option (List Nat) := if l = [] then none else some l

theorem vecOf_getD (l : List Nat) : (vecOf l).getD [] = l := by
  unfold vecOf; split <;> simp_all

theorem filt_succ (g : Grammar) (sits : List Sit) (i : Nat) (X : Sym) :
    filt g sits (i + 1) X = filt g sits i X ++ (if nextOf g sits i = some X then [i] else []) := by
  unfold filt
  rw [List.range_succ, List.filter_append]
  congr 1
  by_cases h : nextOf g sits i = some X <;> simp [h]

theorem mem_filt {g : Grammar} {sits : List Sit} {i : Nat} {X : Sym} {k : Nat} :
    k ∈ filt g sits i X ↔ k < i ∧ nextOf g sits k = some X := by
  unfold filt; simp

theorem getD_append_left {α : Type} (l e : List α) (d : α) {k : Nat} (h : k < l.length) :
    (l ++ e).getD k d = l.getD k d := by
  simp [List.getD_eq_getElem?_getD, List.getElem?_append_left h]

theorem nextOf_append (g : Grammar) (l e : List Sit) {k : Nat} (h : k < l.length) :
    nextOf g (l ++ e) k = nextOf g l k := by
  unfold nextOf; rw [getD_append_left l e default h]

theorem filt_append (g : Grammar) (l e : List Sit) {i : Nat} (h : i ≤ l.length) (X : Sym) :
    filt g (l ++ e) i X = filt g l i X := by
  unfold filt
  apply List.filter_congr
  intro k hk
  rw [nextOf_append g l e (by have := List.mem_range.mp hk; omega)]

/-- invariant of the second loop at index `i`: `I` are the initial situations, `T` the
transition vectors -/
structure L2Inv (g : Grammar) (an : Analysis) (c1 : Core) (i : Nat) (I : List Sit)
    (T : List (Sym × List Nat)) : Prop where
  nodup : I.Nodup
  univ : I ⊆ sitUniv g
  trans : ∀ X, vfind T X = vecOf (filt g (c1.sits ++ I) i X)
  pred : ∀ k, k < i → ∀ B, nextOf g (c1.sits ++ I) k = some (Sym.n B) →
    ∀ r ∈ rulesOf g B, (r, 0) ∈ I
  adv : ∀ k, k < i → c1.nAllDists ≤ k → ∀ X, nextOf g (c1.sits ++ I) k = some X →
    symNullable an.nl X = true →
    (((c1.sits ++ I).getD k default).1, ((c1.sits ++ I).getD k default).2 + 1) ∈ I

theorem step2New_subset_univ (g : Grammar) (an : Analysis) (nA : Nat) (sits : List Sit)
    (T : List (Sym × List Nat)) (i : Nat) : step2New g an nA sits T i ⊆ sitUniv g := by
  intro x hx
  unfold step2New at hx
  split at hx
  · cases hx
  · rename_i symb hnx
    rcases List.mem_append.mp hx with hx | hx
    · split at hx
      · cases hx
      · cases symb with
        | t a => cases hx
        | n B =>
          simp only [List.mem_map] at hx
          obtain ⟨r, hr, rfl⟩ := hx
          obtain ⟨rl, hrl, _⟩ := mem_rulesOf.mp hr
          exact mem_sitUniv.mpr ⟨(List.getElem?_eq_some_iff.mp hrl).1, Nat.zero_le _⟩
    · split at hx
      · simp only [List.mem_singleton] at hx
        subst hx
        exact (next_in_sitUniv hnx).2
      · cases hx

theorem L2Inv_step {ss : List Sit} {g : Grammar} {an : Analysis} {c1 : Core} (_h1 : L1Inv ss c1)
    {i : Nat} {I : List Sit} {T : List (Sym × List Nat)} (h : L2Inv g an c1 i I T)
    (hi : i < (c1.sits ++ I).length) :
    L2Inv g an c1 (i + 1) (addNew I (step2New g an c1.nAllDists (c1.sits ++ I) T i))
      (step2Trans g (c1.sits ++ I) T i) := by
  generalize hN : step2New g an c1.nAllDists (c1.sits ++ I) T i = N
  obtain ⟨e, he⟩ := addNew_prefix I N
  have hsits : c1.sits ++ addNew I N = (c1.sits ++ I) ++ e := by rw [he, List.append_assoc]
  have hnext : ∀ k, k ≤ i → nextOf g (c1.sits ++ addNew I N) k = nextOf g (c1.sits ++ I) k := by
    intro k hk; rw [hsits, nextOf_append g _ e (by omega)]
  have hget : ∀ k, k ≤ i → (c1.sits ++ addNew I N).getD k default = (c1.sits ++ I).getD k default := by
    intro k hk; rw [hsits, getD_append_left _ e default (by omega)]
  have hsub : I ⊆ addNew I N := addNew_subset_left I N
  have hNsub : N ⊆ addNew I N := addNew_subset_right I N
  refine ⟨addNew_nodup N h.nodup, ?_, ?_, ?_, ?_⟩
  · intro x hx
    rcases mem_addNew hx with hx | hx
    · exact h.univ hx
    · rw [← hN] at hx; exact step2New_subset_univ _ _ _ _ _ _ hx
  · intro X
    rw [hsits, filt_append g _ e (by omega), filt_succ]
    unfold step2Trans
    cases hnx : nextOf g (c1.sits ++ I) i with
    | none =>
      simp only [reduceCtorEq, if_false, List.append_nil]
      exact h.trans X
    | some symb =>
      simp only [vfind_vadd, Option.some.injEq]
      by_cases hX : symb = X
      · rw [if_pos hX, if_pos hX, ← hX, h.trans symb, vecOf_getD]
        unfold vecOf; simp
      · rw [if_neg hX, if_neg hX, List.append_nil]; exact h.trans X
  · intro k hk B hnB r hr
    rw [hnext k (by omega)] at hnB
    rcases Nat.lt_or_ge k i with hlt | hge
    · exact hsub (h.pred k hlt B hnB r hr)
    · have hki : k = i := by omega
      subst hki
      by_cases hf : (vfind T (Sym.n B)).isSome = true
      · rw [h.trans] at hf
        unfold vecOf at hf
        split at hf
        · cases hf
        · rename_i hne
          obtain ⟨k', hk'⟩ := List.exists_mem_of_ne_nil _ hne
          obtain ⟨hk'1, hk'2⟩ := mem_filt.mp hk'
          exact hsub (h.pred k' hk'1 B hk'2 r hr)
      · apply hNsub
        rw [← hN]
        unfold step2New
        rw [hnB]
        simp only [hf, Bool.false_eq_true, if_false]
        exact List.mem_append_left _ (List.mem_map.mpr ⟨r, hr, rfl⟩)
  · intro k hk hnA X hnX hnull
    rw [hnext k (by omega)] at hnX
    rw [hget k (by omega)]
    rcases Nat.lt_or_ge k i with hlt | hge
    · exact hsub (h.adv k hlt hnA X hnX hnull)
    · have hki : k = i := by omega
      subst hki
      apply hNsub
      rw [← hN]
      unfold step2New
      rw [hnX]
      simp only [hnull, Bool.true_and, decide_eq_true_eq, hnA, if_true]
      exact List.mem_append_right _ (List.mem_singleton.mpr rfl)

theorem mk2_self {ss : List Sit} {c1 : Core} (h : L1Inv ss c1) : mk2 c1 [] [] [] = c1 := by
  obtain ⟨num, sits, nStart, nAll, parents, trans, reduces⟩ := c1
  have h1 := h.trans; have h2 := h.reduces
  simp only at h1 h2
  subst h1 h2
  simp [mk2]

theorem L2Inv_init (g : Grammar) (an : Analysis) (c1 : Core) : L2Inv g an c1 0 [] [] := by
  refine ⟨List.nodup_nil, (by intro x hx; cases hx), ?_, ?_, ?_⟩
  · intro X; simp [vfind, filt, vecOf]
  · intro k hk; omega
  · intro k hk; omega

theorem L2Inv.length_le {ss : List Sit} {g : Grammar} {an : Analysis} {c1 : Core}
    (h1 : L1Inv ss c1) {i : Nat} {I : List Sit} {T : List (Sym × List Nat)}
    (h : L2Inv g an c1 i I T) : (c1.sits ++ I).length ≤ c1.nAllDists + sitBound g := by
  have := nodup_subset_length h.nodup h.univ
  rw [length_sitUniv] at this
  rw [List.length_append, h1.len]; omega

/-- the loop invariant as a predicate on cores -/
def Inv2 (g : Grammar) (an : Analysis) (c1 : Core) (i : Nat) (c : Core) : Prop :=
  ∃ I T, c = mk2 c1 I T [] ∧ L2Inv g an c1 i I T

theorem Inv2_step {ss : List Sit} {g : Grammar} {an : Analysis} {c1 : Core} (h1 : L1Inv ss c1)
    (i : Nat) (c : Core) (h : Inv2 g an c1 i c) (hi : i < c.sits.length) :
    Inv2 g an c1 (i + 1) (expandStep2With addInitialSit g an c i) ∧
      i + 1 ≤ (expandStep2With addInitialSit g an c i).sits.length := by
  obtain ⟨I, T, rfl, hI⟩ := h
  have hi' : i < (c1.sits ++ I).length := hi
  rw [expandStep2_mk2 h1]
  refine ⟨⟨_, _, rfl, L2Inv_step h1 hI hi'⟩, ?_⟩
  obtain ⟨e, he⟩ := addNew_prefix I (step2New g an c1.nAllDists (c1.sits ++ I) T i)
  show i + 1 ≤ (c1.sits ++ addNew I _).length
  rw [he]
  simp only [List.length_append] at hi' ⊢
  omega

theorem expandLoop2_spec {ss : List Sit} (g : Grammar) (an : Analysis) {c1 : Core}
    (h1 : L1Inv ss c1) :
    ∃ I T, expandLoop2With addInitialSit g an (expandFuel g c1) c1 = mk2 c1 I T [] ∧
      L2Inv g an c1 (c1.sits ++ I).length I T := by
  unfold expandLoop2With
  have := scanLoop_inv (len := fun c : Core => c.sits.length)
    (step := expandStep2With addInitialSit g an) (Inv2 g an c1) (c1.nAllDists + sitBound g)
    (Inv2_step h1)
    (by rintro i c ⟨I, T, rfl, hI⟩; exact hI.length_le h1)
    (expandFuel g c1) 0 c1 ⟨[], [], (mk2_self h1).symm, L2Inv_init g an c1⟩ (Nat.zero_le _)
    (by unfold expandFuel; omega)
  obtain ⟨I, T, he, hI⟩ := this
  refine ⟨I, T, he, ?_⟩
  have e : (scanLoop (fun c : Core => c.sits.length) (expandStep2With addInitialSit g an)
    (expandFuel g c1) 0 c1).sits.length = (c1.sits ++ I).length := by rw [he]; rfl
  rw [← e]; exact hI

/-- more fuel does not change the result of the second loop -/
theorem expandLoop2_stable {ss : List Sit} (g : Grammar) (an : Analysis) {c1 : Core}
    (h1 : L1Inv ss c1) (extra : Nat) :
    expandLoop2With addInitialSit g an (expandFuel g c1 + extra) c1 =
      expandLoop2With addInitialSit g an (expandFuel g c1) c1 := by
  unfold expandLoop2With
  exact scanLoop_stable (len := fun c : Core => c.sits.length)
    (step := expandStep2With addInitialSit g an) (Inv2 g an c1) (c1.nAllDists + sitBound g)
    (Inv2_step h1)
    (by rintro i c ⟨I, T, rfl, hI⟩; exact hI.length_le h1)
    (expandFuel g c1) 0 c1 ⟨[], [], (mk2_self h1).symm, L2Inv_init g an c1⟩ (Nat.zero_le _)
    (by unfold expandFuel; omega) extra

/-! ## the third loop -/

/-- left-hand side of situation `k` if its dot is at the end -/
def redOf (g : Grammar) (sits : List Sit) (k : Nat) : Option Nat :=
  match g.rules[(sits.getD k default).1]? with
  | none => none
  | some rl => if (sits.getD k default).2 = rl.rhs.length then some rl.lhs else none

def rfilt (g : Grammar) (sits : List Sit) (i : Nat) (A : Nat) : List Nat :=
  (List.range i).filter fun k => redOf g sits k == some A

theorem rfilt_succ (g : Grammar) (sits : List Sit) (i : Nat) (A : Nat) :
    rfilt g sits (i + 1) A = rfilt g sits i A ++ (if redOf g sits i = some A then [i] else []) := by
  unfold rfilt
  rw [List.range_succ, List.filter_append]
  congr 1
  by_cases h : redOf g sits i = some A <;> simp [h]

theorem mem_rfilt {g : Grammar} {sits : List Sit} {i : Nat} {A : Nat} {k : Nat} :
    k ∈ rfilt g sits i A ↔ k < i ∧ redOf g sits k = some A := by
  unfold rfilt; simp

theorem expandStep3_mk2 (g : Grammar) (c1 : Core) (I : List Sit) (T : List (Sym × List Nat))
    (R : List (Nat × List Nat)) (i : Nat) :
    expandStep3 g (mk2 c1 I T R) i =
      mk2 c1 I T (match redOf g (c1.sits ++ I) i with
        | none => R
        | some A => vadd R A i) := by
  unfold expandStep3 redOf
  have hs : (mk2 c1 I T R).sits = c1.sits ++ I := rfl
  rw [hs]
  dsimp only
  cases g.rules[((c1.sits ++ I).getD i default).1]? with
  | none => rfl
  | some rl =>
    dsimp only
    split <;> rfl

/-- the first `n` rounds of the third loop -/
def loop3N (g : Grammar) (c : Core) (n : Nat) : Core := (List.range n).foldl (expandStep3 g) c

theorem loop3N_spec (g : Grammar) (c1 : Core) (I : List Sit) (T : List (Sym × List Nat)) (n : Nat) :
    ∃ R, loop3N g (mk2 c1 I T []) n = mk2 c1 I T R ∧
      ∀ A, vfind R A = vecOf (rfilt g (c1.sits ++ I) n A) := by
  induction n with
  | zero => exact ⟨[], rfl, fun A => by simp [vfind, rfilt, vecOf]⟩
  | succ n ih =>
    obtain ⟨R, hR, hv⟩ := ih
    unfold loop3N at hR ⊢
    rw [foldl_range_succ, hR, expandStep3_mk2]
    refine ⟨_, rfl, fun A => ?_⟩
    rw [rfilt_succ]
    cases hr : redOf g (c1.sits ++ I) n with
    | none =>
      simp only [reduceCtorEq, if_false, List.append_nil]
      exact hv A
    | some B =>
      simp only [vfind_vadd, Option.some.injEq]
      by_cases hX : B = A
      · rw [if_pos hX, if_pos hX, ← hX, hv B, vecOf_getD]
        unfold vecOf; simp
      · rw [if_neg hX, if_neg hX, List.append_nil]; exact hv A

/-! ## what `expand_new_start_set` computes -/

/-- The core `c` is what `expand_new_start_set` makes of the start situations `ss`. -/
structure ExpandSpec (g : Grammar) (an : Analysis) (num : Nat) (ss : List Sit) (c : Core) : Prop where
  num : c.num = num
  nStart : c.nStart = ss.length
  le : c.nStart ≤ c.nAllDists
  le' : c.nAllDists ≤ c.sits.length
  plen : c.parents.length = c.nAllDists - c.nStart
  start : c.startPart = ss
  derived : ∀ x, x ∈ c.derived ↔ DerivedFrom g an.nl ss x
  nodup : c.initPart.Nodup
  univ : c.initPart ⊆ sitUniv g
  trans : ∀ X, c.transOf X = vecOf (filt g c.sits c.sits.length X)
  reduces : ∀ A, c.reducesOf A = vecOf (rfilt g c.sits c.sits.length A)
  pred : ∀ k, k < c.sits.length → ∀ B, nextOf g c.sits k = some (Sym.n B) →
    ∀ r ∈ rulesOf g B, (r, 0) ∈ c.initPart
  adv : ∀ k, k < c.sits.length → c.nAllDists ≤ k → ∀ X, nextOf g c.sits k = some X →
    symNullable an.nl X = true →
    ((c.sits.getD k default).1, (c.sits.getD k default).2 + 1) ∈ c.initPart

theorem expandNewStartSet_spec (g : Grammar) (an : Analysis) (num : Nat) (ss : List Sit) :
    ExpandSpec g an num ss (expandNewStartSet g an (Core.fresh num ss)) := by
  unfold expandNewStartSet expandNewStartSetWith
  have h0 := L1Inv_fresh num ss
  have hd0 : (Core.fresh num ss).derived = [] := by simp [Core.derived, Core.fresh]
  obtain ⟨h1, hnum, hder⟩ := expandLoop1_spec g an h0 hd0
  generalize expandLoop1 g an (Core.fresh num ss) = c1 at h1 hnum hder
  obtain ⟨I, T, he, hI⟩ := expandLoop2_spec g an h1
  dsimp only
  rw [he]
  obtain ⟨R, hR, hv⟩ := loop3N_spec g c1 I T (c1.sits ++ I).length
  have e3 : expandLoop3 g (mk2 c1 I T []) = mk2 c1 I T R := hR
  rw [e3]
  have hns : c1.nStart ≤ c1.sits.length := by rw [h1.len, h1.nAll]; omega
  have hinit : (mk2 c1 I T R).initPart = I := mk2_initPart h1 I T R
  refine ⟨hnum, h1.nStart, ?_, ?_, ?_, ?_, ?_, ?_, ?_, ?_, ?_, ?_, ?_⟩
  · show c1.nStart ≤ c1.nAllDists
    rw [h1.nAll]; omega
  · show c1.nAllDists ≤ (c1.sits ++ I).length
    rw [List.length_append, h1.len]; omega
  · show c1.parents.length = c1.nAllDists - c1.nStart
    rw [h1.nAll]; omega
  · show (c1.sits ++ I).take c1.nStart = ss
    rw [List.take_append_of_le_length hns]; exact h1.start
  · intro x
    rw [← hder x]
    show x ∈ (((c1.sits ++ I).take c1.nAllDists).drop c1.nStart).zip c1.parents ↔ _
    rw [← h1.len, List.take_left]
    unfold Core.derived
    rw [← h1.len, List.take_length]
  · rw [hinit]; exact hI.nodup
  · rw [hinit]; exact hI.univ
  · exact hI.trans
  · exact hv
  · rw [hinit]; exact hI.pred
  · rw [hinit]; exact hI.adv

/-! ## indices and parts -/

structure Shape (c : Core) : Prop where
  le : c.nStart ≤ c.nAllDists
  le' : c.nAllDists ≤ c.sits.length
  plen : c.parents.length = c.nAllDists - c.nStart

theorem ExpandSpec.shape {g : Grammar} {an : Analysis} {num : Nat} {ss : List Sit} {c : Core}
    (h : ExpandSpec g an num ss c) : Shape c := ⟨h.le, h.le', h.plen⟩

theorem startPart_get {c : Core} {i : Nat} {s : Sit} :
    c.startPart[i]? = some s ↔ i < c.nStart ∧ c.sits[i]? = some s := by
  unfold Core.startPart
  rw [List.getElem?_take]
  split
  · rename_i h; simp [h]
  · rename_i h; simp [h]

theorem mem_derived_iff {c : Core} {x : Sit × Nat} :
    x ∈ c.derived ↔ ∃ i, c.nStart ≤ i ∧ i < c.nAllDists ∧ c.sits[i]? = some x.1 ∧
      c.parents[i - c.nStart]? = some x.2 := by
  unfold Core.derived
  rw [List.mem_iff_getElem?]
  constructor
  · rintro ⟨k, hk⟩
    rw [List.getElem?_zip_eq_some, List.getElem?_drop, List.getElem?_take] at hk
    obtain ⟨h1, h2⟩ := hk
    split at h1
    · rename_i hlt
      exact ⟨c.nStart + k, by omega, hlt, h1, by rw [show c.nStart + k - c.nStart = k by omega]; exact h2⟩
    · cases h1
  · rintro ⟨i, h1, h2, h3, h4⟩
    refine ⟨i - c.nStart, ?_⟩
    rw [List.getElem?_zip_eq_some, List.getElem?_drop, List.getElem?_take]
    rw [show c.nStart + (i - c.nStart) = i by omega, if_pos h2]
    exact ⟨h3, h4⟩

theorem mem_initPart_iff {c : Core} {x : Sit} :
    x ∈ c.initPart ↔ ∃ i, c.nAllDists ≤ i ∧ c.sits[i]? = some x := by
  unfold Core.initPart
  rw [List.mem_iff_getElem?]
  constructor
  · rintro ⟨k, hk⟩
    rw [List.getElem?_drop] at hk
    exact ⟨c.nAllDists + k, by omega, hk⟩
  · rintro ⟨i, h1, h2⟩
    exact ⟨i - c.nAllDists, by rw [List.getElem?_drop, show c.nAllDists + (i - c.nAllDists) = i by omega]; exact h2⟩

/-- the tag of situation `i`: the start situation whose distance it has, if any -/
def Core.tagOf (c : Core) (i : Nat) : Option Nat :=
  if i < c.nStart then some i
  else if i < c.nAllDists then some (c.parents.getD (i - c.nStart) 0)
  else none

theorem AllQ.at_index {Q : Nat → Nat → Option Nat → Prop} {c : Core} (hq : AllQ Q c) (hs : Shape c)
    {i : Nat} {s : Sit} (hi : c.sits[i]? = some s) : Q s.1 s.2 (c.tagOf i) := by
  unfold Core.tagOf
  split
  · rename_i h1
    exact hq.1 i s (startPart_get.mpr ⟨h1, hi⟩)
  · rename_i h1
    split
    · rename_i h2
      have hp : c.parents[i - c.nStart]? = some (c.parents.getD (i - c.nStart) 0) := by
        have : i - c.nStart < c.parents.length := by rw [hs.plen]; omega
        rw [List.getD_eq_getElem?_getD, List.getElem?_eq_getElem this]; rfl
      exact hq.2.1 (s, c.parents.getD (i - c.nStart) 0)
        (mem_derived_iff.mpr ⟨i, by omega, h2, hi, hp⟩)
    · rename_i h2
      exact hq.2.2 s (mem_initPart_iff.mpr ⟨i, by omega, hi⟩)

theorem AllQ_of_index {Q : Nat → Nat → Option Nat → Prop} {c : Core} (hs : Shape c)
    (h : ∀ i s, c.sits[i]? = some s → Q s.1 s.2 (c.tagOf i)) : AllQ Q c := by
  refine ⟨?_, ?_, ?_⟩
  · intro i s hi
    obtain ⟨h1, h2⟩ := startPart_get.mp hi
    have := h i s h2
    unfold Core.tagOf at this
    rwa [if_pos h1] at this
  · intro x hx
    obtain ⟨i, h1, h2, h3, h4⟩ := mem_derived_iff.mp hx
    have := h i x.1 h3
    unfold Core.tagOf at this
    rw [if_neg (by omega), if_pos h2, List.getD_eq_getElem?_getD, h4] at this
    exact this
  · intro x hx
    obtain ⟨i, h1, h2⟩ := mem_initPart_iff.mp hx
    have hq := h i x h2
    unfold Core.tagOf at hq
    have := hs.le
    rwa [if_neg (by omega), if_neg (by omega)] at hq

theorem mk2_shape {ss : List Sit} {c1 : Core} (h : L1Inv ss c1) (I : List Sit)
    (T : List (Sym × List Nat)) (R : List (Nat × List Nat)) : Shape (mk2 c1 I T R) := by
  refine ⟨?_, ?_, ?_⟩
  · show c1.nStart ≤ c1.nAllDists
    rw [h.nAll]; omega
  · show c1.nAllDists ≤ (c1.sits ++ I).length
    rw [List.length_append, h.len]; omega
  · show c1.parents.length = c1.nAllDists - c1.nStart
    rw [h.nAll]; omega

theorem AllQ_mk2 {ss : List Sit} {c1 : Core} (h : L1Inv ss c1) (I : List Sit)
    (T : List (Sym × List Nat)) (R : List (Nat × List Nat)) {Q : Nat → Nat → Option Nat → Prop} :
    AllQ Q (mk2 c1 I T R) ↔ AllQ Q c1 ∧ ∀ s ∈ I, Q s.1 s.2 none := by
  have hns : c1.nStart ≤ c1.sits.length := by rw [h.len, h.nAll]; omega
  have e1 : (mk2 c1 I T R).startPart = c1.startPart := by
    show (c1.sits ++ I).take c1.nStart = c1.sits.take c1.nStart
    rw [List.take_append_of_le_length hns]
  have e2 : (mk2 c1 I T R).derived = c1.derived := by
    show (((c1.sits ++ I).take c1.nAllDists).drop c1.nStart).zip c1.parents = _
    rw [← h.len, List.take_left]
    unfold Core.derived
    rw [← h.len, List.take_length]
  have e3 := mk2_initPart h I T R
  unfold AllQ
  rw [e1, e2, e3, h.initPart_eq]
  constructor
  · rintro ⟨h1, h2, h3⟩; exact ⟨⟨h1, h2, fun s hs => by cases hs⟩, h3⟩
  · rintro ⟨⟨h1, h2, _⟩, h3⟩; exact ⟨h1, h2, h3⟩

theorem step2New_Q {ss : List Sit} {g : Grammar} {an : Analysis} {c1 : Core} (h1 : L1Inv ss c1)
    {Q : Nat → Nat → Option Nat → Prop} (hadv : QAdv g an.nl Q) (hpred : QPred g Q)
    {I : List Sit} {T : List (Sym × List Nat)} (hq : AllQ Q (mk2 c1 I T []))
    {i : Nat} (hi : i < (c1.sits ++ I).length) :
    ∀ x ∈ step2New g an c1.nAllDists (c1.sits ++ I) T i, Q x.1 x.2 none := by
  intro x hx
  have hsh := mk2_shape h1 I T []
  have hget : (mk2 c1 I T []).sits[i]? = some ((c1.sits ++ I).getD i default) := by
    show (c1.sits ++ I)[i]? = _
    rw [List.getD_eq_getElem?_getD, List.getElem?_eq_getElem hi]; rfl
  have hQi := hq.at_index hsh hget
  unfold step2New at hx
  unfold nextOf at hx
  split at hx
  · cases hx
  · rename_i symb hnx
    rcases List.mem_append.mp hx with hx | hx
    · split at hx
      · cases hx
      · cases symb with
        | t a => cases hx
        | n B =>
          simp only [List.mem_map] at hx
          obtain ⟨r, hr, rfl⟩ := hx
          obtain ⟨rl, hrl, hl⟩ := mem_rulesOf.mp hr
          exact hpred _ _ _ B r rl hQi hnx hrl hl
    · split at hx
      · rename_i hc
        simp only [List.mem_singleton] at hx
        subst hx
        simp only [Bool.and_eq_true, decide_eq_true_eq] at hc
        obtain ⟨rl, hrl, hs⟩ := nextSym_eq_some.mp hnx
        have ht : (mk2 c1 I T []).tagOf i = none := by
          unfold Core.tagOf
          have : (mk2 c1 I T []).nAllDists = c1.nAllDists := rfl
          have := hsh.le
          rw [if_neg (by omega), if_neg (by omega)]
        rw [ht] at hQi
        exact hadv _ _ none rl symb hQi hrl hs hc.1
      · cases hx

theorem expandNewStartSet_allQ (g : Grammar) (an : Analysis) (num : Nat) (ss : List Sit)
    {Q : Nat → Nat → Option Nat → Prop} (hadv : QAdv g an.nl Q) (hpred : QPred g Q)
    (hstart : ∀ i sit, ss[i]? = some sit → Q sit.1 sit.2 (some i)) :
    AllQ Q (expandNewStartSet g an (Core.fresh num ss)) := by
  unfold expandNewStartSet expandNewStartSetWith
  have h0 := L1Inv_fresh num ss
  have hd0 : (Core.fresh num ss).derived = [] := by simp [Core.derived, Core.fresh]
  have hq0 : AllQ Q (Core.fresh num ss) := by
    refine ⟨?_, ?_, ?_⟩
    · intro i s hs
      have : (Core.fresh num ss).startPart = ss := by simp [Core.startPart, Core.fresh]
      rw [this] at hs
      exact hstart i s hs
    · intro x hx; rw [hd0] at hx; cases hx
    · intro x hx; rw [h0.initPart_eq] at hx; cases hx
  have hq1 := expandLoop1_allQ g an h0 hd0 hadv hq0
  obtain ⟨h1, _, _⟩ := expandLoop1_spec g an h0 hd0
  generalize expandLoop1 g an (Core.fresh num ss) = c1 at h1 hq1
  dsimp only
  -- second loop
  have h2 : ∃ I T, expandLoop2With addInitialSit g an (expandFuel g c1) c1 = mk2 c1 I T [] ∧
      AllQ Q (mk2 c1 I T []) := by
    unfold expandLoop2With
    apply scanLoop_preserves (len := fun c : Core => c.sits.length)
      (step := expandStep2With addInitialSit g an)
      (fun c => ∃ I T, c = mk2 c1 I T [] ∧ AllQ Q (mk2 c1 I T []))
    · rintro i c ⟨I, T, rfl, hq⟩ hi
      refine ⟨_, _, expandStep2_mk2 h1 g an I T i, ?_⟩
      rw [AllQ_mk2 h1] at hq ⊢
      refine ⟨hq.1, fun s hs => ?_⟩
      rcases mem_addNew hs with hs | hs
      · exact hq.2 s hs
      · exact step2New_Q h1 hadv hpred ((AllQ_mk2 h1 I T []).mpr hq) hi s hs
    · refine ⟨[], [], (mk2_self h1).symm, ?_⟩
      rw [AllQ_mk2 h1]
      exact ⟨hq1, fun s hs => by cases hs⟩
  obtain ⟨I, T, he, hq2⟩ := h2
  rw [he]
  obtain ⟨R, hR, _⟩ := loop3N_spec g c1 I T (c1.sits ++ I).length
  have e3 : expandLoop3 g (mk2 c1 I T []) = mk2 c1 I T R := hR
  rw [e3]
  rw [AllQ_mk2 h1] at hq2 ⊢
  exact hq2

end Yaep.BS
