import Yaep.Lemmas.RecoveredCostState
/-!
# `find_minimal_translation` commutes with the renaming of the TERM attributes

The model of `find_minimal_translation` (`Model/PruneC.lean`) looks at the kind of a cell, at the
cost field and the children of an abstract node and at the two fields of an ALT cell — never at the
attribute (or the code) of a TERM cell.  So running it on a heap with renamed attributes gives the
renamed result: **`RC.findMinimalTranslation_rcH`** (same root, cost, `parse_free` calls, cleared
flags, memo table, collected cells, reserved addresses, fuel flag; the heap renamed).

The forests: `RC.unfoldWith_rcH` (`RC.rnNode` renames the TERM leaves of a forest),
`RC.denote_rnNode` (`Tree.mapAttr`), `RC.totalCost_mapAttr`, `RC.accum_mapAttr`, `RC.reach_rcH`.
-/
namespace Yaep.RC
open Yaep Yaep.PC

variable {f : Int → Int}

/-! ## heap access -/

theorem rcH_set! (h : Array Cell) (n : Nat) (c : Cell) :
    rcH f (h.set! n c) = (rcH f h).set! n (rcC f c) := by
  unfold rcH
  simp [Array.set!_eq_setIfInBounds, Array.map_setIfInBounds]

@[simp] theorem kidAt_rcH (h : Array Cell) (n i : Nat) : kidAt (rcH f h) n i = kidAt h n i := by
  unfold kidAt
  rw [cellAt_rcH]
  cases cellAt h n <;> rfl

@[simp] theorem costAt_rcH (h : Array Cell) (n : Nat) : costAt (rcH f h) n = costAt h n := by
  unfold costAt
  rw [cellAt_rcH]
  cases cellAt h n <;> rfl

theorem setKid_rcH (h : Array Cell) (n i r : Nat) :
    PC.setKid (rcH f h) n i r = rcH f (PC.setKid h n i r) := by
  unfold PC.setKid
  rw [cellAt_rcH]
  cases cellAt h n <;> simp only [rcC] <;> try rfl
  rw [rcH_set!]; rfl

theorem setCost_rcH (h : Array Cell) (n : Nat) (c : Int) :
    setCost (rcH f h) n c = rcH f (setCost h n c) := by
  unfold setCost
  rw [cellAt_rcH]
  cases cellAt h n <;> simp only [rcC] <;> try rfl
  rw [rcH_set!]; rfl

theorem setAltNode_rcH (h : Array Cell) (a r : Nat) :
    setAltNode (rcH f h) a r = rcH f (setAltNode h a r) := by
  unfold setAltNode
  rw [cellAt_rcH]
  cases cellAt h a <;> simp only [rcC] <;> try rfl
  rw [rcH_set!]; rfl

theorem setAltNext_rcH (h : Array Cell) (a : Nat) (nx : Option Nat) :
    setAltNext (rcH f h) a nx = rcH f (setAltNext h a nx) := by
  unfold setAltNext
  rw [cellAt_rcH]
  cases cellAt h a <;> simp only [rcC] <;> try rfl
  rw [rcH_set!]; rfl

theorem altResult_rcH (h : Array Cell) (res : Nat) : altResult (rcH f h) res = altResult h res := by
  unfold altResult
  rw [cellAt_rcH]
  cases hc : cellAt h res <;> simp only [rcC]

/-! ## the first pass -/

/-- the state of `prune_to_minimal` with renamed TERM attributes -/
def pLift (f : Int → Int) (s : PSt) : PSt := { s with heap := rcH f s.heap }

theorem collect_lift (free : Bool) (s : PSt) (n : Nat) :
    collect free (pLift f s) n = pLift f (collect free s n) := by
  unfold collect
  cases free <;> rfl

theorem kidsLoop_lift (rec rec' : PSt → Nat → PSt × Nat × Int)
    (hrec : ∀ s n, rec' (pLift f s) n = (pLift f (rec s n).1, (rec s n).2)) (node : Nat) :
    ∀ (m i : Nat) (s : PSt),
      kidsLoop rec' node m i (pLift f s) = pLift f (kidsLoop rec node m i s)
  | 0, _, _ => rfl
  | m + 1, i, s => by
    unfold kidsLoop
    have hh : (pLift f s).heap = rcH f s.heap := rfl
    rw [hh, kidAt_rcH]
    cases kidAt s.heap node i with
    | none => rfl
    | some child =>
      simp only [hrec]
      have hh2 : (pLift f (rec s child).1).heap = rcH f (rec s child).1.heap := rfl
      rw [hh2, setKid_rcH, costAt_rcH, setCost_rcH]
      exact kidsLoop_lift rec rec' hrec node m (i + 1)
        { (rec s child).1 with
          heap := setCost (PC.setKid (rec s child).1.heap node i (rec s child).2.1) node
            (costAt (PC.setKid (rec s child).1.heap node i (rec s child).2.1) node + (rec s child).2.2) }

theorem altLoop_lift (rec rec' : PSt → Nat → PSt × Nat × Int)
    (hrec : ∀ s n, rec' (pLift f s) n = (pLift f (rec s n).1, (rec s n).2)) (one free : Bool)
    (head : Nat) :
    ∀ (m : Nat) (o : Option Nat) (mn : Int) (res : Nat) (s : PSt),
      altLoop rec' one free head m o mn res (pLift f s) =
        (pLift f (altLoop rec one free head m o mn res s).1, (altLoop rec one free head m o mn res s).2)
  | 0, none, _, _, _ => by unfold altLoop; rfl
  | _ + 1, none, _, _, _ => by unfold altLoop; rfl
  | 0, some _, _, _, _ => by unfold altLoop; rfl
  | m + 1, some alt, mn, res, s => by
    unfold altLoop
    simp only [collect_lift]
    have hh : (pLift f (collect free s alt)).heap = rcH f (collect free s alt).heap := rfl
    rw [hh, cellAt_rcH]
    cases hc : cellAt (collect free s alt).heap alt with
    | nil => rfl
    | err => rfl
    | term c a => rfl
    | anode nm c ks => rfl
    | alt nd nextAlt =>
      simp only [rcC, hrec]
      have hh2 : (pLift f (rec (collect free s alt) nd).1).heap =
          rcH f (rec (collect free s alt) nd).1.heap := rfl
      rw [hh2, setAltNode_rcH]
      split
      · rw [setAltNext_rcH]
        exact altLoop_lift rec rec' hrec one free head m nextAlt _ _
          { (rec (collect free s alt) nd).1 with
            heap := setAltNext (setAltNode (rec (collect free s alt) nd).1.heap alt
              (rec (collect free s alt) nd).2.1) alt none }
      · split
        · rw [setAltNext_rcH]
          exact altLoop_lift rec rec' hrec one free head m nextAlt _ _
            { (rec (collect free s alt) nd).1 with
              heap := setAltNext (setAltNode (rec (collect free s alt) nd).1.heap alt
                (rec (collect free s alt) nd).2.1) alt (some res) }
        · exact altLoop_lift rec rec' hrec one free head m nextAlt _ _
            { (rec (collect free s alt) nd).1 with
              heap := setAltNode (rec (collect free s alt) nd).1.heap alt
                (rec (collect free s alt) nd).2.1 }

/-- **`prune_to_minimal` commutes with the renaming** -/
theorem pruneToMinimal_lift (one free : Bool) : ∀ (fuel : Nat) (s : PSt) (n : Nat),
    pruneToMinimal one free fuel (pLift f s) n =
      (pLift f (pruneToMinimal one free fuel s n).1, (pruneToMinimal one free fuel s n).2)
  | 0, _, _ => rfl
  | fuel + 1, s, n => by
    unfold pruneToMinimal
    have hh : (pLift f s).heap = rcH f s.heap := rfl
    rw [hh, cellAt_rcH]
    cases hc : cellAt s.heap n with
    | nil => simp only [rcC, collect_lift]
    | err => simp only [rcC, collect_lift]
    | term c a => simp only [rcC, collect_lift]
    | anode nm c ks =>
      simp only [rcC]
      split
      · simp only [collect_lift]
        rw [kidsLoop_lift (f := f) (pruneToMinimal one free fuel) (pruneToMinimal one free fuel)
          (pruneToMinimal_lift one free fuel)]
        have hh2 : (pLift f (kidsLoop (pruneToMinimal one free fuel) n ks.size 0
            (collect free s n))).heap =
            rcH f (kidsLoop (pruneToMinimal one free fuel) n ks.size 0 (collect free s n)).heap := rfl
        simp only [hh2, costAt_rcH, setCost_rcH]
        rfl
      · rfl
    | alt nd nx =>
      simp only [rcC]
      have hm : (pLift f s).memo = s.memo := rfl
      rw [hm]
      cases memoFind s.memo n with
      | some e => rfl
      | none =>
        simp only
        rw [rcH_size]
        rw [altLoop_lift (f := f) (pruneToMinimal one free fuel) (pruneToMinimal one free fuel)
          (pruneToMinimal_lift one free fuel)]
        simp only
        have hh2 : ∀ q : PSt, (pLift f q).heap = rcH f q.heap := fun _ => rfl
        simp only [hh2, altResult_rcH]
        rfl

/-! ## the second pass -/

/-- the state of `traverse_pruned_translation` with renamed TERM attributes -/
def tLift (f : Int → Int) (t : TSt) : TSt := { t with heap := rcH f t.heap }

theorem reserve_lift (free : Bool) (t : TSt) (m : Mem) :
    reserve free (tLift f t) m = tLift f (reserve free t m) := by
  unfold reserve
  have : (tLift f t).resv = t.resv := rfl
  rw [this]
  split <;> rfl

theorem travKids_lift (rec rec' : TSt → Nat → TSt)
    (hrec : ∀ t n, rec' (tLift f t) n = tLift f (rec t n)) (node : Nat) :
    ∀ (m i : Nat) (t : TSt), travKids rec' node m i (tLift f t) = tLift f (travKids rec node m i t)
  | 0, _, _ => rfl
  | m + 1, i, t => by
    unfold travKids
    have hh : (tLift f t).heap = rcH f t.heap := rfl
    rw [hh, kidAt_rcH]
    cases kidAt t.heap node i with
    | none => rfl
    | some child =>
      simp only [hrec]
      exact travKids_lift rec rec' hrec node m (i + 1) _

theorem travAlt_lift (rec rec' : TSt → Nat → TSt)
    (hrec : ∀ t n, rec' (tLift f t) n = tLift f (rec t n)) (free : Bool) :
    ∀ (m alt : Nat) (t : TSt), travAlt rec' free m alt (tLift f t) = tLift f (travAlt rec free m alt t)
  | 0, _, _ => rfl
  | m + 1, alt, t => by
    unfold travAlt
    have hh : ∀ t : TSt, (tLift f t).heap = rcH f t.heap := fun _ => rfl
    rw [hh, cellAt_rcH]
    cases hc : cellAt t.heap alt with
    | nil => simp only [rcC, hrec]
    | err => simp only [rcC, hrec]
    | term c a => simp only [rcC, hrec]
    | anode nm c ks => simp only [rcC, hrec]
    | alt nd nx0 =>
      simp only [rcC, hrec, hh, cellAt_rcH]
      cases hc2 : cellAt (rec t nd).heap alt with
      | nil => rfl
      | err => rfl
      | term c a => rfl
      | anode nm c ks => rfl
      | alt nd2 nx =>
        cases nx with
        | none => rfl
        | some nx =>
          simp only [reserve_lift]
          exact travAlt_lift rec rec' hrec free m nx _

/-- **`traverse_pruned_translation` commutes with the renaming** -/
theorem traversePruned_lift (free : Bool) (nameBlk : Nat → Nat) : ∀ (fuel : Nat) (t : TSt) (n : Nat),
    traversePruned free nameBlk fuel (tLift f t) n = tLift f (traversePruned free nameBlk fuel t n)
  | 0, _, _ => rfl
  | fuel + 1, t, n => by
    unfold traversePruned
    simp only [reserve_lift]
    have hh : ∀ t : TSt, (tLift f t).heap = rcH f t.heap := fun _ => rfl
    rw [hh, cellAt_rcH]
    cases hc : cellAt (reserve free t (Mem.cell n)).heap n with
    | nil => rfl
    | err => rfl
    | term c a => rfl
    | anode nm c ks =>
      simp only [rcC]
      split
      · rfl
      · rw [hh, setCost_rcH]
        exact travKids_lift (f := f) (traversePruned free nameBlk fuel)
          (traversePruned free nameBlk fuel) (traversePruned_lift free nameBlk fuel) n ks.size 0
          { reserve free (reserve free t (Mem.cell n)) (Mem.name (nameBlk n)) with
            heap := setCost (reserve free (reserve free t (Mem.cell n)) (Mem.name (nameBlk n))).heap n
              (-c - 1) }
    | alt nd nx =>
      simp only [rcC]
      rw [rcH_size]
      exact travAlt_lift (f := f) (traversePruned free nameBlk fuel)
        (traversePruned free nameBlk fuel) (traversePruned_lift free nameBlk fuel) free _ n _

/-! ## the freeing loop and the whole function -/

theorem freeLoop_rcH (h : Array Cell) (nameBlk : Nat → Nat) : ∀ (ps : List Nat) (F : FSt),
    freeLoop (rcH f h) nameBlk ps F = freeLoop h nameBlk ps F
  | [], _ => rfl
  | p :: ps, F => by
    unfold freeLoop
    split
    · exact freeLoop_rcH h nameBlk ps F
    · simp only [cellAt_rcH]
      cases cellAt h p with
      | nil => exact freeLoop_rcH h nameBlk ps _
      | err => exact freeLoop_rcH h nameBlk ps _
      | term c a => exact freeLoop_rcH h nameBlk ps _
      | alt nd nx => exact freeLoop_rcH h nameBlk ps _
      | anode nm c ks =>
        simp only [rcC]
        split
        · exact freeLoop_rcH h nameBlk ps _
        · exact freeLoop_rcH h nameBlk ps _

theorem isNilCell_rcH (h : Array Cell) : isNilCell (rcH f h) = isNilCell h := by
  funext p
  unfold isNilCell
  rw [cellAt_rcH]
  cases cellAt h p <;> rfl

theorem isErrCell_rcH (h : Array Cell) : isErrCell (rcH f h) = isErrCell h := by
  funext p
  unfold isErrCell
  rw [cellAt_rcH]
  cases cellAt h p <;> rfl

/-- the result of `find_minimal_translation` with renamed TERM attributes -/
def resLift (f : Int → Int) (R : PC.Result) : PC.Result := { R with heap := rcH f R.heap }

/-- **`find_minimal_translation` commutes with the renaming of the TERM attributes**: on the renamed
heap it returns the renamed heap and the same root, cost, `parse_free` calls, cleared flags, … -/
theorem findMinimalTranslation_rcH (fuel : Nat) (h : Array Cell) (root : Nat) (one free : Bool)
    (nameBlk : Nat → Nat) (nu eu : Bool) :
    findMinimalTranslation fuel (rcH f h) root one free nameBlk nu eu =
      resLift f (findMinimalTranslation fuel h root one free nameBlk nu eu) := by
  unfold findMinimalTranslation
  have h0 : ({ heap := rcH f h } : PSt) = pLift f { heap := h } := rfl
  simp only [h0, pruneToMinimal_lift]
  have hh : ∀ q : PSt, (pLift f q).heap = rcH f q.heap := fun _ => rfl
  have hc : ∀ q : PSt, (pLift f q).coll = q.coll := fun _ => rfl
  have hm : ∀ q : PSt, (pLift f q).memo = q.memo := fun _ => rfl
  have ho : ∀ q : PSt, (pLift f q).oof = q.oof := fun _ => rfl
  simp only [hh, hc, hm, ho]
  have h1 : ∀ hp : Array Cell, ({ heap := rcH f hp } : TSt) = tLift f { heap := hp } := fun _ => rfl
  simp only [h1, traversePruned_lift]
  have th : ∀ t : TSt, (tLift f t).heap = rcH f t.heap := fun _ => rfl
  have tr : ∀ t : TSt, (tLift f t).resv = t.resv := fun _ => rfl
  have to : ∀ t : TSt, (tLift f t).oof = t.oof := fun _ => rfl
  simp only [th, tr, to, freeLoop_rcH, isNilCell_rcH, isErrCell_rcH]
  rfl

/-! ## the forests -/

mutual
  /-- rename the attributes of the TERM leaves of a forest -/
  def rnNode (f : Int → Int) : Node → Node
    | .term c a => .term c (f a)
    | .anode n c ks => .anode n c (rnList f ks)
    | .alt as => .alt (rnList f as)
    | .nil => .nil
    | .err => .err
  def rnList (f : Int → Int) : List Node → List Node
    | [] => []
    | n :: ns => rnNode f n :: rnList f ns
end

theorem rnList_eq (f : Int → Int) : ∀ l : List Node, rnList f l = l.map (rnNode f)
  | [] => rfl
  | n :: ns => by rw [rnList, rnList_eq f ns]; rfl

theorem chainCells_rcH (h : Array Cell) : ∀ (m a : Nat),
    chainCells (rcH f h) m a = chainCells h m a
  | 0, _ => rfl
  | m + 1, a => by
    unfold chainCells
    rw [cellAt_rcH]
    cases cellAt h a with
    | alt nd nx =>
      cases nx with
      | none => rfl
      | some nx => simp only [rcC]; rw [chainCells_rcH h m nx]
    | _ => rfl

theorem altNode_rcH (h : Array Cell) (a : Nat) : altNode (rcH f h) a = altNode h a := by
  unfold altNode
  rw [cellAt_rcH]
  cases cellAt h a <;> rfl

/-- **the forest of the renamed heap is the renamed forest** -/
theorem unfoldWith_rcH (cv : Int → Nat) (h : Array Cell) : ∀ (fuel n : Nat),
    unfoldWith cv (rcH f h) fuel n = rnNode f (unfoldWith cv h fuel n)
  | 0, _ => rfl
  | fuel + 1, n => by
    unfold unfoldWith
    rw [cellAt_rcH]
    cases cellAt h n with
    | nil => rfl
    | err => rfl
    | term c a => rfl
    | anode nm c ks =>
      simp only [rcC, rnNode, rnList_eq, List.map_map]
      congr 1
      apply List.map_congr_left
      intro k _
      exact unfoldWith_rcH cv h fuel k
    | alt nd nx =>
      simp only [rcC, rnNode, rnList_eq, List.map_map, rcH_size, chainCells_rcH]
      congr 1
      apply List.map_congr_left
      intro k _
      simp only [Function.comp, altNode_rcH]
      exact unfoldWith_rcH cv h fuel _

theorem unfoldC_rcH (h : Array Cell) (fuel n : Nat) :
    unfoldC (rcH f h) fuel n = rnNode f (unfoldC h fuel n) := unfoldWith_rcH _ h fuel n

mutual
  theorem denote_rnNode (f : Int → Int) : ∀ N : Node,
      denote (rnNode f N) = (denote N).map (Tree.mapAttr f)
    | .nil => rfl
    | .err => rfl
    | .term _ _ => rfl
    | .anode n c ks => by
      simp only [rnNode, denote]
      rw [denoteList_rnList f ks, RP.prodAll_map, List.map_map, List.map_map]
      apply List.map_congr_left
      intro l _
      simp only [Function.comp, Tree.mapAttr, RP.mapAttrList_eq]
    | .alt as => by
      simp only [rnNode, denote]
      rw [denoteList_rnList f as, List.map_flatten]
  theorem denoteList_rnList (f : Int → Int) : ∀ l : List Node,
      denoteList (rnList f l) = (denoteList l).map (List.map (Tree.mapAttr f))
    | [] => rfl
    | n :: ns => by
      simp only [rnList, denoteList, List.map_cons]
      rw [denote_rnNode f n, denoteList_rnList f ns]
end

mutual
  theorem totalCost_mapAttr (f : Int → Int) : ∀ t : Tree, (t.mapAttr f).totalCost = t.totalCost
    | .nil => rfl
    | .error => rfl
    | .term _ _ => rfl
    | .anode n c ks => by
      simp only [Tree.mapAttr, Tree.totalCost]
      rw [totalCostList_mapAttr f ks]
  theorem totalCostList_mapAttr (f : Int → Int) : ∀ l : List Tree,
      Tree.totalCostList (Tree.mapAttrList f l) = Tree.totalCostList l
    | [] => rfl
    | t :: ts => by
      simp only [Tree.mapAttrList, Tree.totalCostList]
      rw [totalCost_mapAttr f t, totalCostList_mapAttr f ts]
end

theorem fieldSum_mapAttrList (f : Int → Int) : ∀ l : List Tree,
    Tree.fieldSum (Tree.mapAttrList f l) = Tree.fieldSum l
  | [] => rfl
  | t :: ts => by
    cases t <;> simp only [Tree.mapAttrList, Tree.mapAttr, Tree.fieldSum, fieldSum_mapAttrList f ts]

mutual
  theorem accum_mapAttr (f : Int → Int) : ∀ t : Tree, (t.mapAttr f).accum = t.accum.mapAttr f
    | .nil => rfl
    | .error => rfl
    | .term _ _ => rfl
    | .anode n c ks => by
      simp only [Tree.mapAttr, Tree.accum]
      rw [accumList_mapAttr f ks, fieldSum_mapAttrList]
  theorem accumList_mapAttr (f : Int → Int) : ∀ l : List Tree,
      Tree.accumList (Tree.mapAttrList f l) = Tree.mapAttrList f (Tree.accumList l)
    | [] => rfl
    | t :: ts => by
      simp only [Tree.mapAttrList, Tree.accumList]
      rw [accum_mapAttr f t, accumList_mapAttr f ts]
end

/-- minimal cost is invariant under the renaming -/
theorem isMinCost_map (f : Int → Int) {ts : List Tree} {t : Tree} (h : IsMinCost ts t) :
    IsMinCost (ts.map (Tree.mapAttr f)) (t.mapAttr f) := by
  refine ⟨List.mem_map_of_mem h.1, ?_⟩
  intro u hu
  obtain ⟨u0, hu0, rfl⟩ := List.mem_map.mp hu
  rw [totalCost_mapAttr, totalCost_mapAttr]
  exact h.2 u0 hu0

theorem succs_rcH (h : Array Cell) (n : Nat) : succs (rcH f h) n = succs h n := by
  unfold succs
  rw [cellAt_rcH]
  cases cellAt h n <;> rfl

/-- reachability does not look at the attributes -/
theorem reach_rcH (h : Array Cell) (a b : Nat) : Reach (rcH f h) a b ↔ Reach h a b := by
  constructor
  · intro hr
    induction hr with
    | refl a => exact .refl a
    | step e _ ih => rw [succs_rcH] at e; exact .step e ih
  · intro hr
    induction hr with
    | refl a => exact .refl a
    | step e _ ih => exact .step (by rw [succs_rcH]; exact e) ih

end Yaep.RC
