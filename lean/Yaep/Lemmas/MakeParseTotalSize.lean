import Yaep.Lemmas.MakeParseTotalPL
/-!
# Totality of the model of `make_parse` in all-parses mode, part 7: the size of the sets

A set of the parse list `build_pl` builds can repeat a situation (a start situation and a derived or
initial situation can coincide), so its size is not bounded by the number of Earley items.  Here:
the set at list position `k` has at most `sitBound g * (k + 1)` start situations (distinct pairs
situation / distance), every start situation has at most `maxRhs` derived situations, and there
are at most `sitBound g` initial situations — `setBound`.
-/
namespace Yaep.BS
open Yaep

/-! ## the first loop of `expand_new_start_set` -/

theorem addNonstartSit_len (c : Core) (sit : Sit) (p : Nat) :
    (addNonstartSit c sit p).sits.length ≤ c.sits.length + 1 ∧ (addNonstartSit c sit p).nStart = c.nStart := by
  unfold addNonstartSit
  split
  · exact ⟨Nat.le_succ _, rfl⟩
  · exact ⟨by simp, rfl⟩

theorem addDerivedLoop_len (nl : List Nat) (r p : Nat) : ∀ (l : List Sym) (i : Nat) (c : Core),
    (addDerivedLoop nl r p l i c).sits.length ≤ c.sits.length + l.length ∧
      (addDerivedLoop nl r p l i c).nStart = c.nStart
  | [], _, c => ⟨Nat.le_refl _, rfl⟩
  | s :: rest, i, c => by
    unfold addDerivedLoop
    split
    · obtain ⟨h1, h2⟩ := addDerivedLoop_len nl r p rest (i + 1) (addNonstartSit c (r, i + 1) p)
      obtain ⟨h3, h4⟩ := addNonstartSit_len c (r, i + 1) p
      refine ⟨?_, by rw [h2, h4]⟩
      simp only [List.length_cons]; omega
    · exact ⟨by simp, rfl⟩

theorem addDerivedNonstartSits_len (g : Grammar) (an : Analysis) (c : Core) (sit : Sit) (p : Nat) :
    (addDerivedNonstartSits g an c sit p).sits.length ≤ c.sits.length + g.maxRhs ∧
      (addDerivedNonstartSits g an c sit p).nStart = c.nStart := by
  unfold addDerivedNonstartSits
  split
  · exact ⟨Nat.le_add_right _ _, rfl⟩
  · rename_i rl hr
    obtain ⟨h1, h2⟩ := addDerivedLoop_len an.nl sit.1 p (rl.rhs.drop sit.2) sit.2 c
    have hm : rl.rhs.length ≤ g.maxRhs := le_maxRhs (List.mem_of_getElem? hr)
    refine ⟨?_, h2⟩
    rw [List.length_drop] at h1
    omega

theorem loop1_fold_len (g : Grammar) (an : Analysis) : ∀ (l : List Nat) (c : Core),
    (l.foldl (fun c i => addDerivedNonstartSits g an c (c.sits.getD i default) i) c).sits.length ≤
      c.sits.length + l.length * g.maxRhs
  | [], c => by simp
  | i :: l, c => by
    simp only [List.foldl_cons, List.length_cons]
    have h1 := loop1_fold_len g an l (addDerivedNonstartSits g an c (c.sits.getD i default) i)
    have h2 := (addDerivedNonstartSits_len g an c (c.sits.getD i default) i).1
    rw [Nat.add_mul]
    omega

theorem expandLoop1_len (g : Grammar) (an : Analysis) (c : Core) :
    (expandLoop1 g an c).sits.length ≤ c.sits.length + c.nStart * g.maxRhs := by
  unfold expandLoop1
  have := loop1_fold_len g an (List.range c.nStart) c
  rwa [List.length_range] at this

/-- the number of situations of an expanded core -/
theorem expand_sits_length (g : Grammar) (an : Analysis) (num : Nat) (ss : List Sit) :
    (expandNewStartSet g an (Core.fresh num ss)).sits.length ≤
      ss.length * (g.maxRhs + 1) + sitBound g := by
  unfold expandNewStartSet expandNewStartSetWith
  have h0 := L1Inv_fresh num ss
  have hd0 : (Core.fresh num ss).derived = [] := by simp [Core.derived, Core.fresh]
  obtain ⟨h1, _, _⟩ := expandLoop1_spec g an h0 hd0
  have hlen1 := expandLoop1_len g an (Core.fresh num ss)
  generalize expandLoop1 g an (Core.fresh num ss) = c1 at h1 hlen1
  obtain ⟨I, T, he, hI⟩ := expandLoop2_spec g an h1
  dsimp only
  rw [he]
  obtain ⟨R, hR, _⟩ := loop3N_spec g c1 I T (c1.sits ++ I).length
  have e3 : expandLoop3 g (mk2 c1 I T []) = mk2 c1 I T R := hR
  rw [e3]
  show (c1.sits ++ I).length ≤ _
  have h2 := hI.length_le h1
  rw [← h1.len] at h2
  have h3 : (Core.fresh num ss).sits.length = ss.length := rfl
  have h4 : (Core.fresh num ss).nStart = ss.length := rfl
  rw [h3, h4] at hlen1
  rw [Nat.mul_add, Nat.mul_one]
  omega

/-! ## the number of start situations -/

section
variable {g : Grammar} {an : Analysis} {ok : Nat → Nat → Bool} {plA : List (List Item)}
  {pl : List CSet} {a : Nat}

/-- `build_new_set` keeps at most `sitBound g * (|pl| + 1)` start situations (distinct pairs
situation / distance) -/
theorem buildNewSet_dists_len {tab : Tab} (hnl : an.nl = g.nullable) (htab : TabInv g an tab)
    (h : PLOK g plA pl) (hne : pl ≠ []) :
    (buildNewSet g an ok tab pl (pl.getLastD default) (Sym.t a)).2.dists.length ≤
      sitBound g * (pl.length + 1) := by
  have hspec := insert_expand_spec htab (newStarts g an ok pl a).1
  have hinv := newStarts_inv (ok := ok) (a := a) hnl h hne
  have hunf : buildNewSet g an ok tab pl (pl.getLastD default) (Sym.t a) =
      let st := newStarts g an ok pl a
      let r := setInsert tab st.1
      let tab' : Tab := { r.1 with bad := r.1.bad || st.2 }
      if r.2.2 then
        (tab'.storeCore (expandNewStartSet g an r.2.1.core),
          { r.2.1 with core := expandNewStartSet g an r.2.1.core })
      else (tab', r.2.1) := rfl
  rw [hunf]
  dsimp only at hspec ⊢
  have hlen : (newStarts g an ok pl a).1.length ≤ sitBound g * (pl.length + 1) := by
    have := nodup_subset_length hinv.nodup (fun p hp => (hinv.all p hp).in_univ h)
    rwa [length_pairUniv] at this
  by_cases hnew : (setInsert tab (newStarts g an ok pl a).1).2.2 = true
  · rw [if_pos hnew] at hspec ⊢
    obtain ⟨_, hd, _⟩ := hspec
    show (setInsert tab (newStarts g an ok pl a).1).2.1.dists.length ≤ _
    have hd' : (setInsert tab (newStarts g an ok pl a).1).2.1.dists = _ := hd
    rw [hd', List.length_map]; exact hlen
  · rw [if_neg hnew] at hspec ⊢
    obtain ⟨_, hd, _⟩ := hspec
    rw [hd, List.length_map]; exact hlen

end

/-- every set of the list has at most `sitBound g * (position + 1)` start situations -/
def DistsOK (g : Grammar) (pl : List CSet) : Prop :=
  ∀ k, k < pl.length → (pl.getD k default).dists.length ≤ sitBound g * (k + 1)

theorem DistsOK_snoc {g : Grammar} {pl : List CSet} {cs : CSet} (h : DistsOK g pl)
    (hcs : cs.dists.length ≤ sitBound g * (pl.length + 1)) : DistsOK g (pl ++ [cs]) := by
  intro k hk
  rw [List.length_append, List.length_singleton] at hk
  rw [List.getD_eq_getElem?_getD]
  rcases Nat.lt_or_ge k pl.length with hlt | hge
  · rw [List.getElem?_append_left hlt, ← List.getD_eq_getElem?_getD]; exact h k hlt
  · have : k = pl.length := by omega
    subst this
    rw [List.getElem?_append_right (Nat.le_refl _)]
    simpa using hcs

theorem parseLoopC_dists (g : Grammar) (an : Analysis) (la : Nat) (hnl : an.nl = g.nullable) :
    ∀ (toks : List Nat) (tab : Tab) (pl : List CSet) (plA : List (List Item)) (k : Nat),
      TabInv g an tab → PLOK g plA pl → pl ≠ [] → (∀ cs ∈ pl, Expanded g an cs) → DistsOK g pl →
      DistsOK g (parseLoopC g an la toks tab pl k).2.2 := by
  intro toks
  induction toks with
  | nil => intro tab pl plA k _ _ _ _ hd; exact hd
  | cons a rest ih =>
    intro tab pl plA k ht h hne he hd
    rw [parseLoopC_cons]
    by_cases hT : (pl.getLastD default).core.find (Sym.t a) = true
    · rw [if_pos hT]
      obtain ⟨h1, h2, h3, h4⟩ := buildNewSet_main (ok := okItem g an la rest.head?) (a := a) hnl ht h hne
      have h5 := buildNewSet_dists_len (ok := okItem g an la rest.head?) (a := a) hnl ht h hne
      apply ih _ _ _ _ h1 (PLOK_snoc h h2 h4) (by simp) ?_ (DistsOK_snoc hd h5)
      intro cs hcs
      rcases List.mem_append.mp hcs with hcs | hcs
      · exact he cs hcs
      · rw [List.mem_singleton.mp hcs]; exact h3
    · rw [if_neg hT]; exact hd

theorem rulesOf_length_le (g : Grammar) (A : Nat) : (rulesOf g A).length ≤ g.rules.length := by
  unfold rulesOf Grammar.rulesFor
  rw [List.length_reverse]
  exact Nat.le_trans (List.length_filter_le _ _) (by simp)

theorem buildStartSet_dists_len (g : Grammar) (an : Analysis) :
    (buildStartSet g an).2.dists.length ≤ sitBound g * (0 + 1) := by
  rw [buildStartSet_unfold]
  dsimp only
  rw [foldl_addStartSit]
  simp only [setNewStart, List.nil_append]
  show (setInsert {} ((rulesOf g g.axiomN).map fun r => (((r, 0), 0) : Sit × Nat))).2.1.dists.length ≤ _
  rw [(setInsert_spec {} _).1, List.length_map, List.length_map]
  have := rulesOf_length_le g g.axiomN
  unfold sitBound
  rw [Nat.mul_one, Nat.mul_add, Nat.mul_one]
  omega

theorem buildPLC_dists (g : Grammar) (la : Nat) (w : List Nat) : DistsOK g (buildPLC g la w).2.2 := by
  rw [buildPLC_eq]
  obtain ⟨h1, h2, h3, h4⟩ := buildStartSet_main g g.analysis rfl
  apply parseLoopC_dists g g.analysis la rfl _ _ _ [set0 g] 0 h1
  · refine ⟨rfl, ?_, ?_⟩
    · intro k hk
      have : k = 0 := by simpa using hk
      subst this; simpa using h2
    · intro k hk it
      have : k = 0 := by simpa using hk
      subst this; simpa using h4 it
  · simp
  · intro cs hcs
    rw [List.mem_singleton.mp hcs]; exact h3
  · intro k hk
    have : k = 0 := by simpa using hk
    subst this
    simpa using buildStartSet_dists_len g g.analysis

/-- a bound on the size of the set at list position `k` -/
def setBound (g : Grammar) (k : Nat) : Nat := sitBound g * (k + 1) * (g.maxRhs + 1) + sitBound g

/-- **the size of the sets `build_pl` builds** -/
theorem buildPLC_set_size (g : Grammar) (la : Nat) (w : List Nat) (k : Nat)
    (hk : k < (buildPLC g la w).2.2.length) :
    ((buildPLC g la w).2.2.getD k default).core.sits.length ≤ setBound g k := by
  have hd := buildPLC_dists g la w k hk
  have hmem : (buildPLC g la w).2.2.getD k default ∈ (buildPLC g la w).2.2 := by
    rw [List.getD_eq_getElem?_getD, List.getElem?_eq_getElem hk]
    exact List.getElem_mem hk
  obtain ⟨num, ss, hc, hl, _⟩ := (buildPLC_spec g la w).2.2.2 _ hmem
  rw [hc]
  have h1 := expand_sits_length g g.analysis num ss
  rw [← hl] at h1
  have h2 := Nat.mul_le_mul_right (g.maxRhs + 1) hd
  unfold setBound
  omega

end Yaep.BS

namespace Yaep.MP
open Yaep

theorem setBound_mono (g : Grammar) {k n : Nat} (h : k ≤ n) : BS.setBound g k ≤ BS.setBound g n := by
  unfold BS.setBound
  have h1 : k + 1 ≤ n + 1 := by omega
  have h2 := Nat.mul_le_mul_left (BS.sitBound g) h1
  have h3 := Nat.mul_le_mul_right (g.maxRhs + 1) h2
  omega

/-- **no set of the parse list of an accepted input of `|w|` tokens has more than
`setBound g (|w| + 1)` situations** -/
theorem plSets_size_le {g : Grammar} {la : Nat} {w : List Nat} (hacc : (BS.buildPLC g la w).1 = none)
    (j : Nat) : ((plSets g la w).getD j #[]).size ≤ BS.setBound g (w.length + 1) := by
  have hsz := (ctxAll_plSets hacc).size
  have hsz' : (plSets g la w).size = w.length + 2 := by
    have e : (mkCtx g (plSets g la w) (plTokNums w) false).sets = plSets g la w := rfl
    rw [e] at hsz; rw [hsz]; simp
  rcases Nat.lt_or_ge j (plSets g la w).size with h | h
  · have hj : j < (BS.buildPLC g la w).2.2.length := by rw [← plSets_size]; exact h
    rw [plSets_getD g la w j hj]
    have := BS.buildPLC_set_size g la w j hj
    have hm := setBound_mono g (show j ≤ w.length + 1 by omega)
    simp only [List.size_toArray]
    unfold BS.CSet.items
    rw [List.length_map, List.length_range]
    omega
  · rw [Array.getD_eq_getD_getElem?, Array.getElem?_eq_none h]
    simp

/-- **fuel that suffices in all-parses mode** for an input of `n` tokens (end marker included):
`(2 C + 2) ^ ((n (nN + 1) + nN) (maxRhs + 1) + maxRhs)` with `C = setBound g n` the bound on the
size of a set.  (The number of iterations is exponential in `n` for some grammars, see
`Yaep/Props/MakeParseTotal.lean`.) -/
def mpAllFuel (g : Grammar) (n : Nat) : Nat := mpAllFuelC g n (BS.setBound g n)

theorem mpAllFuelC_mono (g : Grammar) (n : Nat) {C C' : Nat} (h : C ≤ C') :
    mpAllFuelC g n C ≤ mpAllFuelC g n C' := by
  unfold mpAllFuelC
  exact Nat.pow_le_pow_left (by omega) _

end Yaep.MP
