import Yaep.Lemmas.PruneCMain
import Yaep.Lemmas.PruneCExport
import Yaep.Lemmas.PruneCExport2
import Yaep.Lemmas.PruneCTest
/-!
# Helper lemmas for `Props/PruneC.lean` (the model of `find_minimal_translation`)

The lemmas live in the files imported here:

* `PruneCBasic`  — heap access, `WfHeap`, ALT chains, fuel independence of the unfolding;
* `PruneCSpec`   — `Reach`, the pure specification `U`, `cost0`, `kept`, `res0`;
* `PruneCPass1*` — the state invariant `Inv` of `prune_to_minimal`, its two loops and
  `pruneToMinimal_spec`;
* `PruneCSem`    — the pruned heap denotes what `prune` says (`pruned_denote`);
* `PruneCPass2*` — `traverse_pruned_translation` on an abstract pruned heap
  (`traversePruned_spec`);
* `PruneCLink`   — the heap after the first pass is such a pruned heap;
* `PruneCFinal`, `PruneCFree`, `PruneCMain` — the passes as a whole, the freeing loop;
* `PruneCExport`, `PruneCExport2` — `unfoldC` is `MP.exportTable` + `unfoldAt`, for the input heap
  and for the final heap;
* `PruneCWit` — computing the witnesses of `WfHeap`; `PruneCHistoric` — the defective variants;
  `PruneCTest` — tests on random heaps.
-/
