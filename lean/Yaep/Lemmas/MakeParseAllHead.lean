import Yaep.Lemmas.MakeParseAllTail
/-!
# All-parses mode: choosing the state a candidate is attached to (`candHead`); copies
-/
namespace Yaep.MP
open Yaep

/-- the place a state delivers to, and its type -/
theorem StateOK.tgtSlot {g : Grammar} {ok : Nat → Nat → Nat → Bool} {toks : List Nat} {G : Ghost}
    {h : Array MNode} {sts : Array PState} {stack : List Nat} {sid : Nat} {rl : Rule}
    (hs : StateOK g ok toks G h sts stack sid rl)
    (hroot : (sts.getD 0 default).anode = some rootId) :
    ∃ pa T, (sts.getD (sts.getD sid default).parent default).anode = some pa ∧
      SlotOf g toks G sts stack pa (sts.getD sid default).parentDisp T ∧
      ∀ t, Tr g toks (.n rl.lhs) (sts.getD sid default).orig (G.sfin sid) t → T t := by
  obtain ⟨pa, hpa⟩ := hs.pa
  rcases hs.tgt with ⟨t1, t2, t3⟩ | ⟨t1, rlP, qP, Y, aP, t2, t3, t4, t5, t6, t7⟩
  · refine ⟨pa, _, hpa, Or.inl ⟨?_, t2, rfl⟩, t3⟩
    rw [t1, hroot] at hpa; injection hpa with hpa; exact hpa.symm
  · rw [hpa] at t3; injection t3 with t3; subst t3
    exact ⟨pa, _, hpa, Or.inr ⟨_, t1, hpa, rlP, qP, Y, t2, t5, t4, t6, rfl⟩, t7⟩

/-- ghost data of a copy `y` of the state `X` for the new split point `k` before position `p` -/
def Ghost.copyState (G : Ghost) (y X p k : Nat) : Ghost :=
  { G with sfin := fun x => if x = y then G.sfin X else G.sfin x,
           ssp := fun x q => if x = y then (if q = p then k else G.ssp X q) else G.ssp x q }

theorem Ghost.copyState_old (G : Ghost) (y X p k x : Nat) (h : x ≠ y) :
    (G.copyState y X p k).ssp x = G.ssp x ∧ (G.copyState y X p k).sfin x = G.sfin x := by
  constructor
  · funext q; simp [Ghost.copyState, h]
  · simp [Ghost.copyState, h]

/-- the invariant of a copy of the state `X` (all but its cell) -/
theorem copy_stateOK {g : Grammar} {ok : Nat → Nat → Nat → Bool} {toks : List Nat} {s : St}
    {G G' : Ghost} {X : Nat} {rlX : Rule} {A d k : Nat} (hwf : g.translWF = true)
    (hX : StateOK g ok toks G s.heap s.states s.stack X rlX)
    (hsym : rlX.rhs[(s.states.getD X default).pos]? = some (.n A))
    (hd : rlX.order.getD (s.states.getD X default).pos none = some d)
    (hE : EarleyF g ok toks k ⟨(s.states.getD X default).rule, (s.states.getD X default).pos,
      (s.states.getD X default).orig⟩)
    {Y : PState} {h' : Array MNode}
    (y1 : Y.rule = (s.states.getD X default).rule) (y2 : Y.pos = (s.states.getD X default).pos)
    (y3 : Y.orig = (s.states.getD X default).orig) (y4 : Y.plInd = k)
    (y5 : Y.parent = (s.states.getD X default).parent)
    (y6 : Y.parentDisp = (s.states.getD X default).parentDisp)
    (hsp : G'.ssp s.states.size = fun q => if q = (s.states.getD X default).pos then k else G.ssp X q)
    (hfin : G'.sfin s.states.size = G.sfin X)
    (hold : ∀ x, x < s.states.size → G'.ssp x = G.ssp x)
    (hcell : match Y.anode with
      | some a => LiveCell g toks G' h' s.states.size Y rlX a
      | none => rlX.anode = none) :
    StateOK g ok toks G' h' (s.states.push Y) (s.states.size :: s.stack) s.states.size rlX := by
  have hY : (s.states.push Y).getD s.states.size default = Y := getD_push_eq _ _ _
  have hsts : ∀ x, x < s.states.size → (s.states.push Y).getD x default = s.states.getD x default :=
    fun x hx => getD_push_lt _ _ _ _ hx
  have hXlt := hX.lt
  have hPlt := hX.parLt
  have hplt : (s.states.getD X default).pos < rlX.rhs.length := (List.getElem?_eq_some_iff.mp hsym).1
  have hok := Grammar.translWF_rule hwf hX.hr
  refine ⟨by simp, by rw [hY, y5]; omega, by rw [hY, y1]; exact hX.hr, by rw [hY, y2]; exact hX.posLe,
    ?_, ?_, ?_, ?_, ?_, ?_, by rw [hY]; exact hcell⟩
  · rw [hY, y1, y2, y3, y4, hsp]
    intro _
    exact ⟨hE, by simp⟩
  · rw [hY, y2, y3, hsp]
    intro h0
    simp only [h0, if_true]
    rw [h0] at hE
    exact hE.dot_zero.symm
  · rw [hsp, hfin]
    simp only
    rw [if_neg (by omega)]
    exact hX.spFin
  · rw [hY, y2, hsp]
    intro q Z hq hZ ho
    have hqne : q ≠ (s.states.getD X default).pos := by
      intro e; rw [e, hd] at ho; cases ho
    simp only
    rw [if_neg hqne, if_neg (by omega)]
    exact hX.untr q Z hq hZ ho
  · rw [hY, y5, hsts _ (by omega)]; exact hX.pa
  · rw [hY, y5, y6, y3, hfin]
    rcases hX.tgt with ⟨t1, t2, t3⟩ | ⟨t1, rlP, qP, Z, aP, t2, t3, t4, t5, t6, t7⟩
    · exact Or.inl ⟨t1, t2, t3⟩
    · have hPl : (s.states.getD X default).parent < s.states.size := by omega
      refine Or.inr ⟨List.mem_cons_of_mem _ t1, rlP, qP, Z, aP, by rw [hsts _ hPl]; exact t2,
        by rw [hsts _ hPl]; exact t3, t4, by rw [hsts _ hPl]; exact t5, t6, ?_⟩
      rw [hold _ hPl]; exact t7

/-- `copy_anode` and the copy of a state with abstract node for another origin -/
theorem copy_owner_good {g : Grammar} {ok : Nat → Nat → Nat → Bool} {toks : List Nat} {s s' : St}
    {G : Ghost} (hwf : g.translWF = true) (hgood : AGood g ok toks s G none)
    {X : Nat} {rlX : Rule} {A d k a pa : Nat} (hXmem : X ∈ s.stack)
    (hX : StateOK g ok toks G s.heap s.states s.stack X rlX)
    (han : (s.states.getD X default).anode = some a)
    (hpa : (s.states.getD (s.states.getD X default).parent default).anode = some pa)
    (hsym : rlX.rhs[(s.states.getD X default).pos]? = some (.n A))
    (hd : rlX.order.getD (s.states.getD X default).pos none = some d)
    (hE : EarleyF g ok toks k ⟨(s.states.getD X default).rule, (s.states.getD X default).pos,
      (s.states.getD X default).orig⟩)
    (hfull : ∀ q d', (s.states.getD X default).pos < q → rlX.order.getD q none = some d' →
      getKid s.heap a d' ≠ none)
    (hh : s'.heap = placeTranslation (s.heap.push (copyCell s.heap a d))
      (pa, (s.states.getD X default).parentDisp) s.heap.size)
    (hs : s'.states = s.states.push { s.states.getD X default with plInd := k, anode := some s.heap.size })
    (hk : s'.stack = s.states.size :: s.stack) (ht : s'.table = s.table)
    (hn : s'.termNodes = s.termNodes) :
    ∃ G', AGood g ok toks s' G' (some (s.heap.size, d)) ∧ Grow s G s' G' ∧
      G'.ssp s.states.size (s.states.getD X default).pos = k ∧
      G'.ssp s.states.size ((s.states.getD X default).pos + 1) = G.ssp X ((s.states.getD X default).pos + 1) := by
  let G' : Ghost := (G.copyState s.states.size X (s.states.getD X default).pos k).newCell s.heap.size
    ⟨(s.states.getD X default).rule, (s.states.getD X default).orig, G.sfin X⟩
  let Y : PState := { s.states.getD X default with plInd := k, anode := some s.heap.size }
  let H1 : Array MNode := s.heap.push (copyCell s.heap a d)
  let s1 : St := { s with heap := H1, states := s.states.push Y, stack := s.states.size :: s.stack }
  have hold : ∀ x, x < s.states.size → G'.ssp x = G.ssp x ∧ G'.sfin x = G.sfin x :=
    fun x hx => G.copyState_old _ _ _ _ _ (by omega)
  have hty : ∀ m, m < s.heap.size → G'.ty m = G.ty m := by
    intro m hm; simp [G', Ghost.newCell, Ghost.copyState]; omega
  have htynew : G'.ty s.heap.size =
      ⟨(s.states.getD X default).rule, (s.states.getD X default).orig, G.sfin X⟩ := by
    simp [G', Ghost.newCell]
  have hspY : G'.ssp s.states.size =
      fun q => if q = (s.states.getD X default).pos then k else G.ssp X q := by
    funext q; simp [G', Ghost.newCell, Ghost.copyState]
  have hfinY : G'.sfin s.states.size = G.sfin X := by simp [G', Ghost.newCell, Ghost.copyState]
  obtain ⟨rks, _, _, hroot, _⟩ := hgood.root
  have hok := Grammar.translWF_rule hwf hX.hr
  have hlt : ∀ x ∈ s.stack, x < s.states.size := by
    intro x hx; obtain ⟨rl, hx'⟩ := hgood.states x hx; exact hx'.lt
  have hcX := hX.cell
  rw [han] at hcX
  obtain ⟨c1, c2, c3, nm, ks, c4, c5, c6, c7⟩ := hcX
  have hcopy : copyCell s.heap a d = .anode nm rlX.cost (ks.set! d none) := by
    unfold copyCell; rw [c5]
  have hext1 : HeapExt s.heap H1 := ⟨by simp [H1], fun m hm => Or.inl (getD_push_lt _ _ _ _ hm)⟩
  have hgrow1 : Grow s G s1 G' := Grow.push (Or.inr ⟨_, rfl⟩) rfl rfl hty hold
  have hY : (s.states.push Y).getD s.states.size default = Y := getD_push_eq _ _ _
  have hg1 : AGood g ok toks s1 G' (some (s.heap.size, d)) := by
    refine hgood.push (Y := Y) (rlY := rlX) (Or.inr ⟨nm, rlX.cost, ks.set! d none, by rw [← hcopy], rfl⟩)
      rfl rfl hty hold ?_ (fun pl r o node hm => Or.inl hm) rfl (fun pl h1 _ => by cases h1) ?_
    · refine copy_stateOK hwf hX hsym hd hE rfl rfl rfl rfl rfl rfl hspY hfinY
        (fun x hx => (hold x hx).1) ?_
      show LiveCell g toks G' H1 s.states.size Y rlX s.heap.size
      refine ⟨by simp [H1], hroot, by rw [htynew, hfinY], nm, ks.set! d none, c4,
        by rw [← hcopy]; exact getD_push_eq _ _ _, by simp [c6], ?_⟩
      intro d' m hm
      rw [getD_set!] at hm
      split at hm
      · cases hm
      · rename_i hne
        obtain ⟨q, Z, d1, d2, d3, d4⟩ := c7 d' m hm
        have hqne : q ≠ (s.states.getD X default).pos := by
          intro e; rw [e, hd] at d2; injection d2 with d2
          have := hok.slot_lt _ _ (order_getD_eq_some.mp hd)
          exact hne ⟨d2, by omega⟩
        refine ⟨q, Z, d1, d2, d3, ?_⟩
        rw [hspY]
        simp only
        rw [if_neg hqne, if_neg (by omega)]
        exact d4.mono hext1 hty (fun _ h => h)
    · intro pl hproc hhole
      obtain ⟨rlx, q, dd, q1, q2, q3, q4⟩ := hproc
      change g.rules[((s.states.push Y).getD s.states.size default).rule]? = some rlx at q1
      change ((s.states.push Y).getD s.states.size default).pos ≤ q at q2
      change pl = placeOfSt (s.states.push Y) ((s.states.push Y).getD s.states.size default) dd at q4
      rw [hY] at q1 q2 q4
      have q1' : g.rules[(s.states.getD X default).rule]? = some rlx := q1
      rw [hX.hr] at q1'; injection q1' with q1'; subst q1'
      have q2' : (s.states.getD X default).pos ≤ q := q2
      have hpl : pl = (s.heap.size, dd) := by rw [q4]; unfold placeOfSt; rfl
      have hqne : q ≠ (s.states.getD X default).pos := by
        intro e; rw [e, hd] at q3; injection q3 with q3
        apply hhole; rw [hpl, q3]
      have hdd : dd ≠ d := by
        intro e; rw [e] at q3
        exact hqne (hok.inj _ _ _ (order_getD_eq_some.mp q3) (order_getD_eq_some.mp hd))
      rw [hpl]
      show getKid H1 s.heap.size dd ≠ none
      have hcellY : H1.getD s.heap.size .nil = .anode nm rlX.cost (ks.set! d none) := by
        rw [← hcopy]; exact getD_push_eq _ _ _
      rw [getKid_of_cell hcellY, getD_set!, if_neg (fun hh => hdd hh.1.symm)]
      have := hfull q dd (by omega) q3
      rw [getKid_of_cell c5] at this
      exact this
  -- the copy becomes an alternative in the place of `X`
  obtain ⟨pa', T, t1, hslot, hsub⟩ := hX.tgtSlot hgood.rootSt.1
  rw [hpa] at t1; injection t1 with t1; subst t1
  have hslot1 := hslot.grow hgrow1 hlt
  have hnode : PtrOK g toks G'.ty s1.heap s.heap.size T := by
    refine .anode (by simp [s1, H1]) hroot (by show H1.getD _ _ = _; rw [← hcopy]; exact getD_push_eq _ _ _) ?_
    intro t ht
    rw [htynew] at ht
    exact hsub t (ht.tr hX.hr)
  obtain ⟨d1, _, nm1, cc1, ks1, d2, _, _⟩ := hslot1.cell hwf hg1
  have hg2 := hg1.place hwf hslot1 hnode (s' := s') (by rw [hh]) (by rw [hs]) (by rw [hk])
    (by rw [ht]) (by rw [hn])
  have hne : (some (s.heap.size, d) : Option (Nat × Nat)) ≠
      some (pa, (s.states.getD X default).parentDisp) := by
    intro e; injection e with e; injection e with e1 _
    obtain ⟨e2, _⟩ := hslot.cell hwf hgood
    omega
  rw [if_neg hne] at hg2
  refine ⟨G', hg2, hgrow1.trans (Grow.place (node := s.heap.size) d2 d1 (by simp [s1, H1])
    (by rw [hh]) (by rw [hs]) (by rw [hk])), ?_, ?_⟩
  · rw [hspY]; simp
  · rw [hspY]; simp

/-- the copy of a state without abstract node for another origin -/
theorem copy_pass_good {g : Grammar} {ok : Nat → Nat → Nat → Bool} {toks : List Nat} {s s' : St}
    {G : Ghost} (hwf : g.translWF = true) (hgood : AGood g ok toks s G none)
    {X : Nat} {rlX : Rule} {A d k pa : Nat}
    (hX : StateOK g ok toks G s.heap s.states s.stack X rlX)
    (han : (s.states.getD X default).anode = none)
    (hpa : (s.states.getD (s.states.getD X default).parent default).anode = some pa)
    (hsym : rlX.rhs[(s.states.getD X default).pos]? = some (.n A))
    (hd : rlX.order.getD (s.states.getD X default).pos none = some d)
    (hE : EarleyF g ok toks k ⟨(s.states.getD X default).rule, (s.states.getD X default).pos,
      (s.states.getD X default).orig⟩)
    (hh : s'.heap = s.heap)
    (hs : s'.states = s.states.push { s.states.getD X default with plInd := k, anode := none })
    (hk : s'.stack = s.states.size :: s.stack) (ht : s'.table = s.table)
    (hn : s'.termNodes = s.termNodes) :
    AGood g ok toks s' (G.copyState s.states.size X (s.states.getD X default).pos k)
        (some (pa, (s.states.getD X default).parentDisp)) ∧
      Grow s G s' (G.copyState s.states.size X (s.states.getD X default).pos k) := by
  have hold : ∀ x, x < s.states.size →
      (G.copyState s.states.size X (s.states.getD X default).pos k).ssp x = G.ssp x ∧
      (G.copyState s.states.size X (s.states.getD X default).pos k).sfin x = G.sfin x :=
    fun x hx => G.copyState_old _ _ _ _ _ (by omega)
  have hok := Grammar.translWF_rule hwf hX.hr
  have hcX := hX.cell
  rw [han] at hcX
  have hY : (s.states.push { s.states.getD X default with plInd := k, anode := none }).getD
      s.states.size default = { s.states.getD X default with plInd := k, anode := none } :=
    getD_push_eq _ _ _
  refine ⟨?_, Grow.push (Or.inl hh) hs hk (fun _ _ => rfl) hold⟩
  refine hgood.push (rlY := rlX) (Or.inl ⟨hh, rfl⟩) hs hk (fun _ _ => rfl) hold ?_
    (fun pl r o node hm => Or.inl (by rw [ht] at hm; exact hm)) hn (fun pl h1 _ => by cases h1) ?_
  · rw [hh, hs, hk]
    refine copy_stateOK hwf hX hsym hd hE rfl rfl rfl rfl rfl rfl ?_ ?_ (fun x hx => (hold x hx).1) hcX
    · funext q; simp [Ghost.copyState]
    · simp [Ghost.copyState]
  · intro pl hproc hhole
    exfalso; apply hhole
    obtain ⟨rlx, q, dd, q1, q2, q3, q4⟩ := hproc
    rw [hs, hY] at q1 q2 q4
    have q1' : g.rules[(s.states.getD X default).rule]? = some rlx := q1
    rw [hX.hr] at q1'; injection q1' with q1'; subst q1'
    rw [q4]
    unfold placeOfSt
    simp only
    have hpar : (s.states.push { s.states.getD X default with plInd := k, anode := none }).getD
        (s.states.getD X default).parent default = s.states.getD (s.states.getD X default).parent default :=
      getD_push_lt _ _ _ _ (by have := hX.parLt; have := hX.lt; omega)
    rw [hpar, hpa]; rfl

end Yaep.MP
