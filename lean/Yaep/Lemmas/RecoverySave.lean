import Yaep.Model.RecoverySave
/-!
# Lemmas for `Props/RecoverySave.lean`: the memory invariant and the three loops
-/
namespace Yaep.RS

variable {α : Type}

/-- The concrete arrays and the stack of saved sets describe the ORIGINAL list `orig`/`origT`
(the list `pl[0 .. start_pl_curr]` at the start of the recovery):
* `pre`: `pl[0 .. original_last_pl_el]` (and `pl_toks`) is original;
* `stk`: the stack holds `orig[start]`, `orig[start-1]`, … in that order;
* `ot`: `original_pl_toks` is right on the saved range;
* `nLo`: everything above the watermark that is original has been saved. -/
structure Mem (orig : List α) (origT : List Int) (cap : Nat) (s : St α) : Prop where
  plLen : s.pl.length = cap
  tokLen : s.plToks.length = cap
  otLen : s.origToks.length = cap
  startLt : s.start < cap
  lenLe : s.origStack.length ≤ s.start + 1
  nLo : s.start + 1 - s.origStack.length ≤ s.origN
  nHi : s.origN ≤ s.start + 1
  pre : ∀ i, i < s.origN → s.pl[i]? = orig[i]? ∧ s.plToks[i]? = origT[i]?
  stk : ∀ k, k < s.origStack.length → s.origStack[k]? = orig[s.start - k]?
  ot : ∀ i, s.start + 1 - s.origStack.length ≤ i → i ≤ s.start → s.origToks[i]? = origT[i]?

/-- a recovery state that may be handed to `set_recovery_state` -/
structure StateOK (cap : Nat) (s : St α) (st : RecState α) : Prop where
  lo : s.frontier ≤ st.last
  hi : st.last ≤ s.start
  fits : st.last + st.tail.length < cap
  toks : st.tailToks.length = st.tail.length

/-- the invariant of the whole search: the concrete state refines (original list, current list) -/
structure Inv (orig : List α) (origT : List Int) (cap : Nat) (s : St α) : Prop where
  mem : Mem orig origT cap s
  origLen : orig.length = s.start + 1
  origTLen : origT.length = s.start + 1
  low : s.frontier + s.origStack.length = s.start + 1
  curLt : s.plCurr < cap
  nCur : s.origN ≤ s.plCurr + 1
  recLe : s.recLen ≤ s.recMem.length
  recOK : ∀ k st, k < s.recLen → s.recMem[k]? = some st → StateOK cap s st
  curOK : ∀ st, s.cur = some st → StateOK cap s st ∧ s.origN = st.last + 1
  bestOK : ∀ st, s.best = some st → StateOK cap s st

/-! ## `save_original_sets` -/

theorem saveLoop_spec {orig : List α} {origT : List Int} {cap : Nat} (n : Nat) :
    ∀ (s : St α), Mem orig origT cap s → s.origStack.length + n ≤ s.start + 1 →
    ∃ stk' ot', saveLoop {} n s = some { s with origStack := stk', origToks := ot' } ∧
      stk'.length = s.origStack.length + n ∧
      Mem orig origT cap { s with origStack := stk', origToks := ot' } := by
  induction n with
  | zero =>
    intro s hm _
    exact ⟨s.origStack, s.origToks, rfl, rfl, hm⟩
  | succ n ih =>
    intro s hm hn
    have hc : s.start - s.origStack.length < cap := by have := hm.startLt; omega
    have hlt : s.start - s.origStack.length < s.origN := by have := hm.nLo; omega
    obtain ⟨hp1, hp2⟩ := hm.pre _ hlt
    have h1 : s.start - s.origStack.length < s.pl.length := by rw [hm.plLen]; exact hc
    have h2 : s.start - s.origStack.length < s.plToks.length := by rw [hm.tokLen]; exact hc
    rw [List.getElem?_eq_getElem h1] at hp1
    rw [List.getElem?_eq_getElem h2] at hp2
    have hm2 : Mem orig origT cap { s with
        origStack := s.origStack ++ [s.pl[s.start - s.origStack.length]],
        origToks := s.origToks.set (s.start - s.origStack.length) s.plToks[s.start - s.origStack.length] } := by
      refine ⟨hm.plLen, hm.tokLen, ?_, hm.startLt, ?_, ?_, hm.nHi, hm.pre, ?_, ?_⟩
      · simp [hm.otLen]
      · simp; omega
      · have := hm.nLo; simp; omega
      · intro k hk
        simp only [List.length_append, List.length_singleton] at hk
        by_cases hk' : k < s.origStack.length
        · rw [List.getElem?_append_left hk']; exact hm.stk k hk'
        · have : k = s.origStack.length := by omega
          subst this
          simp only [List.getElem?_append_right (Nat.le_refl _), Nat.sub_self]
          simpa using hp1
      · intro i hi1 hi2
        simp only [List.length_append, List.length_singleton] at hi1
        by_cases hic : i = s.start - s.origStack.length
        · subst hic
          rw [List.getElem?_set_self (by rw [hm.otLen]; exact hc)]
          exact hp2
        · rw [List.getElem?_set_ne (by omega)]
          exact hm.ot i (by omega) hi2
    obtain ⟨stk', ot', he, hl, hm'⟩ := ih _ hm2 (by simp; omega)
    refine ⟨stk', ot', ?_, ?_, ?_⟩
    · rw [saveLoop]
      have hle : s.origStack.length ≤ s.start := by omega
      simp only [hle, if_true, List.getElem?_eq_getElem h1, List.getElem?_eq_getElem h2, hm.otLen, hc]
      simpa using he
    · simp at hl; omega
    · simpa using hm'

/-! ## `restore_original_sets` -/

theorem restoreLoop_spec {orig : List α} {origT : List Int} {cap : Nat} (n : Nat) :
    ∀ (s : St α), Mem orig origT cap s → s.origN + n ≤ s.start + 1 →
    ∃ pl' pt', restoreLoop {} n s = some { s with pl := pl', plToks := pt', origN := s.origN + n } ∧
      Mem orig origT cap { s with pl := pl', plToks := pt', origN := s.origN + n } := by
  induction n with
  | zero =>
    intro s hm _
    exact ⟨s.pl, s.plToks, rfl, hm⟩
  | succ n ih =>
    intro s hm hn
    have hi : s.origN ≤ s.start := by omega
    have hcap : s.origN < cap := by have := hm.startLt; omega
    have hk : s.start - s.origN < s.origStack.length := by have := hm.nLo; have := hm.lenLe; omega
    have hs := hm.stk _ hk
    rw [List.getElem?_eq_getElem hk] at hs
    have ho := hm.ot s.origN hm.nLo hi
    have hol : s.origN < s.origToks.length := by rw [hm.otLen]; exact hcap
    rw [List.getElem?_eq_getElem hol] at ho
    have hsub : s.start - (s.start - s.origN) = s.origN := by omega
    rw [hsub] at hs
    have hm2 : Mem orig origT cap { s with
        pl := s.pl.set s.origN s.origStack[s.start - s.origN],
        plToks := s.plToks.set s.origN s.origToks[s.origN], origN := s.origN + 1 } := by
      refine ⟨?_, ?_, hm.otLen, hm.startLt, hm.lenLe, ?_, ?_, ?_, hm.stk, hm.ot⟩
      · simp [hm.plLen]
      · simp [hm.tokLen]
      · have := hm.nLo; simp; omega
      · simp; omega
      · intro i hi'
        simp only at hi'
        by_cases hic : i = s.origN
        · subst hic
          rw [List.getElem?_set_self (by rw [hm.plLen]; exact hcap),
            List.getElem?_set_self (by rw [hm.tokLen]; exact hcap)]
          exact ⟨hs, ho⟩
        · rw [List.getElem?_set_ne (by omega), List.getElem?_set_ne (by omega)]
          exact hm.pre i (by omega)
    obtain ⟨pl', pt', he, hm'⟩ := ih _ hm2 (by simp; omega)
    refine ⟨pl', pt', ?_, ?_⟩
    · rw [restoreLoop]
      simp only [hi, if_true, Nat.add_zero, List.getElem?_eq_getElem hk, List.getElem?_eq_getElem hol,
        hm.plLen, hm.tokLen, hcap, and_self]
      have : s.origN + 1 + n = s.origN + (n + 1) := by omega
      simpa [this] using he
    · have : s.origN + 1 + n = s.origN + (n + 1) := by omega
      simpa [this] using hm'

/-- `restore_original_sets (last)` is defined, never reads the stack outside its contents,
and leaves the watermark at `last` -/
theorem restoreOriginalSets_spec {orig : List α} {origT : List Int} {cap : Nat} {s : St α}
    (hm : Mem orig origT cap s) {last : Nat} (hlo : s.start + 1 - s.origStack.length ≤ last + 1)
    (hhi : last ≤ s.start) :
    ∃ pl' pt', restoreOriginalSets s last = some { s with pl := pl', plToks := pt', origN := last + 1 } ∧
      Mem orig origT cap { s with pl := pl', plToks := pt', origN := last + 1 } := by
  unfold restoreOriginalSets restoreOriginalSetsV
  have := hm.nHi
  simp only [hhi, this, and_self, if_true]
  split
  · refine ⟨s.pl, s.plToks, rfl, ?_⟩
    rename_i hle
    exact ⟨hm.plLen, hm.tokLen, hm.otLen, hm.startLt, hm.lenLe, hlo, by simp; omega,
      fun i hi => hm.pre i (by simp at hi; omega), hm.stk, hm.ot⟩
  · rename_i hnle
    obtain ⟨pl', pt', he, hm'⟩ := restoreLoop_spec (last + 1 - s.origN) s hm (by omega)
    have : s.origN + (last + 1 - s.origN) = last + 1 := by omega
    rw [this] at he hm'
    exact ⟨pl', pt', he, hm'⟩

/-! ## `set_recovery_state`: the tail loop -/

theorem writeTail_spec (xs : List α) : ∀ (ts : List Int) (s : St α), ts.length = xs.length →
    s.plCurr + xs.length < s.pl.length → s.plToks.length = s.pl.length →
    ∃ pl' pt', writeTail xs ts s = some { s with pl := pl', plToks := pt', plCurr := s.plCurr + xs.length } ∧
      pl'.length = s.pl.length ∧ pt'.length = s.pl.length ∧
      pl'.take (s.plCurr + xs.length + 1) = s.pl.take (s.plCurr + 1) ++ xs ∧
      pt'.take (s.plCurr + xs.length + 1) = s.plToks.take (s.plCurr + 1) ++ ts := by
  induction xs with
  | nil =>
    intro ts s hl _ hpt
    have : ts = [] := List.eq_nil_of_length_eq_zero hl
    subst this
    exact ⟨s.pl, s.plToks, rfl, rfl, hpt, by simp, by simp⟩
  | cons x xs ih =>
    intro ts s hl hb hpt
    match ts, hl with
    | t :: ts, hl =>
      simp only [List.length_cons] at hl hb
      have hw : write1 s x t = some { s with
          plCurr := s.plCurr + 1, pl := s.pl.set (s.plCurr + 1) x, plToks := s.plToks.set (s.plCurr + 1) t } := by
        unfold write1
        rw [if_pos ⟨by omega, by omega⟩]
      obtain ⟨pl', pt', he, h1, h2, h3, h4⟩ := ih ts { s with
          plCurr := s.plCurr + 1, pl := s.pl.set (s.plCurr + 1) x, plToks := s.plToks.set (s.plCurr + 1) t }
        (by omega) (by simp only [List.length_set]; omega) (by simp only [List.length_set]; exact hpt)
      simp only [List.length_set] at h1 h2 h3 h4
      refine ⟨pl', pt', ?_, h1, h2, ?_, ?_⟩
      · rw [writeTail, hw]
        simp only [Option.bind_some]
        have : s.plCurr + 1 + xs.length = s.plCurr + (xs.length + 1) := by omega
        simpa [this] using he
      · have e : s.plCurr + (xs.length + 1) + 1 = s.plCurr + 1 + xs.length + 1 := by omega
        rw [List.length_cons, e, h3]
        have : (s.pl.set (s.plCurr + 1) x).take (s.plCurr + 1 + 1) = s.pl.take (s.plCurr + 1) ++ [x] := by
          rw [List.take_add_one, List.take_set_of_le (Nat.le_refl _),
            List.getElem?_set_self (by omega)]
          rfl
        rw [this, List.append_assoc]; rfl
      · have e : s.plCurr + (xs.length + 1) + 1 = s.plCurr + 1 + xs.length + 1 := by omega
        rw [List.length_cons, e, h4]
        have : (s.plToks.set (s.plCurr + 1) t).take (s.plCurr + 1 + 1) = s.plToks.take (s.plCurr + 1) ++ [t] := by
          rw [List.take_add_one, List.take_set_of_le (Nat.le_refl _),
            List.getElem?_set_self (by omega)]
          rfl
        rw [this, List.append_assoc]; rfl

end Yaep.RS
