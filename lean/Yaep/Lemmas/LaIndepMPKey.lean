import Yaep.Lemmas.LaIndepRel
/-!
# Lookahead independence of `make_parse`, part 2: a candidate below a level-1 item is a level-1 item

`cand_level1`: the parse state `X = (rule, pos + 1, orig)` at `j` is a level-1 item that passes the level-1 test,
`B` is the symbol before its dot.  Then every completed item `it` for `B` of the unfiltered set `j` such that
`(rule, pos, orig)` is in the unfiltered set `it.origin` is a level-1 item, and so is `(rule, pos, orig)` at
`it.origin`; both pass the level-1 test.
-/
namespace Yaep.LI
open Yaep

theorem length_slice {w : List Nat} {k j : Nat} (hj : j ≤ w.length) : (slice w k j).length = j - k := by
  unfold slice
  rw [List.length_take, List.length_drop]; omega

theorem isRed_iff {g : Grammar} {B : Nat} {it : Item} {rl : Rule} (hr : g.rules[it.rule]? = some rl) :
    isRed g B it = true ↔ it.dot = rl.rhs.length ∧ rl.lhs = B := by
  unfold isRed
  rw [List.getD_eq_getElem?_getD, hr]
  simp

theorem cand_level1 {g : Grammar} (hsr : g.symsInRange = true) {w' : List Nat} {rule pos orig j B : Nat}
    {rl : Rule} (hr : g.rules[rule]? = some rl) (hs : rl.rhs[pos]? = some (.n B))
    (hX : F1 g w' j ⟨rule, pos + 1, orig⟩) (hokX : ok1 g w' j rule (pos + 1) = true)
    {it : Item} (hit : F0 g w' j it) (hred : isRed g B it = true)
    (hq : F0 g w' it.origin ⟨rule, pos, orig⟩) :
    F1 g w' it.origin ⟨rule, pos, orig⟩ ∧ ok1 g w' it.origin rule pos = true ∧
      F1 g w' j it ∧ ok1 g w' j it.rule it.dot = true := by
  obtain ⟨r', d', k⟩ := it
  obtain ⟨rl', hr', _, hkj, hder'⟩ := hit.sound
  simp only at hr' hkj hder' hq ⊢
  obtain ⟨hd', hlhs⟩ := (isRed_iff (it := ⟨r', d', k⟩) hr').mp hred
  simp only at hd'
  subst hd'
  subst hlhs
  rw [List.take_length] at hder'
  obtain ⟨rlq, hrq, hposq, hok, hderq⟩ := hq.sound
  simp only at hrq hposq hok hderq
  rw [hr] at hrq; injection hrq with hrq; subst hrq
  have hj : j ≤ w'.length := hit.le_length
  have hlen := length_slice (k := k) hj
  have hkj' : k + (slice w' k j).length = j := by rw [hlen]; omega
  have hB : Der g [Sym.n rl'.lhs] (slice w' k j) := by
    have := Der.nt (ss := []) (v := []) hr' hder' Der.nil
    simpa using this
  have hdrop : rl.rhs.drop pos = [Sym.n rl'.lhs] ++ rl.rhs.drop (pos + 1) := by
    obtain ⟨hlt, he⟩ := List.getElem?_eq_some_iff.mp hs
    rw [List.drop_eq_getElem_cons hlt, he]; rfl
  have hokq : ok1 g w' k rule pos = true := by
    apply ok_of_der hsr hr hdrop hB
    · rw [hkj']
    · rw [hkj']; exact hokX
  have hp : F1 g w' orig ⟨rule, 0, orig⟩ := hX.origin_item
  have hk : k ≤ w'.length := Nat.le_trans hkj hj
  have hq1 : F1 g w' k ⟨rule, pos, orig⟩ := hered_item hsr hr hposq hp hok hk hderq (fun _ => hokq)
  have hns : g.nextSym rule pos = some (Sym.n rl'.lhs) := nextSym_eq_some.mpr ⟨rl, hr, hs⟩
  have hp' : F1 g w' k ⟨r', 0, k⟩ := EarleyF.predict hq1 hns hr' rfl
  have hokit : ok1 g w' j r' rl'.rhs.length = true := ok1_mono (laSub_follow hsr hr hs hr') hokX
  have hit1 : F1 g w' j ⟨r', rl'.rhs.length, k⟩ :=
    hered_item hsr hr' (Nat.le_refl _) hp' hkj hj (by rw [List.take_length]; exact hder') (fun _ => hokit)
  exact ⟨hq1, hokq, hit1, hokit⟩

/-- terminal before the dot: the item before the scan passes the level-1 test -/
theorem term_level1 {g : Grammar} {w' : List Nat} {rule pos orig j a : Nat} {rl : Rule}
    (hr : g.rules[rule]? = some rl) (hs : rl.rhs[pos]? = some (.t a))
    (hX : F1 g w' j ⟨rule, pos + 1, orig⟩) :
    F1 g w' (j - 1) ⟨rule, pos, orig⟩ ∧ ok1 g w' (j - 1) rule pos = true := by
  obtain ⟨j0, hj, hw, h0⟩ := hX.term_inv hr hs
  subst hj
  rw [Nat.add_sub_cancel]
  refine ⟨h0, ok1_of_first hr hw ?_⟩
  obtain ⟨hlt, he⟩ := List.getElem?_eq_some_iff.mp hs
  rw [List.drop_eq_getElem_cons hlt, he]
  simp

end Yaep.LI
