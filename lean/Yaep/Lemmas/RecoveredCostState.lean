import Yaep.Lemmas.RecoveredParseFinal
/-!
# The machine state of `make_parse` after a recovery; renaming TERM attributes in `PC` heaps

* `RC.makeParseSt_reTok` — the state-level form of `RP.makeParse_reTok`: the final machine state of
  the run with the token numbers `P'` is the final machine state of the run with `P` with the
  attributes of the TERM cells renamed (`RP.lift`), for every fuel.
* `RC.rcC`, `RC.rcH` — the renaming on the cells / heaps of the model of
  `find_minimal_translation` (`PC.Cell`), `RC.ofHeap_rlH`, and **`RC.wfHeap_rcH`**: `PC.WfHeap`
  does not look at the attributes.
* `RC.final_state_all` — the all-parses run on the final list of a recovering parse: its final
  state is the renamed final state of the reference run (token numbers `j - 1`), whose heap is a
  `WfHeap`.
-/
namespace Yaep.RC
open Yaep Yaep.MP Yaep.RP

variable {f : Int → Int}

/-! ## the final machine state under a renaming of the token numbers -/

/-- **the final machine state of `make_parse` under a renaming of the token numbers** (the
state-level form of `RP.makeParse_reTok`) -/
theorem makeParseSt_reTok {g : Grammar} {sets : Array (Array Item)} {P P' : Array Int} {one : Bool}
    (R : TokRel f P P' ((P.foldl max 0).toNat + 1) ((P'.foldl max 0).toNat + 1))
    (Inv : St → Prop)
    (hinit : ∀ s0, init (mkCtx g sets P one) = some s0 → Inv s0)
    (hstep : ∀ s, Inv s → s.stack ≠ [] → Inv (step (mkCtx g sets P one) s))
    (hterm : ∀ s, Inv s → TermHyp (mkCtx g sets P one) P' s) (fuel : Nat) :
    (∀ s, makeParseSt (mkCtx g sets P one) fuel = some s →
      ∃ s', makeParseSt (mkCtx g sets P' one) fuel = some s' ∧ s' = lift f s s'.termNodes s.bad) ∧
    (makeParseSt (mkCtx g sets P one) fuel = none → makeParseSt (mkCtx g sets P' one) fuel = none) := by
  have hc : mkCtx g sets P' one = reTok (mkCtx g sets P one) P' := rfl
  unfold makeParseSt
  simp only [hc]
  rw [init_reTok (f := f)]
  cases hi : init (mkCtx g sets P one) with
  | none => exact ⟨fun s h => (by cases h), fun _ => rfl⟩
  | some s0 =>
    simp only [Option.map_some]
    obtain ⟨htn0, hb0⟩ := init_termNodes hi
    have hsim0 : Sim f (mkCtx g sets P one).plToks P' ((P.foldl max 0).toNat + 1)
        ((P'.foldl max 0).toNat + 1) s0
        (lift f s0 (Array.replicate ((P'.foldl max 0).toNat + 1) none) s0.bad) := by
      refine ⟨rfl, ?_, ?_, ?_⟩
      · intro j _ _
        show (Array.replicate _ none).getD _ none = _
        rw [htn0, replicate_getD_none, replicate_getD_none]
      · rw [htn0]; simp; rfl
      · show (Array.replicate _ none).size = _
        simp
    obtain ⟨h1, h2⟩ := run_sim (c := mkCtx g sets P one) R Inv hstep hterm fuel s0 _ hsim0 (hinit s0 hi)
    refine ⟨fun s hr => ?_, h2⟩
    obtain ⟨s', hr', hs⟩ := h1 s hr
    exact ⟨s', hr', hs.eq⟩

/-- what the relation `s' = lift f s …` says field by field -/
theorem lift_fields {s s' : St} {tn : Array (Option Nat)} {b : Bool} (h : s' = lift f s tn b) :
    s'.heap = rlH f s.heap ∧ s'.result = s.result ∧ s'.amb = s.amb ∧ s'.nilUsed = s.nilUsed ∧
      s'.errUsed = s.errUsed ∧ s'.bad = b := by
  subst h
  refine ⟨rfl, ?_, rfl, rfl, rfl, rfl⟩
  unfold St.result
  exact getKid_rl _ _ _

/-! ## renaming the TERM attributes of a `PC` heap -/

/-- rename the attribute of a TERM cell -/
def rcC (f : Int → Int) : PC.Cell → PC.Cell
  | .term cd a => .term cd (f a)
  | c => c

/-- rename the attributes of all TERM cells -/
def rcH (f : Int → Int) (h : Array PC.Cell) : Array PC.Cell := h.map (rcC f)

@[simp] theorem rcH_size (h : Array PC.Cell) : (rcH f h).size = h.size := by unfold rcH; simp

theorem ofHeap_rlH (h : Array MNode) : PC.ofHeap (rlH f h) = rcH f (PC.ofHeap h) := by
  unfold PC.ofHeap rlH rcH
  rw [Array.map_map, Array.map_map]
  congr 1
  funext m
  cases m <;> rfl

theorem cellAt_rcH (h : Array PC.Cell) (n : Nat) : PC.cellAt (rcH f h) n = rcC f (PC.cellAt h n) := by
  unfold PC.cellAt rcH
  rw [Array.getD_eq_getD_getElem?, Array.getD_eq_getD_getElem?, Array.getElem?_map]
  cases h[n]? <;> rfl

theorem rcC_anode {c : PC.Cell} {nm : String} {co : Int} {ks : Array (Option Nat)} :
    rcC f c = .anode nm co ks ↔ c = .anode nm co ks := by
  cases c <;> simp [rcC]

theorem rcC_alt {c : PC.Cell} {nd : Nat} {nx : Option Nat} :
    rcC f c = .alt nd nx ↔ c = .alt nd nx := by
  cases c <;> simp [rcC]

@[simp] theorem isAlt_rcH (h : Array PC.Cell) (n : Nat) : PC.isAlt (rcH f h) n = PC.isAlt h n := by
  unfold PC.isAlt
  rw [cellAt_rcH]
  cases PC.cellAt h n <;> rfl

/-- **`WfHeap` does not look at the attributes of the TERM cells** -/
theorem wfHeap_rcH {h : Array PC.Cell} {rk hd : Nat → Nat} (wf : PC.WfHeap h rk hd) :
    PC.WfHeap (rcH f h) rk hd := by
  constructor
  · intro i hi; rw [rcH_size] at hi ⊢; exact wf.rk_lt i hi
  · intro i hi ha; rw [rcH_size] at hi; rw [isAlt_rcH] at ha; exact wf.hd_self i hi ha
  · intro i nm c ks hi hc
    rw [rcH_size] at hi
    rw [cellAt_rcH, rcC_anode] at hc
    obtain ⟨h1, h2⟩ := wf.anode i nm c ks hi hc
    refine ⟨h1, fun k hk => ?_⟩
    rw [rcH_size]; exact h2 k hk
  · intro i nd nx hi hc
    rw [rcH_size] at hi
    rw [cellAt_rcH, rcC_alt] at hc
    obtain ⟨h1, h2, h3, h4⟩ := wf.alt i nd nx hi hc
    rw [rcH_size, isAlt_rcH]
    refine ⟨h1, h2, h3, fun j hj => ?_⟩
    rw [isAlt_rcH]; exact h4 j hj

/-! ## the all-parses run on the final list of a recovering parse -/

section
variable {g : Grammar} {la : Nat} {full : List Nat} {pl : List PSet} {S : Array (Array Item)}

/-- the state-level renaming theorem instantiated, all-parses mode (as `RP.Final.reTok_all`) -/
theorem final_reTokSt_all (h : Final g la full pl) (hS : SameSets pl S) (hcyc : ¬ Cyclic g)
    (hsr : g.symsInRange = true) (fuel : Nat) :
    (∀ s, makeParseSt (mkCtx g S (idToks pl.length) false) fuel = some s →
      ∃ s', makeParseSt (mkCtx g S (tokNums pl) false) fuel = some s' ∧
        s' = lift (fix pl) s s'.termNodes s.bad) ∧
    (makeParseSt (mkCtx g S (idToks pl.length) false) fuel = none →
      makeParseSt (mkCtx g S (tokNums pl) false) fuel = none) := by
  have hcc := ctxAllc hS h.plInv h.length
  have hc := hcc.toCtxAll
  apply makeParseSt_reTok h.tokRel
    (fun s => ∃ fin, TInv g (okF g g.analysis la full pl) (word pl) s fin ∧ s.bad = false)
  · intro s0 hi
    obtain ⟨a1, a2, _⟩ := tinit hc hi
    exact ⟨_, a1, a2⟩
  · intro s ⟨fin, hinv, hb⟩ hne
    obtain ⟨fin', a1, a2, _⟩ := tstep hcc hcyc hsr (size_le_plMaxSize S) hinv hb hne
    exact ⟨fin', a1, a2⟩
  · intro s ⟨fin, hinv, _⟩
    apply termHyp_of_item (g := g) (ok := okF g g.analysis la full pl) (pl := pl)
      (fun r rl hr => hc.rule_eq hr) rfl h.termsOK
    intro sid rest hst hpos
    obtain ⟨_, hok⟩ := hinv.sts sid (by rw [hst]; exact List.mem_cons_self)
    obtain ⟨rl, hr, hle, _⟩ := hok.rule
    exact ⟨rl, hr, hle, hok.item hpos⟩

/-- **the final machine state of the all-parses run on the final list**: a finished, unflagged run
with the token numbers of the list is the renamed final state of the run with the token numbers
`j - 1`; the heap of that reference run is a `WfHeap`, and so is the renamed heap -/
theorem final_state_all (h : Final g la full pl) (hS : SameSets pl S) (hg : GrOK g)
    (hcyc : ¬ Cyclic g) (hsr : g.symsInRange = true) {fuel : Nat} {s' : St} {r : Nat}
    (hm : makeParseSt (mkCtx g S (tokNums pl) false) fuel = some s') (hb : s'.bad = false)
    (hres : s'.result = some r) :
    ∃ s0, makeParseSt (mkCtx g S (idToks pl.length) false) fuel = some s0 ∧ s0.bad = false ∧
      s0.result = some r ∧ s'.heap = rlH (fix pl) s0.heap ∧ s'.amb = s0.amb ∧
      s'.nilUsed = s0.nilUsed ∧ s'.errUsed = s0.errUsed ∧
      ∃ rk hd, PC.WfHeap (PC.ofHeap s0.heap) rk hd ∧ PC.WfHeap (PC.ofHeap s'.heap) rk hd ∧
        r < (PC.ofHeap s'.heap).size ∧ hd r = r := by
  obtain ⟨t1, t2⟩ := final_reTokSt_all h hS hcyc hsr fuel
  cases h0 : makeParseSt (mkCtx g S (idToks pl.length) false) fuel with
  | none => rw [t2 h0] at hm; cases hm
  | some s0 =>
    obtain ⟨s'', hm'', he⟩ := t1 s0 h0
    rw [hm] at hm''; injection hm'' with hm''; subst hm''
    obtain ⟨e1, e2, e3, e4, e5, e6⟩ := lift_fields he
    have hb0 : s0.bad = false := by rw [← e6]; exact hb
    have hres0 : s0.result = some r := by rw [← e2]; exact hres
    have hcc := ctxAllc hS h.plInv h.length
    obtain ⟨Γ, wf, hr, hdr⟩ := makeParse_heap_wf_ctx hcc.toCtxAll hg hcyc hsr h0 hb0 hres0
    refine ⟨s0, rfl, hb0, hres0, e1, e3, e4, e5, _, _, wf, ?_, ?_, hdr⟩
    · rw [e1, ofHeap_rlH]; exact wfHeap_rcH wf
    · rw [e1, ofHeap_rlH, rcH_size]; exact hr

end

end Yaep.RC
