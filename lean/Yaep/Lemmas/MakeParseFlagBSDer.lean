import Yaep.Lemmas.MakeParseFlagBSDup
import Yaep.Lemmas.MakeParseSoundDepth
/-!
# The ambiguity flag, part 11: an item held twice by a set of `build_pl` stands for two derivations

If the set at list position `j` of the parse list of `BS.buildPLC` holds the item `(r, d, o)` at two
different indices, the first `d` symbols of the right-hand side of rule `r` have two different
derivations on `toks[o, j)` (`dup_two_kids`): the two roots of the two occurrences
(`dup_witness`) are start situations `(r, dA)`, `(r, dB)`, `dA < dB`, of the same origin; in the
derivation behind the first the symbols from `dA` on derive the empty string, in the derivation
behind the second the symbol before `dB` covers a nonempty part of the input (`StartNE`).
-/
namespace Yaep.BS
open Yaep

/-- nullable symbols have derivations on the empty span -/
theorem eps_valid {g : Grammar} {toks : List Nat} {j : Nat} (hj : j ≤ toks.length) :
    ∀ (l : List Sym) (m : Nat), m ≤ nullRun g.nullable l →
      ∃ ks, PT.ValidListAt g toks ks (l.take m) j j
  | _, 0, _ => ⟨[], by rw [List.take_zero]; exact .nil⟩
  | [], m + 1, h => by simp [nullRun] at h
  | s :: rest, m + 1, h => by
    rw [nullRun_cons] at h
    by_cases hs : symNullable g.nullable s = true
    · rw [if_pos hs] at h
      obtain ⟨ks, hks⟩ := eps_valid (g := g) hj rest m (by omega)
      have hder : Der g [s] [] := symNullable_iff.mp hs
      obtain ⟨k1, hk1⟩ := hder.exists_valid (toks := toks) (i := j) (j := j) (Nat.le_refl _) hj
        (slice_self _ _)
      cases hk1 with
      | cons h1 h2 =>
        cases h2 with
        | nil => exact ⟨_ :: ks, by rw [List.take_succ_cons]; exact .cons h1 hks⟩
    · rw [if_neg hs] at h; omega

section Start
variable {g : Grammar} {ok : Nat → Nat → Nat → Bool} {toks : List Nat} {plA : List (List Item)}

/-- the derivation behind a start situation: the symbol before the dot covers a nonempty part
of the input -/
theorem start_valid (hpl : PLInv g ok toks plA) {j : Nat} (hj : j < plA.length) {r d dist : Nat}
    {rl : Rule} (hr : g.rules[r]? = some rl) (hne : StartNE g plA j ((r, d), dist))
    (hin : (⟨r, d, j - dist⟩ : Item) ∈ plA.getD j []) :
    ∃ d0 pre x k X, d = d0 + 1 ∧ k < j ∧ rl.rhs[d0]? = some X ∧
      PT.ValidListAt g toks pre (rl.rhs.take d0) (j - dist) k ∧ PT.ValidAt g toks x X k j := by
  obtain ⟨_, _, d0, hd0, hcase⟩ := hne
  simp only at hd0 hcase
  subst hd0
  rcases hcase with ⟨a, hnx⟩ | ⟨k, r', rl', hk, hm, hr', hnx, hc⟩
  · obtain ⟨rl0, hr0, hs0⟩ := nextSym_eq_some.mp hnx
    rw [hr] at hr0; injection hr0 with hr0; subst hr0
    have hE := (hpl j hj _).mp hin
    obtain ⟨j0, hj0, hw, hE0⟩ := hE.term_inv hr hs0
    obtain ⟨pre, hpre⟩ := MP.EarleyF.prefix_valid hr hE0
    subst hj0
    exact ⟨d0, pre, .leaf a j0, j0, _, rfl, Nat.lt_succ_self _, hs0, hpre, .leaf hw⟩
  · obtain ⟨rl0, hr0, hs0⟩ := nextSym_eq_some.mp hnx
    rw [hr] at hr0; injection hr0 with hr0; subst hr0
    have hE0 := (hpl k (by omega) _).mp hm
    have hEc := (hpl j hj _).mp hc
    obtain ⟨pre, hpre⟩ := MP.EarleyF.prefix_valid hr hE0
    obtain ⟨_, kids, hkids⟩ := hEc.complete_valid hr'
    exact ⟨d0, pre, .node r' kids, k, _, rfl, hk, hs0, hpre, .node hr' rfl hkids⟩

end Start

theorem take_split3 {α : Type} (l : List α) {a b c : Nat} (hab : a ≤ b) (hbc : b ≤ c) :
    l.take c = l.take a ++ (l.drop a).take (b - a) ++ ((l.drop a).drop (b - a)).take (c - b) := by
  have e1 : c = a + (c - a) := by omega
  have e2 : c - a = (b - a) + (c - b) := by omega
  conv => lhs; rw [e1, List.take_add, e2, List.take_add]
  rw [List.append_assoc]

/-- **an item held twice stands for two derivations** -/
theorem dup_two_kids {g : Grammar} (hwf : g.WF) {ok : Nat → Nat → Nat → Bool} {toks : List Nat}
    {plA : List (List Item)} {pl : List CSet} (hpl : PLInv g ok toks plA)
    (hplok : PLOK g plA pl) {j : Nat} (hj : j < pl.length) (hjt : j ≤ toks.length)
    (hm : MultOK g g.analysis plA j (pl.getD j default))
    {i1 i2 : Nat} (h12 : i1 ≠ i2) {it : Item} {rl : Rule} (hr : g.rules[it.rule]? = some rl)
    (h1 : ((pl.getD j default).items j)[i1]? = some it)
    (h2 : ((pl.getD j default).items j)[i2]? = some it) :
    ∃ k1 k2, k1 ≠ k2 ∧ PT.ValidListAt g toks k1 (rl.rhs.take it.dot) it.origin j ∧
      PT.ValidListAt g toks k2 (rl.rhs.take it.dot) it.origin j := by
  have hjA : j < plA.length := by rw [hplok.len]; exact hj
  generalize hcs : pl.getD j default = cs at hm h1 h2
  have hitems := hplok.items j hj
  rw [hcs] at hitems
  -- the two situations
  have getsit : ∀ {i : Nat}, (cs.items j)[i]? = some it →
      ∃ sit, cs.core.sits[i]? = some sit ∧
        it = ⟨sit.1, sit.2, j - dtag cs.dists (cs.core.tagOf i)⟩ := by
    intro i hi
    unfold CSet.items at hi
    rw [List.getElem?_map] at hi
    cases hri : (List.range cs.core.sits.length)[i]? with
    | none => rw [hri] at hi; cases hi
    | some i' =>
      rw [hri] at hi
      have hlt : i < cs.core.sits.length := by
        have := (List.getElem?_eq_some_iff.mp hri).1; simpa using this
      have hii : i' = i := by
        have := (List.getElem?_eq_some_iff.mp hri).2; simpa using this.symm
      subst hii
      simp only [Option.map_some, Option.some.injEq] at hi
      refine ⟨cs.core.sits.getD i' default, ?_, ?_⟩
      · rw [List.getD_eq_getElem?_getD, List.getElem?_eq_getElem hlt]; rfl
      · rw [← hi, originOf_eq]
  obtain ⟨sit1, hs1, e1⟩ := getsit h1
  obtain ⟨sit2, hs2, e2⟩ := getsit h2
  obtain ⟨num, ns, hcore, hd, hnd, hcase⟩ := hm
  rcases hcase with ⟨hj0, h0⟩ | ⟨hjpos, hne⟩
  · -- the start set holds no item twice
    exfalso
    have hsit : sit2 = sit1 := by
      rw [e1] at e2
      simp only [Item.mk.injEq] at e2
      obtain ⟨a, b⟩ := sit1; obtain ⟨a', b'⟩ := sit2
      simp only at e2; rw [e2.1, e2.2.1]
    subst hsit
    exact set0_nodup hwf hcore hnd h0 h12 hs1 hs2
  · have hdist : ∀ p ∈ ns, 1 ≤ p.2 ∧ p.2 ≤ j := fun p hp => ⟨(hne p hp).1, (hne p hp).2.1⟩
    obtain ⟨dA, dB, dist, rl', mA, mB, hAB, hBd, hrl', hrun, horig⟩ :=
      dup_witness hcore hd hnd hdist h12 hs1 hs2 (e1.symm.trans e2)
    have er : it.rule = sit1.1 := by rw [e1]
    have ed : it.dot = sit1.2 := by rw [e1]
    have eo : it.origin = j - dist := by rw [e1]; exact horig
    rw [← er] at hrl' mA mB
    rw [hr] at hrl'; injection hrl' with hrl'; subst hrl'
    rw [← ed] at hBd hrun
    rw [ed, eo]
    rw [← ed]
    -- the two start situations are items of the set
    have inA : (⟨it.rule, dA, j - dist⟩ : Item) ∈ plA.getD j [] :=
      (hitems _).mp (start_item (j := j) hcore hd mA)
    have inB : (⟨it.rule, dB, j - dist⟩ : Item) ∈ plA.getD j [] :=
      (hitems _).mp (start_item (j := j) hcore hd mB)
    obtain ⟨a0, preA, xA, kA, XA, hA0, hkA, hXA, hpreA, hxA⟩ := start_valid hpl hjA hr (hne _ mA) inA
    obtain ⟨b0, preB, xB, kB, XB, hB0, hkB, hXB, hpreB, hxB⟩ := start_valid hpl hjA hr (hne _ mB) inB
    subst hA0; subst hB0
    have hnl : g.analysis.nl = g.nullable := rfl
    rw [hnl] at hrun
    -- the nullable symbols after the first root
    have hb0 : a0 + 1 ≤ b0 := by omega
    obtain ⟨E1, hE1⟩ := eps_valid (g := g) hjt (rl.rhs.drop (a0 + 1)) (b0 - (a0 + 1)) (by omega)
    obtain ⟨E2, hE2⟩ := eps_valid (g := g) hjt ((rl.rhs.drop (a0 + 1)).drop (b0 - (a0 + 1)))
      (it.dot - b0) (by rw [nullRun_drop (by omega)]; omega)
    obtain ⟨E3, hE3⟩ := eps_valid (g := g) hjt (rl.rhs.drop (b0 + 1)) (it.dot - (b0 + 1)) (by
      have : rl.rhs.drop (b0 + 1) = (rl.rhs.drop (a0 + 1)).drop (b0 - a0) := by
        rw [List.drop_drop]; congr 1; omega
      rw [this, nullRun_drop (by omega)]; omega)
    have hLA : PT.ValidListAt g toks (preA ++ [xA]) (rl.rhs.take (a0 + 1)) (j - dist) j := by
      rw [take_succ_of_getElem? _ hXA]
      exact MP.ValidListAt_append hpreA (.cons hxA .nil)
    have hLB : PT.ValidListAt g toks (preB ++ [xB]) (rl.rhs.take (b0 + 1)) (j - dist) j := by
      rw [take_succ_of_getElem? _ hXB]
      exact MP.ValidListAt_append hpreB (.cons hxB .nil)
    have hKA : PT.ValidListAt g toks (preA ++ [xA] ++ E1 ++ E2) (rl.rhs.take it.dot) (j - dist) j := by
      rw [take_split3 rl.rhs (a := a0 + 1) (b := b0) (c := it.dot) hb0 (by omega)]
      exact MP.ValidListAt_append (MP.ValidListAt_append hLA hE1) hE2
    have hKB : PT.ValidListAt g toks (preB ++ [xB] ++ E3) (rl.rhs.take it.dot) (j - dist) j := by
      have e : it.dot = (b0 + 1) + (it.dot - (b0 + 1)) := by omega
      conv => arg 4; rw [e, List.take_add]
      exact MP.ValidListAt_append hLB hE3
    refine ⟨_, _, ?_, hKA, hKB⟩
    intro heq
    -- the first `b0` trees: on `[o, j)` in the first list, on `[o, kB)` in the second
    have hP1 : PT.ValidListAt g toks (preA ++ [xA] ++ E1)
        (rl.rhs.take (a0 + 1) ++ (rl.rhs.drop (a0 + 1)).take (b0 - (a0 + 1))) (j - dist) j :=
      MP.ValidListAt_append hLA hE1
    have hlen1 : (preA ++ [xA] ++ E1).length = b0 := by
      rw [hP1.length_eq, List.length_append, List.length_take, List.length_take, List.length_drop]
      have := (List.getElem?_eq_some_iff.mp hXB).1
      omega
    have hlen2 : preB.length = b0 := by
      rw [hpreB.length_eq, List.length_take]
      have := (List.getElem?_eq_some_iff.mp hXB).1
      omega
    have heq' : (preA ++ [xA] ++ E1) ++ E2 = preB ++ ([xB] ++ E3) := by
      rw [heq, List.append_assoc]
    obtain ⟨hpe, _⟩ := List.append_inj heq' (by rw [hlen1, hlen2])
    have s1 := hP1.span
    have s2 := hpreB.span
    rw [hpe] at s1
    omega

end Yaep.BS
