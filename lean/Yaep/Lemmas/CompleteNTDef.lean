import Yaep.Lemmas.CompleteNTU
import Yaep.Lemmas.CompleteTerm
/-!
# Completeness of the all-parses forest, part 10: a translated nonterminal before the dot —
the invariant of the candidate loop
-/
namespace Yaep.CP
open Yaep Yaep.MP

/-- the fixed data of an iteration of the main loop with a translated nonterminal before the dot of
the top state `X` -/
structure NT (g : Grammar) (toks : List Nat) (s : St) (X : Nat) (rest : List Nat) (rl : Rule)
    (A d pa : Nat) (γ : List Sym) : Prop where
  hst : s.stack = X :: rest
  hr : g.rules[(s.state X).rule]? = some rl
  hpos : (s.state X).pos ≠ 0
  hsym : rl.rhs[(s.state X).pos - 1]? = some (.n A)
  hd : rl.order.getD ((s.state X).pos - 1) none = some d
  hpa : (s.state (s.state X).parent).anode = some pa
  hcov : FollowCovers g rl.lhs γ
  hder : Der g (rl.rhs.drop (s.state X).pos ++ γ) (toks.drop (s.state X).plInd)

/-- the abstract node of a sibling (the state `X` or one of its copies) carries the finished slots
of the abstract node of `X` -/
def AnodeRel (s : St) (X d : Nat) (s' : St) (x : Nat) : Prop :=
  ((s.state X).anode = none → (s'.state x).anode = none) ∧
  ∀ a, (s.state X).anode = some a → ∃ ax, (s'.state x).anode = some ax ∧
    ∀ j t, j ≠ d → DenSlot s.heap (a, j) t → DenSlot s'.heap (ax, j) t

/-- the candidate `it` has been attached to a sibling with its origin -/
def Handled (g : Grammar) (toks : List Nat) (s : St) (X d pa : Nat) (os : List Nat) (s' : St)
    (it : Item) : Prop :=
  ∃ rl' τ, g.rules[it.rule]? = some rl' ∧ it.dot = rl'.rhs.length ∧ (τ = X ∨ τ ∈ os) ∧
    (s'.state τ).plInd = it.origin ∧
    ∀ gks, PT.ValidListAt g toks gks rl'.rhs it.origin (s.state X).plInd →
      Ev g toks s' (placeOf (s'.state τ) pa d) (translate g (.node it.rule gks))

/-- a state of the stack that is new or has been modified: right context, abstract node in place -/
def NewOK (g : Grammar) (toks : List Nat) (s' : St) (x : Nat) : Prop :=
  RCtx g toks (s'.state x) ∧ ∀ a, (s'.state x).anode = some a → InSlot s'.heap (tgt s' (s'.state x)) a

/-- the part of the loop invariant that is about completeness -/
structure LInv (g : Grammar) (toks : List Nat) (c : Ctx) (s : St) (X d pa A : Nat) (rest : List Nat)
    (rem : List Nat) (os : List Nat) (s' : St) : Prop where
  ext : ∃ k0, CExt (s.setState X { s.state X with pos := (s.state X).pos - 1, plInd := k0 }) s'
  sibs : ∀ x, x = X ∨ x ∈ os → x < s'.states.size ∧ AnodeRel s X d s' x
  handled : ∀ i ∈ reduces c (c.sets.getD (s.state X).plInd #[]) A,
    checkFound c (ntLoc c s X A) ((c.sets.getD (s.state X).plInd #[]).getD i default).origin = true →
    i ∈ rem ∨ Handled g toks s X d pa os s' ((c.sets.getD (s.state X).plInd #[]).getD i default)
  news : ∀ x ∈ s'.stack, x ∈ rest ∨ NewOK g toks s' x

/-- what the second half of the body of the loop needs to know about the current state -/
structure CurOKc (s1 : St) (cur pa d : Nat) (L : Loc) : Prop where
  hroot : rootId < s1.heap.size
  hnil : s1.heap.getD nilId .nil = .nil
  hkid : KidLt s1.heap
  hstk : ∀ x ∈ s1.stack, (s1.state x).parent < s1.states.size ∧ x < s1.states.size
  hcurmem : cur ∈ s1.stack
  hpa : (s1.state (s1.state cur).parent).anode = some pa
  hLd : L.parentDisp = (s1.state cur).parentDisp
  cell : ∃ nm cc ks, s1.heap.getD (placeOf (s1.state cur) pa d).1 .nil = .anode nm cc ks ∧
    (placeOf (s1.state cur) pa d).1 < s1.heap.size ∧ (placeOf (s1.state cur) pa d).2 < ks.size

section
variable {g : Grammar} {ok : Nat → Nat → Nat → Bool} {toks : List Nat} {c : Ctx}

theorem stk_of_good {s1 : St} {G1 : Ghost} {hole : Option (Nat × Nat)} (hg1 : AGood g ok toks s1 G1 hole) :
    ∀ x ∈ s1.stack, (s1.state x).parent < s1.states.size ∧ x < s1.states.size := by
  intro x hx
  obtain ⟨p1, p2⟩ := parent_lt hg1 hx
  exact ⟨by omega, p2⟩

theorem curOKc_of_good {s1 : St} {G1 : Ghost} {hole : Option (Nat × Nat)} (hwf : g.translWF = true)
    (hg1 : AGood g ok toks s1 G1 hole) {cur pa d q : Nat} {L : Loc} {rl : Rule} (hcur : cur ∈ s1.stack)
    (hrc : g.rules[(s1.state cur).rule]? = some rl) (hd : rl.order.getD q none = some d)
    (hpa : (s1.state (s1.state cur).parent).anode = some pa)
    (hLd : L.parentDisp = (s1.state cur).parentDisp) : CurOKc s1 cur pa d L := by
  obtain ⟨_, _, _, k3, _⟩ := hg1.root
  have hpe : (tgt s1 (s1.state cur)).1 = pa := by
    have := tgt_fst hg1 hcur
    rw [hpa] at this
    injection this with this
    exact this.symm
  have hcell := placeOf_cell hwf hg1 hcur hrc hd
  rw [hpe] at hcell
  exact ⟨k3, hg1.h0, kidLt_of_good hg1, stk_of_good hg1, hcur, hpa, hLd, hcell⟩

theorem AnodeRel.ext {s : St} {X d : Nat} {s1 s2 : St} {x : Nat} (h : AnodeRel s X d s1 x)
    (hx : x < s1.states.size) (he : CExt s1 s2) : AnodeRel s X d s2 x := by
  refine ⟨fun hn => by rw [he.sts x hx]; exact h.1 hn, fun a ha => ?_⟩
  obtain ⟨ax, h1, h2⟩ := h.2 a ha
  exact ⟨ax, by rw [he.sts x hx]; exact h1, fun j t hj hd => he.hm.slot _ _ (h2 j t hj hd)⟩

theorem Handled.ext {s : St} {X d pa : Nat} {os os' : List Nat} {s1 s2 : St} {it : Item}
    (h : Handled g toks s X d pa os s1 it) (he : CExt s1 s2)
    (hos : ∀ y, y = X ∨ y ∈ os → (y = X ∨ y ∈ os') ∧ y < s1.states.size)
    (hstk : ∀ x ∈ s1.stack, (s1.state x).parent < s1.states.size ∧ x < s1.states.size) :
    Handled g toks s X d pa os' s2 it := by
  obtain ⟨rl', τ, h1, h2, h3, h4, h5⟩ := h
  obtain ⟨o1, o2⟩ := hos τ h3
  refine ⟨rl', τ, h1, h2, o1, by rw [he.sts τ o2]; exact h4, fun gks hv => ?_⟩
  rw [he.sts τ o2]
  exact (h5 gks hv).ext he hstk

theorem NewOK.ext {s1 s2 : St} {x : Nat} (h : NewOK g toks s1 x)
    (hx : (s1.state x).parent < s1.states.size ∧ x < s1.states.size) (he : CExt s1 s2) :
    NewOK g toks s2 x := by
  rw [NewOK, he.sts x hx.2]
  refine ⟨h.1, fun a ha => ?_⟩
  rw [tgt_congr (s := s1) (s' := s2) (by rw [he.sts _ hx.1])]
  exact he.hm.inslot _ _ (h.2 a ha)

/-- `ctail` with the hypotheses about the current state bundled -/
theorem ctail' (hc : CtxAll g ok toks c) (hg : GrOK g) {s1 : St} {L : Loc} {os : List Nat}
    {cur d pa : Nat} (hcur : CurOKc s1 cur pa d L) {sr k : Nat} {rl' : Rule}
    (hr' : g.rules[sr]? = some rl') (hE : EarleyF g ok toks L.plInd ⟨sr, rl'.rhs.length, k⟩)
    {γ' : List Sym} (hcov : FollowCovers g rl'.lhs γ') (hder : Der g γ' (toks.drop L.plInd))
    {s2 : St} {os2 : List Nat}
    (hres : candTail c L ⟨sr, rl'.rhs.length, k⟩ (pa, L.parentDisp) d
      (s1, os, cur, (s1.state cur).anode) = (s2, os2))
    (hre : s2.reuse = s1.reuse) :
    CExt s1 s2 ∧ os2 = os ∧
    (∀ gks, PT.ValidListAt g toks gks rl'.rhs k L.plInd →
      Ev g toks s2 (placeOf (s1.state cur) pa d) (translate g (.node sr gks))) ∧
    (∀ x ∈ s2.stack, x ∈ s1.stack ∨ NewOK g toks s2 x) := by
  obtain ⟨nm, cc, ks, c1, c2, c3⟩ := hcur.cell
  have hre' : (candTail c L ⟨sr, rl'.rhs.length, k⟩ (pa, L.parentDisp) d
      (s1, os, cur, (s1.state cur).anode)).1.reuse = s1.reuse := by rw [hres]; exact hre
  have := ctail hc hg hcur.hroot hcur.hnil hcur.hkid hcur.hstk hcur.hcurmem hcur.hpa hcur.hLd
    c1 c2 c3 hr' hE hcov hder hre'
  rw [hres] at this
  exact this

end

end Yaep.CP
