import Yaep.Lemmas.PruneCExport
/-!
# On a well-formed heap the exporter never reports a cycle

`MP.exportNode` (the model of the harness's `export_node`) marks the cells it is working on
(`visiting`) and reports a cycle when it meets such a cell again, or when its fuel runs out.  On a
`WfHeap` the cells in progress are the ancestors of the current cell and have a larger rank, so
neither happens: `exportTable_some`.
-/
namespace Yaep.PC
open Yaep MP

section
variable {h : Array Cell} {rk hd : Nat → Nat} (wf : WfHeap h rk hd)
include wf

/-- the children the exporter visits have a smaller rank -/
theorem cellKids_rk {n : Nat} (hn : n < h.size) :
    ∀ k ∈ cellKids (toHeap h) n, k < h.size ∧ rk k < rk n := by
  intro k hk
  cases hc : cellAt h n with
  | anode nm c ks =>
    simp only [cellKids, toHeap_getD, hc, toMNode] at hk
    obtain ⟨k1, k2, _⟩ := (wf.anode n nm c ks hn hc).2 k hk
    exact ⟨k1, k2⟩
  | alt nd nx =>
    have hal : isAlt h n = true := by simp [isAlt, hc]
    have hch := chain0_isChain wf hn hal
    simp only [cellKids, toHeap_getD, hc, toMNode] at hk
    rw [altChain_isChain hch _ (by
      have := hch.length_le wf hn
      have := wf.rk_lt n hn
      rw [toHeap_size]; omega)] at hk
    obtain ⟨j, hj, rfl⟩ := List.mem_map.1 hk
    obtain ⟨q1, q2, -, q4⟩ := hch.props wf hn j hj
    obtain ⟨a1, _, a3⟩ := altNode_props wf q1 q2
    exact ⟨a1, by omega⟩
  | nil => simp only [cellKids, toHeap_getD, hc, toMNode] at hk; cases hk
  | err => simp only [cellKids, toHeap_getD, hc, toMNode] at hk; cases hk
  | term _ _ => simp only [cellKids, toHeap_getD, hc, toMNode] at hk; cases hk

end

/-- cell `m` is being exported: marked, no number yet -/
def InProg (ex : ExSt) (m : Nat) : Prop :=
  ex.visiting.getD m false = true ∧ ex.ids.getD m none = none

/-- the exporter has not reported a cycle, works on the same cells as before, and its arrays
keep their size -/
structure NC (sz : Nat) (ex ex' : ExSt) : Prop where
  cyc : ex'.cycle = false
  prog : ∀ m, InProg ex' m ↔ InProg ex m
  isz : ex'.ids.size = sz
  vsz : ex'.visiting.size = sz

theorem exportKids_nc {sz : Nat} (f : ExSt → Nat → ExSt × Nat) (P : Nat → Prop)
    (Q : ExSt → Prop) (hQ : ∀ ex ex', Q ex → NC sz ex ex' → Q ex')
    (hf : ∀ ex k, P k → Q ex → ex.cycle = false → ex.ids.size = sz → ex.visiting.size = sz →
      NC sz ex (f ex k).1) :
    ∀ (ks : List Nat) (ex : ExSt) (acc : List Nat), (∀ k ∈ ks, P k) → Q ex → ex.cycle = false →
      ex.ids.size = sz → ex.visiting.size = sz → NC sz ex (exportKids f ks ex acc).1
  | [], ex, acc, _, _, hc, h1, h2 => ⟨hc, fun _ => Iff.rfl, h1, h2⟩
  | k :: ks, ex, acc, hP, hq, hc, h1, h2 => by
    have s1 := hf ex k (hP k List.mem_cons_self) hq hc h1 h2
    have s2 := exportKids_nc f P Q hQ hf ks (f ex k).1 (acc ++ [(f ex k).2])
      (fun x hx => hP x (List.mem_cons_of_mem _ hx)) (hQ _ _ hq s1) s1.cyc s1.isz s1.vsz
    show NC sz ex (exportKids f ks (f ex k).1 (acc ++ [(f ex k).2])).1
    exact ⟨s2.cyc, fun m => (s2.prog m).trans (s1.prog m), s2.isz, s2.vsz⟩

theorem exportNode_nc {h : Array Cell} {rk hd : Nat → Nat} (wf : WfHeap h rk hd) :
    ∀ (fuel : Nat) (ex : ExSt) (n : Nat), n < h.size → rk n < fuel → ex.cycle = false →
      ex.ids.size = h.size → ex.visiting.size = h.size → (∀ m, InProg ex m → rk n < rk m) →
      NC h.size ex (exportNode (toHeap h) fuel ex n).1
  | 0, _, _, _, hf, _, _, _, _ => by omega
  | fuel + 1, ex, n, hn, hf, hc, h1, h2, hp => by
    unfold exportNode
    split
    · exact ⟨hc, fun _ => Iff.rfl, h1, h2⟩
    · rename_i hid
      split
      · rename_i hv
        have := hp n ⟨hv, hid⟩
        omega
      · rename_i hv
        have hv' : ex.visiting.getD n false = false := by simpa using hv
        -- the state with `n` marked
        generalize hex1 : ({ ex with visiting := ex.visiting.set! n true } : ExSt) = ex1
        have hc1 : ex1.cycle = false := by rw [← hex1]; exact hc
        have hi1 : ex1.ids.size = h.size := by rw [← hex1]; exact h1
        have hs1 : ex1.visiting.size = h.size := by rw [← hex1]; simp [h2]
        have hp1 : ∀ m, InProg ex1 m ↔ (InProg ex m ∨ m = n) := by
          intro m
          rw [← hex1]
          unfold InProg
          simp only
          rw [getD_set!]
          by_cases hmn : n = m
          · subst hmn
            simp [h2, hn, hid]
          · simp only [hmn, false_and, if_false]
            constructor
            · intro hh; exact Or.inl hh
            · rintro (hh | hh)
              · exact hh
              · exact absurd hh.symm hmn
        have hkids := cellKids_rk wf hn
        have s := exportKids_nc (sz := h.size) (exportNode (toHeap h) fuel)
          (fun k => k < h.size ∧ rk k < rk n)
          (fun e => ∀ m, InProg e m ↔ (InProg ex m ∨ m = n))
          (fun e e' hq hnc m => (hnc.prog m).trans (hq m))
          (fun e k hk hq hce hie hve => exportNode_nc wf fuel e k hk.1 (by omega) hce hie hve (by
            intro m hm
            rcases (hq m).mp hm with hh | hh
            · have := hp m hh; omega
            · subst hh; exact hk.2))
          (cellKids (toHeap h) n) ex1 [] hkids hp1 hc1 hi1 hs1
        generalize exportKids (exportNode (toHeap h) fuel) (cellKids (toHeap h) n) ex1 [] = p at s
        refine ⟨s.cyc, ?_, by simp [s.isz], s.vsz⟩
        intro m
        unfold InProg
        simp only
        rw [getD_set!]
        by_cases hmn : n = m
        · subst hmn
          simp only [true_and, s.isz, hn, if_true]
          constructor
          · intro hh; cases hh.2
          · intro hh; rw [hv'] at hh; cases hh.1
        · simp only [hmn, false_and, if_false]
          have := (s.prog m).trans (hp1 m)
          unfold InProg at this
          constructor
          · intro hh
            rcases this.mp hh with h3 | h3
            · exact h3
            · exact absurd h3.symm hmn
          · intro hh; exact this.mpr (Or.inl hh)

/-- **on a well-formed heap the exporter succeeds** (no `cycle`) -/
theorem exportTable_some {h : Array Cell} {rk hd : Nat → Nat} (wf : WfHeap h rk hd) {root : Nat}
    (hr : root < h.size) : ∃ tab r, exportTable (toHeap h) root = some (tab, r) := by
  have hnc := exportNode_nc wf (h.size + 1)
    { ids := Array.replicate h.size none, visiting := Array.replicate h.size false } root hr
    (by have := wf.rk_lt root hr; omega) rfl (by simp) (by simp) (by
      intro m hm
      unfold InProg at hm
      simp [Array.getD_eq_getD_getElem?, Array.getElem?_replicate] at hm
      split at hm <;> simp at hm)
  unfold exportTable
  rw [toHeap_size]
  generalize exportNode (toHeap h) (h.size + 1)
    { ids := Array.replicate h.size none, visiting := Array.replicate h.size false } root = p at hnc
  obtain ⟨ex, r⟩ := p
  simp only
  rw [if_neg (by rw [hnc.cyc]; simp)]
  exact ⟨_, _, rfl⟩

end Yaep.PC
