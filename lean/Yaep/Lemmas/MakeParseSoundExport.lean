import Yaep.Lemmas.MakeParseSoundDen
import Yaep.Props.C03
/-!
# Soundness of the model of `make_parse`, part 7: the export of a finished translation

If cell `r` of the tree memory denotes the tree `t` (`Den`), the harness export (`exportTable`)
succeeds (no cycle), and the exported table denotes exactly `[t]` and has no ALT node.
-/
namespace Yaep.MP
open Yaep

mutual
  /-- entry `id` of the exported table is the root of the tree `t` -/
  def RecDen (out : Array NodeRec) : Tree → Nat → Prop
    | .nil, id => id < out.size ∧ out.getD id .bad = .nil
    | .error, id => id < out.size ∧ out.getD id .bad = .err
    | .term c a, id => id < out.size ∧ out.getD id .bad = .term c a
    | .anode nm c ts, id => id < out.size ∧
        ∃ kids, out.getD id .bad = .anode nm c kids ∧ RecDenList out ts kids
  def RecDenList (out : Array NodeRec) : List Tree → List Nat → Prop
    | [], ks => ks = []
    | t :: ts, ks => ∃ k ks', ks = k :: ks' ∧ RecDen out t k ∧ RecDenList out ts ks'
end

/-- `out'` extends `out` -/
def Ext (out out' : Array NodeRec) : Prop :=
  out.size ≤ out'.size ∧ ∀ i, i < out.size → out'.getD i .bad = out.getD i .bad

theorem Ext.refl (out : Array NodeRec) : Ext out out := ⟨Nat.le_refl _, fun _ _ => rfl⟩

theorem Ext.trans {a b c : Array NodeRec} (h1 : Ext a b) (h2 : Ext b c) : Ext a c :=
  ⟨Nat.le_trans h1.1 h2.1, fun i hi => by rw [h2.2 i (by have := h1.1; omega), h1.2 i hi]⟩

theorem Ext.push (out : Array NodeRec) (x : NodeRec) : Ext out (out.push x) :=
  ⟨by simp, fun i hi => getD_push_lt _ _ _ _ hi⟩

mutual
  theorem RecDen.mono {out out' : Array NodeRec} (he : Ext out out') :
      ∀ (t : Tree) (id : Nat), RecDen out t id → RecDen out' t id
    | .nil, id, h => by
      simp only [RecDen] at h ⊢
      exact ⟨by have := he.1; omega, by rw [he.2 id h.1]; exact h.2⟩
    | .error, id, h => by
      simp only [RecDen] at h ⊢
      exact ⟨by have := he.1; omega, by rw [he.2 id h.1]; exact h.2⟩
    | .term c a, id, h => by
      simp only [RecDen] at h ⊢
      exact ⟨by have := he.1; omega, by rw [he.2 id h.1]; exact h.2⟩
    | .anode nm c ts, id, h => by
      simp only [RecDen] at h ⊢
      obtain ⟨h1, kids, h2, h3⟩ := h
      exact ⟨by have := he.1; omega, kids, by rw [he.2 id h1]; exact h2, RecDenList.mono he ts kids h3⟩
  theorem RecDenList.mono {out out' : Array NodeRec} (he : Ext out out') :
      ∀ (ts : List Tree) (ks : List Nat), RecDenList out ts ks → RecDenList out' ts ks
    | [], _, h => h
    | t :: ts, ks, h => by
      simp only [RecDenList] at h ⊢
      obtain ⟨k, ks', h1, h2, h3⟩ := h
      exact ⟨k, ks', h1, RecDen.mono he t k h2, RecDenList.mono he ts ks' h3⟩
end

theorem prodAll_singletons {α : Type} : ∀ (l : List α), prodAll (l.map fun x => [x]) = [l]
  | [] => rfl
  | x :: l => by simp [prodAll, prodAll_singletons l]

mutual
  /-- the fold the judge uses computes `[t]` for such an entry -/
  theorem RecDen.denoteTab {tab : Array NodeRec} (hwf : tableWF tab = true) :
      ∀ (t : Tree) (id : Nat), RecDen tab t id → (Yaep.denoteTab tab).getD id [] = [t]
    | .nil, id, h => by
      simp only [RecDen] at h
      rw [denoteTab_rec hwf h.1, h.2]; rfl
    | .error, id, h => by
      simp only [RecDen] at h
      rw [denoteTab_rec hwf h.1, h.2]; rfl
    | .term c a, id, h => by
      simp only [RecDen] at h
      rw [denoteTab_rec hwf h.1, h.2]; rfl
    | .anode nm c ts, id, h => by
      simp only [RecDen] at h
      obtain ⟨h1, kids, h2, h3⟩ := h
      rw [denoteTab_rec hwf h1, h2]
      simp only [denoteRec]
      have : kids.map (fun k => (Yaep.denoteTab tab).getD k []) = ts.map fun x => [x] :=
        RecDenList.denoteTab hwf ts kids h3
      rw [this, prodAll_singletons]; rfl
  theorem RecDenList.denoteTab {tab : Array NodeRec} (hwf : tableWF tab = true) :
      ∀ (ts : List Tree) (ks : List Nat), RecDenList tab ts ks →
        ks.map (fun k => (Yaep.denoteTab tab).getD k []) = ts.map fun x => [x]
    | [], ks, h => by simp only [RecDenList] at h; subst h; rfl
    | t :: ts, ks, h => by
      simp only [RecDenList] at h
      obtain ⟨k, ks', h1, h2, h3⟩ := h
      subst h1
      simp only [List.map_cons]
      rw [RecDen.denoteTab hwf t k h2, RecDenList.denoteTab hwf ts ks' h3]
end

/-! ## a cell denotes at most one tree -/

mutual
  theorem Den.functional {h : Array MNode} {hi : Nat} (h0 : h.getD nilId .nil = .nil)
      (h1 : h.getD errId .nil = .err) :
      ∀ (t t' : Tree) (lo lo' n : Nat), Den h hi t lo n → Den h hi t' lo' n → t = t'
    | .nil, t', lo, lo', n, hd, hd' => by
      simp only [Den] at hd
      subst hd
      cases t' with
      | nil => rfl
      | error => simp [Den, nilId, errId] at hd'
      | term c a => simp only [Den] at hd'; rw [h0] at hd'; cases hd'.2.2
      | anode nm c ts =>
        simp only [Den] at hd'
        obtain ⟨_, _, ks, kids, h3, _⟩ := hd'
        rw [h0] at h3; cases h3
    | .error, t', lo, lo', n, hd, hd' => by
      simp only [Den] at hd
      subst hd
      cases t' with
      | nil => simp [Den, nilId, errId] at hd'
      | error => rfl
      | term c a => simp only [Den] at hd'; rw [h1] at hd'; cases hd'.2.2
      | anode nm c ts =>
        simp only [Den] at hd'
        obtain ⟨_, _, ks, kids, h3, _⟩ := hd'
        rw [h1] at h3; cases h3
    | .term c a, t', lo, lo', n, hd, hd' => by
      simp only [Den] at hd
      cases t' with
      | nil => simp only [Den] at hd'; subst hd'; rw [h0] at hd; cases hd.2.2
      | error => simp only [Den] at hd'; subst hd'; rw [h1] at hd; cases hd.2.2
      | term c' a' =>
        simp only [Den] at hd'
        rw [hd.2.2] at hd'
        injection hd'.2.2 with e1 e2
        rw [e1, e2]
      | anode nm c ts =>
        simp only [Den] at hd'
        obtain ⟨_, _, ks, kids, h3, _⟩ := hd'
        rw [hd.2.2] at h3; cases h3
    | .anode nm c ts, t', lo, lo', n, hd, hd' => by
      simp only [Den] at hd
      obtain ⟨_, _, ks, kids, h3, h4, h5⟩ := hd
      cases t' with
      | nil => simp only [Den] at hd'; subst hd'; rw [h0] at h3; cases h3
      | error => simp only [Den] at hd'; subst hd'; rw [h1] at h3; cases h3
      | term c' a' => simp only [Den] at hd'; rw [h3] at hd'; cases hd'.2.2
      | anode nm' c' ts' =>
        simp only [Den] at hd'
        obtain ⟨_, _, ks', kids', h3', h4', h5'⟩ := hd'
        rw [h3] at h3'
        injection h3' with e1 e2 e3
        subst e1; subst e2; subst e3
        rw [h4] at h4'
        have hk : kids = kids' := by
          have := List.append_cancel_right h4'
          exact (List.map_inj_right (fun _ _ hxy => Option.some.inj hxy)).mp this
        subst hk
        rw [DenList.functional h0 h1 ts ts' _ _ kids h5 h5']
  theorem DenList.functional {h : Array MNode} {hi : Nat} (h0 : h.getD nilId .nil = .nil)
      (h1 : h.getD errId .nil = .err) :
      ∀ (ts ts' : List Tree) (lo lo' : Nat) (ks : List Nat), DenList h hi ts lo ks →
        DenList h hi ts' lo' ks → ts = ts'
    | [], ts', lo, lo', ks, hd, hd' => by
      simp only [DenList] at hd
      subst hd
      cases ts' with
      | nil => rfl
      | cons t' ts' => simp [DenList] at hd'
    | t :: ts, ts', lo, lo', ks, hd, hd' => by
      simp only [DenList] at hd
      obtain ⟨k, ks', rfl, h2, h3⟩ := hd
      cases ts' with
      | nil => simp [DenList] at hd'
      | cons t' ts' =>
        simp only [DenList] at hd'
        obtain ⟨k', ks'', e, h2', h3'⟩ := hd'
        injection e with e1 e2
        subst e1; subst e2
        rw [Den.functional h0 h1 t t' _ _ _ h2 h2', DenList.functional h0 h1 ts ts' _ _ _ h3 h3']
end

theorem cellKids_anode {h : Array MNode} {n : Nat} {nm : String} {c : Nat} {ks : Array (Option Nat)}
    {kids : List Nat} (hc : h.getD n .nil = .anode nm c ks) (hk : ks.toList = kids.map some ++ [none]) :
    cellKids h n = kids := by
  unfold cellKids
  rw [hc]
  simp only [hk]
  have h1 : List.takeWhile Option.isSome (kids.map some ++ [none]) = kids.map some := by
    induction kids with
    | nil => rfl
    | cons k kids ih => simp
  rw [h1]
  induction kids with
  | nil => rfl
  | cons k kids ih => simp

/-! ## the exporter on a finished translation -/

/-- invariant of the export state: every numbered cell is exported correctly, no ALT entry, the
cells being visited are abstract-node cells below `bnd` -/
structure ExOK (h : Array MNode) (hi : Nat) (ex : ExSt) (bnd : Nat) : Prop where
  cyc : ex.cycle = false
  szI : ex.ids.size = h.size
  szV : ex.visiting.size = h.size
  good : ∀ m id, ex.ids.getD m none = some id → ∀ t lo, Den h hi t lo m → RecDen ex.out t id
  noalt : ∀ i, i < ex.out.size → ∀ as, ex.out.getD i .bad ≠ .alt as
  path : ∀ m, ex.visiting.getD m false = true → ex.ids.getD m none = none →
    m < bnd ∧ ∃ nm c ks, h.getD m .nil = .anode nm c ks

/-- what one call of the exporter does to the state -/
structure ExRes (h : Array MNode) (hi : Nat) (ex r : ExSt) : Prop where
  cyc : r.cycle = false
  szI : r.ids.size = ex.ids.size
  szV : r.visiting.size = ex.visiting.size
  ext : Ext ex.out r.out
  idsMono : ∀ m id, ex.ids.getD m none = some id → r.ids.getD m none = some id
  path : ∀ m, r.visiting.getD m false = true → r.ids.getD m none = none →
    ex.visiting.getD m false = true ∧ ex.ids.getD m none = none
  good : ∀ m id, r.ids.getD m none = some id → ∀ t lo, Den h hi t lo m → RecDen r.out t id
  noalt : ∀ i, i < r.out.size → ∀ as, r.out.getD i .bad ≠ .alt as

theorem ExRes.refl' {h : Array MNode} {hi : Nat} {ex : ExSt} (hc : ex.cycle = false)
    (hg : ∀ m id, ex.ids.getD m none = some id → ∀ t lo, Den h hi t lo m → RecDen ex.out t id)
    (hn : ∀ i, i < ex.out.size → ∀ as, ex.out.getD i .bad ≠ .alt as) : ExRes h hi ex ex :=
  ⟨hc, rfl, rfl, Ext.refl _, fun _ _ h => h, fun _ h1 h2 => ⟨h1, h2⟩, hg, hn⟩

theorem ExRes.refl {h : Array MNode} {hi : Nat} {ex : ExSt} {bnd : Nat} (hx : ExOK h hi ex bnd) :
    ExRes h hi ex ex := ExRes.refl' hx.cyc hx.good hx.noalt

theorem ExRes.trans {h : Array MNode} {hi : Nat} {a b c : ExSt} (h1 : ExRes h hi a b)
    (h2 : ExRes h hi b c) : ExRes h hi a c :=
  ⟨h2.cyc, by rw [h2.szI, h1.szI], by rw [h2.szV, h1.szV], h1.ext.trans h2.ext,
   fun m id hm => h2.idsMono m id (h1.idsMono m id hm),
   fun m hm1 hm2 => by obtain ⟨a1, a2⟩ := h2.path m hm1 hm2; exact h1.path m a1 a2,
   h2.good, h2.noalt⟩

theorem ExOK.step {h : Array MNode} {hi : Nat} {ex r : ExSt} {bnd : Nat} (hx : ExOK h hi ex bnd)
    (hr : ExRes h hi ex r) : ExOK h hi r bnd :=
  ⟨hr.cyc, by rw [hr.szI, hx.szI], by rw [hr.szV, hx.szV], hr.good, hr.noalt,
   fun m hm1 hm2 => by obtain ⟨a1, a2⟩ := hr.path m hm1 hm2; exact hx.path m a1 a2⟩

/-- the cell `n` gets its number after its children have been exported -/
theorem export_finish {h : Array MNode} {hi : Nat} (h0 : h.getD nilId .nil = .nil)
    (h1 : h.getD errId .nil = .err) {ex p : ExSt} {bnd n lo : Nat} {t : Tree} {rec : NodeRec}
    (hx : ExOK h hi ex bnd) (hn : n < h.size) (hden : Den h hi t lo n)
    (hids : ex.ids.getD n none = none)
    (hp : ExRes h hi { ex with visiting := ex.visiting.set! n true } p)
    (hrec : ∀ out', Ext p.out out' → p.out.size < out'.size → out'.getD p.out.size .bad = rec →
      RecDen out' t p.out.size)
    (hna : ∀ as, rec ≠ .alt as) :
    ExRes h hi ex { p with out := p.out.push rec, ids := p.ids.set! n (some p.out.size) } ∧
    RecDen (p.out.push rec) t p.out.size := by
  have hrd : RecDen (p.out.push rec) t p.out.size :=
    hrec _ (Ext.push _ _) (by simp) (getD_push_eq _ _ _)
  have hszI : p.ids.size = h.size := by rw [hp.szI]; exact hx.szI
  refine ⟨⟨hp.cyc, ?_, ?_, ?_, ?_, ?_, ?_, ?_⟩, hrd⟩
  · simp only [Array.set!_eq_setIfInBounds, Array.size_setIfInBounds]; exact hp.szI
  · rw [hp.szV]; simp
  · exact (hp.ext).trans (Ext.push _ _)
  · intro m id hm
    simp only
    rw [getD_set!]
    have hne : n ≠ m := by intro e; subst e; rw [hids] at hm; cases hm
    rw [if_neg (fun hh => hne hh.1)]
    exact hp.idsMono m id hm
  · intro m hm1 hm2
    simp only at hm1 hm2
    rw [getD_set!] at hm2
    have hne : n ≠ m := by
      intro e; subst e
      rw [if_pos ⟨rfl, by omega⟩] at hm2; cases hm2
    rw [if_neg (fun hh => hne hh.1)] at hm2
    obtain ⟨a1, a2⟩ := hp.path m hm1 hm2
    simp only at a1 a2
    rw [getD_set!, if_neg (fun hh => hne hh.1)] at a1
    exact ⟨a1, a2⟩
  · intro m id hm t' lo' hd'
    simp only at hm ⊢
    rw [getD_set!] at hm
    by_cases hnm : n = m
    · subst hnm
      rw [if_pos ⟨rfl, by omega⟩] at hm
      injection hm with hm
      subst hm
      rw [← Den.functional h0 h1 t t' _ _ _ hden hd']
      exact hrd
    · rw [if_neg (fun hh => hnm hh.1)] at hm
      exact RecDen.mono (Ext.push _ _) _ _ (hp.good m id hm t' lo' hd')
  · intro i hi' as
    simp only at hi' ⊢
    rw [Array.size_push] at hi'
    by_cases hlt : i < p.out.size
    · rw [getD_push_lt _ _ _ _ hlt]; exact hp.noalt i hlt as
    · have : i = p.out.size := by omega
      subst this
      rw [getD_push_eq]; exact hna as

theorem exportNode_fresh (h : Array MNode) (fuel : Nat) (ex : ExSt) (n : Nat)
    (hids : ex.ids.getD n none = none) (hvis : ex.visiting.getD n false = false) :
    exportNode h (fuel + 1) ex n =
      ({ (exportKids (exportNode h fuel) (cellKids h n)
            { ex with visiting := ex.visiting.set! n true } []).1 with
          out := (exportKids (exportNode h fuel) (cellKids h n)
            { ex with visiting := ex.visiting.set! n true } []).1.out.push
              (cellRec h n (exportKids (exportNode h fuel) (cellKids h n)
                { ex with visiting := ex.visiting.set! n true } []).2),
          ids := (exportKids (exportNode h fuel) (cellKids h n)
            { ex with visiting := ex.visiting.set! n true } []).1.ids.set! n
              (some (exportKids (exportNode h fuel) (cellKids h n)
                { ex with visiting := ex.visiting.set! n true } []).1.out.size) },
       (exportKids (exportNode h fuel) (cellKids h n)
            { ex with visiting := ex.visiting.set! n true } []).1.out.size) := by
  rw [exportNode]
  simp only [hids, hvis]
  rfl

/-- a cell that is not an abstract node is not being visited -/
theorem ExOK.not_visiting {h : Array MNode} {hi : Nat} {ex : ExSt} {bnd n : Nat} (hx : ExOK h hi ex bnd)
    (hids : ex.ids.getD n none = none)
    (hn : bnd ≤ n ∨ ∀ nm c ks, h.getD n .nil ≠ .anode nm c ks) : ex.visiting.getD n false = false := by
  cases hv : ex.visiting.getD n false with
  | false => rfl
  | true =>
    obtain ⟨a1, nm, c, ks, a2⟩ := hx.path n hv hids
    rcases hn with hn | hn
    · omega
    · exact absurd a2 (hn nm c ks)

/-- a cell without children (NIL, ERROR, TERM) -/
theorem export_leaf {h : Array MNode} {hi : Nat} (h0 : h.getD nilId .nil = .nil)
    (h1 : h.getD errId .nil = .err) {ex : ExSt} {bnd n lo fuel : Nat} {t : Tree} {rec : NodeRec}
    (hx : ExOK h hi ex bnd) (hn : n < h.size) (hden : Den h hi t lo n)
    (hids : ex.ids.getD n none = none)
    (hna : ∀ nm c ks, h.getD n .nil ≠ .anode nm c ks)
    (hck : cellKids h n = []) (hcr : cellRec h n [] = rec) (hnalt : ∀ as, rec ≠ .alt as)
    (hrec : ∀ (out' : Array NodeRec) id, id < out'.size → out'.getD id .bad = rec → RecDen out' t id) :
    ExRes h hi ex (exportNode h (fuel + 1) ex n).1 ∧
      RecDen (exportNode h (fuel + 1) ex n).1.out t (exportNode h (fuel + 1) ex n).2 := by
  have hvis := hx.not_visiting hids (Or.inr hna)
  rw [exportNode_fresh h fuel ex _ hids hvis, hck]
  simp only [exportKids, hcr]
  exact export_finish h0 h1 hx hn hden hids (ExRes.refl' hx.cyc hx.good hx.noalt)
    (fun out' _ hlt hg => hrec out' _ hlt hg) hnalt

mutual
  theorem exportNode_den {h : Array MNode} {hi : Nat} (h0 : h.getD nilId .nil = .nil)
      (h1 : h.getD errId .nil = .err) (hhi : hi ≤ h.size) (h2 : 2 ≤ h.size) :
      ∀ (t : Tree) (lo n fuel : Nat) (ex : ExSt) (bnd : Nat), Den h hi t lo n → ExOK h hi ex bnd →
        bnd ≤ lo → hi < fuel + lo → 1 ≤ fuel →
        ExRes h hi ex (exportNode h fuel ex n).1 ∧
          RecDen (exportNode h fuel ex n).1.out t (exportNode h fuel ex n).2
    | t, lo, n, 0, ex, bnd, _, _, _, _, hf => absurd hf (by omega)
    | t, lo, n, fuel + 1, ex, bnd, hden, hx, hb, hfu, _ => by
      cases hids : ex.ids.getD n none with
      | some id =>
        have e : exportNode h (fuel + 1) ex n = (ex, id) := by
          rw [exportNode]; simp only [hids]
        rw [e]
        exact ⟨ExRes.refl hx, hx.good n id hids t lo hden⟩
      | none =>
        match t, hden with
        | .nil, hden =>
          have hden' := hden
          simp only [Den] at hden'
          subst hden'
          exact export_leaf h0 h1 hx (by show 0 < h.size; omega) hden hids
            (fun nm c ks hh => by rw [h0] at hh; cases hh) (by unfold cellKids; rw [h0])
            (by unfold cellRec; rw [h0]) (fun as hh => by cases hh)
            (fun out' id hlt hg => by simp only [RecDen]; exact ⟨hlt, hg⟩)
        | .error, hden =>
          have hden' := hden
          simp only [Den] at hden'
          subst hden'
          exact export_leaf h0 h1 hx (by show 1 < h.size; omega) hden hids
            (fun nm c ks hh => by rw [h1] at hh; cases hh) (by unfold cellKids; rw [h1])
            (by unfold cellRec; rw [h1]) (fun as hh => by cases hh)
            (fun out' id hlt hg => by simp only [RecDen]; exact ⟨hlt, hg⟩)
        | .term c a, hden =>
          have hden' := hden
          simp only [Den] at hden'
          obtain ⟨_, d2, d3⟩ := hden'
          exact export_leaf h0 h1 hx (by omega) hden hids
            (fun nm c ks hh => by rw [d3] at hh; cases hh) (by unfold cellKids; rw [d3])
            (by unfold cellRec; rw [d3]) (fun as hh => by cases hh)
            (fun out' id hlt hg => by simp only [RecDen]; exact ⟨hlt, hg⟩)
        | .anode nm c ts, hden =>
          have hden' := hden
          simp only [Den] at hden'
          obtain ⟨d1, d2, ks, kids, d3, d4, d5⟩ := hden'
          have hvis := hx.not_visiting hids (Or.inl (by omega))
          have hx1 : ExOK h hi { ex with visiting := ex.visiting.set! n true } (n + 1) := by
            refine ⟨hx.cyc, hx.szI, by simp [hx.szV], hx.good, hx.noalt, ?_⟩
            intro m hm1 hm2
            simp only at hm1 hm2
            rw [getD_set!] at hm1
            by_cases hnm : n = m
            · subst hnm
              exact ⟨Nat.lt_succ_self _, nm, c, ks, d3⟩
            · rw [if_neg (fun hh => hnm hh.1)] at hm1
              obtain ⟨a1, a2⟩ := hx.path m hm1 hm2
              exact ⟨by omega, a2⟩
          obtain ⟨r1, ids, r2, r3⟩ := exportKids_den h0 h1 hhi h2 ts (n + 1) fuel kids
            { ex with visiting := ex.visiting.set! n true } (n + 1) [] d5 hx1 (Nat.le_refl _)
            (by omega) (by omega)
          rw [exportNode_fresh h fuel ex _ hids hvis, cellKids_anode d3 d4]
          simp only
          have hcr : cellRec h n (exportKids (exportNode h fuel) kids
              { ex with visiting := ex.visiting.set! n true } []).2 = .anode nm c ids := by
            unfold cellRec; rw [d3, r2]; rfl
          rw [hcr]
          refine export_finish h0 h1 hx (by omega) hden hids r1 ?_ (fun as hh => by cases hh)
          intro out' he hlt hg
          simp only [RecDen]
          exact ⟨hlt, ids, hg, RecDenList.mono he _ _ r3⟩
  theorem exportKids_den {h : Array MNode} {hi : Nat} (h0 : h.getD nilId .nil = .nil)
      (h1 : h.getD errId .nil = .err) (hhi : hi ≤ h.size) (h2 : 2 ≤ h.size) :
      ∀ (ts : List Tree) (lo fuel : Nat) (ks : List Nat) (ex : ExSt) (bnd : Nat) (acc : List Nat),
        DenList h hi ts lo ks → ExOK h hi ex bnd → bnd ≤ lo → hi < fuel + lo → 1 ≤ fuel →
        ExRes h hi ex (exportKids (exportNode h fuel) ks ex acc).1 ∧
          ∃ ids, (exportKids (exportNode h fuel) ks ex acc).2 = acc ++ ids ∧
            RecDenList (exportKids (exportNode h fuel) ks ex acc).1.out ts ids
    | [], lo, fuel, ks, ex, bnd, acc, hd, hx, _, _, _ => by
      simp only [DenList] at hd
      subst hd
      exact ⟨ExRes.refl hx, [], by simp [exportKids], by simp [RecDenList]⟩
    | t :: ts, lo, fuel, ks, ex, bnd, acc, hd, hx, hb, hfu, hf => by
      simp only [DenList] at hd
      obtain ⟨k, ks', rfl, d1, d2⟩ := hd
      obtain ⟨r1, r2⟩ := exportNode_den h0 h1 hhi h2 t lo k fuel ex bnd d1 hx hb hfu hf
      obtain ⟨r3, ids, r4, r5⟩ := exportKids_den h0 h1 hhi h2 ts lo fuel ks'
        (exportNode h fuel ex k).1 bnd (acc ++ [(exportNode h fuel ex k).2]) d2 (hx.step r1) hb hfu hf
      refine ⟨r1.trans r3, (exportNode h fuel ex k).2 :: ids, ?_, ?_⟩
      · simp only [exportKids]; rw [r4]; simp
      · simp only [exportKids, RecDenList]
        exact ⟨_, _, rfl, RecDen.mono r3.ext _ _ r2, r5⟩
end

/-- **the export of a finished translation**: no cycle, the table entry of the root is the root
of the tree, and the table has no ALT entry -/
theorem exportTable_den {h : Array MNode} (h0 : h.getD nilId .nil = .nil)
    (h1 : h.getD errId .nil = .err) {t : Tree} {r : Nat} (hden : Den h h.size t 0 r) :
    ∃ tab root, exportTable h r = some (tab, root) ∧ RecDen tab t root ∧
      ∀ i, i < tab.size → ∀ as, tab.getD i .bad ≠ .alt as := by
  have h2 : 2 ≤ h.size := by
    rcases Nat.lt_or_ge 1 h.size with hlt | hge
    · exact hlt
    · have : h.getD errId .nil = .nil := by
        simp [Array.getD_eq_getD_getElem?, Array.getElem?_eq_none (show h.size ≤ errId from hge)]
      rw [this] at h1; cases h1
  have hx0 : ExOK h h.size
      { ids := Array.replicate h.size none, visiting := Array.replicate h.size false } 0 := by
    refine ⟨rfl, by simp, by simp, ?_, ?_, ?_⟩
    · intro m id hm
      simp [Array.getD_eq_getD_getElem?, Array.getElem?_replicate] at hm
      split at hm <;> simp at hm
    · intro i hi; simp at hi
    · intro m hm
      simp [Array.getD_eq_getD_getElem?, Array.getElem?_replicate] at hm
      split at hm <;> simp at hm
  obtain ⟨r1, r2⟩ := exportNode_den h0 h1 (Nat.le_refl _) h2 t 0 r (h.size + 1) _ 0 hden hx0
    (Nat.le_refl _) (by omega) (by omega)
  unfold exportTable
  generalize exportNode h (h.size + 1)
    { ids := Array.replicate h.size none, visiting := Array.replicate h.size false } r = p at r1 r2
  obtain ⟨ex, rr⟩ := p
  simp only at r1 r2 ⊢
  rw [r1.cyc]
  exact ⟨ex.out, rr, rfl, r2, r1.noalt⟩

theorem hasAlt_false_of {tab : Array NodeRec}
    (h : ∀ i, i < tab.size → ∀ as, tab.getD i .bad ≠ .alt as) : hasAlt tab = false := by
  unfold hasAlt
  rw [Bool.eq_false_iff]
  intro hany
  rw [List.any_eq_true] at hany
  obtain ⟨r, hr, hm⟩ := hany
  obtain ⟨i, hi, rfl⟩ := List.getElem_of_mem hr
  have hi' : i < tab.size := by simpa using hi
  have e : tab.getD i .bad = tab.toList[i] := by
    simp [Array.getD_eq_getD_getElem?, hi']
  cases hx : tab.toList[i] with
  | alt as => exact h i hi' as (by rw [e, hx])
  | _ => rw [hx] at hm; simp at hm

end Yaep.MP
