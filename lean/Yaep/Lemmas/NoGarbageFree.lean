import Yaep.Lemmas.NoGarbageExport
import Yaep.Lemmas.NoGarbageFinal
import Yaep.Props.C13
import Yaep.Lemmas.PruneCFinal
/-!
# No garbage, part 7: `yaep_free_tree` on the exported table releases exactly the cells reachable
from the root of a well-formed heap, each once

For a `WfHeap h` with root `r` (a chain head) and its exported table `(tab, root)`:
`cellOf h cells` maps the blocks of the table (`Block.node k`: entry `k`; `Block.cell k p`: cell `p`
of the ALT chain entry `k` stands for) to cells of the heap; on the blocks `freeTree tab root`
releases it is a bijection onto the cells reachable from `r`.
-/
namespace Yaep.NG
open Yaep MP

/-- the heap cell a block of the exported table is -/
def cellOf (h : Array PC.Cell) (cells : List Nat) : Block → Nat
  | .node k => cells.getD k 0
  | .cell k p => (PC.chain0 h (cells.getD k 0)).getD p 0
  | .name _ => 0

def isNameB : Block → Bool
  | .name _ => true
  | _ => false

section
variable {h : Array PC.Cell} {rk hd : Nat → Nat} (wf : PC.WfHeap h rk hd)
include wf

theorem cellKids_anode {n : Nat} {nm : String} {c : Int} {ks : Array (Option Nat)}
    (hc : PC.cellAt h n = .anode nm c ks) : cellKids (PC.toHeap h) n = PC.kidsOf ks := by
  simp only [cellKids, PC.toHeap_getD, hc, PC.toMNode]
  rfl

theorem cellKids_alt {n : Nat} (hn : n < h.size) (hal : PC.isAlt h n = true) :
    cellKids (PC.toHeap h) n = (PC.chain0 h n).map (PC.altNode h) := by
  have hch := PC.chain0_isChain wf hn hal
  unfold PC.isAlt at hal
  split at hal
  · rename_i nd nx hc
    simp only [cellKids, PC.toHeap_getD, hc, PC.toMNode]
    rw [PC.altChain_isChain hch _ (by
      have := hch.length_le wf hn
      have := wf.rk_lt n hn
      rw [PC.toHeap_size]; omega)]
  · cases hal

theorem cellKids_leaf {n : Nat} (h1 : PC.isAlt h n = false)
    (h2 : ∀ nm c ks, PC.cellAt h n ≠ .anode nm c ks) : cellKids (PC.toHeap h) n = [] := by
  simp only [cellKids, PC.toHeap_getD]
  cases hc : PC.cellAt h n with
  | anode nm c ks => exact absurd hc (h2 nm c ks)
  | alt nd nx => simp [PC.isAlt, hc] at h1
  | nil => rfl
  | err => rfl
  | term _ _ => rfl

/-- the cells the exporter visits from a cell are chain heads in range, reachable from it -/
theorem kid_props {n : Nat} (hn : n < h.size) {k : Nat} (hk : k ∈ cellKids (PC.toHeap h) n) :
    k < h.size ∧ hd k = k ∧ PC.Reach h n k := by
  cases hc : PC.cellAt h n with
  | anode nm c ks =>
    rw [cellKids_anode wf hc] at hk
    obtain ⟨a1, _, a3⟩ := (wf.anode n nm c ks hn hc).2 k hk
    exact ⟨a1, a3, .single (by simp [PC.succs, hc]; exact hk)⟩
  | alt nd nx =>
    have hal : PC.isAlt h n = true := by simp [PC.isAlt, hc]
    rw [cellKids_alt wf hn hal] at hk
    obtain ⟨j, hj, rfl⟩ := List.mem_map.1 hk
    have hch := PC.chain0_isChain wf hn hal
    obtain ⟨q1, q2, _, _⟩ := hch.props wf hn j hj
    obtain ⟨a1, a2, _⟩ := PC.altNode_props wf q1 q2
    exact ⟨a1, wf.hd_self _ a1 a2, (hch.reach j hj).trans (.single (PC.altNode_succ q2))⟩
  | nil =>
    rw [cellKids_leaf wf (by simp [PC.isAlt, hc]) (by intro _ _ _; rw [hc]; intro e; cases e)] at hk
    cases hk
  | err =>
    rw [cellKids_leaf wf (by simp [PC.isAlt, hc]) (by intro _ _ _; rw [hc]; intro e; cases e)] at hk
    cases hk
  | term _ _ =>
    rw [cellKids_leaf wf (by simp [PC.isAlt, hc]) (by intro _ _ _; rw [hc]; intro e; cases e)] at hk
    cases hk

theorem kreach_props {r : Nat} (hr : r < h.size) (hdr : hd r = r) {x : Nat}
    (hx : KReach (PC.toHeap h) r x) : x < h.size ∧ hd x = x ∧ PC.Reach h r x := by
  have : ∀ a x, KReach (PC.toHeap h) a x → a < h.size → hd a = a →
      x < h.size ∧ hd x = x ∧ PC.Reach h a x := by
    intro a x hax
    induction hax with
    | refl _ => intro h1 h2; exact ⟨h1, h2, .refl _⟩
    | step e _ ih =>
      intro h1 h2
      obtain ⟨b1, b2, b3⟩ := kid_props wf h1 e
      obtain ⟨c1, c2, c3⟩ := ih b1 b2
      exact ⟨c1, c2, b3.trans c3⟩
  exact this r x hx hr hdr

end

theorem getD_of_mem {l : List Nat} {x : Nat} (hx : x ∈ l) : ∃ p, p < l.length ∧ l.getD p 0 = x := by
  obtain ⟨p, hp, e⟩ := List.getElem_of_mem hx
  exact ⟨p, hp, by simp [List.getD_eq_getElem?_getD, List.getElem?_eq_getElem hp, e]⟩

theorem getD_mem {l : List Nat} {p : Nat} (hp : p < l.length) : l.getD p 0 ∈ l := by
  simp [List.getD_eq_getElem?_getD, List.getElem?_eq_getElem hp]

theorem getD_inj_of_nodup {l : List Nat} (hl : l.Nodup) {p q : Nat} (hp : p < l.length)
    (hq : q < l.length) (e : l.getD p 0 = l.getD q 0) : p = q :=
  (List.getD_inj hp hq hl).1 e

/-- the exported record of a cell has the kind of the cell -/
theorem cellRec_kind (hM : Array MNode) (n : Nat) (ids : List Nat) :
    (∀ as, cellRec hM n ids = .alt as → isAlt hM n = true ∧ as = ids) ∧
    (∀ nm c ks, cellRec hM n ids = .anode nm c ks →
      ∃ ks', hM.getD n .nil = .anode nm c ks' ∧ ks = ids) ∧
    (∀ cd a, cellRec hM n ids = .term cd a → hM.getD n .nil = .term cd a) := by
  unfold cellRec isAlt
  cases hM.getD n .nil <;> simp

theorem isAlt_toHeap (h : Array PC.Cell) (n : Nat) : isAlt (PC.toHeap h) n = PC.isAlt h n := by
  unfold isAlt PC.isAlt
  rw [PC.toHeap_getD]
  cases PC.cellAt h n <;> rfl

theorem anode_toHeap {h : Array PC.Cell} {n : Nat} {nm : String} {c : Nat} {ks : Array (Option Nat)}
    (e : (PC.toHeap h).getD n .nil = .anode nm c ks) : ∃ c', PC.cellAt h n = .anode nm c' ks := by
  rw [PC.toHeap_getD] at e
  cases hc : PC.cellAt h n <;> rw [hc] at e <;> simp [PC.toMNode] at e
  obtain ⟨e1, _, e3⟩ := e
  subst e1; subst e3
  exact ⟨_, rfl⟩

theorem term_toHeap {h : Array PC.Cell} {n : Nat} {cd a : Int}
    (e : (PC.toHeap h).getD n .nil = .term cd a) : PC.cellAt h n = .term cd a := by
  rw [PC.toHeap_getD] at e
  cases hc : PC.cellAt h n <;> rw [hc] at e <;> simp [PC.toMNode] at e
  obtain ⟨e1, e2⟩ := e
  subst e1; subst e2
  rfl

theorem cellRec_of_anode {h : Array PC.Cell} {n : Nat} {nm : String} {c : Int}
    {ks : Array (Option Nat)} (hc : PC.cellAt h n = .anode nm c ks) (ids : List Nat) :
    cellRec (PC.toHeap h) n ids = .anode nm c.toNat ids := by
  unfold cellRec; rw [PC.toHeap_getD, hc]; rfl

theorem cellRec_of_alt {h : Array PC.Cell} {n : Nat} (hal : PC.isAlt h n = true) (ids : List Nat) :
    cellRec (PC.toHeap h) n ids = .alt ids := by
  unfold cellRec; rw [PC.toHeap_getD]
  unfold PC.isAlt at hal
  split at hal
  · rename_i nd nx e; rw [e]; rfl
  · cases hal

theorem cellRec_of_term {h : Array PC.Cell} {n : Nat} {cd a : Int}
    (hc : PC.cellAt h n = .term cd a) (ids : List Nat) :
    cellRec (PC.toHeap h) n ids = .term cd a := by
  unfold cellRec; rw [PC.toHeap_getD, hc]; rfl

theorem chain0_nil_of_not_alt {h : Array PC.Cell} {a : Nat} (hal : PC.isAlt h a = false) :
    PC.chain0 h a = [] := by
  unfold PC.chain0 PC.chainCells
  cases hsz : h.size with
  | zero => rfl
  | succ m =>
    simp only
    unfold PC.isAlt at hal
    split
    · rename_i nd nx e; rw [e] at hal; cases hal
    · rename_i nd e; rw [e] at hal; cases hal
    · rfl

section
variable {h : Array PC.Cell} {rk hd : Nat → Nat} (wf : PC.WfHeap h rk hd)
include wf

/-- what the exporter's table knows about a reachable cell: the entry of its chain head is
reachable in the table -/
def Covered (h : Array PC.Cell) (hd : Nat → Nat) (tab : Array NodeRec) (root : Nat) (cells : List Nat)
    (x : Nat) : Prop :=
  x < h.size ∧ ∃ id, id < tab.size ∧ _root_.Yaep.Reach tab root id ∧ cells.getD id 0 = hd x ∧
    (PC.isAlt h x = true → PC.isAlt h (hd x) = true ∧ x ∈ PC.chain0 h (hd x))

theorem covered_step {tab : Array NodeRec} {root : Nat} {cells : List Nat}
    (hwf : tableWF tab = true)
    (hrep : ∀ id, id < tab.size → RepAt (PC.toHeap h) tab cells id)
    (hcell : ∀ id, id < tab.size → cells.getD id 0 < h.size ∧ hd (cells.getD id 0) = cells.getD id 0)
    {y x : Nat} (hy : Covered h hd tab root cells y) (hx : x ∈ PC.succs h y) :
    Covered h hd tab root cells x := by
  obtain ⟨hylt, id, hid, hrid, hcid, hch⟩ := hy
  obtain ⟨ids, e1, e2, e3⟩ := hrep id hid
  have hkid : ∀ z, z ∈ cellKids (PC.toHeap h) (cells.getD id 0) →
      (tab.getD id .bad).children = ids → ∃ k, k < tab.size ∧ _root_.Yaep.Reach tab root k ∧
        cells.getD k 0 = z := by
    intro z hz hkids
    rw [← e2] at hz
    obtain ⟨k, hk, hkz⟩ := List.mem_map.1 hz
    refine ⟨k, by have := e3 k hk; omega, hrid.tail ?_, hkz⟩
    unfold kidsOf; rw [hkids]; exact hk
  cases hc : PC.cellAt h y with
  | anode nm c ks =>
    have hnal : PC.isAlt h y = false := by simp [PC.isAlt, hc]
    have hdy : hd y = y := wf.hd_self y hylt hnal
    rw [hdy] at hcid
    have hx' : x ∈ PC.kidsOf ks := by simpa [PC.succs, hc] using hx
    obtain ⟨a1, _, a3⟩ := (wf.anode y nm c ks hylt hc).2 x hx'
    rw [hcid] at e1 e2
    rw [cellRec_of_anode hc] at e1
    obtain ⟨k, k1, k2, k3⟩ := hkid x (by rw [hcid, cellKids_anode wf hc]; exact hx')
      (by rw [e1]; rfl)
    refine ⟨a1, k, k1, k2, by rw [k3, a3], ?_⟩
    intro hal
    rw [a3]
    refine ⟨hal, ?_⟩
    obtain ⟨t, ht⟩ := (PC.chain0_isChain wf a1 hal).head_eq
    rw [ht]; simp
  | alt nd nx =>
    have hal : PC.isAlt h y = true := by simp [PC.isAlt, hc]
    obtain ⟨hala, hmemy⟩ := hch hal
    have halt' : cells.getD id 0 < h.size := (hcell id hid).1
    rw [hcid] at halt' e1 e2
    have hchain := PC.chain0_isChain wf halt' hala
    rw [cellRec_of_alt hala] at e1
    obtain ⟨b1, b2, b3, b4⟩ := wf.alt y nd nx hylt hc
    have hx' : x = nd ∨ nx = some x := by
      cases nx with
      | none => left; simpa [PC.succs, hc] using hx
      | some j =>
        have : x = nd ∨ x = j := by simpa [PC.succs, hc] using hx
        rcases this with e | e
        · exact Or.inl e
        · exact Or.inr (by rw [e])
    rcases hx' with e | e
    · subst e
      have hdn : hd x = x := wf.hd_self x b1 b2
      have : x ∈ cellKids (PC.toHeap h) (hd y) := by
        rw [cellKids_alt wf halt' hala]
        refine List.mem_map.2 ⟨y, hmemy, ?_⟩
        simp [PC.altNode, hc]
      obtain ⟨k, k1, k2, k3⟩ := hkid x (by rw [hcid]; exact this) (by rw [e1]; rfl)
      refine ⟨b1, k, k1, k2, by rw [k3, hdn], ?_⟩
      intro hh; rw [b2] at hh; cases hh
    · subst e
      obtain ⟨c1, c2, _, c4⟩ := b4 x rfl
      refine ⟨c1, id, hid, hrid, by rw [hcid, c4], ?_⟩
      intro _
      rw [c4]
      exact ⟨hala, hchain.next_mem y hmemy nd x hc⟩
  | nil => simp [PC.succs, hc] at hx
  | err => simp [PC.succs, hc] at hx
  | term _ _ => simp [PC.succs, hc] at hx

end

section
variable {h : Array PC.Cell} {rk hd : Nat → Nat} (wf : PC.WfHeap h rk hd)
include wf

/-- **`free_tree` on the exported table of a well-formed heap**: the blocks released are, through
`cellOf`, exactly the cells reachable from the root, each once; one name block per name of a
reachable abstract node; the terminal callback once per reachable TERM cell -/
theorem export_free_bij {r : Nat} (hr : r < h.size) (hdr : hd r = r) {tab : Array NodeRec}
    {root : Nat} (hx : exportTable (PC.toHeap h) r = some (tab, root)) :
    ∃ cells : List Nat, cells.length = tab.size ∧ cells.getD root 0 = r ∧
      (∀ id, id < tab.size → RepAt (PC.toHeap h) tab cells id ∧ PC.Reach h r (cells.getD id 0)) ∧
      (freedBlocks (freeTree tab root)).Nodup ∧
      (∀ b ∈ freedBlocks (freeTree tab root), ∀ b' ∈ freedBlocks (freeTree tab root),
        isNameB b = false → isNameB b' = false → cellOf h cells b = cellOf h cells b' → b = b') ∧
      (∀ x, PC.Reach h r x ↔
        ∃ b ∈ freedBlocks (freeTree tab root), isNameB b = false ∧ cellOf h cells b = x) ∧
      (∀ b ∈ freedBlocks (freeTree tab root),
        (∀ k, b = .node k → PC.isAlt h (cellOf h cells b) = false) ∧
        (∀ k p, b = .cell k p → PC.isAlt h (cellOf h cells b) = true)) ∧
      (∀ nm, Block.name nm ∈ freedBlocks (freeTree tab root) ↔
        ∃ x c ks, PC.Reach h r x ∧ PC.cellAt h x = .anode nm c ks) ∧
      (termCalls (freeTree tab root)).Nodup ∧
      (∀ k, k ∈ termCalls (freeTree tab root) ↔
        Block.node k ∈ freedBlocks (freeTree tab root) ∧
          ∃ cd a, PC.cellAt h (cells.getD k 0) = .term cd a) := by
  obtain ⟨hwf, hroot⟩ := exportTable_wf hx
  obtain ⟨cells, hlen, _, hcr, hrep, hinj, hrch⟩ :=
    exportTable_bij (D := fun n => n < h.size) (fun n hn => by rw [PC.toHeap_size]; exact hn)
      (fun n hn k hk => (kid_props wf hn hk).1) hr hx
  obtain ⟨hnd, hmem, htnd, htmem⟩ := freeTree_exactly_once hwf hroot
  have hcell : ∀ id, id < tab.size →
      cells.getD id 0 < h.size ∧ hd (cells.getD id 0) = cells.getD id 0 ∧
        PC.Reach h r (cells.getD id 0) := fun id hid => kreach_props wf hr hdr (hrch id hid)
  have hlt_of_reach : ∀ k, _root_.Yaep.Reach tab root k → k < tab.size := by
    intro k hk; have := hk.le hwf; omega
  -- an ALT entry: its cell is a chain head, one alternative per chain cell
  have halt : ∀ k as, k < tab.size → tab.getD k .bad = .alt as →
      PC.isAlt h (cells.getD k 0) = true ∧ as.length = (PC.chain0 h (cells.getD k 0)).length := by
    intro k as hk he
    obtain ⟨ids, e1, e2, _⟩ := hrep k hk
    rw [he] at e1
    obtain ⟨a1, a2⟩ := (cellRec_kind _ _ _).1 as e1.symm
    rw [isAlt_toHeap] at a1
    refine ⟨a1, ?_⟩
    rw [a2, ← List.length_map (f := fun k => cells.getD k 0), e2,
      cellKids_alt wf (hcell k hk).1 a1, List.length_map]
  have hnalt : ∀ k, k < tab.size → (∀ as, tab.getD k .bad ≠ .alt as) →
      PC.isAlt h (cells.getD k 0) = false := by
    intro k hk hne
    cases hal : PC.isAlt h (cells.getD k 0) with
    | false => rfl
    | true =>
      obtain ⟨ids, e1, _, _⟩ := hrep k hk
      rw [cellRec_of_alt hal] at e1
      exact absurd e1 (hne ids)
  -- blocks
  have hnodeblk : ∀ k, Block.node k ∈ freedBlocks (freeTree tab root) →
      k < tab.size ∧ PC.isAlt h (cells.getD k 0) = false ∧ PC.Reach h r (cells.getD k 0) := by
    intro k hb
    obtain ⟨b1, b2⟩ := (hmem _).1 hb
    have hk := hlt_of_reach k b1
    exact ⟨hk, hnalt k hk b2, (hcell k hk).2.2⟩
  have hcellblk : ∀ k p, Block.cell k p ∈ freedBlocks (freeTree tab root) →
      k < tab.size ∧ PC.isAlt h (cells.getD k 0) = true ∧
      p < (PC.chain0 h (cells.getD k 0)).length ∧
      cellOf h cells (.cell k p) ∈ PC.chain0 h (cells.getD k 0) ∧
      PC.isAlt h (cellOf h cells (.cell k p)) = true ∧
      hd (cellOf h cells (.cell k p)) = cells.getD k 0 ∧
      PC.Reach h r (cellOf h cells (.cell k p)) := by
    intro k p hb
    obtain ⟨b1, as, b2, b3⟩ := (hmem _).1 hb
    have hk := hlt_of_reach k b1
    obtain ⟨a1, a2⟩ := halt k as hk b2
    have hp : p < (PC.chain0 h (cells.getD k 0)).length := by omega
    have hm : cellOf h cells (.cell k p) ∈ PC.chain0 h (cells.getD k 0) := getD_mem hp
    have hchain := PC.chain0_isChain wf (hcell k hk).1 a1
    obtain ⟨q1, q2, q3, _⟩ := hchain.props wf (hcell k hk).1 _ hm
    exact ⟨hk, a1, hp, hm, q2, by rw [q3]; exact (hcell k hk).2.1,
      (hcell k hk).2.2.trans (hchain.reach _ hm)⟩
  -- every reachable cell is covered
  have hcov : ∀ x, PC.Reach h r x → Covered h hd tab root cells x := by
    have key : ∀ a x, PC.Reach h a x → Covered h hd tab root cells a →
        Covered h hd tab root cells x := by
      intro a x hax
      induction hax with
      | refl _ => exact fun h => h
      | step e _ ih =>
        intro ha
        exact ih (covered_step wf hwf hrep (fun id hid => ⟨(hcell id hid).1, (hcell id hid).2.1⟩) ha e)
    intro x hx
    apply key r x hx
    refine ⟨hr, root, hroot, .refl _, by rw [hcr, hdr], ?_⟩
    intro hal
    rw [hdr]
    refine ⟨hal, ?_⟩
    obtain ⟨t, ht⟩ := (PC.chain0_isChain wf hr hal).head_eq
    rw [ht]; simp
  refine ⟨cells, hlen, hcr, fun id hid => ⟨hrep id hid, (hcell id hid).2.2⟩, hnd, ?_, ?_, ?_, ?_, htnd, ?_⟩
  · -- injectivity
    intro b hb b' hb' hn hn' he
    cases b with
    | name s => cases hn
    | node k =>
      obtain ⟨k1, k2, _⟩ := hnodeblk k hb
      cases b' with
      | name s => cases hn'
      | node k' =>
        obtain ⟨k1', _, _⟩ := hnodeblk k' hb'
        rw [hinj k k' k1 k1' he]
      | cell k' p' =>
        obtain ⟨_, _, _, _, q, _, _⟩ := hcellblk k' p' hb'
        rw [← he] at q
        have : cellOf h cells (.node k) = cells.getD k 0 := rfl
        rw [this, k2] at q; cases q
    | cell k p =>
      obtain ⟨k1, k2, k3, k4, k5, k6, _⟩ := hcellblk k p hb
      cases b' with
      | name s => cases hn'
      | node k' =>
        obtain ⟨_, q, _⟩ := hnodeblk k' hb'
        have : cellOf h cells (.node k') = cells.getD k' 0 := rfl
        rw [he, this, q] at k5; cases k5
      | cell k' p' =>
        obtain ⟨k1', _, k3', _, _, k6', _⟩ := hcellblk k' p' hb'
        rw [he, k6'] at k6
        have hkk := hinj k' k k1' k1 k6
        subst hkk
        have hchain := PC.chain0_isChain wf (hcell k' k1).1 k2
        have hpp := getD_inj_of_nodup (hchain.nodup wf (hcell k' k1).1) k3 k3' he
        rw [hpp]
  · -- the reachable cells
    intro x
    constructor
    · intro hx
      obtain ⟨hxlt, id, hid, hrid, hcid, hch⟩ := hcov x hx
      cases hal : PC.isAlt h x with
      | false =>
        have hdx : hd x = x := wf.hd_self x hxlt hal
        rw [hdx] at hcid
        refine ⟨.node id, (hmem _).2 ⟨hrid, ?_⟩, rfl, hcid⟩
        intro as he
        have := (halt id as hid he).1
        rw [hcid, hal] at this; cases this
      | true =>
        obtain ⟨hala, hm⟩ := hch hal
        obtain ⟨p, hp, hpx⟩ := getD_of_mem hm
        obtain ⟨ids, e1, e2, _⟩ := hrep id hid
        rw [hcid, cellRec_of_alt hala] at e1
        have hl := (halt id ids hid e1).2
        rw [hcid] at hl
        refine ⟨.cell id p, (hmem _).2 ⟨hrid, ids, e1, by omega⟩, rfl, ?_⟩
        show (PC.chain0 h (cells.getD id 0)).getD p 0 = x
        rw [hcid]; exact hpx
    · rintro ⟨b, hb, hn, he⟩
      cases b with
      | name s => cases hn
      | node k => rw [← he]; exact (hnodeblk k hb).2.2
      | cell k p => rw [← he]; exact (hcellblk k p hb).2.2.2.2.2.2
  · intro b hb
    refine ⟨?_, ?_⟩
    · intro k e; subst e; exact (hnodeblk k hb).2.1
    · intro k p e; subst e; exact (hcellblk k p hb).2.2.2.2.1
  · -- names
    intro nm
    rw [hmem]
    constructor
    · rintro ⟨k, c, ks, k1, k2⟩
      have hk := hlt_of_reach k k1
      obtain ⟨ids, e1, _, _⟩ := hrep k hk
      rw [k2] at e1
      obtain ⟨ks', a1, _⟩ := (cellRec_kind _ _ _).2.1 nm c ks e1.symm
      obtain ⟨c', hc'⟩ := anode_toHeap a1
      exact ⟨_, c', ks', (hcell k hk).2.2, hc'⟩
    · rintro ⟨x, c, ks, hx, hc⟩
      obtain ⟨hxlt, id, hid, hrid, hcid, _⟩ := hcov x hx
      have hal : PC.isAlt h x = false := by simp [PC.isAlt, hc]
      rw [wf.hd_self x hxlt hal] at hcid
      obtain ⟨ids, e1, _, _⟩ := hrep id hid
      rw [hcid, cellRec_of_anode hc] at e1
      exact ⟨id, _, ids, hrid, e1⟩
  · -- the terminal callback
    intro k
    rw [htmem, hmem]
    constructor
    · rintro ⟨k1, c, a, k2⟩
      have hk := hlt_of_reach k k1
      obtain ⟨ids, e1, _, _⟩ := hrep k hk
      rw [k2] at e1
      refine ⟨⟨k1, fun as he => by rw [k2] at he; cases he⟩, c, a, ?_⟩
      exact term_toHeap ((cellRec_kind _ _ _).2.2 c a e1.symm)
    · rintro ⟨⟨k1, _⟩, cd, a, hc⟩
      have hk := hlt_of_reach k k1
      obtain ⟨ids, e1, _, _⟩ := hrep k hk
      rw [cellRec_of_term hc] at e1
      exact ⟨k1, cd, a, e1⟩

end

end Yaep.NG
