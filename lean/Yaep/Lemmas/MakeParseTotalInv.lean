import Yaep.Lemmas.MakeParseTotalBase
/-!
# Totality of the model of `make_parse` in all-parses mode, part 2: the termination invariant

Every parse state on the stack is an item of the Earley set at its list index (`TStOK.item`); a
ghost `fin` records the end of the span of its rule instance.  The *exponent* of a state is
`rhoI lhs orig fin * (maxRhs + 1) + pos` (`rhoI` of `HeapWfBase`: length of the span, then the
rank of the nonterminal along unit steps): the states pushed for a candidate have a smaller
exponent than the state they are pushed for had before the step (`TStOK.child`, `TStOK.sibling`).
-/
namespace Yaep.MP
open Yaep

/-- the left-hand side of rule `r` -/
def ruleLhs (g : Grammar) (r : Nat) : Nat := (g.rules.getD r default).lhs

theorem ruleLhs_eq {g : Grammar} {r : Nat} {rl : Rule} (h : g.rules[r]? = some rl) : ruleLhs g r = rl.lhs := by
  unfold ruleLhs
  rw [List.getD_eq_getElem?_getD, h]; rfl

/-- the exponent of a parse state whose rule instance ends at `f` -/
noncomputable def expOf (g : Grammar) (st : PState) (f : Nat) : Nat :=
  rhoI g (ruleLhs g st.rule) st.orig f * (g.maxRhs + 1) + st.pos

/-- the termination invariant of one parse state, `f` the end of the span of its rule instance -/
structure TStOK (g : Grammar) (ok : Nat → Nat → Nat → Bool) (toks : List Nat) (st : PState) (f : Nat) :
    Prop where
  rule : ∃ rl, g.rules[st.rule]? = some rl ∧ st.pos ≤ rl.rhs.length ∧
    (st.pos ≠ 0 → st.plInd = f → ∀ j s, st.pos ≤ j → rl.rhs[j]? = some s → Der g [s] [])
  item : st.pos ≠ 0 → EarleyF g ok toks st.plInd ⟨st.rule, st.pos, st.orig⟩
  plLe : st.plInd ≤ f
  finLe : f ≤ toks.length

/-- ghost update -/
def setF (f : Nat → Nat) (i v : Nat) : Nat → Nat := fun x => if x = i then v else f x

theorem setF_same (f : Nat → Nat) (i v : Nat) : setF f i v i = v := by simp [setF]
theorem setF_ne (f : Nat → Nat) {i x : Nat} (v : Nat) (h : x ≠ i) : setF f i v x = f x := by simp [setF, h]

section
variable {g : Grammar} {ok : Nat → Nat → Nat → Bool} {toks : List Nat}

/-- the original state after the dot has moved over the nonterminal at `L.pos`, for the candidate
with origin `k` (also: its copy for that origin) -/
theorem TStOK.sibling {L : Loc} {rlX rl' : Rule} {sr k A hiX : Nat} {p : PState}
    (hr : g.rules[L.rule]? = some rlX) (hsym : rlX.rhs[L.pos]? = some (.n A))
    (hr' : g.rules[sr]? = some rl') (hlhs : rl'.lhs = A)
    (hE : EarleyF g ok toks L.plInd ⟨sr, rl'.rhs.length, k⟩)
    (hE2 : EarleyF g ok toks k ⟨L.rule, L.pos, L.orig⟩) (hple : L.plInd ≤ hiX) (hfin : hiX ≤ toks.length)
    (hsufX : L.plInd = hiX → ∀ j s, L.pos < j → rlX.rhs[j]? = some s → Der g [s] [])
    (p1 : p.rule = L.rule) (p2 : p.pos = L.pos) (p3 : p.orig = L.orig) (p4 : p.plInd = k) :
    TStOK g ok toks p hiX ∧
      expOf g p hiX = rhoI g rlX.lhs L.orig hiX * (g.maxRhs + 1) + L.pos := by
  have hlt := (List.getElem?_eq_some_iff.mp hsym).1
  obtain ⟨_, _, _, hle1, _⟩ := hE.sound
  simp only at hle1
  refine ⟨⟨⟨rlX, by rw [p1]; exact hr, by rw [p2]; omega, ?_⟩, ?_, by rw [p4]; omega, hfin⟩, ?_⟩
  · intro _ hk j s hj hs
    rw [p4] at hk; rw [p2] at hj
    exact cand_suf hsym hr' hlhs hE hple hsufX hk j s hj hs
  · intro _
    rw [p1, p2, p3, p4]; exact hE2
  · unfold expOf
    rw [p1, p2, p3, ruleLhs_eq hr]

/-- the state pushed for the candidate `(sr, k)`: its exponent is below that of the rule instance
it is attached to -/
theorem TStOK.child (hcyc : ¬ Cyclic g) (hsr : g.symsInRange = true) {L : Loc} {rlX rl' : Rule}
    {sr k A hiX : Nat} {q : PState}
    (hr : g.rules[L.rule]? = some rlX) (hsym : rlX.rhs[L.pos]? = some (.n A))
    (hr' : g.rules[sr]? = some rl') (hlhs : rl'.lhs = A)
    (hE : EarleyF g ok toks L.plInd ⟨sr, rl'.rhs.length, k⟩)
    (hE2 : EarleyF g ok toks k ⟨L.rule, L.pos, L.orig⟩) (hple : L.plInd ≤ hiX) (hfin : hiX ≤ toks.length)
    (hsufX : L.plInd = hiX → ∀ j s, L.pos < j → rlX.rhs[j]? = some s → Der g [s] [])
    (q1 : q.rule = sr) (q2 : q.pos = rl'.rhs.length) (q3 : q.orig = k) (q4 : q.plInd = L.plInd) :
    TStOK g ok toks q L.plInd ∧
      expOf g q L.plInd < rhoI g rlX.lhs L.orig hiX * (g.maxRhs + 1) := by
  have hbelow := cand_below hr hsym hE hE2 hple hsufX
  have hrho := hbelow.rho_lt hcyc hsr
  have hlen : rl'.rhs.length ≤ g.maxRhs := le_maxRhs (List.mem_of_getElem? hr')
  refine ⟨⟨⟨rl', by rw [q1]; exact hr', by rw [q2]; exact Nat.le_refl _, ?_⟩, ?_, by rw [q4]; exact Nat.le_refl _,
    Nat.le_trans hple hfin⟩, ?_⟩
  · intro _ _ j s hj hs
    rw [q2] at hj
    have := (List.getElem?_eq_some_iff.mp hs).1
    omega
  · intro _
    rw [q1, q2, q3, q4]; exact hE
  · unfold expOf
    rw [q1, q2, q3, ruleLhs_eq hr', hlhs]
    have h1 : rhoI g A k L.plInd + 1 ≤ rhoI g rlX.lhs L.orig hiX := hrho
    have h2 := Nat.mul_le_mul_right (g.maxRhs + 1) h1
    rw [Nat.add_mul] at h2
    omega

end

/-! ## the invariant of the machine state -/

/-- the termination invariant: the stack is sorted, every state on it satisfies `TStOK`, the
bottom of the stack is state `1` (the state of the rule of the axiom), which has no abstract node
and delivers into the result slot -/
structure TInv (g : Grammar) (ok : Nat → Nat → Nat → Bool) (toks : List Nat) (s : St) (fin : Nat → Nat) :
    Prop where
  sorted : s.stack.Pairwise (· > ·)
  sts : ∀ sid ∈ s.stack, sid < s.states.size ∧ TStOK g ok toks (s.state sid) (fin sid)
  tn : toks.length ≤ s.termNodes.size
  pos1 : ∀ sid ∈ s.stack, 1 ≤ sid
  one : s.stack ≠ [] → 1 ∈ s.stack
  st1 : (s.state 1).anode = none ∧ (s.state 1).parent = 0 ∧ (s.state 1).parentDisp = 0

/-- the potential of a machine state -/
noncomputable def tpot (g : Grammar) (K : Nat) (fin : Nat → Nat) (s : St) : Nat :=
  pot K (fun x => expOf g (s.state x) (fin x)) s.stack

/-! ## the invariant between two candidates -/

/-- the states and the stack while the candidates of the nonterminal at `L.pos` of the top state
`X` of `s` are tried, after at least one candidate: at most `m` new states above `X`, all of an
exponent below `E`; `X` has moved its dot -/
structure TLc (g : Grammar) (ok : Nat → Nat → Nat → Bool) (toks : List Nat) (s : St) (X : Nat)
    (rest : List Nat) (fin : Nat → Nat) (L : Loc) (E : Nat) (m : Nat) (sts : Array PState)
    (stack : List Nat) (f : Nat → Nat) : Prop where
  shape : ∃ new, stack = new ++ X :: rest ∧ new.length ≤ m ∧ ∀ y ∈ new, s.states.size ≤ y ∧
    TStOK g ok toks (sts.getD y default) (f y) ∧ expOf g (sts.getD y default) (f y) < E
  sorted : stack.Pairwise (· > ·)
  lt : ∀ y ∈ stack, y < sts.size
  size : s.states.size ≤ sts.size
  old : ∀ x, x < s.states.size → x ≠ X → sts.getD x default = s.states.getD x default
  finOld : ∀ x, x < s.states.size → f x = fin x
  top : (sts.getD X default).rule = L.rule ∧ (sts.getD X default).pos = L.pos ∧
    (sts.getD X default).orig = L.orig ∧ (sts.getD X default).anode = (s.state X).anode ∧
    (sts.getD X default).parent = (s.state X).parent ∧
    (sts.getD X default).parentDisp = (s.state X).parentDisp
  topOK : TStOK g ok toks (sts.getD X default) (fin X) ∧ expOf g (sts.getD X default) (fin X) < E

section
variable {g : Grammar} {ok : Nat → Nat → Nat → Bool} {toks : List Nat} {s : St} {X : Nat}
  {rest : List Nat} {fin : Nat → Nat} {L : Loc} {E : Nat}

theorem TLc.mono {m m' : Nat} {sts : Array PState} {stack : List Nat} {f : Nat → Nat}
    (h : TLc g ok toks s X rest fin L E m sts stack f) (hm : m ≤ m') :
    TLc g ok toks s X rest fin L E m' sts stack f := by
  obtain ⟨new, h1, h2, h3⟩ := h.shape
  exact ⟨⟨new, h1, Nat.le_trans h2 hm, h3⟩, h.sorted, h.lt, h.size, h.old, h.finOld, h.top, h.topOK⟩

/-- a state is pushed -/
theorem TLc.push {m : Nat} {sts : Array PState} {stack : List Nat} {f : Nat → Nat}
    (h : TLc g ok toks s X rest fin L E m sts stack f) (hX : X < s.states.size) {p : PState} {v : Nat}
    (hp : TStOK g ok toks p v) (he : expOf g p v < E) :
    TLc g ok toks s X rest fin L E (m + 1) (sts.push p) (sts.size :: stack) (setF f sts.size v) := by
  obtain ⟨new, h1, h2, h3⟩ := h.shape
  have hsz := h.size
  have hXlt : X < sts.size := by omega
  have hgX : (sts.push p).getD X default = sts.getD X default := getD_push_lt _ _ _ _ hXlt
  refine ⟨⟨sts.size :: new, by rw [h1]; rfl, by simp only [List.length_cons]; omega, ?_⟩, ?_, ?_, ?_, ?_, ?_, ?_, ?_⟩
  · intro y hy
    rcases List.mem_cons.mp hy with rfl | hy
    · rw [getD_push_eq, setF_same]; exact ⟨hsz, hp, he⟩
    · have hylt : y < sts.size := h.lt y (by rw [h1]; exact List.mem_append_left _ hy)
      rw [getD_push_lt _ _ _ _ hylt, setF_ne _ _ (by omega)]
      exact h3 y hy
  · exact List.pairwise_cons.mpr ⟨fun y hy => h.lt y hy, h.sorted⟩
  · intro y hy
    rw [Array.size_push]
    rcases List.mem_cons.mp hy with rfl | hy
    · omega
    · have := h.lt y hy; omega
  · rw [Array.size_push]; omega
  · intro x hx hne
    rw [getD_push_lt _ _ _ _ (by omega)]; exact h.old x hx hne
  · intro x hx
    rw [setF_ne _ _ (by omega)]; exact h.finOld x hx
  · rw [hgX]; exact h.top
  · rw [hgX]; exact h.topOK

end

end Yaep.MP
