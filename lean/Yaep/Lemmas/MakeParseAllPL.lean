import Yaep.Lemmas.MakeParseAllMain
import Yaep.Lemmas.MakeParseSoundPL
/-!
# All-parses mode: the parse list of `build_pl` satisfies the hypotheses
-/
namespace Yaep.MP
open Yaep

theorem ctxAll_plSets {g : Grammar} {la : Nat} {w : List Nat} (hacc : (BS.buildPLC g la w).1 = none) :
    CtxAll g (laFilter g g.analysis la (w ++ [g.eofT])) (w ++ [g.eofT])
      (mkCtx g (plSets g la w) (plTokNums w) false) := by
  have h := ctxOK_plSets hacc
  exact ⟨rfl, rfl, rfl, rfl, rfl, h.size, h.sound, h.ptoks⟩

end Yaep.MP
