import Yaep.Lemmas.PruneCMain
/-!
# The unfolding of a heap cell (`unfoldC`) is the unfolding of the exported table
(`MP.exportTable` + `unfoldAt`)
-/
namespace Yaep.PC
open Yaep MP

theorem toHeap_size (h : Array Cell) : (toHeap h).size = h.size := by simp [toHeap]

theorem toHeap_getD (h : Array Cell) (n : Nat) : (toHeap h).getD n .nil = toMNode (cellAt h n) := by
  simp only [toHeap, cellAt, Array.getD_eq_getD_getElem?, Array.getElem?_map]
  cases h[n]? <;> rfl

theorem altChain_isChain {h : Array Cell} {a : Nat} {l : List Nat} (hc : IsChain h a l) :
    ∀ fuel, l.length ≤ fuel → altChain (toHeap h) fuel (some a) = l.map (altNode h) := by
  induction hc with
  | @last a nd e =>
    intro fuel hf
    obtain ⟨f, rfl⟩ : ∃ f, fuel = f + 1 := ⟨fuel - 1, by simp at hf; omega⟩
    simp only [altChain, toHeap_getD, e, toMNode, List.map_cons, List.map_nil, altNode]
    cases f <;> rfl
  | @cons a nd j l e hl ih =>
    intro fuel hf
    obtain ⟨f, rfl⟩ : ∃ f, fuel = f + 1 := ⟨fuel - 1, by simp at hf; omega⟩
    simp only [altChain, toHeap_getD, e, toMNode, List.map_cons, altNode]
    rw [ih f (by simp at hf; omega)]

section
variable {h : Array Cell} {rk hd : Nat → Nat} (wf : WfHeap h rk hd)
include wf

/-- the forest of a cell in terms of what the exporter looks at -/
theorem U_export {n : Nat} (hn : n < h.size) :
    U h rk n =
      match cellRec (toHeap h) n ((cellKids (toHeap h) n)) with
      | .nil => .nil
      | .err => .err
      | .term c a => .term c a
      | .anode nm c ks => .anode nm c (ks.map (U h rk))
      | .alt as => .alt (as.map (U h rk))
      | .bad => .alt [] := by
  cases hc : cellAt h n with
  | anode nm c ks =>
    rw [U_anode wf hn hc]
    simp only [cellRec, cellKids, toHeap_getD, hc, toMNode]
    rfl
  | alt nd nx =>
    have hal : isAlt h n = true := by simp [isAlt, hc]
    have hch := chain0_isChain wf hn hal
    rw [U_alt wf hn hal]
    simp only [cellRec, cellKids, toHeap_getD, hc, toMNode]
    rw [altChain_isChain hch _ (by
      have := hch.length_le wf hn
      have := wf.rk_lt n hn
      rw [toHeap_size]; omega), List.map_map]
    rfl
  | nil =>
    rw [U_leaf (by simp [isAlt, hc]) (by simp [isAnode, hc]), hc]
    simp only [cellRec, toHeap_getD, hc, toMNode]
  | err =>
    rw [U_leaf (by simp [isAlt, hc]) (by simp [isAnode, hc]), hc]
    simp only [cellRec, toHeap_getD, hc, toMNode]
  | term cd att =>
    rw [U_leaf (by simp [isAlt, hc]) (by simp [isAnode, hc]), hc]
    simp only [cellRec, toHeap_getD, hc, toMNode]

/-- the children the exporter visits are cells of the heap -/
theorem cellKids_lt {n : Nat} (hn : n < h.size) : ∀ k ∈ cellKids (toHeap h) n, k < h.size := by
  intro k hk
  cases hc : cellAt h n with
  | anode nm c ks =>
    simp only [cellKids, toHeap_getD, hc, toMNode] at hk
    exact ((wf.anode n nm c ks hn hc).2 k hk).1
  | alt nd nx =>
    have hal : isAlt h n = true := by simp [isAlt, hc]
    have hch := chain0_isChain wf hn hal
    simp only [cellKids, toHeap_getD, hc, toMNode] at hk
    rw [altChain_isChain hch _ (by
      have := hch.length_le wf hn
      have := wf.rk_lt n hn
      rw [toHeap_size]; omega)] at hk
    obtain ⟨j, hj, rfl⟩ := List.mem_map.1 hk
    obtain ⟨q1, q2, -, -⟩ := hch.props wf hn j hj
    exact (altNode_props wf q1 q2).1
  | nil => simp only [cellKids, toHeap_getD, hc, toMNode] at hk; cases hk
  | err => simp only [cellKids, toHeap_getD, hc, toMNode] at hk; cases hk
  | term _ _ => simp only [cellKids, toHeap_getD, hc, toMNode] at hk; cases hk

end

/-! ## the table only grows -/

/-- `out'` extends `out` -/
def Ext (out out' : Array NodeRec) : Prop :=
  out.size ≤ out'.size ∧ ∀ i, i < out.size → out'.getD i .bad = out.getD i .bad

theorem Ext.refl (out : Array NodeRec) : Ext out out := ⟨Nat.le_refl _, fun _ _ => rfl⟩

theorem Ext.trans {a b c : Array NodeRec} (h1 : Ext a b) (h2 : Ext b c) : Ext a c :=
  ⟨Nat.le_trans h1.1 h2.1, fun i hi => by rw [h2.2 i (by have := h1.1; omega), h1.2 i hi]⟩

theorem Ext.push (out : Array NodeRec) (r : NodeRec) : Ext out (out.push r) :=
  ⟨by simp, fun i hi => getD_push_lt _ _ _ _ hi⟩

/-- an entry of a well-formed table unfolds to the same forest in every extension, whatever
the fuel -/
theorem unfold_ext {out out' : Array NodeRec} (hw : WFout out) (he : Ext out out') :
    ∀ (i : Nat), i < out.size → ∀ f f', i < f → i < f' → unfold out' f i = unfold out f' i := by
  intro i
  induction i using Nat.strongRecOn with
  | _ i ih =>
    intro hi f f' h1 h2
    obtain ⟨f, rfl⟩ : ∃ g, f = g + 1 := ⟨f - 1, by omega⟩
    obtain ⟨f', rfl⟩ : ∃ g, f' = g + 1 := ⟨f' - 1, by omega⟩
    have hi' : i < out'.size := by have := he.1; omega
    simp only [unfold, hi, hi', if_true, he.2 i hi]
    have hk := hw i hi
    have key : ∀ ks : List Nat, (∀ k ∈ ks, k < i) → ks.map (unfold out' f) = ks.map (unfold out f') := by
      intro ks hks
      exact List.map_congr_left fun k hk' =>
        ih k (hks k hk') (by have := hks k hk'; omega) f f' (by have := hks k hk'; omega)
          (by have := hks k hk'; omega)
    cases e : out.getD i .bad with
    | anode n c ks => rw [e] at hk; simp only [key ks hk]
    | alt as => rw [e] at hk; simp only [key as hk]
    | _ => rfl

/-! ## the exporter, for any heap whose cells in `D` have the "value" `V` -/

/-- the forest of an exported line, given the forests of its children -/
def recNode (r : NodeRec) (V : Nat → Node) : Node :=
  match r with
  | .nil => .nil
  | .err => .err
  | .term c a => .term c a
  | .anode nm c ks => .anode nm c (ks.map V)
  | .alt as => .alt (as.map V)
  | .bad => .alt []

section
variable (hM : Array MNode) (D : Nat → Prop) (V : Nat → Node)

/-- the exported numbers are entries that unfold to the value of their cell -/
def GoodEx (ex : ExSt) : Prop :=
  WFout ex.out ∧ ∀ n id, ex.ids.getD n none = some id →
    D n ∧ id < ex.out.size ∧ unfoldAt ex.out id = V n

structure StepU (ex : ExSt) (n : Nat) (r : ExSt × Nat) : Prop where
  cyc : ex.cycle = true → r.1.cycle = true
  ok : GoodEx D V ex → D n → r.1.cycle = false →
    Ext ex.out r.1.out ∧ GoodEx D V r.1 ∧ r.2 < r.1.out.size ∧ unfoldAt r.1.out r.2 = V n

structure StepsU (ex : ExSt) (ks acc : List Nat) (r : ExSt × List Nat) : Prop where
  cyc : ex.cycle = true → r.1.cycle = true
  ok : GoodEx D V ex → (∀ k ∈ ks, D k) → r.1.cycle = false →
    Ext ex.out r.1.out ∧ GoodEx D V r.1 ∧
      ∃ ids, r.2 = acc ++ ids ∧ ids.map (unfoldAt r.1.out) = ks.map V ∧
        ∀ id ∈ ids, id < r.1.out.size

end

section
variable {hM : Array MNode} {D : Nat → Prop} {V : Nat → Node}

theorem unfoldAt_ext {out out' : Array NodeRec} (hw : WFout out) (he : Ext out out') {i : Nat}
    (hi : i < out.size) : unfoldAt out' i = unfoldAt out i :=
  unfold_ext hw he i hi _ _ (Nat.lt_succ_self _) (Nat.lt_succ_self _)

theorem exportKids_stepsU (f : ExSt → Nat → ExSt × Nat) (hf : ∀ ex k, StepU D V ex k (f ex k)) :
    ∀ (ks : List Nat) (ex : ExSt) (acc : List Nat), StepsU D V ex ks acc (exportKids f ks ex acc)
  | [], ex, acc => by
    refine ⟨fun hc => hc, fun hg _ _ => ⟨Ext.refl _, hg, [], by simp [exportKids], rfl, by simp⟩⟩
  | k :: ks, ex, acc => by
    have h1 := hf ex k
    have h2 := exportKids_stepsU f hf ks (f ex k).1 (acc ++ [(f ex k).2])
    show StepsU D V ex (k :: ks) acc (exportKids f ks (f ex k).1 (acc ++ [(f ex k).2]))
    refine ⟨fun hc => h2.cyc (h1.cyc hc), ?_⟩
    intro hg hks hc
    have hc1 : (f ex k).1.cycle = false := by
      cases hx : (f ex k).1.cycle with
      | false => rfl
      | true => rw [h2.cyc hx] at hc; cases hc
    obtain ⟨e1, g1, b1, u1⟩ := h1.ok hg (hks k (by simp)) hc1
    obtain ⟨e2, g2, ids, r2, m2, b2⟩ := h2.ok g1 (fun x hx => hks x (by simp [hx])) hc
    refine ⟨e1.trans e2, g2, (f ex k).2 :: ids, by rw [r2]; simp, ?_, ?_⟩
    · simp only [List.map_cons, m2]
      rw [unfoldAt_ext g1.1 e2 b1, u1]
    · intro id hid
      rcases List.mem_cons.1 hid with rfl | hid
      · have := e2.1; omega
      · exact b2 id hid

theorem unfold_succ_rec (out : Array NodeRec) (f i : Nat) (hi : i < out.size) :
    unfold out (f + 1) i = recNode (out.getD i .bad) (unfold out f) := by
  simp only [unfold, hi, if_true, recNode]
  cases out.getD i .bad <;> rfl

theorem recNode_cellRec (n : Nat) (ids : List Nat) (W : Nat → Node) :
    recNode (cellRec hM n ids) W =
      match hM.getD n .nil with
      | .nil => .nil
      | .err => .err
      | .term c a => .term c a
      | .anode nm c _ => .anode nm c (ids.map W)
      | .alt _ _ => .alt (ids.map W) := by
  unfold cellRec recNode
  cases hM.getD n .nil <;> rfl

/-- one call of the exporter, when the value of every cell in `D` is determined by the values of
the cells the exporter visits from it (`hV`) and these are in `D` again (`hD`) -/
theorem exportNode_stepU
    (hV : ∀ n, D n → V n = recNode (cellRec hM n (cellKids hM n)) V)
    (hD : ∀ n, D n → ∀ k ∈ cellKids hM n, D k) :
    ∀ (fuel : Nat) (ex : ExSt) (n : Nat), StepU D V ex n (exportNode hM fuel ex n)
  | 0, ex, n => by
    unfold exportNode
    exact ⟨fun _ => rfl, fun _ _ hc => by simp at hc⟩
  | fuel + 1, ex, n => by
    unfold exportNode
    split
    · rename_i id hid
      refine ⟨fun hc => hc, fun hg _ _ => ?_⟩
      obtain ⟨-, a2, a3⟩ := hg.2 n id hid
      exact ⟨Ext.refl _, hg, a2, a3⟩
    · split
      · exact ⟨fun _ => rfl, fun _ _ hc => by simp at hc⟩
      · have hk := exportKids_stepsU (D := D) (V := V) (exportNode hM fuel)
          (exportNode_stepU hV hD fuel) (cellKids hM n)
          { ex with visiting := ex.visiting.set! n true } []
        generalize exportKids (exportNode hM fuel) (cellKids hM n)
          { ex with visiting := ex.visiting.set! n true } [] = p at hk
        refine ⟨fun hc => hk.cyc hc, ?_⟩
        intro hg hn hc
        have hc' : p.1.cycle = false := hc
        obtain ⟨e1, g1, ids, r1, m1, b1⟩ := hk.ok hg (hD n hn) hc'
        simp only [List.nil_append] at r1
        have ePush := Ext.push p.1.out (cellRec hM n p.2)
        -- the new entry
        have hnew : unfoldAt (p.1.out.push (cellRec hM n p.2)) p.1.out.size = V n := by
          unfold unfoldAt
          rw [unfold_succ_rec _ _ _ (by simp), getD_push_eq, hV n hn, recNode_cellRec, recNode_cellRec]
          have hmap : ids.map (unfold (p.1.out.push (cellRec hM n p.2)) p.1.out.size) =
              (cellKids hM n).map V := by
            rw [← m1]
            apply List.map_congr_left
            intro id hid
            exact unfold_ext g1.1 ePush id (b1 id hid) _ _ (b1 id hid) (Nat.lt_succ_self _)
          rw [r1] at hmap ⊢
          rw [hmap]
        have hwf : WFout (p.1.out.push (cellRec hM n p.2)) := by
          intro i hi k hkm
          simp only [Array.size_push] at hi
          by_cases hlt : i < p.1.out.size
          · rw [getD_push_lt _ _ _ _ hlt] at hkm
            exact g1.1 i hlt k hkm
          · have : i = p.1.out.size := by omega
            subst this
            rw [getD_push_eq] at hkm
            have := cellRec_children hM n p.2 k hkm
            rw [r1] at this
            exact b1 k this
        refine ⟨e1.trans ePush, ⟨hwf, ?_⟩, by simp, hnew⟩
        intro m id hm
        simp only
        rw [getD_set!] at hm
        split at hm
        · rename_i hcond
          injection hm with hm
          subst hm
          rw [← hcond.1]
          exact ⟨hn, by simp, hnew⟩
        · obtain ⟨a1, a2, a3⟩ := g1.2 m id hm
          exact ⟨a1, by simp; omega, by rw [unfoldAt_ext g1.1 ePush a2]; exact a3⟩

/-- the exported table unfolds to the value of the root -/
theorem export_value
    (hV : ∀ n, D n → V n = recNode (cellRec hM n (cellKids hM n)) V)
    (hD : ∀ n, D n → ∀ k ∈ cellKids hM n, D k) {root : Nat} (hr : D root)
    {tab : Array NodeRec} {r : Nat} (hx : exportTable hM root = some (tab, r)) :
    unfoldAt tab r = V root := by
  unfold exportTable at hx
  have hs := exportNode_stepU hV hD (hM.size + 1)
    { ids := Array.replicate hM.size none, visiting := Array.replicate hM.size false } root
  generalize exportNode hM (hM.size + 1)
    { ids := Array.replicate hM.size none, visiting := Array.replicate hM.size false } root = p
    at hs hx
  have hg : GoodEx D V { ids := Array.replicate hM.size none, visiting := Array.replicate hM.size false } := by
    constructor
    · intro i hi; simp at hi
    · intro n id hn
      simp [Array.getD_eq_getD_getElem?, Array.getElem?_replicate] at hn
      split at hn <;> simp at hn
  obtain ⟨ex, rr⟩ := p
  simp only at hx
  split at hx
  · cases hx
  · rename_i hc
    simp at hx
    obtain ⟨h1, h2⟩ := hx
    subst h1; subst h2
    have hc' : ex.cycle = false := by simpa using hc
    exact (hs.ok hg hr hc').2.2.2

end

/-- **the exported table unfolds to the forest of the heap** (well-formed heaps) -/
theorem unfoldC_eq_export {h : Array Cell} {rk hd : Nat → Nat} (wf : WfHeap h rk hd) {root : Nat}
    (hr : root < h.size) {tab : Array NodeRec} {r : Nat}
    (hx : exportTable (toHeap h) root = some (tab, r)) :
    unfoldAt tab r = unfoldC h h.size root := by
  rw [← U_eq_unfoldC wf hr]
  refine export_value (D := fun n => n < h.size) (V := U h rk) ?_ (fun n hn => cellKids_lt wf hn) hr hx
  intro n hn
  rw [U_export wf hn]
  rfl

end Yaep.PC
