import Yaep.Lemmas.DescrParse
import Yaep.Lemmas.Saturate
import Yaep.Lemmas.Api
/-!
# `set_sgrammar`: duplicate elimination and implicit codes
-/
namespace Yaep

/-! ## `nextFree` -/

theorem nextFree_least (U : List Int) :
    ∀ (j fuel c : Nat), j < fuel → ((c + j : Nat) : Int) ∉ U →
      (∀ i, i < j → ((c + i : Nat) : Int) ∈ U) → nextFree U fuel c = c + j := by
  intro j
  induction j with
  | zero =>
    intro fuel c hf hfree _
    obtain ⟨f, rfl⟩ : ∃ f, fuel = f + 1 := ⟨fuel - 1, by omega⟩
    unfold nextFree
    rw [if_neg]
    · rfl
    · simpa using hfree
  | succ j ih =>
    intro fuel c hf hfree hused
    obtain ⟨f, rfl⟩ : ∃ f, fuel = f + 1 := ⟨fuel - 1, by omega⟩
    unfold nextFree
    rw [if_pos]
    · rw [ih f (c + 1) (by omega)]
      · omega
      · have : c + 1 + j = c + (j + 1) := by omega
        rw [this]; exact hfree
      · intro i hi
        have : c + 1 + i = c + (i + 1) := by omega
        rw [this]; exact hused (i + 1) (by omega)
    · have := hused 0 (by omega)
      simpa using this

/-- among `n + 1` consecutive numbers one is not in a list of length `n` -/
theorem exists_free (U : List Int) (c : Nat) :
    ∃ j, j ≤ U.length ∧ ((c + j : Nat) : Int) ∉ U := by
  apply Classical.byContradiction
  intro hno
  have hall : ∀ j, j ≤ U.length → ((c + j : Nat) : Int) ∈ U := by
    intro j hj
    apply Classical.byContradiction
    intro hn
    exact hno ⟨j, hj, hn⟩
  have hsub : (List.range (U.length + 1)).map (fun j => ((c + j : Nat) : Int)) ⊆ U := by
    intro x hx
    obtain ⟨j, hj, rfl⟩ := List.mem_map.mp hx
    exact hall j (Nat.le_of_lt_succ (List.mem_range.mp hj))
  have hnd : ((List.range (U.length + 1)).map (fun j => ((c + j : Nat) : Int))).Nodup := by
    unfold List.Nodup
    rw [List.pairwise_map]
    refine List.Pairwise.imp ?_ List.nodup_range
    intro a b hab heq
    have : c + a = c + b := by exact_mod_cast heq
    omega
  have := nodup_subset_length hnd hsub
  simp only [List.length_map, List.length_range] at this
  omega

/-- the least one -/
theorem exists_least_free (U : List Int) (c : Nat) :
    ∃ j, j ≤ U.length ∧ ((c + j : Nat) : Int) ∉ U ∧ ∀ i, i < j → ((c + i : Nat) : Int) ∈ U := by
  obtain ⟨j0, hj0, hfree0⟩ := exists_free U c
  cases hf : (List.range (U.length + 1)).find? (fun j => !(U.contains ((c + j : Nat) : Int))) with
  | none =>
    have := List.find?_eq_none.mp hf j0 (List.mem_range.mpr (Nat.lt_succ_of_le hj0))
    simp at this
    exact absurd this hfree0
  | some j =>
    obtain ⟨h1, h2, h3⟩ := find?_range_eq_some.mp hf
    refine ⟨j, Nat.le_of_lt_succ h1, by simpa using h2, fun i hi => ?_⟩
    have := h3 i hi
    simpa using this

theorem nextFree_spec (U : List Int) (c : Nat) :
    ∃ j, j ≤ U.length ∧ nextFree U (U.length + 1) c = c + j ∧ ((c + j : Nat) : Int) ∉ U ∧
      ∀ i, i < j → ((c + i : Nat) : Int) ∈ U := by
  obtain ⟨j, h1, h2, h3⟩ := exists_least_free U c
  exact ⟨j, h1, nextFree_least U j _ c (Nat.lt_succ_of_le h1) h2 h3, h2, h3⟩

/-- the spec's `leastFree` is the least free code as well -/
theorem leastFree_spec (used : List Nat) (n : Nat) :
    ∃ j, j ≤ used.length ∧ leastFree used n = n + j ∧ n + j ∉ used ∧
      ∀ i, i < j → n + i ∈ used := by
  obtain ⟨j0, hj0, hfree0⟩ := exists_free (used.map (fun k : Nat => (k : Int))) n
  rw [List.length_map] at hj0
  have hfree0' : n + j0 ∉ used := by
    intro hm
    exact hfree0 (List.mem_map.mpr ⟨n + j0, hm, rfl⟩)
  unfold leastFree
  cases hf : (List.range (used.length + 1)).find? (fun i => !(used.contains (n + i))) with
  | none =>
    have := List.find?_eq_none.mp hf j0 (List.mem_range.mpr (Nat.lt_succ_of_le hj0))
    simp at this
    exact absurd this hfree0'
  | some j =>
    obtain ⟨h1, h2, h3⟩ := find?_range_eq_some.mp hf
    refine ⟨j, Nat.le_of_lt_succ h1, rfl, by simpa using h2, fun i hi => ?_⟩
    have := h3 i hi
    simpa using this

/-! ## `dedupTerms` -/

theorem dedupTerms_error (l : List STerm) : ∀ (acc : List STerm) (e : Nat),
    dedupTerms l acc = .error e → e = 7 := by
  induction l with
  | nil => intro acc e h; cases h
  | cons t rest ih =>
    intro acc e h
    unfold dedupTerms at h
    split at h
    · exact ih _ e h
    · split at h
      · simp only [Except.error.injEq] at h; exact h.symm
      · split at h
        · exact ih _ e h
        · exact ih _ e h

theorem declSTerm_code_neg {p : String × Option Nat} :
    ((declSTerm p).code == -1) = true ↔ p.2 = Option.none := by
  obtain ⟨n, k⟩ := p
  cases k with
  | none => simp [declSTerm]
  | some k =>
    simp only [declSTerm, beq_iff_eq, reduceCtorEq]

theorem declSTerm_inj_code {p q : String × Option Nat} (h : p.2 = q.2) :
    (declSTerm p).code = (declSTerm q).code := by
  unfold declSTerm
  rw [h]

theorem find?_declSTerm {accO : List (String × Option Nat)} {nm : String} :
    (accO.map declSTerm).find? (fun x => x.name == nm) =
      (accO.find? (fun q => q.1 == nm)).map declSTerm := by
  induction accO with
  | nil => rfl
  | cons q qs ih =>
    simp only [List.map_cons, List.find?_cons]
    have : (declSTerm q).name = q.1 := rfl
    rw [this]
    cases hq : (q.1 == nm) with
    | true => rfl
    | false => exact ih

/-- on consistent occurrences `dedupTerms` keeps the first occurrence of every name -/
theorem dedupTerms_firstOccs (l : List (String × Option Nat)) :
    ∀ (accO : List (String × Option Nat)) (seen : List String),
      (∀ x, x ∈ seen ↔ x ∈ accO.map (·.1)) →
      (∀ q ∈ accO ++ l, ∀ p ∈ accO ++ l, q.1 = p.1 → q.2 = p.2) →
      dedupTerms (l.map declSTerm) (accO.map declSTerm) =
        .ok ((accO ++ firstOccs l seen).map declSTerm) := by
  induction l with
  | nil =>
    intro accO seen _ _
    simp [dedupTerms, firstOccs]
  | cons p rest ih =>
    intro accO seen hseen hcons
    rw [List.map_cons, dedupTerms, find?_declSTerm]
    have hname : (declSTerm p).name = p.1 := rfl
    rw [hname]
    cases hf : accO.find? (fun q => q.1 == p.1) with
    | none =>
      have hnot : p.1 ∉ accO.map (·.1) := by
        intro hm
        obtain ⟨q, hq, hqn⟩ := List.mem_map.mp hm
        have := List.find?_eq_none.mp hf q hq
        simp [hqn] at this
      have hcont : p.1 ∉ seen := fun hm => hnot ((hseen _).mp hm)
      simp only [Option.map_none]
      have hmap : accO.map declSTerm ++ [declSTerm p] = (accO ++ [p]).map declSTerm := by simp
      rw [hmap, ih (accO ++ [p]) (p.1 :: seen)]
      · simp [firstOccs, hcont]
      · intro x
        simp [hseen, or_comm]
      · intro q hq p' hp'
        apply hcons
        · simpa [List.append_assoc] using hq
        · simpa [List.append_assoc] using hp'
    | some e =>
      have he := List.find?_some hf
      have hemem := List.mem_of_find?_eq_some hf
      simp only [beq_iff_eq] at he
      have hcode : e.2 = p.2 :=
        hcons e (List.mem_append_left _ hemem) p
          (List.mem_append_right _ List.mem_cons_self) he
      have hin : p.1 ∈ accO.map (·.1) := List.mem_map.mpr ⟨e, hemem, he⟩
      have hcont : p.1 ∈ seen := (hseen _).mpr hin
      have hcons' : ∀ q ∈ accO ++ rest, ∀ p' ∈ accO ++ rest, q.1 = p'.1 → q.2 = p'.2 := by
        intro q hq p' hp'
        apply hcons
        · rcases List.mem_append.mp hq with h | h
          · exact List.mem_append_left _ h
          · exact List.mem_append_right _ (List.mem_cons_of_mem _ h)
        · rcases List.mem_append.mp hp' with h | h
          · exact List.mem_append_left _ h
          · exact List.mem_append_right _ (List.mem_cons_of_mem _ h)
      have hsame : (declSTerm e).code = (declSTerm p).code := declSTerm_inj_code hcode
      simp only [Option.map_some]
      have hc1 : ((declSTerm p).code != -1 && (declSTerm e).code != -1 &&
          (declSTerm e).code != (declSTerm p).code) = false := by
        rw [hsame]; simp
      rw [if_neg (by rw [hc1]; exact Bool.false_ne_true)]
      have hfirst : firstOccs (p :: rest) seen = firstOccs rest seen := by
        simp [firstOccs, hcont]
      rw [hfirst]
      split
      · rename_i hneg
        have hp2 : p.2 = Option.none := hcode ▸ declSTerm_code_neg.mp hneg
        have hpc : (declSTerm p).code = -1 := by
          obtain ⟨pn, pk⟩ := p
          simp only at hp2
          rw [hp2]
          rfl
        rw [hpc]
        have hid : (accO.map declSTerm).map (fun x =>
            if (x.name == p.1) = true then { x with code := -1 } else x) = accO.map declSTerm := by
          rw [List.map_map]
          apply List.map_congr_left
          intro q hq
          simp only [Function.comp]
          split
          · rename_i hqn
            have hqn' : q.1 = p.1 := by simpa [declSTerm] using hqn
            have hq2 : q.2 = p.2 :=
              hcons q (List.mem_append_left _ hq) p
                (List.mem_append_right _ List.mem_cons_self) hqn'
            obtain ⟨qn, qk⟩ := q
            simp only at hq2
            rw [hq2, hp2]
            rfl
          · rfl
        rw [hid]
        exact ih accO seen hseen hcons'
      · exact ih accO seen hseen hcons'

/-! ## `assignCodes` -/

theorem mem_codes_iff {F : List (String × Option Nat)} {c : Nat} :
    (c : Int) ∈ (F.map declSTerm).map (·.code) ↔ c ∈ F.filterMap (·.2) := by
  rw [List.map_map, List.mem_map, List.mem_filterMap]
  constructor
  · rintro ⟨⟨n, k⟩, hp, hc⟩
    cases k with
    | none =>
      simp only [Function.comp, declSTerm] at hc
      omega
    | some k =>
      simp only [Function.comp, declSTerm] at hc
      refine ⟨(n, some k), hp, ?_⟩
      have : k = c := by exact_mod_cast hc
      rw [this]
  · rintro ⟨⟨n, k⟩, hp, hc⟩
    simp only at hc
    subst hc
    exact ⟨(n, some c), hp, rfl⟩

/-- the model's free-code search agrees with the specification's -/
theorem nextFree_eq_leastFree (F : List (String × Option Nat)) (n : Nat) :
    nextFree ((F.map declSTerm).map (·.code)) ((F.map declSTerm).length + 1) n
      = leastFree (F.filterMap (·.2)) n := by
  obtain ⟨j, hj, hlf, hfree, hused⟩ := leastFree_spec (F.filterMap (·.2)) n
  rw [hlf]
  apply nextFree_least
  · have : (F.filterMap (·.2)).length ≤ F.length := List.length_filterMap_le _ _
    rw [List.length_map]; omega
  · exact fun hm => hfree (mem_codes_iff.mp hm)
  · exact fun i hi => mem_codes_iff.mpr (hused i hi)

theorem assignCodes_eq_assignFree (F : List (String × Option Nat)) :
    ∀ (l : List (String × Option Nat)) (next : Nat),
      assignCodes (F.map declSTerm) (l.map declSTerm) next
        = assignFree (F.filterMap (·.2)) l next := by
  intro l
  induction l with
  | nil => intro next; rfl
  | cons p rest ih =>
    intro next
    obtain ⟨nm, k⟩ := p
    cases k with
    | some k =>
      rw [List.map_cons, assignCodes, if_neg, ih, assignFree]
      · rfl
      · show ¬ ((k : Int) < 0)
        omega
    | none =>
      rw [List.map_cons, assignCodes, if_pos, assignFree]
      · simp only [nextFree_eq_leastFree, ih]
        rfl
      · show (-1 : Int) < 0
        decide

/-- the codes given to the terminals without explicit code, in order -/
def implicitCodes (l : List STerm) (out : List (String × Int)) : List Int :=
  (l.zip out).filterMap fun p => if p.1.code < 0 then some p.2.2 else Option.none

theorem assignCodes_props (all : List STerm) (l : List STerm) :
    ∀ (next : Nat),
      (assignCodes all l next).length = l.length ∧
      (∀ p ∈ l.zip (assignCodes all l next), p.2.1 = p.1.name ∧ (0 ≤ p.1.code → p.2.2 = p.1.code)) ∧
      (implicitCodes l (assignCodes all l next)).Pairwise (· < ·) ∧
      ∀ c ∈ implicitCodes l (assignCodes all l next), (next : Int) ≤ c ∧ c ∉ all.map (·.code) := by
  induction l with
  | nil =>
    intro next
    exact ⟨rfl, fun _ h => (by cases h), List.Pairwise.nil, fun _ h => (by cases h)⟩
  | cons t rest ih =>
    intro next
    by_cases hneg : t.code < 0
    · obtain ⟨j, _, hnf, hfree, _⟩ := nextFree_spec (all.map (·.code)) next
      rw [List.length_map] at hnf
      have hout : assignCodes all (t :: rest) next =
          (t.name, ((next + j : Nat) : Int)) :: assignCodes all rest (next + j + 1) := by
        rw [assignCodes, if_pos hneg]
        simp only [hnf]
      obtain ⟨h1, h2, h3, h4⟩ := ih (next + j + 1)
      rw [hout]
      have himp : implicitCodes (t :: rest) ((t.name, ((next + j : Nat) : Int)) ::
          assignCodes all rest (next + j + 1)) =
          ((next + j : Nat) : Int) :: implicitCodes rest (assignCodes all rest (next + j + 1)) := by
        simp [implicitCodes, hneg]
      refine ⟨by simp [h1], ?_, ?_, ?_⟩
      · intro p hp
        simp only [List.zip_cons_cons, List.mem_cons] at hp
        rcases hp with rfl | hp
        · exact ⟨rfl, fun h0 => absurd hneg (Int.not_lt.mpr h0)⟩
        · exact h2 p hp
      · rw [himp, List.pairwise_cons]
        refine ⟨?_, h3⟩
        intro c hc
        have := (h4 c hc).1
        omega
      · rw [himp]
        intro c hc
        rcases List.mem_cons.mp hc with rfl | hc
        · exact ⟨by omega, hfree⟩
        · have := h4 c hc
          exact ⟨by omega, this.2⟩
    · have hout : assignCodes all (t :: rest) next = (t.name, t.code) :: assignCodes all rest next := by
        rw [assignCodes, if_neg hneg]
      obtain ⟨h1, h2, h3, h4⟩ := ih next
      rw [hout]
      have himp : implicitCodes (t :: rest) ((t.name, t.code) :: assignCodes all rest next) =
          implicitCodes rest (assignCodes all rest next) := by
        simp [implicitCodes, hneg]
      refine ⟨by simp [h1], ?_, by rw [himp]; exact h3, by rw [himp]; exact h4⟩
      intro p hp
      simp only [List.zip_cons_cons, List.mem_cons] at hp
      rcases hp with rfl | hp
      · exact ⟨rfl, fun _ => rfl⟩
      · exact h2 p hp

/-! ## `dedupTerms` on arbitrary occurrence lists (mixed declarations with and without code) -/

/-- the distinct elements of a list of names in order of first occurrence -/
def distinctNames : List String → List String
  | [] => []
  | n :: rest => n :: (distinctNames rest).filter (fun m => m != n)

theorem mem_distinctNames {l : List String} {n : String} : n ∈ distinctNames l ↔ n ∈ l := by
  induction l with
  | nil => simp [distinctNames]
  | cons m rest ih =>
    simp only [distinctNames, List.mem_cons, List.mem_filter, ih, bne_iff_ne, ne_eq]
    constructor
    · rintro (h | ⟨h, _⟩)
      · exact Or.inl h
      · exact Or.inr h
    · intro h
      by_cases hn : n = m
      · exact Or.inl hn
      · rcases h with h | h
        · exact Or.inl h
        · exact Or.inr ⟨h, hn⟩

theorem nodup_distinctNames (l : List String) : (distinctNames l).Nodup := by
  induction l with
  | nil => exact List.nodup_nil
  | cons m rest ih =>
    rw [distinctNames, List.nodup_cons]
    refine ⟨?_, ih.filter _⟩
    simp [List.mem_filter]

theorem find?_name_none {acc : List STerm} {n : String}
    (h : acc.find? (fun x => x.name == n) = none) : n ∉ acc.map (·.name) := by
  intro hm
  obtain ⟨q, hq, hqn⟩ := List.mem_map.mp hm
  have := List.find?_eq_none.mp h q hq
  simp [hqn] at this

theorem find?_name_some {acc : List STerm} {n : String} {e : STerm}
    (h : acc.find? (fun x => x.name == n) = some e) : e ∈ acc ∧ e.name = n := by
  have he := List.find?_some h
  simp only [beq_iff_eq] at he
  exact ⟨List.mem_of_find?_eq_some h, he⟩

theorem map_name_setCode (acc : List STerm) (n : String) (c : Int) :
    (acc.map fun x => if x.name == n then { x with code := c } else x).map (·.name)
      = acc.map (·.name) := by
  rw [List.map_map]
  apply List.map_congr_left
  intro x _
  simp only [Function.comp]
  split <;> rfl

theorem dedupTerms_names_acc (l : List STerm) : ∀ (acc ts : List STerm),
    dedupTerms l acc = .ok ts →
    ts.map (·.name) = acc.map (·.name) ++
      (distinctNames (l.map (·.name))).filter (fun m => !(acc.map (·.name)).contains m) := by
  induction l with
  | nil =>
    intro acc ts h
    simp only [dedupTerms, Except.ok.injEq] at h
    subst h
    simp [distinctNames]
  | cons t rest ih =>
    intro acc ts h
    unfold dedupTerms at h
    have hsome : ∀ e, acc.find? (fun x => x.name == t.name) = some e →
        acc.map (·.name) ++ (distinctNames (rest.map (·.name))).filter
            (fun m => !(acc.map (·.name)).contains m) =
          acc.map (·.name) ++ (distinctNames ((t :: rest).map (·.name))).filter
            (fun m => !(acc.map (·.name)).contains m) := by
      intro e hf
      obtain ⟨hem, hen⟩ := find?_name_some hf
      have hin : t.name ∈ acc.map (·.name) := List.mem_map.mpr ⟨e, hem, hen⟩
      congr 1
      rw [List.map_cons, distinctNames, List.filter_cons, if_neg (by simpa using hin),
        List.filter_filter]
      apply List.filter_congr
      intro m _
      by_cases hm : m = t.name
      · subst hm; simp [hin]
      · simp [hm]
    split at h
    · rename_i hf
      have hnot := find?_name_none hf
      rw [ih _ _ h, List.map_append, List.append_assoc]
      congr 1
      have hd : distinctNames ((t :: rest).map (·.name)) =
          t.name :: (distinctNames (rest.map (·.name))).filter (fun m => m != t.name) := rfl
      rw [hd, List.filter_cons, if_pos (by simpa using hnot), List.filter_filter]
      simp only [List.map_cons, List.map_nil, List.singleton_append, List.cons.injEq, true_and]
      apply List.filter_congr
      intro m _
      by_cases hm : m = t.name <;> simp [hm]
    · rename_i e hf
      split at h
      · cases h
      · split at h
        · rw [ih _ _ h, map_name_setCode]
          exact hsome e hf
        · rw [ih _ _ h]
          exact hsome e hf

/-- `c` is the explicit code of an occurrence of the name `n` in `L` -/
def ExplCode (L : List STerm) (n : String) (c : Int) : Prop :=
  ∃ p ∈ L, p.name = n ∧ p.code = c ∧ c ≠ -1

theorem eq_of_nodup_names {acc : List STerm} (h : (acc.map (·.name)).Nodup) {p q : STerm}
    (hp : p ∈ acc) (hq : q ∈ acc) (hn : p.name = q.name) : p = q := by
  induction acc with
  | nil => cases hp
  | cons a rest ih =>
    rw [List.map_cons, List.nodup_cons] at h
    rcases List.mem_cons.mp hp with rfl | hp' <;> rcases List.mem_cons.mp hq with rfl | hq'
    · rfl
    · exact absurd (List.mem_map.mpr ⟨q, hq', hn.symm⟩) h.1
    · exact absurd (List.mem_map.mpr ⟨p, hp', hn⟩) h.1
    · exact ih h.2 hp' hq'

theorem dedupTerms_inv (l : List STerm) : ∀ (acc : List STerm) (X : String → Int → Prop),
    (acc.map (·.name)).Nodup → (∀ n c, X n c ↔ ExplCode (acc ++ l) n c) →
    ((∀ n c c', X n c → X n c' → c = c') → ∃ ts, dedupTerms l acc = .ok ts) ∧
    ∀ ts, dedupTerms l acc = .ok ts →
      (∀ n c c', X n c → X n c' → c = c') ∧
      ∀ t ∈ ts, (t.code ≠ -1 → X t.name t.code) ∧ ∀ c, X t.name c → t.code = c := by
  induction l with
  | nil =>
    intro acc X hnd hX
    simp only [List.append_nil] at hX
    have hbase : (∀ n c c', X n c → X n c' → c = c') := by
      intro n c c' h1 h2
      obtain ⟨p, hp, hpn, hpc, _⟩ := (hX _ _).mp h1
      obtain ⟨q, hq, hqn, hqc, _⟩ := (hX _ _).mp h2
      have := eq_of_nodup_names hnd hp hq (hpn.trans hqn.symm)
      rw [← hpc, ← hqc, this]
    refine ⟨fun _ => ⟨acc, rfl⟩, ?_⟩
    intro ts h
    simp only [dedupTerms, Except.ok.injEq] at h
    subst h
    refine ⟨hbase, fun t ht => ⟨fun hc => (hX _ _).mpr ⟨t, ht, rfl, rfl, hc⟩, ?_⟩⟩
    intro c hc
    obtain ⟨p, hp, hpn, hpc, _⟩ := (hX _ _).mp hc
    have := eq_of_nodup_names hnd hp ht hpn
    rw [← hpc, this]
  | cons t rest ih =>
    intro acc X hnd hX
    unfold dedupTerms
    split
    · rename_i hf
      have hnot := find?_name_none hf
      apply ih (acc ++ [t]) X
      · rw [List.map_append, List.nodup_append]
        refine ⟨hnd, by simp, ?_⟩
        intro a ha b hb
        simp only [List.map_cons, List.map_nil, List.mem_singleton] at hb
        subst hb
        intro hab
        exact hnot (hab ▸ ha)
      · intro n c
        rw [hX, List.append_assoc]
        rfl
    · rename_i e hf
      obtain ⟨hem, hen⟩ := find?_name_some hf
      split
      · rename_i hcond
        simp only [Bool.and_eq_true, bne_iff_ne, ne_eq] at hcond
        refine ⟨fun hec => ?_, fun ts h => by cases h⟩
        exfalso
        exact hcond.2 (hec t.name e.code t.code
          ((hX _ _).mpr ⟨e, List.mem_append_left _ hem, hen, rfl, hcond.1.2⟩)
          ((hX _ _).mpr ⟨t, List.mem_append_right _ List.mem_cons_self, rfl, rfl, hcond.1.1⟩))
      · rename_i hcond
        simp only [Bool.and_eq_true, bne_iff_ne, ne_eq, not_and, Classical.not_not] at hcond
        split
        · rename_i hneg
          simp only [beq_iff_eq] at hneg
          apply ih _ X
          · rw [map_name_setCode]; exact hnd
          · intro n c
            rw [hX]
            constructor
            · rintro ⟨p, hp, hpn, hpc, hc⟩
              rcases List.mem_append.mp hp with hp | hp
              · have hne : p.name ≠ t.name := by
                  intro h
                  have := eq_of_nodup_names hnd hp hem (h.trans hen.symm)
                  rw [this, hneg] at hpc
                  exact hc hpc.symm
                refine ⟨p, List.mem_append_left _ (List.mem_map.mpr ⟨p, hp, ?_⟩), hpn, hpc, hc⟩
                simp [hne]
              · rcases List.mem_cons.mp hp with rfl | hp
                · refine ⟨⟨e.name, p.code⟩, List.mem_append_left _ (List.mem_map.mpr ⟨e, hem, ?_⟩),
                    hen.trans hpn, hpc, hc⟩
                  simp [hen]
                · exact ⟨p, List.mem_append_right _ hp, hpn, hpc, hc⟩
            · rintro ⟨p, hp, hpn, hpc, hc⟩
              rcases List.mem_append.mp hp with hp | hp
              · obtain ⟨x, hx, rfl⟩ := List.mem_map.mp hp
                by_cases hxn : x.name = t.name
                · simp only [hxn, beq_self_eq_true, if_true] at hpn hpc
                  exact ⟨t, List.mem_append_right _ List.mem_cons_self, hpn, hpc, hc⟩
                · have : (x.name == t.name) = false := by simpa using hxn
                  simp only [this] at hpn hpc
                  exact ⟨x, List.mem_append_left _ hx, hpn, hpc, hc⟩
              · exact ⟨p, List.mem_append_right _ (List.mem_cons_of_mem _ hp), hpn, hpc, hc⟩
        · rename_i hnn
          simp only [beq_iff_eq] at hnn
          apply ih acc X hnd
          intro n c
          rw [hX]
          constructor
          · rintro ⟨p, hp, hpn, hpc, hc⟩
            rcases List.mem_append.mp hp with hp | hp
            · exact ⟨p, List.mem_append_left _ hp, hpn, hpc, hc⟩
            · rcases List.mem_cons.mp hp with rfl | hp
              · have hpne : p.code ≠ -1 := hpc ▸ hc
                exact ⟨e, List.mem_append_left _ hem, hen.trans hpn, (hcond ⟨hpne, hnn⟩).trans hpc, hc⟩
              · exact ⟨p, List.mem_append_right _ hp, hpn, hpc, hc⟩
          · rintro ⟨p, hp, hpn, hpc, hc⟩
            rcases List.mem_append.mp hp with hp | hp
            · exact ⟨p, List.mem_append_left _ hp, hpn, hpc, hc⟩
            · exact ⟨p, List.mem_append_right _ (List.mem_cons_of_mem _ hp), hpn, hpc, hc⟩

/-- two explicit codes of one name are equal (occurrences without code, `-1`, say nothing) -/
def ExplicitConsistent (l : List STerm) : Prop :=
  ∀ p ∈ l, ∀ q ∈ l, p.name = q.name → p.code ≠ -1 → q.code ≠ -1 → p.code = q.code

theorem explicitConsistent_iff {l : List STerm} :
    ExplicitConsistent l ↔ ∀ n c c', ExplCode l n c → ExplCode l n c' → c = c' := by
  constructor
  · rintro h n c c' ⟨p, hp, hpn, hpc, hc⟩ ⟨q, hq, hqn, hqc, hc'⟩
    rw [← hpc, ← hqc]
    exact h p hp q hq (hpn.trans hqn.symm) (hpc ▸ hc) (hqc ▸ hc')
  · intro h p hp q hq hn hpc hqc
    exact h q.name p.code q.code ⟨p, hp, hn, rfl, hpc⟩ ⟨q, hq, rfl, rfl, hqc⟩

/-- `dedupTerms` on an arbitrary occurrence list: it succeeds iff the explicit codes are
consistent; the result has the distinct names in order of first occurrence; the code of an
entry is the explicit code of the name if some occurrence has one, `-1` otherwise -/
theorem dedupTerms_spec (l : List STerm) :
    (ExplicitConsistent l → ∃ ts, dedupTerms l [] = .ok ts) ∧
    ∀ ts, dedupTerms l [] = .ok ts →
      ExplicitConsistent l ∧
      ts.map (·.name) = distinctNames (l.map (·.name)) ∧
      ∀ t ∈ ts, (t.code ≠ -1 → ExplCode l t.name t.code) ∧ ∀ c, ExplCode l t.name c → t.code = c := by
  obtain ⟨h1, h2⟩ := dedupTerms_inv l [] (ExplCode l) List.nodup_nil (fun n c => by rw [List.nil_append])
  refine ⟨fun h => h1 (explicitConsistent_iff.mp h), fun ts hts => ?_⟩
  obtain ⟨h3, h4⟩ := h2 ts hts
  refine ⟨explicitConsistent_iff.mpr h3, ?_, h4⟩
  have := dedupTerms_names_acc l [] ts hts
  rw [this]
  simp only [List.map_nil, List.nil_append, List.contains_nil, Bool.not_false]
  exact List.filter_eq_self.mpr (fun _ _ => rfl)

end Yaep
