import Yaep.Lemmas.Recovery
/-!
# Tokens are skipped only after an `error` shift

`Consec pl`: a list element shifted on token `k` that directly follows an element shifted on token
`k'` has `k = k' + 1`, and one that directly follows set 0 has `k = 0`.  This is an invariant of
every list the recovering `build_pl` loop and the recovery search hold (`parseWithRecovery_consec`);
it is what makes the repaired input "the input with *segments replaced by* `error`".
-/
namespace Yaep.RP
open Yaep

/-- the token number a token set directly after `x` must have: one more than the token of `x`, `0`
after set 0, no constraint after an `error` set -/
def nextTok (x : PSet) : Option Nat :=
  match x.tok with
  | some k => some (k + 1)
  | none => if x.term = none then some 0 else none

def Link (x y : PSet) : Prop := ∀ k n, y.tok = some k → nextTok x = some n → k = n

def Consec : List PSet → Prop
  | [] => True
  | [_] => True
  | x :: y :: l => Link x y ∧ Consec (y :: l)

theorem link_of_tok_none_right {x y : PSet} (h : y.tok = none) : Link x y := by
  intro k n hk _; rw [h] at hk; cases hk

theorem link_of_err_left {x y : PSet} (h1 : x.tok = none) (h2 : x.term ≠ none) : Link x y := by
  intro k n _ hn
  unfold nextTok at hn
  rw [h1] at hn
  simp only [h2, if_false] at hn
  cases hn

theorem link_of_tok {x y : PSet} {k : Nat} (h1 : x.tok = some k) (h2 : y.tok = some (k + 1)) :
    Link x y := by
  intro k' n hk hn
  unfold nextTok at hn
  rw [h1] at hn
  rw [h2] at hk
  injection hk with hk
  injection hn with hn
  omega

theorem Consec.append_single : ∀ {l : List PSet} {y : PSet}, Consec l →
    (∀ x, l.getLast? = some x → Link x y) → Consec (l ++ [y])
  | [], _, _, _ => trivial
  | [x], y, _, h => ⟨h x rfl, trivial⟩
  | x :: x' :: l, y, hc, h => by
    obtain ⟨h1, h2⟩ := hc
    refine ⟨h1, ?_⟩
    have := Consec.append_single (l := x' :: l) (y := y) h2 (fun z hz => h z (by
      rw [List.getLast?_cons_cons]; exact hz))
    exact this

theorem Consec.prefix : ∀ {l1 l2 : List PSet}, Consec (l1 ++ l2) → Consec l1
  | [], _, _ => trivial
  | [_], _, _ => trivial
  | x :: y :: l, l2, h => by
    obtain ⟨h1, h2⟩ := h
    exact ⟨h1, Consec.prefix (l1 := y :: l) h2⟩

theorem Consec.take {l : List PSet} (h : Consec l) (n : Nat) : Consec (l.take n) := by
  have : l = l.take n ++ l.drop n := (List.take_append_drop n l).symm
  rw [this] at h
  exact h.prefix

/-! ## the matching loop -/

theorem matchLoop_consec {g : Grammar} {an : Analysis} {la rmatch : Nat} {full : List Nat}
    (P : List PSet) (last cost : Nat) (hP : P.length = last + 1) :
    ∀ (fuel : Nat) (T : List PSet) (ctok nm : Nat) (ps : List RState),
      Consec (P ++ T) → (∃ s, (P ++ T).getLast? = some s ∧ s.tok = some ctok) →
      (∀ s ∈ ps, Consec (P ++ s.tail)) →
      Consec (matchLoop g an la rmatch full last cost fuel (P ++ T) ctok nm ps).cpl ∧
      ∀ s ∈ (matchLoop g an la rmatch full last cost fuel (P ++ T) ctok nm ps).pushes,
        Consec (P ++ s.tail) := by
  intro fuel
  induction fuel with
  | zero => intro T ctok nm ps hc _ hps; unfold matchLoop; exact ⟨hc, hps⟩
  | succ fuel ih =>
    intro T ctok nm ps hc hlast hps
    unfold matchLoop
    simp only
    split
    · exact ⟨hc, hps⟩
    · split
      · exact ⟨hc, hps⟩
      · have hps' : ∀ s ∈ (if hasTrans g ((P ++ T).getLastD default).items g.errT = true then
              ps ++ [⟨last, (P ++ T).drop (last + 1), ctok + 1, cost⟩] else ps),
            Consec (P ++ s.tail) := by
          intro s hs
          split at hs
          · rcases List.mem_append.mp hs with h | h
            · exact hps s h
            · rw [List.mem_singleton] at h
              subst h
              simp only
              rw [drop_append_of_length hP]
              exact hc
          · exact hps s hs
        split
        · exact ⟨hc, hps'⟩
        · rw [List.append_assoc]
          apply ih
          · rw [← List.append_assoc]
            apply hc.append_single
            intro x hx
            obtain ⟨s, hs1, hs2⟩ := hlast
            rw [hs1] at hx
            injection hx with hx
            subst hx
            exact link_of_tok hs2 rfl
          · exact ⟨_, by rw [← List.append_assoc, List.getLast?_concat], rfl⟩
          · exact hps'


/-! ## the search loop -/

structure CInv (orig : List PSet) (st : SearchSt) : Prop where
  states : ∀ s ∈ st.stack, Consec (orig.take (s.last + 1) ++ s.tail)
  best : ∀ b, st.best = some b → Consec (orig.take (b.last + 1) ++ b.tail)

section Search
variable {g : Grammar} {an : Analysis} {la rmatch : Nat} {full : List Nat} {orig : List PSet}
  {startTok startPl : Nat}

theorem backStep_consec (hco : Consec orig) (cpl : List PSet) (st : SearchSt) (rest : List RState)
    (hrest : ∀ s ∈ rest, Consec (orig.take (s.last + 1) ++ s.tail)) :
    ∀ s ∈ (backStep g cpl startTok st rest).1, Consec (orig.take (s.last + 1) ++ s.tail) := by
  intro s hs
  rcases backStep_cases g cpl startTok st rest with h | ⟨_, h⟩
  · rw [h] at hs; exact hrest s hs
  · rw [h] at hs
    rcases List.mem_cons.mp hs with rfl | hs
    · simp only [List.append_nil]; exact hco.take _
    · exact hrest s hs

theorem frontierSt_consec (hco : Consec orig) {st : SearchSt} {top : RState} {rest : List RState}
    (hc : CInv orig st) (hst : st.stack = top :: rest) :
    CInv orig (frontierSt g full orig startTok st top rest) := by
  have htop := hc.states top (by rw [hst]; exact List.mem_cons_self)
  have hrest : ∀ s ∈ rest, Consec (orig.take (s.last + 1) ++ s.tail) :=
    fun s hs => hc.states s (by rw [hst]; exact List.mem_cons_of_mem _ hs)
  have hb := backStep_consec (g := g) (startTok := startTok) hco
    (orig.take (top.last + 1) ++ top.tail) st rest hrest
  refine ⟨?_, hc.best⟩
  intro s hs
  unfold frontierSt at hs
  simp only at hs
  split at hs
  · rcases List.mem_cons.mp hs with rfl | hs
    · exact htop
    · exact hb s hs
  · exact hb s hs

theorem pushSt_consec {st1 : SearchSt} {mr : MatchRes} {last : Nat} (h1 : CInv orig st1)
    (hp : ∀ s ∈ mr.pushes, Consec (orig.take (last + 1) ++ s.tail) ∧ s.last = last) :
    CInv orig (pushSt st1 mr) := by
  refine ⟨?_, h1.best⟩
  intro s hs
  unfold pushSt at hs
  simp only at hs
  rcases List.mem_append.mp hs with h | h
  · obtain ⟨a, b⟩ := hp s (List.mem_reverse.mp h)
    rw [b]; exact a
  · exact h1.states s h

theorem searchStepK_consec {α : Type} (k : SearchSt → α) (P : α → Prop)
    (ctx : RCtx g an la full orig startTok startPl) (hco : Consec orig) {st : SearchSt} {top : RState}
    {rest : List RState} (hinv : SearchInv g an la full orig startTok startPl st) (hc : CInv orig st)
    (hst : st.stack = top :: rest)
    (hk : ∀ st', SearchInv g an la full orig startTok startPl st' → CInv orig st' → P (k st')) :
    P (searchStepK k g an la rmatch full orig startTok startPl st top rest) := by
  have htop := (hinv.states top (by rw [hst]; exact List.mem_cons_self)).1
  have hctop := hc.states top (by rw [hst]; exact List.mem_cons_self)
  obtain ⟨hf, hbf⟩ := frontierSt_inv ctx hinv hst
  have hcf := frontierSt_consec (g := g) (full := full) (startTok := startTok) hco hc hst
  unfold searchStepK
  simp only
  obtain ⟨hs1, hs2⟩ := skipLoop_spec g (errSetOf g (orig.take (top.last + 1) ++ top.tail)).items full
    (frontierSt g full orig startTok st top rest).bestCost (full.length + 1) top.stok top.back
  have hs3 := skipLoop_stop g (errSetOf g (orig.take (top.last + 1) ++ top.tail)).items full
    (frontierSt g full orig startTok st top rest).bestCost (full.length + 1) top.stok top.back
    (by omega)
  generalize skipLoop g (errSetOf g (orig.take (top.last + 1) ++ top.tail)).items full
    (frontierSt g full orig startTok st top rest).bestCost (full.length + 1) top.stok top.back = sk
    at hs1 hs2 hs3 ⊢
  obtain ⟨c, kk⟩ := sk
  simp only at hs1 hs2 hs3 ⊢
  split
  · exact hk _ hf hcf
  split
  · exact hk _ hf hcf
  rename_i h1 h2
  have hTr : hasTrans g (errSetOf g (orig.take (top.last + 1) ++ top.tail)).items
      (full.getD c 0) = true := by
    rcases hs3 with h | h | h
    · exact absurd h h1
    · exact absurd h h2
    · exact h
  have hT := tail_after_skip htop hs1 hs2 (Nat.lt_of_not_le h2) hTr
  have hM := matchLoop_spec (an := an) (la := la) (rmatch := rmatch) (startPl := startPl)
    top.last kk (ctx.take_length htop.last_le) htop.last_le
    (full.length + 1) _ c 0 [] hT (fun s hs => absurd hs List.not_mem_nil)
  -- the new invariant for the same run of the matching loop
  have hc0 : Consec (orig.take (top.last + 1) ++ (top.tail ++
      [errSetOf g (orig.take (top.last + 1) ++ top.tail)] ++
      [gotoSet g an la (orig.take (top.last + 1) ++ top.tail ++
          [errSetOf g (orig.take (top.last + 1) ++ top.tail)]) (full.getD c 0) (some c) full[c + 1]?])) := by
    rw [← List.append_assoc, ← List.append_assoc]
    apply Consec.append_single
    · apply hctop.append_single
      intro x _
      exact link_of_tok_none_right rfl
    · intro x hx
      rw [List.getLast?_concat] at hx
      injection hx with hx
      subst hx
      exact link_of_err_left rfl (by simp [errSetOf])
  have hMc := matchLoop_consec (g := g) (an := an) (la := la) (rmatch := rmatch) (full := full)
    (orig.take (top.last + 1)) top.last kk (ctx.take_length htop.last_le) (full.length + 1) _ c 0 []
    hc0 ⟨_, by rw [← List.append_assoc, List.getLast?_concat], rfl⟩
    (fun s hs => absurd hs List.not_mem_nil)
  rw [← List.append_assoc, ← List.append_assoc] at hM hMc
  obtain ⟨T', ls, hcpl, hT', hct, hpush⟩ := hM
  obtain ⟨hcc, hcp⟩ := hMc
  have hpush2 : ∀ s ∈ (matchLoop g an la rmatch full top.last kk (full.length + 1)
      (orig.take (top.last + 1) ++ top.tail ++ [errSetOf g (orig.take (top.last + 1) ++ top.tail)] ++
        [gotoSet g an la (orig.take (top.last + 1) ++ top.tail ++
          [errSetOf g (orig.take (top.last + 1) ++ top.tail)]) (full.getD c 0) (some c) full[c + 1]?])
      c 0 []).pushes, Consec (orig.take (top.last + 1) ++ s.tail) ∧ s.last = top.last :=
    fun s hs => ⟨hcp s hs, (hpush s hs).2⟩
  have hcpush := pushSt_consec hcf hpush2
  split
  · rename_i h3
    split
    · apply hk
      · refine bestSt_inv ctx hf hbf htop.last_le hpush hcpl hT' ?_
        have := hT'.ls_lt
        split
        · rename_i h4; rcases hct with h | ⟨h, _⟩ <;> omega
        · rename_i h4
          rcases hct with h | ⟨h, h5⟩
          · exact h
          · rcases h5 with h5 | h5
            · exact absurd h5 h4
            · rcases h3 with h3 | h3 <;> omega
      · refine ⟨hcpush.states, ?_⟩
        intro b hb
        unfold bestSt at hb
        simp only [Option.some.injEq] at hb
        subst hb
        simp only
        rw [hcpl, drop_append_of_length (ctx.take_length htop.last_le), ← hcpl]
        exact hcc
    · exact hk _ (pushSt_inv hf hbf hpush) hcpush
  · exact hk _ (pushSt_inv hf hbf hpush) hcpush

theorem searchLoop_consec (ctx : RCtx g an la full orig startTok startPl) (hco : Consec orig) :
    ∀ (fuel : Nat) (st : SearchSt), SearchInv g an la full orig startTok startPl st → CInv orig st →
      CInv orig (searchLoop g an la rmatch full orig startTok startPl fuel st) := by
  intro fuel
  induction fuel with
  | zero => intro st _ h; unfold searchLoop; exact h
  | succ fuel ih =>
    intro st h hc
    cases hst : st.stack with
    | nil => rw [searchLoop_nil _ _ _ _ _ _ _ _ _ _ hst]; exact hc
    | cons top rest =>
      rw [searchLoop_cons _ _ _ _ _ _ _ _ _ _ _ _ hst]
      exact searchStepK_consec _ _ ctx hco h hc hst ih

end Search


/-! ## `recoverAt` and the outer loop -/

theorem recoverAt_consec {g : Grammar} {an : Analysis} {la rmatch : Nat} {full : List Nat}
    {pl : List PSet} {tok : Nat} (h : PLOk g full pl tok) (ht : tok < full.length)
    (hrun : RunOk g an la full pl) (hco : Consec pl) (fuel : Nat) :
    CInv pl (recoverAt g an la rmatch full pl tok fuel) := by
  have ctx := h.rctx ht hrun
  have hinv0 := recoverAt_inv (rmatch := rmatch) h ht hrun 0
  unfold recoverAt at hinv0 ⊢
  simp only at hinv0 ⊢
  unfold searchLoop at hinv0
  apply searchLoop_consec ctx hco _ _ hinv0
  refine ⟨?_, fun b hb => by cases hb⟩
  intro s hs
  simp only [List.mem_singleton] at hs
  subst hs
  simp only [List.append_nil]
  exact hco.take _

theorem consec_shift {g : Grammar} {an : Analysis} {la : Nat} {full : List Nat} {tok : Nat}
    {pl : List PSet} {calls : List (Nat × Nat × Nat)} (h : OuterInv g an la full tok pl calls)
    (hco : Consec pl) (new : PSet) (hnew : new.tok = some tok) : Consec (pl ++ [new]) := by
  apply hco.append_single
  intro x hx
  rcases Nat.eq_zero_or_pos tok with h0 | hpos
  · -- no token has been shifted yet: the last set is set 0 or an `error` set
    subst h0
    intro k n hk hn
    rw [hnew] at hk
    injection hk with hk
    subst hk
    have hxtok : x.tok = none := by
      obtain ⟨s0, rest, rfl, _, h2, hseg, _⟩ := h.pl_ok
      have hmem : x ∈ s0 :: rest := List.mem_of_getLast? hx
      rcases List.mem_cons.mp hmem with rfl | hmem
      · exact h2
      · cases hxt : x.tok with
        | none => rfl
        | some k' =>
          have : k' ∈ toks rest := by
            unfold toks; rw [List.mem_filterMap]; exact ⟨x, hmem, hxt⟩
          have := (hseg.bounds k' this).2
          omega
    unfold nextTok at hn
    rw [hxtok] at hn
    simp only at hn
    by_cases hterm : x.term = none
    · rw [if_pos hterm] at hn; injection hn
    · rw [if_neg hterm] at hn; cases hn
  · obtain ⟨s, hs1, hs2⟩ := h.lastTok hpos
    rw [hs1] at hx
    injection hx with hx
    subst hx
    exact link_of_tok hs2 (by rw [hnew]; congr 1; omega)

theorem parseRecLoop_consec {g : Grammar} {an : Analysis} {la rmatch : Nat} {full : List Nat}
    {sfuel : Nat} :
    ∀ (fuel tok : Nat) (pl : List PSet) (calls : List (Nat × Nat × Nat)) (steps : Nat),
      OuterInv g an la full tok pl calls → Consec pl →
      (parseRecLoop g an la rmatch full sfuel fuel tok pl calls steps).ok = true →
      Consec (parseRecLoop g an la rmatch full sfuel fuel tok pl calls steps).pl := by
  intro fuel
  induction fuel with
  | zero => intro tok pl calls steps _ _ hok; unfold parseRecLoop at hok; cases hok
  | succ fuel ih =>
    intro tok pl calls steps h hco hok
    unfold parseRecLoop at hok ⊢
    split
    · exact hco
    · rename_i t ht
      rw [ht] at hok
      simp only at hok ⊢
      split
      · rename_i hT
        rw [if_pos hT] at hok
        exact ih _ _ _ _ (h.shift ht hT) (consec_shift h hco _ rfl) hok
      · rename_i hT
        rw [if_neg hT] at hok
        have hlt := (List.getElem?_eq_some_iff.mp ht).1
        have hSI := recoverAt_inv (rmatch := rmatch) h.pl_ok hlt h.run sfuel
        have hCI := recoverAt_consec (rmatch := rmatch) h.pl_ok hlt h.run hco sfuel
        split
        · rename_i hbest; rw [hbest] at hok; cases hok
        · rename_i b hbest
          rw [hbest] at hok
          simp only at hok ⊢
          split
          · rename_i hne; rw [if_pos hne] at hok; cases hok
          · rename_i hne
            rw [if_neg hne] at hok
            exact ih _ _ _ _ (h.recover hlt (hSI.best b hbest)).1 (hCI.best b hbest) hok

/-- **in the final list tokens are skipped only after an `error` shift** -/
theorem parseWithRecovery_consec {g : Grammar} {la rmatch : Nat} {w : List Nat} {sfuel : Nat}
    (hok : (parseWithRecovery g la rmatch w sfuel).ok = true) :
    Consec (parseWithRecovery g la rmatch w sfuel).pl := by
  unfold parseWithRecovery at hok ⊢
  exact parseRecLoop_consec _ _ _ _ _ (outerInv_init g _ _ _) trivial hok

end Yaep.RP
