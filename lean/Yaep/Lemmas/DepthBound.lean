import Yaep.Lemmas.Trees
import Yaep.Lemmas.Saturate
import Yaep.Spec.WellFormed
/-!
# The nesting depth of derivations in a grammar without cycles

Along a root-to-leaf path of a derivation, a child with the same span as its parent is a
unit step (`UnitStep`: all siblings derive ε); without cycles at most `nN` nonterminals can
follow each other on the same span, and the span length can shrink at most `j - i` times.
Hence `depth ≤ nN + (nN + 1) * (j - i)`, which is below `derivFuel`.
-/
namespace Yaep
variable {g : Grammar} {toks : List Nat}

/-- induction principle for parse trees with the hypothesis for all children -/
theorem PT.ind {P : PT → Prop} (hleaf : ∀ a p, P (.leaf a p))
    (hnode : ∀ r kids, (∀ k ∈ kids, P k) → P (.node r kids)) : ∀ pt, P pt := by
  intro pt
  exact PT.rec (motive_1 := P) (motive_2 := fun ks => ∀ k ∈ ks, P k)
    hleaf (fun r kids ih => hnode r kids ih)
    (by simp) (fun k ks hk hks => by
      intro x hx
      rcases List.mem_cons.1 hx with rfl | hx
      · exact hk
      · exact hks x hx) pt

mutual
theorem PT.ValidAt.der : ∀ {pt : PT} {X : Sym} {i j : Nat},
    PT.ValidAt g toks pt X i j → Der g [X] pt.yield
  | .leaf a p, _, _, _, h => by
    cases h; simp only [PT.yield]; exact .term .nil
  | .node r kids, _, _, _, h => by
    cases h with
    | node e hl v =>
      subst hl
      have := Der.nt e (PT.ValidListAt.der v) Der.nil
      simpa [PT.yield] using this
theorem PT.ValidListAt.der : ∀ {kids : List PT} {Xs : List Sym} {i j : Nat},
    PT.ValidListAt g toks kids Xs i j → Der g Xs (PT.yieldList kids)
  | [], _, _, _, h => by cases h; simp only [PT.yieldList]; exact .nil
  | k :: ks, _, _, _, h => by
    cases h with
    | cons h1 h2 =>
      simp only [PT.yieldList]
      exact Der.append (PT.ValidAt.der h1) (PT.ValidListAt.der h2)
end

theorem PT.ValidAt.der_nil {pt : PT} {X : Sym} {i : Nat} (h : PT.ValidAt g toks pt X i i) :
    Der g [X] [] := by
  have hs := h.span
  have hy : pt.yield = [] := List.eq_nil_of_length_eq_zero (by omega)
  simpa [hy] using h.der

/-- a symbol string derived on an empty span: every symbol derives ε -/
theorem PT.ValidListAt.der_nil_of_empty : ∀ {kids : List PT} {Xs : List Sym} {m : Nat},
    PT.ValidListAt g toks kids Xs m m → ∀ (q : Nat) (s : Sym), Xs[q]? = some s → Der g [s] []
  | [], _, _, h => by cases h; intro q s hq; simp at hq
  | k :: ks, _, m, h => by
    cases h with
    | @cons _ _ X Xs' _ m' _ h1 h2 =>
      have l1 := h1.le
      have l2 := h2.le
      have : m' = m := by omega
      subst this
      intro q s hq
      cases q with
      | zero => simp at hq; subst hq; exact h1.der_nil
      | succ q => exact PT.ValidListAt.der_nil_of_empty h2 q s (by simpa using hq)

/-- every child of a rule application sits on a sub-span; if it covers the whole span then
all its siblings derive ε -/
theorem PT.ValidListAt.kid_info : ∀ {kids : List PT} {Xs : List Sym} {i j : Nat},
    PT.ValidListAt g toks kids Xs i j → ∀ k ∈ kids,
      ∃ X a b, PT.ValidAt g toks k X a b ∧ i ≤ a ∧ b ≤ j ∧
        (b - a = j - i → ∃ p, Xs[p]? = some X ∧
          ∀ (q : Nat) (s : Sym), q ≠ p → Xs[q]? = some s → Der g [s] [])
  | [], _, _, _, _ => by simp
  | k0 :: ks, _, i, j, h => by
    cases h with
    | @cons _ _ X0 Xs' _ m _ h1 h2 =>
      have l1 := h1.le
      have l2 := h2.le
      intro k hk
      rcases List.mem_cons.1 hk with rfl | hk
      · refine ⟨X0, i, m, h1, Nat.le_refl _, l2, ?_⟩
        intro he
        have : m = j := by omega
        subst this
        refine ⟨0, rfl, ?_⟩
        intro q s hq hs
        cases q with
        | zero => exact absurd rfl hq
        | succ q => exact PT.ValidListAt.der_nil_of_empty h2 q s (by simpa using hs)
      · obtain ⟨X, a, b, hv, ha, hb, hfull⟩ := PT.ValidListAt.kid_info h2 k hk
        have lv := hv.le
        refine ⟨X, a, b, hv, by omega, hb, ?_⟩
        intro he
        have hm : m = i := by omega
        subst hm
        obtain ⟨p, hp, hrest⟩ := hfull (by omega)
        refine ⟨p + 1, by simpa using hp, ?_⟩
        intro q s hq hs
        cases q with
        | zero => simp at hs; subst hs; exact h1.der_nil
        | succ q => exact hrest q s (by omega) (by simpa using hs)

theorem depthList_le {kids : List PT} {d : Nat} (h : ∀ k ∈ kids, k.depth ≤ d) :
    PT.depthList kids ≤ d := by
  induction kids with
  | nil => simp [PT.depthList]
  | cons k ks ih =>
    simp only [PT.depthList]
    have h1 := h k (by simp)
    have h2 := ih (fun x hx => h x (by simp [hx]))
    omega

theorem Plus.snoc {α : Type} {R : α → α → Prop} {a b c : α} (h : Plus R a b) (hbc : R b c) :
    Plus R a c := by
  induction h with
  | single h => exact .cons h (.single hbc)
  | cons h _ ih => exact .cons h (ih hbc)

theorem lhs_lt_nN (hr : g.symsInRange = true) {r : Nat} {rl : Rule} (e : g.rules[r]? = some rl) :
    rl.lhs < g.nN := by
  simp only [Grammar.symsInRange, List.all_eq_true, Bool.and_eq_true, decide_eq_true_eq] at hr
  exact (hr rl (List.mem_of_getElem? e)).1

theorem length_le_of_nodup_lt {S : List Nat} {n : Nat} (hnd : S.Nodup) (h : ∀ B ∈ S, B < n) :
    S.length ≤ n := by
  have := nodup_subset_length hnd (U := List.range n) (fun B hB => List.mem_range.2 (h B hB))
  simpa using this

/-- the depth bound with a context: `S` are the nonterminals of the ancestors with the same
span, each reaching `A` by unit steps -/
theorem depth_le_aux (hc : ¬ Cyclic g) (hr : g.symsInRange = true) :
    ∀ pt : PT, ∀ (S : List Nat) (A i j : Nat), PT.ValidAt g toks pt (.n A) i j →
      S.Nodup → (∀ B ∈ S, B < g.nN) → (∀ B ∈ S, Plus (UnitStep g) B A) →
      pt.depth + S.length ≤ g.nN + (g.nN + 1) * (j - i) := by
  intro pt
  induction pt using PT.ind with
  | hleaf a p => intro S A i j h; cases h
  | hnode r kids ih =>
    intro S A i j h hnd hlt hplus
    cases h with
    | @node _ rl _ _ _ _ e hl v =>
      have hA : A < g.nN := hl ▸ lhs_lt_nN hr e
      have hAS : A ∉ S := fun hmem => hc ⟨A, hplus A hmem⟩
      have hnd' : (A :: S).Nodup := List.nodup_cons.2 ⟨hAS, hnd⟩
      have hlt' : ∀ B ∈ A :: S, B < g.nN := by
        intro B hB
        rcases List.mem_cons.1 hB with rfl | hB
        · exact hA
        · exact hlt B hB
      have hlen : S.length + 1 ≤ g.nN := by
        simpa using length_le_of_nodup_lt hnd' hlt'
      have hkids : ∀ k ∈ kids, k.depth + 1 + S.length ≤ g.nN + (g.nN + 1) * (j - i) := by
        intro k hk
        obtain ⟨X, a, b, hv, ha, hb, hfull⟩ := v.kid_info k hk
        have lv := hv.le
        cases X with
        | t c =>
          cases hv
          simp only [PT.depth]; omega
        | n B =>
          by_cases he : b - a = j - i
          · obtain ⟨p, hp, hrest⟩ := hfull he
            have hstep : UnitStep g A B := ⟨r, rl, p, e, hl, hp, hrest⟩
            have hplus' : ∀ C ∈ A :: S, Plus (UnitStep g) C B := by
              intro C hC
              rcases List.mem_cons.1 hC with rfl | hC
              · exact .single hstep
              · exact (hplus C hC).snoc hstep
            have := ih k hk (A :: S) B a b hv hnd' hlt' hplus'
            rw [he] at this
            simp only [List.length_cons] at this
            omega
          · have := ih k hk [] B a b hv List.nodup_nil (by simp) (by simp)
            simp only [List.length_nil, Nat.add_zero] at this
            have hlt2 : b - a + 1 ≤ j - i := by omega
            have hm := Nat.mul_le_mul_left (g.nN + 1) hlt2
            rw [Nat.mul_add] at hm
            omega
      have hd : PT.depthList kids ≤ g.nN + (g.nN + 1) * (j - i) - 1 - S.length :=
        depthList_le fun k hk => by have := hkids k hk; omega
      simp only [PT.depth]
      omega


theorem depth_le_span (hc : ¬ Cyclic g) (hr : g.symsInRange = true) {pt : PT} {A i j : Nat}
    (h : PT.ValidAt g toks pt (.n A) i j) : pt.depth ≤ g.nN + (g.nN + 1) * (j - i) := by
  simpa using depth_le_aux hc hr pt [] A i j h List.nodup_nil (by simp) (by simp)

theorem span_bound_le_derivFuel (g : Grammar) (n : Nat) :
    g.nN + (g.nN + 1) * n ≤ g.derivFuel n := by
  simp only [Grammar.derivFuel, Nat.mul_add]
  omega

end Yaep
