import Yaep.Lemmas.MakeParseAllFrame
/-!
# All-parses mode: `place_translation` of a well-typed pointer keeps the invariant
-/
namespace Yaep.MP
open Yaep

/-- the cell behind a slot -/
theorem SlotOf.cell {g : Grammar} {ok : Nat → Nat → Nat → Bool} {toks : List Nat} {s : St} {G : Ghost}
    {hole : Option (Nat × Nat)} (hwf : g.translWF = true) (hgood : AGood g ok toks s G hole)
    {n i : Nat} {T : Tree → Prop} (hslot : SlotOf g toks G s.states s.stack n i T) :
    n < s.heap.size ∧ rootId ≤ n ∧ ∃ nm c ks, s.heap.getD n .nil = .anode nm c ks ∧ i < ks.size ∧
      ∀ old, ks.getD i none = some old → PtrOK g toks G.ty s.heap old T := by
  rcases hslot with ⟨rfl, rfl, rfl⟩ | ⟨P, hP, han, rlP, q, X, h1, h2, h3, h4, rfl⟩
  · obtain ⟨ks, k1, k2, k3, k4⟩ := hgood.root
    exact ⟨k3, Nat.le_refl _, _, _, ks, k1, by omega, k4⟩
  · obtain ⟨rl, hst⟩ := hgood.states P hP
    have hr := hst.hr
    rw [h1] at hr; injection hr with hr; subst hr
    have hc := hst.cell
    rw [han] at hc
    obtain ⟨c1, c2, c3, nm, ks, c4, c5, c6, c7⟩ := hc
    have hslt := (Grammar.translWF_rule hwf h1).slot_lt _ _ (order_getD_eq_some.mp h3)
    refine ⟨c1, Nat.le_of_lt c2, nm, _, ks, c5, by omega, ?_⟩
    intro old hold
    obtain ⟨q', X', d1, d2, d3, d4⟩ := c7 i old hold
    have hq : q' = q := (Grammar.translWF_rule hwf h1).inj _ _ _ (order_getD_eq_some.mp d2)
      (order_getD_eq_some.mp h3)
    subst hq
    rw [h4] at d3; injection d3 with d3; subst d3
    exact d4

theorem AGood.place {g : Grammar} {ok : Nat → Nat → Nat → Bool} {toks : List Nat} {s s' : St}
    {G : Ghost} {hole : Option (Nat × Nat)} (hwf : g.translWF = true)
    (hgood : AGood g ok toks s G hole) {n i node : Nat} {T : Tree → Prop}
    (hslot : SlotOf g toks G s.states s.stack n i T) (hnode : PtrOK g toks G.ty s.heap node T)
    (hh : s'.heap = placeTranslation s.heap (n, i) node) (hs : s'.states = s.states)
    (hk : s'.stack = s.stack) (ht : s'.table = s.table) (hn : s'.termNodes = s.termNodes) :
    AGood g ok toks s' G (if hole = some (n, i) then none else hole) := by
  obtain ⟨hnlt, hnge, nm, c, ks, hc, hi, hold⟩ := hslot.cell hwf hgood
  obtain ⟨m', hpr, hpm⟩ := place_ptr hc hnlt hold hnode
  rw [← hh] at hpr hpm
  have hn2 : 2 ≤ n := hnge
  have hty : ∀ m, m < s.heap.size → G.ty m = G.ty m := fun _ _ => rfl
  obtain ⟨nm', c', ks', hc1, hc2⟩ := hpr.cell
  rw [hc] at hc1; injection hc1 with e1 e2 e3; subst e1; subst e2; subst e3
  have hnew : (ks.set! i (some m')).getD i none = some m' := by rw [getD_set!]; simp [hi]
  have hoth : ∀ d, d ≠ i → (ks.set! i (some m')).getD d none = ks.getD d none := by
    intro d hd; rw [getD_set!, if_neg (fun hh => hd hh.1.symm)]
  refine ⟨?_, ?_, ?_, by rw [hs]; exact hgood.rootSt, by rw [hk]; exact hgood.sorted,
    by rw [hk]; exact hgood.spos, ?_, by rw [hs, hk]; exact hgood.noShare, ?_, ?_, ?_, ?_⟩
  · rw [hpr.other _ (by show 0 < _; omega) (by show 0 ≠ n; omega)]; exact hgood.h0
  · rw [hpr.other _ (by show 1 < _; omega) (by show 1 ≠ n; omega)]; exact hgood.h1
  · -- the result cell
    obtain ⟨rks, k1, k2, k3, k4⟩ := hgood.root
    by_cases hroot : n = rootId
    · subst hroot
      rw [hc] at k1; injection k1 with e1 e2 e3; subst e1; subst e2; subst e3
      have hi0 : i = 0 := by omega
      subst hi0
      refine ⟨_, hc2, by simp [k2], by have := hpr.ext.1; omega, ?_⟩
      intro m hm
      rw [hnew] at hm; injection hm with hm; subst hm
      rcases hslot with ⟨_, _, rfl⟩ | ⟨P, hP, han, _⟩
      · exact hpm
      · obtain ⟨rl, hst⟩ := hgood.states P hP
        have := hst.cell; rw [han] at this
        exact absurd this.2.1 (Nat.lt_irrefl _)
    · refine ⟨rks, by rw [hpr.other _ k3 (Ne.symm hroot)]; exact k1, k2,
        by have := hpr.ext.1; omega, ?_⟩
      intro m hm
      exact (k4 m hm).mono hpr.ext hty (fun _ h => h)
  · -- the states
    intro sid hsid
    rw [hk] at hsid
    obtain ⟨rl, hst⟩ := hgood.states sid hsid
    refine ⟨rl, ?_⟩
    rw [hs, hk]
    refine hst.frame ?_ rfl (Nat.le_refl _) rfl rfl rfl rfl (Nat.le_refl _) (fun _ _ => rfl) (fun h => h)
    intro a han
    have hcl := hst.cell
    rw [han] at hcl
    by_cases hna : a = n
    · subst hna
      -- the state whose cell is written
      rcases hslot with ⟨hr, _, _⟩ | ⟨P, hP, hanP, rlP, q, X, h1, h2, h3, h4, hT⟩
      · exact absurd (hr ▸ hcl.2.1) (Nat.lt_irrefl _)
      · have hPs : P = sid := hgood.noShare P hP sid hsid a hanP han
        subst hPs
        have hr := hst.hr
        rw [h1] at hr; injection hr with hr; subst hr
        obtain ⟨c1, c2, c3, nm1, ks1, c4, c5, c6, c7⟩ := hcl
        rw [hc] at c5; injection c5 with e1 e2 e3; subst e1; subst e2; subst e3
        refine ⟨by have := hpr.ext.1; omega, c2, c3, nm, _, c4, hc2, by simp [c6], ?_⟩
        intro d m hm
        by_cases hd : d = i
        · subst hd
          rw [hnew] at hm; injection hm with hm; subst hm
          exact ⟨q, X, h2, h3, h4, hT ▸ hpm⟩
        · rw [hoth d hd] at hm
          obtain ⟨q', X', d1, d2, d3, d4⟩ := c7 d m hm
          exact ⟨q', X', d1, d2, d3, d4.mono hpr.ext hty (fun _ h => h)⟩
    · exact hcl.frame hpr.ext hty (hpr.other a hcl.1 hna) rfl rfl
  · -- the cells
    intro k hklt hkroot hkan
    rw [hs, hk]
    have hkold : k < s.heap.size := by
      rcases Nat.lt_or_ge k s.heap.size with h | h
      · exact h
      · obtain ⟨a, b, hab⟩ := hpr.fresh k h hklt
        obtain ⟨_, _, _, hkan⟩ := hkan
        rw [hab] at hkan; cases hkan
    by_cases hkn : k = n
    · subst hkn
      rcases hgood.cells k hkold hkroot ⟨nm, c, ks, hc⟩ with ⟨_, hno⟩ | hown
      · rcases hslot with ⟨hr, _, _⟩ | ⟨P, hP, hanP, _⟩
        · exact absurd hr hkroot
        · exact absurd hanP (hno P hP)
      · exact Or.inr hown
    · have hsame := hpr.other k hkold hkn
      rw [hsame] at hkan
      rcases hgood.cells k hkold hkroot hkan with ⟨hf, hno⟩ | hown
      · exact Or.inl ⟨hf.frame hkold hpr.ext hty hsame, hno⟩
      · exact Or.inr hown
  · -- obligations
    intro sid hsid pl hproc hhole
    rw [hs] at hproc
    rw [hk] at hsid
    rw [hs, hk]
    by_cases hpl : pl = (n, i)
    · subst hpl
      left
      simp only
      rw [getKid_of_cell hc2, hnew]; simp
    · have hhole' : hole ≠ some pl := by
        intro e; rw [e] at hhole
        simp only [Option.some.injEq] at hhole
        rw [if_neg hpl] at hhole
        exact hhole rfl
      rcases hgood.nn sid hsid pl hproc hhole' with h1 | h1
      · exact Or.inl (getKid_mono_place hpr h1)
      · exact Or.inr h1
  · intro pl r o nd hmem
    rw [ht] at hmem
    obtain ⟨t1, t2, ⟨nm1, c1, ks1, t3⟩, t4⟩ := hgood.table pl r o nd hmem
    refine ⟨by have := hpr.ext.1; omega, t2, ?_, t4⟩
    rcases hpr.ext.2 nd t1 with e | ⟨nm2, c2, ks2, ks2', _, e⟩
    · exact ⟨nm1, c1, ks1, by rw [e]; exact t3⟩
    · exact ⟨nm2, c2, ks2', e⟩
  · intro k nd hmem
    rw [hn] at hmem
    obtain ⟨t1, a, t2, t3⟩ := hgood.terms k nd hmem
    refine ⟨by have := hpr.ext.1; omega, a, t2, ?_⟩
    rcases hpr.ext.2 nd t1 with e | ⟨nm2, c2, ks2, ks2', e, _⟩
    · rw [e]; exact t3
    · rw [t3] at e; cases e

end Yaep.MP
