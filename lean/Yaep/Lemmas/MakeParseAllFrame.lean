import Yaep.Lemmas.MakeParseAllState
/-!
# All-parses mode: frame lemmas for the invariant
-/
namespace Yaep.MP
open Yaep

/-- the invariant of a state survives a change that leaves alone its own fields, its ghost data,
its own cell, and the rule / abstract node / processed split points of its parent -/
theorem StateOK.frame {g : Grammar} {ok : Nat → Nat → Nat → Bool} {toks : List Nat} {G G' : Ghost}
    {h h' : Array MNode} {sts sts' : Array PState} {stack stack' : List Nat} {sid : Nat} {rl : Rule}
    (hs : StateOK g ok toks G h sts stack sid rl)
    (hcell : ∀ a, (sts.getD sid default).anode = some a →
      LiveCell g toks G' h' sid (sts.getD sid default) rl a)
    (hsid : sts'.getD sid default = sts.getD sid default) (hsz : sts.size ≤ sts'.size)
    (hsp : G'.ssp sid = G.ssp sid) (hfin : G'.sfin sid = G.sfin sid)
    (hprule : (sts'.getD (sts.getD sid default).parent default).rule =
      (sts.getD (sts.getD sid default).parent default).rule)
    (hpan : (sts'.getD (sts.getD sid default).parent default).anode =
      (sts.getD (sts.getD sid default).parent default).anode)
    (hppos : (sts'.getD (sts.getD sid default).parent default).pos ≤
      (sts.getD (sts.getD sid default).parent default).pos)
    (hpsp : ∀ q, (sts.getD (sts.getD sid default).parent default).pos ≤ q →
      G'.ssp (sts.getD sid default).parent q = G.ssp (sts.getD sid default).parent q)
    (hpst : (sts.getD sid default).parent ∈ stack → (sts.getD sid default).parent ∈ stack') :
    StateOK g ok toks G' h' sts' stack' sid rl := by
  refine ⟨by have := hs.lt; omega, by rw [hsid]; exact hs.parLt, by rw [hsid]; exact hs.hr,
    by rw [hsid]; exact hs.posLe, ?_, ?_, by rw [hsp, hfin]; exact hs.spFin, ?_, ?_, ?_, ?_⟩
  · rw [hsid, hsp]; exact hs.item
  · rw [hsid, hsp]; exact hs.pos0
  · rw [hsid, hsp]; exact hs.untr
  · rw [hsid, hpan]; exact hs.pa
  · rw [hsid, hfin]
    rcases hs.tgt with ⟨t1, t2, t3⟩ | ⟨t1, rlP, qP, X, aP, t2, t3, t4, t5, t6, t7⟩
    · exact Or.inl ⟨t1, t2, t3⟩
    · refine Or.inr ⟨hpst t1, rlP, qP, X, aP, by rw [hprule]; exact t2, by rw [hpan]; exact t3, t4,
        by omega, t6, ?_⟩
      rw [hpsp qP t5, hpsp (qP + 1) (by omega)]; exact t7
  · rw [hsid]
    have hc := hs.cell
    cases han : (sts.getD sid default).anode with
    | none => rw [han] at hc; exact hc
    | some a => exact hcell a han

/-- the cell of a state is untouched -/
theorem LiveCell.frame {g : Grammar} {toks : List Nat} {G G' : Ghost} {h h' : Array MNode} {sid : Nat}
    {st : PState} {rl : Rule} {a : Nat} (hc : LiveCell g toks G h sid st rl a)
    (he : HeapExt h h') (hty : ∀ m, m < h.size → G'.ty m = G.ty m)
    (hown : h'.getD a .nil = h.getD a .nil)
    (hsp : G'.ssp sid = G.ssp sid) (hfin : G'.sfin sid = G.sfin sid) :
    LiveCell g toks G' h' sid st rl a := by
  obtain ⟨c1, c2, c3, nm, ks, c4, c5, c6, c7⟩ := hc
  refine ⟨by have := he.1; omega, c2, by rw [hty a c1, hfin]; exact c3, nm, ks, c4,
    by rw [hown]; exact c5, c6, ?_⟩
  intro d m hm
  obtain ⟨q, X, d1, d2, d3, d4⟩ := c7 d m hm
  exact ⟨q, X, d1, d2, d3, by rw [hsp]; exact d4.mono he hty (fun _ ht => ht)⟩

theorem FinOK.frame {g : Grammar} {toks : List Nat} {G G' : Ghost} {h h' : Array MNode} {n : Nat}
    (hf : FinOK g toks G h n) (hn : n < h.size) (he : HeapExt h h')
    (hty : ∀ m, m < h.size → G'.ty m = G.ty m) (hown : h'.getD n .nil = h.getD n .nil) :
    FinOK g toks G' h' n := by
  obtain ⟨rl, nm, ks, sp, f1, f2, f3, f4, f5, f6, f7, f8, f9⟩ := hf
  refine ⟨rl, nm, ks, sp, by rw [hty n hn]; exact f1, f2, by rw [hown]; exact f3, f4,
    by rw [hty n hn]; exact f5, by rw [hty n hn]; exact f6, f7, ?_, f9⟩
  intro d hd
  obtain ⟨m, hm, hcase⟩ := f8 d hd
  refine ⟨m, hm, ?_⟩
  rcases hcase with ⟨q, X, o1, o2, o3⟩ | o
  · exact Or.inl ⟨q, X, o1, o2, o3.mono he hty (fun _ ht => ht)⟩
  · exact Or.inr o

/-- non-null slots stay non-null when the heap grows -/
theorem getKid_mono_place {h h' : Array MNode} {n i m' : Nat} (hp : PlaceRes h h' n i m') {pl : Nat × Nat}
    (hk : getKid h pl.1 pl.2 ≠ none) : getKid h' pl.1 pl.2 ≠ none := by
  have hlt : pl.1 < h.size := by
    rcases Nat.lt_or_ge pl.1 h.size with hlt | hge
    · exact hlt
    · exfalso; apply hk
      unfold getKid
      simp [Array.getD_eq_getD_getElem?, Array.getElem?_eq_none hge]
  by_cases hn : pl.1 = n
  · obtain ⟨nm, c, ks, c1, c2⟩ := hp.cell
    rw [hn] at hk ⊢
    rw [getKid_of_cell c1] at hk
    rw [getKid_of_cell c2, getD_set!]
    split
    · simp
    · exact hk
  · unfold getKid at hk ⊢
    rw [hp.other _ hlt hn]; exact hk

/-- where a translation may be put: the result slot, or the slot of a processed position of the cell
of a state on the stack; `T` is the type of the slot -/
def SlotOf (g : Grammar) (toks : List Nat) (G : Ghost) (sts : Array PState) (stack : List Nat)
    (n i : Nat) (T : Tree → Prop) : Prop :=
  (n = rootId ∧ i = 0 ∧ T = Tr g toks (.n g.axiomN) 0 toks.length) ∨
  (∃ P ∈ stack, (sts.getD P default).anode = some n ∧ ∃ rlP q X,
    g.rules[(sts.getD P default).rule]? = some rlP ∧ (sts.getD P default).pos ≤ q ∧
    rlP.order.getD q none = some i ∧ rlP.rhs[q]? = some X ∧
    T = Tr g toks X (G.ssp P q) (G.ssp P (q + 1)))

end Yaep.MP
