import Yaep.Model.HashTab
/-!
# Number theory for the hash table (C19): `higher_prime_number` returns a prime, and the
double-hashing probe sequence `(a + k·s) mod p` is a permutation of the slots when `p` is prime
and `0 < s < p`.  Core Lean only.
-/
namespace Yaep.Model.HashTab

def IsPrime (p : Nat) : Prop := 2 ≤ p ∧ ∀ d, d ∣ p → d = 1 ∨ d = p

/-! ## trial division -/

theorem le_mul_self' (i : Nat) : i ≤ i * i := by
  cases i with
  | zero => simp
  | succ k => exact Nat.le_mul_of_pos_left _ (Nat.succ_pos k)

theorem trialLoop_spec (n : Nat) : ∀ fuel i, 1 ≤ i → i ≤ n + 2 → n + 3 ≤ i + 2 * fuel →
    (trialLoop n fuel i = true ↔ ∀ j, i ≤ j → j % 2 = i % 2 → j * j ≤ n → n % j ≠ 0) := by
  intro fuel
  induction fuel with
  | zero => intro i h1 h2 h3; omega
  | succ fuel ih =>
    intro i h1 h2 h3
    unfold trialLoop
    by_cases hsq : i * i ≤ n
    · rw [if_pos hsq]
      by_cases hdiv : n % i = 0
      · rw [if_pos hdiv]
        constructor
        · intro h; cases h
        · intro h; exact absurd hdiv (h i (Nat.le_refl _) rfl hsq)
      · rw [if_neg hdiv]
        have hin : i ≤ n := Nat.le_trans (le_mul_self' i) hsq
        rw [ih (i + 2) (by omega) (by omega) (by omega)]
        constructor
        · intro h j hj hpar hjsq
          by_cases hji : j = i
          · subst hji; exact hdiv
          · exact h j (by omega) (by omega) hjsq
        · intro h j hj hpar hjsq
          exact h j (by omega) (by omega) hjsq
    · rw [if_neg hsq]
      constructor
      · intro _ j hj _ hjsq
        have : i * i ≤ j * j := Nat.mul_le_mul hj hj
        omega
      · intro _; rfl

theorem odd_of_dvd_odd {d n : Nat} (hn : n % 2 = 1) (hd : d ∣ n) : d % 2 = 1 := by
  obtain ⟨e, he⟩ := hd
  have : (d * e) % 2 = 1 := by rw [← he]; exact hn
  rw [Nat.mul_mod] at this
  rcases Nat.mod_two_eq_zero_or_one d with h | h
  · rw [h] at this; simp at this
  · exact h

theorem oddTrial_iff_prime (n : Nat) (hodd : n % 2 = 1) (h3 : 3 ≤ n) :
    oddTrial n = true ↔ IsPrime n := by
  unfold oddTrial
  rw [trialLoop_spec n n 3 (by omega) (by omega) (by omega)]
  constructor
  · intro h
    refine ⟨by omega, ?_⟩
    intro d hd
    apply Classical.byContradiction
    intro hcon
    have hd1 : d ≠ 1 := fun e => hcon (Or.inl e)
    have hdn : d ≠ n := fun e => hcon (Or.inr e)
    obtain ⟨e, he⟩ := hd
    have hdodd : d % 2 = 1 := odd_of_dvd_odd hodd ⟨e, he⟩
    have heodd : e % 2 = 1 := odd_of_dvd_odd hodd ⟨d, by rw [he, Nat.mul_comm]⟩
    have he1 : e ≠ 1 := by
      intro h1; rw [h1, Nat.mul_one] at he; exact hdn he.symm
    have hd3 : 3 ≤ d := by omega
    have he3 : 3 ≤ e := by omega
    rcases Nat.le_total d e with hle | hle
    · have : d * d ≤ n := by rw [he]; exact Nat.mul_le_mul_left d hle
      exact h d hd3 (by omega) this (by rw [he]; exact Nat.mul_mod_right d e)
    · have : e * e ≤ n := by rw [he]; exact Nat.mul_le_mul_right e hle
      exact h e he3 (by omega) this (by rw [he]; exact Nat.mul_mod_left d e)
  · intro hp j hj _ hjsq hmod
    have hjd : j ∣ n := Nat.dvd_of_mod_eq_zero hmod
    rcases hp.2 j hjd with h1 | h1
    · omega
    · subst h1
      have : j * 2 ≤ j * j := Nat.mul_le_mul_left j (by omega)
      omega

/-! ## Euclid -/

theorem factorial_pos (n : Nat) : 0 < factorial n := by
  induction n with
  | zero => simp [factorial]
  | succ k ih => simp only [factorial]; exact Nat.mul_pos (Nat.succ_pos k) ih

theorem dvd_factorial {k n : Nat} (hk : 0 < k) (hkn : k ≤ n) : k ∣ factorial n := by
  induction n with
  | zero => omega
  | succ m ih =>
    simp only [factorial]
    by_cases h : k = m + 1
    · subst h; exact Nat.dvd_mul_right _ _
    · exact Nat.dvd_trans (ih (by omega)) (Nat.dvd_mul_left _ _)

theorem exists_prime_factor : ∀ n, 2 ≤ n → ∃ p, IsPrime p ∧ p ∣ n := by
  intro n
  induction n using Nat.strongRecOn with
  | _ n ih =>
    intro hn
    by_cases hp : ∀ d, d ∣ n → d = 1 ∨ d = n
    · exact ⟨n, ⟨hn, hp⟩, Nat.dvd_refl n⟩
    · have : ∃ d, d ∣ n ∧ d ≠ 1 ∧ d ≠ n := by
        apply Classical.byContradiction
        intro hne
        apply hp
        intro d hd
        apply Classical.byContradiction
        intro hcon
        exact hne ⟨d, hd, fun e => hcon (Or.inl e), fun e => hcon (Or.inr e)⟩
      obtain ⟨d, hd, hd1, hdn⟩ := this
      have hdpos : 0 < d := Nat.pos_of_dvd_of_pos hd (by omega)
      have hdle : d ≤ n := Nat.le_of_dvd (by omega) hd
      obtain ⟨p, hpp, hpd⟩ := ih d (by omega) (by omega)
      exact ⟨p, hpp, Nat.dvd_trans hpd hd⟩

theorem exists_prime_gt (c : Nat) : ∃ p, IsPrime p ∧ c < p ∧ p ≤ factorial c + 1 := by
  have hf := factorial_pos c
  obtain ⟨p, hp, hdvd⟩ := exists_prime_factor (factorial c + 1) (by omega)
  refine ⟨p, hp, ?_, Nat.le_of_dvd (by omega) hdvd⟩
  apply Classical.byContradiction
  intro hle
  have hpc : p ≤ c := by omega
  have h1 : p ∣ factorial c := dvd_factorial (by have := hp.1; omega) hpc
  have h2 : p ∣ 1 := (Nat.dvd_add_right h1).mp hdvd
  have := Nat.le_of_dvd (by omega) h2
  have := hp.1
  omega

theorem prime_odd {p : Nat} (hp : IsPrime p) (h3 : 3 ≤ p) : p % 2 = 1 := by
  rcases Nat.mod_two_eq_zero_or_one p with h | h
  · have : 2 ∣ p := Nat.dvd_of_mod_eq_zero h
    rcases hp.2 2 this with e | e <;> omega
  · exact h

theorem searchPrime_spec : ∀ fuel c, c % 2 = 1 → 3 ≤ c →
    (∃ p, IsPrime p ∧ c ≤ p ∧ p < c + 2 * fuel) →
    IsPrime (searchPrime fuel c) ∧ c ≤ searchPrime fuel c ∧ searchPrime fuel c % 2 = 1 := by
  intro fuel
  induction fuel with
  | zero => intro c _ _ ⟨p, _, h1, h2⟩; omega
  | succ fuel ih =>
    intro c hodd h3 ⟨p, hp, hcp, hpb⟩
    unfold searchPrime
    by_cases ht : oddTrial c = true
    · rw [if_pos ht]
      exact ⟨(oddTrial_iff_prime c hodd h3).mp ht, Nat.le_refl _, hodd⟩
    · rw [if_neg ht]
      have hpc : p ≠ c := by
        intro e; subst e; exact ht ((oddTrial_iff_prime p hodd h3).mpr hp)
      have hpodd := prime_odd hp (by omega)
      have := ih (c + 2) (by omega) (by omega) ⟨p, hp, by omega, by omega⟩
      exact ⟨this.1, by omega, this.2.2⟩

theorem higherPrime_spec (n : Nat) :
    IsPrime (higherPrime n) ∧ (n / 2) * 2 + 3 ≤ higherPrime n ∧ higherPrime n % 2 = 1 := by
  unfold higherPrime
  obtain ⟨p, hp, hcp, hpb⟩ := exists_prime_gt ((n / 2) * 2 + 3)
  have hf := factorial_pos ((n / 2) * 2 + 3)
  exact searchPrime_spec _ _ (by omega) (by omega) ⟨p, hp, by omega, by omega⟩

theorem higherPrime_prime (n : Nat) : IsPrime (higherPrime n) := (higherPrime_spec n).1

theorem higherPrime_gt (n : Nat) : n + 2 ≤ higherPrime n := by
  have := (higherPrime_spec n).2.1; omega

/-! ## the probe sequence -/

/-- the `k`-th probed index: `(a + k·s) mod p` -/
def pidx (p a s k : Nat) : Nat := (a + k * s) % p

theorem pidx_lt (p a s k : Nat) (hp : 0 < p) : pidx p a s k < p := Nat.mod_lt _ hp

theorem next_pidx (p a s k : Nat) (hs : s < p) :
    next p s (pidx p a s k) = pidx p a s (k + 1) := by
  have hp : 0 < p := by omega
  have hlt := pidx_lt p a s k hp
  have e : pidx p a s (k + 1) = (pidx p a s k + s) % p := by
    unfold pidx
    rw [Nat.mod_add_mod, Nat.succ_mul, Nat.add_assoc]
  rw [e]
  unfold next
  by_cases h : pidx p a s k + s ≥ p
  · rw [if_pos h, Nat.mod_eq_sub_mod h, Nat.mod_eq_of_lt (by omega)]
  · rw [if_neg h, Nat.mod_eq_of_lt (by omega)]

theorem coprime_of_prime {p s : Nat} (hp : IsPrime p) (h0 : 0 < s) (hs : s < p) :
    Nat.Coprime p s := by
  have hg : Nat.gcd p s ∣ p := Nat.gcd_dvd_left p s
  have hg2 : Nat.gcd p s ∣ s := Nat.gcd_dvd_right p s
  rcases hp.2 _ hg with h | h
  · exact h
  · have := Nat.le_of_dvd h0 hg2
    omega

theorem pidx_inj {p a s i j : Nat} (hp : IsPrime p) (h0 : 0 < s) (hs : s < p)
    (hi : i < p) (hj : j < p) (h : pidx p a s i = pidx p a s j) : i = j := by
  have hcop := coprime_of_prime hp h0 hs
  have key : ∀ i j, i ≤ j → j < p → pidx p a s i = pidx p a s j → i = j := by
    intro i j hij hj h
    unfold pidx at h
    have h1 : (a + j * s - (a + i * s)) % p = 0 := Nat.sub_mod_eq_zero_of_mod_eq h.symm
    have h2 : a + j * s - (a + i * s) = (j - i) * s := by
      rw [Nat.sub_mul]
      have : i * s ≤ j * s := Nat.mul_le_mul_right s hij
      omega
    rw [h2] at h1
    have h3 : p ∣ (j - i) * s := Nat.dvd_of_mod_eq_zero h1
    have h4 : p ∣ j - i := Nat.Coprime.dvd_of_dvd_mul_right hcop h3
    rcases Nat.eq_zero_or_pos (j - i) with h5 | h5
    · omega
    · have := Nat.le_of_dvd h5 h4
      omega
  rcases Nat.le_total i j with hij | hij
  · exact key i j hij hj h
  · exact (key j i hij hi h.symm).symm

/-- the first `p` probes visit every slot -/
theorem pidx_surj {p a s : Nat} (hp : IsPrime p) (h0 : 0 < s) (hs : s < p) (e : Nat) (he : e < p) :
    ∃ k, k < p ∧ pidx p a s k = e := by
  have hp0 : 0 < p := by have := hp.1; omega
  apply Classical.byContradiction
  intro hne
  have hne' : ∀ k, k < p → pidx p a s k ≠ e := fun k hk h => hne ⟨k, hk, h⟩
  let L := (List.range p).map (pidx p a s)
  have hnodup : L.Nodup := by
    have : (List.range p).Nodup := List.nodup_range
    rw [List.nodup_iff_pairwise_ne] at this ⊢
    rw [List.pairwise_map]
    refine List.Pairwise.imp_of_mem ?_ this
    intro x y hx hy hxy hxy'
    exact hxy (pidx_inj hp h0 hs (List.mem_range.mp hx) (List.mem_range.mp hy) hxy')
  have hsub : L ⊆ (List.range p).erase e := by
    intro x hx
    obtain ⟨k, hk, hkx⟩ := List.mem_map.mp hx
    have hk' := List.mem_range.mp hk
    have hxe : x ≠ e := by rw [← hkx]; exact hne' k hk'
    exact (List.mem_erase_of_ne hxe).mpr (List.mem_range.mpr (by rw [← hkx]; exact pidx_lt _ _ _ _ hp0))
  have hlen := List.Nodup.length_le_of_subset hnodup hsub
  have hL : L.length = p := by simp [L]
  have he' : e ∈ List.range p := List.mem_range.mpr he
  rw [List.length_erase_of_mem he', List.length_range, hL] at hlen
  omega

end Yaep.Model.HashTab
