import Yaep.Lemmas.MakeParseSoundInv
/-!
# Soundness of the model of `make_parse`, part 4: frame lemmas for the invariant

What a change of the tree memory above a window, or of one open slot, does not disturb; the
transition from "waiting for the child" to "top of the stack" when the child delivers.
-/
namespace Yaep.MP
open Yaep

/-- `h'` agrees with `h` below `hi` except for the slot `tgt` -/
def SlotFrame (h h' : Array MNode) (hi : Nat) (tgt : Nat × Nat) : Prop :=
  (∀ n, n < hi → n ≠ tgt.1 → h'.getD n .nil = h.getD n .nil) ∧
  (∀ nm c ks, h.getD tgt.1 .nil = .anode nm c ks →
    ∃ ks', h'.getD tgt.1 .nil = .anode nm c ks' ∧ ks'.size = ks.size ∧
      ∀ d, d ≠ tgt.2 → ks'.getD d none = ks.getD d none)

def StsFrame (sts sts' : Array PState) (sb : Nat) : Prop :=
  ∀ i, i < sb → sts'.getD i default = sts.getD i default

theorem SlotFrame.agreeOn {h h' : Array MNode} {hi : Nat} {tgt : Nat × Nat} (hf : SlotFrame h h' hi tgt)
    {lo hi' : Nat} (h1 : tgt.1 < lo) (h2 : hi' ≤ hi) : AgreeOn h h' lo hi' :=
  fun n hn1 hn2 => hf.1 n (by omega) (by omega)

/-- everything below `hi` is unchanged -/
theorem SlotFrame.of_agree {h h' : Array MNode} {hi : Nat} (tgt : Nat × Nat)
    (ha : ∀ n, n < hi → h'.getD n .nil = h.getD n .nil) (ht : tgt.1 < hi) : SlotFrame h h' hi tgt :=
  ⟨fun n hn _ => ha n hn, fun nm c ks hc => ⟨ks, by rw [ha _ ht]; exact hc, rfl, fun _ _ => rfl⟩⟩

theorem SlotFrame.mono {h h' : Array MNode} {hi hi' : Nat} {tgt : Nat × Nat} (hf : SlotFrame h h' hi tgt)
    (hle : hi' ≤ hi) : SlotFrame h h' hi' tgt :=
  ⟨fun n hn hne => hf.1 n (by omega) hne, hf.2⟩

theorem BelowOK.tgt_lt {g : Grammar} {ok : Nat → Nat → Nat → Bool} {toks : List Nat} {h : Array MNode}
    {sts : Array PState} : ∀ {rest : List Nat} {frs : List Frame} {hi sb : Nat} {tgt : Nat × Nat}
    {A cLo cFin : Nat}, BelowOK g ok toks h sts rest frs hi sb tgt A cLo cFin → tgt.1 < hi
  | [], frs, hi, sb, tgt, A, cLo, cFin, hb => by
    simp only [BelowOK] at hb
    obtain ⟨_, rfl, _, _, _, h6, _⟩ := hb
    exact h6
  | sid :: rest, [], hi, sb, tgt, A, cLo, cFin, hb => by simp [BelowOK] at hb
  | sid :: rest, fr :: frs, hi, sb, tgt, A, cLo, cFin, hb => by
    simp only [BelowOK] at hb
    obtain ⟨_, _, rl, d, pa, _, _, _, _, _, _, _, hm⟩ := hb
    split at hm
    · obtain ⟨rfl, h2, h3, _⟩ := hm
      show _ < hi
      simp only; omega
    · obtain ⟨_, _, h3, h4⟩ := hm
      have := BelowOK.tgt_lt h4
      omega



theorem SlotsOK.frame {g : Grammar} {h h' : Array MNode} {hi hi' : Nat} {rl : Rule} {an lo frm : Nat}
    {done : List PT} {skip skip' : Option Nat} (hs : SlotsOK g h hi rl an lo frm done skip)
    (hsk : ∀ d, some d ≠ skip' → some d ≠ skip)
    (hhi : hi ≤ hi') (hag : AgreeOn h h' lo hi)
    (hcell : ∀ nm c ks, h.getD an .nil = .anode nm c ks →
      ∃ ks', h'.getD an .nil = .anode nm c ks' ∧ ks'.size = ks.size ∧
        ∀ d, some d ≠ skip' → ks'.getD d none = ks.getD d none) :
    SlotsOK g h' hi' rl an lo frm done skip' := by
  obtain ⟨nm, ks, h1, h2, h3, h4⟩ := hs
  obtain ⟨ks', h5, h6, h7⟩ := hcell nm rl.cost ks h2
  refine ⟨nm, ks', h1, h5, by rw [h6, h3], ?_⟩
  intro d hd
  obtain ⟨h8, h9⟩ := h4 d (hsk d hd)
  refine ⟨?_, ?_⟩
  · intro q hq1 hq2
    obtain ⟨cl, h10, h11⟩ := h8 q hq1 hq2
    exact ⟨cl, by rw [h7 d hd]; exact h10, Den.frame hhi _ _ _ _ (Nat.le_refl _) hag h11⟩
  · intro hq
    rw [h7 d hd]; exact h9 hq

theorem BelowOK.frame {g : Grammar} {ok : Nat → Nat → Nat → Bool} {toks : List Nat}
    {h h' : Array MNode} {sts sts' : Array PState} :
    ∀ {rest : List Nat} {frs : List Frame} {hi sb : Nat} {tgt : Nat × Nat} {A cLo cFin : Nat},
      BelowOK g ok toks h sts rest frs hi sb tgt A cLo cFin → SlotFrame h h' hi tgt →
      StsFrame sts sts' sb → BelowOK g ok toks h' sts' rest frs hi sb tgt A cLo cFin
  | [], frs, hi, sb, tgt, A, cLo, cFin, hb, hf, _ => by
    simp only [BelowOK] at hb ⊢
    obtain ⟨h1, h2, h3, h4, h5, h6, ks, h7, h8⟩ := hb
    subst h2
    obtain ⟨ks', h9, h10, _⟩ := hf.2 _ _ _ h7
    exact ⟨h1, rfl, h3, h4, h5, h6, ks', h9, by rw [h10, h8]⟩
  | sid :: rest, [], hi, sb, tgt, A, cLo, cFin, hb, _, _ => by simp [BelowOK] at hb
  | sid :: rest, fr :: frs, hi, sb, tgt, A, cLo, cFin, hb, hf, hs => by
    simp only [BelowOK] at hb ⊢
    obtain ⟨h1, h2, rl, d, pa, h3, h4, h5, h6, h7, h8, h9, hm⟩ := hb
    have e1 : sts'.getD sid default = sts.getD sid default := hs sid h1
    have e2 : sts'.getD (sts.getD sid default).parent default =
        sts.getD (sts.getD sid default).parent default := hs _ (by omega)
    rw [e1, e2]
    refine ⟨h1, h2, rl, d, pa, h3, h4, h5, h6, h7, h8, h9, ?_⟩
    split at hm
    · rename_i an han
      obtain ⟨rfl, m2, m3, m4, m5, m6⟩ := hm
      have hpa := BelowOK.tgt_lt m6
      simp only at hpa
      refine ⟨rfl, m2, m3, ?_, ?_, ?_⟩
      · refine m4.frame (fun _ hd => hd) (Nat.le_refl _) (hf.agreeOn (by simpa using m2) (Nat.le_refl _)) ?_
        intro nm c ks hc
        obtain ⟨ks', k1, k2, k3⟩ := hf.2 nm c ks hc
        exact ⟨ks', k1, k2, fun d' hd' => k3 d' (by intro e; exact hd' (by simp [e]))⟩
      · have hne : pa ≠ an := by omega
        have : h'.getD pa .nil = h.getD pa .nil := hf.1 pa (by omega) hne
        unfold getKid at m5 ⊢
        rw [this]; exact m5
      · refine BelowOK.frame m6 ?_ (fun i hi' => hs i (by omega))
        exact SlotFrame.of_agree _ (fun n hn => hf.1 n (by omega) (by simp; omega)) hpa
    · obtain ⟨m1, m2, m3, m4⟩ := hm
      exact ⟨m1, m2, m3, BelowOK.frame m4 (hf.mono m3) (fun i hi' => hs i (by omega))⟩

/-- the open place of the states below is a slot of an abstract-node cell -/
theorem BelowOK.tgt_valid {g : Grammar} {ok : Nat → Nat → Nat → Bool} {toks : List Nat}
    {h : Array MNode} {sts : Array PState} (hwf : g.translWF = true) :
    ∀ {rest : List Nat} {frs : List Frame} {hi sb : Nat} {tgt : Nat × Nat} {A cLo cFin : Nat},
      BelowOK g ok toks h sts rest frs hi sb tgt A cLo cFin →
      ∃ nm c ks, h.getD tgt.1 .nil = .anode nm c ks ∧ tgt.2 < ks.size
  | [], frs, hi, sb, tgt, A, cLo, cFin, hb => by
    simp only [BelowOK] at hb
    obtain ⟨_, rfl, _, _, _, _, ks, h7, h8⟩ := hb
    exact ⟨_, _, ks, h7, by simp [h8]⟩
  | sid :: rest, [], hi, sb, tgt, A, cLo, cFin, hb => by simp [BelowOK] at hb
  | sid :: rest, fr :: frs, hi, sb, tgt, A, cLo, cFin, hb => by
    simp only [BelowOK] at hb
    obtain ⟨_, _, rl, d, pa, h3, _, h5, _, _, _, _, hm⟩ := hb
    split at hm
    · obtain ⟨rfl, _, _, ⟨nm, ks, s1, s2, s3, _⟩, _⟩ := hm
      have hlt := (Grammar.translWF_rule hwf h3).slot_lt _ _ (order_getD_eq_some.mp h5)
      exact ⟨nm, _, ks, s2, by simp only; omega⟩
    · obtain ⟨_, _, _, h4⟩ := hm
      exact BelowOK.tgt_valid hwf h4

/-- writing into an empty slot -/
theorem place_spec {h : Array MNode} {n i node : Nat} {nm : String} {c : Nat} {ks : Array (Option Nat)}
    (hc : h.getD n .nil = .anode nm c ks) (hi : i < ks.size) (hn : n < h.size)
    (hk : getKid h n i = none) :
    (placeTranslation h (n, i) node).size = h.size ∧
    (∀ m, m ≠ n → (placeTranslation h (n, i) node).getD m .nil = h.getD m .nil) ∧
    (placeTranslation h (n, i) node).getD n .nil = .anode nm c (ks.set! i (some node)) ∧
    getKid (placeTranslation h (n, i) node) n i = some node := by
  rw [placeTranslation_none hk]
  refine ⟨setKid_size _ _ _ _, fun m hm => setKid_getD_ne hm, setKid_getD_same hc hn, ?_⟩
  rw [getKid_of_cell (setKid_getD_same hc hn), getD_set!]
  simp [hi]

theorem place_slotFrame {h : Array MNode} {n i node hi : Nat} {nm : String} {c : Nat}
    {ks : Array (Option Nat)} (hc : h.getD n .nil = .anode nm c ks) (hi' : i < ks.size)
    (hn : n < h.size) (hk : getKid h n i = none) :
    SlotFrame h (placeTranslation h (n, i) node) hi (n, i) := by
  obtain ⟨_, h2, h3, _⟩ := place_spec (node := node) hc hi' hn hk
  refine ⟨fun m _ hm => h2 m hm, ?_⟩
  intro nm' c' ks' hc'
  simp only at hc'
  rw [hc] at hc'
  injection hc' with e1 e2 e3
  subst e1; subst e2; subst e3
  refine ⟨_, h3, by simp, ?_⟩
  intro d hd
  rw [getD_set!]
  simp only at hd
  rw [if_neg (fun hh => hd hh.1.symm)]

theorem SlotFrame.trans {h h' h'' : Array MNode} {hi : Nat} {tgt : Nat × Nat}
    (h1 : SlotFrame h h' hi tgt) (h2 : SlotFrame h' h'' hi tgt) : SlotFrame h h'' hi tgt := by
  refine ⟨fun n hn hne => by rw [h2.1 n hn hne, h1.1 n hn hne], ?_⟩
  intro nm c ks hc
  obtain ⟨ks', a1, a2, a3⟩ := h1.2 nm c ks hc
  obtain ⟨ks'', b1, b2, b3⟩ := h2.2 nm c ks' a1
  exact ⟨ks'', b1, by rw [b2, a2], fun d hd => by rw [b3 d hd, a3 d hd]⟩

theorem push_slotFrame {h : Array MNode} {x : MNode} {hi : Nat} (tgt : Nat × Nat) (hhi : hi ≤ h.size)
    (ht : tgt.1 < hi) : SlotFrame h (h.push x) hi tgt :=
  SlotFrame.of_agree tgt (fun n hn => getD_push_lt _ _ _ _ (by omega)) ht

end Yaep.MP
