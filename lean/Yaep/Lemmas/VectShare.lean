import Yaep.Model.VectShare
/-!
# Lemmas for the sharing of transition / reduce vectors

The invariant `Inv s c` ties a state of the step model to a content function `c ti w` (the list
of elements added so far to vector `w` of triple `ti`).
-/
namespace Yaep.VS

@[simp] theorem Triple.get_set (T : Triple) (w w' : Which) (v : Vect) :
    (T.set w v).get w' = if w' = w then v else T.get w' := by
  cases w <;> cases w' <;> simp [Triple.get, Triple.set]

/-! ### `vect_els_eq` and the search in the table -/

theorem eqLoop_spec (s : State) (p q : Ptr) (A B : List Int) (hA : arr s p = some A) (hB : arr s q = some B) :
    ∀ n i, i + n ≤ A.length → i + n ≤ B.length →
      eqLoop s p q n i = some (decide ((A.drop i).take n = (B.drop i).take n)) := by
  intro n
  induction n with
  | zero => intro i _ _; simp [eqLoop]
  | succ n ih =>
    intro i h1 h2
    have ha : elAt s p i = some A[i] := by
      simp [elAt, hA]
    have hb : elAt s q i = some B[i] := by
      simp [elAt, hB]
    simp only [eqLoop, ha, hb]
    rw [List.drop_eq_getElem_cons (by omega : i < A.length), List.drop_eq_getElem_cons (by omega : i < B.length)]
    simp only [List.take_succ_cons]
    by_cases h : A[i] = B[i]
    · simp [h, ih (i + 1) (by omega) (by omega)]
    · simp [h]

theorem vectElsEq_spec (s : State) (v1 v2 : Vect) (a b : List Int)
    (h1 : arr s v1.els = some a) (l1 : v1.len = a.length)
    (h2 : arr s v2.els = some b) (l2 : v2.len = b.length) :
    vectElsEq s v1 v2 = some (decide (a = b)) := by
  unfold vectElsEq
  by_cases hl : v1.len = v2.len
  · have := eqLoop_spec s v1.els v2.els a b h1 h2 v1.len 0 (by omega) (by omega)
    simp only [hl, bne_self_eq_false, Bool.false_eq_true, ↓reduceIte]
    rw [← hl, this]
    simp [l1, show b.length = a.length by omega ▸ List.take_length (l := b)]
  · have : a ≠ b := by intro e; subst e; omega
    simp [hl, this]

theorem tabFind_spec (s : State) (c : Nat → Which → List Int) (w : Which) (v : Vect) (x : List Int)
    (hv : arr s v.els = some x) (lv : v.len = x.length) :
    ∀ l : List Nat,
      (∀ e ∈ l, ∃ E, s.triples[e]? = some E ∧ arr s (E.get w).els = some (c e w) ∧ (E.get w).len = (c e w).length) →
      tabFindWith vectElsEq s w v l = some (l.find? (fun e => decide (c e w = x))) := by
  intro l
  induction l with
  | nil => intro _; rfl
  | cons e rest ih =>
    intro h
    obtain ⟨E, hE, hEa, hEl⟩ := h e (by simp)
    have := vectElsEq_spec s (E.get w) v (c e w) x hEa hEl hv lv
    simp only [tabFindWith, hE, this, List.find?_cons]
    by_cases hc : c e w = x
    · simp [hc]
    · simp only [hc, decide_false]
      exact ih (fun e' he' => h e' (by simp [he']))

/-! ### the permanent heap only grows -/

def Ext (s s' : State) : Prop := ∃ ext, s'.heap = s.heap ++ ext

theorem Ext.refl (s : State) : Ext s s := ⟨[], by simp⟩
theorem Ext.trans {a b c : State} (h1 : Ext a b) (h2 : Ext b c) : Ext a c := by
  obtain ⟨x, hx⟩ := h1; obtain ⟨y, hy⟩ := h2
  exact ⟨x ++ y, by rw [hy, hx, List.append_assoc]⟩

theorem Ext.get {s s' : State} (h : Ext s s') {j : Nat} {a : List Int} (hj : s.heap[j]? = some a) :
    s'.heap[j]? = some a := by
  obtain ⟨x, hx⟩ := h
  rw [hx, List.getElem?_append_left]
  · exact hj
  · exact (List.getElem?_eq_some_iff.mp hj).1

@[simp] theorem setVec_heap (s : State) (ti T w v) : (s.setVec ti T w v).heap = s.heap := rfl
@[simp] theorem store_heap (s : State) (ti w a len) : (s.store ti w a len).heap = s.heap ++ [a] := by
  cases w <;> rfl

theorem processElWith_ext (eq) (ks : Bool) {s s' : State} {ti : Nat} {w : Which}
    (h : processElWith eq ks s ti w = .ok s') : Ext s s' := by
  unfold processElWith at h
  split at h
  · cases h
  · simp only at h
    split at h
    · cases h; exact Ext.refl _
    · split at h
      · cases h
      · split at h
        · cases h
        · cases h; exact Ext.refl _
      · split at h
        · cases h
        · cases h; exact ⟨_, by rw [setVec_heap, store_heap]⟩

theorem processAllWith_ext (eq) (ks : Bool) : ∀ (l : List Nat) {s s' : State},
    processAllWith eq ks s l = .ok s' → Ext s s' := by
  intro l
  induction l with
  | nil => intro s s' h; cases h; exact Ext.refl _
  | cons ti rest ih =>
    intro s s' h
    unfold processAllWith at h
    split at h
    · cases h
    · rename_i s1 h1
      split at h
      · cases h
      · rename_i s2 h2
        exact (processElWith_ext eq ks h1).trans ((processElWith_ext eq ks h2).trans (ih h))

theorem addEl_ext {s s' : State} {ti : Nat} {w : Which} {el : Int} (h : addEl s ti w el = .ok s') : Ext s s' := by
  unfold addEl at h
  split at h
  · cases h
  · simp only at h
    split at h
    · cases h
    · split at h
      · split at h
        · cases h
        · cases h; exact Ext.refl _
      · cases h

theorem stepWith_ext (eq) (ks : Bool) {s s' : State} {op : Op} (h : stepWith eq ks s op = .ok s') : Ext s s' := by
  cases op with
  | allStop =>
    simp only [stepWith, allStopWith] at h
    split at h
    · cases h
    · rename_i s1 h1
      cases h
      obtain ⟨x, hx⟩ := processAllWith_ext eq ks _ h1
      exact ⟨x, hx⟩
  | new c y =>
    simp only [stepWith, step, new] at h
    split at h
    · cases h
    · rename_i r hr
      cases h
      split at hr
      · cases hr
      · cases hr
      · cases hr; exact Ext.refl _
  | find c y =>
    simp only [stepWith, step, find] at h
    split at h
    · cases h
    · rename_i r hr
      cases h
      split at hr
      · cases hr
      · cases hr; exact Ext.refl _
  | addT t el => exact addEl_ext h
  | addR t el => exact addEl_ext h

theorem runWith_ext (eq) (ks : Bool) : ∀ (ops : List Op) {s s' : State}, runWith eq ks s ops = .ok s' → Ext s s' := by
  intro ops
  induction ops with
  | nil => intro s s' h; cases h; exact Ext.refl _
  | cons op rest ih =>
    intro s s' h
    unfold runWith at h
    split at h
    · cases h
    · rename_i s1 h1
      exact (stepWith_ext eq ks h1).trans (ih h)

theorem stepWith_std (s : State) (op : Op) : stepWith vectElsEq false s op = step s op := by
  cases op <;> rfl

theorem runWith_std (s : State) (ops : List Op) : runWith vectElsEq false s ops = run s ops := by
  induction ops generalizing s with
  | nil => rfl
  | cons op rest ih =>
    simp only [runWith, run, stepWith_std]
    split <;> simp_all

/-! ### the invariant -/

abbrev Content := Nat → Which → List Int

structure VecOk (s : State) (c : Content) (ti : Nat) (w : Which) (v : Vect) : Prop where
  len : v.len = (c ti w).length
  forming : ∀ k, v.intern = some k → k < s.vloLen ∧ v.els = .scratch k ∧ s.vlos[k]? = some (c ti w)
  fin0 : v.intern = none → v.len = 0 → v.els = .null
  fin : v.intern = none → v.len ≠ 0 → ∃ j e E, v.els = .perm j ∧ s.heap[j]? = some (c ti w) ∧
    e ∈ s.tab w ∧ s.triples[e]? = some E ∧ (E.get w).els = .perm j ∧ c e w = c ti w

structure Inv' (s : State) (c : Content) : Prop where
  vec : ∀ (ti : Nat) (T : Triple) (w : Which), s.triples[ti]? = some T → VecOk s c ti w (T.get w)
  inj : ∀ (ti tj : Nat) (Ti Tj : Triple) (w w' : Which) (k : Nat), s.triples[ti]? = some Ti → s.triples[tj]? = some Tj →
    (Ti.get w).intern = some k → (Tj.get w').intern = some k → ti = tj ∧ w = w'
  vloLen_le : s.vloLen ≤ s.vlos.length
  tabOk : ∀ w e, e ∈ s.tab w → ∃ E, s.triples[e]? = some E ∧ (E.get w).intern = none ∧ (E.get w).len ≠ 0
  tabDistinct : ∀ w, (s.tab w).Pairwise (fun a b => c a w ≠ c b w)
  cnt : ∀ w, s.nVects w = (s.tab w).length ∧ s.nVectsLen w = ((s.tab w).map (fun e => (c e w).length)).sum
  fresh : ∀ (ti : Nat) (w : Which), s.triples.length ≤ ti → c ti w = []

theorem get_set_inv {l : List Triple} {ti tj : Nat} {X T' : Triple} (h : (l.set ti X)[tj]? = some T') :
    (tj = ti ∧ T' = X) ∨ (tj ≠ ti ∧ l[tj]? = some T') := by
  rw [List.getElem?_set] at h
  by_cases e : ti = tj
  · subst e; simp only [↓reduceIte] at h; split at h
    · left; exact ⟨rfl, by cases h; rfl⟩
    · cases h
  · right; simp only [e, ↓reduceIte] at h; exact ⟨fun x => e x.symm, h⟩

theorem get_set_fwd {l : List Triple} {ti tj : Nat} {X E : Triple} (h : l[tj]? = some E) :
    (l.set ti X)[tj]? = some (if tj = ti then X else E) := by
  rw [List.getElem?_set]
  have := (List.getElem?_eq_some_iff.mp h).1
  by_cases e : ti = tj
  · subst e; simp [this]
  · have e' : ¬ tj = ti := fun x => e x.symm
    simp [e, e', h]

theorem inv_update {s s' : State} {c : Content} {ti : Nat} {w : Which} {T : Triple} {v' : Vect} {k : Nat}
    (hI : Inv' s c) (hT : s.triples[ti]? = some T) (hk : (T.get w).intern = some k)
    (htr : s'.triples = s.triples.set ti (T.set w v'))
    (hvl : s'.vlos = s.vlos) (hvn : s'.vloLen = s.vloLen) (hheap : Ext s s')
    (htab : ∀ w', s'.tab w' = s.tab w' ∨
      (w' = w ∧ s'.tab w' = s.tab w' ++ [ti] ∧ v'.len ≠ 0 ∧ ∀ e ∈ s.tab w, c e w ≠ c ti w))
    (hcnt : ∀ w', s'.nVects w' = (s'.tab w').length ∧
      s'.nVectsLen w' = ((s'.tab w').map (fun e => (c e w').length)).sum)
    (hi : v'.intern = none) (hlen : v'.len = (c ti w).length) (hz : v'.len = 0 → v'.els = .null)
    (hfin : v'.len ≠ 0 → ∃ j, v'.els = .perm j ∧ s'.heap[j]? = some (c ti w) ∧
      ((∃ e E, e ∈ s.tab w ∧ s.triples[e]? = some E ∧ (E.get w).els = .perm j ∧ c e w = c ti w) ∨ ti ∈ s'.tab w)) :
    Inv' s' c := by
  have tabmem : ∀ w' e, e ∈ s.tab w' → e ∈ s'.tab w' := by
    intro w' e he
    rcases htab w' with h | ⟨_, h, _⟩ <;> rw [h]
    · exact he
    · exact List.mem_append_left _ he
  -- a stored triple keeps its vector
  have keep : ∀ w' e E, e ∈ s.tab w' → s.triples[e]? = some E →
      ∃ E', s'.triples[e]? = some E' ∧ E'.get w' = E.get w' := by
    intro w' e E he hE
    refine ⟨_, by rw [htr]; exact get_set_fwd hE, ?_⟩
    by_cases e1 : e = ti
    · subst e1
      rw [hT] at hE; cases hE
      simp only [↓reduceIte, Triple.get_set]
      by_cases e2 : w' = w
      · subst e2
        obtain ⟨E2, h1, h2, _⟩ := hI.tabOk _ _ he
        rw [hT] at h1; cases h1
        rw [hk] at h2; cases h2
      · simp [e2]
    · simp [e1]
  have transfer : ∀ tj w' u, VecOk s c tj w' u → VecOk s' c tj w' u := by
    intro tj w' u h
    refine ⟨h.len, ?_, h.fin0, ?_⟩
    · intro k' hk'; rw [hvl, hvn]; exact h.forming k' hk'
    · intro h1 h2
      obtain ⟨j, e, E, a1, a2, a3, a4, a5, a6⟩ := h.fin h1 h2
      obtain ⟨E', b1, b2⟩ := keep w' e E a3 a4
      exact ⟨j, e, E', a1, hheap.get a2, tabmem _ _ a3, b1, by rw [b2]; exact a5, a6⟩
  have hv : VecOk s' c ti w v' := by
    refine ⟨hlen, (by intro k' hk'; rw [hi] at hk'; cases hk'), fun _ => hz, ?_⟩
    intro _ h2
    obtain ⟨j, a1, a2, a3⟩ := hfin h2
    rcases a3 with ⟨e, E, b1, b2, b3, b4⟩ | a3
    · obtain ⟨E', d1, d2⟩ := keep w e E b1 b2
      exact ⟨j, e, E', a1, a2, tabmem _ _ b1, d1, by rw [d2]; exact b3, b4⟩
    · exact ⟨j, ti, _, a1, a2, a3, by rw [htr]; exact get_set_fwd hT, by simp [a1], rfl⟩
  have old : ∀ tj T' w', s'.triples[tj]? = some T' → (tj = ti ∧ w' = w ∧ T'.get w' = v') ∨
      (∃ T0, s.triples[tj]? = some T0 ∧ T0.get w' = T'.get w') := by
    intro tj T' w' h
    rw [htr] at h
    rcases get_set_inv h with ⟨e1, e2⟩ | ⟨e1, e2⟩
    · subst e1 e2
      by_cases e3 : w' = w
      · left; subst e3; simp
      · right; exact ⟨T, hT, by simp [e3]⟩
    · right; exact ⟨T', e2, rfl⟩
  refine ⟨?_, ?_, by rw [hvl, hvn]; exact hI.vloLen_le, ?_, ?_, hcnt, by rw [htr, List.length_set]; exact hI.fresh⟩
  · intro tj T' w' h
    rcases old tj T' w' h with ⟨e1, e2, e3⟩ | ⟨T0, h0, e0⟩
    · subst e1 e2; rw [e3]; exact hv
    · rw [← e0]; exact transfer _ _ _ (hI.vec tj T0 w' h0)
  · intro ta tb Ta Tb wa wb k' ha hb ka kb
    rcases old ta Ta wa ha with ⟨_, _, e3⟩ | ⟨Ta0, ha0, ea0⟩
    · rw [e3, hi] at ka; cases ka
    · rcases old tb Tb wb hb with ⟨_, _, e3⟩ | ⟨Tb0, hb0, eb0⟩
      · rw [e3, hi] at kb; cases kb
      · exact hI.inj ta tb Ta0 Tb0 wa wb k' ha0 hb0 (by rw [ea0]; exact ka) (by rw [eb0]; exact kb)
  · intro w' e he
    have oldcase : e ∈ s.tab w' → ∃ E, s'.triples[e]? = some E ∧ (E.get w').intern = none ∧ (E.get w').len ≠ 0 := by
      intro he
      obtain ⟨E, h1, h2, h3⟩ := hI.tabOk _ _ he
      obtain ⟨E', b1, b2⟩ := keep w' e E he h1
      exact ⟨E', b1, by rw [b2]; exact h2, by rw [b2]; exact h3⟩
    rcases htab w' with h | ⟨h0, h, h1, _⟩
    · rw [h] at he; exact oldcase he
    · rw [h] at he
      rcases List.mem_append.mp he with he | he
      · exact oldcase he
      · simp only [List.mem_singleton] at he
        subst he h0
        exact ⟨_, by rw [htr]; exact get_set_fwd hT, by simp [hi], by simp [h1]⟩
  · intro w'
    rcases htab w' with h | ⟨h0, h, _, h2⟩
    · rw [h]; exact hI.tabDistinct w'
    · subst h0
      rw [h, List.pairwise_append]
      exact ⟨hI.tabDistinct _, by simp, by intro a ha b hb; simp only [List.mem_singleton] at hb; subst hb; exact h2 a ha⟩

@[simp] theorem store_triples (s : State) (ti w a len) : (s.store ti w a len).triples = s.triples := by cases w <;> rfl
@[simp] theorem store_vlos (s : State) (ti w a len) : (s.store ti w a len).vlos = s.vlos := by cases w <;> rfl
@[simp] theorem store_vloLen (s : State) (ti w a len) : (s.store ti w a len).vloLen = s.vloLen := by cases w <;> rfl
@[simp] theorem store_newTriples (s : State) (ti w a len) : (s.store ti w a len).newTriples = s.newTriples := by cases w <;> rfl
theorem store_tab (s : State) (ti w a len w') :
    (s.store ti w a len).tab w' = if w' = w then s.tab w' ++ [ti] else s.tab w' := by
  cases w <;> cases w' <;> simp [State.store, State.tab]
theorem store_nVects (s : State) (ti w a len w') :
    (s.store ti w a len).nVects w' = if w' = w then s.nVects w' + 1 else s.nVects w' := by
  cases w <;> cases w' <;> simp [State.store, State.nVects]
theorem store_nVectsLen (s : State) (ti w a len w') :
    (s.store ti w a len).nVectsLen w' = if w' = w then s.nVectsLen w' + len else s.nVectsLen w' := by
  cases w <;> cases w' <;> simp [State.store, State.nVectsLen]
@[simp] theorem setVec_tab (s : State) (ti T w v w') : (s.setVec ti T w v).tab w' = s.tab w' := by cases w' <;> rfl
@[simp] theorem setVec_nVects (s : State) (ti T w v w') : (s.setVec ti T w v).nVects w' = s.nVects w' := by cases w' <;> rfl
@[simp] theorem setVec_nVectsLen (s : State) (ti T w v w') : (s.setVec ti T w v).nVectsLen w' = s.nVectsLen w' := by cases w' <;> rfl

/-- a stored vector is readable and is its content -/
theorem stored_arr {s : State} {c : Content} (hI : Inv' s c) {w : Which} {e : Nat} (he : e ∈ s.tab w) :
    ∃ E j, s.triples[e]? = some E ∧ (E.get w).els = .perm j ∧ s.heap[j]? = some (c e w) ∧
      (E.get w).len = (c e w).length := by
  obtain ⟨E, h1, h2, h3⟩ := hI.tabOk w e he
  have hV := hI.vec e E w h1
  obtain ⟨j, _, _, a1, a2, _⟩ := hV.fin h2 h3
  exact ⟨E, j, h1, a1, a2, hV.len⟩

theorem processEl_inv {s : State} {c : Content} {ti : Nat} {w : Which} {T : Triple} {k : Nat}
    (hI : Inv' s c) (hT : s.triples[ti]? = some T) (hk : (T.get w).intern = some k) :
    ∃ s' v', processEl s ti w = .ok s' ∧ Inv' s' c ∧ s'.triples = s.triples.set ti (T.set w v') ∧
      v'.intern = none ∧ s'.vloLen = s.vloLen ∧ s'.newTriples = s.newTriples := by
  have hV := hI.vec ti T w hT
  obtain ⟨hk1, hk2, hk3⟩ := hV.forming k hk
  have harr : arr s (T.get w).els = some (c ti w) := by rw [hk2]; simp [arr, hk1, hk3]
  unfold processEl processElWith
  simp only [hT]
  by_cases h0 : (T.get w).len = 0
  · simp only [h0, ↓reduceIte]
    refine ⟨_, _, rfl, ?_, rfl, rfl, rfl, rfl⟩
    refine inv_update hI hT hk rfl rfl rfl (Ext.refl _) (fun w' => .inl (by simp)) (by simpa using hI.cnt) rfl ?_ (fun _ => rfl) ?_
    · simpa [h0] using hV.len
    · intro h; exact absurd rfl h
  · simp only [h0, ↓reduceIte]
    have hfind := tabFind_spec s c w (T.get w) (c ti w) harr hV.len (s.tab w) (by
      intro e he
      obtain ⟨E, j, a1, a2, a3, a4⟩ := stored_arr hI he
      exact ⟨E, a1, by rw [a2]; exact a3, a4⟩)
    rw [hfind]
    cases hf : (s.tab w).find? (fun e => decide (c e w = c ti w)) with
    | some e =>
      have he : e ∈ s.tab w := List.mem_of_find?_eq_some hf
      have hce : c e w = c ti w := by simpa using List.find?_some hf
      obtain ⟨E, j, a1, a2, a3, a4⟩ := stored_arr hI he
      simp only [a1]
      refine ⟨_, _, rfl, ?_, rfl, rfl, rfl, rfl⟩
      refine inv_update hI hT hk rfl rfl rfl (Ext.refl _) (fun w' => .inl (by simp)) (by simpa using hI.cnt) rfl hV.len
        (fun h => absurd h h0) ?_
      intro _
      exact ⟨j, a2, by rw [← hce]; exact a3, .inl ⟨e, E, he, a1, a2, hce⟩⟩
    | none =>
      have hne : ∀ e ∈ s.tab w, c e w ≠ c ti w := by
        intro e he
        have := List.find?_eq_none.mp hf e he
        simpa using this
      have hread : readVect s (T.get w) = some (c ti w) := by
        unfold readVect
        simp [harr, hV.len]
      simp only [hread, Bool.false_eq_true, ↓reduceIte]
      refine ⟨_, { intern := none, len := (T.get w).len, els := .perm s.heap.length }, rfl, ?_,
        by simp [State.setVec], rfl, by simp [State.setVec], by simp [State.setVec]⟩
      refine inv_update (v' := { intern := none, len := (T.get w).len, els := .perm s.heap.length })
        hI hT hk (by simp [State.setVec]) (by simp [State.setVec]) (by simp [State.setVec])
        ⟨[c ti w], by simp⟩ ?_ ?_ rfl hV.len (fun h => absurd h h0) ?_
      · intro w'
        by_cases hw : w' = w
        · right; subst hw; exact ⟨rfl, by simp [store_tab], h0, hne⟩
        · left; simp [store_tab, hw]
      · intro w'
        have := hI.cnt w'
        by_cases hw : w' = w
        · subst hw
          simp [store_tab, store_nVects, store_nVectsLen, this.1, this.2, hV.len]
        · simp [store_tab, store_nVects, store_nVectsLen, hw, this.1, this.2]
      · intro _
        refine ⟨s.heap.length, by simp, by simp, .inr (by simp [store_tab])⟩

/-- the invariant between two operations: the triples being formed are exactly those of
`new_core_symb_vect_vlo` -/
structure Inv (s : State) (c : Content) : Prop extends Inv' s c where
  newNodup : s.newTriples.Nodup
  newForming : ∀ ti ∈ s.newTriples, ∃ T k1 k2, s.triples[ti]? = some T ∧ (T.get .tr).intern = some k1 ∧ (T.get .re).intern = some k2
  formingNew : ∀ (ti : Nat) (T : Triple) (w : Which) (k : Nat), s.triples[ti]? = some T → (T.get w).intern = some k → ti ∈ s.newTriples

theorem processAll_inv {c : Content} : ∀ (l : List Nat) (s : State), Inv' s c → l.Nodup →
    (∀ ti ∈ l, ∃ T k1 k2, s.triples[ti]? = some T ∧ (T.get .tr).intern = some k1 ∧ (T.get .re).intern = some k2) →
    ∃ s', processAllWith vectElsEq false s l = .ok s' ∧ Inv' s' c ∧
      (∀ (tj : Nat) (T' : Triple) (w : Which) (k : Nat), s'.triples[tj]? = some T' → (T'.get w).intern = some k →
        tj ∉ l ∧ ∃ T0, s.triples[tj]? = some T0 ∧ (T0.get w).intern = some k) := by
  intro l
  induction l with
  | nil =>
    intro s hI _ _
    exact ⟨s, rfl, hI, fun tj T' w k h1 h2 => ⟨by simp, T', h1, h2⟩⟩
  | cons ti rest ih =>
    intro s hI hnd hf
    obtain ⟨T, k1, k2, hT, hk1, hk2⟩ := hf ti (by simp)
    obtain ⟨s1, v1, p1, I1, t1, i1, _, _⟩ := processEl_inv hI hT hk1
    have hT1 : s1.triples[ti]? = some (T.set .tr v1) := by
      rw [t1]; have := get_set_fwd (ti := ti) (X := T.set .tr v1) hT; simpa using this
    have hk2' : ((T.set .tr v1).get .re).intern = some k2 := by simpa using hk2
    obtain ⟨s2, v2, p2, I2, t2, i2, _, _⟩ := processEl_inv I1 hT1 hk2'
    have hnd' := List.nodup_cons.mp hnd
    have back : ∀ (tj : Nat) (T2 : Triple), s2.triples[tj]? = some T2 →
        (tj = ti ∧ T2 = (T.set .tr v1).set .re v2) ∨ (tj ≠ ti ∧ s.triples[tj]? = some T2) := by
      intro tj T2 h
      rw [t2] at h
      rcases get_set_inv h with ⟨a, b⟩ | ⟨a, b⟩
      · exact .inl ⟨a, b⟩
      · rw [t1] at b
        rcases get_set_inv b with ⟨a', _⟩ | ⟨_, b'⟩
        · exact absurd a' a
        · exact .inr ⟨a, b'⟩
    have fwd : ∀ (tj : Nat) (T0 : Triple), tj ≠ ti → s.triples[tj]? = some T0 → s2.triples[tj]? = some T0 := by
      intro tj T0 hne h
      rw [t2, t1]
      have a := get_set_fwd (ti := ti) (X := T.set .tr v1) h
      simp only [hne, ↓reduceIte] at a
      have b := get_set_fwd (ti := ti) (X := (T.set .tr v1).set .re v2) a
      simpa [hne] using b
    obtain ⟨s', p3, I3, h3⟩ := ih s2 I2 hnd'.2 (by
      intro tj htj
      obtain ⟨T0, a, b, h0, ha, hb⟩ := hf tj (by simp [htj])
      have hne : tj ≠ ti := fun e => hnd'.1 (e ▸ htj)
      exact ⟨T0, a, b, fwd tj T0 hne h0, ha, hb⟩)
    refine ⟨s', ?_, I3, ?_⟩
    · show processAllWith vectElsEq false s (ti :: rest) = .ok s'
      unfold processAllWith
      have p1' : processElWith vectElsEq false s ti .tr = .ok s1 := p1
      have p2' : processElWith vectElsEq false s1 ti .re = .ok s2 := p2
      simp only [p1', p2', p3]
    · intro tj T' w k h1 h2
      obtain ⟨a, T2, b, d⟩ := h3 tj T' w k h1 h2
      rcases back tj T2 b with ⟨e1, e2⟩ | ⟨e1, e2⟩
      · subst e2
        cases w <;> simp [i1, i2] at d
      · exact ⟨by simp [e1, a], T2, e2, d⟩

theorem allStop_inv {s : State} {c : Content} (hI : Inv s c) :
    ∃ s', allStop s = .ok s' ∧ Inv s' c ∧ s'.newTriples = [] ∧ s'.vloLen = 0 ∧
      (∀ (ti : Nat) (T : Triple) (w : Which), s'.triples[ti]? = some T → (T.get w).intern = none) := by
  obtain ⟨s1, p, I1, h⟩ := processAll_inv s.newTriples s hI.toInv' hI.newNodup hI.newForming
  have nof : ∀ (ti : Nat) (T : Triple) (w : Which), s1.triples[ti]? = some T → (T.get w).intern = none := by
    intro ti T w hT
    cases hk : (T.get w).intern with
    | none => rfl
    | some k =>
      obtain ⟨a, T0, b, d⟩ := h ti T w k hT hk
      exact absurd (hI.formingNew ti T0 w k b d) a
  have tabeq : ∀ w, ({ s1 with vloLen := 0, newTriples := [] } : State).tab w = s1.tab w := by
    intro w; cases w <;> rfl
  refine ⟨{ s1 with vloLen := 0, newTriples := [] }, ?_, ⟨⟨?_, ?_, Nat.zero_le _, ?_, ?_, ?_, I1.fresh⟩, List.nodup_nil, ?_, ?_⟩, rfl, rfl, nof⟩
  · unfold allStop allStopWith; simp only [p]
  · intro ti T w hT
    have hV := I1.vec ti T w hT
    refine ⟨hV.len, ?_, hV.fin0, ?_⟩
    · intro k hk; rw [nof ti T w hT] at hk; cases hk
    · intro a b; rw [tabeq]; exact hV.fin a b
  · intro ti tj Ti Tj w w' k hi _ hk _
    rw [nof ti Ti w hi] at hk; cases hk
  · intro w e he; rw [tabeq] at he; exact I1.tabOk w e he
  · intro w; rw [tabeq]; exact I1.tabDistinct w
  · intro w; rw [tabeq]; cases w
    · exact I1.cnt .tr
    · exact I1.cnt .re
  · intro ti hti; cases hti
  · intro ti T w k hT hk
    rw [nof ti T w hT] at hk; cases hk

end Yaep.VS
