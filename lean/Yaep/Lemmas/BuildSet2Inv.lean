import Yaep.Lemmas.BuildSet2PL
/-!
# Helper lemmas for `Yaep/Model/BuildSet2.lean`, part 7: invariants of the C parse list that do
not need the abstract model

* the table invariant `TabInv2` is kept by `build_new_set`, whatever the grammar;
* if the symbols of the rules are in range, every set of the parse list is
  `expand_new_start_set` of start situations whose contexts are sets of terminal numbers —
  so the fuel of the context loop suffices for every core `build_pl` builds.
-/
namespace Yaep.BS2
open Yaep

/-! ## the table of cores -/

theorem buildNewSet_tabInv {g : Grammar} {an : Analysis} {tab : Tab2} (htab : TabInv2 g an tab)
    (ok : Nat → Nat → List Nat → Bool) (pl : List CSet2) (set : CSet2) (X : Sym) :
    TabInv2 g an (buildNewSet g an ok tab pl set X).1 ∧
    ∃ num ns, (buildNewSet g an ok tab pl set X).2.core =
        expandNewStartSet g an (Core2.fresh num (ns.map (·.1))) ∧
      (buildNewSet g an ok tab pl set X).2.dists = ns.map (·.2) ∧
      ns = (newSetLoop2 g an ok pl (pl.length - 1) (newSetFuel pl)
        (newSetLoop1 ok set ((set.core.transOf X).getD []), false)).1 := by
  rw [buildNewSet_unfold]
  dsimp only
  generalize (newSetLoop2 g an ok pl (pl.length - 1) (newSetFuel pl)
    (newSetLoop1 ok set ((set.core.transOf X).getD []), false)) = st
  have hspec := insert_expand_spec htab st.1
  dsimp only at hspec
  by_cases hnew : (setInsert tab st.1).2.2 = true
  · rw [if_pos hnew] at hspec ⊢
    dsimp only at hspec ⊢
    obtain ⟨ht, hd, num, hc⟩ := hspec
    exact ⟨TabInv2_congr ht rfl rfl, num, st.1, hc, hd, rfl⟩
  · rw [if_neg hnew] at hspec ⊢
    dsimp only at hspec ⊢
    obtain ⟨ht, hd, num, hc⟩ := hspec
    exact ⟨TabInv2_congr ht rfl rfl, num, st.1, hc, hd, rfl⟩

theorem buildStartSet_tabInv (g : Grammar) (an : Analysis) :
    TabInv2 g an (buildStartSet g an).1 ∧
    ∃ num, (buildStartSet g an).2.core = expandNewStartSet g an (Core2.fresh num
        ((BS.rulesOf g g.axiomN).map fun r => (⟨r, 0, []⟩ : Sit2))) ∧
      (buildStartSet g an).2.dists = (BS.rulesOf g g.axiomN).map fun _ => 0 := by
  rw [buildStartSet_unfold]
  dsimp only
  rw [foldl_addStartSit]
  simp only [setNewStart, List.nil_append]
  generalize hns : (BS.rulesOf g g.axiomN).map (fun r => (((⟨r, 0, []⟩ : Sit2), 0) : Sit2 × Nat)) = ns
  have h1 : ns.map (·.1) = (BS.rulesOf g g.axiomN).map fun r => (⟨r, 0, []⟩ : Sit2) := by
    rw [← hns, List.map_map]; rfl
  have h2 : ns.map (·.2) = (BS.rulesOf g g.axiomN).map fun _ => 0 := by
    rw [← hns, List.map_map]; rfl
  have hspec := insert_expand_spec (TabInv2_empty g an) ns
  obtain ⟨_, _, hcase⟩ := setInsert_spec {} ns
  rcases hcase with ⟨_, ⟨i, hi⟩, _⟩ | ⟨hnew, _, _, _⟩
  · simp at hi
  · dsimp only at hspec
    rw [hnew] at hspec
    simp only [if_true] at hspec
    obtain ⟨htab, hdists, num, hc⟩ := hspec
    rw [h1] at hc; rw [h2] at hdists
    exact ⟨htab, num, hc, hdists⟩

theorem parseLoopC2_tabInv (g : Grammar) (an : Analysis) :
    ∀ (toks : List Nat) (tab : Tab2) (pl : List CSet2) (k : Nat), TabInv2 g an tab →
      TabInv2 g an (parseLoopC2 g an toks tab pl k).2.1 := by
  intro toks
  induction toks with
  | nil => intro tab pl k h; exact h
  | cons a rest ih =>
    intro tab pl k h
    rw [parseLoopC2_cons]
    split
    · exact ih _ _ _ (buildNewSet_tabInv h _ _ _ _).1
    · exact h

/-! ## contexts made of terminal numbers -/

/-- all contexts of the situations of the set are sets of terminal numbers -/
def AllBnd (g : Grammar) (cs : CSet2) : Prop := ∀ k, ∀ a ∈ cs.core.ctxAt k, a < g.nT

/-- the set is `expand_new_start_set` of start situations with contexts made of terminal
numbers -/
def Exp2B (g : Grammar) (cs : CSet2) : Prop :=
  ∃ (num : Nat) (ns : NewStart2),
    cs.core = expandNewStartSet g g.analysis (Core2.fresh num (ns.map (·.1))) ∧
    cs.dists = ns.map (·.2) ∧ ∀ p ∈ ns, ∀ a ∈ p.1.ctx, a < g.nT

theorem Exp2B.spec {g : Grammar} (hsr : g.symsInRange = true) {cs : CSet2} (h : Exp2B g cs) :
    ∃ (num : Nat) (ns : NewStart2), ExpandSpec2 g num (ns.map (·.1)) cs.core ∧
      cs.dists = ns.map (·.2) ∧ ∀ p ∈ ns, ∀ a ∈ p.1.ctx, a < g.nT := by
  obtain ⟨num, ns, hc, hd, hb⟩ := h
  have hb' : ∀ s ∈ ns.map (·.1), ∀ a ∈ s.ctx, a < g.nT := by
    intro s hs a ha
    obtain ⟨p, hp, rfl⟩ := List.mem_map.mp hs
    exact hb p hp a ha
  have := (expandNewStartSet_spec2 hsr num (ns.map (·.1)) hb').1
  rw [← hc] at this
  exact ⟨num, ns, this, hd, hb⟩

theorem ExpandSpec2.allBnd {g : Grammar} {num : Nat} {ss : List Sit2} {c : Core2}
    (h : ExpandSpec2 g num ss c) (hb : ∀ s ∈ ss, ∀ a ∈ s.ctx, a < g.nT) :
    ∀ k, ∀ a ∈ c.ctxAt k, a < g.nT := by
  intro k a ha
  have hsh := h.spec.shape
  have hle : c.nStart ≤ c.nAllDists := hsh.le
  have hplen : c.parents.length = c.nAllDists - c.nStart := hsh.plen
  have hbss : ∀ p, ∀ a ∈ (ss.getD p default).ctx, a < g.nT := by
    intro p a ha
    rw [List.getD_eq_getElem?_getD] at ha
    cases hg : ss[p]? with
    | none => rw [hg] at ha; cases ha
    | some s => rw [hg] at ha; exact hb s (List.mem_of_getElem? hg) a ha
  rcases Nat.lt_or_ge k c.sits.length with hk | hk
  · rcases Nat.lt_or_ge k c.nAllDists with hl | hl
    · rcases Nat.lt_or_ge k c.nStart with hs | hs
      · have := h.start k (by rw [← h.nStart]; exact hs)
        unfold Core2.ctxAt at ha
        unfold Core2.sitAt at this
        rw [this] at ha
        exact hbss k a ha
      · have hpl : k - c.nStart < c.parents.length := by omega
        rw [h.dctx k _ hs hl (List.getElem?_eq_getElem hpl)] at ha
        exact hbss _ a ha
    · exact h.bnd k hl hk a ha
  · unfold Core2.ctxAt at ha
    rw [List.getD_eq_getElem?_getD, List.getElem?_eq_none hk] at ha
    cases ha

theorem Exp2B.allBnd {g : Grammar} (hsr : g.symsInRange = true) {cs : CSet2} (h : Exp2B g cs) :
    AllBnd g cs := by
  obtain ⟨num, ns, hc, _, hb⟩ := h.spec hsr
  apply hc.allBnd
  intro s hs a ha
  obtain ⟨p, hp, rfl⟩ := List.mem_map.mp hs
  exact hb p hp a ha

theorem allBnd_default (g : Grammar) : AllBnd g (default : CSet2) := by
  intro k a ha
  cases ha

section Bnd
variable {g : Grammar} {an : Analysis} {ok : Nat → Nat → List Nat → Bool}

theorem shiftSit_bnd {s : CSet2} (hs : AllBnd g s) {base ind : Nat} {p : Sit2 × Nat}
    (hp : shiftSit ok s base ind = some p) : ∀ a ∈ p.1.ctx, a < g.nT := by
  rw [shiftSit_eq] at hp
  split at hp
  · cases hp
    exact hs ind
  · cases hp

theorem newSetLoop1_bnd {set : CSet2} (hs : AllBnd g set) (tr : List Nat) :
    ∀ p ∈ newSetLoop1 ok set tr, ∀ a ∈ p.1.ctx, a < g.nT := by
  intro p hp
  rw [newSetLoop1_eq] at hp
  rcases mem_addNew hp with hp | hp
  · cases hp
  · obtain ⟨ind, _, hsh⟩ := List.mem_filterMap.mp hp
    exact shiftSit_bnd hs hsh

theorem getD_allBnd {pl : List CSet2} (hpl : ∀ cs ∈ pl, AllBnd g cs) (k : Nat) :
    AllBnd g (pl.getD k default) := by
  rw [List.getD_eq_getElem?_getD]
  cases h : pl[k]? with
  | none => exact allBnd_default g
  | some cs => exact hpl cs (List.mem_of_getElem? h)

theorem newSetLoop2_bnd {pl : List CSet2} (hpl : ∀ cs ∈ pl, AllBnd g cs) (plCurr fuel : Nat)
    (st : NewStart2 × Bool) (hst : ∀ p ∈ st.1, ∀ a ∈ p.1.ctx, a < g.nT) :
    ∀ p ∈ (newSetLoop2 g an ok pl plCurr fuel st).1, ∀ a ∈ p.1.ctx, a < g.nT := by
  unfold newSetLoop2
  apply BS.scanLoop_preserves (len := fun st : NewStart2 × Bool => st.1.length)
    (step := newSetStep2 g an ok pl plCurr) (fun st => ∀ p ∈ st.1, ∀ a ∈ p.1.ctx, a < g.nT)
  · intro i st h _ p hp
    rw [newSetStep2_fst] at hp
    rcases mem_addNew hp with hp | hp
    · exact h p hp
    · unfold step2Pairs at hp
      split at hp
      · dsimp only at hp
        split at hp
        · obtain ⟨ind, _, hsh⟩ := List.mem_filterMap.mp hp
          exact shiftSit_bnd (getD_allBnd hpl _) hsh
        · cases hp
      · cases hp
  · exact hst

end Bnd

theorem buildNewSet_exp2B {g : Grammar} {tab : Tab2} (htab : TabInv2 g g.analysis tab)
    (ok : Nat → Nat → List Nat → Bool) {pl : List CSet2} (hpl : ∀ cs ∈ pl, AllBnd g cs)
    {set : CSet2} (hset : AllBnd g set) (X : Sym) :
    Exp2B g (buildNewSet g g.analysis ok tab pl set X).2 := by
  obtain ⟨_, num, ns, hc, hd, hns⟩ := buildNewSet_tabInv htab ok pl set X
  refine ⟨num, ns, hc, hd, ?_⟩
  rw [hns]
  exact newSetLoop2_bnd hpl _ _ _ (newSetLoop1_bnd hset _)

theorem buildStartSet_exp2B (g : Grammar) : Exp2B g (buildStartSet g g.analysis).2 := by
  obtain ⟨_, num, hc, hd⟩ := buildStartSet_tabInv g g.analysis
  refine ⟨num, (BS.rulesOf g g.axiomN).map fun r => ((⟨r, 0, []⟩ : Sit2), 0), ?_, ?_, ?_⟩
  · rw [hc, List.map_map]; rfl
  · rw [hd, List.map_map]; rfl
  · intro p hp a ha
    obtain ⟨r, _, rfl⟩ := List.mem_map.mp hp
    cases ha

theorem parseLoopC2_exp2B {g : Grammar} (hsr : g.symsInRange = true) :
    ∀ (toks : List Nat) (tab : Tab2) (pl : List CSet2) (k : Nat), TabInv2 g g.analysis tab →
      (∀ cs ∈ pl, Exp2B g cs) →
      ∀ cs ∈ (parseLoopC2 g g.analysis toks tab pl k).2.2, Exp2B g cs := by
  intro toks
  induction toks with
  | nil => intro tab pl k _ h; exact h
  | cons a rest ih =>
    intro tab pl k ht h
    rw [parseLoopC2_cons]
    split
    · have hb : ∀ cs ∈ pl, AllBnd g cs := fun cs hcs => (h cs hcs).allBnd hsr
      have hlast : AllBnd g (pl.getLastD default) := by
        rcases Nat.eq_zero_or_pos pl.length with h0 | hpos
        · have : pl = [] := List.eq_nil_of_length_eq_zero h0
          subst this
          exact allBnd_default g
        · rw [getLastD_eq_getD pl (pl.length - 1) default (by omega)]
          exact getD_allBnd hb _
      apply ih _ _ _ (buildNewSet_tabInv ht _ _ _ _).1
      intro cs hcs
      rcases List.mem_append.mp hcs with hcs | hcs
      · exact h cs hcs
      · rw [List.mem_singleton.mp hcs]
        exact buildNewSet_exp2B ht _ hb hlast _
    · exact h

theorem buildPLC2_exp2B {g : Grammar} (hsr : g.symsInRange = true) (w : List Nat) :
    ∀ cs ∈ (buildPLC2 g w).2.2, Exp2B g cs := by
  rw [buildPLC2_eq]
  apply parseLoopC2_exp2B hsr _ _ _ _ (buildStartSet_tabInv g g.analysis).1
  intro cs hcs
  rw [List.mem_singleton.mp hcs]
  exact buildStartSet_exp2B g

theorem buildPLC2_tabInv (g : Grammar) (w : List Nat) : TabInv2 g g.analysis (buildPLC2 g w).2.1 := by
  rw [buildPLC2_eq]
  exact parseLoopC2_tabInv g g.analysis _ _ _ _ (buildStartSet_tabInv g g.analysis).1

end Yaep.BS2
