import Yaep.Lemmas.EtfSets
import Yaep.Lemmas.MakeParseFlagBSDup
import Yaep.Lemmas.MakeParseTotalSize
/-!
# The step model of `build_pl` (`BS.buildPLC`): the number of situations of a set, with
multiplicity, against the number of items of the abstract set

A set of the step model can repeat a situation, but its *start situations* (with their distances)
are pairwise distinct items of the abstract set at the same position (`BS.buildPLC_mult`).  Hence
the set at position `j` has at most `|abstract set j| * (maxRhs + 1) + |rules| * (maxRhs + 1)`
situations (`buildPLC_sits_le`) — bounded sets of the abstract model give bounded sets of the step
model.
-/
namespace Yaep.ETF
open Yaep Yaep.BS

/-- the item a start situation with its distance stands for, in the set at position `j` -/
def startItem (j : Nat) (p : Sit × Nat) : Item := ⟨p.1.1, p.1.2, j - p.2⟩

theorem startItem_inj {j : Nat} {p q : Sit × Nat} (hp : p.2 ≤ j) (hq : q.2 ≤ j)
    (h : startItem j p = startItem j q) : p = q := by
  obtain ⟨⟨r, d⟩, k⟩ := p
  obtain ⟨⟨r', d'⟩, k'⟩ := q
  unfold startItem at h
  simp only [Item.mk.injEq] at h hp hq
  obtain ⟨h1, h2, h3⟩ := h
  have : k = k' := by omega
  subst h1; subst h2; subst this; rfl

/-- the start situations of a set of the step model: at most as many as the abstract set has items -/
theorem buildPLC_nstart_le (g : Grammar) (la : Nat) (w : List Nat) (j : Nat)
    (hj : j < (buildPLC g la w).2.2.length) :
    ((buildPLC g la w).2.2.getD j default).dists.length ≤ ((buildPL g la w).2.getD j []).length := by
  obtain ⟨cs, hcs⟩ : ∃ cs, cs = (buildPLC g la w).2.2.getD j default := ⟨_, rfl⟩
  have hmult := buildPLC_mult g la w j hj
  have hitems := (buildPLC_spec g la w).2.2.1.items j hj
  rw [← hcs] at hmult hitems ⊢
  obtain ⟨num, ns, hcore, hdists, hnd, hcase⟩ := hmult
  have hspec := expandNewStartSet_spec g g.analysis num (ns.map (·.1))
  rw [← hcore] at hspec
  have hns : cs.core.nStart = ns.length := by rw [hspec.nStart, List.length_map]
  have hbound : ∀ p ∈ ns, p.2 ≤ j := by
    rcases hcase with ⟨_, h0⟩ | ⟨_, hne⟩
    · intro p hp; have := (h0 p hp).1; omega
    · intro p hp; exact (hne p hp).2.1
  have hmem : ∀ p ∈ ns, startItem j p ∈ cs.items j := by
    intro p hp
    obtain ⟨i, hi, rfl⟩ := List.getElem_of_mem hp
    have hi1 : i < cs.core.nStart := by omega
    have hi2 : i < cs.core.sits.length := by
      have := hspec.le; have := hspec.le'; omega
    unfold CSet.items
    rw [List.mem_map]
    refine ⟨i, List.mem_range.mpr hi2, ?_⟩
    have hsit : cs.core.sits.getD i default = ns[i].1 := by
      have h1 : cs.core.startPart[i]? = some ns[i].1 := by
        rw [hspec.start, List.getElem?_map, List.getElem?_eq_getElem hi]; rfl
      unfold Core.startPart at h1
      rw [List.getElem?_take_of_lt hi1] at h1
      rw [List.getD_eq_getElem?_getD, h1]; rfl
    have horig : cs.originOf j i = j - ns[i].2 := by
      unfold CSet.originOf
      rw [if_pos hi1, hdists, List.getD_eq_getElem?_getD, List.getElem?_map,
        List.getElem?_eq_getElem hi]
      rfl
    simp only [hsit, horig]
    rfl
  have hnd2 : (ns.map (startItem j)).Nodup :=
    etf_nodup_map_of_inj_on hnd (fun a ha b hb hab => startItem_inj (hbound a ha) (hbound b hb) hab)
  have hsub : ns.map (startItem j) ⊆ (buildPL g la w).2.getD j [] := by
    intro x hx
    obtain ⟨p, hp, rfl⟩ := List.mem_map.mp hx
    exact (hitems _).mp (hmem p hp)
  have := nodup_subset_length hnd2 hsub
  rw [List.length_map] at this
  rw [hdists, List.length_map]
  exact this

/-- **the size of a set of the step model (situations with multiplicity) against the size of the
abstract set** -/
theorem buildPLC_sits_le (g : Grammar) (la : Nat) (w : List Nat) (j : Nat)
    (hj : j < (buildPLC g la w).2.2.length) :
    ((buildPLC g la w).2.2.getD j default).core.sits.length ≤
      ((buildPL g la w).2.getD j []).length * (g.maxRhs + 1) + sitBound g := by
  have h1 := buildPLC_nstart_le g la w j hj
  have hmem : (buildPLC g la w).2.2.getD j default ∈ (buildPLC g la w).2.2 := by
    rw [List.getD_eq_getElem?_getD, List.getElem?_eq_getElem hj]
    exact List.getElem_mem hj
  obtain ⟨num, ss, hc, hl, _⟩ := (buildPLC_spec g la w).2.2.2 _ hmem
  rw [hc]
  have h2 := expand_sits_length g g.analysis num ss
  rw [← hl] at h2
  have h3 := Nat.mul_le_mul_right (g.maxRhs + 1) h1
  omega

theorem buildPLC_length_eq (g : Grammar) (la : Nat) (w : List Nat) :
    (buildPLC g la w).2.2.length = (buildPL g la w).2.length :=
  ((buildPLC_spec g la w).2.2.1.len).symm

theorem getD_eq_getElem_of_lt {α : Type} (l : List α) (d : α) {i : Nat} (h : i < l.length) :
    l.getD i d = l[i] := by
  rw [List.getD_eq_getElem?_getD, List.getElem?_eq_getElem h, Option.getD_some]

/-- **bounded origins ⇒ bounded set, step model**: if all origins of the abstract set `j` are among
the `c` elements of `O`, the set `j` of the step model has at most
`c * R * (maxRhs + 1) + R` situations (with multiplicity), `R = |rules| * (maxRhs + 1)` -/
theorem buildPLC_sits_le_of_origins (g : Grammar) (la : Nat) (w : List Nat) (j : Nat)
    (hj : j < (buildPLC g la w).2.2.length) (O : List Nat)
    (hO : ∀ it ∈ (buildPL g la w).2.getD j [], it.origin ∈ O) :
    ((buildPLC g la w).2.2.getD j default).core.sits.length ≤
      O.length * sitBound g * (g.maxRhs + 1) + sitBound g := by
  have hj' : j < (buildPL g la w).2.length := by rw [← buildPLC_length_eq]; exact hj
  have h1 := buildPLC_sits_le g la w j hj
  rw [getD_eq_getElem_of_lt _ _ hj'] at h1 hO
  have h2 := buildPL_set_le_of_origins g la w j hj' O hO
  have h3 : ((buildPL g la w).2[j]).length ≤ O.length * sitBound g := by
    unfold sitBound; exact h2
  have h4 := Nat.mul_le_mul_right (g.maxRhs + 1) h3
  omega

theorem sum_map_le_mul' {α : Type} (l : List α) (f : α → Nat) (c : Nat) (h : ∀ x ∈ l, f x ≤ c) :
    (l.map f).sum ≤ c * l.length := sum_map_le_mul l f c h

/-- a bound on every set of the step model bounds the total number of situations: linear in the
number of tokens -/
theorem buildPLC_total_le (g : Grammar) (la : Nat) (w : List Nat) (C : Nat)
    (hC : ∀ j, j < (buildPLC g la w).2.2.length →
      ((buildPLC g la w).2.2.getD j default).core.sits.length ≤ C) :
    ((buildPLC g la w).2.2.map fun cs => cs.core.sits.length).sum ≤ C * (w.length + 2) := by
  have h1 := sum_map_le_mul (buildPLC g la w).2.2 (fun cs => cs.core.sits.length) C (by
    intro cs hcs
    obtain ⟨j, hj, rfl⟩ := List.getElem_of_mem hcs
    have := hC j hj
    rwa [getD_eq_getElem_of_lt _ _ hj] at this)
  have h2 := buildPL_length_le g la w
  rw [← buildPLC_length_eq, List.length_append, List.length_singleton] at h2
  exact Nat.le_trans h1 (Nat.mul_le_mul_left C h2)

/-- every set of the step model of `build_pl` for `etfGrammar` has at most 64 situations, with
multiplicity (every input, every level of that model) -/
theorem etf_buildPLC_le (la : Nat) (w : List Nat) (j : Nat)
    (hj : j < (buildPLC etfGrammar la w).2.2.length) :
    ((buildPLC etfGrammar la w).2.2.getD j default).core.sits.length ≤ 64 := by
  have hj' : j < (buildPL etfGrammar la w).2.length := by rw [← buildPLC_length_eq]; exact hj
  have h1 := buildPLC_sits_le etfGrammar la w j hj
  rw [getD_eq_getElem_of_lt _ _ hj'] at h1
  have h2 := etf_buildPL_le la w j hj'
  have e1 : etfGrammar.maxRhs = 3 := by decide
  have e2 : sitBound etfGrammar = 32 := by decide
  rw [e1, e2] at h1
  omega

/-! ## grammars without nullable nonterminals: the step model holds no item twice -/

theorem nullRun_nil (l : List Sym) : nullRun [] l = 0 := by
  cases l with
  | nil => rfl
  | cons s rest =>
    rw [nullRun_cons]
    have : symNullable [] s = false := by cases s <;> simp [symNullable]
    rw [this]; rfl

/-- **without nullable nonterminals (well-formed grammar) a set of the step model holds no item
twice** -/
theorem buildPLC_items_nodup_of_no_nullable {g : Grammar} (hwf : g.WF) (hnl : g.nullable = [])
    (la : Nat) (w : List Nat) (j : Nat) (hj : j < (buildPLC g la w).2.2.length) :
    (((buildPLC g la w).2.2.getD j default).items j).Nodup := by
  obtain ⟨cs, hcs⟩ : ∃ cs, cs = (buildPLC g la w).2.2.getD j default := ⟨_, rfl⟩
  have hmult := buildPLC_mult g la w j hj
  rw [← hcs] at hmult ⊢
  obtain ⟨num, ns, hcore, hd, hnd, hcase⟩ := hmult
  rw [List.nodup_iff_pairwise_ne, List.pairwise_iff_getElem]
  intro i1 i2 hi1 hi2 hlt heq
  have getsit : ∀ {i : Nat} (hi : i < (cs.items j).length),
      ∃ sit, cs.core.sits[i]? = some sit ∧
        (cs.items j)[i] = ⟨sit.1, sit.2, j - dtag cs.dists (cs.core.tagOf i)⟩ := by
    intro i hi
    have hlen : i < cs.core.sits.length := by
      unfold CSet.items at hi; simpa using hi
    refine ⟨cs.core.sits.getD i default, ?_, ?_⟩
    · rw [List.getD_eq_getElem?_getD, List.getElem?_eq_getElem hlen]; rfl
    · unfold CSet.items
      simp only [List.getElem_map, List.getElem_range, originOf_eq]
  obtain ⟨sit1, hs1, e1⟩ := getsit hi1
  obtain ⟨sit2, hs2, e2⟩ := getsit hi2
  rw [e1, e2] at heq
  have h12 : i1 ≠ i2 := by omega
  rcases hcase with ⟨_, h0⟩ | ⟨_, hne⟩
  · have hsit : sit2 = sit1 := by
      simp only [Item.mk.injEq] at heq
      obtain ⟨a, b⟩ := sit1; obtain ⟨a', b'⟩ := sit2
      simp only at heq; rw [heq.1, heq.2.1]
    subst hsit
    exact set0_nodup hwf hcore hnd h0 h12 hs1 hs2
  · have hdist : ∀ p ∈ ns, 1 ≤ p.2 ∧ p.2 ≤ j := fun p hp => ⟨(hne p hp).1, (hne p hp).2.1⟩
    obtain ⟨dA, dB, dist, rl', _, _, hAB, hBd, _, hrun, _⟩ :=
      dup_witness hcore hd hnd hdist h12 hs1 hs2 heq
    have e : g.analysis.nl = [] := hnl
    rw [e, nullRun_nil] at hrun
    omega

/-- hence its size is at most the size of the abstract set at the same position -/
theorem buildPLC_sits_le_of_no_nullable {g : Grammar} (hwf : g.WF) (hnl : g.nullable = [])
    (la : Nat) (w : List Nat) (j : Nat) (hj : j < (buildPLC g la w).2.2.length) :
    ((buildPLC g la w).2.2.getD j default).core.sits.length ≤
      ((buildPL g la w).2.getD j []).length := by
  have hnd := buildPLC_items_nodup_of_no_nullable hwf hnl la w j hj
  have hitems := (buildPLC_spec g la w).2.2.1.items j hj
  have := nodup_subset_length hnd (fun it hit => (hitems it).mp hit)
  unfold CSet.items at this
  rwa [List.length_map, List.length_range] at this

/-- every set of the step model of `build_pl` for `etfGrammar` has at most 8 situations, with
multiplicity (every input, every level of that model) -/
theorem etf_buildPLC_le8 (la : Nat) (w : List Nat) (j : Nat)
    (hj : j < (buildPLC etfGrammar la w).2.2.length) :
    ((buildPLC etfGrammar la w).2.2.getD j default).core.sits.length ≤ 8 := by
  have hj' : j < (buildPL etfGrammar la w).2.length := by rw [← buildPLC_length_eq]; exact hj
  have h1 := buildPLC_sits_le_of_no_nullable etf_wf.1 (by decide) la w j hj
  rw [getD_eq_getElem_of_lt _ _ hj'] at h1
  exact Nat.le_trans h1 (etf_buildPL_le la w j hj')

end Yaep.ETF
