import Yaep.Lemmas.MakeParseFlagSound
import Yaep.Lemmas.MakeParseFlagBSDer
import Yaep.Lemmas.MakeParseSoundPL
/-!
# The ambiguity flag, part 13: the parse list of `build_pl` satisfies `DupOK`
-/
namespace Yaep
open Yaep

/-- a completed item held twice by a set of the parse list of `BS.buildPLC` stands for two
derivations of the right-hand side of its rule -/
theorem dupOK_plSets {g : Grammar} (hwf : g.WF) {la : Nat} {w : List Nat} {one : Bool}
    (hacc : (BS.buildPLC g la w).1 = none) :
    MP.DupOK g (w ++ [g.eofT]) (MP.mkCtx g (plSets g la w) (plTokNums w) one) := by
  intro j i1 i2 rl hne h1 h2 heq hr hdot
  obtain ⟨e1, e2, _⟩ := BS.buildPLC_eq_buildPL g la w
  obtain ⟨hplinv, s2, _⟩ := buildPL_spec g la w
  rw [e1] at hacc
  obtain ⟨s3, _⟩ := s2 hacc
  obtain ⟨_, _, hplok, _⟩ := BS.buildPLC_spec g la w
  change i1 < ((plSets g la w).getD j #[]).size at h1
  change i2 < ((plSets g la w).getD j #[]).size at h2
  change ((plSets g la w).getD j #[]).getD i1 default = ((plSets g la w).getD j #[]).getD i2 default at heq
  change g.rules[(((plSets g la w).getD j #[]).getD i1 default).rule]? = some rl at hr
  change (((plSets g la w).getD j #[]).getD i1 default).dot = rl.rhs.length at hdot
  show ∃ k1 k2, k1 ≠ k2 ∧
    PT.ValidListAt g (w ++ [g.eofT]) k1 rl.rhs (((plSets g la w).getD j #[]).getD i1 default).origin j ∧
    PT.ValidListAt g (w ++ [g.eofT]) k2 rl.rhs (((plSets g la w).getD j #[]).getD i1 default).origin j
  by_cases hj : j < (BS.buildPLC g la w).2.2.length
  · rw [MP.plSets_getD g la w j hj] at h1 h2 heq hr hdot ⊢
    have l1 : i1 < (((BS.buildPLC g la w).2.2.getD j default).items j).length := by simpa using h1
    have l2 : i2 < (((BS.buildPLC g la w).2.2.getD j default).items j).length := by simpa using h2
    have g1 : (((BS.buildPLC g la w).2.2.getD j default).items j).toArray.getD i1 default =
        (((BS.buildPLC g la w).2.2.getD j default).items j)[i1] := by
      rw [Array.getD_eq_getD_getElem?, List.getElem?_toArray, List.getElem?_eq_getElem l1]; rfl
    have g2 : (((BS.buildPLC g la w).2.2.getD j default).items j).toArray.getD i2 default =
        (((BS.buildPLC g la w).2.2.getD j default).items j)[i2] := by
      rw [Array.getD_eq_getD_getElem?, List.getElem?_toArray, List.getElem?_eq_getElem l2]; rfl
    rw [g1] at hr hdot ⊢
    rw [g1, g2] at heq
    have hjt : j ≤ (w ++ [g.eofT]).length := by
      rw [e2, s3] at hj; omega
    obtain ⟨k1, k2, hk, v1, v2⟩ := BS.dup_two_kids hwf hplinv hplok hj hjt
      (BS.buildPLC_mult g la w j hj) hne hr (List.getElem?_eq_getElem l1)
      (by rw [List.getElem?_eq_getElem l2, heq])
    rw [hdot, List.take_length] at v1 v2
    exact ⟨k1, k2, hk, v1, v2⟩
  · have : (plSets g la w).getD j #[] = #[] := by
      rw [Array.getD_eq_getD_getElem?, Array.getElem?_eq_none (by rw [MP.plSets_size]; omega)]; rfl
    rw [this] at h1; simp at h1

end Yaep
