import Yaep.Lemmas.CompleteEv
import Yaep.Props.MakeParseFlag
import Yaep.Props.MakeParseTotal
/-!
# Completeness of the all-parses forest, part 3: the invariant

`CInv`: the soundness invariant `AGood` (used for structural facts only), a *right context* for
every state on the stack (what makes the Earley sets complete along every derivation of the symbols
before the dot), the abstract node of every state on the stack is in the place its translation
goes to, the shape of the ALT chains, and the claim itself: every translation of the whole input
is or will be denoted by the result slot (`Ev`).
-/
namespace Yaep.CP
open Yaep Yaep.MP

/-- right context: the symbols after the dot, followed by a string that FOLLOW of the left-hand
side covers, derive the rest of the input -/
def RCtx (g : Grammar) (toks : List Nat) (st : PState) : Prop :=
  ∃ rl γ, g.rules[st.rule]? = some rl ∧ FollowCovers g rl.lhs γ ∧
    Der g (rl.rhs.drop st.pos ++ γ) (toks.drop (cur st))

structure CInv (g : Grammar) (ok : Nat → Nat → Nat → Bool) (toks : List Nat) (s : St) : Prop where
  good : ∃ G, AGood g ok toks s G none
  rc : ∀ x ∈ s.stack, RCtx g toks (s.state x)
  inpl : ∀ x ∈ s.stack, ∀ a, (s.state x).anode = some a → InSlot s.heap (tgt s (s.state x)) a
  shape : AltShape s.heap
  root : ∀ t, Tr g toks (.n g.axiomN) 0 toks.length t → Ev g toks s (rootId, 0) t

/-! ## structural facts the soundness invariant supplies -/

section
variable {g : Grammar} {ok : Nat → Nat → Nat → Bool} {toks : List Nat} {s : St} {G : Ghost}
  {hole : Option (Nat × Nat)}

/-- the cell of a state with abstract node -/
theorem own_cell (hgood : AGood g ok toks s G hole) {x a : Nat} (hx : x ∈ s.stack)
    (ha : (s.state x).anode = some a) :
    ∃ rl nm ks, g.rules[(s.state x).rule]? = some rl ∧ rl.anode = some nm ∧
      a < s.heap.size ∧ rootId < a ∧ s.heap.getD a .nil = .anode nm rl.cost ks ∧
      ks.size = rl.transLen + 1 ∧
      ∀ d m, ks.getD d none = some m → ∃ q, (s.state x).pos ≤ q ∧ rl.order.getD q none = some d := by
  obtain ⟨rl, hst⟩ := hgood.states x hx
  have hc := hst.cell
  have est : s.states.getD x default = s.state x := rfl
  rw [est, ha] at hc
  obtain ⟨c1, c2, _, nm, ks, c4, c5, c6, c7⟩ := hc
  refine ⟨rl, nm, ks, hst.hr, c4, c1, c2, c5, c6, ?_⟩
  intro d m hm
  obtain ⟨q, X, q1, q2, _, _⟩ := c7 d m hm
  exact ⟨q, q1, q2⟩

/-- the place the translation of a state on the stack goes to is a slot of an abstract-node cell -/
theorem tgt_cell (hwf : g.translWF = true) (hgood : AGood g ok toks s G hole) {x : Nat}
    (hx : x ∈ s.stack) :
    ∃ nm c ks, s.heap.getD (tgt s (s.state x)).1 .nil = .anode nm c ks ∧
      (tgt s (s.state x)).1 < s.heap.size ∧ (tgt s (s.state x)).2 < ks.size := by
  obtain ⟨rl, hst⟩ := hgood.states x hx
  have est : s.states.getD x default = s.state x := rfl
  have htg := hst.tgt
  rw [est] at htg
  rcases htg with ⟨hP, hpd, _⟩ | ⟨hP, rlP, qP, X, aP, t1, t2, t3, _, _, _⟩
  · obtain ⟨ks, k1, k2, k3, _⟩ := hgood.root
    have h0 : (s.state 0).anode = some rootId := hgood.rootSt.1
    have e : tgt s (s.state x) = (rootId, 0) := by
      unfold tgt; rw [hP, h0, hpd]; rfl
    rw [e]
    exact ⟨_, _, ks, k1, k3, by rw [k2]; exact Nat.one_pos⟩
  · have t2' : (s.state (s.state x).parent).anode = some aP := t2
    obtain ⟨rl', nm, ks, o1, o2, o3, o4, o5, o6, _⟩ := own_cell hgood hP t2'
    have o1' : g.rules[(s.states.getD (s.state x).parent default).rule]? = some rl' := o1
    rw [t1] at o1'
    injection o1' with o1'
    subst o1'
    have hok := Grammar.translWF_rule hwf t1
    have e : tgt s (s.state x) = (aP, (s.state x).parentDisp) := by
      unfold tgt; rw [t2']; rfl
    rw [e]
    refine ⟨nm, _, ks, o5, o3, ?_⟩
    simp only
    rw [o6]
    have := hok.slot_lt _ _ (order_getD_eq_some.mp t3)
    omega

/-- the parent of a state on the stack has an abstract node -/
theorem tgt_fst (hgood : AGood g ok toks s G hole) {x : Nat} (hx : x ∈ s.stack) :
    (s.state (s.state x).parent).anode = some (tgt s (s.state x)).1 := by
  obtain ⟨rl, hst⟩ := hgood.states x hx
  obtain ⟨pa, hpa⟩ := hst.pa
  have hpa' : (s.state (s.state x).parent).anode = some pa := hpa
  unfold tgt
  rw [hpa']; rfl

/-- nothing on the stack owes anything to the slots of the abstract node of the top state -/
theorem ev_top_now (hgood : AGood g ok toks s G hole) {X : Nat} {rest : List Nat}
    (hst : s.stack = X :: rest) {a d : Nat} (ha : (s.state X).anode = some a) {t : Tree}
    (h : Ev g toks s (a, d) t) : DenSlot s.heap (a, d) t := by
  rcases h.inv with h | ⟨y, hy, ho⟩
  · exact h
  · exfalso
    have hXmem : X ∈ s.stack := by rw [hst]; simp
    have htg := ho.tgt_eq
    have hfst := tgt_fst hgood hy
    rw [htg] at hfst
    simp only at hfst
    obtain ⟨rl, hsty⟩ := hgood.states y hy
    have est : s.states.getD y default = s.state y := rfl
    have htgy := hsty.tgt
    rw [est] at htgy
    obtain ⟨_, _, _, _, _, _, hroot, _⟩ := own_cell hgood hXmem ha
    have hPX : (s.state y).parent = X := by
      rcases htgy with ⟨hP, _, _⟩ | ⟨hP, _⟩
      · rw [hP] at hfst
        have : (s.state 0).anode = some rootId := hgood.rootSt.1
        rw [this] at hfst
        injection hfst with hfst
        omega
      · exact hgood.noShare _ hP _ hXmem a hfst ha
    have hlt : (s.state y).parent < y := hsty.parLt
    rw [hPX] at hlt
    rw [hst] at hy
    rcases List.mem_cons.mp hy with rfl | hy
    · exact Nat.lt_irrefl _ hlt
    · have := hgood.top_max hst y hy
      omega

end

end Yaep.CP
