import Yaep.Lemmas.MakeParseSoundNT
/-!
# The ambiguity flag of `make_parse`, part 3: the steps of the main loop with explicit ghost frames

`pres_pop`, `pres_term`, `pres_nt` (`MakeParseSoundPres`, `MakeParseSoundNT`) hide the ghost frames
of the new state behind an existential.  Here the same three steps are stated with the frames
spelled out, and with the derivation of an untranslated nonterminal left to the caller: whatever
derivation `kids` of the right-hand side of the chosen candidate the caller supplies becomes the
ghost derivation.  (The proofs are those of the originals with the last line changed.)
-/
namespace Yaep.MP
open Yaep

/-- the result slot holds the translation of the derivation `pt` -/
def FinalP (g : Grammar) (toks : List Nat) (pt : PT) (h : Array MNode) : Prop :=
  PT.IsDerivation g toks pt ∧ ∃ cl, getKid h rootId 0 = some cl ∧ Den h h.size (translate g pt) 0 cl

theorem BelowOK.deliver_final_x {g : Grammar} {ok : Nat → Nat → Nat → Bool} {toks : List Nat}
    {h h' : Array MNode} {sts : Array PState} {frs : List Frame} {hi sb : Nat} {tgt : Nat × Nat}
    {A cLo cFin cl : Nat} {node : PT}
    (hb : BelowOK g ok toks h sts [] frs hi sb tgt A cLo cFin)
    (hk : getKid h' tgt.1 tgt.2 = some cl) (hd : Den h' h'.size (translate g node) hi cl)
    (hv : PT.ValidAt g toks node (.n A) cLo cFin) : FinalP g toks node h' := by
  simp only [BelowOK] at hb
  obtain ⟨_, rfl, rfl, rfl, rfl, _, _⟩ := hb
  exact ⟨hv, cl, hk, Den.frame (Nat.le_refl _) _ _ _ _ (Nat.zero_le _) (AgreeOn.refl _ _ _) hd⟩

/-- `BelowOK.pop_finish` with the new frames spelled out -/
theorem BelowOK.pop_finish_x {g : Grammar} {ok : Nat → Nat → Nat → Bool} {toks : List Nat}
    {h h' : Array MNode} {sts : Array PState} (hwf : g.translWF = true)
    {rest : List Nat} {frs : List Frame} {hi sb : Nat} {tgt : Nat × Nat}
    {A cLo cFin cl : Nat} {node : PT}
    (hb : BelowOK g ok toks h sts rest frs hi sb tgt A cLo cFin)
    (hf : SlotFrame h h' hi tgt) (hhi : hi ≤ h'.size) (hsb : sb ≤ sts.size)
    (hk : getKid h' tgt.1 tgt.2 = some cl) (hd : Den h' h'.size (translate g node) hi cl)
    (hv : PT.ValidAt g toks node (.n A) cLo cFin) :
    (rest = [] ∧ FinalP g toks node h') ∨
    ∃ sid' rest' fr' frs', rest = sid' :: rest' ∧ frs = fr' :: frs' ∧
      TopOK g ok toks h' sts rest ({ fr' with done := node :: fr'.done } :: frs') := by
  cases rest with
  | nil => exact Or.inl ⟨rfl, hb.deliver_final_x hk hd hv⟩
  | cons sid rest =>
    cases frs with
    | nil => simp [BelowOK] at hb
    | cons fr frs => exact Or.inr ⟨sid, rest, fr, frs, rfl, rfl, hb.deliver hwf hf hhi hsb hk hd hv⟩

/-- `pres_pop` with the new frames spelled out: the popped state delivers the derivation
`.node rule done` to the state below -/
theorem pres_pop_x {g : Grammar} {ok : Nat → Nat → Nat → Bool} {toks : List Nat} {c : Ctx} {s : St}
    (hc : CtxOK g ok toks c) (hg : GrOK g) {sid : Nat} {rest : List Nat} {fr : Frame}
    {frs : List Frame}
    (h0 : s.heap.getD nilId .nil = .nil) (h1 : s.heap.getD errId .nil = .err)
    (hst : s.stack = sid :: rest)
    (htop : TopOK g ok toks s.heap s.states (sid :: rest) (fr :: frs))
    (hpos : (s.state sid).pos = 0) :
    (step c s).heap.getD nilId .nil = .nil ∧ (step c s).heap.getD errId .nil = .err ∧
    (step c s).bad = s.bad ∧ (step c s).states = s.states ∧ (step c s).stack = rest ∧
    ((rest = [] ∧ FinalP g toks (.node (s.state sid).rule fr.done) (step c s).heap) ∨
     ∃ sid' rest' fr' frs', rest = sid' :: rest' ∧ frs = fr' :: frs' ∧
       TopOK g ok toks (step c s).heap s.states rest
         ({ fr' with done := .node (s.state sid).rule fr.done :: fr'.done } :: frs')) := by
  simp only [TopOK] at htop
  have est : s.states.getD sid default = s.state sid := rfl
  rw [est] at htop
  obtain ⟨t1, t2, rl, pa, t3, t4, t5, _, t7, t8, tm⟩ := htop
  rw [hpos] at t7
  simp only [List.drop_zero, if_true] at t7
  have hnode : PT.ValidAt g toks (.node (s.state sid).rule fr.done) (.n rl.lhs) (s.state sid).orig fr.fin :=
    .node t3 rfl t7
  have hrule := hc.rule_eq t3
  split at tm
  · -- the state has an abstract node
    rename_i an han
    obtain ⟨m1, m2, m3, m4⟩ := tm
    rw [hpos] at m2
    have hstep := step_pop_some (c := c) hst hpos han
    obtain ⟨p1, p2, p3, p4⟩ := popFold_proj an (List.range (c.rule (s.state sid).rule).transLen)
      { s with stack := rest }
    simp only at p1 p2 p3 p4
    rw [← hstep] at p1 p2 p3 p4
    rw [hrule] at p1
    have p1' : (step c s).heap = fillNil s.heap an rl.transLen := p1
    have hden := owner_complete hg.twf t3 m2 m1 t8 (by rw [t7.length_eq])
    rw [← p1'] at hden
    obtain ⟨nm, ks, s1, s2, _⟩ := m2
    obtain ⟨f1, f2, _⟩ := fillNil_spec s2 (by omega) rl.transLen
    rw [← p1'] at f1 f2
    have hpalt := BelowOK.tgt_lt m4
    have hpage := BelowOK.tgt_ge m4
    simp only at hpalt hpage
    have hk : getKid (step c s).heap pa (s.state sid).parentDisp = some an := by
      unfold getKid at m3 ⊢
      rw [f2 pa (by omega)]; exact m3
    have hfin := BelowOK.pop_finish_x (h' := (step c s).heap) (cl := an) hg.twf m4
      (SlotFrame.of_agree _ (fun n hn => f2 n (by omega)) hpalt) (by omega) (Nat.le_of_lt t1) hk hden hnode
    exact ⟨by rw [f2 _ (by simp [nilId, rootId] at *; omega)]; exact h0,
      by rw [f2 _ (by simp [errId, rootId] at *; omega)]; exact h1, p4, p2, p3, hfin⟩
  · -- no abstract node: the translation is passed through
    rename_i han
    obtain ⟨⟨m1, m2, m3⟩, m4⟩ := tm
    rw [hpos] at m2 m3
    have hstep := step_pop_none (c := c) hst hpos han t5
    rw [hrule] at hstep
    have hpalt := BelowOK.tgt_lt m4
    have hpage := BelowOK.tgt_ge m4
    simp only at hpalt hpage
    by_cases hq : ∃ q d, rl.order.getD q none = some d
    · obtain ⟨q, d, hq⟩ := hq
      obtain ⟨cl, c1, c2⟩ := m2 q d (Nat.zero_le _) hq
      have hq' := order_getD_eq_some.mp hq
      have hok := Grammar.translWF_rule hg.twf t3
      have hd := hok.slot_lt _ _ hq'
      have htl : (rl.transLen == 0) = false := by simp; omega
      rw [htl] at hstep
      simp only [Bool.false_eq_true, if_false] at hstep
      have hql : q < fr.done.length := by
        rw [t7.length_eq, ← hok.len]; exact (List.getElem?_eq_some_iff.mp hq').1
      have hdq : fr.done[q]? = some (fr.done.getD q default) := by
        rw [List.getD_eq_getElem?_getD, List.getElem?_eq_getElem hql]; rfl
      have htr := (translate_passthrough hg.twf t3 m1 fr.done).1 q d _ hq' hdq
      simp only [Nat.sub_zero] at c2
      rw [← htr] at c2
      have hfin := BelowOK.pop_finish_x (h' := s.heap) (cl := cl) hg.twf m4
        (SlotFrame.of_agree _ (fun _ _ => rfl) hpalt) t8 (Nat.le_of_lt t1) c1 c2 hnode
      rw [hstep]
      exact ⟨h0, h1, rfl, rfl, rfl, hfin⟩
    · have hq' : ∀ q, rl.order.getD q none = none := by
        intro q
        cases hh : rl.order.getD q none with
        | none => rfl
        | some d => exact absurd ⟨q, d, hh⟩ hq
      have htl := hg.pass _ _ t3 m1 hq'
      rw [htl] at hstep
      simp only [beq_self_eq_true, if_true] at hstep
      have hnone := m3 (fun q _ => hq' q)
      obtain ⟨nm, cst, ks, v1, v2⟩ := BelowOK.tgt_valid hg.twf m4
      simp only at v1 v2 hnone
      obtain ⟨q1, q2, q3, q4⟩ := place_spec (node := nilId) v1 v2 (by omega) hnone
      have htr := (translate_passthrough hg.twf t3 m1 fr.done).2
        (fun p s' hp => by
          have := order_getD_eq_some.mpr hp
          rw [hq' p] at this; cases this)
      have hden : Den (placeTranslation s.heap (pa, (s.state sid).parentDisp) nilId)
          (placeTranslation s.heap (pa, (s.state sid).parentDisp) nilId).size
          (translate g (.node (s.state sid).rule fr.done)) fr.lo nilId := by
        rw [htr]; simp [Den]
      have hfin := BelowOK.pop_finish_x (cl := nilId) hg.twf m4
        (place_slotFrame (node := nilId) (hi := fr.lo) v1 v2 (by omega) hnone)
        (by rw [q1]; exact t8) (Nat.le_of_lt t1) q4 hden hnode
      rw [hstep]
      refine ⟨?_, ?_, rfl, rfl, rfl, hfin⟩
      · show (placeTranslation s.heap _ nilId).getD nilId .nil = .nil
        rw [q2 _ (by simp [nilId, rootId] at *; omega)]; exact h0
      · show (placeTranslation s.heap _ nilId).getD errId .nil = .err
        rw [q2 _ (by simp [errId, rootId] at *; omega)]; exact h1

/-- `pres_term` with the new frames spelled out: the ghost derivation of the terminal is the leaf
at the token position before the current list index -/
theorem pres_term_x {g : Grammar} {ok : Nat → Nat → Nat → Bool} {toks : List Nat} {c : Ctx} {s : St}
    (hc : CtxOK g ok toks c) (hg : GrOK g) {sid : Nat} {rest : List Nat} {fr : Frame}
    {frs : List Frame}
    (h0 : s.heap.getD nilId .nil = .nil) (h1 : s.heap.getD errId .nil = .err)
    (hst : s.stack = sid :: rest)
    (htop : TopOK g ok toks s.heap s.states (sid :: rest) (fr :: frs))
    (hpos : (s.state sid).pos ≠ 0) {rl : Rule} {a : Nat}
    (hr : g.rules[(s.state sid).rule]? = some rl)
    (hX : rl.rhs[(s.state sid).pos - 1]? = some (.t a)) :
    ∃ j0, j0 + 1 = (s.state sid).plInd ∧ toks[j0]? = some a ∧
      TopOK g ok toks (step c s).heap (step c s).states (sid :: rest)
        ({ fr with done := .leaf a j0 :: fr.done } :: frs) ∧
      (step c s).heap.getD nilId .nil = .nil ∧ (step c s).heap.getD errId .nil = .err ∧
      (s.bad = false → (step c s).bad = false) ∧ (step c s).stack = sid :: rest ∧
      (step c s).states = s.states.set! sid
        { s.state sid with pos := (s.state sid).pos - 1,
                           plInd := if (s.state sid).pos - 1 != 0 then (s.state sid).plInd - 1
                                    else (s.state sid).plInd } := by
  have htop' := htop
  simp only [TopOK] at htop'
  have est : s.states.getD sid default = s.state sid := rfl
  rw [est] at htop'
  obtain ⟨t1, t2, rl', pa, t3, t4, t5, t6, _, t8, _⟩ := htop'
  rw [hr] at t3; injection t3 with t3; subst t3
  have hrule := hc.rule_eq hr
  have hstep := step_term (c := c) (a := a) hst hpos (by rw [hrule]; exact getD_of_getElem? hX)
  have t5' : (s.state (s.state sid).parent).anode = some pa := t5
  rw [t5', hrule] at hstep
  obtain ⟨p1, p2, _, p4⟩ := stepTerm_proj (c := c) (sid := sid) (st := s.state sid)
    (pos := (s.state sid).pos - 1) (disp := rl.order.getD ((s.state sid).pos - 1) none) (a := a)
    (pa := pa) (s := s) hc.one
  rw [← hstep] at p1 p2 p4
  have hpp : (s.state sid).pos - 1 + 1 = (s.state sid).pos := by omega
  have hear := t6 hpos
  rw [← hpp] at hear
  obtain ⟨j0, hj0, hw, hear0⟩ := hear.term_inv hr hX
  have hjle := (t6 hpos).le_length
  have hadv := top_advance (h := s.heap) (sts := s.states) (sts' := (step c s).states)
    (h' := (step c s).heap)
    (h1 := if a == c.errT then s.heap else s.heap.push (.term (c.termCodes.getD a 0)
      (c.plToks.getD ((s.state sid).plInd - 1 + 1) (-1))))
    (node := if a == c.errT then errId else s.heap.size)
    (st' := { s.state sid with pos := (s.state sid).pos - 1,
                               plInd := if (s.state sid).pos - 1 != 0 then (s.state sid).plInd - 1
                                        else (s.state sid).plInd })
    (kid := .leaf a j0) (mid := j0) (X := .t a) hg.twf htop hpos hr t5 hX
    (by rw [p1]; exact StsUpd.set _ t1) rfl rfl rfl rfl rfl rfl
    (by rw [est, hj0]; exact .leaf hw) hear0
    (by intro hp
        have hp' : ((s.state sid).pos - 1 != 0) = true := by simpa using hp
        simp only [hp', if_true]; omega)
    (by split
        · exact ⟨Nat.le_refl _, fun _ _ => rfl⟩
        · exact ⟨by simp, fun m hm => getD_push_lt _ _ _ _ hm⟩)
    (by
      rw [est, p4]
      cases hd : rl.order.getD ((s.state sid).pos - 1) none with
      | none => exact Or.inl ⟨rfl, rfl⟩
      | some d =>
        right
        refine ⟨d, rfl, ?_, ?_⟩
        · simp only
          split <;> rfl
        · intro h'' hs1 hs2 hs3 hs4
          by_cases he : (a == c.errT) = true
          · have hae : a = g.errT := by rw [← hc.errT]; simpa using he
            simp only [he, if_true]
            rw [hae, translate_leaf_error]
            simp [Den]
          · have hae : a ≠ g.errT := by rw [← hc.errT]; simpa using he
            have he' : (a == c.errT) = false := by simpa using he
            simp only [he', Bool.false_eq_true, if_false] at hs1 hs4 ⊢
            rw [translate_leaf hae]
            simp only [Den]
            refine ⟨hs3, by rw [hs1]; simp, ?_⟩
            rw [hs4 _ (by omega), getD_push_eq]
            have e1 : c.termCodes.getD a 0 = g.termCodes.getD a 0 := by
              rw [hc.codes, Array.getD_eq_getD_getElem?, List.getElem?_toArray,
                List.getD_eq_getElem?_getD]
            have e2 : c.plToks.getD ((s.state sid).plInd - 1 + 1) (-1) = (j0 : Int) := by
              rw [hj0]
              simp only [Nat.add_sub_cancel]
              rw [hc.ptoks (j0 + 1) (by omega) (by omega)]
              omega
            rw [e1, e2])
  obtain ⟨a1, a2, a3⟩ := hadv
  refine ⟨j0, hj0.symm, hw, a1, by rw [a2]; exact h0, by rw [a3]; exact h1, ?_, by rw [p2, hst], p1⟩
  intro hb
  rw [hstep]
  refine stepTerm_bad_false hc.one hb (by omega) ?_
  rw [hj0]
  simp only [Nat.add_sub_cancel]
  rw [hc.ptoks (j0 + 1) (by omega) (by omega)]
  omega
/-- outcome of a step over the nonterminal before the dot of the top state `sid`, whose chosen
candidate is the situation `(sr, len, so)` and whose ghost derivation is `kid`: either the top state
has moved its dot over the symbol (untranslated symbol, or empty rule without abstract node), or a
state for the candidate has been pushed.  `H S K B` are the heap, the parse states, the stack and
the flag `bad` after the step. -/
def NtOutC (g : Grammar) (ok : Nat → Nat → Nat → Bool) (toks : List Nat) (s : St) (sid : Nat)
    (rest : List Nat) (fr : Frame) (frs : List Frame) (sr len so : Nat) (kid : PT)
    (H : Array MNode) (S : Array PState) (K : List Nat) (B : Bool) : Prop :=
  B = s.bad ∧
  StsUpd s.states S sid { s.state sid with pos := (s.state sid).pos - 1, plInd := so } ∧
  H.getD nilId .nil = .nil ∧ H.getD errId .nil = .err ∧
  ((K = sid :: rest ∧
      TopOK g ok toks H S (sid :: rest) ({ fr with done := kid :: fr.done } :: frs)) ∨
   (∃ frY, K = s.states.size :: sid :: rest ∧
      TopOK g ok toks H S (s.states.size :: sid :: rest) (frY :: fr :: frs) ∧
      (S.getD s.states.size default).rule = sr ∧ (S.getD s.states.size default).pos = len ∧
      (S.getD s.states.size default).orig = so ∧
      (S.getD s.states.size default).plInd = (s.state sid).plInd))

/-- `pres_nt` with the new frames spelled out; the derivation of the right-hand side of the
chosen candidate is supplied by the caller -/
theorem pres_nt_x {g : Grammar} {ok : Nat → Nat → Nat → Bool} {toks : List Nat} {c : Ctx} {s : St}
    (hc : CtxOK g ok toks c) (hg : GrOK g) {sid : Nat} {rest : List Nat} {fr : Frame}
    {frs : List Frame}
    (h0 : s.heap.getD nilId .nil = .nil) (h1 : s.heap.getD errId .nil = .err)
    (hst : s.stack = sid :: rest)
    (htop : TopOK g ok toks s.heap s.states (sid :: rest) (fr :: frs))
    (hpos : (s.state sid).pos ≠ 0) {rl : Rule} {A : Nat}
    (hr : g.rules[(s.state sid).rule]? = some rl)
    (hX : rl.rhs[(s.state sid).pos - 1]? = some (.n A)) :
    ((∀ i ∈ reduces c (c.sets.getD (s.state sid).plInd #[]) A,
        checkFound c (ntLoc c s sid A)
          ((c.sets.getD (s.state sid).plInd #[]).getD i default).origin = false) ∧
      (step c s).bad = true) ∨
    ∃ i ∈ reduces c (c.sets.getD (s.state sid).plInd #[]) A,
      checkFound c (ntLoc c s sid A)
        ((c.sets.getD (s.state sid).plInd #[]).getD i default).origin = true ∧
      ∃ sr so rl', (c.sets.getD (s.state sid).plInd #[]).getD i default = ⟨sr, rl'.rhs.length, so⟩ ∧
        g.rules[sr]? = some rl' ∧ rl'.lhs = A ∧
        ∀ kids, PT.ValidListAt g toks kids rl'.rhs so (s.state sid).plInd →
          NtOutC g ok toks s sid rest fr frs sr rl'.rhs.length so (.node sr kids)
            (step c s).heap (step c s).states (step c s).stack (step c s).bad := by
  have htop' := htop
  simp only [TopOK] at htop'
  have est : s.states.getD sid default = s.state sid := rfl
  rw [est] at htop'
  obtain ⟨t1, t2, rl', pa, t3, t4, t5, t6, _, t8, _⟩ := htop'
  rw [hr] at t3; injection t3 with t3; subst t3
  have hrule := hc.rule_eq hr
  have t5' : (s.state (s.state sid).parent).anode = some pa := t5
  have hstep := step_nt' (c := c) hst hpos (by rw [hrule]; exact getD_of_getElem? hX)
  rcases candLoop_zero (L := ntLoc c s sid A) (set := c.sets.getD (s.state sid).plInd #[]) hc.one
    (reduces c (c.sets.getD (s.state sid).plInd #[]) A) (ntS0 s sid) with ⟨hz, hall⟩ | ⟨i, hi, hfound, b, hcl⟩
  · left; rw [hstep, hz]; exact ⟨hall, rfl⟩
  · right
    obtain ⟨sr, so, rl', kids0, hsit, hr', hrule', hlhs, hE, _, _, hE2⟩ := cand_facts hc hi hfound
    rw [hsit] at hcl
    rw [hcl] at hstep
    have hS : step c s = { (candidate c (ntLoc c s sid A) ⟨sr, rl'.rhs.length, so⟩ 0 [] (ntS0 s sid)).1 with amb := b } := by
      rw [hstep]; rfl
    refine ⟨i, hi, hfound, sr, so, rl', hsit, hr', hlhs, ?_⟩
    intro kids hkids
    have hkid : PT.ValidAt g toks (.node sr kids) (.n A) so (s.state sid).plInd := .node hr' hlhs hkids
    rw [hS]
    show NtOutC g ok toks s sid rest fr frs sr rl'.rhs.length so (.node sr kids)
      (candidate c (ntLoc c s sid A) ⟨sr, rl'.rhs.length, so⟩ 0 [] (ntS0 s sid)).1.heap (candidate c (ntLoc c s sid A) ⟨sr, rl'.rhs.length, so⟩ 0 [] (ntS0 s sid)).1.states (candidate c (ntLoc c s sid A) ⟨sr, rl'.rhs.length, so⟩ 0 [] (ntS0 s sid)).1.stack (candidate c (ntLoc c s sid A) ⟨sr, rl'.rhs.length, so⟩ 0 [] (ntS0 s sid)).1.bad
    have hpp1 : (s.state sid).pos - 1 + 1 = (s.state sid).pos := by omega
    have hs0 := ntS0_state (s := s) t1
    have hheap0 : (ntS0 s sid).heap = s.heap := rfl
    have hsz0 : sid < (ntS0 s sid).states.size := by simp [ntS0]; exact t1
    have hLd : (ntLoc c s sid A).disp = rl.order.getD ((s.state sid).pos - 1) none := by
      simp only [ntLoc, hrule]
    have hLp : (ntLoc c s sid A).parentAnode = some pa := t5'
    have hE2' : EarleyF g ok toks so ⟨(s.state sid).rule, (s.state sid).pos - 1, (s.state sid).orig⟩ := hE2
    -- the states after `orig_state->pl_ind = sit_orig`
    have hupd : StsUpd s.states
        ((ntS0 s sid).states.set! sid { (ntS0 s sid).state sid with plInd := so }) sid
        { s.state sid with pos := (s.state sid).pos - 1, plInd := so } := by
      have u1 : StsUpd s.states (ntS0 s sid).states sid _ := StsUpd.set _ t1
      have u2 := StsUpd.set (sts := (ntS0 s sid).states)
        { (ntS0 s sid).state sid with plInd := so } hsz0
      rw [hs0] at u2 ⊢
      exact u1.trans u2
    cases hd : rl.order.getD ((s.state sid).pos - 1) none with
    | none =>
      -- the symbol is not translated
      have hskip := candidate_skip (c := c) (L := ntLoc c s sid A) (sit := ⟨sr, rl'.rhs.length, so⟩)
        (s := ntS0 s sid) (Or.inr (by rw [hLd]; exact hd))
      have hadv := top_advance (h := s.heap) (h1 := s.heap) (h' := s.heap) (node := 0) (kid := .node sr kids)
        (mid := so) (X := .n A) hg.twf htop hpos hr t5 hX hupd rfl rfl rfl rfl rfl rfl
        (by rw [est]; exact hkid) hE2' (fun _ => rfl) ⟨Nat.le_refl _, fun _ _ => rfl⟩
        (Or.inl ⟨by rw [est]; exact hd, rfl⟩)
      have k1 : (candidate c (ntLoc c s sid A) ⟨sr, rl'.rhs.length, so⟩ 0 [] (ntS0 s sid)).1.heap = s.heap := by
        rw [hskip]; rfl
      have k2 : (candidate c (ntLoc c s sid A) ⟨sr, rl'.rhs.length, so⟩ 0 [] (ntS0 s sid)).1.states =
          (ntS0 s sid).states.set! sid { (ntS0 s sid).state sid with plInd := so } := by
        rw [hskip]; rfl
      have k3 : (candidate c (ntLoc c s sid A) ⟨sr, rl'.rhs.length, so⟩ 0 [] (ntS0 s sid)).1.stack =
          sid :: rest := by
        rw [hskip]; exact hst
      have k4 : (candidate c (ntLoc c s sid A) ⟨sr, rl'.rhs.length, so⟩ 0 [] (ntS0 s sid)).1.bad = s.bad := by
        rw [hskip]; rfl
      rw [k1, k2, k3, k4]
      exact ⟨rfl, hupd, h0, h1, Or.inl ⟨rfl, hadv.1⟩⟩
    | some d =>
      have hLd' : (ntLoc c s sid A).disp = some d := by rw [hLd]; exact hd
      have hplace : childPlace (ntS0 s sid) (ntLoc c s sid A) pa d = placeOf (s.state sid) pa d := by
        unfold childPlace placeOf
        show (match ((ntS0 s sid).state sid).anode with
          | none => (pa, (s.state sid).parentDisp) | some a => (a, d)) = _
        rw [hs0]
        cases (s.state sid).anode <;> rfl
      have hS1size : ((ntS0 s sid).states.set! sid { (ntS0 s sid).state sid with plInd := so }).size =
          s.states.size := by simp [ntS0]
      cases hn : rl'.anode with
      | some name =>
        -- the rule of the candidate has an abstract node: new cell, new state
        have han := candidate_anode (c := c) (L := ntLoc c s sid A) (sit := ⟨sr, rl'.rhs.length, so⟩)
          (s := ntS0 s sid) hc.one hLp hLd' (by rw [hrule']; exact hn) hsz0
        simp only at han
        obtain ⟨n1, n2, n3, n4⟩ := han
        rw [hplace, hrule', hheap0] at n1
        have hupd2 := hupd.push t1 (childState (ntS0 s sid) (ntLoc c s sid A) ⟨sr, rl'.rhs.length, so⟩ d
          (some (ntS0 s sid).heap.size))
        obtain ⟨b1, b2, b3, b4, ⟨nm0, c0, ks0, b5, b6⟩, _⟩ := top_to_below (h := s.heap)
          (h' := placeTranslation (s.heap.push (.anode name rl'.cost (Array.replicate (rl'.transLen + 1) none)))
            (placeOf (s.state sid) pa d) s.heap.size)
          (sb := s.states.size) (mid := so) hg.twf htop hpos hr t5 hX (by rw [est]; exact hd) hupd2
          rfl rfl rfl rfl rfl rfl rfl hE2' t1
        rw [est] at b1 b2 b3 b4 b5 b6
        obtain ⟨p1, p2, p3⟩ := childState_parent (c := c) (A := A) (sit := ⟨sr, rl'.rhs.length, so⟩) (d := d)
          (an' := some (ntS0 s sid).heap.size) t1 t2 t5 hupd2 rfl
        generalize placeOf (s.state sid) pa d = place at *
        obtain ⟨pn, pi⟩ := place
        simp only at b2 b3 b4 b5 b6 p2 p3
        have b4' : 2 ≤ pn := b4
        have hcell1 : (s.heap.push (MNode.anode name rl'.cost (Array.replicate (rl'.transLen + 1) none))).getD pn .nil =
            .anode nm0 c0 ks0 := by rw [getD_push_lt _ _ _ _ b3]; exact b5
        have hk1 : getKid (s.heap.push (MNode.anode name rl'.cost (Array.replicate (rl'.transLen + 1) none))) pn pi =
            none := by rw [getKid_of_cell hcell1, ← getKid_of_cell b5]; exact b2
        obtain ⟨q1, q2, q3, q4⟩ := place_spec (node := s.heap.size) hcell1 b6 (by simp; omega) hk1
        have hbelow := b1 (SlotFrame.trans (push_slotFrame (pn, pi) (Nat.le_refl _) b3)
          (place_slotFrame hcell1 b6 (by simp; omega) hk1))
        obtain ⟨frY, hY⟩ := top_push (Ysid := s.states.size) (rl' := rl') hg.twf hbelow
          (by rw [← hS1size, getD_push_eq]) (by simp [ntS0]) p1 hr' hlhs rfl rfl rfl hE p2 p3
          (by rw [q1]; simp)
          (Or.inl ⟨s.heap.size, name, rfl, rfl, by rw [q1]; simp, hn,
            by rw [q2 _ (by omega), getD_push_eq], q4⟩)
        have n3' : (candidate c (ntLoc c s sid A) ⟨sr, rl'.rhs.length, so⟩ 0 [] (ntS0 s sid)).1.stack =
            s.states.size :: sid :: rest := by
          rw [n3]; show _ :: s.stack = _; rw [hst]; simp [ntS0]
        rw [n1, n2, n3', n4]
        refine ⟨rfl, hupd2, ?_, ?_, Or.inr ⟨frY, rfl, hY, ?_⟩⟩
        · rw [q2 _ (by show 0 ≠ pn; omega), getD_push_lt _ _ _ _ (by show 0 < _; omega)]; exact h0
        · rw [q2 _ (by show 1 ≠ pn; omega), getD_push_lt _ _ _ _ (by show 1 < _; omega)]; exact h1
        · have hy := getD_push_eq ((ntS0 s sid).states.set! sid { (ntS0 s sid).state sid with plInd := so })
            (childState (ntS0 s sid) (ntLoc c s sid A) ⟨sr, rl'.rhs.length, so⟩ d (some (ntS0 s sid).heap.size))
            default
          rw [hS1size] at hy
          exact ⟨(congrArg PState.rule hy).trans rfl, (congrArg PState.pos hy).trans rfl,
            (congrArg PState.orig hy).trans rfl, (congrArg PState.plInd hy).trans rfl⟩
      | none =>
        by_cases hdot : rl'.rhs.length = 0
        · -- an empty rule without abstract node: the empty node
          have hnil := candidate_nil (c := c) (L := ntLoc c s sid A) (sit := ⟨sr, rl'.rhs.length, so⟩)
            (s := ntS0 s sid) hLp hLd' (by rw [hrule']; exact hn) hdot hsz0
          simp only at hnil
          obtain ⟨n1, n2, n3, n4⟩ := hnil
          rw [hplace, hheap0] at n1
          have htr : translate g (.node sr kids) = .nil :=
            (translate_passthrough hg.twf hr' hn kids).2 (fun p s' hp => by
              have hl := (Grammar.translWF_rule hg.twf hr').len
              have := (List.getElem?_eq_some_iff.mp hp).1
              omega)
          have hadv := top_advance (h := s.heap) (h1 := s.heap)
            (h' := placeTranslation s.heap (placeOf (s.state sid) pa d) nilId) (node := nilId)
            (kid := .node sr kids) (mid := so) (X := .n A) hg.twf htop hpos hr t5 hX hupd
            rfl rfl rfl rfl rfl rfl (by rw [est]; exact hkid) hE2' (fun _ => rfl)
            ⟨Nat.le_refl _, fun _ _ => rfl⟩
            (Or.inr ⟨d, by rw [est]; exact hd, by rw [est], fun h'' _ _ _ _ => by rw [htr]; simp [Den]⟩)
          have n3' : (candidate c (ntLoc c s sid A) ⟨sr, rl'.rhs.length, so⟩ 0 [] (ntS0 s sid)).1.stack =
              sid :: rest := by rw [n3]; exact hst
          rw [n1, n2, n3', n4]
          exact ⟨rfl, hupd, by rw [hadv.2.1]; exact h0, by rw [hadv.2.2]; exact h1, Or.inl ⟨rfl, hadv.1⟩⟩
        · -- a rule without abstract node: a new state that passes its translation through
          have hps := candidate_pass (c := c) (L := ntLoc c s sid A) (sit := ⟨sr, rl'.rhs.length, so⟩)
            (s := ntS0 s sid) hLp hLd' (by rw [hrule']; exact hn) hdot hsz0
          simp only at hps
          obtain ⟨n1, n2, n3, n4⟩ := hps
          rw [hheap0] at n1
          have hupd2 := hupd.push t1 (childState (ntS0 s sid) (ntLoc c s sid A) ⟨sr, rl'.rhs.length, so⟩ d none)
          obtain ⟨b1, b2, b3, b4, _, _⟩ := top_to_below (h := s.heap) (h' := s.heap)
            (sb := s.states.size) (mid := so) hg.twf htop hpos hr t5 hX (by rw [est]; exact hd) hupd2
            rfl rfl rfl rfl rfl rfl rfl hE2' t1
          rw [est] at b1 b2 b3 b4
          obtain ⟨p1, p2, p3⟩ := childState_parent (c := c) (A := A) (sit := ⟨sr, rl'.rhs.length, so⟩) (d := d)
            (an' := none) t1 t2 t5 hupd2 rfl
          have hbelow := b1 (SlotFrame.of_agree _ (fun _ _ => rfl) b3)
          obtain ⟨frY, hY⟩ := top_push (Ysid := s.states.size) (rl' := rl') hg.twf hbelow
            (by rw [← hS1size, getD_push_eq]) (by simp [ntS0]) p1 hr' hlhs rfl rfl rfl hE p2 p3
            (Nat.le_refl _) (Or.inr ⟨rfl, hn, b2⟩)
          have n3' : (candidate c (ntLoc c s sid A) ⟨sr, rl'.rhs.length, so⟩ 0 [] (ntS0 s sid)).1.stack =
              s.states.size :: sid :: rest := by
            rw [n3]; show _ :: s.stack = _; rw [hst]; simp [ntS0]
          rw [n1, n2, n3', n4]
          refine ⟨rfl, hupd2, h0, h1, Or.inr ⟨frY, rfl, hY, ?_⟩⟩
          have hy := getD_push_eq ((ntS0 s sid).states.set! sid { (ntS0 s sid).state sid with plInd := so })
            (childState (ntS0 s sid) (ntLoc c s sid A) ⟨sr, rl'.rhs.length, so⟩ d none) default
          rw [hS1size] at hy
          exact ⟨(congrArg PState.rule hy).trans rfl, (congrArg PState.pos hy).trans rfl,
            (congrArg PState.orig hy).trans rfl, (congrArg PState.plInd hy).trans rfl⟩

end Yaep.MP
