import Yaep.Lemmas.CompleteCand
/-!
# Completeness of the all-parses forest, part 9: an untranslated nonterminal before the dot

Without an *origins* event all candidates have the origin of the first one, to which the state
moves; nothing else happens.
-/
namespace Yaep.CP
open Yaep Yaep.MP

section
variable {g : Grammar} {ok : Nat → Nat → Nat → Bool} {toks : List Nat} {c : Ctx} {s : St}

/-- the loop over the reduces of an untranslated nonterminal, as long as the counter of the
*origins* events stands still -/
theorem loop_untr (hall : c.oneParse = false) {X A : Nat}
    (hLd : (ntLoc c s X A).disp = none) (hXlt : X < s.states.size) :
    s.origins ≤ (candLoop c (ntLoc c s X A) (c.sets.getD (s.state X).plInd #[]) (reduces c (c.sets.getD (s.state X).plInd #[]) A) 0 [] (ntS0 s X)).1.origins ∧
    ((candLoop c (ntLoc c s X A) (c.sets.getD (s.state X).plInd #[]) (reduces c (c.sets.getD (s.state X).plInd #[]) A) 0 [] (ntS0 s X)).1.origins = s.origins →
      (candLoop c (ntLoc c s X A) (c.sets.getD (s.state X).plInd #[]) (reduces c (c.sets.getD (s.state X).plInd #[]) A) 0 [] (ntS0 s X)).1.heap = s.heap ∧
      (candLoop c (ntLoc c s X A) (c.sets.getD (s.state X).plInd #[]) (reduces c (c.sets.getD (s.state X).plInd #[]) A) 0 [] (ntS0 s X)).1.stack = s.stack ∧
      (((candLoop c (ntLoc c s X A) (c.sets.getD (s.state X).plInd #[]) (reduces c (c.sets.getD (s.state X).plInd #[]) A) 0 [] (ntS0 s X)).2 = 0 ∧
        (candLoop c (ntLoc c s X A) (c.sets.getD (s.state X).plInd #[]) (reduces c (c.sets.getD (s.state X).plInd #[]) A) 0 [] (ntS0 s X)).1.states = (ntS0 s X).states) ∨
       ((candLoop c (ntLoc c s X A) (c.sets.getD (s.state X).plInd #[]) (reduces c (c.sets.getD (s.state X).plInd #[]) A) 0 [] (ntS0 s X)).2 ≠ 0 ∧
        ∃ k0, (candLoop c (ntLoc c s X A) (c.sets.getD (s.state X).plInd #[]) (reduces c (c.sets.getD (s.state X).plInd #[]) A) 0 [] (ntS0 s X)).1.states = s.states.set! X
          { s.state X with pos := (s.state X).pos - 1, plInd := k0 } ∧
         ∀ i ∈ reduces c (c.sets.getD (s.state X).plInd #[]) A, checkFound c (ntLoc c s X A) ((c.sets.getD (s.state X).plInd #[]).getD i default).origin = true →
           ((c.sets.getD (s.state X).plInd #[]).getD i default).origin = k0))) := by
  have hs0X : (ntS0 s X).state X = { s.state X with pos := (s.state X).pos - 1 } := ntS0_state hXlt
  have hs0sz : X < (ntS0 s X).states.size := by simp [ntS0]; exact hXlt
  obtain ⟨os', hM⟩ := candLoop_rem (c := c) (L := ntLoc c s X A) (set := c.sets.getD (s.state X).plInd #[]) hall
    (fun rem n _ s' => s.origins ≤ s'.origins ∧ (s'.origins = s.origins →
      s'.heap = s.heap ∧ s'.stack = s.stack ∧
      ((n = 0 ∧ s'.states = (ntS0 s X).states ∧
          ∀ i ∈ reduces c (c.sets.getD (s.state X).plInd #[]) A, checkFound c (ntLoc c s X A) ((c.sets.getD (s.state X).plInd #[]).getD i default).origin = true → i ∈ rem) ∨
       (n ≠ 0 ∧ ∃ k0, s'.states = s.states.set! X
          { s.state X with pos := (s.state X).pos - 1, plInd := k0 } ∧
         ∀ i ∈ reduces c (c.sets.getD (s.state X).plInd #[]) A, checkFound c (ntLoc c s X A) ((c.sets.getD (s.state X).plInd #[]).getD i default).origin = true →
           i ∈ rem ∨ ((c.sets.getD (s.state X).plInd #[]).getD i default).origin = k0))))
    (fun rem n os s' _ hm => hm)
    (fun i rem n os s' hf hm => by
      refine ⟨hm.1, fun ho => ?_⟩
      obtain ⟨h1, h2, h3⟩ := hm.2 ho
      refine ⟨h1, h2, ?_⟩
      rcases h3 with ⟨a1, a2, a3⟩ | ⟨a1, k0, a2, a3⟩
      · left
        refine ⟨a1, a2, fun j hj hp => ?_⟩
        rcases List.mem_cons.mp (a3 j hj hp) with rfl | h
        · rw [hf] at hp; cases hp
        · exact h
      · right
        refine ⟨a1, k0, a2, fun j hj hp => ?_⟩
        rcases a3 j hj hp with h | h
        · rcases List.mem_cons.mp h with rfl | h
          · rw [hf] at hp; cases hp
          · exact Or.inl h
        · exact Or.inr h)
    (fun i rem n os s' hf hm => by
      rw [candidate_untr hLd]
      simp only
      obtain ⟨_, c2, c3⟩ := candPre_counts (ntLoc c s X A) ((c.sets.getD (s.state X).plInd #[]).getD i default) n s'
      refine ⟨Nat.le_trans hm.1 c2, fun ho => ?_⟩
      have ho' : s'.origins = s.origins := by have := hm.1; omega
      obtain ⟨h1, h2, h3⟩ := hm.2 ho'
      rcases h3 with ⟨a1, a2, a3⟩ | ⟨a1, k0, a2, a3⟩
      · subst a1
        rw [candPre_zero]
        refine ⟨h1, h2, Or.inr ⟨Nat.succ_ne_zero _, ((c.sets.getD (s.state X).plInd #[]).getD i default).origin, ?_, ?_⟩⟩
        · show s'.states.set! X { s'.state X with plInd := _ } = _
          have e : s'.state X = (ntS0 s X).state X := by unfold St.state; rw [a2]
          rw [e, hs0X, a2]
          show (s.states.set! X _).set! X _ = _
          simp [Array.set!_eq_setIfInBounds]
        · intro j hj hp
          rcases List.mem_cons.mp (a3 j hj hp) with rfl | h
          · exact Or.inr rfl
          · exact Or.inl h
      · obtain ⟨p1, p2, p3, _, _⟩ := candPre_untr_pos (L := ntLoc c s X A) (sit := (c.sets.getD (s.state X).plInd #[]).getD i default) (s := s') a1
        have hpl := c3 (by rw [ho, ho']) a1 (by rw [hLd]; simp)
        have hk0 : (s'.state X).plInd = k0 := by
          unfold St.state; rw [a2, getD_set!, if_pos ⟨rfl, hXlt⟩]
        have hpl' : ((c.sets.getD (s.state X).plInd #[]).getD i default).origin = k0 := by
          have : (s'.state (ntLoc c s X A).origSid).plInd = ((c.sets.getD (s.state X).plInd #[]).getD i default).origin := hpl
          rw [← this]; exact hk0
        refine ⟨by rw [p1]; exact h1, by rw [p3]; exact h2,
          Or.inr ⟨Nat.succ_ne_zero _, k0, by rw [p2]; exact a2, ?_⟩⟩
        intro j hj hp
        rcases a3 j hj hp with h | h
        · rcases List.mem_cons.mp h with rfl | h
          · exact Or.inr hpl'
          · exact Or.inl h
        · exact Or.inr h)
    (reduces c (c.sets.getD (s.state X).plInd #[]) A) 0 [] (ntS0 s X)
    ⟨Nat.le_refl _, fun _ => ⟨rfl, rfl, Or.inl ⟨rfl, rfl, fun i hi _ => hi⟩⟩⟩
  refine ⟨hM.1, fun ho => ?_⟩
  obtain ⟨h1, h2, h3⟩ := hM.2 ho
  refine ⟨h1, h2, ?_⟩
  rcases h3 with ⟨a1, a2, _⟩ | ⟨a1, k0, a2, a3⟩
  · exact Or.inl ⟨a1, a2⟩
  · refine Or.inr ⟨a1, k0, a2, fun i hi hp => ?_⟩
    rcases a3 i hi hp with h | h
    · cases h
    · exact h

/-- **an untranslated nonterminal before the dot** -/
theorem cstep_nt_untr (hcc : CtxAllc g ok toks c) (hg : GrOK g) (hsr : g.symsInRange = true)
    (hokd : OkDer g ok toks) (hinv : CInv g ok toks s) {X : Nat} {rest : List Nat}
    (hst : s.stack = X :: rest) {rlX : Rule} {A : Nat}
    (hr : g.rules[(s.state X).rule]? = some rlX) (hpos : (s.state X).pos ≠ 0)
    (hsym : rlX.rhs[(s.state X).pos - 1]? = some (.n A))
    (hd : rlX.order.getD ((s.state X).pos - 1) none = none)
    (hnb : (step c s).bad = false) (hev : (step c s).origins = s.origins) :
    CInv g ok toks (step c s) := by
  have hc := hcc.toCtxAll
  obtain ⟨G, hgood⟩ := hinv.good
  have hwf := hg.twf
  have hgood' : ∃ G', AGood g ok toks (step c s) G' none := by
    rcases astep_nt hc hwf hgood hst hr hpos hsym with hb | h
    · rw [hb] at hnb; cases hnb
    · exact h
  have hXmem : X ∈ s.stack := by rw [hst]; simp
  obtain ⟨rl0, hX0⟩ := hgood.states X hXmem
  have est : s.states.getD X default = s.state X := rfl
  have hrl : rl0 = rlX := by
    have := hX0.hr; rw [est, hr] at this; injection this with this; exact this.symm
  subst hrl
  have hXlt : X < s.states.size := hX0.lt
  have hrule := hc.rule_eq hr
  have hLd : (ntLoc c s X A).disp = none := by simp only [ntLoc, hrule]; exact hd
  have hstep := step_nt' (c := c) hst hpos (by rw [hrule]; exact getD_of_getElem? hsym)
  obtain ⟨l1, l2⟩ := loop_untr (c := c) (s := s) hc.all hLd hXlt
  simp only at l1 l2
  obtain ⟨hitem, _⟩ := hX0.item (by rw [est]; exact hpos)
  rw [est] at hitem
  -- the loop ended with a candidate
  have hn0 : (candLoop c (ntLoc c s X A) (c.sets.getD (s.state X).plInd #[])
      (reduces c (c.sets.getD (s.state X).plInd #[]) A) 0 [] (ntS0 s X)).2 ≠ 0 := by
    intro h0
    rw [hstep, h0] at hnb
    simp at hnb
  have hstep' : step c s = (candLoop c (ntLoc c s X A) (c.sets.getD (s.state X).plInd #[])
      (reduces c (c.sets.getD (s.state X).plInd #[]) A) 0 [] (ntS0 s X)).1 := by
    rw [hstep]
    have : ((candLoop c (ntLoc c s X A) (c.sets.getD (s.state X).plInd #[])
      (reduces c (c.sets.getD (s.state X).plInd #[]) A) 0 [] (ntS0 s X)).2 == 0) = false := by
      simpa using hn0
    rw [this]; rfl
  rw [← hstep'] at l1 l2
  obtain ⟨e1, e2, e3⟩ := l2 hev
  rcases e3 with ⟨h0, _⟩ | ⟨_, k0, e3, e4⟩
  · exact absurd h0 hn0
  -- the new top state
  have hstX : (step c s).state X = { s.state X with pos := (s.state X).pos - 1, plInd := k0 } := by
    show (step c s).states.getD X default = _
    rw [e3, getD_set!, if_pos ⟨rfl, hXlt⟩]
  have hstO : ∀ y, y ≠ X → (step c s).state y = s.state y := by
    intro y hy
    show (step c s).states.getD y default = _
    rw [e3, getD_set!, if_neg (fun h => hy h.1.symm)]; rfl
  have hanode : ∀ y, ((step c s).state y).anode = (s.state y).anode := by
    intro y
    by_cases hy : y = X
    · subst hy; rw [hstX]
    · rw [hstO y hy]
  have htgX : tgt (step c s) ((step c s).state X) = tgt s (s.state X) := by
    rw [hstX]; exact tgt_congr (hanode _)
  -- a candidate
  obtain ⟨i0, hi0, hf0⟩ := cand_exists_all hcc (s := s) (sid := X) hr hpos hitem hsym
  obtain ⟨sr, so, rl', kids0, hsit, hr', hlhs, hE, hkid, hE2⟩ := cand_facts_all hc hi0 hf0
  have hso : so = k0 := by
    have := e4 i0 hi0 hf0
    rw [hsit] at this; exact this
  subst hso
  obtain ⟨rl1, γ, r1, hcov, hder⟩ := hinv.rc X hXmem
  rw [hr] at r1; injection r1 with r1; subst r1
  have hcurX : cur (s.state X) = (s.state X).plInd := by unfold cur; rw [if_neg hpos]
  rw [hcurX] at hder
  have hcur' : cur ((step c s).state X) = so := by
    rw [hstX]; unfold cur; simp only
    split
    · rename_i h0
      have hE2' : EarleyF g ok toks so ⟨(s.state X).rule, (s.state X).pos - 1, (s.state X).orig⟩ := hE2
      rw [h0] at hE2'
      exact hE2'.dot_zero
    · rfl
  have hrcX : RCtx g toks ((step c s).state X) := by
    refine ⟨rl0, γ, by rw [hstX]; exact hr, hcov, ?_⟩
    rw [hcur']
    have : ((step c s).state X).pos = (s.state X).pos - 1 := by rw [hstX]
    rw [this]
    exact der_back hpos hsym hkid hder
  refine hinv.step_of hst hgood' (by rw [e1]; exact HMono.refl _) (fun y _ => hanode y) ?_ ?_ ?_
  · intro x hx
    have hne : x ≠ X := by
      have := hgood.top_max hst x hx
      omega
    exact ⟨by rw [e2, hst]; exact List.mem_cons_of_mem _ hx, hstO x hne⟩
  · intro x hx
    rw [e2, hst] at hx
    rcases List.mem_cons.mp hx with rfl | hx
    · right
      refine ⟨hrcX, fun a' ha' => ?_⟩
      rw [htgX, e1]
      rw [hanode] at ha'
      exact hinv.inpl x hXmem a' ha'
    · exact Or.inl hx
  · intro π t ho
    have hXmem' : X ∈ (step c s).stack := by rw [e2]; exact hXmem
    have hsplit : ∀ kids, PT.ValidListAt g toks kids (rl0.rhs.take (s.state X).pos) (s.state X).orig
        (cur (s.state X)) → ∃ pre x, kids = pre ++ [x] ∧ pre.length = (s.state X).pos - 1 ∧
        PT.ValidListAt g toks pre (rl0.rhs.take ((step c s).state X).pos) ((step c s).state X).orig
          (cur ((step c s).state X)) := by
      intro kids hk
      rw [hcurX] at hk
      obtain ⟨pre, r2, rl2, gks, m', rfl, q2, q3, q4, q5, q6⟩ := split_kids hpos hsym hk
      obtain ⟨i, hi, hi2, hpass⟩ := cand_complete hcc hsr hokd hr hpos hsym hitem hcov hder q3 q4 q5 q6
      have := e4 i hi (by rw [hi2]; exact hpass)
      rw [hi2] at this
      have hm' : m' = so := this
      subst hm'
      refine ⟨pre, _, rfl, q2, ?_⟩
      rw [hcur', hstX]; exact q3
    cases ho with
    | @owner an rl2 kids nm slots h1 h2 h3 h4 h5 h6 h7 h8 h9 =>
      rw [hr] at h3; injection h3 with h3; subst h3
      obtain ⟨pre, x, rfl, hprelen, hpre⟩ := hsplit kids h5
      refine Ev.owe hXmem' (.owner (a := an) (kids := pre) (by rw [htgX]; exact h1)
        (by rw [hanode]; exact h2) (by rw [hstX]; exact hr) h4 hpre h6 ?_ ?_ h9)
      · intro d q hd' ho hq
        have hq' : q < (s.state X).pos - 1 := by rw [hstX] at hq; exact hq
        rw [h7 d q hd' ho (by omega)]
        congr 1
        rw [List.getD_eq_getElem?_getD, List.getD_eq_getElem?_getD,
          List.getElem?_append_left (by omega)]
      · intro d q hd' ho hq
        have hq' : (s.state X).pos - 1 ≤ q := by rw [hstX] at hq; exact hq
        rcases Nat.eq_or_lt_of_le hq' with e | hlt
        · subst e; rw [hd] at ho; cases ho
        · exact (h8 d q hd' ho (by omega)).2
    | @pass rl2 kids q h1 h2 h3 h4 h5 h6 =>
      rw [hr] at h3; injection h3 with h3; subst h3
      obtain ⟨pre, x, rfl, hprelen, hpre⟩ := hsplit kids h4
      have hlt : q < (s.state X).pos - 1 := by
        rcases Nat.lt_or_ge q ((s.state X).pos - 1) with h | h
        · exact h
        · have : q = (s.state X).pos - 1 := by omega
          subst this
          rw [hd] at h6; cases h6
      have e : (pre ++ [x]).getD q default = pre.getD q default := by
        rw [List.getD_eq_getElem?_getD, List.getD_eq_getElem?_getD,
          List.getElem?_append_left (by omega)]
      rw [e]
      exact Ev.owe hXmem' (.pass (kids := pre) (by rw [htgX]; exact h1) (by rw [hanode]; exact h2)
        (by rw [hstX]; exact hr) hpre (by rw [hstX]; exact hlt) h6)
    | @passNil rl2 h1 h2 h3 h4 =>
      exact Ev.owe hXmem' (.passNil (by rw [htgX]; exact h1) (by rw [hanode]; exact h2)
        (by rw [hstX]; exact h3) h4)

end

end Yaep.CP
